import CalVerif.Model.Geometry
import CalVerif.Spec.Geometry
import CalVerif.Model.Biff
/-! Helper lemmas for `Props/C17.lean`. -/
namespace Geometry

/-! ### `u32` arithmetic without overflow -/

theorem addU_ok (m : Mode) {a b : Nat} (h : a + b < U32) : addU m a b = .ok (a + b) := by
  unfold addU; rw [if_pos h]

theorem mulU_ok (m : Mode) {a b : Nat} (h : a * b < U32) : mulU m a b = .ok (a * b) := by
  unfold mulU; rw [if_pos h]

theorem toNat_ofNat_lt {n : Nat} (h : n < 256) : (UInt8.ofNat n).toNat = n := by
  rw [UInt8.toNat_ofNat']; exact Nat.mod_eq_of_lt h

/-! ### the digit phase of `get_row_and_optional_column` -/

theorem rcStep_digit (m : Mode) (s : RC) (d : Nat) (hd : d < 10) (hr : s.readrow = true)
    (h1 : d * s.pow < U32) (h2 : s.row + d * s.pow < U32) (h3 : s.pow * 10 < U32) :
    rcStep m s (UInt8.ofNat (48 + d)) = .ok { s with row := s.row + d * s.pow, pow := s.pow * 10 } := by
  have hb : (UInt8.ofNat (48 + d)).toNat = 48 + d := toNat_ofNat_lt (by omega)
  unfold rcStep
  rw [hb, if_pos (by omega)]
  unfold rcDigit
  have e : 48 + d - 48 = d := by omega
  rw [e]
  simp only [hr, not_true_eq_false, if_false, mulU_ok m h1, addU_ok m h2, mulU_ok m h3]

/-- folding the reversed decimal digits of `n` adds `n * pow` to the row accumulator; the power left behind
    is irrelevant (the first letter resets it) -/
theorem rcFold_decRev (m : Mode) (rest : Bytes) (c : Nat) :
    ∀ (fuel n a p : Nat), n ≤ fuel → a + 10 * (n * p) < U32 →
      ∃ p', rcFold m (decRev fuel n ++ rest) ⟨a, c, p, true⟩ = rcFold m rest ⟨a + n * p, c, p', true⟩ := by
  intro fuel
  induction fuel with
  | zero =>
    intro n a p hn _
    have : n = 0 := by omega
    subst this
    exact ⟨p, by simp [decRev]⟩
  | succ f ih =>
    intro n a p hn hb
    by_cases h0 : n = 0
    · subst h0; exact ⟨p, by simp [decRev]⟩
    · have hsplit : n * p = 10 * (n / 10 * p) + n % 10 * p := by
        have hn' : n = 10 * (n / 10) + n % 10 := (Nat.div_add_mod n 10).symm
        calc n * p = (10 * (n / 10) + n % 10) * p := by rw [← hn']
          _ = 10 * (n / 10 * p) + n % 10 * p := by rw [Nat.add_mul, Nat.mul_assoc]
      have hp : p ≤ n * p := Nat.le_mul_of_pos_left p (by omega)
      have hstep := rcStep_digit m ⟨a, c, p, true⟩ (n % 10) (Nat.mod_lt n (by omega)) rfl
        (by simp only; omega) (by simp only; omega) (by simp only; omega)
      obtain ⟨p', hih⟩ := ih (n / 10) (a + n % 10 * p) (p * 10) (by omega)
        (by
          have : n / 10 * (p * 10) = 10 * (n / 10 * p) := by ac_rfl
          rw [this]; omega)
      refine ⟨p', ?_⟩
      simp only [decRev, h0, if_false, List.cons_append, rcFold, hstep]
      rw [hih]
      congr 2
      have : n / 10 * (p * 10) = 10 * (n / 10 * p) := by ac_rfl
      rw [this]; omega

/-! ### the letter phase -/

theorem rcStep_letter (m : Mode) (R a p k : Nat) (hk : k < 26)
    (h1 : (k + 1) * p < U32) (h2 : a + (k + 1) * p < U32) (h3 : p * 26 < U32) :
    rcStep m ⟨R, a, p, false⟩ (UInt8.ofNat (65 + k)) = .ok ⟨R, a + (k + 1) * p, p * 26, false⟩ := by
  have hb : (UInt8.ofNat (65 + k)).toNat = 65 + k := toNat_ofNat_lt (by omega)
  unfold rcStep
  rw [hb, if_neg (by omega), if_pos (by omega)]
  unfold rcLetter
  have e : 65 + k - 65 = k := by omega
  rw [e]
  simp only [Bool.false_eq_true, false_and, if_false, mulU_ok m h1, addU_ok m h2, mulU_ok m h3]

theorem rcStep_eq_letter (m : Mode) (s : RC) (k : Nat) (hk : k < 26) :
    rcStep m s (UInt8.ofNat (65 + k)) = rcLetter m s k := by
  have hb : (UInt8.ofNat (65 + k)).toNat = 65 + k := toNat_ofNat_lt (by omega)
  unfold rcStep
  rw [hb, if_neg (by omega), if_pos (by omega)]
  have e : 65 + k - 65 = k := by omega
  rw [e]

/-- the first letter met while still reading the row behaves like a letter met with `pow = 1` -/
theorem rcStep_first_letter (m : Mode) (R p0 k : Nat) (hR : R ≠ 0) (hk : k < 26) :
    rcStep m ⟨R, 0, p0, true⟩ (UInt8.ofNat (65 + k)) = rcStep m ⟨R, 0, 1, false⟩ (UInt8.ofNat (65 + k)) := by
  rw [rcStep_eq_letter m _ k hk, rcStep_eq_letter m _ k hk]
  unfold rcLetter
  simp [hR]

/-- folding the reversed bijective base-26 digits of `v` adds `v * pow` to the column accumulator -/
theorem rcFold_colRev (m : Mode) (rest : Bytes) (R : Nat) :
    ∀ (fuel v a p : Nat), v ≤ fuel → a + 26 * (v * p) < U32 →
      ∃ p', rcFold m (colRev fuel v ++ rest) ⟨R, a, p, false⟩ = rcFold m rest ⟨R, a + v * p, p', false⟩ := by
  intro fuel
  induction fuel with
  | zero =>
    intro v a p hv _
    have : v = 0 := by omega
    subst this
    exact ⟨p, by simp [colRev]⟩
  | succ f ih =>
    intro v a p hv hb
    by_cases h0 : v = 0
    · subst h0; exact ⟨p, by simp [colRev]⟩
    · have hv' : v = 26 * ((v - 1) / 26) + ((v - 1) % 26 + 1) := by
        have := (Nat.div_add_mod (v - 1) 26).symm; omega
      have hsplit : v * p = 26 * ((v - 1) / 26 * p) + ((v - 1) % 26 + 1) * p := by
        calc v * p = (26 * ((v - 1) / 26) + ((v - 1) % 26 + 1)) * p := by rw [← hv']
          _ = 26 * ((v - 1) / 26 * p) + ((v - 1) % 26 + 1) * p := by rw [Nat.add_mul, Nat.mul_assoc]
      have hp : p ≤ v * p := Nat.le_mul_of_pos_left p (by omega)
      have hk : (v - 1) % 26 < 26 := Nat.mod_lt _ (by omega)
      have hstep := rcStep_letter m R a p ((v - 1) % 26) hk (by omega) (by omega) (by omega)
      have hcomm : (v - 1) / 26 * (p * 26) = 26 * ((v - 1) / 26 * p) := by ac_rfl
      obtain ⟨p', hih⟩ := ih ((v - 1) / 26) (a + ((v - 1) % 26 + 1) * p) (p * 26) (by omega)
        (by rw [hcomm]; omega)
      refine ⟨p', ?_⟩
      simp only [colRev, h0, if_false, List.cons_append, rcFold, hstep]
      rw [hih]
      congr 2
      rw [hcomm]; omega

theorem colRev_ne_nil (fuel v : Nat) (hv : 0 < v) (hf : v ≤ fuel) : colRev fuel v ≠ [] := by
  cases fuel with
  | zero => omega
  | succ f => simp [colRev, Nat.ne_of_gt hv]

/-- letters met right after the digits: from `readrow = true` with a non-zero row -/
theorem rcFold_colRev_first (m : Mode) (rest : Bytes) (R p0 : Nat) (hR : R ≠ 0)
    (fuel v : Nat) (hv : 0 < v) (hf : v ≤ fuel) (hb : 26 * v < U32) :
    ∃ p', rcFold m (colRev fuel v ++ rest) ⟨R, 0, p0, true⟩ = rcFold m rest ⟨R, v, p', false⟩ := by
  obtain ⟨p', h⟩ := rcFold_colRev m rest R fuel v 0 1 hf (by omega)
  refine ⟨p', ?_⟩
  rw [Nat.zero_add, Nat.mul_one] at h
  rw [← h]
  cases fuel with
  | zero => omega
  | succ f =>
    simp only [colRev, Nat.ne_of_gt hv, if_false, List.cons_append, rcFold]
    rw [rcStep_first_letter m R p0 _ hR (Nat.mod_lt _ (by omega))]

/-! ### one cell name -/

theorem getRowColumn_renderCell (m : Mode) (row col : Nat) (hr : row < 1048576) (hc : col < 16384) :
    getRowColumn m (renderCell row col) = .ok (row, col) := by
  have hrev : (renderCell row col).reverse = decRev (row + 1) (row + 1) ++ (colRev (col + 1) (col + 1) ++ []) := by
    simp [renderCell, colName, dec]
  obtain ⟨p1, h1⟩ := rcFold_decRev m (colRev (col + 1) (col + 1) ++ []) 0 (row + 1) (row + 1) 0 1
    (Nat.le_refl _) (by simp only [U32]; omega)
  obtain ⟨p2, h2⟩ := rcFold_colRev_first m [] (0 + (row + 1) * 1) p1 (by omega) (col + 1) (col + 1)
    (by omega) (Nat.le_refl _) (by simp only [U32]; omega)
  unfold getRowColumn getRowAndOptionalColumn
  rw [hrev, h1, h2]
  simp only [rcFold]
  have e1 : 0 + (row + 1) * 1 = row + 1 := by omega
  simp only [e1, Nat.add_one_ne_zero, if_false, Nat.add_sub_cancel]

/-! ### splitting at the colon -/

theorem mem_decRev (b : UInt8) : ∀ (fuel n : Nat), b ∈ decRev fuel n → 48 ≤ b.toNat ∧ b.toNat ≤ 57 := by
  intro fuel
  induction fuel with
  | zero => intro n h; simp [decRev] at h
  | succ f ih =>
    intro n h
    by_cases h0 : n = 0
    · simp [decRev, h0] at h
    · simp only [decRev, h0, if_false, List.mem_cons] at h
      rcases h with h | h
      · subst h
        have : n % 10 < 10 := Nat.mod_lt _ (by omega)
        rw [toNat_ofNat_lt (by omega)]; omega
      · exact ih _ h

theorem mem_colRev (b : UInt8) : ∀ (fuel v : Nat), b ∈ colRev fuel v → 65 ≤ b.toNat ∧ b.toNat ≤ 90 := by
  intro fuel
  induction fuel with
  | zero => intro n h; simp [colRev] at h
  | succ f ih =>
    intro v h
    by_cases h0 : v = 0
    · simp [colRev, h0] at h
    · simp only [colRev, h0, if_false, List.mem_cons] at h
      rcases h with h | h
      · subst h
        have : (v - 1) % 26 < 26 := Nat.mod_lt _ (by omega)
        rw [toNat_ofNat_lt (by omega)]; omega
      · exact ih _ h

theorem renderCell_noColon (row col : Nat) : ∀ b ∈ renderCell row col, b ≠ 58 := by
  intro b hb e
  subst e
  simp only [renderCell, colName, dec, List.mem_append, List.mem_reverse] at hb
  rcases hb with hb | hb
  · have := mem_colRev _ _ _ hb
    have h58 : (58 : UInt8).toNat = 58 := by decide
    omega
  · have := mem_decRev _ _ _ hb
    have h58 : (58 : UInt8).toNat = 58 := by decide
    omega

theorem splitColon_noColon : ∀ (l : Bytes), (∀ b ∈ l, b ≠ 58) → splitColon l = [l]
  | [], _ => rfl
  | c :: cs, h => by
    have hc : c ≠ 58 := h c (List.mem_cons_self ..)
    have ih := splitColon_noColon cs (fun b hb => h b (List.mem_cons_of_mem _ hb))
    simp [splitColon, hc, ih]

theorem splitColon_append : ∀ (a b : Bytes), (∀ x ∈ a, x ≠ 58) →
    splitColon (a ++ 58 :: b) = a :: splitColon b
  | [], b, _ => by simp [splitColon]
  | c :: cs, b, h => by
    have hc : c ≠ 58 := h c (List.mem_cons_self ..)
    have ih := splitColon_append cs b (fun x hx => h x (List.mem_cons_of_mem _ hx))
    simp [splitColon, hc, ih]

/-! ### whole references -/

theorem getDimension_renderRef2 (m : Mode) (d : Rect) (hv : d.Valid) :
    getDimension m (renderRef2 d) = .ok d := by
  obtain ⟨h1, h2, h3, h4⟩ := hv
  unfold getDimension renderRef2
  rw [splitColon_append _ _ (renderCell_noColon _ _), splitColon_noColon _ (renderCell_noColon _ _)]
  simp only [parseParts, getRowColumn_renderCell m d.sr d.sc (by omega) (by omega),
    getRowColumn_renderCell m d.er d.ec h3 h4]
  rw [if_neg (by omega)]

theorem getDimension_renderCell (m : Mode) (row col : Nat) (hr : row < 1048576) (hc : col < 16384) :
    getDimension m (renderCell row col) = .ok ⟨row, col, row, col⟩ := by
  unfold getDimension
  rw [splitColon_noColon _ (renderCell_noColon _ _)]
  simp only [parseParts, getRowColumn_renderCell m row col hr hc]

theorem getDimension_renderRef (m : Mode) (d : Rect) (hv : d.Valid) :
    getDimension m (renderRef d) = .ok d := by
  unfold renderRef
  split
  · rename_i h
    obtain ⟨h1, h2, h3, h4⟩ := hv
    rw [getDimension_renderCell m d.sr d.sc (by omega) (by omega)]
    obtain ⟨a, b, c, e⟩ := d
    simp only at h
    simp [h.1, h.2]
  · exact getDimension_renderRef2 m d hv

end Geometry

namespace Geometry

/-! ### xls MERGEDCELLS -/

theorem u16le_length (x : Nat) : (u16le x).length = 2 := rfl

theorem encodeRef8_length (d : Rect) : (encodeRef8 d).length = 8 := by
  simp [encodeRef8, u16le_length]

theorem flatMap_encodeRef8_length (l : List Rect) : (l.flatMap encodeRef8).length = 8 * l.length := by
  induction l with
  | nil => rfl
  | cons d ds ih => simp only [List.flatMap_cons, List.length_append, encodeRef8_length, ih, List.length_cons]; omega

theorem readU16At_u16le (pre post : Bytes) (x off : Nat) (hx : x < 65536) (hoff : off = pre.length) :
    readU16At (pre ++ (u16le x ++ post)) off = .ok x := by
  subst hoff
  unfold readU16At
  rw [List.drop_left']
  · simp only [u16le, List.cons_append, List.nil_append]
    rw [toNat_ofNat_lt (Nat.mod_lt _ (by omega)), toNat_ofNat_lt (Nat.mod_lt _ (by omega))]
    congr 1; omega
  · rfl

/-- the loop of `parse_merge_cells` positioned after `done` entries reads the remaining `todo` entries -/
theorem mcLoop_encode (hd : Bytes) (hhd : hd.length = 2) (tail : Bytes) :
    ∀ (todo done : List Rect), done.length + todo.length < 8192 → (∀ d ∈ todo, d.Fits16) →
      mcLoop (hd ++ ((done ++ todo).flatMap encodeRef8 ++ tail)) todo.length done.length = .ok todo := by
  intro todo
  induction todo with
  | nil => intro done _ _; rfl
  | cons d ds ih =>
    intro done hlen hfit
    obtain ⟨f1, f2, f3, f4⟩ := hfit d (List.mem_cons_self ..)
    have hrest := ih (done ++ [d]) (by simp only [List.length_append, List.length_cons, List.length_nil] at *; omega)
      (fun x hx => hfit x (List.mem_cons_of_mem _ hx))
    simp only [List.length_cons] at hlen
    -- the record as prefix ++ the four fields ++ rest
    have hsplit : hd ++ ((done ++ d :: ds).flatMap encodeRef8 ++ tail) =
        (hd ++ done.flatMap encodeRef8) ++ (u16le d.sr ++ (u16le d.er ++ (u16le d.sc ++ (u16le d.ec ++
          (ds.flatMap encodeRef8 ++ tail))))) := by
      simp [List.flatMap_append, encodeRef8, List.append_assoc]
    have hpre : (hd ++ done.flatMap encodeRef8).length = 2 + done.length * 8 := by
      rw [List.length_append, hhd, flatMap_encodeRef8_length]; omega
    have r1 : readU16At (hd ++ ((done ++ d :: ds).flatMap encodeRef8 ++ tail)) (2 + done.length * 8) = .ok d.sr := by
      rw [hsplit]; exact readU16At_u16le _ _ d.sr _ f1 hpre.symm
    have r2 : readU16At (hd ++ ((done ++ d :: ds).flatMap encodeRef8 ++ tail)) (2 + done.length * 8 + 2) = .ok d.er := by
      rw [hsplit, show ∀ (a b c : Bytes), a ++ (b ++ c) = (a ++ b) ++ c from fun a b c => (List.append_assoc a b c).symm]
      exact readU16At_u16le _ _ d.er _ f3 (by simp only [List.length_append, u16le_length, hpre])
    have r3 : readU16At (hd ++ ((done ++ d :: ds).flatMap encodeRef8 ++ tail)) (2 + done.length * 8 + 4) = .ok d.sc := by
      rw [hsplit]
      have : hd ++ done.flatMap encodeRef8 ++ (u16le d.sr ++ (u16le d.er ++ (u16le d.sc ++ (u16le d.ec ++
          (ds.flatMap encodeRef8 ++ tail))))) = (hd ++ done.flatMap encodeRef8 ++ u16le d.sr ++ u16le d.er) ++
          (u16le d.sc ++ (u16le d.ec ++ (ds.flatMap encodeRef8 ++ tail))) := by simp only [List.append_assoc]
      rw [this]
      exact readU16At_u16le _ _ d.sc _ f2 (by simp only [List.length_append, u16le_length, hpre])
    have r4 : readU16At (hd ++ ((done ++ d :: ds).flatMap encodeRef8 ++ tail)) (2 + done.length * 8 + 6) = .ok d.ec := by
      rw [hsplit]
      have : hd ++ done.flatMap encodeRef8 ++ (u16le d.sr ++ (u16le d.er ++ (u16le d.sc ++ (u16le d.ec ++
          (ds.flatMap encodeRef8 ++ tail))))) = (hd ++ done.flatMap encodeRef8 ++ u16le d.sr ++ u16le d.er ++
          u16le d.sc) ++ (u16le d.ec ++ (ds.flatMap encodeRef8 ++ tail)) := by simp only [List.append_assoc]
      rw [this]
      exact readU16At_u16le _ _ d.ec _ f4 (by simp only [List.length_append, u16le_length, hpre])
    have e : (done ++ [d] ++ ds) = done ++ d :: ds := by simp
    have el : (done ++ [d]).length = done.length + 1 := by simp
    rw [e, el] at hrest
    simp only [List.length_cons]
    unfold mcLoop
    simp only [r1, r2, r3, r4, hrest]

/-- a 16-bit read inside the record succeeds -/
theorem readU16At_ok (r : Bytes) (off : Nat) (h : off + 2 ≤ r.length) : ∃ v, readU16At r off = .ok v := by
  unfold readU16At
  have hl : (r.drop off).length = r.length - off := List.length_drop
  match hd : r.drop off with
  | [] => rw [hd] at hl; simp at hl; omega
  | [_] => rw [hd] at hl; simp at hl; omega
  | a :: b :: _ => exact ⟨_, rfl⟩

/-- the loop never fails once the record is known to hold all the entries it announces -/
theorem mcLoop_ok (r : Bytes) : ∀ (k i : Nat), 2 + 8 * (i + k) ≤ r.length → ∃ ds, mcLoop r k i = .ok ds
  | 0, _, _ => ⟨[], rfl⟩
  | k + 1, i, h => by
    obtain ⟨v1, h1⟩ := readU16At_ok r (2 + i * 8) (by omega)
    obtain ⟨v2, h2⟩ := readU16At_ok r (2 + i * 8 + 2) (by omega)
    obtain ⟨v3, h3⟩ := readU16At_ok r (2 + i * 8 + 4) (by omega)
    obtain ⟨v4, h4⟩ := readU16At_ok r (2 + i * 8 + 6) (by omega)
    obtain ⟨ds, h5⟩ := mcLoop_ok r k (i + 1) (by omega)
    refine ⟨⟨v1, v3, v2, v4⟩ :: ds, ?_⟩
    unfold mcLoop
    simp only [h1, h2, h3, h4, h5]

end Geometry

namespace Geometry

/-! ### XML events of the merge readers -/

theorem dropWhile_noColon : ∀ (pre rest : List Char), (∀ c ∈ pre, c ≠ ':') →
    (pre ++ ':' :: rest).dropWhile (· ≠ ':') = ':' :: rest
  | [], rest, _ => by
    rw [List.nil_append, List.dropWhile_cons, if_neg (by simp)]
  | c :: cs, rest, h => by
    have hc : c ≠ ':' := h c (List.mem_cons_self ..)
    have ih := dropWhile_noColon cs rest (fun x hx => h x (List.mem_cons_of_mem _ hx))
    rw [List.cons_append, List.dropWhile_cons, if_pos (by simpa using hc)]
    exact ih

theorem dropWhile_noColon_nil : ∀ (n : List Char), (∀ c ∈ n, c ≠ ':') → n.dropWhile (· ≠ ':') = []
  | [], _ => rfl
  | c :: cs, h => by
    have hc : c ≠ ':' := h c (List.mem_cons_self ..)
    have ih := dropWhile_noColon_nil cs (fun x hx => h x (List.mem_cons_of_mem _ hx))
    rw [List.dropWhile_cons, if_pos (by simpa using hc)]
    exact ih

theorem localName_qn (pre n : List Char) (hp : ∀ c ∈ pre, c ≠ ':') (hn : ∀ c ∈ n, c ≠ ':') :
    localName (qn pre n) = n := by
  by_cases hpre : pre = []
  · simp only [qn, hpre, if_true, localName]
    rw [dropWhile_noColon_nil n hn]
  · simp only [qn, hpre, if_false, localName]
    rw [dropWhile_noColon pre n hp]

theorem nMergeCell_noColon : ∀ c ∈ nMergeCell, c ≠ ':' := by decide
theorem nMergeCells_noColon : ∀ c ∈ nMergeCells, c ≠ ':' := by decide
theorem nMergeCell_ne : nMergeCell ≠ nMergeCells := by decide

theorem attr?_ref : ∀ (a1 a2 : List (List Char × Bytes)) (v : Bytes), (∀ a ∈ a1, a.1 ≠ nRef) →
    attr? (a1 ++ (nRef, v) :: a2) nRef = some v
  | [], a2, v, _ => by simp [attr?]
  | a :: as, a2, v, h => by
    have ha : a.1 ≠ nRef := h a (List.mem_cons_self ..)
    have ih := attr?_ref as a2 v (fun x hx => h x (List.mem_cons_of_mem _ hx))
    unfold attr? at ih ⊢
    rw [List.cons_append, List.find?_cons_of_neg (by simpa using ha)]
    exact ih

theorem regionsOfSheet_inert (m : Mode) : ∀ (l rest : List Ev), (∀ e ∈ l, e.Inert) →
    regionsOfSheet m (l ++ rest) = regionsOfSheet m rest
  | [], _, _ => rfl
  | e :: es, rest, h => by
    have he := h e (List.mem_cons_self ..)
    have ih := regionsOfSheet_inert m es rest (fun x hx => h x (List.mem_cons_of_mem _ hx))
    cases e with
    | start n attrs => simp only [Ev.Inert] at he; simp [regionsOfSheet, he.1, ih]
    | end_ n => simp [regionsOfSheet, ih]
    | text t => simp [regionsOfSheet, ih]
    | other => simp [regionsOfSheet, ih]

theorem readMergeCells_inert (m : Mode) : ∀ (l rest : List Ev), (∀ e ∈ l, e.Inert) →
    readMergeCells m (l ++ rest) = readMergeCells m rest
  | [], _, _ => rfl
  | e :: es, rest, h => by
    have he := h e (List.mem_cons_self ..)
    have ih := readMergeCells_inert m es rest (fun x hx => h x (List.mem_cons_of_mem _ hx))
    cases e with
    | start n attrs => simp only [Ev.Inert] at he; simp [readMergeCells, he.1, ih]
    | end_ n => simp only [Ev.Inert] at he; simp [readMergeCells, he, ih]
    | text t => simp [readMergeCells, ih]
    | other => simp [readMergeCells, ih]

theorem worksheetMergeCells_inert (m : Mode) : ∀ (l rest : List Ev), (∀ e ∈ l, e.Inert) →
    worksheetMergeCells m (l ++ rest) = worksheetMergeCells m rest
  | [], _, _ => rfl
  | e :: es, rest, h => by
    have he := h e (List.mem_cons_self ..)
    have ih := worksheetMergeCells_inert m es rest (fun x hx => h x (List.mem_cons_of_mem _ hx))
    cases e with
    | start n attrs => simp only [Ev.Inert] at he; simp [worksheetMergeCells, he.2, ih]
    | end_ n => simp [worksheetMergeCells, ih]
    | text t => simp [worksheetMergeCells, ih]
    | other => simp [worksheetMergeCells, ih]

theorem getDimension_refText (m : Mode) (d : MergeDecl) (hv : d.rect.Valid) :
    getDimension m d.refText = .ok d.rect := by
  unfold MergeDecl.refText
  split
  · exact getDimension_renderRef2 m d.rect hv
  · exact getDimension_renderRef m d.rect hv

theorem readMergeCells_cell (m : Mode) (pre : List Char) (hp : ∀ c ∈ pre, c ≠ ':') (d : MergeDecl) (hd : d.Ok)
    (rest : List Ev) (ds : List Rect) (h : readMergeCells m rest = .ok ds) :
    readMergeCells m (renderMergeCell pre d ++ rest) = .ok (d.rect :: ds) := by
  obtain ⟨hv, ha, hg⟩ := hd
  have hl := localName_qn pre nMergeCell hp nMergeCell_noColon
  unfold renderMergeCell
  simp only [List.cons_append, readMergeCells, hl, if_true, attr?_ref _ _ _ ha, getDimension_refText m d hv,
    nMergeCell_ne, if_false]
  rw [readMergeCells_inert m d.gap rest hg, h]

theorem regionsOfSheet_cell (m : Mode) (pre : List Char) (hp : ∀ c ∈ pre, c ≠ ':') (d : MergeDecl) (hd : d.Ok)
    (rest : List Ev) (ds : List Rect) (h : regionsOfSheet m rest = .ok ds) :
    regionsOfSheet m (renderMergeCell pre d ++ rest) = .ok (d.rect :: ds) := by
  obtain ⟨hv, ha, hg⟩ := hd
  have hl := localName_qn pre nMergeCell hp nMergeCell_noColon
  unfold renderMergeCell
  simp only [List.cons_append, regionsOfSheet, hl, if_true, attr?_ref _ _ _ ha, getDimension_refText m d hv]
  rw [regionsOfSheet_inert m d.gap rest hg, h]

theorem readMergeCells_render (m : Mode) (pre : List Char) (hp : ∀ c ∈ pre, c ≠ ':') (after : List Ev) :
    ∀ (ds : List MergeDecl), (∀ d ∈ ds, d.Ok) →
      readMergeCells m (renderMergeCells pre ds ++ after) = .ok (ds.map (·.rect))
  | [], _ => by
    have hl := localName_qn pre nMergeCells hp nMergeCells_noColon
    simp [renderMergeCells, readMergeCells, hl]
  | d :: ds, h => by
    have ih := readMergeCells_render m pre hp after ds (fun x hx => h x (List.mem_cons_of_mem _ hx))
    have := readMergeCells_cell m pre hp d (h d (List.mem_cons_self ..)) _ _ ih
    simpa [renderMergeCells, List.flatMap_cons, List.append_assoc] using this

theorem regionsOfSheet_render (m : Mode) (pre : List Char) (hp : ∀ c ∈ pre, c ≠ ':') (after : List Ev)
    (hafter : ∀ e ∈ after, e.Inert) :
    ∀ (ds : List MergeDecl), (∀ d ∈ ds, d.Ok) →
      regionsOfSheet m (renderMergeCells pre ds ++ after) = .ok (ds.map (·.rect))
  | [], _ => by
    have := regionsOfSheet_inert m after [] hafter
    simp only [List.append_nil] at this
    simp [renderMergeCells, regionsOfSheet, this]
  | d :: ds, h => by
    have ih := regionsOfSheet_render m pre hp after hafter ds (fun x hx => h x (List.mem_cons_of_mem _ hx))
    have := regionsOfSheet_cell m pre hp d (h d (List.mem_cons_self ..)) _ _ ih
    simpa [renderMergeCells, List.flatMap_cons, List.append_assoc] using this

end Geometry

namespace Geometry

/-! ### table parts -/

theorem parseU32_cnt (n : Nat) (hn : n ≤ 9) : parseU32 (cnt n) = .ok n := by
  have hb : (UInt8.ofNat (48 + n)).toNat = 48 + n := toNat_ofNat_lt (by omega)
  have hne : UInt8.ofNat (48 + n) ≠ 43 := by
    intro e
    have h43 : (43 : UInt8).toNat = 43 := by decide
    rw [e] at hb; omega
  unfold cnt parseU32
  simp only [hne, if_false]
  unfold parseU32Digits
  rw [hb, if_pos (by omega)]
  simp only [Nat.zero_mul, Nat.zero_add]
  rw [if_pos (by simp only [U32]; omega)]
  unfold parseU32Digits
  congr 1; omega

theorem tableAttrs_unrecognised : ∀ (extra rest : List (List Char × Bytes)) (t : TableMeta),
    (∀ a ∈ extra, a.1 ∉ tableKeys) → tableAttrs (extra ++ rest) t = tableAttrs rest t
  | [], _, _, _ => rfl
  | (k, v) :: as, rest, t, h => by
    have hk := h (k, v) (List.mem_cons_self ..)
    have ih := tableAttrs_unrecognised as rest t (fun x hx => h x (List.mem_cons_of_mem _ hx))
    simp only [tableKeys, List.mem_cons, List.not_mem_nil, or_false, not_or] at hk
    obtain ⟨h1, h2, h3, h4, h5⟩ := hk
    simp only [List.cons_append, tableAttrs, h1, h2, h3, h4, h5, if_false, ih]

theorem tableAttrs_decl (t : TableDecl) (ht : t.Ok) :
    tableAttrs t.attrs {} = .ok ⟨t.name, renderRef2 t.rect, t.h, false, t.t⟩ := by
  obtain ⟨_, _, hex, _, _, _, _, hh, htot⟩ := ht
  unfold TableDecl.attrs
  rw [tableAttrs_unrecognised _ _ _ hex]
  have k1 : nRef ≠ nDisplayName := by decide
  have k2 : nHeaderRowCount ≠ nDisplayName := by decide
  have k3 : nHeaderRowCount ≠ nRef := by decide
  have k4 : nTotalsRowCount ≠ nDisplayName := by decide
  have k5 : nTotalsRowCount ≠ nRef := by decide
  have k6 : nTotalsRowCount ≠ nHeaderRowCount := by decide
  have k7 : nTotalsRowCount ≠ nInsertRow := by decide
  unfold TableDecl.h TableDecl.t
  cases hhdr : t.hdr with
  | none =>
    cases htt : t.tot with
    | none => simp [tableAttrs, k1]
    | some n =>
      have := (htot n htt).1
      simp [tableAttrs, k1, k4, k5, k6, k7, parseU32_cnt n (by omega)]
  | some h =>
    have hle := hh h hhdr
    cases htt : t.tot with
    | none => simp [tableAttrs, k1, k2, k3, parseU32_cnt h (by omega)]
    | some n =>
      have := (htot n htt).1
      simp [tableAttrs, k1, k2, k3, k4, k5, k6, k7, parseU32_cnt h (by omega), parseU32_cnt n (by omega)]

theorem readTablePart_inert : ∀ (l rest : List Ev) (t : TableMeta) (cols : List Bytes), (∀ e ∈ l, e.TInert) →
    readTablePart (l ++ rest) t cols = readTablePart rest t cols
  | [], _, _, _, _ => rfl
  | e :: es, rest, t, cols, h => by
    have he := h e (List.mem_cons_self ..)
    have ih := readTablePart_inert es rest t cols (fun x hx => h x (List.mem_cons_of_mem _ hx))
    cases e with
    | start n attrs => simp only [Ev.TInert] at he; simp [readTablePart, he.1, he.2, ih]
    | end_ n => simp only [Ev.TInert] at he; simp [readTablePart, he, ih]
    | text t => simp [readTablePart, ih]
    | other => simp [readTablePart, ih]

theorem nTable_noColon : ∀ c ∈ nTable, c ≠ ':' := by decide
theorem nTableColumn_noColon : ∀ c ∈ nTableColumn, c ≠ ':' := by decide

theorem filter_name (extra : List (List Char × Bytes)) (c : Bytes) (h : ∀ a ∈ extra, a.1 ≠ nName) :
    ((extra ++ [(nName, c)]).filter (fun a => a.1 = nName)).map (·.2) = [c] := by
  rw [List.filter_append]
  have : extra.filter (fun a => decide (a.1 = nName)) = [] := by
    rw [List.filter_eq_nil_iff]; intro a ha; simpa using h a ha
  rw [this]; simp

theorem readTablePart_columns (t : TableDecl) (ht : t.Ok) (rest : List Ev) (tm : TableMeta) :
    ∀ (cs : List Bytes) (acc : List Bytes),
      readTablePart (cs.flatMap (renderColumn t) ++ rest) tm acc = readTablePart rest tm (acc ++ cs)
  | [], acc => by simp
  | c :: cs, acc => by
    obtain ⟨hp, _, _, hce, _, hgap, _, _, _⟩ := ht
    have ih := readTablePart_columns t ⟨hp, ‹_›, ‹_›, hce, ‹_›, hgap, ‹_›, ‹_›, ‹_›⟩ rest tm cs (acc ++ [c])
    have hl := localName_qn t.pre nTableColumn hp nTableColumn_noColon
    have hne : nTableColumn ≠ nTable := by decide
    simp only [List.flatMap_cons, renderColumn, List.cons_append, List.append_assoc, readTablePart, hl, hne,
      if_false, if_true, filter_name _ _ hce]
    rw [readTablePart_inert t.gap _ _ _ hgap, ih]
    simp

/-- the table part reader returns the declared display name, reference text, row counts and column names -/
theorem readTablePart_decl (t : TableDecl) (ht : t.Ok) :
    readTablePart (renderTablePart t) {} [] = .ok (⟨t.name, renderRef2 t.rect, t.h, false, t.t⟩, t.cols) := by
  have ht' := ht
  obtain ⟨hp, _, _, _, hin, _, htail, _, _⟩ := ht
  have hl := localName_qn t.pre nTable hp nTable_noColon
  unfold renderTablePart
  simp only [readTablePart, hl, if_true, tableAttrs_decl t ht']
  rw [readTablePart_inert t.inner _ _ _ hin, readTablePart_columns t ht' _ _ t.cols [],
    readTablePart_inert t.tail _ _ _ htail]
  simp [readTablePart, hl]

/-! ### sheet relationship parts -/

theorem relAttrs_extra : ∀ (extra rest : List (List Char × Bytes)) (tg : Bytes) (ty : Bool),
    (∀ a ∈ extra, a.1 ≠ nTarget ∧ a.1 ≠ nType) → relAttrs (extra ++ rest) tg ty = relAttrs rest tg ty
  | [], _, _, _, _ => rfl
  | (k, v) :: as, rest, tg, ty, h => by
    have hk := h (k, v) (List.mem_cons_self ..)
    have ih := relAttrs_extra as rest tg ty (fun x hx => h x (List.mem_cons_of_mem _ hx))
    simp only [List.cons_append, relAttrs, hk.1, hk.2, if_false, ih]
    split <;> rfl

theorem relAttrs_decl (r : RelDecl) (hr : r.Ok) :
    relAttrs r.attrs [] false = (r.target, decide (r.typ = tableRelType)) := by
  unfold RelDecl.attrs
  rw [relAttrs_extra _ _ _ _ hr]
  have k1 : nTarget ≠ nId := by decide
  have k2 : nType ≠ nId := by decide
  have k3 : nType ≠ nTarget := by decide
  cases r.typeFirst <;> simp [relAttrs, k1, k2, k3]

theorem rfindSlash_dir (root dir : Bytes) (hd : ∀ b ∈ dir, b ≠ 47) :
    rfindSlash (root ++ 47 :: dir) = some root.length := by
  unfold rfindSlash
  have hrev : (root ++ 47 :: dir).reverse = dir.reverse ++ 47 :: root.reverse := by simp
  have htw : (dir.reverse ++ 47 :: root.reverse).takeWhile (· ≠ 47) = dir.reverse := by
    rw [List.takeWhile_append_of_pos]
    · simp
    · intro b hb; simpa using hd b (List.mem_reverse.mp hb)
  simp only [hrev, htw, List.length_reverse, List.length_append, List.length_cons]
  rw [if_neg (by omega)]
  congr 1; omega

theorem tableLocation_resolve (root dir target : Bytes) (hd : ∀ b ∈ dir, b ≠ 47) :
    tableLocation (root ++ 47 :: dir) target = .ok (resolveTarget root target) := by
  unfold tableLocation resolveTarget
  split
  · rw [rfindSlash_dir root dir hd]
    simp
  · split
    · rfl
    · split <;> rfl

theorem relsPathOf_file (dir file : Bytes) (hf : ∀ b ∈ file, b ≠ 47) :
    relsPathOf (dir ++ 47 :: file) = .ok (dir, dir ++ [47, 95, 114, 101, 108, 115] ++ (47 :: file) ++ [46, 114, 101, 108, 115]) := by
  unfold relsPathOf
  rw [rfindSlash_dir dir file hf]
  simp

theorem tableLocations_decl (root dir : Bytes) (hd : ∀ b ∈ dir, b ≠ 47) (rootAttrs : List (List Char × Bytes)) :
    ∀ (rs : List RelDecl), (∀ r ∈ rs, r.Ok) →
      tableLocations (root ++ 47 :: dir) (rs.flatMap renderRel ++ [.end_ nRelationships]) =
        .ok (rs.filterMap (fun r => if r.typ = tableRelType then resolveTarget root r.target else none))
  | [], _ => by simp [tableLocations, localName, nRelationships]
  | r :: rs, h => by
    have ih := tableLocations_decl root dir hd rootAttrs rs (fun x hx => h x (List.mem_cons_of_mem _ hx))
    have hr := h r (List.mem_cons_self ..)
    have hl : localName nRelationship = nRelationship := by decide
    have hl2 : nRelationship ≠ nRelationships := by decide
    simp only [List.flatMap_cons, renderRel, List.cons_append, List.nil_append, tableLocations, hl, if_true,
      relAttrs_decl r hr, hl2, if_false]
    by_cases hty : r.typ = tableRelType
    · simp only [hty, decide_true, if_true, tableLocation_resolve root dir _ hd, ih, List.filterMap_cons]
      cases resolveTarget root r.target <;> simp
    · simp only [hty, decide_false, Bool.false_eq_true, if_false, ih, List.filterMap_cons]

end Geometry

namespace Geometry

theorem readTables_decl (m : Mode) (parts : List (Bytes × List Ev)) (sheet : Bytes) :
    ∀ (lt : List (Bytes × TableDecl)), (∀ p ∈ lt, findPart parts p.1 = some (renderTablePart p.2) ∧ p.2.Ok) →
      readTables m parts sheet (lt.map (·.1)) = .ok (lt.map (fun p => ⟨p.2.name, sheet, p.2.cols, p.2.dataRect⟩))
  | [], _ => rfl
  | p :: ps, h => by
    obtain ⟨hf, hok⟩ := h p (List.mem_cons_self ..)
    have ih := readTables_decl m parts sheet ps (fun x hx => h x (List.mem_cons_of_mem _ hx))
    have hok' := hok
    obtain ⟨_, hv, _, _, _, _, _, hh, htot⟩ := hok
    have hdims : tableDims m (renderRef2 p.2.rect) p.2.h p.2.t false = .ok p.2.dataRect := by
      unfold tableDims
      rw [getDimension_renderRef2 m _ hv]
      obtain ⟨_, _, h3, _⟩ := hv
      have hh1 : p.2.h ≤ 1 := by
        unfold TableDecl.h; cases hc : p.2.hdr with
        | none => simp
        | some x => simpa using hh x hc
      have ht1 : p.2.t ≤ 1 := by
        unfold TableDecl.t; cases hc : p.2.tot with
        | none => simp
        | some x => simpa using (htot x hc).1
      congr 1
      unfold tableDimsOf TableDecl.dataRect emptyRect
      simp only [Bool.false_eq_true, if_false, Nat.add_zero, Nat.sub_zero]
      by_cases hrow : p.2.rect.sr + p.2.h + p.2.t ≤ p.2.rect.er
      · rw [if_pos ⟨by simp only [U32]; omega, by omega, by omega⟩, if_pos hrow]
      · rw [if_neg (by omega), if_neg hrow]
    simp only [List.map_cons, readTables, hf, readTablePart_decl p.2 hok', hdims, ih]

end Geometry

namespace Geometry

/-! ### `get_dimension` never unwinds in the saturating variant (the code of the tree since cc36676 / a2153f7) -/

/-- returned normally: `Ok` or `Err`, no panic, no fuel exhaustion -/
def Fine {α : Type} (r : Res α) : Prop := (∃ a, r = .ok a) ∨ (∃ e, r = .err e)

theorem addU_sat (m : Mode) (hm : m.satArith = true) (a b : Nat) : ∃ v, addU m a b = .ok v := by
  unfold addU
  by_cases h : a + b < U32
  · rw [if_pos h]; exact ⟨_, rfl⟩
  · rw [if_neg h, if_pos hm]; exact ⟨_, rfl⟩

theorem mulU_sat (m : Mode) (hm : m.satArith = true) (a b : Nat) : ∃ v, mulU m a b = .ok v := by
  unfold mulU
  by_cases h : a * b < U32
  · rw [if_pos h]; exact ⟨_, rfl⟩
  · rw [if_neg h, if_pos hm]; exact ⟨_, rfl⟩

theorem rcLetter_fine (m : Mode) (hm : m.satArith = true) (s : RC) (k : Nat) : Fine (rcLetter m s k) := by
  unfold rcLetter
  split
  · exact .inr ⟨_, rfl⟩
  · obtain ⟨t, ht⟩ := mulU_sat m hm (k + 1) (if s.readrow = true then 1 else s.pow)
    obtain ⟨c, hc⟩ := addU_sat m hm s.col t
    obtain ⟨p, hp⟩ := mulU_sat m hm (if s.readrow = true then 1 else s.pow) 26
    simp only [ht, hc, hp]
    exact .inl ⟨_, rfl⟩

theorem rcDigit_fine (m : Mode) (hm : m.satArith = true) (s : RC) (d : Nat) : Fine (rcDigit m s d) := by
  unfold rcDigit
  split
  · exact .inr ⟨_, rfl⟩
  · obtain ⟨t, ht⟩ := mulU_sat m hm d s.pow
    obtain ⟨c, hc⟩ := addU_sat m hm s.row t
    obtain ⟨p, hp⟩ := mulU_sat m hm s.pow 10
    simp only [ht, hc, hp]
    exact .inl ⟨_, rfl⟩

theorem rcStep_fine (m : Mode) (hm : m.satArith = true) (s : RC) (c : UInt8) : Fine (rcStep m s c) := by
  unfold rcStep
  split
  · exact rcDigit_fine m hm s _
  · split
    · exact rcLetter_fine m hm s _
    · split
      · exact rcLetter_fine m hm s _
      · exact .inr ⟨_, rfl⟩

theorem rcFold_fine (m : Mode) (hm : m.satArith = true) : ∀ (l : Bytes) (s : RC), Fine (rcFold m l s)
  | [], s => .inl ⟨s, rfl⟩
  | c :: cs, s => by
    unfold rcFold
    rcases rcStep_fine m hm s c with ⟨s', h⟩ | ⟨e, h⟩
    · rw [h]; exact rcFold_fine m hm cs s'
    · rw [h]; exact .inr ⟨e, rfl⟩

theorem getRowAndOptionalColumn_fine (m : Mode) (hm : m.satArith = true) (b : Bytes) :
    Fine (getRowAndOptionalColumn m b) := by
  unfold getRowAndOptionalColumn
  rcases rcFold_fine m hm b.reverse ⟨0, 0, 1, true⟩ with ⟨s, h⟩ | ⟨e, h⟩
  · rw [h]
    simp only
    split
    · exact .inr ⟨_, rfl⟩
    · exact .inl ⟨_, rfl⟩
  · rw [h]; exact .inr ⟨e, rfl⟩

theorem getRowColumn_fine (m : Mode) (hm : m.satArith = true) (b : Bytes) : Fine (getRowColumn m b) := by
  unfold getRowColumn
  rcases getRowAndOptionalColumn_fine m hm b with ⟨⟨r, c⟩, h⟩ | ⟨e, h⟩
  · rw [h]
    cases c with
    | none => exact .inr ⟨_, rfl⟩
    | some c => exact .inl ⟨_, rfl⟩
  · rw [h]; exact .inr ⟨e, rfl⟩

theorem parseParts_fine (m : Mode) (hm : m.satArith = true) : ∀ (l : List Bytes), Fine (parseParts m l)
  | [] => .inl ⟨[], rfl⟩
  | p :: ps => by
    unfold parseParts
    rcases getRowColumn_fine m hm p with ⟨x, h⟩ | ⟨e, h⟩
    · rw [h]
      rcases parseParts_fine m hm ps with ⟨xs, h2⟩ | ⟨e, h2⟩
      · rw [h2]; exact .inl ⟨_, rfl⟩
      · rw [h2]; exact .inr ⟨e, rfl⟩
    · rw [h]; exact .inr ⟨e, rfl⟩

theorem getDimension_fine (m : Mode) (hm : m.satArith = true) (hd : m.satDim = true) (b : Bytes) :
    Fine (getDimension m b) := by
  unfold getDimension
  rcases parseParts_fine m hm (splitColon b) with ⟨xs, h⟩ | ⟨e, h⟩
  · rw [h]
    match xs with
    | [] => exact .inr ⟨_, rfl⟩
    | [a] => exact .inl ⟨_, rfl⟩
    | [a, c] =>
      simp only [hd, not_true_eq_false, false_and, if_false]
      exact .inl ⟨_, rfl⟩
    | _ :: _ :: _ :: _ => exact .inr ⟨_, rfl⟩
  · rw [h]; exact .inr ⟨e, rfl⟩

/-! ### the table data window -/

theorem tableData_empty {α : Type} [Inhabited α] (rng : Range.Rng α) (d : Rect) (h : d.sr > d.er ∨ d.sc > d.ec) :
    tableData rng d = .ok Range.empty := by
  unfold tableData; rw [if_pos h]

theorem tableData_range {α : Type} [Inhabited α] (rng : Range.Rng α) (d : Rect) (h : d.sr ≤ d.er ∧ d.sc ≤ d.ec) :
    tableData rng d = Range.range rng d.sr d.sc d.er d.ec := by
  unfold tableData; rw [if_neg (by omega)]

/-- the arithmetic of `read_table_metadata` when a data row is left -/
theorem tableDimsOf_data (d : Rect) (h t : Nat) (hroom : d.sr + h + t ≤ d.er) (hbig : d.sr + h < U32) :
    tableDimsOf d h t false = ⟨d.sr + h, d.sc, d.er - t, d.ec⟩ := by
  unfold tableDimsOf
  simp only [Bool.false_eq_true, if_false, Nat.add_zero, Nat.sub_zero]
  rw [if_pos ⟨hbig, by omega, by omega⟩]

/-! ### lookups over the loaded table list -/

/-- `get_table_meta` finds the first entry with the name; `table_names` lists the names in order -/
theorem table_lookup (before after : List TableEntry) (t : TableEntry)
    (huniq : ∀ x ∈ before, x.name ≠ t.name) :
    getTableMeta (before ++ t :: after) t.name = .ok t ∧
    tableNames (before ++ t :: after) = before.map (·.name) ++ t.name :: after.map (·.name) := by
  constructor
  · unfold getTableMeta
    rw [List.find?_append]
    have : before.find? (fun x => decide (x.name = t.name)) = none := by
      rw [List.find?_eq_none]; intro x hx; simpa using huniq x hx
    rw [this]
    simp
  · simp [tableNames]

/-! ### the two models of `parse_merge_cells` agree -/

theorem readU16At_eq_u16At (r : Bytes) (off : Nat) (h : off + 2 ≤ r.length) :
    readU16At r off = .ok (BiffCells.u16At r off) := by
  unfold readU16At BiffCells.u16At Biff.u16
  have hl : (r.drop off).length = r.length - off := List.length_drop ..
  match hd : r.drop off with
  | [] => rw [hd] at hl; simp at hl; omega
  | [_] => rw [hd] at hl; simp at hl; omega
  | a :: b :: rest => simp

/-- `BiffCells.parseMergeCells` (C02's model of the same Rust function, which keeps only the outcome class:
    the cell reader does not use the regions) is the projection of `Geometry.parseMergeCells` -/
theorem parseMergeCells_eq (r : Bytes) :
    (match parseMergeCells r with
     | .ok _ => .ok ()
     | .err e => .err e
     | .panic s => .panic s
     | .outOfFuel => .outOfFuel : Res Unit) = BiffCells.parseMergeCells r := by
  unfold parseMergeCells BiffCells.parseMergeCells
  by_cases h2 : r.length < 2
  · simp only [h2, if_true]
  · simp only [h2, if_false]
    rw [readU16At_eq_u16At r 0 (by omega)]
    simp only
    by_cases hl : r.length < 2 + 8 * BiffCells.u16At r 0
    · simp only [hl, if_true]
    · simp only [hl, if_false]
      obtain ⟨ds, hds⟩ := mcLoop_ok r (BiffCells.u16At r 0) 0 (by omega)
      rw [hds]

end Geometry

namespace Geometry

/-! ### a witness for the non-vacuity examples of `Props/C17.lean` -/

/-- a table declaration meeting `TableDecl.Ok`: prefix-less, `id`/`name` attributes before `displayName`,
    an `autoFilter` child with its own `ref`, no header row, one totals row, two columns -/
def exTable : TableDecl :=
  { name := [84], rect := ⟨1, 1, 4, 2⟩, hdr := some 0, tot := some 1, cols := [[97], [82, 38, 68]],
    extra := [(['i', 'd'], [49]), (nName, [84])], colExtra := [(['i', 'd'], [49])],
    inner := [.start ['a', 'u', 't', 'o', 'F', 'i', 'l', 't', 'e', 'r'] [(nRef, [66, 50, 58, 67, 52])],
              .end_ ['a', 'u', 't', 'o', 'F', 'i', 'l', 't', 'e', 'r']],
    tail := [.text [10]] }

theorem exTable_ok : exTable.Ok := by
  refine ⟨by decide, by decide, by decide, by decide, ?_, ?_, ?_, ?_, ?_⟩
  · intro e he
    simp only [exTable, List.mem_cons, List.not_mem_nil, or_false] at he
    rcases he with rfl | rfl
    · exact ⟨by decide, by decide⟩
    · show localName _ ≠ nTable; decide
  · intro e he; simp [exTable] at he
  · intro e he
    simp only [exTable, List.mem_cons, List.not_mem_nil, or_false] at he
    subst he; trivial
  · intro h hh; simp only [exTable, Option.some.injEq] at hh; omega
  · intro n hn; simp only [exTable, Option.some.injEq] at hn; subst hn; exact ⟨by omega, by decide⟩

end Geometry

namespace Geometry

/-! ### `rfind('/')` on arbitrary paths -/

theorem takeWhile_all {γ : Type} (p : γ → Bool) : ∀ (l : List γ), (∀ x ∈ l, p x = true) → l.takeWhile p = l
  | [], _ => rfl
  | x :: xs, h => by
    rw [List.takeWhile_cons, if_pos (h x (List.mem_cons_self ..)),
      takeWhile_all p xs (fun y hy => h y (List.mem_cons_of_mem _ hy))]

theorem length_takeWhile_le' {γ : Type} (p : γ → Bool) : ∀ (l : List γ), (l.takeWhile p).length ≤ l.length
  | [] => Nat.le_refl _
  | x :: xs => by
    rw [List.takeWhile_cons]
    split
    · simp only [List.length_cons]; have := length_takeWhile_le' p xs; omega
    · simp

theorem rfindSlash_noSlash (base : Bytes) (hb : ∀ b ∈ base, b ≠ 47) : rfindSlash base = none := by
  unfold rfindSlash
  have : base.reverse.takeWhile (· ≠ 47) = base.reverse :=
    takeWhile_all _ _ (fun b hb' => by simpa using hb b (List.mem_reverse.mp hb'))
  rw [this, List.length_reverse]
  simp

theorem rfindSlash_xl (rest : Bytes) : ∃ i, rfindSlash (120 :: 108 :: 47 :: rest) = some i := by
  unfold rfindSlash
  have hrev : (120 :: 108 :: 47 :: rest : Bytes).reverse = rest.reverse ++ ([47, 108, 120] : Bytes) := by simp
  have hlen : ((120 :: 108 :: 47 :: rest : Bytes).reverse.takeWhile (· ≠ 47)).length ≤ rest.length := by
    rw [hrev, List.takeWhile_append]
    split
    · have h1 : ([47, 108, 120] : Bytes).takeWhile (· ≠ 47) = [] := by decide
      rw [h1]; simp
    · have := length_takeWhile_le' (fun b : UInt8 => decide (b ≠ 47)) rest.reverse
      simpa using this
  simp only [List.length_cons]
  rw [if_neg (by omega)]
  exact ⟨_, rfl⟩

end Geometry
