import CalVerif.Model.Geometry
import CalVerif.Spec.Geometry
/-! Helper lemmas for `Props/C17.lean`. -/
namespace Geometry

end Geometry
