import CalVerif.Lemmas.XmlText
import CalVerif.Model.XlsxCells
/-! Bridge between the two models of the xlsx string readers: `Model/XmlText` (C19) and `Model/XlsxCells` (C01).
    Names: C19 keeps a qualified name split at its first colon, C01 keeps its bytes. -/
namespace XmlText

/-- UTF-8 bytes of a string as the `Nat` bytes of `Model/XlsxCells` -/
def sb (s : String) : List Nat := s.toUTF8.data.toList.map UInt8.toNat
/-- qualified name as bytes -/
def nameBytes (n : Name) : List Nat :=
  match n.pre with
  | none => sb n.loc
  | some p => sb p ++ 58 :: sb n.loc
/-- a name as the tokenizer delivers it: split at its *first* colon -/
def Name.wf (n : Name) : Prop :=
  match n.pre with
  | none => 58 ∉ sb n.loc
  | some p => 58 ∉ sb p
def txtNat (t : Txt) : List Nat := t.map UInt8.toNat

theorem map_toNat_inj : ∀ (a b : List UInt8), a.map UInt8.toNat = b.map UInt8.toNat → a = b
  | [], [], _ => rfl
  | [], _ :: _, h => by simp at h
  | _ :: _, [], h => by simp at h
  | x :: a, y :: b, h => by
    simp only [List.map_cons, List.cons.injEq] at h
    rw [UInt8.toNat_inj.mp h.1, map_toNat_inj a b h.2]

theorem sb_inj {s t : String} (h : sb s = sb t) : s = t := by
  have h1 : s.toUTF8.data.toList = t.toUTF8.data.toList := map_toNat_inj _ _ h
  have h2 : s.toUTF8.data = t.toUTF8.data := Array.toList_inj.mp h1
  have h3 : s.toUTF8 = t.toUTF8 := by
    cases hs : s.toUTF8; cases ht : t.toUTF8; simp_all
  cases s; cases t; simp_all [String.toUTF8]

theorem txtNat_inj {s t : Txt} (h : txtNat s = txtNat t) : s = t := map_toNat_inj _ _ h

theorem dropWhile_no58 (l : List Nat) (h : 58 ∉ l) : l.dropWhile (· ≠ 58) = [] := by
  induction l with
  | nil => rfl
  | cons a l ih =>
    simp only [List.mem_cons, not_or] at h
    have hx : decide (a ≠ 58) = true := by simpa using fun e => h.1 (Eq.symm e)
    rw [List.dropWhile_cons, if_pos hx]
    exact ih h.2

theorem dropWhile_at58 (a l : List Nat) (h : 58 ∉ a) : (a ++ 58 :: l).dropWhile (· ≠ 58) = 58 :: l := by
  induction a with
  | nil => simp [List.dropWhile]
  | cons x a ih =>
    simp only [List.mem_cons, not_or] at h
    have hx : decide (x ≠ 58) = true := by simpa using fun e => h.1 (Eq.symm e)
    rw [List.cons_append, List.dropWhile_cons, if_pos hx]
    exact ih h.2

theorem takeWhile_at58 (a l : List Nat) (h : 58 ∉ a) : (a ++ 58 :: l).takeWhile (· ≠ 58) = a := by
  induction a with
  | nil => simp [List.takeWhile]
  | cons x a ih =>
    simp only [List.mem_cons, not_or] at h
    have hx : decide (x ≠ 58) = true := by simpa using fun e => h.1 (Eq.symm e)
    rw [List.cons_append, List.takeWhile_cons, if_pos hx, ih h.2]

theorem localName_nameBytes (n : Name) (h : n.wf) : XlsxCells.localName (nameBytes n) = sb n.loc := by
  unfold Name.wf at h
  unfold nameBytes XlsxCells.localName
  cases hp : n.pre with
  | none => simp only [hp] at h ⊢; rw [dropWhile_no58 _ h]
  | some p => simp only [hp] at h ⊢; rw [dropWhile_at58 _ _ h]

theorem nameBytes_inj (n m : Name) (hn : n.wf) (hm : m.wf) (h : nameBytes n = nameBytes m) : n = m := by
  unfold Name.wf at hn hm
  unfold nameBytes at h
  obtain ⟨np, nl⟩ := n
  obtain ⟨mp, ml⟩ := m
  cases np with
  | none =>
    cases mp with
    | none => simp only at h; rw [sb_inj h]
    | some q =>
      simp only at h hn hm
      exfalso; apply hn; rw [h]; simp
  | some p =>
    cases mp with
    | none =>
      simp only at h hn hm
      exfalso; apply hm; rw [← h]; simp
    | some q =>
      simp only at h hn hm
      have h1 := congrArg (List.takeWhile (· ≠ 58)) h
      rw [takeWhile_at58 _ _ hn, takeWhile_at58 _ _ hm] at h1
      have h2 := congrArg (List.dropWhile (· ≠ 58)) h
      rw [dropWhile_at58 _ _ hn, dropWhile_at58 _ _ hm] at h2
      injection h2 with _ h3
      rw [sb_inj h1, sb_inj h3]

def convAttrs (a : List (String × Txt)) : XlsxCells.Attrs := a.map fun kv => (sb kv.1, txtNat kv.2)

/-- the obvious conversion to the events of `Model/XlsxCells` (which presents CDATA as text) -/
def convEv : Ev → XlsxCells.Ev
  | .start n a => .start (nameBytes n) (convAttrs a)
  | .end_ n => .stop (nameBytes n)
  | .text s => .text (txtNat s)
  | .cdata s => .text (txtNat s)
  | .other => .other

def convMode : SiMode → XlsxCells.SMode
  | .outer r ph => .main (r.map txtNat) ph
  | .inT r ph tn acc => .inT (r.map txtNat) ph (nameBytes tn) (txtNat acc)
  | .skip d v => .toEnd d (txtNat v)

def Ev.wf : Ev → Prop
  | .start n _ => n.wf
  | .end_ n => n.wf
  | _ => True

def SiMode.wf : SiMode → Prop
  | .inT _ _ tn _ => tn.wf
  | _ => True

def convStep : Step SiMode (Option Txt) → XlsxCells.SRes
  | .cont m => .cont (convMode m)
  | .done v => .ret (v.map txtNat)
  | .fail _ => .ret none
  | .panic _ => .ret none

theorem sb_r : sb "r" = XlsxCells.nR := by rfl
theorem sb_rPh : sb "rPh" = XlsxCells.nRPh := by rfl
theorem sb_t : sb "t" = XlsxCells.nT := by rfl
theorem sb_si : sb "si" = XlsxCells.nSi := by rfl
theorem sb_sst : sb "sst" = XlsxCells.nSst := by rfl

theorem loc_iff (n : Name) (h : n.wf) (s : String) : XlsxCells.localName (nameBytes n) = sb s ↔ n.loc = s := by
  rw [localName_nameBytes n h]
  exact ⟨sb_inj, fun e => by rw [e]⟩

theorem name_iff (n m : Name) (hn : n.wf) (hm : m.wf) : nameBytes n = nameBytes m ↔ n = m :=
  ⟨nameBytes_inj n m hn hm, fun e => by rw [e]⟩

theorem txtNat_append (a b : Txt) : txtNat (a ++ b) = txtNat a ++ txtNat b := by simp [txtNat]

theorem strStep_conv (c : Name) (hc : c.wf) (m : SiMode) (hm : m.wf) (e : Ev) (he : e.wf) :
    XlsxCells.strStep (nameBytes c) (convMode m) (convEv e) = convStep (siStep c m e) := by
  cases m with
  | outer rich ph =>
    cases e with
    | start n a =>
      have h1 := loc_iff n he "r"
      have h2 := loc_iff n he "rPh"
      have h3 := loc_iff n he "t"
      rw [sb_r] at h1; rw [sb_rPh] at h2; rw [sb_t] at h3
      simp only [convMode, convEv, XlsxCells.strStep, siStep, h1, h2, h3]
      by_cases a1 : n.loc = "r"
      · simp [a1, convStep, convMode]; cases rich <;> simp [txtNat]
      · by_cases a2 : n.loc = "rPh"
        · simp [a1, a2, convStep, convMode]
        · by_cases a3 : n.loc = "t" ∧ ph = false
          · simp [a1, a2, a3, convStep, convMode, txtNat]
          · simp [a1, a2, a3, convStep, convMode]
    | end_ n =>
      have h1 := name_iff n c he hc
      have h2 := loc_iff n he "rPh"
      rw [sb_rPh] at h2
      simp only [convMode, convEv, XlsxCells.strStep, siStep, h1, h2]
      by_cases a1 : n = c
      · simp [a1, convStep]
      · by_cases a2 : n.loc = "rPh" <;> simp [a1, a2, convStep, convMode]
    | text s => simp [convMode, convEv, XlsxCells.strStep, siStep, convStep]
    | cdata s => simp [convMode, convEv, XlsxCells.strStep, siStep, convStep]
    | other => simp [convMode, convEv, XlsxCells.strStep, siStep, convStep]
  | inT rich ph tn acc =>
    cases e with
    | start n a => simp [convMode, convEv, XlsxCells.strStep, siStep, convStep]
    | end_ n =>
      have h1 := name_iff n tn he hm
      simp only [convMode, convEv, XlsxCells.strStep, siStep, h1]
      by_cases a1 : n = tn
      · cases rich <;> simp [a1, convStep, convMode, txtNat_append]
      · simp [a1, convStep, convMode]
    | text s => simp [convMode, convEv, XlsxCells.strStep, siStep, convStep, txtNat_append]
    | cdata s => simp [convMode, convEv, XlsxCells.strStep, siStep, convStep, txtNat_append]
    | other => simp [convMode, convEv, XlsxCells.strStep, siStep, convStep]
  | skip d v =>
    cases e with
    | start n a =>
      have h1 := name_iff n c he hc
      simp only [convMode, convEv, XlsxCells.strStep, siStep, h1]
      by_cases a1 : n = c <;> simp [a1, convStep, convMode]
    | end_ n =>
      have h1 := name_iff n c he hc
      simp only [convMode, convEv, XlsxCells.strStep, siStep, h1]
      by_cases a1 : n = c
      · by_cases a2 : d = 0 <;> simp [a1, a2, convStep, convMode]
      · simp [a1, convStep, convMode]
    | text s => simp [convMode, convEv, XlsxCells.strStep, siStep, convStep]
    | cdata s => simp [convMode, convEv, XlsxCells.strStep, siStep, convStep]
    | other => simp [convMode, convEv, XlsxCells.strStep, siStep, convStep]

theorem siStep_wf (c : Name) (m : SiMode) (hm : m.wf) (e : Ev) (he : e.wf) (m' : SiMode) (h : siStep c m e = .cont m') :
    m'.wf := by
  cases m <;> cases e <;> simp only [siStep] at h <;> (try split at h) <;> (try split at h) <;> (try split at h) <;>
    (try split at h) <;> (try (injection h with h; subst h)) <;> first | exact hm | exact he | trivial | skip
  all_goals (first | (cases h) | skip)

theorem siStep_no_fail (c : Name) (m : SiMode) (e : Ev) (x : String) : siStep c m e ≠ .fail x := by
  intro h
  unfold siStep at h
  split at h <;> (try split at h) <;> (try split at h) <;> (try split at h) <;> cases h

def convSst : SstMode → Option (XlsxCells.Bytes × XlsxCells.SMode)
  | .top => none
  | .inSi c m => some (nameBytes c, convMode m)

def SstMode.wf : SstMode → Prop
  | .top => True
  | .inSi c m => c.wf ∧ m.wf

/-- the two models name their errors differently -/
def errMap (e : String) : String := if e = "Xml(missing-end)" then "Xml" else "XmlEof"

def convRes : Res (List Txt) → Res (List XlsxCells.Bytes)
  | .ok l => .ok (l.map txtNat)
  | .err e => .err (errMap e)
  | .panic e => .panic e
  | .outOfFuel => .outOfFuel

theorem strEof_conv (m : SiMode) : XlsxCells.strEof (convMode m) = errMap (siEof m) := by
  cases m <;> simp [convMode, XlsxCells.strEof, siEof, errMap]

theorem sstLoop_conv (evs : List Ev) (hev : ∀ e ∈ evs, e.wf) (st : SstMode) (hst : st.wf) (acc : List Txt) :
    XlsxCells.sstLoop (evs.map convEv) (convSst st) ((acc.map txtNat).reverse) = convRes (runSst st acc evs) := by
  induction evs generalizing st acc with
  | nil =>
    cases st with
    | top => simp [XlsxCells.sstLoop, convSst, runSst, convRes, errMap]
    | inSi c m => simp [XlsxCells.sstLoop, convSst, runSst, convRes, strEof_conv]
  | cons e es ih =>
    have he := hev e (List.mem_cons_self ..)
    have hes : ∀ x ∈ es, x.wf := fun x hx => hev x (List.mem_cons_of_mem _ hx)
    cases st with
    | top =>
      cases e with
      | start n a =>
        have h1 := loc_iff n he "si"
        rw [sb_si] at h1
        simp only [List.map_cons, convEv, convSst, XlsxCells.sstLoop, runSst, h1]
        by_cases a1 : n.loc = "si"
        · simp only [a1, if_true]
          exact ih hes (.inSi n (.outer none false)) ⟨he, trivial⟩ acc
        · simp only [a1, if_false]
          exact ih hes .top trivial acc
      | end_ n =>
        have h1 := loc_iff n he "sst"
        rw [sb_sst] at h1
        simp only [List.map_cons, convEv, convSst, XlsxCells.sstLoop, runSst, h1]
        by_cases a1 : n.loc = "sst"
        · simp [a1, convRes]
        · simp only [a1, if_false]
          exact ih hes .top trivial acc
      | text s => simp only [List.map_cons, convEv, convSst, XlsxCells.sstLoop, runSst]; exact ih hes .top trivial acc
      | cdata s => simp only [List.map_cons, convEv, convSst, XlsxCells.sstLoop, runSst]; exact ih hes .top trivial acc
      | other => simp only [List.map_cons, convEv, convSst, XlsxCells.sstLoop, runSst]; exact ih hes .top trivial acc
    | inSi c m =>
      obtain ⟨hc, hm⟩ := hst
      simp only [List.map_cons, convSst, XlsxCells.sstLoop, runSst, strStep_conv c hc m hm e he]
      cases hs : siStep c m e with
      | cont m' =>
        simp only [convStep]
        exact ih hes (.inSi c m') ⟨hc, siStep_wf c m hm e he m' hs⟩ acc
      | done v =>
        simp only [convStep]
        have := ih hes .top trivial (acc ++ [v.getD []])
        simp only [convSst, List.map_append, List.map_cons, List.map_nil, List.reverse_append, List.reverse_cons,
          List.reverse_nil, List.nil_append, List.cons_append] at this
        cases v <;> simpa [txtNat] using this
      | fail x => exact absurd hs (siStep_no_fail _ _ _ _)
      | panic x => exact absurd hs (siStep_no_panic _ _ _ _)

end XmlText
