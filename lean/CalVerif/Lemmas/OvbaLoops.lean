import CalVerif.Lemmas.Ovba
/-! Lemmas for property C18, part 2: the token loop, the flag-group loop, the chunk loop and the main loop of
    `decompress_stream` (model `Ovba.decompress`) against the container spec (`Spec/OvbaContainer.lean`). -/
namespace Ovba


theorem applyToken_length (cur : Bytes) (t : Token) : (applyToken cur t).length = cur.length + t.outLen := by
  cases t with
  | lit b => simp [applyToken, Token.outLen]
  | copy off len => simp [applyToken, Token.outLen, copySpec_length]

/-- single-token validity (the head condition of `validTokens`) -/
def validToken (d : Nat) : Token → Bool
  | .lit _ => decide (d + 1 ≤ 4096)
  | .copy off len => decide (1 ≤ off) && decide (off ≤ d) && decide (3 ≤ len) && decide (len ≤ maxLen d)
      && decide (d + len ≤ 4096)

theorem validTokens_cons (d : Nat) (t : Token) (ts : List Token) :
    validTokens d (t :: ts) = (validToken d t && validTokens (d + t.outLen) ts) := by
  cases t <;> simp [validTokens, validToken, Token.outLen]

def Token.isCopy : Token → Bool
  | .lit _ => false
  | .copy _ _ => true

theorem flagByte_cons (t : Token) (ts : List Token) :
    flagByte (t :: ts) % 2 = (if t.isCopy then 1 else 0) ∧ flagByte (t :: ts) / 2 = flagByte ts := by
  cases t <;> simp [flagByte, Token.isCopy] <;> omega

theorem serToken_length_pos (d : Nat) (t : Token) : 1 ≤ (serToken d t).length := by
  cases t <;> simp [serToken]

/-- one literal token: the `for` body consumes one input byte and appends it -/
theorem token_step_lit (size n flags clen olen : Nat) (b : UInt8) (r cur prev : Bytes)
    (hc : clen ≤ size) (hf : flags % 2 = 0) :
    tokenLoop size prev.length (n + 1) flags ⟨b :: r, cur.reverse ++ prev, olen, clen⟩ =
      tokenLoop size prev.length n (flags / 2) ⟨r, (applyToken cur (.lit b)).reverse ++ prev, olen + 1, clen + 1⟩ := by
  simp only [tokenLoop]
  rw [if_neg (by omega), if_pos hf]
  simp [applyToken]

/-- one copy token (valid at position `cur.length` of the chunk): the `for` body consumes the two token bytes and
    appends the spec's byte-by-byte copy -/
theorem token_step_copy (size n flags clen olen off len : Nat) (r cur prev : Bytes)
    (ho : olen = cur.length + prev.length)
    (hc : clen ≤ size) (hf : flags % 2 = 1) (hv : validToken cur.length (.copy off len) = true) :
    tokenLoop size prev.length (n + 1) flags ⟨serToken cur.length (.copy off len) ++ r, cur.reverse ++ prev, olen, clen⟩ =
      tokenLoop size prev.length n (flags / 2)
        ⟨r, (applyToken cur (.copy off len)).reverse ++ prev, olen + len, clen + 2⟩ := by
  simp only [validToken, Bool.and_eq_true, decide_eq_true_eq] at hv
  obtain ⟨⟨⟨⟨h1, h2⟩, h3⟩, h4⟩, h5⟩ := hv
  obtain ⟨bc, hbc, hb4, hb12, hw, hlen, hoff⟩ := pack_facts cur.length off len h1 h2 h3 h4 (by omega)
  simp only [tokenLoop, serToken, List.cons_append, List.nil_append]
  rw [if_neg (by omega), if_neg (by omega)]
  have hd : olen - prev.length = cur.length := by omega
  simp only [hd, hbc, u16le_bytes _ hw]
  obtain ⟨e1, e2⟩ := unpack_eq (packCopy cur.length off len) bc hw hb4 (by omega)
  rw [e1, e2, hlen, hoff]
  rw [if_neg (by omega)]
  have hloop : copyLoop off (len + 1) len (cur.reverse ++ prev) olen =
      .ok (copyRev off len (cur.reverse ++ prev), olen + len) := by
    apply copyLoop_eq off h1
    · simp; omega
    · calc len ≤ (len + 1) * 1 := by omega
        _ ≤ (len + 1) * off := Nat.mul_le_mul_left _ h1
    · omega
  rw [hloop, copyRev_spec off len cur prev h1 h2]
  simp [applyToken]

/-- one unified token step -/
theorem token_step (size n clen olen : Nat) (t : Token) (ts : List Token) (r cur prev : Bytes)
    (ho : olen = cur.length + prev.length)
    (hc : clen ≤ size) (hv : validToken cur.length t = true) :
    tokenLoop size prev.length (n + 1) (flagByte (t :: ts)) ⟨serToken cur.length t ++ r, cur.reverse ++ prev, olen, clen⟩ =
      tokenLoop size prev.length n (flagByte ts)
        ⟨r, (applyToken cur t).reverse ++ prev, olen + t.outLen, clen + (serToken cur.length t).length⟩ := by
  obtain ⟨hm, hd⟩ := flagByte_cons t ts
  cases t with
  | lit b =>
    have := token_step_lit size n (flagByte (.lit b :: ts)) clen olen b r cur prev hc (by simpa [Token.isCopy] using hm)
    rw [hd] at this
    simpa [serToken, Token.outLen] using this
  | copy off len =>
    have := token_step_copy size n (flagByte (.copy off len :: ts)) clen olen off len r cur prev ho hc
      (by simpa [Token.isCopy] using hm) hv
    rw [hd] at this
    simpa [serToken, Token.outLen] using this

/-- the `for bit_index` loop over one flag group `g` (at most `n` tokens for `n` remaining bits): it consumes the
    group's token bytes, appends the group's expansion, and reports `break 'chunk` iff the group is shorter than
    the remaining bits (which, in a well-formed chunk, happens exactly when the chunk data is exhausted) -/
theorem tokenLoop_group (size : Nat) (prev tail : Bytes) : ∀ (g : List Token) (n clen olen : Nat) (cur : Bytes),
    olen = cur.length + prev.length →
    g.length ≤ n → validTokens cur.length g = true →
    clen + (serBody cur.length g).length ≤ size + 1 →
    (g.length < n → size < clen + (serBody cur.length g).length) →
    tokenLoop size prev.length n (flagByte g) ⟨serBody cur.length g ++ tail, cur.reverse ++ prev, olen, clen⟩ =
      .ok (⟨tail, (expandFrom cur g).reverse ++ prev, olen + outLen g, clen + (serBody cur.length g).length⟩,
           decide (g.length < n))
  | [], n, clen, olen, cur, _, _, _, _, hend => by
    cases n with
    | zero => simp [tokenLoop, serBody, expandFrom, outLen]
    | succ n =>
      have := hend (by simp)
      simp only [serBody, List.length_nil, Nat.add_zero] at this
      simp only [tokenLoop, serBody, expandFrom, List.length_nil, Nat.add_zero, List.nil_append, List.foldl_nil]
      rw [if_pos this]
      simp [outLen]
  | t :: ts, n, clen, olen, cur, ho, hn, hv, hsz, hend => by
    cases n with
    | zero => simp at hn
    | succ n =>
      rw [validTokens_cons, Bool.and_eq_true] at hv
      have hpos := serToken_length_pos cur.length t
      simp only [serBody, List.length_append] at hsz hend ⊢
      rw [List.append_assoc, token_step size n clen olen t ts _ cur prev ho (by omega) hv.1]
      have hl := applyToken_length cur t
      have ih := tokenLoop_group size prev tail ts n (clen + (serToken cur.length t).length) (olen + t.outLen)
        (applyToken cur t) (by rw [hl]; omega)
        (by simpa using hn) (by rw [hl]; exact hv.2) (by rw [hl]; omega)
        (by intro h; rw [hl]; have := hend (by simpa using h); omega)
      rw [hl] at ih
      rw [ih]
      simp [expandFrom, outLen, Nat.add_assoc]

theorem flagByte_lt : ∀ (g : List Token), flagByte g < 2 ^ g.length
  | [] => by simp [flagByte]
  | .lit _ :: ts => by have := flagByte_lt ts; simp only [flagByte, List.length_cons, Nat.pow_succ]; omega
  | .copy _ _ :: ts => by have := flagByte_lt ts; simp only [flagByte, List.length_cons, Nat.pow_succ]; omega

theorem flagByte_toNat (g : List Token) (h : g.length ≤ 8) : (UInt8.ofNat (flagByte g)).toNat = flagByte g := by
  have h1 := flagByte_lt g
  have h2 : 2 ^ g.length ≤ 2 ^ 8 := Nat.pow_le_pow_right (by omega) h
  rw [UInt8.toNat_ofNat']
  exact Nat.mod_eq_of_lt (by omega)

theorem validTokens_append : ∀ (a b : List Token) (d : Nat),
    validTokens d (a ++ b) = (validTokens d a && validTokens (d + outLen a) b)
  | [], b, d => by simp [validTokens, outLen]
  | t :: ts, b, d => by
    rw [List.cons_append, validTokens_cons, validTokens_cons, validTokens_append ts b]
    simp [outLen, Bool.and_assoc, Nat.add_assoc]

theorem expandFrom_length : ∀ (toks : List Token) (cur : Bytes), (expandFrom cur toks).length = cur.length + outLen toks
  | [], cur => by simp [expandFrom, outLen]
  | t :: ts, cur => by
    have := expandFrom_length ts (applyToken cur t)
    simp only [expandFrom, List.foldl_cons] at this ⊢
    rw [this, applyToken_length]
    simp [outLen, Nat.add_assoc]

theorem expandFrom_append (cur : Bytes) (a b : List Token) :
    expandFrom cur (a ++ b) = expandFrom (expandFrom cur a) b := by
  simp [expandFrom, List.foldl_append]

/-- the `'chunk` loop over the remaining flag groups of a compressed chunk whose data ends exactly after them -/
theorem chunkLoop_groups (size : Nat) (prev tail : Bytes) :
    ∀ (f : Nat) (toks : List Token) (cur : Bytes) (clen olen cfuel : Nat),
    olen = cur.length + prev.length →
    toks.length ≤ f → validTokens cur.length toks = true →
    clen + (serGroups f cur.length toks).length = size + 1 →
    (serGroups f cur.length toks).length + 1 ≤ cfuel →
    chunkLoop size prev.length cfuel ⟨serGroups f cur.length toks ++ tail, cur.reverse ++ prev, olen, clen⟩ =
      .ok ⟨tail, (expandFrom cur toks).reverse ++ prev, olen + outLen toks, size + 1⟩
  | f, [], cur, clen, olen, cfuel, _, _, _, hsz, hfuel => by
    have hs : serGroups f cur.length [] = [] := by cases f <;> simp [serGroups]
    rw [hs] at hsz ⊢
    simp only [List.length_nil, Nat.add_zero] at hsz
    cases cfuel with
    | zero => omega
    | succ cfuel =>
      simp only [chunkLoop, List.nil_append, expandFrom, List.foldl_nil, outLen, List.map_nil, List.sum_nil,
        Nat.add_zero]
      subst hsz
      cases tail with
      | nil => rfl
      | cons b r => simp
  | 0, _ :: _, _, _, _, _, _, hf, _, _, _ => by simp at hf
  | f + 1, t :: ts, cur, clen, olen, cfuel, ho, hf, hv, hsz, hfuel => by
    cases cfuel with
    | zero => omega
    | succ cfuel =>
      have hsplit : (t :: ts) = (t :: ts).take 8 ++ (t :: ts).drop 8 := (List.take_append_drop 8 _).symm
      generalize hg : (t :: ts).take 8 = g at hsplit
      generalize hr : (t :: ts).drop 8 = rest at hsplit
      have hg8 : g.length ≤ 8 := by rw [← hg]; simp; omega
      have hs : serGroups (f + 1) cur.length (t :: ts) =
          UInt8.ofNat (flagByte g) :: (serBody cur.length g ++ serGroups f (cur.length + outLen g) rest) := by
        simp only [serGroups, hg, hr]
      rw [hs] at hsz hfuel ⊢
      simp only [List.length_cons, List.length_append] at hsz hfuel
      rw [hsplit, validTokens_append, Bool.and_eq_true] at hv
      simp only [chunkLoop, List.cons_append]
      rw [if_neg (by omega), flagByte_toNat g hg8, List.append_assoc]
      have hrest : g.length < 8 → rest = [] := by
        intro h
        rw [← hr]
        apply List.drop_eq_nil_of_le
        rw [← hg, List.length_take] at h
        omega
      have hgrp := tokenLoop_group size prev (serGroups f (cur.length + outLen g) rest ++ tail) g 8 (clen + 1) olen cur
        ho hg8 hv.1 (by omega)
        (by
          intro h
          have : serGroups f (cur.length + outLen g) rest = [] := by
            rw [hrest h]; cases f <;> simp [serGroups]
          rw [this] at hsz
          simp only [List.length_nil] at hsz
          omega)
      rw [hgrp]
      by_cases h8 : g.length < 8
      · have hnil : serGroups f (cur.length + outLen g) rest = [] := by
          rw [hrest h8]; cases f <;> simp [serGroups]
        have hts : t :: ts = g := by rw [hsplit, hrest h8]; simp
        simp only [h8, decide_true]
        rw [hnil] at hsz ⊢
        simp only [List.length_nil, Nat.add_zero] at hsz
        rw [hts]
        simp only [List.nil_append, St.mk.injEq, true_and, Res.ok.injEq]
        omega
      · simp only [h8, decide_false]
        have hlen := expandFrom_length g cur
        have ih := chunkLoop_groups size prev tail f rest (expandFrom cur g)
          (clen + 1 + (serBody cur.length g).length) (olen + outLen g) cfuel
          (by rw [hlen]; omega)
          (by
            have : rest.length = (t :: ts).length - 8 := by rw [← hr]; simp
            have : g.length = 8 := by omega
            rw [hsplit] at hf
            simp only [List.length_append] at hf
            omega)
          (by rw [hlen]; exact hv.2) (by rw [hlen]; omega) (by rw [hlen]; omega)
        rw [hlen] at ih
        rw [ih, hsplit, expandFrom_append]
        have : outLen (g ++ rest) = outLen g + outLen rest := by simp [outLen]
        rw [this, Nat.add_assoc]

theorem serGroups_nonempty (f d : Nat) (t : Token) (ts : List Token) : 1 ≤ (serGroups (f + 1) d (t :: ts)).length := by
  simp [serGroups]

/-- a serialized compressed chunk, met by the main loop with output so far `prev` (reversed), appends the chunk's
    expansion and leaves the input right after the chunk -/
theorem compressed_chunk_step (toks : List Token) (tail prev : Bytes) (fuel olen : Nat) (ho : olen = prev.length)
    (hd : decodableChunk (.compressed toks) = true) :
    mainLoop (fuel + 1) (serChunk (.compressed toks) ++ tail) prev olen =
      mainLoop fuel tail ((expandChunk (.compressed toks)).reverse ++ prev) (olen + chunkOutLen (.compressed toks)) := by
  simp only [decodableChunk, Bool.and_eq_true, Bool.not_eq_true', decide_eq_true_eq] at hd
  obtain ⟨⟨hne, hv⟩, hlen⟩ := hd
  have hpos : 1 ≤ (serTokens toks).length := by
    cases toks with
    | nil => simp at hne
    | cons t ts => exact serGroups_nonempty _ _ _ _
  generalize hD : serTokens toks = data at hpos hlen
  have hx : data.length - 1 < 4096 := by omega
  have hw : 0xB000 + (data.length - 1) < 65536 := by omega
  simp only [serChunk, hD, List.cons_append, List.nil_append, mainLoop, u16le_bytes _ hw,
    hdr_size _ hx, hdr_sig _ hx, hdr_flag _ hx]
  simp only [ne_eq, not_true_eq_false, if_false, Nat.reduceEqDiff]
  have hD' : serGroups toks.length 0 toks = data := hD
  have := chunkLoop_groups (data.length - 1) prev tail toks.length toks [] 0 olen ((data ++ tail).length + 1)
    (by simpa using ho) (Nat.le_refl _) (by simpa using hv)
    (by simp only [List.length_nil, hD']; omega)
    (by simp only [List.length_nil, hD', List.length_append]; omega)
  simp only [List.length_nil, hD', List.reverse_nil, List.nil_append] at this
  rw [ho] at this ⊢
  rw [this]
  simp [expandChunk, chunkOutLen]

theorem raw_chunk_step (bs tail prev : Bytes) (fuel olen : Nat) (hd : decodableChunk (.raw bs) = true) :
    mainLoop (fuel + 1) (serChunk (.raw bs) ++ tail) prev olen =
      mainLoop fuel tail ((expandChunk (.raw bs)).reverse ++ prev) (olen + chunkOutLen (.raw bs)) := by
  simp only [decodableChunk, decide_eq_true_eq] at hd
  simp only [serChunk, List.cons_append, List.nil_append, mainLoop]
  have h1 : u16le 0xFF 0x3F = 0x3FFF := by decide
  rw [h1]
  have h2 : (0x3FFF &&& 0x7000) >>> 12 = 3 := by decide
  have h3 : (0x3FFF &&& 0x8000) >>> 15 = 0 := by decide
  simp only [h2, h3, ne_eq, not_true_eq_false, if_false, if_true]
  rw [if_neg (by simp; omega)]
  have ht : (bs ++ tail).take 4096 = bs := by rw [← hd]; simp
  have hdr : (bs ++ tail).drop 4096 = tail := by rw [← hd]; simp
  rw [ht, hdr]
  simp only [expandChunk, chunkOutLen, hd]

theorem expandChunk_length (c : Chunk) : (expandChunk c).length = chunkOutLen c := by
  cases c with
  | raw bs => rfl
  | compressed toks => simp [expandChunk, chunkOutLen, expandFrom_length]

theorem chunk_step (c : Chunk) (tail prev : Bytes) (fuel olen : Nat) (ho : olen = prev.length)
    (hd : decodableChunk c = true) :
    mainLoop (fuel + 1) (serChunk c ++ tail) prev olen =
      mainLoop fuel tail ((expandChunk c).reverse ++ prev) (olen + chunkOutLen c) := by
  cases c with
  | raw bs => exact raw_chunk_step bs tail prev fuel olen hd
  | compressed toks => exact compressed_chunk_step toks tail prev fuel olen ho hd

theorem mainLoop_serialize : ∀ (cs : List Chunk) (prev : Bytes) (fuel olen : Nat), olen = prev.length →
    (∀ c ∈ cs, decodableChunk c = true) → cs.length + 1 ≤ fuel →
    mainLoop fuel (serialize cs) prev olen = .ok ((expand cs).reverse ++ prev)
  | [], prev, fuel, olen, _, _, hf => by
    cases fuel with
    | zero => omega
    | succ fuel => simp [serialize, expand, mainLoop]
  | c :: cs, prev, fuel, olen, ho, hd, hf => by
    cases fuel with
    | zero => omega
    | succ fuel =>
      have : serialize (c :: cs) = serChunk c ++ serialize cs := by simp [serialize]
      rw [this, chunk_step c _ prev fuel olen ho (hd c (by simp))]
      rw [mainLoop_serialize cs _ fuel _ (by simp [expandChunk_length, ho]; omega)
        (fun c' h => hd c' (by simp [h])) (by simpa using hf)]
      simp [expand]

theorem serChunk_length (c : Chunk) : 2 ≤ (serChunk c).length := by
  cases c <;> simp [serChunk]

theorem serialize_length : ∀ (cs : List Chunk), cs.length ≤ (serialize cs).length
  | [] => by simp
  | c :: cs => by
    have := serialize_length cs
    have := serChunk_length c
    simp only [serialize, List.flatMap_cons, List.length_append, List.length_cons] at *
    omega

theorem decompress_container (cs : List Chunk) (hd : Decodable cs) : decompress (container cs) = .ok (expand cs) := by
  simp only [decompress, container]
  rw [if_neg (by decide)]
  rw [mainLoop_serialize cs [] _ 0 rfl hd (by have := serialize_length cs; omega)]
  simp

end Ovba
