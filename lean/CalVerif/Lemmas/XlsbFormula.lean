import CalVerif.Model.XlsbFormula
import CalVerif.Spec.XlsbFormulaEnc
import CalVerif.Lemmas.Xlsb
import CalVerif.Lemmas.PtgPanics
import CalVerif.Lemmas.PtgXlsb
/-! Helper lemmas for the xlsb formula cells (C14): totality of `readFormulas` / `sheetFormulas`, the formula
    records on encoder output, the round trip of a described sheet. -/

namespace XlsbFormula
open Xlsb Formula

/-! ### totality -/

theorem formulaRgce_cases (buf : Bytes) (off : Option Nat) :
    (∃ rg, formulaRgce buf off = .ok rg) ∨ (∃ e, formulaRgce buf off = .err e) := by
  unfold formulaRgce
  cases off with
  | none => exact Or.inr ⟨_, rfl⟩
  | some o =>
    simp only
    split
    · exact Or.inr ⟨_, rfl⟩
    · split
      · exact Or.inr ⟨_, rfl⟩
      · split
        · exact Or.inr ⟨_, rfl⟩
        · exact Or.inl ⟨_, rfl⟩

theorem readFormulas_ne_panic (ctx : Ptg.Ctx) (m : String) :
    ∀ (f : Nat) (bs : Bytes) (row : Nat), readFormulas ctx f bs row ≠ .panic m
  | 0, _, _ => by simp [readFormulas]
  | f+1, bs, row => by
    rw [readFormulas]
    cases hr : readRecord bs with
    | ok v =>
      obtain ⟨t, p, rest⟩ := v
      simp only
      cases hi : finterpret t p with
      | cell rgce =>
        simp only
        cases hp : Ptg.parseFormulaXlsb ctx rgce with
        | ok text =>
          simp only
          cases hc : readFormulas ctx f rest row with
          | ok l => simp
          | err e => simp
          | panic s => exact absurd hc (readFormulas_ne_panic ctx s f rest row)
          | outOfFuel => simp
        | err e => simp
        | panic s => exact absurd hp ((parseFormulaXlsb_total ctx rgce).1 s)
        | outOfFuel => simp
      | row r =>
        simp only
        split
        · simp
        · exact readFormulas_ne_panic ctx m f rest r
      | stop => simp
      | skip => exact readFormulas_ne_panic ctx m f rest row
      | fail e => simp
    | err e => simp
    | panic s => exact absurd hr (readRecord_ne_panic bs s)
    | outOfFuel => simp

theorem readFormulas_fuel (ctx : Ptg.Ctx) : ∀ (f : Nat) (bs : Bytes) (row : Nat), bs.length < f →
    readFormulas ctx f bs row ≠ .outOfFuel
  | 0, _, _, h => by omega
  | f+1, bs, row, h => by
    rw [readFormulas]
    cases hr : readRecord bs with
    | ok v =>
      obtain ⟨t, p, rest⟩ := v
      have hs := readRecord_shrinks bs t p rest hr
      have ih1 := readFormulas_fuel ctx f rest row (by omega)
      simp only
      cases hi : finterpret t p with
      | cell rgce =>
        simp only
        cases hp : Ptg.parseFormulaXlsb ctx rgce with
        | ok text =>
          simp only
          cases hc : readFormulas ctx f rest row with
          | ok l => simp
          | err e => simp
          | panic s => simp
          | outOfFuel => exact absurd hc ih1
        | err e => simp
        | panic s => simp
        | outOfFuel => exact absurd hp (parseFormulaXlsb_total ctx rgce).2
      | row r =>
        simp only
        split
        · simp
        · exact readFormulas_fuel ctx f rest r (by omega)
      | stop => simp
      | skip => exact ih1
      | fail e => simp
    | err e => simp
    | panic s => simp
    | outOfFuel => exact absurd hr (readRecord_ne_fuel bs)

theorem sheetFormulas_ne_panic (ctx : Ptg.Ctx) (bs : Bytes) (m : String) : sheetFormulas ctx bs ≠ .panic m := by
  unfold sheetFormulas
  cases hn : newReader bs with
  | ok v =>
    obtain ⟨dims, rest⟩ := v
    simp only [dimLen]
    cases hc : readFormulas ctx (bs.length + 1) rest 0 with
    | ok l => simp
    | err e => simp
    | panic s => exact absurd hc (readFormulas_ne_panic ctx s _ _ _)
    | outOfFuel => simp
  | err e => simp
  | panic s => exact absurd hn (newReader_ne_panic bs s)
  | outOfFuel => simp

theorem sheetFormulas_ne_fuel (ctx : Ptg.Ctx) (bs : Bytes) : sheetFormulas ctx bs ≠ .outOfFuel := by
  unfold sheetFormulas
  cases hn : newReader bs with
  | ok v =>
    obtain ⟨dims, rest⟩ := v
    have hlen : rest.length ≤ bs.length := (newReader_total bs).2 dims rest hn
    simp only [dimLen]
    cases hc : readFormulas ctx (bs.length + 1) rest 0 with
    | ok l => simp
    | err e => simp
    | panic s => simp
    | outOfFuel => exact absurd hc (readFormulas_fuel ctx _ _ _ (by omega))
  | err e => simp
  | panic s => simp
  | outOfFuel => exact absurd hn (newReader_total bs).1

/-- what the round-trip theorem requires of an item (`nSheets` = length of the extern-sheet table) -/
def FItem.OK (nSheets : Nat) : FItem → Prop
  | .row r tail => r ≤ 0x100000 ∧ 4 + tail.length < 268435456
  | .raw id p => id < 16384 ∧ interpretedId id = false ∧ p.length < 268435456
  | .plain col _ content => col < 4294967296 ∧ content.WF ∧ 8 + content.bytes.length < 268435456
  | .fcell col style content flags e rgcb =>
    col < 4294967296 ∧ content.WF ∧ content.hasFmla = true ∧ e.arityOk ∧
    (∀ t ∈ toRpn e, t.wf false ∧ t.sheetOk nSheets) ∧ rgcb.length < 4294967296 ∧
    (CellRec.payload ⟨col, style, content, some (fmlaBytes flags (encodeXlsb (toRpn e)) rgcb)⟩).length < 268435456


/-! ### the formula records on encoder output -/

theorem le16_length (n : Nat) : (Xlsb.le16 n).length = 2 := rfl
theorem cellHead_length (col style : Nat) : (cellHead col style).length = 8 := rfl

theorem u32le_cellHead (col style : Nat) (h : col < 4294967296) (rest : Bytes) :
    u32le (cellHead col style ++ rest) = col := by
  unfold cellHead
  rw [List.append_assoc, u32le_le32 col h]

/-- `formula_rgce` on a record whose CellParsedFormula starts right after `pre` -/
theorem formulaRgce_enc (pre rgce rgcb : Bytes) (h : rgce.length < 4294967296) :
    formulaRgce (pre ++ (Xlsb.le32 rgce.length ++ (rgce ++ (Xlsb.le32 rgcb.length ++ rgcb)))) (some pre.length) = .ok rgce := by
  unfold formulaRgce
  simp only
  rw [if_neg (by simp), List.drop_left' rfl]
  rw [if_neg (by simp [le32_length]), u32le_le32 _ h]
  rw [if_neg (by simp [le32_length]; omega)]
  have : (Xlsb.le32 rgce.length ++ (rgce ++ (Xlsb.le32 rgcb.length ++ rgcb))).drop 4 = rgce ++ (Xlsb.le32 rgcb.length ++ rgcb) :=
    List.drop_left' (le32_length _)
  rw [this, List.take_left' rfl]

/-- a formula cell record: the loop sees the `rgce` of the expression, and the column in front -/
theorem finterpret_fcell (col style : Nat) (content : Content) (flags : Nat) (rgce rgcb : Bytes)
    (hcol : col < 4294967296) (hwf : content.WF) (hf : content.hasFmla = true) (hlen : rgce.length < 4294967296) :
    let c : CellRec := ⟨col, style, content, some (fmlaBytes flags rgce rgcb)⟩
    finterpret c.recId c.payload = .cell rgce ∧ u32le c.payload = col ∧ (8 ≤ c.recId ∧ c.recId ≤ 11) := by
  intro c
  have hpay : c.payload = cellHead col style ++ content.bytes ++ fmlaBytes flags rgce rgcb := by
    simp [c, CellRec.payload, hf]
  refine ⟨?_, by rw [hpay, List.append_assoc]; exact u32le_cellHead col style hcol _, ?_⟩
  · cases content with
    | blank => simp [Content.hasFmla] at hf
    | rk w => simp [Content.hasFmla] at hf
    | isst i => simp [Content.hasFmla] at hf
    | err code =>
      have hid : c.recId = 11 := rfl
      have hshape : c.payload = (cellHead col style ++ [UInt8.ofNat code] ++ Xlsb.le16 flags) ++
          (Xlsb.le32 rgce.length ++ (rgce ++ (Xlsb.le32 rgcb.length ++ rgcb))) := by
        rw [hpay]; simp [Content.bytes, fmlaBytes, List.append_assoc]
      have hl : (cellHead col style ++ [UInt8.ofNat code] ++ Xlsb.le16 flags).length = 11 := rfl
      have := formulaRgce_enc (cellHead col style ++ [UInt8.ofNat code] ++ Xlsb.le16 flags) rgce rgcb hlen
      rw [hl] at this
      rw [hid, hshape]
      unfold finterpret
      rw [if_neg (by decide), if_neg (by decide), if_pos (by decide), this]
    | bool b =>
      have hid : c.recId = 10 := rfl
      have hshape : c.payload = (cellHead col style ++ [UInt8.ofNat b] ++ Xlsb.le16 flags) ++
          (Xlsb.le32 rgce.length ++ (rgce ++ (Xlsb.le32 rgcb.length ++ rgcb))) := by
        rw [hpay]; simp [Content.bytes, fmlaBytes, List.append_assoc]
      have hl : (cellHead col style ++ [UInt8.ofNat b] ++ Xlsb.le16 flags).length = 11 := rfl
      have := formulaRgce_enc (cellHead col style ++ [UInt8.ofNat b] ++ Xlsb.le16 flags) rgce rgcb hlen
      rw [hl] at this
      rw [hid, hshape]
      unfold finterpret
      rw [if_neg (by decide), if_neg (by decide), if_pos (by decide), this]
    | real bits =>
      have hid : c.recId = 9 := rfl
      have hshape : c.payload = (cellHead col style ++ Xlsb.le64 bits ++ Xlsb.le16 flags) ++
          (Xlsb.le32 rgce.length ++ (rgce ++ (Xlsb.le32 rgcb.length ++ rgcb))) := by
        rw [hpay]; simp [Content.bytes, fmlaBytes, List.append_assoc]
      have hl : (cellHead col style ++ Xlsb.le64 bits ++ Xlsb.le16 flags).length = 18 := rfl
      have := formulaRgce_enc (cellHead col style ++ Xlsb.le64 bits ++ Xlsb.le16 flags) rgce rgcb hlen
      rw [hl] at this
      rw [hid, hshape]
      unfold finterpret
      rw [if_neg (by decide), if_pos (by decide), this]
    | str us =>
      obtain ⟨hus, _⟩ := hwf
      have hid : c.recId = 8 := rfl
      have hshape : c.payload = (cellHead col style ++ wideBytes us ++ Xlsb.le16 flags) ++
          (Xlsb.le32 rgce.length ++ (rgce ++ (Xlsb.le32 rgcb.length ++ rgcb))) := by
        rw [hpay]; simp [Content.bytes, fmlaBytes, List.append_assoc]
      have hl : (cellHead col style ++ wideBytes us ++ Xlsb.le16 flags).length = 2 * us.length + 14 := by
        simp [wideBytes, cellHead_length, le32_length, unitsBytes_length, le16_length]; omega
      have hcch : u32le ((cellHead col style ++ wideBytes us ++ Xlsb.le16 flags ++
          (Xlsb.le32 rgce.length ++ (rgce ++ (Xlsb.le32 rgcb.length ++ rgcb)))).drop 8) = us.length := by
        have : (cellHead col style ++ wideBytes us ++ Xlsb.le16 flags ++
            (Xlsb.le32 rgce.length ++ (rgce ++ (Xlsb.le32 rgcb.length ++ rgcb)))).drop 8 =
            Xlsb.le32 us.length ++ (unitsBytes us ++ (Xlsb.le16 flags ++
              (Xlsb.le32 rgce.length ++ (rgce ++ (Xlsb.le32 rgcb.length ++ rgcb))))) := by
          simp only [wideBytes, List.append_assoc]
          exact List.drop_left' (cellHead_length _ _)
        rw [this, u32le_le32 _ hus]
      have hlen12 : ¬ (cellHead col style ++ wideBytes us ++ Xlsb.le16 flags ++
          (Xlsb.le32 rgce.length ++ (rgce ++ (Xlsb.le32 rgcb.length ++ rgcb)))).length < 12 := by
        simp [wideBytes, cellHead_length, le32_length]; omega
      have := formulaRgce_enc (cellHead col style ++ wideBytes us ++ Xlsb.le16 flags) rgce rgcb hlen
      rw [hl] at this
      rw [hid, hshape]
      unfold finterpret
      rw [if_pos (by decide), if_neg hlen12, hcch, this]
  · cases content <;> simp [Content.hasFmla] at hf <;> simp [c, CellRec.recId]

/-! ### the sheet data -/

theorem finterpret_skip (t : Nat) (p : Bytes) (h : t ≠ 0 ∧ t ≠ 8 ∧ t ≠ 9 ∧ t ≠ 10 ∧ t ≠ 11 ∧ t ≠ 0x92) :
    finterpret t p = .skip := by
  obtain ⟨h0, h8, h9, h10, h11, h92⟩ := h
  unfold finterpret
  rw [if_neg h8, if_neg h9, if_neg (by omega), if_neg h0, if_neg h92]

theorem finterpret_row (r : Nat) (hr : r < 4294967296) (tail : Bytes) :
    finterpret 0 (Xlsb.le32 r ++ tail) = .row r := by
  unfold finterpret
  rw [if_neg (by decide), if_neg (by decide), if_neg (by decide), if_pos rfl, if_neg (by simp [le32_length]),
    u32le_le32 r hr]

theorem finterpret_stop (p : Bytes) : finterpret 0x92 p = .stop := by
  unfold finterpret
  rw [if_neg (by decide), if_neg (by decide), if_neg (by decide), if_neg (by decide), if_pos rfl]

theorem interpretedId_false (id : Nat) (h : interpretedId id = false) :
    id ≠ 0 ∧ id ≠ 8 ∧ id ≠ 9 ∧ id ≠ 10 ∧ id ≠ 11 ∧ id ≠ 0x92 := by
  unfold interpretedId at h
  refine ⟨?_, ?_, ?_, ?_, ?_, ?_⟩ <;> (intro hid; subst hid; simp at h)

theorem readFormulas_data (ctx : Ptg.Ctx) (endWide : Bool) (endLenW : Nat) (post : Bytes) :
    ∀ (data : List FFramed) (f row : Nat), (∀ d ∈ data, d.item.OK ctx.sheets.length) → data.length < f →
      readFormulas ctx f (encodeFItems data ++ (frame 0x92 [] endWide endLenW ++ post)) row
        = .ok (specFormulas (envOfXlsb ctx) (data.map (·.item)) row)
  | [], f, row, _, hf => by
    obtain ⟨f', rfl⟩ : ∃ f', f = f' + 1 := ⟨f - 1, by simp at hf; omega⟩
    simp only [encodeFItems, List.map_nil, encodeItems, List.nil_append, specFormulas]
    rw [readFormulas, readRecord_frame _ (by omega) _ (by simp)]
    simp only [finterpret_stop]
  | d :: rest, f, row, hok, hf => by
    obtain ⟨f', rfl⟩ : ∃ f', f = f' + 1 := ⟨f - 1, by simp at hf; omega⟩
    have hd := hok d (List.mem_cons_self ..)
    have hrest : ∀ x ∈ rest, x.item.OK ctx.sheets.length := fun x hx => hok x (List.mem_cons_of_mem _ hx)
    have hf' : rest.length < f' := by simp at hf; omega
    have ih := readFormulas_data ctx endWide endLenW post rest f'
    simp only [encodeFItems, List.map_cons, encodeItems, List.append_assoc] at ih ⊢
    obtain ⟨item, wide, lenW⟩ := d
    cases item with
    | row r tail =>
      obtain ⟨hr, hl⟩ := hd
      rw [readFormulas, Framed.bytes]
      simp only [FFramed.toFramed, FItem.toItem]
      rw [readRecord_frame _ (by simp [Item.recId]) _ (by simp [Item.payload, le32_length]; omega)]
      simp only [Item.recId, Item.payload, finterpret_row r (by omega), specFormulas]
      rw [if_neg (by omega)]
      exact ih r hrest hf'
    | raw id p =>
      obtain ⟨hid, hni, hl⟩ := hd
      rw [readFormulas, Framed.bytes]
      simp only [FFramed.toFramed, FItem.toItem]
      rw [readRecord_frame _ (by simpa [Item.recId] using hid) _ (by simpa [Item.payload] using hl)]
      simp only [Item.recId, Item.payload, finterpret_skip id p (interpretedId_false id hni), specFormulas]
      exact ih row hrest hf'
    | plain col style content =>
      obtain ⟨hcol, hwf, hl⟩ := hd
      have hidr : (CellRec.recId ⟨col, style, content, none⟩) ≠ 0 ∧ (CellRec.recId ⟨col, style, content, none⟩) ≠ 8 ∧
          (CellRec.recId ⟨col, style, content, none⟩) ≠ 9 ∧ (CellRec.recId ⟨col, style, content, none⟩) ≠ 10 ∧
          (CellRec.recId ⟨col, style, content, none⟩) ≠ 11 ∧ (CellRec.recId ⟨col, style, content, none⟩) ≠ 0x92 := by
        cases content <;> simp [CellRec.recId]
      have hidlt : (CellRec.recId ⟨col, style, content, none⟩) < 16384 := by
        cases content <;> simp [CellRec.recId]
      have hpl : (CellRec.payload ⟨col, style, content, none⟩).length < 268435456 := by
        simp [CellRec.payload, cellHead_length]; omega
      rw [readFormulas, Framed.bytes]
      simp only [FFramed.toFramed, FItem.toItem]
      rw [readRecord_frame _ (by simpa [Item.recId] using hidlt) _ (by simpa [Item.payload] using hpl)]
      simp only [Item.recId, Item.payload, finterpret_skip _ _ hidr, specFormulas]
      exact ih row hrest hf'
    | fcell col style content flags e rgcb =>
      obtain ⟨hcol, hwf, hfm, har, htok, hcb, hl⟩ := hd
      have hrl : (encodeXlsb (toRpn e)).length < 4294967296 := by
        have : (encodeXlsb (toRpn e)).length ≤
            (CellRec.payload ⟨col, style, content, some (fmlaBytes flags (encodeXlsb (toRpn e)) rgcb)⟩).length := by
          simp [CellRec.payload, hfm, fmlaBytes]; omega
        omega
      obtain ⟨h1, h2, h3⟩ := finterpret_fcell col style content flags (encodeXlsb (toRpn e)) rgcb hcol hwf hfm hrl
      rw [readFormulas, Framed.bytes]
      simp only [FFramed.toFramed, FItem.toItem]
      rw [readRecord_frame _ (by simp only [Item.recId]; omega) _ (by simpa [Item.payload] using hl)]
      simp only [Item.recId, Item.payload, h1, h2, parseFormulaXlsb_encode ctx e har htok, specFormulas]
      rw [ih row hrest hf']

/-! ### the whole worksheet part -/

/-- the formula cells of a described sheet that `worksheet_formula` keeps: those with a non-empty text -/
def keptFormulas (env : Env) (items : List FItem) : List (Nat × Nat × List Char) :=
  (specFormulas env items 0).filter (fun c => c.2.2 ≠ [])

theorem sheetFormulas_enc (ctx : Ptg.Ctx) (pre1 pre2 : List Seg) (dims : Bytes) (dw : Bool) (dl : Nat) (bp : Bytes)
    (bw : Bool) (bl : Nat) (data : List FFramed) (ew : Bool) (el : Nat) (post : Bytes)
    (h1 : ∀ s ∈ pre1, s.OK 0x0094 bounds1) (h2 : ∀ s ∈ pre2, s.OK 0x0091 bounds2)
    (hd : 16 ≤ dims.length ∧ dims.length < 268435456) (hb : bp.length < 268435456)
    (hok : ∀ d ∈ data, d.item.OK ctx.sheets.length) :
    sheetFormulas ctx (sheetBytes pre1 dims dw dl pre2 bp bw bl (data.map FFramed.toFramed) ew el post)
      = .ok (keptFormulas (envOfXlsb ctx) (data.map (·.item))) := by
  unfold sheetFormulas sheetBytes
  rw [newReader_enc pre1 pre2 dims dw dl bp bw bl _ h1 h2 hd hb]
  simp only [dimLen]
  have hlen := encodeItems_length_ge (data.map FFramed.toFramed)
  have hrd := readFormulas_data ctx ew el post data
    ((encodeSegs pre1 ++ (frame 0x0094 dims dw dl ++ (encodeSegs pre2 ++ (frame 0x0091 bp bw bl ++
      (encodeItems (data.map FFramed.toFramed) ++ (frame 0x0092 [] ew el ++ post)))))).length + 1) 0 hok
    (by simp only [List.length_append, List.length_map] at hlen ⊢; omega)
  simp only [encodeFItems] at hrd
  rw [hrd]
  rfl

end XlsbFormula
