import CalVerif.Spec.OvbaContainer
/-! Helper lemmas for property C18 (MS-OVBA decompression): bit fields of headers and copy tokens, the chunked
    copy loop, the token / flag-group / chunk loops of `decompress_stream` against the container spec. -/
namespace Ovba

theorem range4 : List.range' 4 12 = [4,5,6,7,8,9,10,11,12,13,14,15] := by decide

theorem bitCount?_eq (d : Nat) : bitCount? d =
    if d ≤ 16 then some 4 else if d ≤ 32 then some 5 else if d ≤ 64 then some 6 else if d ≤ 128 then some 7
    else if d ≤ 256 then some 8 else if d ≤ 512 then some 9 else if d ≤ 1024 then some 10
    else if d ≤ 2048 then some 11 else if d ≤ 4096 then some 12 else if d ≤ 8192 then some 13
    else if d ≤ 16384 then some 14 else if d ≤ 32768 then some 15 else none := by
  unfold bitCount?
  rw [range4]
  simp only [List.find?_cons, List.find?_nil, ge_iff_le, Nat.reducePow]
  by_cases h1 : d ≤ 16
  · simp [h1]
  by_cases h2 : d ≤ 32
  · simp [h1, h2]
  by_cases h3 : d ≤ 64
  · simp [h1, h2, h3]
  by_cases h4 : d ≤ 128
  · simp [h1, h2, h3, h4]
  by_cases h5 : d ≤ 256
  · simp [h1, h2, h3, h4, h5]
  by_cases h6 : d ≤ 512
  · simp [h1, h2, h3, h4, h5, h6]
  by_cases h7 : d ≤ 1024
  · simp [h1, h2, h3, h4, h5, h6, h7]
  by_cases h8 : d ≤ 2048
  · simp [h1, h2, h3, h4, h5, h6, h7, h8]
  by_cases h9 : d ≤ 4096
  · simp [h1, h2, h3, h4, h5, h6, h7, h8, h9]
  by_cases h10 : d ≤ 8192
  · simp [h1, h2, h3, h4, h5, h6, h7, h8, h9, h10]
  by_cases h11 : d ≤ 16384
  · simp [h1, h2, h3, h4, h5, h6, h7, h8, h9, h10, h11]
  by_cases h12 : d ≤ 32768
  · simp [h1, h2, h3, h4, h5, h6, h7, h8, h9, h10, h11, h12]
  simp [h1, h2, h3, h4, h5, h6, h7, h8, h9, h10, h11, h12]

theorem hdr_size (x : Nat) (h : x < 4096) : (0xB000 + x) &&& 0x0FFF = x := by
  have := Nat.and_two_pow_sub_one_eq_mod (0xB000 + x) 12
  simp only [Nat.reducePow, Nat.reduceSub] at this
  rw [this]; omega
theorem hdr_sig (x : Nat) (h : x < 4096) : ((0xB000 + x) &&& 0x7000) >>> 12 = 3 := by
  rw [Nat.shiftRight_and_distrib]
  have := Nat.and_two_pow_sub_one_eq_mod ((0xB000 + x) >>> 12) 3
  simp only [Nat.reducePow, Nat.reduceSub] at this
  simp only [Nat.reduceShiftRight]
  rw [this, Nat.shiftRight_eq_div_pow]; omega
theorem hdr_flag (x : Nat) (h : x < 4096) : ((0xB000 + x) &&& 0x8000) >>> 15 = 1 := by
  rw [Nat.shiftRight_and_distrib]
  have := Nat.and_two_pow_sub_one_eq_mod ((0xB000 + x) >>> 15) 1
  simp only [Nat.reducePow, Nat.reduceSub] at this
  simp only [Nat.reduceShiftRight]
  rw [this, Nat.shiftRight_eq_div_pow]; omega

theorem lenMask_eq (bc : Nat) (h4 : 4 ≤ bc) (h15 : bc ≤ 15) : 0xFFFF >>> bc = 2 ^ (16 - bc) - 1 := by
  have : bc = 4 ∨ bc = 5 ∨ bc = 6 ∨ bc = 7 ∨ bc = 8 ∨ bc = 9 ∨ bc = 10 ∨ bc = 11 ∨ bc = 12 ∨ bc = 13 ∨ bc = 14 ∨ bc = 15 := by omega
  rcases this with h | h | h | h | h | h | h | h | h | h | h | h <;> subst h <;> decide

theorem high_bits (tok k : Nat) (h : tok < 2 ^ 16) :
    (tok &&& ((2 ^ 16 - 1) ^^^ (2 ^ k - 1))) >>> k = tok / 2 ^ k := by
  rw [← Nat.shiftRight_eq_div_pow]
  apply Nat.eq_of_testBit_eq
  intro i
  simp only [Nat.testBit_shiftRight, Nat.testBit_and, Nat.testBit_xor, Nat.testBit_two_pow_sub_one]
  by_cases h16 : k + i < 16
  · simp [h16]
  · have : tok.testBit (k + i) = false := by
      apply Nat.testBit_lt_two_pow
      calc tok < 2 ^ 16 := h
        _ ≤ 2 ^ (k + i) := Nat.pow_le_pow_right (by omega) (by omega)
    simp [this]

/-- the model's unpacking of a copy token is `div`/`mod` by `2^(16-bc)` -/
theorem unpack_eq (tok bc : Nat) (h : tok < 65536) (h4 : 4 ≤ bc) (h15 : bc ≤ 15) :
    (tok &&& (0xFFFF >>> bc)) = tok % 2 ^ (16 - bc) ∧
    ((tok &&& (0xFFFF ^^^ (0xFFFF >>> bc))) >>> (16 - bc)) = tok / 2 ^ (16 - bc) := by
  rw [lenMask_eq bc h4 h15]
  refine ⟨Nat.and_two_pow_sub_one_eq_mod _ _, ?_⟩
  exact high_bits tok (16 - bc) h

theorem u16le_bytes (w : Nat) (h : w < 65536) : u16le (UInt8.ofNat (w % 256)) (UInt8.ofNat (w / 256)) = w := by
  unfold u16le
  simp only [UInt8.toNat_ofNat']
  omega

/-- byte-by-byte copy on the reversed buffer -/
def copyRev (off : Nat) : Nat → Bytes → Bytes
  | 0, out => out
  | n + 1, out => copyRev off n (out.getD (off - 1) 0 :: out)

theorem copyRev_add (off a b : Nat) (out : Bytes) :
    copyRev off (a + b) out = copyRev off b (copyRev off a out) := by
  induction a generalizing out with
  | zero => simp [copyRev]
  | succ a ih => rw [Nat.succ_add]; simp only [copyRev]; exact ih _

theorem copyRev_length (off n : Nat) (out : Bytes) : (copyRev off n out).length = out.length + n := by
  induction n generalizing out with
  | zero => simp [copyRev]
  | succ n ih => simp only [copyRev]; rw [ih]; simp; omega

/-- up to `off` bytes: one block move -/
theorem copyRev_block (off k : Nat) (out : Bytes) (h1 : 1 ≤ off) (h2 : off ≤ out.length) (hk : k ≤ off) :
    copyRev off k out = (out.take off).drop (off - k) ++ out := by
  induction k with
  | zero =>
    simp [copyRev]
  | succ k ih =>
    rw [copyRev_add, ih (by omega)]
    simp only [copyRev]
    have hlen : ((out.take off).drop (off - k)).length = k := by simp; omega
    have hget : ((out.take off).drop (off - k) ++ out).getD (off - 1) 0 = out.getD (off - 1 - k) 0 := by
      simp only [List.getD_eq_getElem?_getD]
      rw [List.getElem?_append_right (by omega), hlen]
    rw [hget]
    have hi : off - (k + 1) < (out.take off).length := by simp; omega
    rw [List.drop_eq_getElem_cons hi]
    have : off - (k + 1) + 1 = off - k := by omega
    rw [this]
    simp only [List.cons_append, List.cons.injEq, and_true]
    rw [List.getD_eq_getElem?_getD, List.getElem_take]
    have : off - 1 - k = off - (k + 1) := by omega
    rw [this, List.getElem?_eq_getElem (by omega)]
    simp

theorem copyLoop_eq (off : Nat) (h1 : 1 ≤ off) : ∀ (fuel len : Nat) (out : Bytes) (olen : Nat),
    off ≤ out.length → len ≤ fuel * off → 1 ≤ fuel →
    copyLoop off fuel len out olen = .ok (copyRev off len out, olen + len)
  | 0, _, _, _, _, _, hf => by omega
  | fuel + 1, len, out, olen, h2, hlen, _ => by
    simp only [copyLoop]
    split
    · rename_i hgt
      have hb := copyRev_block off off out h1 h2 (Nat.le_refl _)
      simp only [Nat.sub_self, List.drop_zero] at hb
      obtain ⟨m, rfl⟩ : ∃ m, len = off + m := ⟨len - off, by omega⟩
      have hm : off + m - off = m := Nat.add_sub_cancel_left off m
      rw [hm, copyRev_add, hb]
      cases fuel with
      | zero => exfalso; simp at hlen; omega
      | succ f =>
        have ih := copyLoop_eq off h1 (f + 1) m (out.take off ++ out) (olen + off)
          (by simp; omega) (by rw [Nat.succ_mul] at hlen; omega) (by omega)
        rw [ih, Nat.add_assoc]
    · rename_i hle
      rw [copyRev_block off len out h1 h2 (by omega), List.drop_take]
      have : off - (off - len) = len := by omega
      rw [this]

theorem copyRev_append (off n : Nat) (c p : Bytes) (h1 : 1 ≤ off) (h2 : off ≤ c.length) :
    copyRev off n (c ++ p) = copyRev off n c ++ p := by
  induction n generalizing c with
  | zero => simp [copyRev]
  | succ n ih =>
    simp only [copyRev]
    have : (c ++ p).getD (off - 1) 0 = c.getD (off - 1) 0 := by
      simp only [List.getD_eq_getElem?_getD]
      rw [List.getElem?_append_left (by omega)]
    rw [this, ← List.cons_append]
    exact ih _ (by simp; omega)

theorem copyRev_reverse (off n : Nat) (out : Bytes) (h1 : 1 ≤ off) (h2 : off ≤ out.length) :
    (copyRev off n out).reverse = copySpec off n out.reverse := by
  induction n generalizing out with
  | zero => simp [copyRev, copySpec]
  | succ n ih =>
    simp only [copyRev, copySpec]
    rw [ih _ (by simp; omega)]
    congr 1
    simp only [List.reverse_cons, List.length_reverse]
    congr 2
    simp only [List.getD_eq_getElem?_getD]
    rw [List.getElem?_reverse (by omega)]
    congr 2
    omega

/-- copy on the global reversed buffer = the spec's chunk-local byte copy -/
theorem copyRev_spec (off n : Nat) (cur prev : Bytes) (h1 : 1 ≤ off) (h2 : off ≤ cur.length) :
    copyRev off n (cur.reverse ++ prev) = (copySpec off n cur).reverse ++ prev := by
  rw [copyRev_append off n _ _ h1 (by simpa using h2)]
  congr 1
  have := copyRev_reverse off n cur.reverse h1 (by simpa using h2)
  rw [List.reverse_reverse] at this
  rw [← this, List.reverse_reverse]

theorem copySpec_length (off n : Nat) (res : Bytes) : (copySpec off n res).length = res.length + n := by
  induction n generalizing res with
  | zero => simp [copySpec]
  | succ n ih => simp only [copySpec]; rw [ih]; simp; omega


theorem bitCount_of_some {d bc : Nat} (h : bitCount? d = some bc) : bitCount d = bc := by
  simp [bitCount, h]

/-- pack/unpack arithmetic of a valid copy token -/
theorem pack_facts (d off len : Nat) (h1 : 1 ≤ off) (h2 : off ≤ d) (h3 : 3 ≤ len) (h4 : len ≤ maxLen d)
    (h5 : d ≤ 4096) :
    ∃ bc, bitCount? d = some bc ∧ 4 ≤ bc ∧ bc ≤ 12 ∧ packCopy d off len < 65536 ∧
      packCopy d off len % 2 ^ (16 - bc) + 3 = len ∧ packCopy d off len / 2 ^ (16 - bc) + 1 = off := by
  have hb := bitCount?_eq d
  unfold maxLen lengthMask at h4
  unfold packCopy
  by_cases c1 : d ≤ 16
  · rw [if_pos c1] at hb
    refine ⟨4, hb, by omega, by omega, ?_⟩
    rw [bitCount_of_some hb] at h4 ⊢
    simp only [Nat.reduceSub, Nat.reducePow] at h4 ⊢
    omega
  rw [if_neg c1] at hb
  by_cases c2 : d ≤ 32
  · rw [if_pos c2] at hb
    refine ⟨5, hb, by omega, by omega, ?_⟩
    rw [bitCount_of_some hb] at h4 ⊢
    simp only [Nat.reduceSub, Nat.reducePow] at h4 ⊢
    omega
  rw [if_neg c2] at hb
  by_cases c3 : d ≤ 64
  · rw [if_pos c3] at hb
    refine ⟨6, hb, by omega, by omega, ?_⟩
    rw [bitCount_of_some hb] at h4 ⊢
    simp only [Nat.reduceSub, Nat.reducePow] at h4 ⊢
    omega
  rw [if_neg c3] at hb
  by_cases c4 : d ≤ 128
  · rw [if_pos c4] at hb
    refine ⟨7, hb, by omega, by omega, ?_⟩
    rw [bitCount_of_some hb] at h4 ⊢
    simp only [Nat.reduceSub, Nat.reducePow] at h4 ⊢
    omega
  rw [if_neg c4] at hb
  by_cases c5 : d ≤ 256
  · rw [if_pos c5] at hb
    refine ⟨8, hb, by omega, by omega, ?_⟩
    rw [bitCount_of_some hb] at h4 ⊢
    simp only [Nat.reduceSub, Nat.reducePow] at h4 ⊢
    omega
  rw [if_neg c5] at hb
  by_cases c6 : d ≤ 512
  · rw [if_pos c6] at hb
    refine ⟨9, hb, by omega, by omega, ?_⟩
    rw [bitCount_of_some hb] at h4 ⊢
    simp only [Nat.reduceSub, Nat.reducePow] at h4 ⊢
    omega
  rw [if_neg c6] at hb
  by_cases c7 : d ≤ 1024
  · rw [if_pos c7] at hb
    refine ⟨10, hb, by omega, by omega, ?_⟩
    rw [bitCount_of_some hb] at h4 ⊢
    simp only [Nat.reduceSub, Nat.reducePow] at h4 ⊢
    omega
  rw [if_neg c7] at hb
  by_cases c8 : d ≤ 2048
  · rw [if_pos c8] at hb
    refine ⟨11, hb, by omega, by omega, ?_⟩
    rw [bitCount_of_some hb] at h4 ⊢
    simp only [Nat.reduceSub, Nat.reducePow] at h4 ⊢
    omega
  rw [if_neg c8, if_pos h5] at hb
  refine ⟨12, hb, by omega, by omega, ?_⟩
  rw [bitCount_of_some hb] at h4 ⊢
  simp only [Nat.reduceSub, Nat.reducePow] at h4 ⊢
  omega


end Ovba
