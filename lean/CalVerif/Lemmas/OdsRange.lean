import CalVerif.Spec.OdsRange
import CalVerif.Lemmas.Range
/-! Helper lemmas for C04 (`Props/C04.lean`): rows and their first / last non-default positions,
    the two passes of `get_range`, the run logic of `read_row`. -/

namespace OdsRange
open Range (Rng Inv)
set_option linter.unusedSectionVars false
variable {α : Type} [Inhabited α] [DecidableEq α]

/-! ### rows: `is_empty_row`, `position`, `rposition` -/

theorem isEmptyRow_iff (row : List α) : isEmptyRow row = true ↔ ∀ x ∈ row, x = default := by
  simp [isEmptyRow, List.all_eq_true]

theorem isEmptyRow_cons (x : α) (xs : List α) :
    isEmptyRow (x :: xs) = true ↔ x = default ∧ isEmptyRow xs = true := by
  simp [isEmptyRow]

theorem getD_of_isEmptyRow (row : List α) (h : isEmptyRow row = true) (c : Nat) :
    row.getD c default = default := by
  rw [List.getD_eq_getElem?_getD]
  cases hc : row[c]? with
  | none => rfl
  | some v => exact (isEmptyRow_iff row).1 h v (List.mem_of_getElem? hc)

theorem isEmptyRow_of_getD (row : List α) (h : ∀ c, row.getD c default = default) : isEmptyRow row = true := by
  rw [isEmptyRow_iff]
  intro x hx
  obtain ⟨i, hi, rfl⟩ := List.getElem_of_mem hx
  have := h i
  rwa [List.getD_eq_getElem?_getD, List.getElem?_eq_getElem hi] at this

theorem position_none_iff : ∀ (row : List α), position row = none ↔ isEmptyRow row = true
  | [] => by simp [position, isEmptyRow]
  | x :: xs => by
    rw [isEmptyRow_cons, position]
    by_cases hx : x = default
    · simp [hx, position_none_iff xs]
    · simp [hx]

theorem rposition_none_iff : ∀ (row : List α), rposition row = none ↔ isEmptyRow row = true
  | [] => by simp [rposition, isEmptyRow]
  | x :: xs => by
    rw [isEmptyRow_cons, rposition]
    cases h : rposition xs with
    | some k =>
      have : ¬ isEmptyRow xs = true := by rw [← rposition_none_iff xs, h]; simp
      simp [this]
    | none =>
      have : isEmptyRow xs = true := (rposition_none_iff xs).1 h
      by_cases hx : x = default <;> simp [hx, this]

theorem position_some : ∀ (row : List α) (p : Nat), position row = some p →
    p < row.length ∧ row.getD p default ≠ default ∧ ∀ c, c < p → row.getD c default = default
  | [], p, h => by simp [position] at h
  | x :: xs, p, h => by
    rw [position] at h
    by_cases hx : x = default
    · simp only [hx, ne_eq, not_true_eq_false, if_false, Option.map_eq_some_iff] at h
      obtain ⟨p', hp', rfl⟩ := h
      obtain ⟨h1, h2, h3⟩ := position_some xs p' hp'
      refine ⟨by simp; omega, by simpa using h2, ?_⟩
      intro c hc
      cases c with
      | zero => simp [hx]
      | succ c => simpa using h3 c (by omega)
    · simp only [ne_eq, hx, not_false_eq_true, if_true, Option.some.injEq] at h
      subst h
      exact ⟨by simp, by simpa using hx, by intro c hc; omega⟩

theorem rposition_some : ∀ (row : List α) (q : Nat), rposition row = some q →
    q < row.length ∧ row.getD q default ≠ default ∧ ∀ c, q < c → row.getD c default = default
  | [], q, h => by simp [rposition] at h
  | x :: xs, q, h => by
    rw [rposition] at h
    cases hr : rposition xs with
    | some k =>
      rw [hr] at h
      simp only [Option.some.injEq] at h
      subst h
      obtain ⟨h1, h2, h3⟩ := rposition_some xs k hr
      refine ⟨by simp; omega, by simpa using h2, ?_⟩
      intro c hc
      cases c with
      | zero => omega
      | succ c => simpa using h3 c (by omega)
    | none =>
      rw [hr] at h
      have he : isEmptyRow xs = true := (rposition_none_iff xs).1 hr
      by_cases hx : x = default
      · simp [hx] at h
      · simp only [ne_eq, hx, not_false_eq_true, if_true, Option.some.injEq] at h
        subst h
        refine ⟨by simp, by simpa using hx, ?_⟩
        intro c hc
        cases c with
        | zero => omega
        | succ c => simpa using getD_of_isEmptyRow xs he c

/-- every non-default cell of a row lies between `position` and `rposition` -/
theorem between_positions (row : List α) (p q c : Nat) (hp : position row = some p)
    (hq : rposition row = some q) (hc : row.getD c default ≠ default) : p ≤ c ∧ c ≤ q := by
  obtain ⟨_, _, h3⟩ := position_some row p hp
  obtain ⟨_, _, k3⟩ := rposition_some row q hq
  constructor
  · apply Classical.byContradiction; intro hn; exact hc (h3 c (by omega))
  · apply Classical.byContradiction; intro hn; exact hc (k3 c (by omega))

theorem position_le_rposition (row : List α) (p q : Nat) (hp : position row = some p)
    (hq : rposition row = some q) : p ≤ q :=
  (between_positions row p q p hp hq (position_some row p hp).2.1).2

theorem rposition_of_position (row : List α) (p : Nat) (hp : position row = some p) :
    ∃ q, rposition row = some q := by
  cases h : rposition row with
  | some q => exact ⟨q, rfl⟩
  | none =>
    have := (position_none_iff row).2 ((rposition_none_iff row).1 h)
    rw [this] at hp; cases hp

theorem position_of_not_empty (row : List α) (h : ¬ isEmptyRow row = true) : ∃ p, position row = some p := by
  cases hp : position row with
  | some p => exact ⟨p, rfl⟩
  | none => exact absurd ((position_none_iff row).1 hp) h

/-! ### first pass: the bounds search -/

theorem p1Step_empty (reps : List Nat) (s : P1) (i : Nat) (row : List α) (h : isEmptyRow row = true) :
    p1Step reps s i row = s := by
  unfold p1Step; rw [(position_none_iff row).2 h]

theorem p1Step_ne (reps : List Nat) (s : P1) (i : Nat) (row : List α) (p q : Nat)
    (hp : position row = some p) (hq : rposition row = some q) :
    p1Step reps s i row =
      { rmin := if s.rmin.isNone then some i else s.rmin,
        rmax := i,
        cmin := if p < s.cmin then p else s.cmin,
        cmax := if q > s.cmax then q else s.cmax,
        fe := if s.rmin.isNone then (reps.take i).sum - i else s.fe } := by
  unfold p1Step; rw [hp, hq]
  obtain ⟨rmin, rmax, cmin, cmax, fe⟩ := s
  cases rmin <;> simp <;> split <;> rfl

theorem p1Step_cmin (reps : List Nat) (s : P1) (i : Nat) (row : List α) (p : Nat)
    (hp : position row = some p) : (p1Step reps s i row).cmin = if p < s.cmin then p else s.cmin := by
  obtain ⟨q, hq⟩ := rposition_of_position row p hp
  rw [p1Step_ne reps s i row p q hp hq]

theorem p1Step_cmax (reps : List Nat) (s : P1) (i : Nat) (row : List α) (p q : Nat)
    (hp : position row = some p) (hq : rposition row = some q) :
    (p1Step reps s i row).cmax = if q > s.cmax then q else s.cmax := by
  rw [p1Step_ne reps s i row p q hp hq]

theorem pass1Loop_empty (reps : List Nat) : ∀ (rows : List (List α)) (i : Nat) (s : P1),
    (∀ row ∈ rows, isEmptyRow row = true) → pass1Loop reps rows i s = s
  | [], _, _, _ => rfl
  | row :: rest, i, s, h => by
    rw [pass1Loop, p1Step_empty reps s i row (h row (by simp))]
    exact pass1Loop_empty reps rest (i + 1) s (fun r hr => h r (by simp [hr]))

/-- `col_min` is a lower bound of every first non-default position and is attained (or untouched) -/
theorem pass1Loop_cmin (reps : List Nat) : ∀ (rows : List (List α)) (i : Nat) (s : P1),
    (pass1Loop reps rows i s).cmin ≤ s.cmin ∧
    (∀ row ∈ rows, ∀ p, position row = some p → (pass1Loop reps rows i s).cmin ≤ p) ∧
    ((pass1Loop reps rows i s).cmin = s.cmin ∨
      ∃ row ∈ rows, position row = some (pass1Loop reps rows i s).cmin)
  | [], _, s => ⟨Nat.le_refl _, by simp, Or.inl rfl⟩
  | row :: rest, i, s => by
    rw [pass1Loop]
    obtain ⟨h1, h2, h3⟩ := pass1Loop_cmin reps rest (i + 1) (p1Step reps s i row)
    cases hp : position row with
    | none =>
      have he := (position_none_iff row).1 hp
      rw [p1Step_empty reps s i row he] at h1 h2 h3 ⊢
      refine ⟨h1, ?_, ?_⟩
      · intro r hr p hpr
        rcases List.mem_cons.1 hr with rfl | hr
        · rw [hp] at hpr; cases hpr
        · exact h2 r hr p hpr
      · rcases h3 with h3 | ⟨r, hr, h3⟩
        · exact Or.inl h3
        · exact Or.inr ⟨r, by simp [hr], h3⟩
    | some p =>
      rw [p1Step_cmin reps s i row p hp] at h1 h3
      have hle : (if p < s.cmin then p else s.cmin) ≤ s.cmin ∧ (if p < s.cmin then p else s.cmin) ≤ p := by
        split <;> omega
      refine ⟨by omega, ?_, ?_⟩
      · intro r hr p' hpr
        rcases List.mem_cons.1 hr with rfl | hr
        · rw [hp] at hpr; injection hpr with hpr; subst hpr
          omega
        · exact h2 r hr p' hpr
      · rcases h3 with h3 | ⟨r, hr, h3⟩
        · by_cases hlt : p < s.cmin
          · rw [if_pos hlt] at h3
            exact Or.inr ⟨row, by simp, by rw [h3]; exact hp⟩
          · rw [if_neg hlt] at h3; exact Or.inl h3
        · exact Or.inr ⟨r, by simp [hr], h3⟩

/-- `col_max` is an upper bound of every last non-default position and is attained (or untouched) -/
theorem pass1Loop_cmax (reps : List Nat) : ∀ (rows : List (List α)) (i : Nat) (s : P1),
    s.cmax ≤ (pass1Loop reps rows i s).cmax ∧
    (∀ row ∈ rows, ∀ q, rposition row = some q → q ≤ (pass1Loop reps rows i s).cmax) ∧
    ((pass1Loop reps rows i s).cmax = s.cmax ∨
      ∃ row ∈ rows, rposition row = some (pass1Loop reps rows i s).cmax)
  | [], _, s => ⟨Nat.le_refl _, by simp, Or.inl rfl⟩
  | row :: rest, i, s => by
    rw [pass1Loop]
    obtain ⟨h1, h2, h3⟩ := pass1Loop_cmax reps rest (i + 1) (p1Step reps s i row)
    cases hp : position row with
    | none =>
      have he := (position_none_iff row).1 hp
      rw [p1Step_empty reps s i row he] at h1 h2 h3 ⊢
      refine ⟨h1, ?_, ?_⟩
      · intro r hr q hqr
        rcases List.mem_cons.1 hr with rfl | hr
        · rw [(rposition_none_iff _).2 he] at hqr; cases hqr
        · exact h2 r hr q hqr
      · rcases h3 with h3 | ⟨r, hr, h3⟩
        · exact Or.inl h3
        · exact Or.inr ⟨r, by simp [hr], h3⟩
    | some p =>
      obtain ⟨q, hq⟩ := rposition_of_position row p hp
      rw [p1Step_cmax reps s i row p q hp hq] at h1 h3
      have hle : s.cmax ≤ (if q > s.cmax then q else s.cmax) ∧ q ≤ (if q > s.cmax then q else s.cmax) := by
        split <;> omega
      refine ⟨by omega, ?_, ?_⟩
      · intro r hr q' hqr
        rcases List.mem_cons.1 hr with rfl | hr
        · rw [hq] at hqr; injection hqr with hqr; subst hqr
          omega
        · exact h2 r hr q' hqr
      · rcases h3 with h3 | ⟨r, hr, h3⟩
        · by_cases hgt : q > s.cmax
          · rw [if_pos hgt] at h3
            exact Or.inr ⟨row, by simp, by rw [h3]; exact hq⟩
          · rw [if_neg hgt] at h3; exact Or.inl h3
        · exact Or.inr ⟨r, by simp [hr], h3⟩

/-- once `row_min` is set it (and `first_empty_rows_repeated`) never changes -/
theorem pass1Loop_rmin_some (reps : List Nat) : ∀ (rows : List (List α)) (i : Nat) (s : P1) (k : Nat),
    s.rmin = some k → (pass1Loop reps rows i s).rmin = some k ∧ (pass1Loop reps rows i s).fe = s.fe
  | [], _, s, k, h => ⟨h, rfl⟩
  | row :: rest, i, s, k, h => by
    rw [pass1Loop]
    cases hp : position row with
    | none =>
      rw [p1Step_empty reps s i row ((position_none_iff row).1 hp)]
      exact pass1Loop_rmin_some reps rest (i + 1) s k h
    | some p =>
      obtain ⟨q, hq⟩ := rposition_of_position row p hp
      have := pass1Loop_rmin_some reps rest (i + 1) (p1Step reps s i row) k
        (by rw [p1Step_ne reps s i row p q hp hq]; simp [h])
      rw [this.1, this.2, p1Step_ne reps s i row p q hp hq]; simp [h]

/-- `row_min` is the index of the first non-empty row -/
theorem pass1Loop_rmin_none (reps : List Nat) : ∀ (rows : List (List α)) (i : Nat) (s : P1),
    s.rmin = none →
    ((pass1Loop reps rows i s).rmin = none ∧ ∀ row ∈ rows, isEmptyRow row = true) ∨
    (∃ A x B, rows = A ++ x :: B ∧ (∀ a ∈ A, isEmptyRow a = true) ∧ ¬ isEmptyRow x = true ∧
      (pass1Loop reps rows i s).rmin = some (i + A.length) ∧
      (pass1Loop reps rows i s).fe = (reps.take (i + A.length)).sum - (i + A.length))
  | [], _, s, h => Or.inl ⟨h, by simp⟩
  | row :: rest, i, s, h => by
    rw [pass1Loop]
    cases hp : position row with
    | none =>
      have he := (position_none_iff row).1 hp
      rw [p1Step_empty reps s i row he]
      rcases pass1Loop_rmin_none reps rest (i + 1) s h with ⟨h1, h2⟩ | ⟨A, x, B, e, hA, hx, h1, h2⟩
      · left; refine ⟨h1, ?_⟩
        intro r hr
        rcases List.mem_cons.1 hr with rfl | hr
        · exact he
        · exact h2 r hr
      · right
        refine ⟨row :: A, x, B, by simp [e], ?_, hx, ?_, ?_⟩
        · intro a ha
          rcases List.mem_cons.1 ha with rfl | ha
          · exact he
          · exact hA a ha
        · rw [h1]; simp; omega
        · rw [h2]; simp only [List.length_cons]
          rw [show i + 1 + A.length = i + (A.length + 1) by omega]
    | some p =>
      obtain ⟨q, hq⟩ := rposition_of_position row p hp
      right
      have hne : ¬ isEmptyRow row = true := by rw [← position_none_iff, hp]; simp
      have := pass1Loop_rmin_some reps rest (i + 1) (p1Step reps s i row) i
        (by rw [p1Step_ne reps s i row p q hp hq]; simp [h])
      refine ⟨[], row, rest, rfl, by simp, hne, by simpa using this.1, ?_⟩
      rw [this.2, p1Step_ne reps s i row p q hp hq]; simp [h]

/-- `row_max` is the index of the last non-empty row -/
theorem pass1Loop_rmax (reps : List Nat) : ∀ (rows : List (List α)) (i : Nat) (s : P1) (A : List (List α))
    (x : List α) (B : List (List α)), rows = A ++ x :: B → ¬ isEmptyRow x = true →
    (∀ b ∈ B, isEmptyRow b = true) → (pass1Loop reps rows i s).rmax = i + A.length
  | [], _, _, A, x, B, e, _, _ => by simp at e
  | row :: rest, i, s, [], x, B, e, hx, hB => by
    simp only [List.nil_append, List.cons.injEq] at e
    obtain ⟨rfl, rfl⟩ := e
    rw [pass1Loop, pass1Loop_empty reps rest (i + 1) _ hB]
    obtain ⟨p, hp⟩ := position_of_not_empty row hx
    obtain ⟨q, hq⟩ := rposition_of_position row p hp
    rw [p1Step_ne reps s i row p q hp hq]; simp
  | row :: rest, i, s, a :: A, x, B, e, hx, hB => by
    simp only [List.cons_append, List.cons.injEq] at e
    obtain ⟨rfl, rfl⟩ := e
    rw [pass1Loop, pass1Loop_rmax reps (A ++ x :: B) (i + 1) _ A x B rfl hx hB]
    simp; omega

/-- a list with a non-empty row splits at its last non-empty row -/
theorem split_last_ne : ∀ (rows : List (List α)), (∃ r ∈ rows, ¬ isEmptyRow r = true) →
    ∃ A x B, rows = A ++ x :: B ∧ ¬ isEmptyRow x = true ∧ ∀ b ∈ B, isEmptyRow b = true
  | [], h => by simp at h
  | row :: rest, h => by
    by_cases hr : ∃ r ∈ rest, ¬ isEmptyRow r = true
    · obtain ⟨A, x, B, e, hx, hB⟩ := split_last_ne rest hr
      exact ⟨row :: A, x, B, by simp [e], hx, hB⟩
    · have hall : ∀ b ∈ rest, isEmptyRow b = true := by
        intro b hb
        apply Classical.byContradiction; intro hn; exact hr ⟨b, hb, hn⟩
      obtain ⟨r, hmem, hne⟩ := h
      rcases List.mem_cons.1 hmem with rfl | hmem
      · exact ⟨[], r, rest, rfl, hne, hall⟩
      · exact absurd (hall r hmem) hne

/-! ### `read_table`'s vectors slice back into the rows -/

theorem slices_offsets : ∀ (rows : List (List α)) (pre : List α),
    (windows2 (pre.length :: offsets rows pre.length)).mapM (slice (pre ++ rows.flatten)) = some rows
  | [], pre => by simp [offsets, windows2]
  | row :: rest, pre => by
    have ih := slices_offsets rest (pre ++ row)
    simp only [List.length_append, List.append_assoc] at ih
    simp only [offsets, windows2, List.mapM_cons, List.flatten_cons]
    rw [ih]
    have hs : slice (pre ++ (row ++ rest.flatten)) (pre.length, pre.length + row.length) = some row := by
      unfold slice
      rw [if_pos (by simp)]
      simp
    rw [hs]; rfl

theorem slices_flatten (rows : List (Nat × List α)) :
    slices (flatten rows).cells (flatten rows).cols = some (rows.map (·.2)) := by
  have := slices_offsets (rows.map (·.2)) ([] : List α)
  simpa [slices, flatten] using this

/-! ### second pass: re-expansion -/

/-- columns `cmin ..= cmax` of a row, default beyond its end -/
def rowSlice (cmin cmax : Nat) (row : List α) : List α :=
  (List.range (cmax + 1 - cmin)).map fun j => row.getD (cmin + j) default

theorem rowSlice_length (cmin cmax : Nat) (row : List α) : (rowSlice cmin cmax row).length = cmax + 1 - cmin := by
  simp [rowSlice]

theorem rowSlice_getD (cmin cmax : Nat) (row : List α) (j : Nat) (hj : j < cmax + 1 - cmin) :
    (rowSlice cmin cmax row).getD j default = row.getD (cmin + j) default := by
  simp [rowSlice, List.getD_eq_getElem?_getD, List.getElem?_map, List.getElem?_range hj]

theorem rowSlice_empty (cmin cmax : Nat) (row : List α) (h : isEmptyRow row = true) :
    rowSlice cmin cmax row = List.replicate (cmax + 1 - cmin) default := by
  apply List.ext_getElem
  · simp [rowSlice]
  · intro j h1 h2
    simp only [rowSlice, List.getElem_map, List.getElem_range, List.getElem_replicate]
    exact getD_of_isEmptyRow row h _

theorem fitRow_length (cmin cmax : Nat) (row : List α) (h1 : cmin ≤ row.length) (h2 : cmin ≤ cmax) :
    (fitRow cmin cmax row).length = cmax + 1 - cmin := by
  unfold fitRow
  split
  · simp; omega
  · split
    · simp; omega
    · simp; omega

theorem fitRow_eq (cmin cmax : Nat) (row : List α) (h1 : cmin ≤ row.length) (h2 : cmin ≤ cmax) :
    fitRow cmin cmax row = rowSlice cmin cmax row := by
  apply List.ext_getElem?
  intro j
  by_cases hj : j < cmax + 1 - cmin
  · unfold fitRow rowSlice
    rw [List.getElem?_map, List.getElem?_range hj]
    simp only [Option.map_some, List.getD_eq_getElem?_getD]
    split
    · rename_i hlt
      by_cases hjr : cmin + j < row.length
      · rw [List.getElem?_append_left (by simp; omega), List.getElem?_drop, List.getElem?_eq_getElem hjr]
        simp
      · rw [List.getElem?_append_right (by simp; omega), List.getElem?_drop, List.getElem?_replicate,
          List.getElem?_eq_none (by omega)]
        simp only [List.length_drop, Option.getD_none]
        rw [if_pos (by omega)]
    · split
      · rw [List.getElem?_drop, List.getElem?_eq_getElem (by omega)]; simp
      · rw [List.getElem?_take_of_lt hj, List.getElem?_drop, List.getElem?_eq_getElem (by omega)]; simp
  · rw [List.getElem?_eq_none (by rw [fitRow_length cmin cmax row h1 h2]; omega),
      List.getElem?_eq_none (by rw [rowSlice_length]; omega)]

theorem repeatSlice_succ (n : Nat) (s : List α) : repeatSlice (n + 1) s = s ++ repeatSlice n s := by
  simp [repeatSlice, List.replicate_succ]

theorem repeatSlice_replicate (n w : Nat) (x : α) :
    repeatSlice n (List.replicate w x) = List.replicate (n * w) x := by
  induction n with
  | zero => simp [repeatSlice]
  | succ n ih =>
    rw [repeatSlice_succ, ih, List.replicate_append_replicate]
    congr 1; rw [Nat.succ_mul]; omega

/-- the rows a list of `(row, repeat)` pairs stands for -/
def expRows (L : List (List α × Nat)) : List (List α) := L.flatMap fun x => List.replicate x.2 x.1

/-- the dense row-major vector of columns `cmin ..= cmax` of the given rows -/
def dense (cmin cmax : Nat) (R : List (List α)) : List α := (R.map (rowSlice cmin cmax)).flatten

theorem expRows_cons (x : List α × Nat) (L : List (List α × Nat)) :
    expRows (x :: L) = List.replicate x.2 x.1 ++ expRows L := by simp [expRows]

theorem expRows_append (L1 L2 : List (List α × Nat)) : expRows (L1 ++ L2) = expRows L1 ++ expRows L2 := by
  simp [expRows]

theorem dense_append (cmin cmax : Nat) (R1 R2 : List (List α)) :
    dense cmin cmax (R1 ++ R2) = dense cmin cmax R1 ++ dense cmin cmax R2 := by simp [dense]

theorem dense_replicate (cmin cmax n : Nat) (row : List α) :
    dense cmin cmax (List.replicate n row) = repeatSlice n (rowSlice cmin cmax row) := by
  simp [dense, repeatSlice]

theorem dense_nil (cmin cmax : Nat) : dense cmin cmax ([] : List (List α)) = [] := rfl

theorem pass2_empty (cmin cmax : Nat) (pad : List α) : ∀ (L : List (List α × Nat)) (er ce rm : Nat),
    (∀ x ∈ L, isEmptyRow x.1 = true) → pass2 cmin cmax pad L er ce rm = ([], rm)
  | [], _, _, _, _ => rfl
  | (row, rr) :: rest, er, ce, rm, h => by
    rw [pass2, if_pos (h (row, rr) (by simp))]
    exact pass2_empty cmin cmax pad rest _ _ rm (fun x hx => h x (by simp [hx]))

/-- cells produced by the second pass: the pending empty rows, then the dense rows up to the last
    non-empty row; trailing empty rows are dropped -/
theorem pass2_cells (cmin cmax : Nat) (hc : cmin ≤ cmax) (last : List α × Nat) (L2 : List (List α × Nat))
    (hlast : ¬ isEmptyRow last.1 = true) (hlen : cmin ≤ last.1.length)
    (hL2 : ∀ x ∈ L2, isEmptyRow x.1 = true) :
    ∀ (L1 : List (List α × Nat)) (er ce rm : Nat),
    (∀ x ∈ L1, ¬ isEmptyRow x.1 = true → cmin ≤ x.1.length) →
    (pass2 cmin cmax (List.replicate (cmax + 1 - cmin) default) (L1 ++ last :: L2) er ce rm).1 =
      List.replicate (er * (cmax + 1 - cmin)) default ++ dense cmin cmax (expRows (L1 ++ [last]))
  | [], er, ce, rm, _ => by
    obtain ⟨row, rr⟩ := last
    simp only [List.nil_append]
    rw [pass2, if_neg hlast]
    simp only
    rw [pass2_empty cmin cmax _ L2 _ _ _ hL2, repeatSlice_replicate, fitRow_eq cmin cmax row hlen hc,
      expRows_cons, dense_append, dense_replicate]
    simp [expRows, dense]
  | (row, rr) :: L1, er, ce, rm, h => by
    simp only [List.cons_append]
    rw [pass2]
    have ih := pass2_cells cmin cmax hc last L2 hlast hlen hL2 L1
    by_cases he : isEmptyRow row = true
    · rw [if_pos he, ih _ _ _ (fun x hx => h x (by simp [hx])), expRows_cons, dense_append, dense_replicate,
        rowSlice_empty cmin cmax row he, repeatSlice_replicate, ← List.append_assoc,
        List.replicate_append_replicate, Nat.add_mul]
    · rw [if_neg he]
      simp only
      rw [ih _ _ _ (fun x hx => h x (by simp [hx])), repeatSlice_replicate,
        fitRow_eq cmin cmax row (h (row, rr) (by simp) he) hc, expRows_cons, dense_append, dense_replicate]
      simp

/-- sum of the repeat counts -/
def sumReps (L : List (List α × Nat)) : Nat := (L.map (·.2)).sum

theorem sumReps_cons (x : List α × Nat) (L : List (List α × Nat)) : sumReps (x :: L) = x.2 + sumReps L := by
  simp [sumReps]

theorem pass2_ne_snd (cmin cmax : Nat) (pad : List α) (row : List α) (rr : Nat) (rest : List (List α × Nat))
    (er ce rm : Nat) (he : ¬ isEmptyRow row = true) (hrr : 1 ≤ rr) (h1 : ce ≤ er) (h2 : ce ≤ rm) :
    ∃ rm2, rm2 + ce + 1 = rm + er + rr ∧
      (pass2 cmin cmax pad ((row, rr) :: rest) er ce rm).2 = (pass2 cmin cmax pad rest 0 0 rm2).2 := by
  rw [pass2, if_neg he]
  by_cases her : er > 0
  · by_cases hr1 : rr > 1
    · simp only [her, hr1, if_true]; exact ⟨_, by omega, rfl⟩
    · simp only [her, hr1, if_true, if_false]; exact ⟨_, by omega, rfl⟩
  · obtain rfl : ce = 0 := by omega
    by_cases hr1 : rr > 1
    · simp only [her, hr1, if_true, if_false]; exact ⟨_, by omega, rfl⟩
    · simp only [her, hr1, if_false]; exact ⟨_, by omega, rfl⟩

/-- final `row_max` of the second pass: every row index is replaced by its repeat count -/
theorem pass2_rmax (cmin cmax : Nat) (pad : List α) (last : List α × Nat) (L2 : List (List α × Nat))
    (hlast : ¬ isEmptyRow last.1 = true) (hrl : 1 ≤ last.2) (hL2 : ∀ x ∈ L2, isEmptyRow x.1 = true) :
    ∀ (L1 : List (List α × Nat)) (er ce rm : Nat), (∀ x ∈ L1, 1 ≤ x.2) → ce ≤ er → ce + L1.length ≤ rm →
    (pass2 cmin cmax pad (L1 ++ last :: L2) er ce rm).2 + ce + L1.length + 1 =
      rm + er + sumReps (L1 ++ [last])
  | [], er, ce, rm, _, h1, h2 => by
    obtain ⟨row, rr⟩ := last
    simp only [List.nil_append, List.length_nil] at h2 ⊢
    obtain ⟨rm2, e1, e2⟩ := pass2_ne_snd cmin cmax pad row rr L2 er ce rm hlast hrl h1 (by omega)
    rw [e2, pass2_empty cmin cmax _ L2 _ _ _ hL2]
    have hs : sumReps [(row, rr)] = rr := by simp [sumReps]
    rw [hs]
    simp only
    omega
  | (row, rr) :: L1, er, ce, rm, h, h1, h2 => by
    simp only [List.cons_append]
    have ih := pass2_rmax cmin cmax pad last L2 hlast hrl hL2 L1
    have hrr : 1 ≤ rr := h (row, rr) (by simp)
    have hs : sumReps ((row, rr) :: (L1 ++ [last])) = rr + sumReps (L1 ++ [last]) := sumReps_cons _ _
    rw [hs]
    simp only [List.length_cons] at h2 ⊢
    by_cases he : isEmptyRow row = true
    · rw [pass2, if_pos he]
      have := ih (er + rr) (ce + 1) rm (fun x hx => h x (by simp [hx])) (by omega) (by omega)
      omega
    · obtain ⟨rm2, e1, e2⟩ := pass2_ne_snd cmin cmax pad row rr (L1 ++ last :: L2) er ce rm he hrr h1 (by omega)
      rw [e2]
      have := ih 0 0 rm2 (fun x hx => h x (by simp [hx])) (by omega) (by omega)
      omega

/-! ### run lists as lists of rows -/

/-- all the rows a list of `(repeat, row)` runs stands for -/
def expR {β : Type} (rows : List (Nat × β)) : List β := rows.flatMap fun x => List.replicate x.1 x.2

/-- number of rows the runs stand for -/
def total {β : Type} (rows : List (Nat × β)) : Nat := (rows.map (·.1)).sum

theorem runAt_eq {β : Type} : ∀ (L : List (Nat × β)) (i : Nat), runAt L i = (expR L)[i]?
  | [], i => by simp [runAt, expR]
  | (k, x) :: rest, i => by
    rw [runAt]
    simp only [expR, List.flatMap_cons]
    by_cases h : i < k
    · rw [if_pos h, List.getElem?_append_left (by simpa using h), List.getElem?_replicate, if_pos h]
    · rw [if_neg h, List.getElem?_append_right (by simpa using h), runAt_eq rest]
      simp [expR]

theorem expR_length {β : Type} : ∀ (rows : List (Nat × β)), (expR rows).length = total rows
  | [] => rfl
  | x :: rest => by
    have := expR_length rest
    simp only [expR, total, List.flatMap_cons, List.length_append, List.length_replicate, List.map_cons,
      List.sum_cons] at this ⊢
    rw [this]

theorem expR_append {β : Type} (a b : List (Nat × β)) : expR (a ++ b) = expR a ++ expR b := by
  simp [expR]

theorem total_append {β : Type} (a b : List (Nat × β)) : total (a ++ b) = total a + total b := by
  simp [total]

theorem total_ge_length {β : Type} : ∀ (rows : List (Nat × β)), (∀ x ∈ rows, 1 ≤ x.1) → rows.length ≤ total rows
  | [], _ => Nat.le_refl _
  | x :: rest, h => by
    have := total_ge_length rest (fun y hy => h y (by simp [hy]))
    have hx := h x (by simp)
    simp only [total, List.map_cons, List.sum_cons, List.length_cons] at this ⊢
    omega

theorem mem_expR {β : Type} (rows : List (Nat × β)) (cs : β) (h : cs ∈ expR rows) : ∃ x ∈ rows, x.2 = cs := by
  simp only [expR, List.mem_flatMap, List.mem_replicate] at h
  obtain ⟨x, hx, _, rfl⟩ := h
  exact ⟨x, hx, rfl⟩

theorem expR_of_mem {β : Type} (rows : List (Nat × β)) (x : Nat × β) (hx : x ∈ rows) (h1 : 1 ≤ x.1) :
    ∃ r : Nat, (expR rows)[r]? = some x.2 := by
  have : x.2 ∈ expR rows := by
    simp only [expR, List.mem_flatMap, List.mem_replicate]
    exact ⟨x, hx, by omega, rfl⟩
  obtain ⟨r, hr, e⟩ := List.getElem_of_mem this
  exact ⟨r, by rw [List.getElem?_eq_getElem hr, e]⟩

theorem expRows_swap (rows : List (Nat × List α)) :
    expRows (rows.map fun x => (x.2, x.1)) = expR rows := by
  simp [expRows, expR, List.flatMap_map]

theorem sumReps_swap (rows : List (Nat × List α)) : sumReps (rows.map fun x => (x.2, x.1)) = total rows := by
  simp [sumReps, total, Function.comp_def]

theorem dense_length (cmin cmax : Nat) : ∀ (R : List (List α)),
    (dense cmin cmax R).length = R.length * (cmax + 1 - cmin)
  | [] => by simp [dense]
  | r :: R => by
    have := dense_length cmin cmax R
    simp only [dense, List.map_cons, List.flatten_cons, List.length_append, rowSlice_length,
      List.length_cons] at this ⊢
    rw [this, Nat.succ_mul]; omega

theorem dense_getD (cmin cmax : Nat) : ∀ (R : List (List α)) (i j : Nat), i < R.length → j < cmax + 1 - cmin →
    (dense cmin cmax R).getD (i * (cmax + 1 - cmin) + j) default = (R[i]?.getD []).getD (cmin + j) default
  | [], i, j, h, _ => by simp at h
  | r :: R, 0, j, _, hj => by
    simp only [dense, List.map_cons, List.flatten_cons, Nat.zero_mul, Nat.zero_add,
      List.getElem?_cons_zero, Option.getD_some]
    rw [List.getD_eq_getElem?_getD, List.getElem?_append_left (by rw [rowSlice_length]; exact hj),
      ← List.getD_eq_getElem?_getD, rowSlice_getD cmin cmax r j hj]
  | r :: R, i + 1, j, h, hj => by
    have ih := dense_getD cmin cmax R i j (by simpa using h) hj
    simp only [dense, List.map_cons, List.flatten_cons, List.getElem?_cons_succ] at ih ⊢
    rw [List.getD_eq_getElem?_getD, List.getElem?_append_right (by rw [rowSlice_length, Nat.succ_mul]; omega),
      rowSlice_length, ← List.getD_eq_getElem?_getD]
    rw [show (i + 1) * (cmax + 1 - cmin) + j - (cmax + 1 - cmin) = i * (cmax + 1 - cmin) + j by
      rw [Nat.succ_mul]; omega]
    exact ih

theorem take_append_cons {β : Type} : ∀ (L1 : List β) (y : β) (B : List β) (k : Nat),
    (L1 ++ y :: B).take (L1.length + 1 + k) = L1 ++ y :: B.take k
  | [], y, B, k => by simp [Nat.add_comm 1 k, List.take_succ_cons]
  | x :: L1, y, B, k => by
    have := take_append_cons L1 y B k
    simp only [List.cons_append, List.length_cons]
    rw [show L1.length + 1 + 1 + k = (L1.length + 1 + k) + 1 by omega, List.take_succ_cons, this]

/-! ### `get_range` assembled -/

theorem zip_drop_take_map {β γ δ : Type} (rows : List β) (f : β → γ) (g : β → δ) (a b : Nat) :
    (((rows.map f).drop a).take b).zip (((rows.map g).drop a).take b) =
      ((rows.drop a).take b).map fun x => (f x, g x) := by
  rw [← List.map_drop, ← List.map_take, ← List.map_drop, ← List.map_take, List.zip_map']

/-- the decomposition of the rows at the first and the last non-empty row -/
theorem split_first_last (rows : List (Nat × List α)) (A' B' A1' Bl' : List (List α)) (x' y' : List α)
    (e : rows.map (·.2) = A' ++ x' :: B') (e1 : rows.map (·.2) = A1' ++ y' :: Bl')
    (hA : ∀ a ∈ A', isEmptyRow a = true) (hx : ¬ isEmptyRow x' = true)
    (hy : ¬ isEmptyRow y' = true) (hBl : ∀ b ∈ Bl', isEmptyRow b = true) :
    ∃ A M1 y B, rows = A ++ (M1 ++ y :: B) ∧ A.length = A'.length ∧ A.length + M1.length = A1'.length ∧
      (∀ a ∈ A, isEmptyRow a.2 = true) ∧ (∀ b ∈ B, isEmptyRow b.2 = true) ∧ ¬ isEmptyRow y.2 = true ∧
      ∃ x M', M1 ++ [y] = x :: M' ∧ ¬ isEmptyRow x.2 = true := by
  obtain ⟨A, T, eR, eA, eT⟩ := List.map_eq_append_iff.1 e
  obtain ⟨x, B0, rfl, ex, eB0⟩ := List.map_eq_cons_iff.1 eT
  obtain ⟨A1, T1, eR1, eA1, eT1⟩ := List.map_eq_append_iff.1 e1
  obtain ⟨y, B, rfl, ey, eB⟩ := List.map_eq_cons_iff.1 eT1
  subst eA ex eB0 eA1 ey eB
  have hAe : ∀ a ∈ A, isEmptyRow a.2 = true := fun a ha => hA a.2 (List.mem_map_of_mem ha)
  have hBe : ∀ b ∈ B, isEmptyRow b.2 = true := fun b hb => hBl b.2 (List.mem_map_of_mem hb)
  have key : ∃ M1, A1 = A ++ M1 ∧ x :: B0 = M1 ++ y :: B := by
    rw [eR] at eR1
    rcases List.append_eq_append_iff.1 eR1 with ⟨a', h1, h2⟩ | ⟨c', h1, h2⟩
    · exact ⟨a', h1, h2⟩
    · cases c' with
      | nil => exact ⟨[], by simpa using h1.symm, by simpa using h2.symm⟩
      | cons z c'' =>
        simp only [List.cons_append, List.cons.injEq] at h2
        obtain ⟨rfl, _⟩ := h2
        exact absurd (hAe y (by rw [h1]; simp)) hy
  obtain ⟨M1, rfl, hM⟩ := key
  refine ⟨A, M1, y, B, by rw [eR, hM], by simp, by simp, hAe, hBe, hy, ?_⟩
  cases M1 with
  | nil =>
    simp only [List.nil_append, List.cons.injEq] at hM
    exact ⟨y, [], rfl, hy⟩
  | cons m M1' =>
    simp only [List.cons_append, List.cons.injEq] at hM
    obtain ⟨rfl, _⟩ := hM
    exact ⟨x, M1' ++ [y], rfl, hx⟩

/-- what `get_range` computes from `read_table`'s vectors, in terms of the rows: empty when every row is
    empty; otherwise the rows split as `A ++ M1 ++ [y] ++ B` (`A`, `B` empty rows, `M1 ++ [y]` starts and ends
    with a non-empty row), the columns are tightly bounded by `cmin`, `cmax`, and the result is the dense
    expansion of `M1 ++ [y]` -/
theorem getRangeRows_core (rows : List (Nat × List α)) (hrep : ∀ x ∈ rows, 1 ≤ x.1)
    (hcol : ∀ x ∈ rows, ∀ c, x.2.getD c default ≠ default → c < U32) :
    ((∀ x ∈ rows, isEmptyRow x.2 = true) ∧
      getRangeRows true (rows.map (·.2)) (rows.map (·.1)) = Range.empty) ∨
    ∃ A M1 y B cmin cmax, rows = A ++ (M1 ++ y :: B) ∧
      (∀ a ∈ A, isEmptyRow a.2 = true) ∧ (∀ b ∈ B, isEmptyRow b.2 = true) ∧ ¬ isEmptyRow y.2 = true ∧
      (∃ x M', M1 ++ [y] = x :: M' ∧ ¬ isEmptyRow x.2 = true) ∧
      cmin ≤ cmax ∧
      (∀ x ∈ rows, ∀ c, x.2.getD c default ≠ default → cmin ≤ c ∧ c ≤ cmax) ∧
      (∃ x ∈ rows, x.2.getD cmin default ≠ default) ∧ (∃ x ∈ rows, x.2.getD cmax default ≠ default) ∧
      getRangeRows true (rows.map (·.2)) (rows.map (·.1)) =
        ⟨total A % U32, cmin % U32, (total A + total (M1 ++ [y]) - 1) % U32, cmax % U32,
          dense cmin cmax (expR (M1 ++ [y]))⟩ := by
  have hrm := pass1Loop_rmin_none (rows.map (·.1)) (rows.map (·.2)) 0 ⟨none, 0, USIZE_MAX, 0, 0⟩ rfl
  rcases hrm with ⟨h1, h2⟩ | ⟨A', x', B', e, hA, hx, h1, h2⟩
  · left
    refine ⟨fun x hx => h2 x.2 (List.mem_map_of_mem hx), ?_⟩
    unfold getRangeRows pass1
    simp only [h1]
  · right
    obtain ⟨A1', y', Bl', e1, hy, hBl⟩ := split_last_ne (rows.map (·.2)) ⟨x', by rw [e]; simp, hx⟩
    have hrmax := pass1Loop_rmax (rows.map (·.1)) (rows.map (·.2)) 0 ⟨none, 0, USIZE_MAX, 0, 0⟩ A1' y' Bl' e1 hy hBl
    obtain ⟨c1, c2, c3⟩ := pass1Loop_cmin (rows.map (·.1)) (rows.map (·.2)) 0 ⟨none, 0, USIZE_MAX, 0, 0⟩
    obtain ⟨d1, d2, d3⟩ := pass1Loop_cmax (rows.map (·.1)) (rows.map (·.2)) 0 ⟨none, 0, USIZE_MAX, 0, 0⟩
    obtain ⟨A, M1, y, B, eR, eLA, eLM, hAe, hBe, hye, hhead⟩ :=
      split_first_last rows A' B' A1' Bl' x' y' e e1 hA hx hy hBl
    unfold getRangeRows pass1
    generalize pass1Loop (rows.map (·.1)) (rows.map (·.2)) 0 ⟨none, 0, USIZE_MAX, 0, 0⟩ = S at *
    obtain ⟨rmin, rmax, cmin, cmax, fe⟩ := S
    simp only at h1 h2 hrmax c1 c2 c3 d1 d2 d3
    subst h1
    -- columns
    have hpos : ∀ x ∈ rows, ¬ isEmptyRow x.2 = true → ∃ p q, position x.2 = some p ∧ rposition x.2 = some q ∧
        cmin ≤ p ∧ p ≤ q ∧ q ≤ cmax ∧ p < U32 := by
      intro x hx hne
      obtain ⟨p, hp⟩ := position_of_not_empty x.2 hne
      obtain ⟨q, hq⟩ := rposition_of_position x.2 p hp
      exact ⟨p, q, hp, hq, c2 x.2 (List.mem_map_of_mem hx) p hp, position_le_rposition x.2 p q hp hq,
        d2 x.2 (List.mem_map_of_mem hx) q hq, hcol x hx p (position_some x.2 p hp).2.1⟩
    have hymem : y ∈ rows := by rw [eR]; simp
    obtain ⟨py, qy, hpy, hqy, hy1, hy2, hy3, hy4⟩ := hpos y hymem hye
    have hbound : ∀ x ∈ rows, ∀ c, x.2.getD c default ≠ default → cmin ≤ c ∧ c ≤ cmax := by
      intro x hx c hc
      have hne : ¬ isEmptyRow x.2 = true := fun he => hc (getD_of_isEmptyRow x.2 he c)
      obtain ⟨p, q, hp, hq, h1, h2, h3, _⟩ := hpos x hx hne
      have := between_positions x.2 p q c hp hq hc
      omega
    have hleft : ∃ x ∈ rows, x.2.getD cmin default ≠ default := by
      rcases c3 with c3 | ⟨r, hr, c3⟩
      · simp only [USIZE_MAX, U32] at c3 hy4; omega
      · obtain ⟨x, hx, rfl⟩ := List.mem_map.1 hr
        exact ⟨x, hx, (position_some x.2 cmin c3).2.1⟩
    have hright : ∃ x ∈ rows, x.2.getD cmax default ≠ default := by
      rcases d3 with d3 | ⟨r, hr, d3⟩
      · refine ⟨y, hymem, ?_⟩
        have : qy = cmax := by omega
        rw [← this]; exact (rposition_some y.2 qy hqy).2.1
      · obtain ⟨x, hx, rfl⟩ := List.mem_map.1 hr
        exact ⟨x, hx, (rposition_some x.2 cmax d3).2.1⟩
    have hcc : cmin ≤ cmax := by omega
    refine ⟨A, M1, y, B, cmin, cmax, eR, hAe, hBe, hye, hhead, hcc, hbound, hleft, hright, ?_⟩
    -- the second pass
    simp only [if_true]
    rw [zip_drop_take_map, List.drop_replicate]
    have hdrop : (rows.drop (0 + A'.length)).take (rmax + 1) = M1 ++ y :: B.take A.length := by
      rw [eR, ← eLA, Nat.zero_add, List.drop_left, hrmax, ← eLM,
        show 0 + (A.length + M1.length) + 1 = M1.length + 1 + A.length by omega, take_append_cons]
    rw [hdrop]
    simp only [List.map_append, List.map_cons]
    have hlenM : ∀ x ∈ M1.map (fun x => (x.2, x.1)), ¬ isEmptyRow x.1 = true → cmin ≤ x.1.length := by
      intro x hx hne
      obtain ⟨z, hz, rfl⟩ := List.mem_map.1 hx
      obtain ⟨p, q, hp, _, h1, _, _, _⟩ := hpos z (by rw [eR]; simp [hz]) hne
      have := (position_some z.2 p hp).1
      simp only; omega
    have hL2 : ∀ x ∈ (B.take A.length).map (fun x => (x.2, x.1)), isEmptyRow x.1 = true := by
      intro x hx
      obtain ⟨z, hz, rfl⟩ := List.mem_map.1 hx
      exact hBe z (List.mem_of_mem_take hz)
    have hcells := pass2_cells cmin cmax hcc (y.2, y.1) ((B.take A.length).map (fun x => (x.2, x.1))) hye
      (by have := (position_some y.2 py hpy).1; simp only; omega) hL2
      (M1.map (fun x => (x.2, x.1))) 0 0 rmax hlenM
    have hM1rep : ∀ x ∈ M1.map (fun x => (x.2, x.1)), 1 ≤ x.2 := by
      intro x hx
      obtain ⟨z, hz, rfl⟩ := List.mem_map.1 hx
      exact hrep z (by rw [eR]; simp [hz])
    have hrm2 := pass2_rmax cmin cmax (List.replicate (cmax + 1 - cmin) default) (y.2, y.1)
      ((B.take A.length).map (fun x => (x.2, x.1))) hye (hrep y hymem) hL2
      (M1.map (fun x => (x.2, x.1))) 0 0 rmax hM1rep (Nat.le_refl _) (by simp; omega)
    have hsw : M1.map (fun x => (x.2, x.1)) ++ [(y.2, y.1)] = (M1 ++ [y]).map (fun x => (x.2, x.1)) := by simp
    rw [hsw, expRows_swap] at hcells
    rw [hsw, sumReps_swap] at hrm2
    rw [hcells]
    simp only [Nat.zero_mul, List.replicate_zero, List.nil_append, List.length_map, Nat.add_zero] at hrm2 ⊢
    have htA : (List.take (0 + A'.length) (rows.map (·.1))).sum = total A := by
      rw [eR, ← eLA, Nat.zero_add, List.map_append, ← List.length_map (f := (·.1)) (as := A), List.take_left]
      rfl
    have hgeA := total_ge_length A (fun x hx => hrep x (by rw [eR]; simp [hx]))
    have hgeM := total_ge_length (M1 ++ [y]) (fun x hx => hrep x (by
      rw [eR]; rcases List.mem_append.1 hx with h | h
      · simp [h]
      · simp at h; simp [h]))
    simp only [List.length_append, List.length_cons, List.length_nil] at hgeM
    rw [h2, htA]
    congr 1 <;> congr 1 <;> omega

/-! ### the result against the semantic expansion -/

theorem gridF_eq (rows : List (Nat × List α)) (r c : Nat) :
    gridF rows r c = ((expR rows)[r]?.getD []).getD c default := by
  unfold gridF; rw [runAt_eq]
  cases (expR rows)[r]? <;> simp

/-- a non-default grid value sits in one of the rows -/
theorem gridF_mem (rows : List (Nat × List α)) (r c : Nat) (h : gridF rows r c ≠ default) :
    ∃ x ∈ rows, x.2.getD c default = gridF rows r c := by
  rw [gridF_eq] at h ⊢
  cases hr : (expR rows)[r]? with
  | none => rw [hr] at h; simp at h
  | some cs =>
    obtain ⟨x, hx, rfl⟩ := mem_expR rows cs (List.mem_of_getElem? hr)
    exact ⟨x, hx, by simp⟩

theorem gridF_of_mem (rows : List (Nat × List α)) (x : Nat × List α) (hx : x ∈ rows) (h1 : 1 ≤ x.1) :
    ∃ r, ∀ c, gridF rows r c = x.2.getD c default := by
  obtain ⟨r, hr⟩ := expR_of_mem rows x hx h1
  exact ⟨r, fun c => by rw [gridF_eq, hr]; simp⟩

theorem valAt_empty (p q : Nat) : (Range.empty : Rng α).valAt p q = default := by
  apply Range.valAt_of_out; simp [Range.empty]

/-- **flat level**: on the vectors `read_table` builds from explicit rows with repeat counts,
    `get_range` returns a consistent rectangle that is the tight bounding box of the non-default
    positions of the expansion and holds the expansion's value at every position -/
theorem getRangeRows_spec (rows : List (Nat × List α)) (hrep : ∀ x ∈ rows, 1 ≤ x.1)
    (hfit : ∀ r c, gridF rows r c ≠ default → r < U32 ∧ c < U32) :
    Inv (getRangeRows true (rows.map (·.2)) (rows.map (·.1))) ∧
    (∀ r c, (getRangeRows true (rows.map (·.2)) (rows.map (·.1))).valAt r c = gridF rows r c) ∧
    ((getRangeRows true (rows.map (·.2)) (rows.map (·.1))).inner.length = 0 ↔ ∀ r c, gridF rows r c = default) ∧
    ((getRangeRows true (rows.map (·.2)) (rows.map (·.1))).inner.length ≠ 0 →
      IsBBox (gridF rows) (getRangeRows true (rows.map (·.2)) (rows.map (·.1))).sr
        (getRangeRows true (rows.map (·.2)) (rows.map (·.1))).sc
        (getRangeRows true (rows.map (·.2)) (rows.map (·.1))).er
        (getRangeRows true (rows.map (·.2)) (rows.map (·.1))).ec) ∧
    ((getRangeRows true (rows.map (·.2)) (rows.map (·.1))).inner.length = 0 →
      getRangeRows true (rows.map (·.2)) (rows.map (·.1)) = Range.empty) := by
  have hcol : ∀ x ∈ rows, ∀ c, x.2.getD c default ≠ default → c < U32 := by
    intro x hx c hc
    obtain ⟨r, hr⟩ := gridF_of_mem rows x hx (hrep x hx)
    exact (hfit r c (by rw [hr c]; exact hc)).2
  rcases getRangeRows_core rows hrep hcol with ⟨hall, he⟩ |
    ⟨A, M1, y, B, cmin, cmax, eR, hAe, hBe, hye, ⟨x, M', eM, hxe⟩, hcc, hbound, ⟨xl, hxl, hl⟩, ⟨xr, hxr, hr⟩, he⟩
  · rw [he]
    have hdef : ∀ r c, gridF rows r c = default := by
      intro r c
      apply Classical.byContradiction
      intro hn
      obtain ⟨x, hx, e⟩ := gridF_mem rows r c hn
      exact hn (by rw [← e]; exact getD_of_isEmptyRow x.2 (hall x hx) c)
    refine ⟨?_, fun r c => by rw [valAt_empty, hdef], ⟨fun _ => hdef, fun _ => rfl⟩, fun h => absurd rfl h,
      fun _ => rfl⟩
    constructor <;> simp [Range.empty, Rng.height, Rng.width]
  · -- notation
    have hrows : rows = A ++ ((M1 ++ [y]) ++ B) := by rw [eR]; simp
    have hexp : expR rows = expR A ++ (expR (M1 ++ [y]) ++ expR B) := by rw [hrows, expR_append, expR_append]
    have hlenA : (expR A).length = total A := expR_length A
    have hlenM : (expR (M1 ++ [y])).length = total (M1 ++ [y]) := expR_length _
    have hy1 : 1 ≤ y.1 := hrep y (by rw [eR]; simp)
    have hx1 : 1 ≤ x.1 := hrep x (by
      have : x ∈ M1 ++ [y] := by rw [eM]; simp
      rw [hrows]; simp only [List.mem_append]; exact Or.inr (Or.inl (by simpa using this)))
    have hH : total (M1 ++ [y]) = total M1 + y.1 := by simp [total]
    -- the three row zones
    have hF1 : ∀ r c, r < total A → gridF rows r c = default := by
      intro r c hr
      rw [gridF_eq, hexp, List.getElem?_append_left (by omega)]
      cases hcs : (expR A)[r]? with
      | none => simp
      | some cs =>
        obtain ⟨a, ha, rfl⟩ := mem_expR A cs (List.mem_of_getElem? hcs)
        simpa using getD_of_isEmptyRow a.2 (hAe a ha) c
    have hF2 : ∀ i c, i < total (M1 ++ [y]) →
        gridF rows (total A + i) c = ((expR (M1 ++ [y]))[i]?.getD []).getD c default := by
      intro i c hi
      rw [gridF_eq, hexp, List.getElem?_append_right (by omega), List.getElem?_append_left (by omega)]
      congr 3; omega
    have hF3 : ∀ r c, total A + total (M1 ++ [y]) ≤ r → gridF rows r c = default := by
      intro r c hr
      rw [gridF_eq, hexp, List.getElem?_append_right (by omega), List.getElem?_append_right (by omega)]
      cases hcs : (expR B)[r - (expR A).length - (expR (M1 ++ [y])).length]? with
      | none => simp
      | some cs =>
        obtain ⟨b, hb, rfl⟩ := mem_expR B cs (List.mem_of_getElem? hcs)
        simpa using getD_of_isEmptyRow b.2 (hBe b hb) c
    -- witnesses
    have htop : ∃ c, gridF rows (total A) c ≠ default := by
      obtain ⟨p, hp⟩ := position_of_not_empty x.2 hxe
      refine ⟨p, ?_⟩
      have := hF2 0 p (by omega)
      rw [Nat.add_zero] at this
      rw [this, eM]
      simp only [expR, List.flatMap_cons]
      rw [List.getElem?_append_left (by simp; omega), List.getElem?_replicate, if_pos (by omega)]
      exact (position_some x.2 p hp).2.1
    have hbot : ∃ c, gridF rows (total A + total (M1 ++ [y]) - 1) c ≠ default := by
      obtain ⟨p, hp⟩ := position_of_not_empty y.2 hye
      refine ⟨p, ?_⟩
      have := hF2 (total (M1 ++ [y]) - 1) p (by omega)
      rw [show total A + (total (M1 ++ [y]) - 1) = total A + total (M1 ++ [y]) - 1 by omega] at this
      rw [this, expR_append]
      rw [List.getElem?_append_right (by rw [expR_length]; omega), expR_length]
      simp only [expR, List.flatMap_cons, List.flatMap_nil, List.append_nil]
      rw [List.getElem?_replicate, if_pos (by omega)]
      exact (position_some y.2 p hp).2.1
    have hleft : ∃ r, gridF rows r cmin ≠ default := by
      obtain ⟨r, hr'⟩ := gridF_of_mem rows xl hxl (hrep xl hxl)
      exact ⟨r, by rw [hr']; exact hl⟩
    have hright : ∃ r, gridF rows r cmax ≠ default := by
      obtain ⟨r, hr'⟩ := gridF_of_mem rows xr hxr (hrep xr hxr)
      exact ⟨r, by rw [hr']; exact hr⟩
    have hB : ∀ r c, gridF rows r c ≠ default →
        total A ≤ r ∧ r ≤ total A + total (M1 ++ [y]) - 1 ∧ cmin ≤ c ∧ c ≤ cmax := by
      intro r c h
      obtain ⟨z, hz, e⟩ := gridF_mem rows r c h
      have := hbound z hz c (by rw [e]; exact h)
      refine ⟨?_, ?_, this.1, this.2⟩
      · apply Classical.byContradiction; intro hn; exact h (hF1 r c (by omega))
      · apply Classical.byContradiction; intro hn; exact h (hF3 r c (by omega))
    -- the casts are the identity
    obtain ⟨cb, hcb⟩ := hbot
    obtain ⟨rr, hrr⟩ := hright
    have hr1 := (hfit _ _ hcb).1
    have hc1 := (hfit _ _ hrr).2
    rw [he, Nat.mod_eq_of_lt (by omega : total A < U32), Nat.mod_eq_of_lt (by omega : cmin < U32),
      Nat.mod_eq_of_lt hr1, Nat.mod_eq_of_lt hc1]
    have hlen : (dense cmin cmax (expR (M1 ++ [y]))).length =
        (total A + total (M1 ++ [y]) - 1 - total A + 1) * (cmax - cmin + 1) := by
      rw [dense_length, hlenM]; congr 1 <;> omega
    have hinv := Range.mkInv (total A) cmin (total A + total (M1 ++ [y]) - 1) cmax _ (by omega) hcc hlen
    have hne : (dense cmin cmax (expR (M1 ++ [y]))).length ≠ 0 := by
      rw [hlen]; exact Nat.ne_of_gt (Nat.mul_pos (by omega) (by omega))
    refine ⟨hinv, ?_, ?_, ?_, fun h => absurd h hne⟩
    · intro r c
      by_cases hin : total A ≤ r ∧ r ≤ total A + total (M1 ++ [y]) - 1 ∧ cmin ≤ c ∧ c ≤ cmax
      · rw [Range.valAt_of_in _ r c hne hin, hinv.width_eq hne]
        simp only
        rw [show cmax - cmin + 1 = cmax + 1 - cmin by omega,
          dense_getD cmin cmax _ (r - total A) (c - cmin) (by omega) (by omega),
          ← hF2 (r - total A) (cmin + (c - cmin)) (by omega)]
        congr 1 <;> omega
      · rw [Range.valAt_of_out _ r c (fun h => hin h.2)]
        apply Classical.byContradiction
        intro hn
        exact hin (hB r c (fun h => hn h.symm))
    · simp only
      constructor
      · intro h; exact absurd h hne
      · intro h; obtain ⟨c, hc⟩ := htop; exact absurd (h _ c) hc
    · intro _
      exact ⟨hB, htop, ⟨cb, hcb⟩, hleft, ⟨rr, hrr⟩⟩

/-! ### `read_row`: pending blank runs -/

/-- what `read_row` leaves in the vector, column by column: the pending blanks, then the value of the
    covering event; blank runs at the end of the row are simply absent (default beyond the end) -/
theorem readRow_getD {ε : Type} (pend : ε → Bool) (val : ε → α) (hp : ∀ e, pend e = true → val e = default) :
    ∀ (evs : List (ε × Nat)) (pending c : Nat),
    (readRow pend val evs pending).getD c default =
      if c < pending then default else cellAt (evs.map fun x => (val x.1, x.2)) (c - pending)
  | [], pending, c => by simp [readRow, cellAt]
  | (e, k) :: rest, pending, c => by
    rw [readRow]
    by_cases hc : c < pending
    · rw [if_pos hc, List.getD_eq_getElem?_getD, List.getElem?_append_left (by simpa using hc),
        List.getElem?_replicate, if_pos hc]; rfl
    · rw [if_neg hc, List.getD_eq_getElem?_getD, List.getElem?_append_right (by simpa using Nat.le_of_not_lt hc),
        List.length_replicate, ← List.getD_eq_getElem?_getD]
      simp only [List.map_cons, cellAt]
      by_cases hpe : pend e = true
      · rw [if_pos hpe, readRow_getD pend val hp rest k (c - pending), hp e hpe]
      · rw [if_neg hpe]
        by_cases hk : c - pending < k
        · rw [if_pos hk, List.getD_eq_getElem?_getD, List.getElem?_append_left (by simpa using hk),
            List.getElem?_replicate, if_pos hk]; rfl
        · rw [if_neg hk, List.getD_eq_getElem?_getD,
            List.getElem?_append_right (by simpa using Nat.le_of_not_lt hk), List.length_replicate,
            ← List.getD_eq_getElem?_getD, readRow_getD pend val hp rest 0 (c - pending - k)]
          simp

theorem runAt_map {β γ : Type} (g : β → γ) : ∀ (L : List (Nat × β)) (i : Nat),
    runAt (L.map fun r => (r.1, g r.2)) i = (runAt L i).map g
  | [], i => rfl
  | (k, x) :: rest, i => by
    simp only [List.map_cons, runAt]
    split
    · rfl
    · exact runAt_map g rest (i - k)

theorem gridF_collectG {ε : Type} (pend : ε → Bool) (val : ε → α) (hp : ∀ e, pend e = true → val e = default)
    (runs : List (Nat × List (ε × Nat))) (r c : Nat) :
    gridF (collectG pend val runs) r c = expand (runsOf val runs) r c := by
  unfold gridF expand collectG runsOf
  rw [runAt_map (fun evs => readRow pend val evs 0) runs r,
    runAt_map (fun (evs : List (ε × Nat)) => evs.map fun x => (val x.1, x.2)) runs r]
  cases runAt runs r with
  | none => rfl
  | some evs =>
    simp only [Option.map_some]
    rw [readRow_getD pend val hp evs 0 c]
    simp

/-! ### uniqueness: a range is determined by its bounding box and its values -/

theorem IsBBox.unique {g : Nat → Nat → α} {a b c d a' b' c' d' : Nat}
    (h : IsBBox g a b c d) (h' : IsBBox g a' b' c' d') : a = a' ∧ b = b' ∧ c = c' ∧ d = d' := by
  obtain ⟨t, ht⟩ := h.top
  obtain ⟨u, hu⟩ := h.bottom
  obtain ⟨v, hv⟩ := h.left
  obtain ⟨w, hw⟩ := h.right
  obtain ⟨t', ht'⟩ := h'.top
  obtain ⟨u', hu'⟩ := h'.bottom
  obtain ⟨v', hv'⟩ := h'.left
  obtain ⟨w', hw'⟩ := h'.right
  have := h.bound _ _ ht'; have := h.bound _ _ hu'; have := h.bound _ _ hv'; have := h.bound _ _ hw'
  have := h'.bound _ _ ht; have := h'.bound _ _ hu; have := h'.bound _ _ hv; have := h'.bound _ _ hw
  omega

theorem inner_of_valAt (R : Rng α) (hi : Inv R) (i : Nat) (h : i < R.inner.length) :
    R.inner.getD i default = R.valAt (R.sr + i / R.width) (R.sc + i % R.width) := by
  have hne : R.inner.length ≠ 0 := by omega
  obtain ⟨o1, o2⟩ := hi.ord hne
  have hw := hi.width_eq hne
  have hh := hi.height_eq hne
  have hlen := hi.len
  have hwpos : 0 < R.width := by omega
  have hdiv : i / R.width < R.height := by
    apply Nat.div_lt_of_lt_mul; rw [Nat.mul_comm]; omega
  have hmod : i % R.width < R.width := Nat.mod_lt _ hwpos
  have hdm : i / R.width * R.width + i % R.width = i := by rw [Nat.mul_comm, Nat.div_add_mod]
  generalize i / R.width = dv at *
  generalize i % R.width = md at *
  rw [Range.valAt_of_in R _ _ hne ⟨by omega, by omega, by omega, by omega⟩]
  congr 1
  rw [Nat.add_sub_cancel_left, Nat.add_sub_cancel_left, hdm]

theorem rng_ext (R1 R2 : Rng α) (h1 : Inv R1) (h2 : Inv R2) (hne : R1.inner.length ≠ 0)
    (hne2 : R2.inner.length ≠ 0)
    (hb : R1.sr = R2.sr ∧ R1.sc = R2.sc ∧ R1.er = R2.er ∧ R1.ec = R2.ec)
    (hv : ∀ p q, R1.valAt p q = R2.valAt p q) : R1 = R2 := by
  obtain ⟨a, b, c, d, i1⟩ := R1
  obtain ⟨a', b', c', d', i2⟩ := R2
  simp only at hb
  obtain ⟨rfl, rfl, rfl, rfl⟩ := hb
  have hw1 := h1.width_eq hne
  have hw2 := h2.width_eq hne2
  have hh1 := h1.height_eq hne
  have hh2 := h2.height_eq hne2
  have hl1 := h1.len
  have hl2 := h2.len
  simp only at hw1 hw2 hh1 hh2 hl1 hl2
  have hlen : i1.length = i2.length := by rw [hl1, hl2, hw1, hw2, hh1, hh2]
  congr 1
  apply List.ext_getElem hlen
  intro i hi1 hi2
  have e1 := inner_of_valAt _ h1 i hi1
  have e2 := inner_of_valAt _ h2 i hi2
  simp only at e1 e2
  rw [List.getD_eq_getElem?_getD, List.getElem?_eq_getElem hi1] at e1
  rw [List.getD_eq_getElem?_getD, List.getElem?_eq_getElem hi2] at e2
  simp only [Option.getD_some] at e1 e2
  rw [e1, e2, hw1, hw2]
  exact hv _ _

/-! ### the computable bounding box of a run list (`Spec.bbox`, used by the driver) -/

theorem rowSpan_acc : ∀ (evs : List (α × Nat)) (c a b0 : Nat),
    rowSpan evs c (some (a, b0)) =
      match rowSpan evs c none with
      | none => some (a, b0)
      | some (_, b) => some (a, b)
  | [], c, a, b0 => rfl
  | (v, k) :: rest, c, a, b0 => by
    simp only [rowSpan]
    by_cases h : v ≠ default ∧ k > 0
    · rw [if_pos h, if_pos h, rowSpan_acc rest (c + k) a (c + k - 1), rowSpan_acc rest (c + k) c (c + k - 1)]
      cases rowSpan rest (c + k) none with
      | none => rfl
      | some x => rfl
    · rw [if_neg h, if_neg h, rowSpan_acc rest (c + k) a b0]

/-- `rowSpan` finds the first and the last column of a row of runs that hold a non-default value -/
theorem rowSpan_spec : ∀ (evs : List (α × Nat)) (c : Nat),
    match rowSpan evs c none with
    | none => ∀ q, cellAt evs q = default
    | some (a, b) => c ≤ a ∧ a ≤ b ∧ cellAt evs (a - c) ≠ default ∧ cellAt evs (b - c) ≠ default ∧
        ∀ q, cellAt evs q ≠ default → a ≤ c + q ∧ c + q ≤ b
  | [], c => by simp [rowSpan, cellAt]
  | (v, k) :: rest, c => by
    have ih := rowSpan_spec rest (c + k)
    simp only [rowSpan]
    by_cases h : v ≠ default ∧ k > 0
    · rw [if_pos h, rowSpan_acc]
      cases hr : rowSpan rest (c + k) none with
      | none =>
        rw [hr] at ih
        simp only at ih ⊢
        refine ⟨Nat.le_refl _, by omega, ?_, ?_, ?_⟩
        · simp only [cellAt, Nat.sub_self]; rw [if_pos h.2]; exact h.1
        · simp only [cellAt]; rw [if_pos (by omega)]; exact h.1
        · intro q hq
          simp only [cellAt] at hq
          by_cases hk : q < k
          · omega
          · rw [if_neg hk] at hq; exact absurd (ih _) hq
      | some ab =>
        obtain ⟨a', b'⟩ := ab
        rw [hr] at ih
        simp only at ih ⊢
        obtain ⟨i1, i2, i3, i4, i5⟩ := ih
        refine ⟨Nat.le_refl _, by omega, ?_, ?_, ?_⟩
        · simp only [cellAt, Nat.sub_self]; rw [if_pos h.2]; exact h.1
        · simp only [cellAt]; rw [if_neg (by omega)]
          rw [show b' - c - k = b' - (c + k) by omega]; exact i4
        · intro q hq
          simp only [cellAt] at hq
          by_cases hk : q < k
          · omega
          · rw [if_neg hk] at hq; have := i5 _ hq; omega
    · rw [if_neg h]
      have hcell : ∀ q, cellAt ((v, k) :: rest) q = if q < k then default else cellAt rest (q - k) := by
        intro q
        simp only [cellAt]
        by_cases hk : q < k
        · rw [if_pos hk, if_pos hk]
          apply Classical.byContradiction; intro hv; exact h ⟨hv, by omega⟩
        · rw [if_neg hk, if_neg hk]
      cases hr : rowSpan rest (c + k) none with
      | none =>
        rw [hr] at ih
        simp only at ih ⊢
        intro q; rw [hcell]; split
        · rfl
        · exact ih _
      | some ab =>
        obtain ⟨a', b'⟩ := ab
        rw [hr] at ih
        simp only at ih ⊢
        obtain ⟨i1, i2, i3, i4, i5⟩ := ih
        refine ⟨by omega, i2, ?_, ?_, ?_⟩
        · rw [hcell, if_neg (by omega), show a' - c - k = a' - (c + k) by omega]; exact i3
        · rw [hcell, if_neg (by omega), show b' - c - k = b' - (c + k) by omega]; exact i4
        · intro q hq
          rw [hcell] at hq
          by_cases hk : q < k
          · rw [if_pos hk] at hq; exact absurd rfl hq
          · rw [if_neg hk] at hq; have := i5 _ hq; omega

theorem bboxFrom_acc : ∀ (runs : List (RowRun α)) (r r0 c0 e c1 : Nat),
    bboxFrom runs r (some (r0, c0, e, c1)) =
      match bboxFrom runs r none with
      | none => some (r0, c0, e, c1)
      | some (_, a, e', b) => some (r0, min c0 a, e', max c1 b)
  | [], r, r0, c0, e, c1 => rfl
  | (k, evs) :: rest, r, r0, c0, e, c1 => by
    simp only [bboxFrom]
    cases hs : (if k > 0 then rowSpan evs 0 none else none) with
    | none => simp only; exact bboxFrom_acc rest (r + k) r0 c0 e c1
    | some ab =>
      obtain ⟨a, b⟩ := ab
      simp only
      rw [bboxFrom_acc rest (r + k) r0 (min c0 a) (r + k - 1) (max c1 b),
        bboxFrom_acc rest (r + k) r a (r + k - 1) b]
      cases bboxFrom rest (r + k) none with
      | none => rfl
      | some x =>
        obtain ⟨x1, x2, x3, x4⟩ := x
        simp only [Nat.min_assoc, Nat.max_assoc]

theorem expand_cons (k : Nat) (evs : List (α × Nat)) (rest : List (RowRun α)) (p q : Nat) :
    expand ((k, evs) :: rest) p q = if p < k then cellAt evs q else expand rest (p - k) q := by
  unfold expand
  simp only [runAt]
  by_cases h : p < k
  · rw [if_pos h, if_pos h]
  · rw [if_neg h, if_neg h]

/-- `bboxFrom` computes the tight bounding box of the expansion (rows counted from `r`) -/
theorem bboxFrom_spec : ∀ (runs : List (RowRun α)) (r : Nat),
    match bboxFrom runs r none with
    | none => ∀ p q, expand runs p q = default
    | some (r0, c0, r1, c1) => r ≤ r0 ∧ r0 ≤ r1 ∧
        (∃ q, expand runs (r0 - r) q ≠ default) ∧ (∃ q, expand runs (r1 - r) q ≠ default) ∧
        (∃ p, expand runs p c0 ≠ default) ∧ (∃ p, expand runs p c1 ≠ default) ∧
        ∀ p q, expand runs p q ≠ default → r0 ≤ r + p ∧ r + p ≤ r1 ∧ c0 ≤ q ∧ q ≤ c1
  | [], r => by simp [bboxFrom, expand, runAt]
  | (k, evs) :: rest, r => by
    have ih := bboxFrom_spec rest (r + k)
    simp only [bboxFrom]
    cases hs : (if k > 0 then rowSpan evs 0 none else none) with
    | none =>
      -- the row contributes nothing
      have hrow : ∀ p q, p < k → cellAt evs q = default := by
        intro p q hp
        have hk : k > 0 := by omega
        rw [if_pos hk] at hs
        have := rowSpan_spec evs 0
        rw [hs] at this
        exact this q
      simp only
      cases hb : bboxFrom rest (r + k) none with
      | none =>
        rw [hb] at ih
        simp only at ih ⊢
        intro p q
        rw [expand_cons]
        split
        · exact hrow p q (by assumption)
        · exact ih _ _
      | some x =>
        obtain ⟨r0, c0, r1, c1⟩ := x
        rw [hb] at ih
        simp only at ih ⊢
        obtain ⟨i1, i2, ⟨qt, ht⟩, ⟨qb, hbq⟩, ⟨pl, hl⟩, ⟨pr, hr⟩, i7⟩ := ih
        refine ⟨by omega, i2, ⟨qt, ?_⟩, ⟨qb, ?_⟩, ⟨pl + k, ?_⟩, ⟨pr + k, ?_⟩, ?_⟩
        · rw [expand_cons, if_neg (by omega), show r0 - r - k = r0 - (r + k) by omega]; exact ht
        · rw [expand_cons, if_neg (by omega), show r1 - r - k = r1 - (r + k) by omega]; exact hbq
        · rw [expand_cons, if_neg (by omega), Nat.add_sub_cancel]; exact hl
        · rw [expand_cons, if_neg (by omega), Nat.add_sub_cancel]; exact hr
        · intro p q hpq
          rw [expand_cons] at hpq
          by_cases hp : p < k
          · rw [if_pos hp] at hpq; exact absurd (hrow p q hp) hpq
          · rw [if_neg hp] at hpq; have := i7 _ _ hpq; omega
    | some ab =>
      obtain ⟨a, b⟩ := ab
      have hk : k > 0 := by
        apply Classical.byContradiction; intro hn; rw [if_neg hn] at hs; cases hs
      rw [if_pos hk] at hs
      have hsp := rowSpan_spec evs 0
      rw [hs] at hsp
      simp only [Nat.zero_le, Nat.sub_zero, Nat.zero_add, true_and] at hsp
      obtain ⟨s1, s2, s3, s4⟩ := hsp
      simp only
      rw [bboxFrom_acc]
      cases hb : bboxFrom rest (r + k) none with
      | none =>
        rw [hb] at ih
        simp only at ih ⊢
        refine ⟨Nat.le_refl _, by omega, ⟨a, ?_⟩, ⟨b, ?_⟩, ⟨0, ?_⟩, ⟨0, ?_⟩, ?_⟩
        · rw [expand_cons, if_pos (by omega)]; exact s2
        · rw [expand_cons, if_pos (by omega)]; exact s3
        · rw [expand_cons, if_pos hk]; exact s2
        · rw [expand_cons, if_pos hk]; exact s3
        · intro p q hpq
          rw [expand_cons] at hpq
          by_cases hp : p < k
          · rw [if_pos hp] at hpq; have := s4 q hpq; omega
          · rw [if_neg hp] at hpq; exact absurd (ih _ _) hpq
      | some x =>
        obtain ⟨r0, c0, r1, c1⟩ := x
        rw [hb] at ih
        simp only at ih ⊢
        obtain ⟨i1, i2, _, ⟨qb, hbq⟩, ⟨pl, hl⟩, ⟨pr, hr⟩, i7⟩ := ih
        refine ⟨Nat.le_refl _, by omega, ⟨a, ?_⟩, ⟨qb, ?_⟩, ?_, ?_, ?_⟩
        · rw [expand_cons, if_pos (by omega)]; exact s2
        · rw [expand_cons, if_neg (by omega), show r1 - r - k = r1 - (r + k) by omega]; exact hbq
        · by_cases hmin : a ≤ c0
          · exact ⟨0, by rw [Nat.min_eq_left hmin, expand_cons, if_pos hk]; exact s2⟩
          · exact ⟨pl + k, by
              rw [Nat.min_eq_right (by omega), expand_cons, if_neg (by omega), Nat.add_sub_cancel]; exact hl⟩
        · by_cases hmax : c1 ≤ b
          · exact ⟨0, by rw [Nat.max_eq_left hmax, expand_cons, if_pos hk]; exact s3⟩
          · exact ⟨pr + k, by
              rw [Nat.max_eq_right (by omega), expand_cons, if_neg (by omega), Nat.add_sub_cancel]; exact hr⟩
        · intro p q hpq
          rw [expand_cons] at hpq
          by_cases hp : p < k
          · rw [if_pos hp] at hpq; have := s4 q hpq
            have h1 := Nat.min_le_left a c0; have h2 := Nat.le_max_left b c1; omega
          · rw [if_neg hp] at hpq; have := i7 _ _ hpq
            have h1 := Nat.min_le_right a c0; have h2 := Nat.le_max_right b c1; omega

/-! ### element kinds: a covered cell runs the same code as an ordinary cell -/

theorem readRowK_eq {ε : Type} (pend : ε → Bool) (val : ε → α) : ∀ (evs : List (CellKind × ε × Nat)) (p : Nat),
    readRowK pend val evs p = readRow pend val (evs.map fun e => (e.2.1, e.2.2)) p
  | [], _ => rfl
  | (.cell, e, k) :: rest, p => by
    simp only [readRowK, List.map_cons, readRow, readRowK_eq pend val rest]
  | (.covered, e, k) :: rest, p => by
    simp only [readRowK, List.map_cons, readRow, readRowK_eq pend val rest]

theorem collectKG_eq {ε : Type} (pend : ε → Bool) (val : ε → α) (runs : List (RowRunK ε)) :
    collectKG pend val runs = collectG pend val (eraseKinds runs) := by
  simp [collectKG, collectG, eraseKinds, readRowK_eq, Function.comp_def]

theorem cellAtK_eq {ε : Type} (val : ε → α) : ∀ (evs : List (CellKind × ε × Nat)) (c : Nat),
    cellAtK val evs c = cellAt (evs.map fun e => (val e.2.1, e.2.2)) c
  | [], _ => rfl
  | (kd, e, k) :: rest, c => by
    simp only [cellAtK, List.map_cons, cellAt, cellAtK_eq val rest]

theorem expandK_eq {ε : Type} (val : ε → α) (runs : List (RowRunK ε)) (r c : Nat) :
    expandK val runs r c = expand (runsOf val (eraseKinds runs)) r c := by
  have hmap : runsOf val (eraseKinds runs) =
      runs.map fun x => (x.1, (fun evs : List (CellKind × ε × Nat) => evs.map fun e => (val e.2.1, e.2.2)) x.2) := by
    simp [runsOf, eraseKinds, Function.comp_def]
  unfold expandK expand
  rw [hmap, runAt_map (fun evs : List (CellKind × ε × Nat) => evs.map fun e => (val e.2.1, e.2.2)) runs r]
  cases runAt runs r with
  | none => rfl
  | some evs => simp only [Option.map_some]; exact cellAtK_eq val evs c

end OdsRange
