import CalVerif.Lemmas.Formats
/-! # Composition lemmas for number formats (cited by C01, C02, C03, C10, C16)

    One statement per style-table builder: **a numeric cell with style index `i` is typed by the format XF `i` refers
    to** — `style table builder` ∘ `formatF64 / formatI64` phrased on the LOGICAL style table:

    * the custom definitions `defs` are grammar formats (`Spec/NumFmt.lean`) in file order; an id defined twice
      takes its LAST definition (`lastDef`, what `BTreeMap::insert` does in all three readers);
    * xlsx, xls: custom definition if the id is defined, else the built-in table; xlsb: the built-in table first,
      the custom definitions only for ids the built-in table calls `Other`;
    * the built-in table is the documented one (`NumFmt.documentedClass`, ECMA-376 §18.8.30) for numeric ids; for
      xlsx the id is the attribute text, looked up as `builtinById` (= `documentedClass n` on `decimal n`,
      `Props/C10.builtin_tables_agree`);
    * a style index past the end of the XF list: every reader does `formats.get(i)` → `None` → plain number; in the
      statements this is `(xfs[i]?.map logical).getD .other` (`typedF64 .other v d = .float v`). -/
namespace Formats
open NumFmt

/-! ## the logical style table -/

/-- xlsx: class of the format an `<xf>` refers to (`none` = no `numFmtId` attribute) -/
def logicalXlsx (defs : List (List UInt8 × Fmt)) : Option (List UInt8) → CellFormat
  | none => .other
  | some id =>
    match lastDef defs id with
    | some f => classify f
    | none => builtinById id

/-- xlsb: class of format id `code` (built-in table first) -/
def logicalXlsb (defs : List (Nat × Fmt)) (code : Nat) : CellFormat :=
  match documentedClass code with
  | .other => ((lastDef defs code).map classify).getD .other
  | f => f

/-- xls: class of format id `code` (custom definition first) -/
def logicalXls (defs : List (Nat × Fmt)) (code : Nat) : CellFormat :=
  match lastDef defs code with
  | some f => classify f
  | none => documentedClass code

/-! ## what a number becomes under a format class -/

/-- a float under class `c`: DateTime / duration with the same bits and date system, or the float itself -/
def typedF64 (c : CellFormat) (v : UInt64) (d1904 : Bool) : NumData :=
  match c with
  | .dateTime => .dateTime (.bits v) .dateTime d1904
  | .timeDelta => .dateTime (.bits v) .timeDelta d1904
  | .other => .float v

/-- an integer (RK) under class `c` -/
def typedI64 (c : CellFormat) (v : Int) (d1904 : Bool) : NumData :=
  match c with
  | .dateTime => .dateTime (.ofI64 v) .dateTime d1904
  | .timeDelta => .dateTime (.ofI64 v) .timeDelta d1904
  | .other => .int v

theorem formatF64_some (c : CellFormat) (v : UInt64) (d : Bool) : formatF64 v (some c) d = typedF64 c v d := by
  cases c <;> rfl

theorem formatI64_some (c : CellFormat) (v : Int) (d : Bool) : formatI64 v (some c) d = typedI64 c v d := by
  cases c <;> rfl

/-- DateTime iff the class is a date class; duration flavour iff TimeDelta; value and date system unchanged -/
theorem typedF64_spec (c : CellFormat) (v : UInt64) (d : Bool) :
    ((∃ s k d', typedF64 c v d = .dateTime s k d') ↔ c ≠ .other) ∧
    (typedF64 c v d = .dateTime (.bits v) .timeDelta d ↔ c = .timeDelta) ∧
    (typedF64 c v d = .dateTime (.bits v) .dateTime d ↔ c = .dateTime) ∧
    (typedF64 c v d = .float v ↔ c = .other) := by
  cases c <;> simp [typedF64]

theorem typedI64_spec (c : CellFormat) (v : Int) (d : Bool) :
    ((∃ s k d', typedI64 c v d = .dateTime s k d') ↔ c ≠ .other) ∧
    (typedI64 c v d = .dateTime (.ofI64 v) .timeDelta d ↔ c = .timeDelta) ∧
    (typedI64 c v d = .dateTime (.ofI64 v) .dateTime d ↔ c = .dateTime) ∧
    (typedI64 c v d = .int v ↔ c = .other) := by
  cases c <;> simp [typedI64]

/-! ## the built-in table is the documented one; the builders compute the logical table -/

theorem builtinByCode_documented (n : Nat) : builtinByCode n = documentedClass n := by
  by_cases h : n < 1000
  · have hh : (List.range 1000).all (fun n => builtinByCode n == documentedClass n) = true := by decide +kernel
    exact eq_of_beq (List.all_eq_true.mp hh n (List.mem_range.mpr h))
  · have hc : ∀ row ∈ Gen.builtinByCodeTable, row.2.1 < 1000 := by decide
    have hd : Gen.builtinByCodeDefault = .other := by decide
    have h2 : documentedClass n = .other := by
      unfold documentedClass
      rw [if_neg (by omega), if_neg (by omega)]
    unfold builtinByCode
    rw [lookupCode_default _ _ _ (fun row hr => by have := hc row hr; omega), hd, h2]


theorem xlsxStyles_wf (defs : List (List UInt8 × Fmt)) (hwf : ∀ d ∈ defs, WF d.2)
    (hne : ∀ d ∈ defs, render d.2 ≠ []) (xfs : List (Option (List UInt8))) :
    xlsxStyles (defs.map fun d => (d.1, render d.2)) xfs =
      .ok (xfs.map fun xf =>
        match xf with
        | none => .other
        | some id =>
          match lastDef defs id with
          | some f => classify f
          | none => builtinById id) := by
  have hfil : (defs.map fun d => (d.1, render d.2)).filter (fun d => !d.2.isEmpty) = defs.map fun d => (d.1, render d.2) := by
    rw [List.filter_eq_self]
    intro d hd
    obtain ⟨d0, hd0, rfl⟩ := List.mem_map.mp hd
    have := hne d0 hd0
    cases h : render d0.2 with
    | nil => exact absurd h this
    | cons _ _ => rfl
  induction xfs with
  | nil => rfl
  | cons xf xfs ih =>
    simp only [xlsxStyles, hfil, ih, List.map_cons]
    cases xf with
    | none => rfl
    | some id =>
      simp only [lastDef_map (fun f => render f) defs id]
      cases hl : lastDef defs id with
      | none => rfl
      | some f =>
        have hmem : ∃ d ∈ defs, d.2 = f := by
          clear ih hfil hne hwf
          induction defs with
          | nil => simp [lastDef] at hl
          | cons d ds ihd =>
            simp only [lastDef] at hl
            cases h2 : lastDef ds id with
            | some v =>
              rw [h2] at hl
              obtain ⟨d', hd', he⟩ := ihd (by rw [h2]; exact hl)
              exact ⟨d', by simp [hd'], he⟩
            | none =>
              rw [h2] at hl
              by_cases hb : (d.1 == id) = true
              · simp [hb] at hl; exact ⟨d, by simp, hl⟩
              · simp [hb] at hl
        obtain ⟨d, hd, rfl⟩ := hmem
        simp only [Option.map_some, show detect (render d.2) = .ok (classify d.2) from scan_wf_section d.2.first (hwf d hd) (renderRest d.2.rest) (stops_renderRest d.2.rest)]


theorem xlsbStyles_wf (defs : List (Nat × Fmt)) (hwf : ∀ d ∈ defs, WF d.2) (xfs : List Nat) :
    xlsbStyles (defs.map fun d => (d.1, render d.2)) xfs =
      .ok (xfs.map fun code =>
        match builtinByCode code with
        | .other => ((lastDef defs code).map classify).getD .other
        | f => f) := by
  simp only [xlsbStyles, detectAll_wf defs hwf, lastDef_map (fun f => classify f) defs]
  rfl


theorem xlsStyles_wf (defs : List (Nat × Fmt)) (hwf : ∀ d ∈ defs, WF d.2) (xfs : List Nat) :
    xlsStyles (defs.map fun d => (d.1, render d.2)) xfs =
      .ok (xfs.map fun code =>
        match lastDef defs code with
        | some f => classify f
        | none => builtinByCode code) := by
  simp only [xlsStyles, detectAll_wf defs hwf, lastDef_map (fun f => classify f) defs]
  congr 1
  apply List.map_congr_left
  intro code _
  cases lastDef defs code <;> rfl


theorem xlsxStyles_logical (defs : List (List UInt8 × Fmt)) (hwf : ∀ d ∈ defs, WF d.2)
    (hne : ∀ d ∈ defs, render d.2 ≠ []) (xfs : List (Option (List UInt8))) :
    xlsxStyles (defs.map fun d => (d.1, render d.2)) xfs = .ok (xfs.map (logicalXlsx defs)) := by
  rw [xlsxStyles_wf defs hwf hne xfs]
  congr 1

theorem xlsbStyles_logical (defs : List (Nat × Fmt)) (hwf : ∀ d ∈ defs, WF d.2) (xfs : List Nat) :
    xlsbStyles (defs.map fun d => (d.1, render d.2)) xfs = .ok (xfs.map (logicalXlsb defs)) := by
  rw [xlsbStyles_wf defs hwf xfs]
  congr 1
  apply List.map_congr_left
  intro code _
  simp only [logicalXlsb, builtinByCode_documented]

theorem xlsStyles_logical (defs : List (Nat × Fmt)) (hwf : ∀ d ∈ defs, WF d.2) (xfs : List Nat) :
    xlsStyles (defs.map fun d => (d.1, render d.2)) xfs = .ok (xfs.map (logicalXls defs)) := by
  rw [xlsStyles_wf defs hwf xfs]
  congr 1
  apply List.map_congr_left
  intro code _
  simp only [logicalXls, builtinByCode_documented]

/-! ## the composed statements -/

theorem typed_get (cls : α → CellFormat) (xfs : List α) (i : Nat) (v : UInt64) (d : Bool) :
    formatF64 v (xfs.map cls)[i]? d = typedF64 ((xfs[i]?.map cls).getD .other) v d := by
  rw [List.getElem?_map]
  cases xfs[i]? with
  | none => rfl
  | some xf => exact formatF64_some _ _ _

theorem typed_get_i64 (cls : α → CellFormat) (xfs : List α) (i : Nat) (v : Int) (d : Bool) :
    formatI64 v (xfs.map cls)[i]? d = typedI64 ((xfs[i]?.map cls).getD .other) v d := by
  rw [List.getElem?_map]
  cases xfs[i]? with
  | none => rfl
  | some xf => exact formatI64_some _ _ _

/-- **xlsx**: with `formats` the table `read_styles` builds, a number with style index `i` (`s="i"`) is typed by the
    format XF `i` refers to; an index past the table leaves the number plain -/
theorem cell_typed_by_style_xlsx (defs : List (List UInt8 × Fmt)) (hwf : ∀ d ∈ defs, WF d.2)
    (hne : ∀ d ∈ defs, render d.2 ≠ []) (xfs : List (Option (List UInt8))) (formats : List CellFormat)
    (h : xlsxStyles (defs.map fun d => (d.1, render d.2)) xfs = .ok formats) (i : Nat) (v : UInt64) (d1904 : Bool) :
    formats.length = xfs.length ∧
    formatF64 v formats[i]? d1904 = typedF64 ((xfs[i]?.map (logicalXlsx defs)).getD .other) v d1904 := by
  rw [xlsxStyles_logical defs hwf hne xfs] at h
  injection h with h
  subst h
  exact ⟨List.length_map _, typed_get _ xfs i v d1904⟩

/-- **xlsb**: the same for `Xlsb::read_styles` (built-in table first); `v` is a BrtCellReal / BrtFmlaNum / RK float -/
theorem cell_typed_by_style_xlsb (defs : List (Nat × Fmt)) (hwf : ∀ d ∈ defs, WF d.2) (xfs : List Nat)
    (formats : List CellFormat) (h : xlsbStyles (defs.map fun d => (d.1, render d.2)) xfs = .ok formats)
    (i : Nat) (v : UInt64) (d1904 : Bool) :
    formats.length = xfs.length ∧
    formatF64 v formats[i]? d1904 = typedF64 ((xfs[i]?.map (logicalXlsb defs)).getD .other) v d1904 := by
  rw [xlsbStyles_logical defs hwf xfs] at h
  injection h with h
  subst h
  exact ⟨List.length_map _, typed_get _ xfs i v d1904⟩

/-- **xls**: the same for the FORMAT / XF records of `Xls::parse_workbook` (custom definition first); `v` is a NUMBER,
    an RK float, a MULRK entry or the cached result of a FORMULA -/
theorem cell_typed_by_style_xls (defs : List (Nat × Fmt)) (hwf : ∀ d ∈ defs, WF d.2) (xfs : List Nat)
    (formats : List CellFormat) (h : xlsStyles (defs.map fun d => (d.1, render d.2)) xfs = .ok formats)
    (i : Nat) (v : UInt64) (d1904 : Bool) :
    formats.length = xfs.length ∧
    formatF64 v formats[i]? d1904 = typedF64 ((xfs[i]?.map (logicalXls defs)).getD .other) v d1904 := by
  rw [xlsStyles_logical defs hwf xfs] at h
  injection h with h
  subst h
  exact ⟨List.length_map _, typed_get _ xfs i v d1904⟩

/-- integer twins (`format_excel_i64`: xls RK / MULRK integers; xlsb RK integers go through the same table) -/
theorem cell_typed_by_style_xls_i64 (defs : List (Nat × Fmt)) (hwf : ∀ d ∈ defs, WF d.2) (xfs : List Nat)
    (formats : List CellFormat) (h : xlsStyles (defs.map fun d => (d.1, render d.2)) xfs = .ok formats)
    (i : Nat) (v : Int) (d1904 : Bool) :
    formatI64 v formats[i]? d1904 = typedI64 ((xfs[i]?.map (logicalXls defs)).getD .other) v d1904 := by
  rw [xlsStyles_logical defs hwf xfs] at h
  injection h with h
  subst h
  exact typed_get_i64 _ xfs i v d1904

theorem cell_typed_by_style_xlsb_i64 (defs : List (Nat × Fmt)) (hwf : ∀ d ∈ defs, WF d.2) (xfs : List Nat)
    (formats : List CellFormat) (h : xlsbStyles (defs.map fun d => (d.1, render d.2)) xfs = .ok formats)
    (i : Nat) (v : Int) (d1904 : Bool) :
    formatI64 v formats[i]? d1904 = typedI64 ((xfs[i]?.map (logicalXlsb defs)).getD .other) v d1904 := by
  rw [xlsbStyles_logical defs hwf xfs] at h
  injection h with h
  subst h
  exact typed_get_i64 _ xfs i v d1904

theorem cell_typed_by_style_xlsx_i64 (defs : List (List UInt8 × Fmt)) (hwf : ∀ d ∈ defs, WF d.2)
    (hne : ∀ d ∈ defs, render d.2 ≠ []) (xfs : List (Option (List UInt8))) (formats : List CellFormat)
    (h : xlsxStyles (defs.map fun d => (d.1, render d.2)) xfs = .ok formats) (i : Nat) (v : Int) (d1904 : Bool) :
    formatI64 v formats[i]? d1904 = typedI64 ((xfs[i]?.map (logicalXlsx defs)).getD .other) v d1904 := by
  rw [xlsxStyles_logical defs hwf hne xfs] at h
  injection h with h
  subst h
  exact typed_get_i64 _ xfs i v d1904

/-! ## xlsx: from the text of the cell's `s` attribute -/

/-- `read_v` ∘ `read_styles`: no `s` attribute → plain; an `s` that parses as index `i` → typed by XF `i` (plain when
    `i` is past the table, however large — the index is a `usize`, not a 16-bit number); an `s` that does not parse
    → typed by XF 0 -/
theorem cell_typed_by_style_xlsx_attr (defs : List (List UInt8 × Fmt)) (hwf : ∀ d ∈ defs, WF d.2)
    (hne : ∀ d ∈ defs, render d.2 ≠ []) (xfs : List (Option (List UInt8))) (formats : List CellFormat)
    (h : xlsxStyles (defs.map fun d => (d.1, render d.2)) xfs = .ok formats) (v : UInt64) (d1904 : Bool) :
    (formatF64 v (xlsxCellFormat formats none) d1904 = .float v) ∧
    (∀ t i, parseUsize t = some i →
      formatF64 v (xlsxCellFormat formats (some t)) d1904 =
        typedF64 ((xfs[i]?.map (logicalXlsx defs)).getD .other) v d1904) ∧
    (∀ t, parseUsize t = none →
      formatF64 v (xlsxCellFormat formats (some t)) d1904 =
        typedF64 ((xfs[0]?.map (logicalXlsx defs)).getD .other) v d1904) := by
  refine ⟨rfl, fun t i ht => ?_, fun t ht => ?_⟩
  · simp only [xlsxCellFormat, ht, Option.getD_some]
    exact (cell_typed_by_style_xlsx defs hwf hne xfs formats h i v d1904).2
  · simp only [xlsxCellFormat, ht, Option.getD_none]
    exact (cell_typed_by_style_xlsx defs hwf hne xfs formats h 0 v d1904).2

/-! ## C10's sentence about one numeric cell whose XF refers to the grammar format `f` -/

/-- `r` (what the reader returned for a float with bits `v` under date system `d1904`) is a DateTime exactly when
    `f` is a date/time format, of the duration flavour exactly when `f` is an elapsed-time format, with the value
    and the date system unchanged, and the plain float otherwise -/
def TypedBy (f : Fmt) (r : NumData) (v : UInt64) (d1904 : Bool) : Prop :=
  ((∃ s k d', r = .dateTime s k d') ↔ classify f ≠ .other) ∧
  (r = .dateTime (.bits v) .timeDelta d1904 ↔ classify f = .timeDelta) ∧
  (r = .dateTime (.bits v) .dateTime d1904 ↔ classify f = .dateTime) ∧
  (r = .float v ↔ classify f = .other)

theorem typedBy_of_eq (f : Fmt) (r : NumData) (v : UInt64) (d : Bool) (h : r = typedF64 (classify f) v d) :
    TypedBy f r v d := by
  subst h
  exact typedF64_spec (classify f) v d

end Formats
