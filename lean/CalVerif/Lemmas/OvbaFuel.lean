import CalVerif.Model.Ovba
/-! Lemmas for property C18 / C06: the fuel the model of `decompress_stream` gives its loops is always sufficient. -/
namespace Ovba

theorem copyLoop_fuel (off : Nat) (h1 : 1 ≤ off) : ∀ (fuel len : Nat) (out : Bytes) (olen : Nat),
    len + 1 ≤ fuel → copyLoop off fuel len out olen ≠ .outOfFuel
  | 0, _, _, _, h => by omega
  | fuel + 1, len, out, olen, h => by
    simp only [copyLoop]
    split
    · exact copyLoop_fuel off h1 fuel (len - off) _ _ (by omega)
    · simp

theorem tokenLoop_fuel (size start : Nat) : ∀ (n flags : Nat) (st : St),
    tokenLoop size start n flags st ≠ .outOfFuel ∧
    ∀ st' b, tokenLoop size start n flags st = .ok (st', b) → st'.rest.length ≤ st.rest.length
  | 0, flags, st => by
    simp only [tokenLoop]
    refine ⟨by simp, ?_⟩
    intro st' b h
    cases h
    exact Nat.le_refl _
  | n + 1, flags, st => by
    simp only [tokenLoop]
    split
    · refine ⟨by simp, ?_⟩
      intro st' b h
      cases h
      exact Nat.le_refl _
    · split
      · cases hr : st.rest with
        | nil => simp
        | cons b r =>
          simp only
          have ih := tokenLoop_fuel size start n (flags / 2) { rest := r, out := b :: st.out, olen := st.olen + 1, clen := st.clen + 1 }
          refine ⟨ih.1, ?_⟩
          intro st' b' h
          have := ih.2 st' b' h
          simp only [List.length_cons] at this ⊢
          omega
      · cases hr : st.rest with
        | nil => simp
        | cons lo r1 =>
          cases r1 with
          | nil => simp
          | cons hi r =>
            simp only
            cases hb : bitCount? (st.olen - start) with
            | none => simp
            | some bc =>
              simp only
              split
              · exact ⟨by simp, by intro _ _ h; simp at h⟩
              cases hc : copyLoop (((u16le lo hi &&& (0xFFFF ^^^ 0xFFFF >>> bc)) >>> (16 - bc)) + 1)
                  ((u16le lo hi &&& 0xFFFF >>> bc) + 3 + 1) ((u16le lo hi &&& 0xFFFF >>> bc) + 3) st.out st.olen with
              | ok p =>
                obtain ⟨out', olen'⟩ := p
                simp only
                have ih := tokenLoop_fuel size start n (flags / 2) { rest := r, out := out', olen := olen', clen := st.clen + 2 }
                refine ⟨ih.1, ?_⟩
                intro st' b' h
                have := ih.2 st' b' h
                simp only [List.length_cons] at this ⊢
                omega
              | err e => simp
              | panic e => simp
              | outOfFuel =>
                exact absurd hc (copyLoop_fuel _ (Nat.le_add_left 1 _) _ _ _ _ (by omega))

theorem chunkLoop_fuel (size start : Nat) : ∀ (fuel : Nat) (st : St), st.rest.length + 1 ≤ fuel →
    chunkLoop size start fuel st ≠ .outOfFuel ∧
    ∀ st', chunkLoop size start fuel st = .ok st' → st'.rest.length ≤ st.rest.length
  | 0, st, h => by omega
  | fuel + 1, st, h => by
    simp only [chunkLoop]
    cases hr : st.rest with
    | nil =>
      refine ⟨by simp, ?_⟩
      intro st' h'
      cases h'
      simp [hr]
    | cons b r =>
      simp only
      split
      · refine ⟨by simp, ?_⟩
        intro st' h'
        cases h'
        simp [hr]
      · have ht := tokenLoop_fuel size start 8 b.toNat { rest := r, out := st.out, olen := st.olen, clen := st.clen + 1 }
        cases hl : tokenLoop size start 8 b.toNat { rest := r, out := st.out, olen := st.olen, clen := st.clen + 1 } with
        | ok p =>
          obtain ⟨st1, brk⟩ := p
          have hlen := ht.2 st1 brk hl
          simp only at hlen
          cases brk with
          | true =>
            simp only
            refine ⟨by simp, ?_⟩
            intro st' h'
            cases h'
            simp only [List.length_cons]
            omega
          | false =>
            simp only
            rw [hr] at h
            simp only [List.length_cons] at h
            have ih := chunkLoop_fuel size start fuel st1 (by omega)
            refine ⟨ih.1, ?_⟩
            intro st' h'
            have := ih.2 st' h'
            simp only [List.length_cons]
            omega
        | err e => simp
        | panic e => simp
        | outOfFuel => exact absurd hl ht.1

theorem mainLoop_fuel : ∀ (fuel : Nat) (rest out : Bytes) (olen : Nat), rest.length + 1 ≤ fuel →
    mainLoop fuel rest out olen ≠ .outOfFuel
  | 0, _, _, _, h => by omega
  | fuel + 1, rest, out, olen, h => by
    match rest with
    | [] => simp [mainLoop]
    | [_] => simp [mainLoop]
    | lo :: hi :: r =>
      simp only [mainLoop]
      split
      · simp
      · split
        · split
          · simp
          · apply mainLoop_fuel
            simp only [List.length_cons, List.length_drop] at h ⊢
            omega
        · have hc := chunkLoop_fuel (u16le lo hi &&& 0x0FFF) olen (r.length + 1)
            { rest := r, out := out, olen := olen, clen := 0 } (by simp)
          cases hl : chunkLoop (u16le lo hi &&& 0x0FFF) olen (r.length + 1) { rest := r, out := out, olen := olen, clen := 0 } with
          | ok st =>
            simp only
            have := hc.2 st hl
            simp only at this
            apply mainLoop_fuel
            simp only [List.length_cons] at h
            omega
          | err e => simp
          | panic e => simp
          | outOfFuel => exact absurd hl hc.1

/-- the fuel the model gives its loops is always enough: `decompress` returns, errs or panics on every input -/
theorem decompress_fuel (s : Bytes) : decompress s ≠ .outOfFuel := by
  unfold decompress
  cases s with
  | nil => simp
  | cons b rest =>
    simp only
    split
    · simp
    · have := mainLoop_fuel (rest.length + 1) rest [] 0 (Nat.le_refl _)
      cases hm : mainLoop (rest.length + 1) rest [] 0 with
      | ok o => simp
      | err e => simp
      | panic e => simp
      | outOfFuel => exact absurd hm this

end Ovba
