import CalVerif.Spec.SharedSheet
import CalVerif.Lemmas.XlsxFormula
import CalVerif.Lemmas.SharedFormula
/-! C15 at the level of XML events: `XlsxFormula.readFormulas` (the event model of `next_formula`, with the
    shared-formula arms) run on the events of a rendered sheet with shared groups computes, cell by cell, what
    the abstract model `SharedFormula.cellFormula` computes on the corresponding `CellIn`. -/
namespace SharedSheet
open XlsxCells XlsxSheet XlsxFormula SharedFormula Utf8
set_option linter.unusedSimpArgs false

/-- `cellFormula` as a total function (it cannot fail on a cell that carries its `si`) -/
def stepCell (t : Table) (c : CellIn) : Table × List Char :=
  match cellFormula t c with
  | .ok x => x
  | _ => (t, [])

/-- every `<c>` of the sheet with the text `next_formula` reports for it (UTF-8), in document order -/
def texts : Table → List CellIn → List (Nat × Nat × Bytes)
  | _, [] => []
  | t, c :: cs => (c.pos.1, c.pos.2, utf8Encode (stepCell t c).2) :: texts (stepCell t c).1 cs

def tableAfter : Table → List CellIn → Table
  | t, [] => t
  | t, c :: cs => tableAfter (stepCell t c).1 cs

theorem texts_append (a b : List CellIn) (t : Table) :
    texts t (a ++ b) = texts t a ++ texts (tableAfter t a) b := by
  induction a generalizing t with
  | nil => rfl
  | cons c cs ih => simp [texts, tableAfter, ih]

theorem tableAfter_append (a b : List CellIn) (t : Table) :
    tableAfter t (a ++ b) = tableAfter (tableAfter t a) b := by
  induction a generalizing t with
  | nil => rfl
  | cons c cs ih => simp [tableAfter, ih]

theorem rect_eta (r : Rect) : (⟨(rectDims r).sr, (rectDims r).sc, (rectDims r).er, (rectDims r).ec⟩ : Rect) = r := by
  cases r; rfl

theorem steps_text (pos : Nat × Nat) (v : Option Bytes) (name : Bytes) (attrs : Attrs) (row col : Nat)
    (out : List (Nat × Nat × Bytes)) (tb : Table) (t : List Char) :
    XlsxFormula.steps ⟨.inShared pos v name attrs [], row, col, out, tb⟩ (textEvents t) =
      .ok ⟨.inShared pos v name attrs (utf8Encode t), row, col, out, tb⟩ := by
  unfold textEvents
  by_cases h : utf8Encode t = []
  · simp [h, XlsxFormula.steps]
  · simp [h, XlsxFormula.steps, XlsxFormula.step]

/-- one rendered `<c>`: the event model reports what `cellFormula` computes, and updates the map alike -/
theorem steps_scell (p : Bool) (r c cur : Nat) (cell : SCell) (hr : r < 1048576) (hc : c < 16384) (hok : cell.Ok)
    (out : List (Nat × Nat × Bytes)) (tb : Table) :
    XlsxFormula.steps ⟨.rows, r, cur, out, tb⟩ (renderCell p r c cell) =
      .ok ⟨.rows, r, c + 1, (r, c, utf8Encode (stepCell tb (toCellIn r c cell)).2) :: out,
           (stepCell tb (toCellIn r c cell)).1⟩ := by
  have h1 : XlsxFormula.steps ⟨.rows, r, cur, out, tb⟩ [.start (q p nC) [(nR, refName false r c)]] =
      .ok ⟨.cell (r, c) none, r, c, out, tb⟩ := by
    simp only [XlsxFormula.steps, XlsxFormula.step, ln_c, nC_ne_nRow, if_false, if_true, getAttr, List.find?, beq_self_eq_true, Option.map_some]
    rw [getRowColumn_refName _ r c (by simp only [U32]; omega) (by simp only [U32]; omega)]
  have hsat : satAdd c 1 = c + 1 := satAdd_eq (by simp only [U32]; omega)
  have hstop : ∀ (v : Option Bytes) (tb' : Table), XlsxFormula.steps ⟨.cell (r, c) v, r, c, out, tb'⟩ [.stop (q p nC)] =
      .ok ⟨.rows, r, c + 1, (r, c, v.getD []) :: out, tb'⟩ := by
    intro v tb'; simp [XlsxFormula.steps, XlsxFormula.step, hsat]
  have hval : ∀ (v : Option Bytes) (tb' : Table),
      XlsxFormula.steps ⟨.cell (r, c) v, r, c, out, tb'⟩ (if cell.value then vEventsPlain p [49] else []) =
        .ok ⟨.cell (r, c) v, r, c, out, tb'⟩ := by
    intro v tb'
    cases cell.value with
    | false => simp [XlsxFormula.steps]
    | true => simp [vEventsPlain, XlsxFormula.steps, XlsxFormula.step, getAttr]
  obtain ⟨f, value⟩ := cell
  simp only [renderCell]
  cases f with
  | none =>
    simp only [fEvents, List.append_assoc, List.nil_append, toCellIn, stepCell, cellFormula]
    rw [XlsxFormula.steps_append_ok _ _ _ _ h1, XlsxFormula.steps_append_ok _ _ _ _ (hval none tb), hstop]
    rfl
  | plain t =>
    have hf := XlsxFormula.steps_formula p (r, c) r c out tb (some (utf8Encode t))
    have e : ∀ rest, [Ev.start (q p nF) []] ++ (textEvents t ++ ([Ev.stop (q p nF)] ++ rest))
        = formulaEvents p (some (utf8Encode t)) ++ rest := by
      intro rest; simp [formulaEvents, textEvents]
    simp only [fEvents, List.append_assoc, toCellIn, stepCell, cellFormula]
    rw [e, XlsxFormula.steps_append_ok _ _ _ _ h1, XlsxFormula.steps_append_ok _ _ _ _ hf,
      XlsxFormula.steps_append_ok _ _ _ _ (hval _ tb), hstop]
    rfl
  | master si ref t =>
    simp only [SCell.Ok] at hok
    obtain ⟨hsi, h2, h3, h4, h5⟩ := hok
    have hdim := getDimension_dimRef (rectDims ref) (by simp only [U32, rectDims]; omega) (by simp only [U32, rectDims]; omega)
      (by simp only [U32, rectDims]; omega) (by simp only [U32, rectDims]; omega)
    simp only [fEvents, List.append_assoc, toCellIn, stepCell, cellFormula]
    generalize hattrs : ([(nT, tShared), (nRef, dimRef (rectDims ref)), (XlsxFormula.nSiAttr, dec si)] : Attrs) = attrs
    have g0 : getAttr attrs nT = some tShared := by subst hattrs; rfl
    have g1 : getAttr attrs nSiAttr = some (dec si) := by subst hattrs; rfl
    have g2 : getAttr attrs nRef = some (dimRef (rectDims ref)) := by subst hattrs; rfl
    have ha : XlsxFormula.steps ⟨.cell (r, c) none, r, c, out, tb⟩ [.start (q p nF) attrs] =
        .ok ⟨.inShared (r, c) none (q p nF) attrs [], r, c, out, tb⟩ := by
      simp [XlsxFormula.steps, XlsxFormula.step, g0]
    have hb := steps_text (r, c) none (q p nF) attrs r c out tb t
    have hc' : XlsxFormula.steps ⟨.inShared (r, c) none (q p nF) attrs (utf8Encode t), r, c, out, tb⟩ [.stop (q p nF)] =
        .ok ⟨.cell (r, c) (some (utf8Encode t)), r, c, out, tb.store si ⟨t, ref, (r, c)⟩⟩ := by
      simp only [XlsxFormula.steps, XlsxFormula.step, if_true, finishShared, utf8Decode_encode, g1, atoiUsize_dec si hsi, g2, hdim, rect_eta]
    rw [XlsxFormula.steps_append_ok _ _ _ _ h1, XlsxFormula.steps_append_ok _ _ _ _ ha, XlsxFormula.steps_append_ok _ _ _ _ hb,
      XlsxFormula.steps_append_ok _ _ _ _ hc', XlsxFormula.steps_append_ok _ _ _ _ (hval _ _), hstop]
    rfl
  | follower si =>
    simp only [SCell.Ok] at hok
    obtain ⟨v, tb', hv⟩ : ∃ v tb', stepCell tb (toCellIn r c ⟨.follower si, value⟩) = (tb', v) := ⟨_, _, rfl⟩
    rw [hv]
    simp only [fEvents, List.append_assoc]
    generalize hattrs : ([(nT, tShared), (XlsxFormula.nSiAttr, dec si)] : Attrs) = attrs
    have g0 : getAttr attrs nT = some tShared := by subst hattrs; rfl
    have g1 : getAttr attrs nSiAttr = some (dec si) := by subst hattrs; rfl
    have g2 : getAttr attrs nRef = none := by subst hattrs; rfl
    have hfin : XlsxFormula.steps ⟨.cell (r, c) none, r, c, out, tb⟩ [.start (q p nF) attrs, .stop (q p nF)] =
        .ok ⟨.cell (r, c) (some (utf8Encode v)), r, c, out, tb'⟩ := by
      have gd : utf8Decode [] = some [] := rfl
      simp only [toCellIn, stepCell, cellFormula] at hv
      simp only [XlsxFormula.steps, XlsxFormula.step, ln_f, g0, if_true]
      simp [finishShared, gd, g1, atoiUsize_dec si hok, g2]
      cases hl : tb.lookup si with
      | none =>
        simp only [hl, Prod.mk.injEq] at hv
        obtain ⟨e1, e2⟩ := hv; subst e1; subst e2; simp [hl, utf8Encode, XlsxFormula.steps]
      | some g =>
        simp only [hl] at hv
        cases ho : g.offsetOf (r, c) with
        | none =>
          simp only [ho, Prod.mk.injEq] at hv
          obtain ⟨e1, e2⟩ := hv; subst e1; subst e2; simp [hl, ho, utf8Encode, XlsxFormula.steps]
        | some off =>
          simp only [ho] at hv
          obtain ⟨res, hres⟩ := replaceGo_ok off g.text.length g.text (Nat.le_refl _)
          have hres' : replaceCellNames g.text off = .ok res := hres
          simp only [hres', Prod.mk.injEq] at hv
          obtain ⟨e1, e2⟩ := hv; subst e1; subst e2
          simp [hl, ho, hres', XlsxFormula.steps]
    have e : ∀ rest, [Ev.start (q p nF) attrs] ++ ([Ev.stop (q p nF)] ++ rest) = [Ev.start (q p nF) attrs, Ev.stop (q p nF)] ++ rest := by
      intro rest; rfl
    rw [XlsxFormula.steps_append_ok _ _ _ _ h1, XlsxFormula.steps_append_ok _ _ _ _ hfin,
      XlsxFormula.steps_append_ok _ _ _ _ (hval _ _), hstop]
    rfl

theorem steps_scells (p : Bool) (r : Nat) (hr : r < 1048576) (cells : List (Nat × SCell)) (lo : Nat)
    (hinc : Increasing 16384 lo cells) (hok : ∀ c ∈ cells, c.2.Ok) (cur : Nat) (out : List (Nat × Nat × Bytes)) (tb : Table) :
    ∃ col, XlsxFormula.steps ⟨.rows, r, cur, out, tb⟩ (renderCells p r cells) =
      .ok ⟨.rows, r, col, (texts tb (rowCells r cells)).reverse ++ out, tableAfter tb (rowCells r cells)⟩ := by
  induction cells generalizing lo cur out tb with
  | nil => exact ⟨cur, by simp [renderCells, XlsxFormula.steps, rowCells, texts, tableAfter]⟩
  | cons cell rest ih =>
    obtain ⟨c, sc⟩ := cell
    obtain ⟨_, hc, hrest⟩ := hinc
    have h1 := steps_scell p r c cur sc hr hc (hok (c, sc) (by simp)) out tb
    obtain ⟨col, h2⟩ := ih (c + 1) hrest (fun x hx => hok x (by simp [hx])) (c + 1)
      ((r, c, utf8Encode (stepCell tb (toCellIn r c sc)).2) :: out) (stepCell tb (toCellIn r c sc)).1
    refine ⟨col, ?_⟩
    simp only [renderCells]
    rw [XlsxFormula.steps_append_ok _ _ _ _ h1, h2]
    simp [rowCells, texts, tableAfter, toCellIn]
    cases sc.f <;> simp [toCellIn]

theorem steps_srows (p : Bool) (s : SSheet) (lo : Nat) (hinc : Increasing 1048576 lo s)
    (hcols : ∀ row ∈ s, Increasing 16384 0 row.2) (hok : ∀ row ∈ s, ∀ c ∈ row.2, c.2.Ok)
    (cur : Nat) (out : List (Nat × Nat × Bytes)) (tb : Table) :
    ∃ row, XlsxFormula.steps ⟨.rows, cur, 0, out, tb⟩ (renderRows p s) =
      .ok ⟨.rows, row, 0, (texts tb (toCells s)).reverse ++ out, tableAfter tb (toCells s)⟩ := by
  induction s generalizing lo cur out tb with
  | nil => exact ⟨cur, by simp [renderRows, XlsxFormula.steps, toCells, texts, tableAfter]⟩
  | cons rowspec rest ih =>
    obtain ⟨r, cells⟩ := rowspec
    obtain ⟨_, hr, hrest⟩ := hinc
    have h1 : XlsxFormula.steps ⟨.rows, cur, 0, out, tb⟩ [.start (q p nRow) [(nR, dec (r + 1))]] =
        .ok ⟨.rows, r, 0, out, tb⟩ := by
      simp only [XlsxFormula.steps, XlsxFormula.step, ln_row, getAttr, List.find?, beq_self_eq_true, Option.map_some, if_true]
      rw [getRow_dec r (by simp only [U32]; omega)]
    obtain ⟨col, h2⟩ := steps_scells p r hr cells 0 (hcols (r, cells) (by simp)) (hok (r, cells) (by simp)) 0 out tb
    have h3 : XlsxFormula.steps ⟨.rows, r, col, (texts tb (rowCells r cells)).reverse ++ out, tableAfter tb (rowCells r cells)⟩
        [.stop (q p nRow)] =
        .ok ⟨.rows, r + 1, 0, (texts tb (rowCells r cells)).reverse ++ out, tableAfter tb (rowCells r cells)⟩ := by
      have : satAdd r 1 = r + 1 := satAdd_eq (by simp only [U32]; omega)
      simp [XlsxFormula.steps, XlsxFormula.step, this]
    obtain ⟨row, h4⟩ := ih (r + 1) hrest (fun x hx => hcols x (by simp [hx])) (fun x hx => hok x (by simp [hx]))
      (r + 1) ((texts tb (rowCells r cells)).reverse ++ out) (tableAfter tb (rowCells r cells))
    refine ⟨row, ?_⟩
    simp only [renderRows, List.append_assoc]
    rw [XlsxFormula.steps_append_ok _ _ _ _ h1, XlsxFormula.steps_append_ok _ _ _ _ h2,
      XlsxFormula.steps_append_ok _ _ _ _ h3, h4]
    have e : toCells ((r, cells) :: rest) = rowCells r cells ++ toCells rest := by simp [toCells]
    rw [e, texts_append, tableAfter_append]
    simp

/-- `next_formula` on the events of a rendered sheet with shared groups: every `<c>` of the sheet, in
    document order, with the (UTF-8 encoded) text the abstract model `cellFormula` computes for it -/
theorem readFormulas_render (s : SSheet) (p : Bool) (hwf : s.WF) :
    readFormulas (render s p) = .ok (texts [] (toCells s)) := by
  unfold readFormulas render
  have hnew : readerNew ([Ev.start (q p nWorksheet) [], Ev.start (q p nSheetData) []] ++ renderRows p s ++
        [Ev.stop (q p nSheetData), Ev.stop (q p nWorksheet)]) default false =
      .ok (default, renderRows p s ++ [Ev.stop (q p nSheetData), Ev.stop (q p nWorksheet)]) := by
    simp [readerNew]
  rw [hnew]
  obtain ⟨row, h1⟩ := steps_srows p s 0 hwf.1 hwf.2.1 hwf.2.2 0 [] []
  have h2 : XlsxFormula.steps ⟨.rows, row, 0, (texts [] (toCells s)).reverse ++ [], tableAfter [] (toCells s)⟩
      [.stop (q p nSheetData), .stop (q p nWorksheet)] =
      .ok ⟨.done, row, 0, (texts [] (toCells s)).reverse ++ [], tableAfter [] (toCells s)⟩ := by
    simp [XlsxFormula.steps, XlsxFormula.step]
  have h3 := XlsxFormula.steps_append_ok _ _ _ [Ev.stop (q p nSheetData), .stop (q p nWorksheet)] h1
  rw [h2] at h3
  have := XlsxFormula.run_of_steps _ XlsxFormula.initSt _ h3 rfl
  simp only [XlsxFormula.initSt] at this ⊢
  rw [this]
  simp

end SharedSheet
