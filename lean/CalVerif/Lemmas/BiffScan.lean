import CalVerif.Lemmas.BiffFuel
import CalVerif.Lemmas.BiffFormulas
/-! C02 helper lemmas: the workbook-wide scan counter of the sheet loop (`sheetLoopS`, fix edc415f). -/

namespace BiffCells
open Biff

/-- what the loop of one sheet adds to the counter when it completes: the records up to and including the first
    EOF record (or all of them) -/
def scanCost : List Item → Nat
  | [] => 0
  | .fail _ :: _ => 0
  | .record r :: rest => recCost r + (if r.typ = 0x000A then 0 else scanCost rest)

/-- a `Res` with the counter attached to a success -/
def withCount {α : Type} (n : Nat) : Res α → Res (α × Nat)
  | .ok a => .ok (a, n)
  | .err e => .err e
  | .panic m => .panic m
  | .outOfFuel => .outOfFuel

theorem failAs_withCount {α : Type} (e : Res Unit) (n : Nat) :
    (failAs e : Res (α × Nat)) = withCount n (failAs e : Res α) := by
  cases e <;> rfl

/-- while the budget lasts the counted loop is the plain loop, and a completed sheet adds `scanCost` -/
theorem sheetLoopS_eq (env : Env) (limit : Nat) : ∀ (its : List Item) (st : St) (n : Nat),
    n + scanCost its ≤ limit →
    sheetLoopS env limit its st n = withCount (n + scanCost its) (sheetLoop env its st)
  | [], st, n, _ => by simp [sheetLoopS, sheetLoop, scanCost, withCount]
  | .fail e :: _, st, n, _ => by
    simp only [sheetLoopS, sheetLoop]; exact failAs_withCount e _
  | .record r :: rest, st, n, h => by
    simp only [scanCost] at h
    have hle : ¬ (n + recCost r > limit) := by omega
    simp only [sheetLoopS, sheetLoop, if_neg hle, scanCost]
    by_cases he : r.typ = 0x000A
    · simp [he, withCount]
    · simp only [if_neg he] at h ⊢
      cases hs : step env st r with
      | ok st' =>
        simp only
        rw [sheetLoopS_eq env limit rest st' (n + recCost r) (by omega)]
        congr 1; omega
      | err e => simp [withCount]
      | panic e => simp [withCount]
      | outOfFuel => simp [withCount]

/-- a record and what follows it never take more bytes than the stream had -/
theorem nextRecord_cost (s : Bytes) (r : Rec) (rest : Bytes) (h : nextRecord s = some (.ok (r, rest))) :
    rest.length + recCost r ≤ s.length := by
  unfold nextRecord at h
  by_cases h4 : (!hasLen s 4) = true
  · simp only [h4, if_true] at h
    by_cases he : s.isEmpty = true <;> simp [he] at h
  · simp only [h4, Bool.false_eq_true, if_false] at h
    by_cases hl : (!hasLen s (u16 (s.drop 2) + 4)) = true
    · simp [hl] at h
    · simp only [hl, Bool.false_eq_true, if_false] at h
      have hfull : u16 (s.drop 2) + 4 ≤ s.length := by
        simp only [Bool.not_eq_true', Bool.not_eq_false, hasLen_iff, decide_eq_true_eq] at hl
        simpa using hl
      obtain ⟨_, g2⟩ := gather_fuel ((s.drop (u16 (s.drop 2) + 4)).length / 4 + 1) (s.drop (u16 (s.drop 2) + 4)) (by omega)
      cases hg : gather ((s.drop (u16 (s.drop 2) + 4)).length / 4 + 1) (s.drop (u16 (s.drop 2) + 4)) with
      | ok p =>
        obtain ⟨fs, rest'⟩ := p
        rw [hg] at h
        simp only [Res.bind_ok, Res.pure_eq, Option.some.injEq, Res.ok.injEq, Prod.mk.injEq] at h
        have hr := g2 fs rest' hg
        obtain ⟨h1, h2⟩ := h
        subst h1 h2
        simp only [recCost, List.length_drop, List.length_take] at hr ⊢
        omega
      | err e => rw [hg] at h; simp at h
      | panic e => rw [hg] at h; simp at h
      | outOfFuel => rw [hg] at h; simp at h

theorem scanCost_itemsF : ∀ (fuel : Nat) (s : Bytes), scanCost (itemsF fuel s) ≤ s.length
  | 0, s => by simp [itemsF, scanCost]
  | fuel + 1, s => by
    unfold itemsF
    cases hn : nextRecord s with
    | none => simp [scanCost]
    | some x =>
      cases x with
      | ok p =>
        obtain ⟨r, rest⟩ := p
        have hc := nextRecord_cost s r rest hn
        have ih := scanCost_itemsF fuel rest
        simp only [scanCost]
        split <;> omega
      | err e => simp [scanCost]
      | panic e => simp [scanCost]
      | outOfFuel => simp [scanCost]

/-- one substream can add at most its own length to the counter -/
theorem scanCost_items_le (s : Bytes) : scanCost (items s) ≤ s.length := scanCost_itemsF _ s

/-- the plain per-sheet model `sheetRange` is exact whenever the budget is not exhausted — in particular for a
    single substream (`n + s.length ≤ limit`) -/
theorem sheetRangeS_eq (env : Env) (limit : Nat) (s : Bytes) (n : Nat) (h : n + s.length ≤ limit) :
    sheetRangeS env limit s n = withCount (n + scanCost (items s)) (sheetRange env s) := by
  have hc := scanCost_items_le s
  unfold sheetRangeS sheetRange decodeSheet
  rw [sheetLoopS_eq env limit (items s) ⟨[], (0, 0)⟩ n (by omega)]
  cases hl : sheetLoop env (items s) ⟨[], (0, 0)⟩ with
  | ok cs =>
    simp only [withCount, rangeOf]
    cases hw : withFormulaRange (items s) (Range.fromSparse cs) <;> rfl
  | err e => simp [withCount, rangeOf, withFormulaRange]
  | panic e => simp [withCount, rangeOf, withFormulaRange]
  | outOfFuel => simp [withCount, rangeOf, withFormulaRange]

/-! ### work -/

/-- every loop body adds at least 4 to the counter: a sheet that completes has run at most (growth of the counter)/4
    bodies, one that stops early at most (what was left of the budget)/4 + 1 -/
theorem sheetLoopWork_bound (env : Env) (limit : Nat) : ∀ (its : List Item) (st : St) (n : Nat), n ≤ limit →
    4 * sheetLoopWork env limit its st n + n ≤ limit + 4 ∧
    ∀ cs n', sheetLoopS env limit its st n = .ok (cs, n') →
      4 * sheetLoopWork env limit its st n + n ≤ n' ∧ n' ≤ limit
  | [], st, n, h => by
    refine ⟨by simp [sheetLoopWork]; omega, ?_⟩
    intro cs n' he
    simp only [sheetLoopS, Res.ok.injEq, Prod.mk.injEq] at he
    simp [sheetLoopWork]; omega
  | .fail e :: _, st, n, h => by
    refine ⟨by simp [sheetLoopWork]; omega, ?_⟩
    intro cs n' he
    simp only [sheetLoopS] at he
    cases e <;> simp [failAs] at he
  | .record r :: rest, st, n, h => by
    have hc : 4 ≤ recCost r := by simp [recCost]
    by_cases hgt : n + recCost r > limit
    · refine ⟨by simp [sheetLoopWork, hgt]; omega, ?_⟩
      intro cs n' he
      simp [sheetLoopS, hgt] at he
    · by_cases he : r.typ = 0x000A
      · refine ⟨by simp [sheetLoopWork, hgt, he]; omega, ?_⟩
        intro cs n' heq
        simp only [sheetLoopS, if_neg hgt, he, if_true, Res.ok.injEq, Prod.mk.injEq] at heq
        simp [sheetLoopWork, hgt, he]; omega
      · cases hs : step env st r with
        | ok st' =>
          obtain ⟨b1, b2⟩ := sheetLoopWork_bound env limit rest st' (n + recCost r) (by omega)
          refine ⟨by simp only [sheetLoopWork, if_neg hgt, if_neg he, hs]; omega, ?_⟩
          intro cs n' heq
          simp only [sheetLoopS, if_neg hgt, if_neg he, hs] at heq
          have := b2 cs n' heq
          simp only [sheetLoopWork, if_neg hgt, if_neg he, hs]; omega
        | err e =>
          refine ⟨by simp only [sheetLoopWork, if_neg hgt, if_neg he, hs]; omega, ?_⟩
          intro cs n' heq; simp [sheetLoopS, hgt, he, hs] at heq
        | panic e =>
          refine ⟨by simp only [sheetLoopWork, if_neg hgt, if_neg he, hs]; omega, ?_⟩
          intro cs n' heq; simp [sheetLoopS, hgt, he, hs] at heq
        | outOfFuel =>
          refine ⟨by simp only [sheetLoopWork, if_neg hgt, if_neg he, hs]; omega, ?_⟩
          intro cs n' heq; simp [sheetLoopS, hgt, he, hs] at heq

theorem sheetRangeS_count (env : Env) (limit : Nat) (s : Bytes) (n : Nat) (r : Range.Rng Val) (n' : Nat)
    (h : sheetRangeS env limit s n = .ok (r, n')) :
    ∃ cs, sheetLoopS env limit (items s) ⟨[], (0, 0)⟩ n = .ok (cs, n') := by
  unfold sheetRangeS at h
  cases hl : sheetLoopS env limit (items s) ⟨[], (0, 0)⟩ n with
  | ok p =>
    obtain ⟨cs, m⟩ := p
    rw [hl] at h
    simp only at h
    cases hw : withFormulaRange (items s) (Range.fromSparse cs) with
    | ok r' => rw [hw] at h; simp only [Res.ok.injEq, Prod.mk.injEq] at h; exact ⟨cs, by rw [h.2]⟩
    | err e => rw [hw] at h; simp at h
    | panic e => rw [hw] at h; simp at h
    | outOfFuel => rw [hw] at h; simp at h
  | err e => rw [hl] at h; simp at h
  | panic e => rw [hl] at h; simp at h
  | outOfFuel => rw [hl] at h; simp at h

/-- over all sheets: four times the number of loop bodies is at most the budget plus one last record -/
theorem sheetsWork_bound (env : Env) (stream : Bytes) : ∀ (offs : List Nat) (n : Nat), n ≤ scanLimit stream.length →
    4 * sheetsWork env stream offs n + n ≤ scanLimit stream.length + 4
  | [], n, h => by simp [sheetsWork]; omega
  | pos :: ps, n, h => by
    unfold sheetsWork
    by_cases hp : stream.length < pos
    · simp [hp]; omega
    · simp only [if_neg hp]
      obtain ⟨b1, b2⟩ := sheetLoopWork_bound env (scanLimit stream.length) (items (stream.drop pos)) ⟨[], (0, 0)⟩ n h
      cases hr : sheetRangeS env (scanLimit stream.length) (stream.drop pos) n with
      | ok p =>
        obtain ⟨r, n'⟩ := p
        obtain ⟨cs, hcs⟩ := sheetRangeS_count env _ _ n r n' hr
        obtain ⟨c1, c2⟩ := b2 cs n' hcs
        have ih := sheetsWork_bound env stream ps n' c2
        simp only; omega
      | err e => simp only; omega
      | panic e => simp only; omega
      | outOfFuel => simp only; omega

/-! ### an encoded substream inside a longer stream -/

theorem noCont_frame_append (rs : List Rec) (tail : Bytes) (h : ∀ r ∈ rs, plainRec r) (ht : noCont tail) :
    noCont (frame rs ++ tail) := by
  cases rs with
  | nil => simpa [frame] using ht
  | cons r rs => rw [frame_cons, List.append_assoc]; exact noCont_frame r _ (h r (by simp))

/-- `RecordIter` over framed records followed by anything that does not start with a CONTINUE record -/
theorem itemsF_frame_tail : ∀ (rs : List Rec) (fuel : Nat) (tail : Bytes), (∀ r ∈ rs, plainRec r) → noCont tail →
    rs.length < fuel → ∃ more, itemsF fuel (frame rs ++ tail) = rs.map .record ++ more
  | [], fuel, tail, _, _, _ => ⟨itemsF fuel tail, by simp [frame]⟩
  | r :: rs, fuel, tail, h, ht, hf => by
    cases fuel with
    | zero => omega
    | succ f =>
      have hn := noCont_frame_append rs tail (fun x hx => h x (by simp [hx])) ht
      obtain ⟨more, hm⟩ := itemsF_frame_tail rs f tail (fun x hx => h x (by simp [hx])) ht (by simp at hf; omega)
      refine ⟨more, ?_⟩
      rw [frame_cons, List.append_assoc]
      simp only [itemsF, nextRecord_frame r (frame rs ++ tail) (h r (by simp)) hn, hm]
      simp

theorem items_frame_tail (rs : List Rec) (tail : Bytes) (h : ∀ r ∈ rs, plainRec r) (ht : noCont tail) :
    ∃ more, items (frame rs ++ tail) = rs.map .record ++ more := by
  unfold items
  exact itemsF_frame_tail rs _ tail h ht (by have := frame_length_ge rs; simp only [List.length_append]; omega)

theorem formulaCells_records_more : ∀ (rs : List Rec) (more : List Item), (∀ r ∈ rs, r.typ ≠ 0x000A) →
    formulaCells (rs.map .record ++ .record eofRec :: more) = fmlaPos rs
  | [], _, _ => by simp [formulaCells, fmlaPos, eofRec]
  | r :: rs, more, h => by
    have ih := formulaCells_records_more rs more (fun x hx => h x (by simp [hx]))
    have hr := h r (by simp)
    simp only [List.map_cons, List.cons_append, formulaCells, if_neg hr, ih]
    by_cases h6 : r.typ = 0x0006 <;> simp [fmlaPos, h6]

theorem scanCost_records_more : ∀ (rs : List Rec) (more : List Item), (∀ r ∈ rs, r.typ ≠ 0x000A) →
    scanCost (rs.map .record ++ .record eofRec :: more) = (rs.map recCost).sum + recCost eofRec
  | [], _, _ => by simp [scanCost, eofRec]
  | r :: rs, more, h => by
    have ih := scanCost_records_more rs more (fun x hx => h x (by simp [hx]))
    have hr := h r (by simp)
    simp only [List.map_cons, List.cons_append, scanCost, if_neg hr, ih, List.sum_cons]; omega

theorem frame_length_plain : ∀ (rs : List Rec), (∀ r ∈ rs, plainRec r) → (frame rs).length = (rs.map recCost).sum
  | [], _ => by simp [frame]
  | r :: rs, h => by
    rw [frame_cons, List.length_append, frame_length_plain rs (fun x hx => h x (by simp [hx])),
      frameRec_plain r (h r (by simp))]
    simp [recCost]; omega

/-- an encoded substream followed by other bytes (the next substream, padding): the loop stops at its EOF record, so
    cells, formula positions and the scanned byte count are those of the substream alone -/
theorem encoded_with_tail (env : Env) (ps : List PC) (hok : ∀ p ∈ ps, PCok env p) (tail : Bytes) (ht : noCont tail) :
    let sub := frame (bofRec :: (chunk ps).flatMap groupRecs ++ [eofRec])
    decodeSheet env (items (sub ++ tail)) = .ok (ps.map (pcCell env)) ∧
    formulaCells (items (sub ++ tail)) = (ps.filter isFmla).map pos3 ∧
    scanCost (items (sub ++ tail)) = sub.length := by
  intro sub
  have hgood := encode_good env ps hok
  have hplain : ∀ r ∈ bofRec :: (chunk ps).flatMap groupRecs ++ [eofRec], plainRec r := by
    intro r hr
    simp only [List.cons_append, List.mem_cons, List.mem_append, List.not_mem_nil, or_false] at hr
    rcases hr with rfl | hr | rfl
    · exact (ignorable_good _ bofRec_ignorable).1
    · exact (hgood r hr).1
    · exact ⟨by decide, by decide, by decide, rfl⟩
  have hne : ∀ r ∈ bofRec :: (chunk ps).flatMap groupRecs, r.typ ≠ 0x000A := by
    intro r hr
    simp only [List.mem_cons] at hr
    rcases hr with rfl | hr
    · decide
    · exact (hgood r hr).2
  obtain ⟨more, hm⟩ := items_frame_tail _ tail hplain ht
  have hm' : items (sub ++ tail) =
      (bofRec :: (chunk ps).flatMap groupRecs).map Item.record ++ Item.record eofRec :: more := by
    rw [hm]; simp
  refine ⟨?_, ?_, ?_⟩
  · obtain ⟨f, hf⟩ := runRecs_encode env ps ⟨[], (0, 0)⟩ hok
    have hrun : runRecs env (bofRec :: (chunk ps).flatMap groupRecs) ⟨[], (0, 0)⟩ = .ok ⟨ps.map (pcCell env), f⟩ := by
      simp only [runRecs, step_ignorable env _ bofRec bofRec_ignorable]
      simpa using hf
    unfold decodeSheet
    rw [hm', sheetLoop_records env _ _ _ _ hne hrun]
    simp [sheetLoop, eofRec]
  · rw [hm', formulaCells_records_more _ more hne]
    rw [show bofRec :: (chunk ps).flatMap groupRecs = [bofRec] ++ (chunk ps).flatMap groupRecs from rfl,
      fmlaPos_append, fmlaPos_encode env ps hok]
    simp [fmlaPos, bofRec]
  · rw [hm', scanCost_records_more _ more hne]
    show _ = (frame (bofRec :: (chunk ps).flatMap groupRecs ++ [eofRec])).length
    rw [frame_length_plain _ hplain]
    simp [List.sum_append]; omega

/-! ### the encoded workbook: the budget is never exhausted -/

/-- one sheet of an encoded workbook: where its substream starts, its logical cells, its layout -/
structure SheetAt where
  pos : Nat
  S : List LCell
  lays : List Lay

def SheetAt.bytes (env : Env) (sh : SheetAt) : Bytes := substream env sh.S sh.lays

/-- first failure, or all the successes -/
def collect {α : Type} : List (Res α) → Res (List α)
  | [] => .ok []
  | x :: xs =>
    match x with
    | .ok a =>
      (match collect xs with
       | .ok as => .ok (a :: as)
       | .err e => .err e
       | .panic m => .panic m
       | .outOfFuel => .outOfFuel)
    | .err e => .err e
    | .panic m => .panic m
    | .outOfFuel => .outOfFuel

/-- the plain per-sheet reading of an encoded substream does not see what follows it -/
theorem sheetRange_with_tail (env : Env) (sh : SheetAt) (hS : ∀ c ∈ sh.S, cellOk c) (tail : Bytes) (ht : noCont tail) :
    sheetRange env (sh.bytes env ++ tail) = sheetRange env (sh.bytes env) ∧
    scanCost (items (sh.bytes env ++ tail)) = (sh.bytes env).length := by
  have hok : ∀ p ∈ plan env sh.S sh.lays, PCok env p := by
    intro p hp
    obtain ⟨c, hc, l, _, e⟩ := plan_mem env sh.S sh.lays p hp
    rw [e]; exact planCell_ok env c l (hS c hc)
  obtain ⟨d1, f1, c1⟩ := encoded_with_tail env (plan env sh.S sh.lays) hok tail ht
  obtain ⟨d0, f0, _⟩ := encoded_with_tail env (plan env sh.S sh.lays) hok [] noCont_nil
  simp only [List.append_nil] at d0 f0
  refine ⟨?_, c1⟩
  show sheetRange env (frame (bofRec :: (chunk (plan env sh.S sh.lays)).flatMap groupRecs ++ [eofRec]) ++ tail) =
    sheetRange env (frame (bofRec :: (chunk (plan env sh.S sh.lays)).flatMap groupRecs ++ [eofRec]))
  simp only [sheetRange, d1, f1, d0, f0, withFormulaRange, rangeOf]

theorem sheetsFrom_encoded (env : Env) (stream : Bytes) : ∀ (sheets : List SheetAt) (n : Nat),
    (∀ sh ∈ sheets, ∀ c ∈ sh.S, cellOk c) →
    (∀ sh ∈ sheets, ∃ tail, stream.drop sh.pos = sh.bytes env ++ tail ∧ noCont tail) →
    n + (sheets.map (fun sh => (sh.bytes env).length)).sum ≤ stream.length →
    sheetsFrom env stream (sheets.map (·.pos)) n = collect (sheets.map (fun sh => sheetRange env (sh.bytes env)))
  | [], _, _, _, _ => rfl
  | sh :: rest, n, hS, hp, hsum => by
    obtain ⟨tail, hd, ht⟩ := hp sh (by simp)
    obtain ⟨e1, e2⟩ := sheetRange_with_tail env sh (hS sh (by simp)) tail ht
    have hpos : ¬ stream.length < sh.pos := by
      intro hlt
      have : stream.drop sh.pos = [] := List.drop_eq_nil_of_le (by omega)
      rw [this] at hd
      have : (sh.bytes env ++ tail).length = 0 := by rw [← hd]; rfl
      have h4 : 4 ≤ (sh.bytes env).length := by
        have := frame_length_ge (bofRec :: encodeSheet env sh.S sh.lays ++ [eofRec])
        simp only [SheetAt.bytes, substream]
        simp only [List.length_cons, List.length_append] at this; omega
      simp only [List.length_append] at this; omega
    simp only [List.map_cons, List.sum_cons] at hsum
    have hlen : (stream.drop sh.pos).length ≤ stream.length := by simp
    simp only [List.map_cons, sheetsFrom, if_neg hpos, collect]
    rw [sheetRangeS_eq env _ _ n (by simp only [scanLimit]; omega), hd, e1, e2]
    cases hr : sheetRange env (sh.bytes env) with
    | ok r =>
      simp only [withCount]
      rw [sheetsFrom_encoded env stream rest (n + (sh.bytes env).length) (fun x hx => hS x (by simp [hx]))
        (fun x hx => hp x (by simp [hx])) (by omega)]
      cases collect (rest.map (fun sh => sheetRange env (sh.bytes env))) <;> rfl
    | err e => simp [withCount]
    | panic e => simp [withCount]
    | outOfFuel => simp [withCount]

/-- substreams laid out one after the other, in any physical order, between any globals and any padding: together
    they are no longer than the stream -/
theorem layout_sum_le (env : Env) (stream pre trail : Bytes) (sheets phys : List SheetAt) (hperm : sheets.Perm phys)
    (hlay : stream = pre ++ ((phys.map (fun sh => sh.bytes env)).flatten ++ trail)) :
    (sheets.map (fun sh => (sh.bytes env).length)).sum ≤ stream.length := by
  have h1 : (sheets.map (fun sh => (sh.bytes env).length)).sum = (phys.map (fun sh => (sh.bytes env).length)).sum :=
    (hperm.map _).sum_nat
  rw [h1, hlay]
  simp only [List.length_append, List.length_flatten, List.map_map]
  have : (phys.map (List.length ∘ fun sh => sh.bytes env)) = phys.map (fun sh => (sh.bytes env).length) := rfl
  rw [this]; omega

end BiffCells
