import CalVerif.Model.Formats
import CalVerif.Spec.NumFmt
/-! Helper lemmas for C10 (`Props/C10.lean`): table lookups, and the scanner run over rendered tokens. -/
namespace Formats
open NumFmt

/-! ## table lookups -/

theorem lookupId_default (tbl : List (List UInt8 × CellFormat)) (d : CellFormat) (id : List UInt8)
    (h : ∀ row ∈ tbl, row.1.length < id.length) : lookupId tbl d id = d := by
  unfold lookupId
  have : tbl.find? (fun row => row.1 == id) = none := by
    rw [List.find?_eq_none]
    intro row hr hb
    have := h row hr
    have : row.1 = id := by simpa using hb
    simp_all
  rw [this]

theorem lookupCode_default (tbl : List (Nat × Nat × CellFormat)) (d : CellFormat) (n : Nat)
    (h : ∀ row ∈ tbl, row.2.1 < n) : lookupCode tbl d n = d := by
  unfold lookupCode
  have : tbl.find? (fun row => decide (row.1 ≤ n ∧ n ≤ row.2.1)) = none := by
    rw [List.find?_eq_none]
    intro row hr hb
    have := h row hr
    simp at hb
    omega
  rw [this]

end Formats
