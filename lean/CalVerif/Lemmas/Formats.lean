import CalVerif.Model.Formats
import CalVerif.Spec.NumFmt
/-! Helper lemmas for C10 (`Props/C10.lean`): table lookups, and the scanner run over rendered tokens. -/
namespace Formats
open NumFmt

/-! ## table lookups -/

theorem lookupId_default (tbl : List (List UInt8 × CellFormat)) (d : CellFormat) (id : List UInt8)
    (h : ∀ row ∈ tbl, row.1.length < id.length) : lookupId tbl d id = d := by
  unfold lookupId
  have : tbl.find? (fun row => row.1 == id) = none := by
    rw [List.find?_eq_none]
    intro row hr hb
    have := h row hr
    have : row.1 = id := by simpa using hb
    simp_all
  rw [this]

theorem lookupCode_default (tbl : List (Nat × Nat × CellFormat)) (d : CellFormat) (n : Nat)
    (h : ∀ row ∈ tbl, row.2.1 < n) : lookupCode tbl d n = d := by
  unfold lookupCode
  have : tbl.find? (fun row => decide (row.1 ≤ n ∧ n ≤ row.2.1)) = none := by
    rw [List.find?_eq_none]
    intro row hr hb
    have := h row hr
    simp at hb
    omega
  rw [this]

/-! ## the scanner loop over a prefix of the text -/

/-- where the scanner stands after the characters `l` (or how it left the loop inside `l`) -/
def run : St → List Char → Step
  | st, [] => .cont st
  | st, c :: cs =>
    match step st c with
    | .cont st' => run st' cs
    | r => r

def finish (k : St → Res CellFormat) : Step → Res CellFormat
  | .cont st => k st
  | .ret f => .ok f

theorem scan_nil (st : St) : scan st [] = .ok .other := rfl

theorem scan_cons (st : St) (c : Char) (cs : List Char) :
    scan st (c :: cs) = finish (fun st' => scan st' cs) (step st c) := by
  simp only [scan, scanWith, finish]
  cases step st c <;> rfl

theorem scan_append (st : St) (l t : List Char) :
    scan st (l ++ t) = finish (fun st' => scan st' t) (run st l) := by
  induction l generalizing st with
  | nil => rfl
  | cons c cs ih =>
    rw [List.cons_append, scan_cons, run]
    cases h : step st c with
    | cont st' => simp only [finish]; exact ih st'
    | ret f => rfl

theorem run_append (st : St) (l t : List Char) :
    run st (l ++ t) = match run st l with
      | .cont st' => run st' t
      | r => r := by
  induction l generalizing st with
  | nil => rfl
  | cons c cs ih =>
    rw [List.cons_append, run, run]
    cases h : step st c with
    | cont st' => exact ih st'
    | ret f => rfl

theorem run_append_cont {st st' : St} {l : List Char} (t : List Char) (h : run st l = .cont st') :
    run st (l ++ t) = run st' t := by rw [run_append, h]

theorem run_append_ret {st : St} {l : List Char} {f : CellFormat} (t : List Char) (h : run st l = .ret f) :
    run st (l ++ t) = .ret f := by rw [run_append, h]

theorem run_cons_cont {st st' : St} {c : Char} (cs : List Char) (h : step st c = .cont st') :
    run st (c :: cs) = run st' cs := by simp only [run, h]

theorem run_cons_ret {st : St} {c : Char} {f : CellFormat} (cs : List Char) (h : step st c = .ret f) :
    run st (c :: cs) = .ret f := by simp only [run, h]

/-- outside quoted text and not right after an escape character -/
def Out (st : St) : Prop := st.escaped = false ∧ st.isQuote = false

/-! ### quoted text, escapes -/

theorem step_open_quote (st : St) (h : Out st) :
    step st '"' = .cont { st with isQuote := true, prev := '"' } := by
  obtain ⟨h1, h2⟩ := h
  simp [step, stepTail, h1, h2, isEscChar]

theorem run_in_quote (st : St) (s : List Char) (he : st.escaped = false) (hq : st.isQuote = true)
    (hs : ∀ c ∈ s, c ≠ '"') : ∃ p, run st s = .cont { st with prev := p } := by
  induction s generalizing st with
  | nil => exact ⟨st.prev, rfl⟩
  | cons c cs ih =>
    have hc : c ≠ '"' := hs c (by simp)
    have h1 : step st c = .cont { st with prev := c } := by simp [step, he, hq, hc]
    rw [run_cons_cont cs h1]
    obtain ⟨p, hp⟩ := ih { st with prev := c } he hq (fun d hd => hs d (by simp [hd]))
    exact ⟨p, hp⟩

theorem step_close_quote (st : St) (he : st.escaped = false) (hq : st.isQuote = true) :
    step st '"' = .cont { st with isQuote := false, prev := '"' } := by
  simp [step, he, hq]

/-- quoted text only moves `prev` -/
theorem run_lit (st : St) (s : List Char) (h : Out st) (hs : ∀ c ∈ s, c ≠ '"') :
    run st ('"' :: (s ++ ['"'])) = .cont { st with prev := '"' } := by
  rw [run_cons_cont _ (step_open_quote st h)]
  obtain ⟨p, hp⟩ := run_in_quote { st with isQuote := true, prev := '"' } s h.1 rfl hs
  rw [run_append_cont _ hp, run_cons_cont _ (step_close_quote _ (by exact h.1) rfl)]
  simp [run, h.2.symm]

/-- an escape character and the character after it only move `prev` -/
theorem run_esc (st : St) (e c : Char) (h : Out st) (he : isEscChar e = true) :
    run st [e, c] = .cont { st with prev := c } := by
  have h1 : step st e = .cont { st with escaped := true, prev := e } := by
    have : e ≠ '"' := by intro h; subst h; simp [isEscChar] at he
    simp [step, h.1, h.2, he, this]
  rw [run_cons_cont _ h1]
  have h2 : step { st with escaped := true, prev := e } c = .cont { st with escaped := false, prev := c } := by
    simp [step]
  rw [run_cons_cont _ h2]
  simp [run, h.1.symm]

/-! ### the idle state inside a section, plain characters -/

/-- not escaped, not in quotes, no open bracket, no pending elapsed-unit flag -/
structure Quiet (st : St) : Prop where
  esc : st.escaped = false
  quo : st.isQuote = false
  brk : st.brackets = 0
  hms : st.hms = false

theorem Quiet.out {st : St} (h : Quiet st) : Out st := ⟨h.esc, h.quo⟩

theorem Quiet.setPrev {st : St} (h : Quiet st) (p : Char) : Quiet { st with prev := p } :=
  ⟨h.esc, h.quo, h.brk, h.hms⟩

theorem quiet_init : Quiet St.init := ⟨rfl, rfl, rfl, rfl⟩

/-- characters no arm reacts to while `ap = false`, `brackets = 0` -/
def isPlain (c : Char) : Bool :=
  !(c == '"' || c == ';' || c == '[' || c == ']' || isEscChar c || isAChar c || isDateChar c)

theorem step_plain (st : St) (hq : Quiet st) (hap : st.ap = false) (c : Char) (hc : isPlain c = true) :
    step st c = .cont { st with prev := c } := by
  obtain ⟨h1, h2, h3, h4⟩ := hq
  simp only [isPlain, isEscChar, isAChar, isDateChar, Bool.not_eq_true', Bool.or_eq_false_iff, beq_eq_false_iff_ne] at hc
  obtain ⟨⟨⟨⟨⟨⟨c1, c2⟩, c3⟩, c4⟩, c5, c6⟩, c7, c8⟩, ⟨⟨⟨⟨⟨⟨⟨⟨⟨d1, d2⟩, d3⟩, d4⟩, d5⟩, d6⟩, d7⟩, d8⟩, d9⟩, d10⟩⟩ := hc
  simp [step, stepTail, isEscChar, isAChar, isDateChar, isPmChar, isHmsChar, *]

/-- in the idle state with `ap = false` the remembered previous character is irrelevant -/
theorem scan_prev_irrelevant (st : St) (hq : Quiet st) (hap : st.ap = false) (p : Char) (l : List Char) :
    scan { st with prev := p } l = scan st l := by
  cases l with
  | nil => rfl
  | cons c cs =>
    rw [scan_cons, scan_cons]
    congr 1
    obtain ⟨h1, h2, h3, h4⟩ := hq
    simp only [step, stepTail, h1, h2, h3, h4, hap]
    by_cases hd : isDateChar c = true
    · simp [hd]
    · have hh : isHmsChar c = false := by
        simp only [isDateChar, isHmsChar, Bool.or_eq_true, beq_iff_eq, not_or] at hd ⊢
        simp [hd]
      simp [hd, hh]

/-! ### bracketed prefixes -/

/-- characters that may stand inside `[ ]` -/
def isBodyChar (c : Char) : Bool := !(c == '[' || c == ']' || c == ';' || c == '"' || isEscChar c)

/-- the `hms` flag after the characters of a bracket body, from flag `h` and previous character `p` -/
def bodyHms (h : Bool) (p : Char) : List Char → Bool
  | [] => h
  | c :: cs => bodyHms (if h = true ∧ eqIgnoreAsciiCase c p = true then h else (p == '[' && isHmsChar c)) c cs

theorem step_body (st : St) (ho : Out st) (hb : st.brackets = 1) (c : Char) (hc : isBodyChar c = true) :
    step st c = .cont { st with
      hms := if st.hms = true ∧ eqIgnoreAsciiCase c st.prev = true then st.hms else (st.prev == '[' && isHmsChar c)
      prev := c } := by
  obtain ⟨h1, h2⟩ := ho
  simp only [isBodyChar, isEscChar, Bool.not_eq_true', Bool.or_eq_false_iff, beq_eq_false_iff_ne] at hc
  obtain ⟨⟨⟨⟨c1, c2⟩, c3⟩, c4⟩, c5, c6⟩ := hc
  simp [step, stepTail, isEscChar, *]

theorem run_body (st : St) (body : List Char) (ho : Out st) (hb : st.brackets = 1)
    (hc : ∀ c ∈ body, isBodyChar c = true) :
    ∃ p, run st body = .cont { st with hms := bodyHms st.hms st.prev body, prev := p } := by
  induction body generalizing st with
  | nil => exact ⟨st.prev, rfl⟩
  | cons c cs ih =>
    rw [run_cons_cont cs (step_body st ho hb c (hc c (by simp)))]
    generalize hst' : ({ st with
      hms := if st.hms = true ∧ eqIgnoreAsciiCase c st.prev = true then st.hms else (st.prev == '[' && isHmsChar c)
      prev := c } : St) = st'
    have ho' : Out st' := by subst hst'; exact ho
    have hb' : st'.brackets = 1 := by subst hst'; exact hb
    obtain ⟨p, hp⟩ := ih st' ho' hb' (fun d hd => hc d (by simp [hd]))
    refine ⟨p, ?_⟩
    rw [hp]
    subst hst'
    rfl

/-! ### `eq_ignore_ascii_case` against the letters h, m, s -/

theorem asciiLower_eq_iff (d x : Char) (hx : ¬(65 ≤ x.toNat ∧ x.toNat ≤ 90)) :
    asciiLower d = x ↔ d = x ∨ (65 ≤ d.toNat ∧ d.toNat ≤ 90 ∧ Char.ofNat (d.toNat + 32) = x) := by
  constructor
  · intro h
    unfold asciiLower at h
    split at h
    · rename_i hb; exact Or.inr ⟨hb.1, hb.2, h⟩
    · exact Or.inl h
  · rintro (rfl | ⟨h1, h2, h3⟩)
    · unfold asciiLower; rw [if_neg hx]
    · unfold asciiLower; rw [if_pos ⟨h1, h2⟩]; exact h3

/-- the pairs (lower, upper) the scanner's elapsed-unit test can see -/
def hmsPairs : List (Char × Char) := [('h', 'H'), ('m', 'M'), ('s', 'S')]

theorem upper_unique : ∀ pr ∈ hmsPairs, ∀ n, n < 91 → 65 ≤ n → Char.ofNat (n + 32) = pr.1 → n = pr.2.toNat := by
  decide

theorem eqIgnoreAsciiCase_pair (lo up : Char) (hp : (lo, up) ∈ hmsPairs) (p d : Char) (hpp : p = lo ∨ p = up) :
    eqIgnoreAsciiCase d p = (d == lo || d == up) := by
  have hlow : asciiLower p = lo := by
    simp only [hmsPairs, List.mem_cons, Prod.mk.injEq, List.mem_nil_iff, or_false] at hp
    rcases hp with ⟨rfl, rfl⟩ | ⟨rfl, rfl⟩ | ⟨rfl, rfl⟩ <;> rcases hpp with rfl | rfl <;> decide
  have hlo : ¬(65 ≤ lo.toNat ∧ lo.toNat ≤ 90) := by
    simp only [hmsPairs, List.mem_cons, Prod.mk.injEq, List.mem_nil_iff, or_false] at hp
    rcases hp with ⟨rfl, rfl⟩ | ⟨rfl, rfl⟩ | ⟨rfl, rfl⟩ <;> decide
  unfold eqIgnoreAsciiCase
  rw [hlow]
  have key : asciiLower d = lo ↔ (d = lo ∨ d = up) := by
    rw [asciiLower_eq_iff d lo hlo]
    constructor
    · rintro (h | ⟨h1, h2, h3⟩)
      · exact Or.inl h
      · right
        have := upper_unique (lo, up) hp d.toNat (by omega) h1 h3
        exact Char.toNat_inj.mp this
    · rintro (h | h)
      · exact Or.inl h
      · right
        subst h
        simp only [hmsPairs, List.mem_cons, Prod.mk.injEq, List.mem_nil_iff, or_false] at hp
        rcases hp with ⟨rfl, rfl⟩ | ⟨rfl, rfl⟩ | ⟨rfl, rfl⟩ <;> decide
  by_cases h : asciiLower d = lo
  · have h1 : (d == lo || d == up) = true := by rcases key.mp h with h' | h' <;> simp [h']
    rw [h1]
    exact beq_iff_eq.mpr h
  · have h1 : d ≠ lo := fun e => h (key.mpr (Or.inl e))
    have h2 : d ≠ up := fun e => h (key.mpr (Or.inr e))
    rw [beq_eq_false_iff_ne.mpr h, beq_eq_false_iff_ne.mpr h1, beq_eq_false_iff_ne.mpr h2]
    rfl

theorem bodyHms_false (p : Char) (cs : List Char) (hp : p ≠ '[') (hc : ∀ c ∈ cs, isBodyChar c = true) :
    bodyHms false p cs = false := by
  induction cs generalizing p with
  | nil => rfl
  | cons c cs ih =>
    have hcb : c ≠ '[' := by
      have := hc c (by simp)
      simp only [isBodyChar, Bool.not_eq_true', Bool.or_eq_false_iff, beq_eq_false_iff_ne] at this
      exact this.1.1.1.1
    have : (p == '[') = false := by simp [hp]
    simp only [bodyHms, this, Bool.false_and]
    simpa using ih c hcb (fun d hd => hc d (by simp [hd]))

theorem bodyHms_true (lo up : Char) (hp : (lo, up) ∈ hmsPairs) (p : Char) (hpp : p = lo ∨ p = up) (cs : List Char)
    (hc : ∀ c ∈ cs, isBodyChar c = true) :
    bodyHms true p cs = cs.all (fun d => d == lo || d == up) := by
  induction cs generalizing p with
  | nil => rfl
  | cons c cs ih =>
    have hpb : p ≠ '[' := by
      simp only [hmsPairs, List.mem_cons, Prod.mk.injEq, List.mem_nil_iff, or_false] at hp
      rcases hp with ⟨rfl, rfl⟩ | ⟨rfl, rfl⟩ | ⟨rfl, rfl⟩ <;> rcases hpp with rfl | rfl <;> decide
    have hcb : c ≠ '[' := by
      have := hc c (by simp)
      simp only [isBodyChar, Bool.not_eq_true', Bool.or_eq_false_iff, beq_eq_false_iff_ne] at this
      exact this.1.1.1.1
    simp only [bodyHms, List.all_cons, eqIgnoreAsciiCase_pair lo up hp p c hpp, true_and]
    by_cases h : (c == lo || c == up) = true
    · have hcc : c = lo ∨ c = up := by simpa using h
      rw [if_pos h, h, Bool.true_and]
      exact ih c hcc (fun d hd => hc d (by simp [hd]))
    · have hpf : (p == '[') = false := by simp [hpb]
      have hf : (c == lo || c == up) = false := by simpa using h
      rw [if_neg h, hf, Bool.false_and, hpf, Bool.false_and]
      exact bodyHms_false c cs hcb (fun d hd => hc d (by simp [hd]))

theorem bodyHms_first (lo up : Char) (hp : (lo, up) ∈ hmsPairs) (c : Char) (hcc : c = lo ∨ c = up) (cs : List Char)
    (hc : ∀ d ∈ cs, isBodyChar d = true) :
    bodyHms (isHmsChar c) c cs = cs.all (fun d => d == lo || d == up) := by
  have : isHmsChar c = true := by
    simp only [hmsPairs, List.mem_cons, Prod.mk.injEq, List.mem_nil_iff, or_false] at hp
    rcases hp with ⟨rfl, rfl⟩ | ⟨rfl, rfl⟩ | ⟨rfl, rfl⟩ <;> rcases hcc with rfl | rfl <;> decide
  rw [this]
  exact bodyHms_true lo up hp c hcc cs hc

/-- the flag the scanner holds at the closing bracket is the grammar's "this body is an elapsed-time unit" -/
theorem bodyHms_eq_isElapsedBody (body : List Char) (hc : ∀ c ∈ body, isBodyChar c = true) :
    bodyHms false '[' body = isElapsedBody body := by
  cases body with
  | nil => rfl
  | cons c cs =>
    have hcs : ∀ d ∈ cs, isBodyChar d = true := fun d hd => hc d (by simp [hd])
    have hcb : c ≠ '[' := by
      have := hc c (by simp)
      simp only [isBodyChar, Bool.not_eq_true', Bool.or_eq_false_iff, beq_eq_false_iff_ne] at this
      exact this.1.1.1.1
    have h0 : bodyHms false '[' (c :: cs) = bodyHms (isHmsChar c) c cs := by simp [bodyHms]
    rw [h0]
    simp only [isElapsedBody, runOf, List.isEmpty_cons, Bool.not_false, Bool.true_and, List.all_cons]
    by_cases hh : c = 'h' ∨ c = 'H'
    · rw [bodyHms_first 'h' 'H' (by simp [hmsPairs]) c hh cs hcs]
      rcases hh with rfl | rfl <;> simp
    · by_cases hm : c = 'm' ∨ c = 'M'
      · rw [bodyHms_first 'm' 'M' (by simp [hmsPairs]) c hm cs hcs]
        rcases hm with rfl | rfl <;> simp
      · by_cases hs : c = 's' ∨ c = 'S'
        · rw [bodyHms_first 's' 'S' (by simp [hmsPairs]) c hs cs hcs]
          rcases hs with rfl | rfl <;> simp
        · have hf : isHmsChar c = false := by
            simp only [not_or] at hh hm hs
            simp [isHmsChar, hh, hm, hs]
          rw [hf, bodyHms_false c cs hcb hcs]
          simp only [not_or] at hh hm hs
          simp [hh, hm, hs]

/-! ### one token at a time -/

theorem step_open_bracket (st : St) (hq : Quiet st) :
    step st '[' = .cont { st with brackets := 1, prev := '[' } := by
  obtain ⟨h1, h2, h3, h4⟩ := hq
  simp [step, stepTail, isEscChar, *]

theorem step_close_bracket (st : St) (ho : Out st) (hb : st.brackets = 1) :
    step st ']' = if st.hms = true then .ret .timeDelta else .cont { st with brackets := 0, prev := ']' } := by
  obtain ⟨h1, h2⟩ := ho
  by_cases hh : st.hms = true <;> simp [step, stepTail, isEscChar, *]

/-- `[body]` either is an elapsed-time unit (the scanner returns TimeDelta at the `]`) or only moves `prev` -/
theorem run_bracket (st : St) (hq : Quiet st) (body : List Char) (hc : ∀ c ∈ body, isBodyChar c = true) :
    run st ('[' :: (body ++ [']'])) =
      if isElapsedBody body = true then .ret .timeDelta else .cont { st with prev := ']' } := by
  rw [run_cons_cont _ (step_open_bracket st hq)]
  generalize hst1 : ({ st with brackets := 1, prev := '[' } : St) = st1
  have ho1 : Out st1 := by subst hst1; exact hq.out
  have hb1 : st1.brackets = 1 := by subst hst1; rfl
  obtain ⟨p, hp⟩ := run_body st1 body ho1 hb1 hc
  rw [run_append_cont _ hp]
  have hflag : bodyHms st1.hms st1.prev body = isElapsedBody body := by
    subst hst1
    simp only [hq.hms]
    exact bodyHms_eq_isElapsedBody body hc
  rw [hflag]
  generalize hst2 : ({ st1 with hms := isElapsedBody body, prev := p } : St) = st2
  have ho2 : Out st2 := by subst hst2; exact ho1
  have hb2 : st2.brackets = 1 := by subst hst2; exact hb1
  have hh2 : st2.hms = isElapsedBody body := by subst hst2; rfl
  simp only [run, step_close_bracket st2 ho2 hb2, hh2]
  by_cases he : isElapsedBody body = true
  · simp [he]
  · have he' : isElapsedBody body = false := by simpa using he
    simp only [he', Bool.false_eq_true, if_false]
    subst hst2 hst1
    simp [hq.hms, hq.brk]

theorem isBodyChar_of_not_structural (c : Char) (h : isStructural c = false) : isBodyChar c = true := by
  simp only [isStructural, Bool.or_eq_false_iff, beq_eq_false_iff_ne] at h
  obtain ⟨⟨⟨⟨⟨c1, c2⟩, c3⟩, c4⟩, c5⟩, c6⟩ := h
  simp [isBodyChar, isEscChar, *]

theorem mem_of_runOf (lo up : Char) (s : List Char) (h : runOf lo up s = true) : ∀ c ∈ s, c = lo ∨ c = up := by
  simp only [runOf, Bool.and_eq_true, List.all_eq_true, Bool.or_eq_true, beq_iff_eq] at h
  exact h.2

theorem isBodyChar_of_elapsed (body : List Char) (h : isElapsedBody body = true) : ∀ c ∈ body, isBodyChar c = true := by
  intro c hc
  simp only [isElapsedBody, Bool.or_eq_true] at h
  rcases h with (h | h) | h <;> rcases mem_of_runOf _ _ _ h c hc with rfl | rfl <;> decide

theorem step_date (st : St) (hq : Quiet st) (hap : st.ap = false) (c : Char) (hc : isDateChar c = true) :
    step st c = .ret .dateTime := by
  obtain ⟨h1, h2, h3, h4⟩ := hq
  simp only [isDateChar, Bool.or_eq_true, beq_iff_eq] at hc
  rcases hc with ((((((((rfl | rfl) | rfl) | rfl) | rfl) | rfl) | rfl) | rfl) | rfl) | rfl <;>
    simp [step, stepTail, isEscChar, isAChar, isPmChar, isDateChar, *]

theorem step_a (st : St) (hq : Quiet st) (hap : st.ap = false) (c : Char) (hc : isAChar c = true) :
    step st c = .cont { st with ap := true, prev := c } := by
  obtain ⟨h1, h2, h3, h4⟩ := hq
  simp only [isAChar, Bool.or_eq_true, beq_iff_eq] at hc
  rcases hc with rfl | rfl <;> simp [step, stepTail, isEscChar, isAChar, *]

theorem step_pm (st : St) (hq : Quiet st) (hap : st.ap = true) (c : Char)
    (hc : c = 'm' ∨ c = 'M' ∨ c = '/') : step st c = .ret .dateTime := by
  obtain ⟨h1, h2, h3, h4⟩ := hq
  rcases hc with rfl | rfl | rfl <;> simp [step, stepTail, isEscChar, isAChar, isPmChar, *]

theorem head_of_runOf (lo up : Char) (s : List Char) (h : runOf lo up s = true) :
    ∃ c cs, s = c :: cs ∧ (c = lo ∨ c = up) := by
  cases s with
  | nil => simp [runOf] at h
  | cons c cs => exact ⟨c, cs, rfl, mem_of_runOf lo up _ h c (by simp)⟩

/-- a date token makes the scanner return DateTime, whatever follows -/
theorem run_dateTok (st : St) (hq : Quiet st) (hap : st.ap = false) (s : List Char)
    (h : (isDateRun s || isAmPm s) = true) (t : List Char) : run st (s ++ t) = .ret .dateTime := by
  rw [Bool.or_eq_true] at h
  rcases h with h | h
  · simp only [isDateRun, Bool.or_eq_true] at h
    have : ∃ c cs, s = c :: cs ∧ isDateChar c = true := by
      rcases h with (((h | h) | h) | h) | h <;> obtain ⟨c, cs, rfl, hc⟩ := head_of_runOf _ _ _ h <;>
        exact ⟨c, cs, rfl, by rcases hc with rfl | rfl <;> decide⟩
    obtain ⟨c, cs, rfl, hc⟩ := this
    exact run_cons_ret _ (step_date st hq hap c hc)
  · have : ∃ a x r, s = a :: x :: r ∧ isAChar a = true ∧ (x = 'm' ∨ x = 'M' ∨ x = '/') := by
      unfold isAmPm at h
      split at h
      · rename_i a m sl p m'
        simp only [Bool.and_eq_true, Bool.or_eq_true, beq_iff_eq] at h
        exact ⟨a, m, _, rfl, by simp [isAChar, h.1.1.1.1], by rcases h.1.1.1.2 with h | h <;> simp [h]⟩
      · rename_i a sl p
        simp only [Bool.and_eq_true, Bool.or_eq_true, beq_iff_eq] at h
        exact ⟨a, sl, _, rfl, by simp [isAChar, h.1.1], by simp [h.1.2]⟩
      · exact absurd h (by simp)
    obtain ⟨a, x, r, rfl, ha, hx⟩ := this
    rw [List.cons_append, run_cons_cont _ (step_a st hq hap a ha), List.cons_append]
    have hq' : Quiet { st with ap := true, prev := a } := ⟨hq.esc, hq.quo, hq.brk, hq.hms⟩
    exact run_cons_ret _ (step_pm { st with ap := true, prev := a } hq' rfl x hx)

theorem isPlain_of_nonAscii (c : Char) (h : 128 ≤ c.toNat) : isPlain c = true := by
  have ne : ∀ k : Char, k.toNat < 128 → (c == k) = false := by
    intro k hk
    rw [beq_eq_false_iff_ne]
    intro e; subst e; omega
  simp only [isPlain, isEscChar, isAChar, isDateChar]
  rw [ne '"' (by decide), ne ';' (by decide), ne '[' (by decide), ne ']' (by decide), ne '_' (by decide),
      ne '\\' (by decide), ne 'a' (by decide), ne 'A' (by decide), ne 'd' (by decide), ne 'm' (by decide),
      ne 'h' (by decide), ne 'y' (by decide), ne 's' (by decide), ne 'D' (by decide), ne 'M' (by decide),
      ne 'H' (by decide), ne 'Y' (by decide), ne 'S' (by decide)]
  rfl

theorem isPlain_of_isNumChar (c : Char) (h : isNumChar c = true) : isPlain c = true := by
  have hall : ∀ d ∈ numChars, isPlain d = true := by decide
  simp only [isNumChar, Bool.or_eq_true, decide_eq_true_eq] at h
  rcases h with h | h
  · exact hall c (by simpa using h)
  · exact isPlain_of_nonAscii c h

theorem run_plain (st : St) (hq : Quiet st) (hap : st.ap = false) (c : Char) (hc : isPlain c = true) :
    run st [c] = .cont { st with prev := c } := by
  rw [run_cons_cont _ (step_plain st hq hap c hc)]; rfl

/-- tokens that carry no date meaning -/
def isNeutralTok : Tok → Bool
  | .lit _ | .esc _ | .pad _ | .fill _ | .brk _ | .num _ => true
  | _ => false

theorem run_neutral_tok (st : St) (hq : Quiet st) (hap : st.ap = false) (t : Tok) (hwf : wfTok t = true)
    (hn : isNeutralTok t = true) : ∃ p, run st (renderTok t) = .cont { st with prev := p } := by
  cases t with
  | lit s =>
    refine ⟨'"', run_lit st s hq.out ?_⟩
    intro c hc hcq
    subst hcq
    simp [wfTok, hc] at hwf
  | esc c => exact ⟨c, run_esc st '\\' c hq.out (by decide)⟩
  | pad c => exact ⟨c, run_esc st '_' c hq.out (by decide)⟩
  | fill c =>
    refine ⟨c, ?_⟩
    have h1 := run_plain st hq hap '*' (by decide)
    have : renderTok (.fill c) = ['*'] ++ [c] := rfl
    rw [this, run_append_cont _ h1, run_plain _ (hq.setPrev '*') hap c (isPlain_of_isNumChar c hwf)]
  | brk b =>
    refine ⟨']', ?_⟩
    simp only [wfTok, Bool.and_eq_true, List.all_eq_true, Bool.not_eq_true'] at hwf
    have hb : ∀ c ∈ b, isBodyChar c = true := fun c hc => isBodyChar_of_not_structural c (hwf.1 c hc)
    have := run_bracket st hq b hb
    rw [hwf.2] at this
    simpa [renderTok] using this
  | num c => exact ⟨c, run_plain st hq hap c (isPlain_of_isNumChar c hwf)⟩
  | elapsed _ => simp [isNeutralTok] at hn
  | dateTok _ => simp [isNeutralTok] at hn
  | general _ => simp [isNeutralTok] at hn

/-- a well-formed neutral token is invisible to the scanner: removing it does not change the result -/
theorem scan_neutral_tok (st : St) (hq : Quiet st) (hap : st.ap = false) (t : Tok) (hwf : wfTok t = true)
    (hn : isNeutralTok t = true) (post : List Char) : scan st (renderTok t ++ post) = scan st post := by
  obtain ⟨p, hp⟩ := run_neutral_tok st hq hap t hwf hn
  rw [scan_append, hp]
  exact scan_prev_irrelevant st hq hap p post

/-! ### the keyword `General`, literal text after it -/

theorem step_after_a (st : St) (hq : Quiet st) (hap : st.ap = true) (hp : st.prev ≠ '[') (c : Char)
    (hc : c = 'l' ∨ c = 'L') : step st c = .cont { st with prev := c } := by
  obtain ⟨h1, h2, h3, h4⟩ := hq
  rcases hc with rfl | rfl <;>
    simp [step, stepTail, isEscChar, isAChar, isPmChar, isDateChar, isHmsChar, *] <;>
    (cases st; simp_all)

/-- the keyword switches the scanner into its AM/PM mode (through the letter `a`) and does nothing else -/
theorem run_general (st : St) (hq : Quiet st) (hap : st.ap = false) (s : List Char) (hs : isGeneralWord s = true) :
    ∃ p, run st s = .cont { st with ap := true, prev := p } := by
  unfold isGeneralWord at hs
  split at hs
  · rename_i g e n e' r a l
    simp only [Bool.and_eq_true, Bool.or_eq_true, beq_iff_eq] at hs
    obtain ⟨⟨⟨⟨⟨⟨hg, he⟩, hn⟩, he'⟩, hr⟩, ha⟩, hl⟩ := hs
    have pg : isPlain g = true := by rcases hg with rfl | rfl <;> decide
    have pe : isPlain e = true := by rcases he with rfl | rfl <;> decide
    have pn : isPlain n = true := by rcases hn with rfl | rfl <;> decide
    have pe' : isPlain e' = true := by rcases he' with rfl | rfl <;> decide
    have pr : isPlain r = true := by rcases hr with rfl | rfl <;> decide
    have aa : isAChar a = true := by rcases ha with rfl | rfl <;> decide
    have hab : a ≠ '[' := by rcases ha with rfl | rfl <;> decide
    refine ⟨l, ?_⟩
    rw [run_cons_cont _ (step_plain st hq hap g pg),
        run_cons_cont _ (step_plain _ (hq.setPrev g) hap e pe),
        run_cons_cont _ (step_plain _ (hq.setPrev e) hap n pn),
        run_cons_cont _ (step_plain _ (hq.setPrev n) hap e' pe'),
        run_cons_cont _ (step_plain _ (hq.setPrev e') hap r pr),
        run_cons_cont _ (step_a _ (hq.setPrev r) hap a aa)]
    have hq' : Quiet { st with ap := true, prev := a } := ⟨hq.esc, hq.quo, hq.brk, hq.hms⟩
    rw [run_cons_cont _ (step_after_a { st with ap := true, prev := a } hq' rfl hab l hl)]
    rfl
  · exact absurd hs (by simp)

/-- literal text (quoted, escaped, padding) never leaves the loop and keeps every flag -/
theorem run_text_toks (st : St) (ho : Out st) (ts : List Tok) (hwf : ∀ t ∈ ts, wfTok t = true)
    (ht : ∀ t ∈ ts, isTextTok t = true) : ∃ p, run st (renderSection ts) = .cont { st with prev := p } := by
  induction ts generalizing st with
  | nil => exact ⟨st.prev, rfl⟩
  | cons t ts ih =>
    have h1 : ∃ p, run st (renderTok t) = .cont { st with prev := p } := by
      have hw := hwf t (by simp)
      have hk := ht t (by simp)
      cases t with
      | lit s =>
        refine ⟨'"', run_lit st s ho ?_⟩
        intro c hc hcq
        subst hcq
        simp [wfTok, hc] at hw
      | esc c => exact ⟨c, run_esc st '\\' c ho (by decide)⟩
      | pad c => exact ⟨c, run_esc st '_' c ho (by decide)⟩
      | fill _ => simp [isTextTok] at hk
      | brk _ => simp [isTextTok] at hk
      | elapsed _ => simp [isTextTok] at hk
      | dateTok _ => simp [isTextTok] at hk
      | num _ => simp [isTextTok] at hk
      | general _ => simp [isTextTok] at hk
    obtain ⟨p, hp⟩ := h1
    have ho' : Out { st with prev := p } := ho
    obtain ⟨p', hp'⟩ := ih { st with prev := p } ho' (fun t ht' => hwf t (by simp [ht'])) (fun t ht' => ht t (by simp [ht']))
    exact ⟨p', by rw [renderSection, run_append_cont _ hp, hp']⟩

/-! ### a whole section -/

/-- what may follow the first section: the end of the text, or `;` and anything at all -/
def Stops (post : List Char) : Prop := post = [] ∨ ∃ r, post = ';' :: r

theorem scan_stops (st : St) (ho : Out st) (post : List Char) (hs : Stops post) : scan st post = .ok .other := by
  rcases hs with rfl | ⟨r, rfl⟩
  · rfl
  · obtain ⟨h1, h2⟩ := ho
    rw [scan_cons]
    simp [step, stepTail, isEscChar, finish, *]

theorem classify_text_toks (ts : List Tok) (ht : ∀ t ∈ ts, isTextTok t = true) : classifySection ts = .other := by
  induction ts with
  | nil => rfl
  | cons t ts ih =>
    have hk := ht t (by simp)
    have := ih (fun t ht' => ht t (by simp [ht']))
    cases t <;> simp [isTextTok] at hk <;> simpa [classifySection] using this

/-- a section without the keyword: neutral tokens are skipped, the first date / elapsed token decides -/
theorem scan_plain_section (ts : List Tok) (hwf : ∀ t ∈ ts, wfTok t = true) (hng : ∀ t ∈ ts, isGeneral t = false)
    (st : St) (hq : Quiet st) (hap : st.ap = false) (post : List Char) :
    scan st (renderSection ts ++ post) =
      match classifySection ts with
      | .other => scan st post
      | f => .ok f := by
  induction ts with
  | nil => rfl
  | cons t ts ih =>
    have hw := hwf t (by simp)
    have hg := hng t (by simp)
    have ih' := ih (fun t ht' => hwf t (by simp [ht'])) (fun t ht' => hng t (by simp [ht']))
    rw [renderSection, List.append_assoc]
    cases t with
    | dateTok s =>
      have := run_dateTok st hq hap s hw []
      rw [List.append_nil] at this
      rw [scan_append, show renderTok (.dateTok s) = s from rfl, this]
      rfl
    | elapsed b =>
      have hb := isBodyChar_of_elapsed b hw
      have := run_bracket st hq b hb
      rw [show isElapsedBody b = true from hw, if_pos rfl] at this
      rw [scan_append, show renderTok (.elapsed b) = '[' :: (b ++ [']']) from rfl, this]
      rfl
    | general _ => simp [isGeneral] at hg
    | lit s => rw [scan_neutral_tok st hq hap _ hw rfl]; exact ih'
    | esc c => rw [scan_neutral_tok st hq hap _ hw rfl]; exact ih'
    | pad c => rw [scan_neutral_tok st hq hap _ hw rfl]; exact ih'
    | fill c => rw [scan_neutral_tok st hq hap _ hw rfl]; exact ih'
    | brk b => rw [scan_neutral_tok st hq hap _ hw rfl]; exact ih'
    | num c => rw [scan_neutral_tok st hq hap _ hw rfl]; exact ih'

/-- a section using the keyword `General` is never a date format -/
theorem scan_general_section (ts : List Tok) (hwf : ∀ t ∈ ts, wfTok t = true) (hshape : generalShape ts = true)
    (st : St) (hq : Quiet st) (hap : st.ap = false) (post : List Char) (hs : Stops post) :
    scan st (renderSection ts ++ post) = .ok .other ∧ classifySection ts = .other := by
  induction ts with
  | nil => simp [generalShape] at hshape
  | cons t ts ih =>
    have hw := hwf t (by simp)
    rw [renderSection, List.append_assoc]
    cases t with
    | brk b =>
      rw [scan_neutral_tok st hq hap _ hw rfl]
      exact ih (fun t ht' => hwf t (by simp [ht'])) (by simpa [generalShape] using hshape)
    | general s =>
      have htext : ∀ t ∈ ts, isTextTok t = true := by simpa [generalShape, List.all_eq_true] using hshape
      obtain ⟨p, hp⟩ := run_general st hq hap s hw
      rw [scan_append, show renderTok (.general s) = s from rfl, hp]
      simp only [finish]
      have ho' : Out { st with ap := true, prev := p } := hq.out
      obtain ⟨p', hp'⟩ := run_text_toks _ ho' ts (fun t ht' => hwf t (by simp [ht'])) htext
      rw [scan_append, hp']
      simp only [finish]
      refine ⟨scan_stops _ (by exact ho') post hs, ?_⟩
      simpa [classifySection] using classify_text_toks ts htext
    | lit _ => simp [generalShape] at hshape
    | esc _ => simp [generalShape] at hshape
    | pad _ => simp [generalShape] at hshape
    | fill _ => simp [generalShape] at hshape
    | elapsed _ => simp [generalShape] at hshape
    | dateTok _ => simp [generalShape] at hshape
    | num _ => simp [generalShape] at hshape

/-- the scanner on a well-formed first section followed by the end of the text or by `;` and anything -/
theorem scan_wf_section (ts : List Tok) (hwf : wfSection ts = true) (post : List Char) (hs : Stops post) :
    scan St.init (renderSection ts ++ post) = .ok (classifySection ts) := by
  simp only [wfSection, Bool.and_eq_true, List.all_eq_true] at hwf
  obtain ⟨hw, hshape⟩ := hwf
  by_cases hg : ts.any isGeneral = true
  · rw [if_pos hg] at hshape
    obtain ⟨h1, h2⟩ := scan_general_section ts hw hshape St.init quiet_init rfl post hs
    rw [h1, h2]
  · have hng : ∀ t ∈ ts, isGeneral t = false := by
      intro t ht
      cases h : isGeneral t with
      | false => rfl
      | true => exact absurd (List.any_eq_true.mpr ⟨t, ht, h⟩) hg
    rw [scan_plain_section ts hw hng St.init quiet_init rfl post]
    cases h : classifySection ts with
    | other => exact scan_stops St.init quiet_init.out post hs
    | dateTime => rfl
    | timeDelta => rfl

/-! ### the loop never panics: no arm can (the bracket counter is a `usize`, see `St.brackets`) -/

theorem scan_no_panic (st : St) (l : List Char) (msg : String) : scan st l ≠ .panic msg := by
  induction l generalizing st with
  | nil => simp [scan, scanWith]
  | cons c cs ih =>
    rw [scan_cons]
    cases hs : step st c with
    | cont st' => simp only [finish]; exact ih st'
    | ret f => simp [finish]

theorem scan_total (st : St) (l : List Char) : ∃ c, scan st l = .ok c := by
  induction l generalizing st with
  | nil => exact ⟨.other, rfl⟩
  | cons c cs ih =>
    rw [scan_cons]
    cases hs : step st c with
    | cont st' => simp only [finish]; exact ih st'
    | ret f => exact ⟨f, rfl⟩

theorem stops_renderRest (rest : List (List Tok)) : Stops (renderRest rest) := by
  cases rest with
  | nil => exact Or.inl rfl
  | cons s ss => exact Or.inr ⟨_, rfl⟩

/-! ### style tables -/

theorem lastDef_map {κ α β : Type} [BEq κ] (g : α → β) (defs : List (κ × α)) (k : κ) :
    lastDef (defs.map fun d => (d.1, g d.2)) k = (lastDef defs k).map g := by
  induction defs with
  | nil => rfl
  | cons d ds ih =>
    simp only [List.map_cons, lastDef, ih]
    cases lastDef ds k with
    | some v => rfl
    | none =>
      by_cases h : (d.1 == k) = true
      · simp [h]
      · simp [h]

theorem detectAll_wf (defs : List (Nat × Fmt)) (hwf : ∀ d ∈ defs, WF d.2) :
    detectAll (defs.map fun d => (d.1, render d.2)) = .ok (defs.map fun d => (d.1, classify d.2)) := by
  induction defs with
  | nil => rfl
  | cons d ds ih =>
    have h1 : detect (render d.2) = .ok (classify d.2) :=
      scan_wf_section d.2.first (hwf d (by simp)) (renderRest d.2.rest) (stops_renderRest d.2.rest)
    simp only [List.map_cons, detectAll, h1, ih (fun d hd => hwf d (by simp [hd]))]

end Formats
