import CalVerif.Spec.XlsxContainer
import CalVerif.Lemmas.Metadata
/-! Helper lemmas for the container glue of xlsx (C01): totality of the loops, the relationships part and the
    workbook part of an encoded package, case-insensitive entry lookup. -/
namespace XlsxContainer
open Meta MetaEnc MetaLemmas
set_option linter.unusedSimpArgs false

/-! ### totality -/

theorem relsLoop_total (evs : List Ev) (acc : List (String × String)) :
    (∃ r, relsLoop evs acc = .ok r) ∨ (∃ e, relsLoop evs acc = .err e) := by
  induction evs generalizing acc with
  | nil => exact Or.inr ⟨_, rfl⟩
  | cons ev rest ih =>
    cases ev with
    | start n a => simp only [relsLoop]; split <;> exact ih _
    | end_ n =>
      simp only [relsLoop]; split
      · exact Or.inl ⟨_, rfl⟩
      · exact ih _
    | text t => simp only [relsLoop]; exact ih _
    | other => simp only [relsLoop]; exact ih _
    | cdata t => simp only [relsLoop]; exact ih _

theorem sheetAttrs_total (rels : List (String × String)) (attrs : List (String × String)) (acc : SheetAcc) :
    (∃ r, sheetAttrs rels attrs acc = .ok r) ∨ (∃ e, sheetAttrs rels attrs acc = .err e) := by
  induction attrs generalizing acc with
  | nil => exact Or.inl ⟨_, rfl⟩
  | cons kv rest ih =>
    obtain ⟨k, v⟩ := kv
    rw [sheetAttrs]
    repeat' split
    all_goals first | exact ih _ | exact Or.inr ⟨_, rfl⟩

theorem xlsxSheet_total (rels : List (String × String)) (attrs : List (String × String)) :
    (∃ r, xlsxSheet rels attrs = .ok r) ∨ (∃ e, xlsxSheet rels attrs = .err e) := by
  unfold xlsxSheet
  rcases sheetAttrs_total rels attrs {} with ⟨r, h⟩ | ⟨e, h⟩
  · rw [h]; simp only; split
    · exact Or.inl ⟨_, rfl⟩
    · exact Or.inr ⟨_, rfl⟩
  · rw [h]; exact Or.inr ⟨_, rfl⟩

@[simp] theorem xlsxSheet_not_panic (rels : List (String × String)) (attrs : List (String × String)) (e : String) :
    (xlsxSheet rels attrs = .panic e) = False := by
  apply eq_false; intro h
  rcases xlsxSheet_total rels attrs with ⟨r, h2⟩ | ⟨x, h2⟩ <;> rw [h] at h2 <;> cases h2

@[simp] theorem xlsxSheet_not_fuel (rels : List (String × String)) (attrs : List (String × String)) :
    (xlsxSheet rels attrs = .outOfFuel) = False := by
  apply eq_false; intro h
  rcases xlsxSheet_total rels attrs with ⟨r, h2⟩ | ⟨x, h2⟩ <;> rw [h] at h2 <;> cases h2

theorem xlsxLoopWith_total (cfg : XlsxCfg) (rels : List (String × String)) (evs : List Ev) (st : XlsxSt) :
    (∃ r, xlsxLoopWith cfg rels evs st = .ok r) ∨ (∃ e, xlsxLoopWith cfg rels evs st = .err e) := by
  induction evs generalizing st with
  | nil => rw [xlsxLoopWith]; split <;> exact Or.inr ⟨_, rfl⟩
  | cons ev rest ih =>
    unfold xlsxLoopWith
    repeat' split
    all_goals first
      | exact ih _
      | exact Or.inl ⟨_, rfl⟩
      | exact Or.inr ⟨_, rfl⟩
      | simp_all

theorem readWorkbookXlsx_total (rels : List (String × String)) (evs : List Ev) :
    (∃ r, readWorkbookXlsx rels evs = .ok r) ∨ (∃ e, readWorkbookXlsx rels evs = .err e) := by
  unfold readWorkbookXlsx xlsxLoop
  rcases xlsxLoopWith_total cfgNow rels evs {} with ⟨r, h⟩ | ⟨e, h⟩
  · rw [h]; exact Or.inl ⟨_, rfl⟩
  · rw [h]; exact Or.inr ⟨_, rfl⟩

/-! ### the relationships part of a package -/

theorem relsLoop_rels (lay : PLayout) (hq : QOkOn ["Relationships", "Relationship"] lay.relQ) (ha : ∀ id tg, relAttrs (lay.relAttrsOf id tg) ("", "") = (id, tg))
    (rels : List (String × String)) (rest : List Ev) (acc : List (String × String)) :
    relsLoop (rels.flatMap (relEvents lay) ++ rest) acc = relsLoop rest (rels.reverse ++ acc) := by
  induction rels generalizing acc with
  | nil => rfl
  | cons r rs ih =>
    obtain ⟨id, tg⟩ := r
    have h1 : localName (lay.relQ "Relationship") = "Relationship" := hq _ (by simp)
    have h2 : localName (lay.relQ "Relationship") ≠ "Relationships" := by rw [h1]; decide
    simp only [List.flatMap_cons, relEvents, List.cons_append, List.nil_append, relsLoop, h1, h2, if_true, if_false, ha]
    rw [ih]
    simp [List.append_assoc]

theorem readRelationships_package (lay : PLayout) (hq : QOkOn ["Relationships", "Relationship"] lay.relQ)
    (ha : ∀ id tg, relAttrs (lay.relAttrsOf id tg) ("", "") = (id, tg)) :
    readRelationships (relsEvents lay) = .ok lay.rels.reverse := by
  have h1 : localName (lay.relQ "Relationships") = "Relationships" := hq _ (by simp)
  have h2 : localName (lay.relQ "Relationships") ≠ "Relationship" := by rw [h1]; decide
  unfold readRelationships relsEvents
  simp only [relsLoop, h2, if_false]
  rw [relsLoop_rels lay hq ha]
  simp [relsLoop, h1]

/-! ### the workbook part of a package -/

theorem sheetAttrs_extra (rels : List (String × String)) (extra l : List (String × String)) (acc : SheetAcc)
    (h : ∀ kv ∈ extra, InertSheetAttr kv.1) : sheetAttrs rels (extra ++ l) acc = sheetAttrs rels l acc := by
  induction extra with
  | nil => rfl
  | cons kv rest ih =>
    obtain ⟨k, v⟩ := kv
    obtain ⟨h1, h2, h3⟩ := h (k, v) (by simp)
    simp only [List.cons_append]
    rw [sheetAttrs_other rels k v _ acc h1 h2 h3]
    exact ih (fun x hx => h x (by simp [hx]))

theorem xlsxSheet_extra (rels : List (String × String)) (extra l : List (String × String))
    (h : ∀ kv ∈ extra, InertSheetAttr kv.1) : xlsxSheet rels (extra ++ l) = xlsxSheet rels l := by
  unfold xlsxSheet
  rw [sheetAttrs_extra rels extra l {} h]

theorem loop_sheetsX (rels : List (String × String)) (lay : PLayout) (hq : localName (lay.q "sheet") = "sheet") (hk : ridKeyOk lay.ridKey)
    (hx : ∀ s, ∀ kv ∈ lay.sheetExtra s, InertSheetAttr kv.1) :
    ∀ (sheets : List XSheet), (∀ s ∈ sheets, s.ok rels) → ∀ (rest : List Ev) (sh : List (Sheet String × List Char))
      (nm : List (String × String)) (d : Bool),
      xlsxLoopWith cfgNow rels (sheets.flatMap (sheetEventsX lay) ++ rest) ⟨sh, nm, d, none, none⟩ =
      xlsxLoopWith cfgNow rels rest ⟨sh ++ sheets.map xsheetDecoded, nm, d, none, none⟩ := by
  intro sheets
  induction sheets with
  | nil => intro _ rest sh nm d; simp
  | cons s ss ih =>
    intro hall rest sh nm d
    have hs := hall s (by simp)
    have hss : ∀ t ∈ ss, t.ok rels := fun t ht => hall t (by simp [ht])
    simp only [List.flatMap_cons, sheetEventsX, List.cons_append, List.nil_append]
    have hsheet : xlsxSheet rels (lay.sheetExtra s ++ sheetAttrList lay.ridKey s) = .ok (xsheetDecoded s) := by
      rw [xlsxSheet_extra rels _ _ (hx s)]; exact xlsxSheet_attrs rels lay.ridKey hk s hs
    rw [loop_start_sheet cfgNow rels _ _ _ _ _ _ hq _ hsheet]
    rw [loop_end_skip cfgNow rels _ _ _ rfl rfl (by rw [hq]; decide)]
    rw [ih hss]
    simp [List.append_assoc]

theorem readWorkbook_package (rels : List (String × String)) (lay : PLayout) (hq : QOkOn ["workbook", "sheets", "sheet"] lay.q)
    (hk : ridKeyOk lay.ridKey)
    (hx : ∀ s, ∀ kv ∈ lay.sheetExtra s, InertSheetAttr kv.1) (sheets : List XSheet) (hs : ∀ s ∈ sheets, s.ok rels) :
    readWorkbookXlsx rels (wbEvents lay sheets) =
      .ok (⟨sheets.map (fun s => ⟨s.name, s.kind, s.vis⟩), [], false⟩, sheets.map (fun s => xlsxPath s.target.toList)) := by
  unfold readWorkbookXlsx xlsxLoop wbEvents
  have q1 : localName (lay.q "workbook") = "workbook" := hq _ (by simp)
  have q2 : localName (lay.q "sheets") = "sheets" := hq _ (by simp)
  have q3 : localName (lay.q "sheet") = "sheet" := hq _ (by simp)
  have pm1 : cfgNow.prMatch (lay.q "workbook") = false := by simp [cfgNow, q1]
  have pm2 : cfgNow.prMatch (lay.q "sheets") = false := by simp [cfgNow, q2]
  rw [loop_start_skip cfgNow rels _ _ _ _ rfl rfl (by rw [q1]; decide) (by rw [q1]; decide) pm1 (by rw [q1]; decide)]
  rw [loop_start_skip cfgNow rels _ _ _ _ rfl rfl (by rw [q2]; decide) (by rw [q2]; decide) pm2 (by rw [q2]; decide)]
  rw [loop_sheetsX rels lay q3 hk hx sheets hs]
  rw [loop_end_skip cfgNow rels _ _ _ rfl rfl (by rw [q2]; decide)]
  rw [loop_end_workbook cfgNow rels _ _ _ rfl rfl q1]
  simp [xlsxFinish, xsheetDecoded, List.map_map, Function.comp_def]

/-! ### entry lookup -/

theorem eqIgnore_symm (a b : String) : eqIgnoreAsciiCase a b = eqIgnoreAsciiCase b a := by
  unfold eqIgnoreAsciiCase
  rw [Bool.eq_iff_iff]; simp only [beq_iff_eq]; exact eq_comm

theorem eqIgnore_trans (a b c : String) (h1 : eqIgnoreAsciiCase a b = true) (h2 : eqIgnoreAsciiCase b c = true) :
    eqIgnoreAsciiCase a c = true := by
  unfold eqIgnoreAsciiCase at *
  simp only [beq_iff_eq] at *
  rw [h1, h2]

/-- in an archive without two names equal up to case, the lookup of a path finds the one entry that matches it -/
theorem findEntry_unique (names : List String) (hd : names.Pairwise (fun a b => eqIgnoreAsciiCase a b = false))
    (e path : String) (he : e ∈ names) (hm : eqIgnoreAsciiCase e path = true) : findEntry names path = some e := by
  unfold findEntry
  induction names with
  | nil => cases he
  | cons n ns ih =>
    obtain ⟨hn, hns⟩ := List.pairwise_cons.mp hd
    rw [List.find?_cons]
    by_cases hnp : eqIgnoreAsciiCase n path = true
    · simp only [hnp]
      rcases List.mem_cons.mp he with rfl | he'
      · rfl
      · -- n and e both match the path: they are equal up to case, against distinctness
        have hpe : eqIgnoreAsciiCase path e = true := by rw [eqIgnore_symm]; exact hm
        have := eqIgnore_trans n path e hnp hpe
        rw [hn e he'] at this; cases this
    · have hf : eqIgnoreAsciiCase n path = false := by simpa using hnp
      simp only [hf]
      rcases List.mem_cons.mp he with rfl | he'
      · rw [hm] at hf; cases hf
      · exact ih hns he'

end XlsxContainer

namespace XlsxContainer
open Meta MetaEnc MetaLemmas

/-- in a list without duplicate keys, looking a member's key up finds that member -/
theorem find_of_nodup {β κ : Type} [DecidableEq κ] (l : List β) (key : β → κ) (hn : (l.map key).Nodup) (s : β) (hs : s ∈ l) :
    l.find? (fun x => key x == key s) = some s := by
  induction l with
  | nil => cases hs
  | cons x xs ih =>
    rw [List.map_cons, List.nodup_cons] at hn
    rw [List.find?_cons]
    by_cases hk : key x = key s
    · simp only [hk, beq_self_eq_true]
      rcases List.mem_cons.mp hs with rfl | hs'
      · rfl
      · exact absurd (List.mem_map.mpr ⟨s, hs', hk.symm⟩) hn.1
    · have : (key x == key s) = false := by simpa using hk
      simp only [this]
      rcases List.mem_cons.mp hs with rfl | hs'
      · exact absurd rfl hk
      · exact ih hn.2 hs'

/-- the sheet table of an encoded package: every sheet with its metadata and the part path of its target -/
theorem sheetTable_package {α : Type} [Inhabited α] (sheets : List (PSheet α)) (lay : PLayout) (h : PackageOk sheets lay) :
    sheetTable (archiveOf sheets lay) =
      .ok (sheets.map fun s => (⟨s.x.name, s.x.kind, s.x.vis⟩, partPath s.x.target)) := by
  have hne : lay.wbEntry ≠ lay.relsEntry := by
    intro he
    have h1 := h.wbEntry.2; rw [he] at h1
    have h2 : eqIgnoreAsciiCase "xl/_rels/workbook.xml.rels" lay.relsEntry = true := by rw [eqIgnore_symm]; exact h.relsEntry.2
    have := eqIgnore_trans _ _ _ h2 h1
    revert this; decide
  unfold sheetTable archiveOf
  simp only
  rw [findEntry_unique lay.names h.namesDistinct lay.relsEntry _ h.relsEntry.1 h.relsEntry.2]
  simp only [if_true, readRelationships_package lay h.relQ h.relAttrs]
  rw [findEntry_unique lay.names h.namesDistinct lay.wbEntry _ h.wbEntry.1 h.wbEntry.2]
  simp only [hne, if_false, if_true]
  have hok : ∀ x ∈ sheets.map (·.x), x.ok lay.rels.reverse := by
    intro x hx
    obtain ⟨s, hs, rfl⟩ := List.mem_map.mp hx
    exact ⟨h.sheetRel s hs, h.kind s hs, h.state s hs⟩
  rw [readWorkbook_package lay.rels.reverse lay h.q h.ridKey h.sheetExtra (sheets.map (·.x)) hok]
  simp only [List.map_map]
  rw [List.zip_map']
  rfl

/-- the entry opened for a sheet name is the entry that holds that sheet -/
theorem openSheetEntry_package {α : Type} [Inhabited α] (sheets : List (PSheet α)) (lay : PLayout) (h : PackageOk sheets lay)
    (s : PSheet α) (hs : s ∈ sheets) : openSheetEntry (archiveOf sheets lay) s.x.name = .ok s.entry := by
  unfold openSheetEntry
  rw [sheetTable_package sheets lay h]
  simp only [List.find?_map]
  have hf : sheets.find? ((fun (y : Sheet String × String) => y.1.name == s.x.name) ∘ fun s => (⟨s.x.name, s.x.kind, s.x.vis⟩, partPath s.x.target)) = some s := by
    have := find_of_nodup sheets (fun t => t.x.name) (by simpa [List.map_map] using h.sheetNames) s hs
    exact this
  rw [hf]
  simp only [Option.map_some]
  have hl : (archiveOf sheets lay).names = lay.names := rfl
  rw [hl, findEntry_unique lay.names h.namesDistinct s.entry _ (h.sheetEntry s hs).1 (h.sheetEntry s hs).2]

theorem openSheet_package {α : Type} [Inhabited α] (sheets : List (PSheet α)) (lay : PLayout) (h : PackageOk sheets lay)
    (s : PSheet α) (hs : s ∈ sheets) : openSheet (archiveOf sheets lay) s.x.name = .ok s.body := by
  unfold openSheet
  rw [openSheetEntry_package sheets lay h s hs]
  have := find_of_nodup sheets (fun t => t.entry) (by simpa using h.sheetEntries) s hs
  simp only [archiveOf]
  rw [this]
  rfl

end XlsxContainer
