import CalVerif.Model.GeometryXls
import CalVerif.Lemmas.Geometry
/-! Helper lemmas for the workbook-level xls statements of `Props/C17.lean`. -/
namespace Geometry
open BiffCells (Item)

/-- over framed records the item loop is the record loop of `Model/Geometry.lean` -/
theorem sheetMergeItems_records (d : Bytes) (c : List Bytes) (tail : List Item) :
    ∀ (recs : List Biff.Rec),
      sheetMergeItems (recs.map Item.record ++ Item.record ⟨0x000A, d, c⟩ :: tail) =
        sheetMergeCells (recs.map (fun r => (r.typ, r.data)) ++ (0x000A, []) :: [])
  | [] => by simp [sheetMergeItems, sheetMergeCells]
  | r :: rs => by
    have ih := sheetMergeItems_records d c tail rs
    simp only [List.map_cons, List.cons_append, sheetMergeItems, sheetMergeCells]
    by_cases h1 : r.typ = 0x000A
    · simp [h1]
    · by_cases h2 : r.typ = 0x00E5
      · simp only [h2, if_true, ih]
        rfl
      · simp only [h1, h2, if_false, ih]

theorem lookup_mapInsert_same {κ : Type} [DecidableEq κ] (m : List (κ × List Rect)) (k : κ) (v : List Rect) :
    xlsWorksheetMergeCells (mapInsert m k v) k = some v := by
  unfold xlsWorksheetMergeCells mapInsert
  rw [List.find?_append]
  have : (m.filter (fun e => decide (e.1 ≠ k))).find? (fun e => decide (e.1 = k)) = none := by
    rw [List.find?_eq_none]
    intro x hx
    have := (List.mem_filter.mp hx).2
    simpa using this
  rw [this]
  simp

theorem lookup_mapInsert_other {κ : Type} [DecidableEq κ] (k k' : κ) (v : List Rect) (h : k' ≠ k) :
    ∀ (m : List (κ × List Rect)), xlsWorksheetMergeCells (mapInsert m k v) k' = xlsWorksheetMergeCells m k'
  | [] => by
    unfold xlsWorksheetMergeCells mapInsert
    simp [List.find?, Ne.symm h]
  | e :: es => by
    have ih := lookup_mapInsert_other k k' v h es
    unfold xlsWorksheetMergeCells mapInsert at ih ⊢
    by_cases hk : e.1 = k
    · have hne : e.1 ≠ k' := by rw [hk]; exact Ne.symm h
      rw [List.filter_cons_of_neg (by simpa using hk), List.find?_cons_of_neg (by simpa using hne)]
      exact ih
    · rw [List.filter_cons_of_pos (by simpa using hk), List.cons_append]
      by_cases hk' : e.1 = k'
      · rw [List.find?_cons_of_pos (by simpa using hk'), List.find?_cons_of_pos (by simpa using hk')]
      · rw [List.find?_cons_of_neg (by simpa using hk'), List.find?_cons_of_neg (by simpa using hk')]
        exact ih

/-- the sheet loop fills the map so that a name yields the regions of the substream at the offset of the
    *last* sheet bearing it; names not in the list keep what the map held -/
theorem xlsSheetsMerges_lookup {κ : Type} [DecidableEq κ] (stream : Bytes) :
    ∀ (sheets : List (Nat × κ)) (acc : List (κ × List Rect)),
      (∀ s ∈ sheets, s.1 ≤ stream.length ∧ ∃ ds, sheetMergeItems (BiffCells.items (stream.drop s.1)) = .ok ds) →
      ∃ map, xlsSheetsMerges stream sheets acc = .ok map ∧
        (∀ pre pos name post, sheets = pre ++ (pos, name) :: post → (∀ s ∈ post, s.2 ≠ name) →
          ∃ ds, sheetMergeItems (BiffCells.items (stream.drop pos)) = .ok ds ∧
            xlsWorksheetMergeCells map name = some ds) ∧
        (∀ name, (∀ s ∈ sheets, s.2 ≠ name) → xlsWorksheetMergeCells map name = xlsWorksheetMergeCells acc name)
  | [], acc, _ => by
    refine ⟨acc, rfl, ?_, fun _ _ => rfl⟩
    intro pre pos name post h
    cases pre <;> simp at h
  | (p, n) :: rest, acc, h => by
    obtain ⟨hp, ds, hds⟩ := h (p, n) (List.mem_cons_self ..)
    obtain ⟨map, hmap, hA, hB⟩ := xlsSheetsMerges_lookup stream rest (mapInsert acc n ds)
      (fun s hs => h s (List.mem_cons_of_mem _ hs))
    refine ⟨map, ?_, ?_, ?_⟩
    · simp only [xlsSheetsMerges]
      rw [if_neg (by omega)]
      simp only at hds
      rw [hds]
      exact hmap
    · intro pre pos name post hsplit hpost
      cases pre with
      | nil =>
        simp only [List.nil_append, List.cons.injEq, Prod.mk.injEq] at hsplit
        obtain ⟨⟨rfl, rfl⟩, rfl⟩ := hsplit
        refine ⟨ds, hds, ?_⟩
        rw [hB _ hpost]
        exact lookup_mapInsert_same acc _ ds
      | cons x pre' =>
        simp only [List.cons_append, List.cons.injEq] at hsplit
        exact hA pre' pos name post hsplit.2 hpost
    · intro name hname
      have hn : name ≠ n := fun e => (hname (p, n) (List.mem_cons_self ..)) e.symm
      rw [hB name (fun s hs => hname s (List.mem_cons_of_mem _ hs))]
      exact lookup_mapInsert_other n name ds hn acc

end Geometry
