import CalVerif.Model.Biff
import CalVerif.Spec.BiffEnc
/-! Helper lemmas for C02: byte masks, little-endian read-after-write, the integer arm of `rk_num`. -/

namespace BiffCells
open Biff

/-- the three masks `rk_num` applies to `rk[2]`, as arithmetic (all 256 bytes checked by the kernel) -/
theorem byte_masks : ∀ b, b < 256 → (b &&& 1 = b % 2) ∧ (b &&& 2 = 2 * (b / 2 % 2)) ∧ (b &&& 0xFC = b / 4 * 4) := by
  decide +kernel

/-- Rust's truncating `%`/`/` in the integer arm agree with exact division by 100 -/
theorem int_arm (ops : FOps) (v : Int) (d : Bool) :
    (if (d && (Int.tmod v 100 != 0)) = true then Num.float (ops.div100 (i2f v))
      else Num.int (if d = true then Int.tdiv v 100 else v))
    = (if d = true then (if v % 100 = 0 then Num.int (v / 100) else Num.float (ops.div100 (i2f v)))
      else Num.int v) := by
  cases d
  · simp
  · by_cases h : v % 100 = 0
    · have hd : (100 : Int) ∣ v := Int.dvd_of_emod_eq_zero h
      have h0 : Int.tmod v 100 = 0 := Int.tmod_eq_zero_of_dvd hd
      simp [h0, h, Int.tdiv_eq_ediv_of_dvd hd]
    · have h0 : Int.tmod v 100 ≠ 0 := fun h0 => h (Int.emod_eq_zero_of_dvd (Int.dvd_of_tmod_eq_zero h0))
      simp [h0, h]

/-- `rk_num` computes the RkNumber of the specification (stated as `rk_spec` in Props/C02) -/
theorem rkNum_eq_rkSpec (ops : FOps) (w : Nat) : rkNum ops w = rkSpec ops w := by
  obtain ⟨h1, h2, h3⟩ := byte_masks (w % 256) (Nat.mod_lt _ (by decide))
  have hd : ((w % 256 &&& 1) != 0) = decide (w % 2 = 1) := by
    rw [h1]; by_cases h : w % 2 = 1
    · have : w % 256 % 2 = 1 := by omega
      simp [h, this]
    · have : w % 256 % 2 = 0 := by omega
      simp [h, this]
  have hI : ((w % 256 &&& 2) != 0) = decide (w / 2 % 2 = 1) := by
    rw [h2]; by_cases h : w / 2 % 2 = 1
    · have : w % 256 / 2 % 2 = 1 := by omega
      simp [h, this]
    · have : w % 256 / 2 % 2 = 0 := by omega
      simp [h, this]
  have hm : (w % 256 &&& 0xFC) + 256 * (w / 256) = 4 * (w / 4) := by rw [h3]; omega
  have hv : (if 4 * (w / 4) < 2147483648 then ((4 * (w / 4) : Nat) : Int) else ((4 * (w / 4) : Nat) : Int) - 4294967296) >>> 2
      = (if w / 4 < 536870912 then ((w / 4 : Nat) : Int) else ((w / 4 : Nat) : Int) - 1073741824) := by
    rw [Int.shiftRight_eq_div_pow]
    split <;> split <;> omega
  have hb : 4 * (w / 4) * 4294967296 = w / 4 * 17179869184 := by omega
  simp only [rkNum, rkSpec]
  rw [hd, hI, hm, hv, hb, int_arm]
  by_cases hi : w / 2 % 2 = 1 <;> by_cases hx : w % 2 = 1 <;> simp [hi, hx]

theorem byte_toNat (n : Nat) : (byte n).toNat = n % 256 := by
  simp [byte]

theorem u16_le16 (n : Nat) (rest : Bytes) (h : n < 65536) : u16 (le16 n ++ rest) = n := by
  simp [u16, le16, byte_toNat]; omega

theorem u32_le32 (n : Nat) (rest : Bytes) (h : n < 4294967296) : u32 (le32 n ++ rest) = n := by
  simp [u32, le32, byte_toNat]; omega

/-- reads inside a cell record `row col ixfe tail` -/
theorem hdr_reads (row col xf : Nat) (tail : Bytes) (hr : row < 65536) (hc : col < 65536) (hx : xf < 65536) :
    let d := le16 row ++ le16 col ++ le16 xf ++ tail
    u16At d 0 = row ∧ u16At d 2 = col ∧ u16At d 4 = xf ∧ d.length = 6 + tail.length ∧ d.drop 6 = tail ∧
    ∀ i, byteAt d (6 + i) = byteAt tail i := by
  simp only [u16At, le16, u16, byteAt]
  refine ⟨by simp [byte_toNat]; omega, by simp [byte_toNat]; omega, by simp [byte_toNat]; omega, by simp; omega, by simp, ?_⟩
  intro i
  simp [List.getD_eq_getElem?_getD, List.getElem?_cons]

@[simp] theorem le16_length (n : Nat) : (le16 n).length = 2 := rfl
@[simp] theorem le32_length (n : Nat) : (le32 n).length = 4 := rfl
@[simp] theorem le64_length (n : Nat) : (le64 n).length = 8 := rfl

theorem u16_le16' (n : Nat) (rest : Bytes) : u16 (le16 n ++ rest) = n % 65536 := by
  simp [u16, le16, byte_toNat]; omega

theorem u32_le32' (n : Nat) (rest : Bytes) : u32 (le32 n ++ rest) = n % 4294967296 := by
  simp [u32, le32, byte_toNat]; omega

theorem u16At_append_right (a b : Bytes) (i : Nat) (h : a.length ≤ i) : u16At (a ++ b) i = u16At b (i - a.length) := by
  simp [u16At, List.drop_append, List.drop_eq_nil_of_le h]

theorem u32At_append_right (a b : Bytes) (i : Nat) (h : a.length ≤ i) : u32At (a ++ b) i = u32At b (i - a.length) := by
  simp [u32At, List.drop_append, List.drop_eq_nil_of_le h]

theorem u64At_append_right (a b : Bytes) (i : Nat) (h : a.length ≤ i) : u64At (a ++ b) i = u64At b (i - a.length) := by
  unfold u64At
  rw [u32At_append_right a b i h, u32At_append_right a b (i + 4) (by omega)]
  congr 3; omega

theorem byteAt_append_right (a b : Bytes) (i : Nat) (h : a.length ≤ i) : byteAt (a ++ b) i = byteAt b (i - a.length) := by
  simp [byteAt, List.getD_eq_getElem?_getD, List.getElem?_append_right h]

theorem u64At_le64 (x : Nat) (rest : Bytes) (h : x < 18446744073709551616) : u64At (le64 x ++ rest) 0 = x := by
  unfold u64At le64
  have e1 : u32At (le32 x ++ le32 (x / 4294967296) ++ rest) 0 = x % 4294967296 := by
    simp only [u32At, List.drop_zero, List.append_assoc]; exact u32_le32' _ _
  have e2 : u32At (le32 x ++ le32 (x / 4294967296) ++ rest) (0 + 4) = x / 4294967296 % 4294967296 := by
    rw [List.append_assoc, u32At_append_right _ _ _ (by simp)]
    simp only [le32_length, Nat.zero_add, Nat.sub_self, u32At, List.drop_zero]; exact u32_le32' _ _
  rw [e1, e2]; omega

/-- `cellHdr` reads -/
theorem hdr16 (p : PC) (tail : Bytes) (hr : p.row < 65536) (hc : p.col < 65536) (hx : p.xf < 65536) :
    u16At (cellHdr p ++ tail) 0 = p.row ∧ u16At (cellHdr p ++ tail) 2 = p.col ∧ u16At (cellHdr p ++ tail) 4 = p.xf
    ∧ (cellHdr p ++ tail).length = 6 + tail.length := by
  obtain ⟨a, b, c, d, _, _⟩ := hdr_reads p.row p.col p.xf tail hr hc hx
  exact ⟨a, b, c, d⟩

theorem cellHdr_length (p : PC) : (cellHdr p).length = 6 := rfl

theorem step_number (env : Env) (st : St) (p : PC) (x : Nat) (hr : p.row < 65536) (hc : p.col < 65536)
    (hx : p.xf < 65536) (hb : x < 18446744073709551616) :
    step env st ⟨0x0203, cellHdr p ++ le64 x, []⟩ =
      .ok { st with cells := st.cells ++ [(p.row, p.col, fmtF64 x env.fmts[p.xf]? env.is1904)] } := by
  obtain ⟨h0, h2, h4, hl⟩ := hdr16 p (le64 x) hr hc hx
  have h6 : u64At (cellHdr p ++ le64 x) 6 = x := by
    rw [u64At_append_right _ _ _ (by simp [cellHdr_length]), cellHdr_length]
    have := u64At_le64 x [] hb
    simpa using this
  simp [step, parseNumber, hl, h0, h2, h4, h6]

theorem step_rk (env : Env) (st : St) (p : PC) (w : Nat) (hr : p.row < 65536) (hc : p.col < 65536)
    (hx : p.xf < 65536) (hw : w < 4294967296) :
    step env st ⟨0x027E, cellHdr p ++ le32 w, []⟩ =
      .ok { st with cells := st.cells ++ [(p.row, p.col, fmtNum (rkNum env.ops w) env.fmts[p.xf]? env.is1904)] } := by
  obtain ⟨h0, h2, h4, hl⟩ := hdr16 p (le32 w) hr hc hx
  have h6 : u32At (cellHdr p ++ le32 w) (4 + 2) = w := by
    rw [u32At_append_right _ _ _ (by simp [cellHdr_length]), cellHdr_length]
    have := u32_le32 w [] hw
    simpa [u32At] using this
  simp [step, parseRk, rkNumAt, hl, h0, h2, h4, h6]

/-! ### strings -/

/-- Unicode scalar values -/
def validText (s : List Nat) : Prop := ∀ c ∈ s, c < 0xD800 ∨ (0xE000 ≤ c ∧ c < 0x110000)

theorem decodeUtf16_cons2 (u v : Nat) (rest : List Nat) :
    decodeUtf16 (u :: v :: rest) =
      if isHigh u then
        if isLow v then (0x10000 + (u - 0xD800) * 0x400 + (v - 0xDC00)) :: decodeUtf16 rest
        else 0xFFFD :: decodeUtf16 (v :: rest)
      else if isLow u then 0xFFFD :: decodeUtf16 (v :: rest)
      else u :: decodeUtf16 (v :: rest) := by
  rw [decodeUtf16]

theorem isHigh_false (c : Nat) (h : c < 55296 ∨ 57344 ≤ c) : isHigh c = false := by
  rw [Bool.eq_false_iff]; unfold isHigh; simp only [ne_eq, Bool.and_eq_true, decide_eq_true_eq]; omega

theorem isLow_false (c : Nat) (h : c < 55296 ∨ 57344 ≤ c) : isLow c = false := by
  rw [Bool.eq_false_iff]; unfold isLow; simp only [ne_eq, Bool.and_eq_true, decide_eq_true_eq]; omega

theorem toUnits_roundtrip : ∀ (cs : List Nat), validText cs → decodeUtf16 (toUnits cs) = cs
  | [], _ => rfl
  | c :: cs, h => by
    have hc := h c (by simp)
    have ih := toUnits_roundtrip cs (fun x hx => h x (by simp [hx]))
    by_cases hb : c < 65536
    · have hu16 : toUnits (c :: cs) = c :: toUnits cs := by simp [toUnits, hb]
      have hh : isHigh c = false := isHigh_false c (by omega)
      have hl : isLow c = false := isLow_false c (by omega)
      rw [hu16]
      cases hu : toUnits cs with
      | nil =>
        rw [hu] at ih
        have : cs = [] := by simpa [decodeUtf16] using ih.symm
        simp [decodeUtf16, hh, hl, this]
      | cons v r =>
        rw [decodeUtf16_cons2, ← hu, ih]
        simp [hh, hl]
    · have hu16 : toUnits (c :: cs) =
          (55296 + (c - 65536) / 1024) :: (56320 + (c - 65536) % 1024) :: toUnits cs := by simp [toUnits, hb]
      rw [hu16, decodeUtf16_cons2, ih]
      have hh : isHigh (55296 + (c - 65536) / 1024) = true := by
        unfold isHigh; simp only [Bool.and_eq_true, decide_eq_true_eq]; omega
      have hl : isLow (56320 + (c - 65536) % 1024) = true := by
        unfold isLow; simp only [Bool.and_eq_true, decide_eq_true_eq]; omega
      simp only [hh, hl, if_true, List.cons.injEq, and_true]
      omega

theorem toUnits_lt : ∀ (cs : List Nat), validText cs → ∀ u ∈ toUnits cs, u < 65536
  | [], _ => by simp [toUnits]
  | c :: cs, h => by
    have hc := h c (by simp)
    have ih := toUnits_lt cs (fun x hx => h x (by simp [hx]))
    intro u hu
    by_cases hb : c < 65536
    · simp only [toUnits, hb, if_true, List.mem_cons] at hu
      rcases hu with rfl | hu
      · exact hb
      · exact ih u hu
    · simp only [toUnits, hb, if_false, List.mem_cons] at hu
      rcases hu with h1 | h1 | hu
      · omega
      · omega
      · exact ih u hu

theorem units16_wide (us : List Nat) (h : ∀ u ∈ us, u < 65536) : units16 (us.flatMap le16) = us := by
  induction us with
  | nil => rfl
  | cons u us ih =>
    have hu : u < 65536 := h u (by simp)
    have ih := ih (fun v hv => h v (by simp [hv]))
    simp only [List.flatMap_cons, le16, List.cons_append, List.nil_append, units16, ih, byte_toNat]
    congr 1; omega

theorem narrow_units (us : List Nat) (h : ∀ u ∈ us, u < 256) : (us.map byte).map (·.toNat) = us := by
  induction us with
  | nil => rfl
  | cons u us ih =>
    have hu : u < 256 := h u (by simp)
    simp only [List.map_cons, byte_toNat]
    rw [show u % 256 = u by omega]
    congr 1
    exact ih (fun v hv => h v (by simp [hv]))

theorem flatMap_le16_length (us : List Nat) : (us.flatMap le16).length = 2 * us.length := by
  induction us with
  | nil => rfl
  | cons u us ih => simp [List.flatMap_cons, ih]; omega

theorem xlString_length (wide : Bool) (s : List Nat) : 3 ≤ (xlString wide s).length := by
  simp [xlString]; omega

/-- `parse_string` reads back what `xlString` wrote -/
theorem parse_xlString (wide : Bool) (s : List Nat) (hs : validText s) (hl : (toUnits s).length < 65536) :
    parseStringWith 3 (xlString wide s) true = .ok s := by
  have hlen := xlString_length wide s
  unfold parseStringWith
  rw [if_neg (by omega)]
  simp only [if_true]
  congr 1
  have hu := toUnits_lt s hs
  by_cases hw : (wide || !((toUnits s).all (· < 256))) = true
  · have e : xlString wide s = le16 (toUnits s).length ++ ([1] ++ (toUnits s).flatMap le16) := by
      simp [xlString, hw]
    rw [e, u16_le16 _ _ hl]
    have hf : flagHigh ((le16 (toUnits s).length ++ ([1] ++ (toUnits s).flatMap le16)).getD 2 0) = true := by
      simp [le16, flagHigh]
    have hd : (le16 (toUnits s).length ++ ([1] ++ (toUnits s).flatMap le16)).drop 3 = (toUnits s).flatMap le16 := by
      simp [le16]
    rw [hf, hd]
    simp only [decodeTo, if_true, flatMap_le16_length]
    have : min (2 * (toUnits s).length / 2) (toUnits s).length = (toUnits s).length := by omega
    rw [this, List.take_of_length_le (by rw [flatMap_le16_length]; omega), units16_wide _ hu]
    exact toUnits_roundtrip s hs
  · have hw' : (wide || !((toUnits s).all (· < 256))) = false := by simpa using hw
    have hall : ∀ u ∈ toUnits s, u < 256 := by
      simp only [Bool.or_eq_false_iff, Bool.not_eq_false', List.all_eq_true, decide_eq_true_eq] at hw'
      exact hw'.2
    have e : xlString wide s = le16 (toUnits s).length ++ ([0] ++ (toUnits s).map byte) := by
      simp [xlString, hw']
    rw [e, u16_le16 _ _ hl]
    have hf : flagHigh ((le16 (toUnits s).length ++ ([0] ++ (toUnits s).map byte)).getD 2 0) = false := by
      simp [le16, flagHigh]
    have hd : (le16 (toUnits s).length ++ ([0] ++ (toUnits s).map byte)).drop 3 = (toUnits s).map byte := by
      simp [le16]
    rw [hf, hd]
    simp only [decodeTo, Bool.false_eq_true, if_false, List.length_map, Nat.min_self]
    rw [List.take_of_length_le (by simp), narrow_units _ hall]
    exact toUnits_roundtrip s hs

end BiffCells
