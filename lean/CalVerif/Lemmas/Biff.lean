import CalVerif.Model.Biff
import CalVerif.Spec.BiffEnc
/-! Helper lemmas for C02: byte masks, little-endian read-after-write, the integer arm of `rk_num`. -/

namespace BiffCells
open Biff

/-- the three masks `rk_num` applies to `rk[2]`, as arithmetic (all 256 bytes checked by the kernel) -/
theorem byte_masks : ∀ b, b < 256 → (b &&& 1 = b % 2) ∧ (b &&& 2 = 2 * (b / 2 % 2)) ∧ (b &&& 0xFC = b / 4 * 4) := by
  decide +kernel

/-- Rust's truncating `%`/`/` in the integer arm agree with exact division by 100 -/
theorem int_arm (ops : FOps) (v : Int) (d : Bool) :
    (if (d && (Int.tmod v 100 != 0)) = true then Num.float (ops.div100 (ops.i2f v))
      else Num.int (if d = true then Int.tdiv v 100 else v))
    = (if d = true then (if v % 100 = 0 then Num.int (v / 100) else Num.float (ops.div100 (ops.i2f v)))
      else Num.int v) := by
  cases d
  · simp
  · by_cases h : v % 100 = 0
    · have hd : (100 : Int) ∣ v := Int.dvd_of_emod_eq_zero h
      have h0 : Int.tmod v 100 = 0 := Int.tmod_eq_zero_of_dvd hd
      simp [h0, h, Int.tdiv_eq_ediv_of_dvd hd]
    · have h0 : Int.tmod v 100 ≠ 0 := fun h0 => h (Int.emod_eq_zero_of_dvd (Int.dvd_of_tmod_eq_zero h0))
      simp [h0, h]

theorem byte_toNat (n : Nat) : (byte n).toNat = n % 256 := by
  simp [byte]

theorem u16_le16 (n : Nat) (rest : Bytes) (h : n < 65536) : u16 (le16 n ++ rest) = n := by
  simp [u16, le16, byte_toNat]; omega

theorem u32_le32 (n : Nat) (rest : Bytes) (h : n < 4294967296) : u32 (le32 n ++ rest) = n := by
  simp [u32, le32, byte_toNat]; omega

/-- reads inside a cell record `row col ixfe tail` -/
theorem hdr_reads (row col xf : Nat) (tail : Bytes) (hr : row < 65536) (hc : col < 65536) (hx : xf < 65536) :
    let d := le16 row ++ le16 col ++ le16 xf ++ tail
    u16At d 0 = row ∧ u16At d 2 = col ∧ u16At d 4 = xf ∧ d.length = 6 + tail.length ∧ d.drop 6 = tail ∧
    ∀ i, byteAt d (6 + i) = byteAt tail i := by
  simp only [u16At, le16, u16, byteAt]
  refine ⟨by simp [byte_toNat]; omega, by simp [byte_toNat]; omega, by simp [byte_toNat]; omega, by simp; omega, by simp, ?_⟩
  intro i
  simp [List.getD_eq_getElem?_getD, List.getElem?_cons]

end BiffCells
