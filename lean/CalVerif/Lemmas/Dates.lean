import CalVerif.Model.Dates
import CalVerif.Spec.Dates
/-! Helper lemmas for C11: the days→civil arithmetic of `Model/Dates` advances exactly like the
    step-by-step calendar of `Spec/Dates`.  No big computation: the year cascade is analysed by
    linear arithmetic (`omega`), the month/day formula by a 366-entry table (`decide`). -/

namespace Dates

/-! ### the year cascade -/

/-- 1 when the March-based year `yoe` of an era ends with a 29 February, i.e. when the civil
    year `yoe + 1` is a leap year -/
def longYear (yoe : Nat) : Nat :=
  if (yoe + 1) % 4 = 0 ∧ ((yoe + 1) % 100 ≠ 0 ∨ (yoe + 1) % 400 = 0) then 1 else 0

/-- the decomposition of a day-of-era into century, 4-year block, year, day — as linear
    constraints that determine it uniquely -/
structure YD (doe c q a doy : Nat) : Prop where
  hc : c ≤ 3
  hq : q ≤ 24
  ha : a ≤ 3
  hd : doy ≤ 365
  hd3 : doy = 365 → a = 3
  hsum : doe = 36524 * c + 1461 * q + 365 * a + doy
  hcent : 1461 * q + 365 * a + doy < 36524 + (if c = 3 then 1 else 0)
  hquad : 365 * a + doy < 1461

theorem yearOfDoe_spec (doe : Nat) (h : doe < 146097) :
    ∃ c q a doy, YD doe c q a doy ∧ yearOfDoe doe = (c * 100 + q * 4 + a, doy) := by
  unfold yearOfDoe
  simp only []
  generalize hc : min (doe / 36524) 3 = c
  have hc1 : c ≤ 3 ∧ c * 36524 ≤ doe ∧ (c < 3 → doe < (c + 1) * 36524) := by omega
  generalize hr : doe - c * 36524 = r
  have hr1 : doe = c * 36524 + r := by omega
  generalize hq : r / 1461 = q
  have hq1 : q * 1461 ≤ r ∧ r < (q + 1) * 1461 := by omega
  generalize hr2 : r - q * 1461 = r2
  have hr21 : r = q * 1461 + r2 := by omega
  generalize ha : min (r2 / 365) 3 = a
  have ha1 : a ≤ 3 ∧ a * 365 ≤ r2 ∧ (a < 3 → r2 < (a + 1) * 365) := by omega
  refine ⟨c, q, a, r2 - a * 365, ⟨?_, ?_, ?_, ?_, ?_, ?_, ?_, ?_⟩, rfl⟩ <;> (try split) <;> omega

theorem yearOfDoe_of_YD {doe c q a doy : Nat} (h : YD doe c q a doy) :
    yearOfDoe doe = (c * 100 + q * 4 + a, doy) := by
  obtain ⟨h1, h2, h3, h4, h5, h6, h7, h8⟩ := h
  have h7' : 1461 * q + 365 * a + doy < 36524 ∨ (c = 3 ∧ 1461 * q + 365 * a + doy = 36524) := by
    split at h7 <;> omega
  unfold yearOfDoe
  simp only []
  have e1 : min (doe / 36524) 3 = c := by omega
  rw [e1]
  have e2 : doe - c * 36524 = 1461 * q + 365 * a + doy := by omega
  rw [e2]
  have e3 : (1461 * q + 365 * a + doy) / 1461 = q := by omega
  rw [e3]
  have e4 : 1461 * q + 365 * a + doy - q * 1461 = 365 * a + doy := by omega
  rw [e4]
  have e5 : min ((365 * a + doy) / 365) 3 = a := by omega
  rw [e5]
  have e6 : 365 * a + doy - a * 365 = doy := by omega
  rw [e6]

theorem longYear_of_YD {doe c q a doy : Nat} (h : YD doe c q a doy) :
    longYear (c * 100 + q * 4 + a) = if a = 3 ∧ (q < 24 ∨ c = 3) then 1 else 0 := by
  obtain ⟨h1, h2, h3, h4, h5, h6, h7, h8⟩ := h
  unfold longYear
  split <;> split <;> omega

theorem YD_succ {doe c q a doy : Nat} (h : YD doe c q a doy) (hlt : doe + 1 < 146097) :
    ∃ c' q' a' doy', YD (doe + 1) c' q' a' doy' ∧
      ((c' * 100 + q' * 4 + a' = c * 100 + q * 4 + a ∧ doy' = doy + 1) ∨
       (c' * 100 + q' * 4 + a' = c * 100 + q * 4 + a + 1 ∧ doy' = 0 ∧
          doy = 364 + longYear (c * 100 + q * 4 + a))) := by
  rw [longYear_of_YD h]
  obtain ⟨h1, h2, h3, h4, h5, h6, h7, h8⟩ := h
  have h7' : 1461 * q + 365 * a + doy < 36524 ∨ (c = 3 ∧ 1461 * q + 365 * a + doy = 36524) := by
    split at h7 <;> omega
  by_cases hA : doy < 364 ∨ (doy = 364 ∧ a = 3 ∧ (q < 24 ∨ c = 3))
  · refine ⟨c, q, a, doy + 1, ⟨h1, h2, h3, ?_, ?_, ?_, ?_, ?_⟩, Or.inl ⟨rfl, rfl⟩⟩ <;> (try split) <;> omega
  · by_cases hB : a < 3
    · refine ⟨c, q, a + 1, 0, ⟨h1, h2, ?_, ?_, ?_, ?_, ?_, ?_⟩, Or.inr ⟨?_, rfl, ?_⟩⟩ <;> (try split) <;> omega
    · by_cases hC : q < 24
      · refine ⟨c, q + 1, 0, 0, ⟨h1, ?_, ?_, ?_, ?_, ?_, ?_, ?_⟩, Or.inr ⟨?_, rfl, ?_⟩⟩ <;> (try split) <;> omega
      · refine ⟨c + 1, 0, 0, 0, ⟨?_, ?_, ?_, ?_, ?_, ?_, ?_, ?_⟩, Or.inr ⟨?_, rfl, ?_⟩⟩ <;> (try split) <;> omega

/-- one day later inside an era: either the next day of the same March-based year, or day 0 of
    the next one — the latter exactly after day 364 of a short year / day 365 of a long year -/
theorem yearOfDoe_step (doe : Nat) (h : doe + 1 < 146097) :
    ((yearOfDoe (doe + 1)).1 = (yearOfDoe doe).1 ∧ (yearOfDoe (doe + 1)).2 = (yearOfDoe doe).2 + 1) ∨
    ((yearOfDoe (doe + 1)).1 = (yearOfDoe doe).1 + 1 ∧ (yearOfDoe (doe + 1)).2 = 0 ∧
       (yearOfDoe doe).2 = 364 + longYear (yearOfDoe doe).1) := by
  obtain ⟨c, q, a, doy, hyd, he⟩ := yearOfDoe_spec doe (by omega)
  obtain ⟨c', q', a', doy', hyd', hs⟩ := YD_succ hyd h
  rw [he, yearOfDoe_of_YD hyd']
  exact hs

theorem yearOfDoe_bounds (doe : Nat) (h : doe < 146097) :
    (yearOfDoe doe).1 < 400 ∧ (yearOfDoe doe).2 ≤ 364 + longYear (yearOfDoe doe).1 := by
  obtain ⟨c, q, a, doy, hyd, he⟩ := yearOfDoe_spec doe h
  rw [he, longYear_of_YD hyd]
  obtain ⟨h1, h2, h3, h4, h5, h6, h7, h8⟩ := hyd
  simp only []
  split <;> split at h7 <;> omega

theorem yearOfDoe_zero : yearOfDoe 0 = (0, 0) := by decide
theorem yearOfDoe_last : yearOfDoe 146096 = (399, 365) := by decide

/-! ### month and day -/

/-- `nextDay` with the year abstracted to "is it a leap year": (year carry, month, day) -/
def nextMD (leap : Bool) (m d : Nat) : Bool × Nat × Nat :=
  let dim := if m = 2 then (if leap then 29 else 28)
    else if m = 4 ∨ m = 6 ∨ m = 9 ∨ m = 11 then 30 else 31
  if d < dim then (false, m, d + 1) else if m < 12 then (false, m + 1, 1) else (true, 1, 1)

theorem nextDay_eq_nextMD (dt : Date) :
    nextDay dt =
      { y := dt.y + (if (nextMD (isLeap dt.y) dt.m dt.d).1 then 1 else 0),
        m := (nextMD (isLeap dt.y) dt.m dt.d).2.1, d := (nextMD (isLeap dt.y) dt.m dt.d).2.2 } := by
  have hdim : (if dt.m = 2 then (if isLeap dt.y = true then 29 else 28)
      else if dt.m = 4 ∨ dt.m = 6 ∨ dt.m = 9 ∨ dt.m = 11 then 30 else 31) = daysInMonth dt.y dt.m := rfl
  unfold nextDay nextMD
  simp only [hdim]
  by_cases h1 : dt.d < daysInMonth dt.y dt.m
  · simp [h1]
  · by_cases h2 : dt.m < 12
    · simp [h1, h2]
    · simp [h1, h2]

/-- table: every day of the March-based year except the last one or two steps to the next table
    entry, whatever the leap status; the year carries exactly after 31 December (day 305) -/
theorem monthDay_step : ∀ doy, doy < 364 → ∀ leap : Bool,
    nextMD leap (monthDayOfDoy doy).1 (monthDayOfDoy doy).2 =
      (doy == 305, monthDayOfDoy (doy + 1)) := by decide +kernel

theorem monthDay_364 : monthDayOfDoy 364 = (2, 28) := by decide
theorem monthDay_365 : monthDayOfDoy 365 = (2, 29) := by decide
theorem monthDay_0 : monthDayOfDoy 0 = (3, 1) := by decide

/-- January and February are the days 306… of the March-based year -/
theorem monthDay_janfeb : ∀ doy, doy < 366 → ((monthDayOfDoy doy).1 ≤ 2 ↔ 306 ≤ doy) := by
  decide +kernel

/-- every table entry is a month 1..12 and a day 1..31 -/
theorem monthDay_range : ∀ doy, doy < 366 →
    1 ≤ (monthDayOfDoy doy).1 ∧ (monthDayOfDoy doy).1 ≤ 12 ∧
    1 ≤ (monthDayOfDoy doy).2 ∧ (monthDayOfDoy doy).2 ≤ 31 := by decide +kernel

/-! ### one step inside an era, and across eras -/

/-- the civil date of day-of-era `doe` of era `era` -/
def dateOfEraDoe (era : Int) (doe : Nat) : Date :=
  { y := era * 400 + (civilOfDoe doe).1, m := (civilOfDoe doe).2.1, d := (civilOfDoe doe).2.2 }

theorem civilOfDays_eq (n : Int) :
    civilOfDays n = dateOfEraDoe ((n + 693899) / 146097) ((n + 693899) % 146097).toNat := rfl

theorem longYear_le (yoe : Nat) : longYear yoe ≤ 1 := by
  unfold longYear; split <;> omega

theorem isLeap_era (era : Int) (yoe : Nat) :
    isLeap (era * 400 + ((yoe : Int) + 1)) = true ↔ longYear yoe = 1 := by
  unfold isLeap longYear
  simp only [decide_eq_true_eq]
  split <;> omega

theorem eraDoe_step (era : Int) (doe : Nat) (h : doe + 1 < 146097) :
    dateOfEraDoe era (doe + 1) = nextDay (dateOfEraDoe era doe) := by
  have hb := yearOfDoe_bounds doe (by omega)
  have hb' := yearOfDoe_bounds (doe + 1) h
  have hs := yearOfDoe_step doe h
  rw [nextDay_eq_nextMD]
  unfold dateOfEraDoe civilOfDoe
  simp only []
  generalize yearOfDoe doe = yd at *
  generalize yearOfDoe (doe + 1) = yd' at *
  obtain ⟨yoe, doy⟩ := yd
  obtain ⟨yoe', doy'⟩ := yd'
  simp only at *
  rcases hs with ⟨e1, e2⟩ | ⟨e1, e2, e3⟩
  · subst e1 e2
    by_cases hd : doy < 364
    · have j := monthDay_janfeb doy (by omega)
      have j' := monthDay_janfeb (doy + 1) (by omega)
      rw [monthDay_step doy hd]
      by_cases h305 : doy = 305
      · subst h305
        simp [j, j']
        omega
      · have hne : (doy == 305) = false := by simp [h305]
        simp only [hne, j, j', Date.mk.injEq, and_true]
        split <;> split <;> simp <;> omega
    · -- 28 February of a long year → 29 February
      have h364 : doy = 364 := by have := longYear_le yoe'; omega
      subst h364
      have hl : longYear yoe' = 1 := by have := longYear_le yoe'; omega
      have hleap := (isLeap_era era yoe').2 hl
      simp only [Nat.reduceAdd, monthDay_364, monthDay_365]
      simp [nextMD, hleap]
  · subst e1 e2
    by_cases hl : longYear yoe = 1
    · have h365 : doy = 365 := by omega
      subst h365
      have hleap := (isLeap_era era yoe).2 hl
      simp only [monthDay_365, monthDay_0]
      simp [nextMD, hleap]
    · have hl0 : longYear yoe = 0 := by have := longYear_le yoe; omega
      have h364 : doy = 364 := by omega
      subst h364
      have hleap : isLeap (era * 400 + ((yoe : Int) + 1)) = false := by
        cases hx : isLeap (era * 400 + ((yoe : Int) + 1))
        · rfl
        · exact absurd ((isLeap_era era yoe).1 hx) hl
      simp only [monthDay_364, monthDay_0]
      simp [nextMD, hleap]

theorem civilOfDoe_zero : civilOfDoe 0 = (0, 3, 1) := by decide
theorem civilOfDoe_last : civilOfDoe 146096 = (400, 2, 29) := by decide

/-- 29 February of the last year of an era is followed by 1 March of the next era -/
theorem era_rollover (era : Int) :
    dateOfEraDoe (era + 1) 0 = nextDay (dateOfEraDoe era 146096) := by
  have hleap : isLeap (era * 400 + 400) = true := by
    unfold isLeap; simp only [decide_eq_true_eq]; omega
  unfold dateOfEraDoe nextDay daysInMonth
  simp only [civilOfDoe_zero, civilOfDoe_last]
  simp [hleap]
  omega

/-- **the model's day arithmetic advances like the calendar**, for every day number -/
theorem civilOfDays_succ (n : Int) : civilOfDays (n + 1) = nextDay (civilOfDays n) := by
  rw [civilOfDays_eq, civilOfDays_eq]
  generalize hz : n + 693899 = z
  have hz' : n + 1 + 693899 = z + 1 := by omega
  rw [hz']
  have h0 : 0 ≤ z % 146097 := Int.emod_nonneg _ (by decide)
  have h1 : z % 146097 < 146097 := Int.emod_lt_of_pos _ (by decide)
  by_cases hlast : z % 146097 = 146096
  · have e1 : (z + 1) / 146097 = z / 146097 + 1 := by omega
    have e2 : (z + 1) % 146097 = 0 := by omega
    rw [e1, e2, hlast]
    exact era_rollover _
  · have e1 : (z + 1) / 146097 = z / 146097 := by omega
    have e2 : ((z + 1) % 146097).toNat = (z % 146097).toNat + 1 := by omega
    rw [e1, e2]
    exact eraDoe_step _ _ (by omega)

theorem civilOfDays_zero : civilOfDays 0 = epoch := by decide

/-- 400 years are 146 097 days -/
theorem civilOfDays_add_era (n : Int) :
    civilOfDays (n + 146097) = { civilOfDays n with y := (civilOfDays n).y + 400 } := by
  rw [civilOfDays_eq, civilOfDays_eq]
  have e1 : (n + 146097 + 693899) / 146097 = (n + 693899) / 146097 + 1 := by omega
  have e2 : (n + 146097 + 693899) % 146097 = (n + 693899) % 146097 := by omega
  rw [e1, e2]
  unfold dateOfEraDoe
  simp only [Date.mk.injEq, and_true]
  omega

theorem addDays_succ_right (k : Nat) (dt : Date) : addDays (k + 1) dt = nextDay (addDays k dt) := by
  induction k generalizing dt with
  | zero => rfl
  | succ k ih => rw [addDays, ih (nextDay dt)]; rfl

theorem civilOfDays_add (n : Int) (k : Nat) : civilOfDays (n + k) = addDays k (civilOfDays n) := by
  induction k with
  | zero => simp [addDays]
  | succ k ih =>
    rw [addDays_succ_right, ← ih, ← civilOfDays_succ]
    congr 1
    omega

/-! ### order -/

theorem Date.lt_trans {a b c : Date} (h1 : a.lt b) (h2 : b.lt c) : a.lt c := by
  unfold Date.lt at *; omega

theorem Date.lt_irrefl (a : Date) : ¬ a.lt a := by
  unfold Date.lt; omega

theorem lt_nextDay (dt : Date) : dt.lt (nextDay dt) := by
  unfold nextDay Date.lt
  split
  · simp
  · split <;> simp <;> omega

theorem lt_addDays (k : Nat) (dt : Date) : dt.lt (addDays (k + 1) dt) := by
  induction k with
  | zero => exact lt_nextDay dt
  | succ k ih => rw [addDays_succ_right]; exact Date.lt_trans ih (lt_nextDay _)

/-- later day numbers are later dates (strictly) -/
theorem civilOfDays_lt {a b : Int} (h : a < b) : (civilOfDays a).lt (civilOfDays b) := by
  obtain ⟨k, rfl⟩ : ∃ k : Nat, b = a + ((k + 1 : Nat) : Int) := ⟨(b - a - 1).toNat, by omega⟩
  rw [civilOfDays_add]
  exact lt_addDays k _

theorem civilOfDays_le {a b : Int} (h : a ≤ b) : (civilOfDays a).le (civilOfDays b) := by
  by_cases hab : a = b
  · exact Or.inl (by rw [hab])
  · exact Or.inr (civilOfDays_lt (by omega))

theorem civilOfDays_injective {a b : Int} (h : civilOfDays a = civilOfDays b) : a = b := by
  rcases Int.lt_trichotomy a b with hlt | heq | hgt
  · exact absurd (h ▸ civilOfDays_lt hlt) (Date.lt_irrefl _)
  · exact heq
  · exact absurd (h ▸ civilOfDays_lt hgt) (Date.lt_irrefl _)

/-- the year never decreases with the day number -/
theorem civilOfDays_year_mono {a b : Int} (h : a ≤ b) : (civilOfDays a).y ≤ (civilOfDays b).y := by
  rcases civilOfDays_le h with e | l
  · rw [e]; exact Int.le_refl _
  · unfold Date.lt at l; omega

/-! ### well-formedness -/

theorem daysInMonth_ge (y : Int) (m : Nat) : 28 ≤ daysInMonth y m := by
  unfold daysInMonth; split
  · split <;> omega
  · split <;> omega

theorem nextDay_valid {dt : Date} (h : dt.Valid) : (nextDay dt).Valid := by
  obtain ⟨h1, h2, h3, h4⟩ := h
  unfold nextDay
  split
  · exact ⟨h1, h2, by simp, by simpa using (by omega : dt.d + 1 ≤ daysInMonth dt.y dt.m)⟩
  · split
    · have := daysInMonth_ge dt.y (dt.m + 1)
      exact ⟨by simp, by simpa using (by omega : dt.m + 1 ≤ 12), by simp, by simpa using (by omega : 1 ≤ daysInMonth dt.y (dt.m + 1))⟩
    · have := daysInMonth_ge (dt.y + 1) 1
      exact ⟨by simp, by simp, by simp, by simpa using (by omega : 1 ≤ daysInMonth (dt.y + 1) 1)⟩

theorem addDays_valid (k : Nat) {dt : Date} (h : dt.Valid) : (addDays k dt).Valid := by
  induction k with
  | zero => exact h
  | succ k ih => rw [addDays_succ_right]; exact nextDay_valid ih

theorem eraStart_valid (era : Int) : (dateOfEraDoe era 0).Valid := by
  unfold dateOfEraDoe Date.Valid daysInMonth
  simp [civilOfDoe_zero]

theorem eraDoe_eq_addDays (era : Int) (doe : Nat) (h : doe < 146097) :
    dateOfEraDoe era doe = addDays doe (dateOfEraDoe era 0) := by
  induction doe with
  | zero => rfl
  | succ k ih => rw [addDays_succ_right, ← ih (by omega)]; exact eraDoe_step era k h

/-- every day number maps to a well-formed calendar date -/
theorem civilOfDays_valid (n : Int) : (civilOfDays n).Valid := by
  rw [civilOfDays_eq]
  have h0 : 0 ≤ (n + 693899) % 146097 := Int.emod_nonneg _ (by decide)
  have h1 : (n + 693899) % 146097 < 146097 := Int.emod_lt_of_pos _ (by decide)
  rw [eraDoe_eq_addDays _ _ (by omega)]
  exact addDays_valid _ (eraStart_valid _)

/-! ### chrono's span in day numbers -/

/-- day number of `NaiveDate::MIN` = -262143-01-01 -/
def minDay : Int := -96439723
/-- day number of `NaiveDate::MAX` = +262142-12-31 -/
def maxDay : Int := 95051805

theorem civilOfDays_minDay : civilOfDays minDay = { y := -262143, m := 1, d := 1 } := by decide
theorem civilOfDays_minDay_pred : civilOfDays (minDay - 1) = { y := -262144, m := 12, d := 31 } := by decide
theorem civilOfDays_maxDay : civilOfDays maxDay = { y := 262142, m := 12, d := 31 } := by decide
theorem civilOfDays_maxDay_succ : civilOfDays (maxDay + 1) = { y := 262143, m := 1, d := 1 } := by decide

/-- the year of a day number is inside chrono's span exactly between `minDay` and `maxDay` -/
theorem year_in_span_iff (n : Int) :
    (-262143 ≤ (civilOfDays n).y ∧ (civilOfDays n).y ≤ 262142) ↔ (-96439723 ≤ n ∧ n ≤ 95051805) := by
  have e1 : (civilOfDays (-96439724)).y = -262144 := by decide
  have e2 : (civilOfDays (-96439723)).y = -262143 := by decide
  have e3 : (civilOfDays 95051805).y = 262142 := by decide
  have e4 : (civilOfDays 95051806).y = 262143 := by decide
  constructor
  · intro ⟨hlo, hhi⟩
    refine ⟨?_, ?_⟩
    · apply Decidable.byContradiction; intro hc
      have := civilOfDays_year_mono (a := n) (b := -96439724) (by omega)
      omega
    · apply Decidable.byContradiction; intro hc
      have := civilOfDays_year_mono (a := 95051806) (b := n) (by omega)
      omega
  · intro ⟨hlo, hhi⟩
    have a := civilOfDays_year_mono hlo
    have b := civilOfDays_year_mono hhi
    omega

theorem addDaysChecked_eq (days : Int) :
    addDaysChecked days = if minDay ≤ days ∧ days ≤ maxDay then some (civilOfDays days) else none := by
  have hs := year_in_span_iff days
  unfold addDaysChecked minYear maxYear minDay maxDay
  by_cases hin : -96439723 ≤ days ∧ days ≤ 95051805
  · have hy := hs.2 hin
    rw [if_neg (by omega), if_pos hin]
    simp only []
    rw [if_neg (by omega)]
  · rw [if_neg hin]
    by_cases h32 : days < -2147483648 ∨ days > 2147483647
    · rw [if_pos h32]
    · rw [if_neg h32]
      simp only []
      rw [if_pos]
      apply Decidable.byContradiction; intro hc
      exact hin (hs.1 (by omega))

/-- chrono's seconds/days split is the plain floor division by one day -/
theorem days_of_ms (ms : Int) : (ms / 1000 - ms / 1000 % 86400) / 86400 = ms / 86400000 := by omega

theorem tod_of_ms (ms : Int) :
    ((ms / 1000 % 86400).toNat * 1000 + (ms % 1000).toNat : Nat) = (ms % 86400000).toNat := by omega

/-! ### whole-day serials -/

theorem dayNumber_false (n : Int) : dayNumber false n = if n ≥ 60 then n else n + 1 := rfl
theorem dayNumber_true (n : Int) :
    dayNumber true n = if n + 1462 ≥ 60 then n + 1462 else n + 1462 + 1 := rfl
theorem tryMilliseconds_eq (v : Int) :
    tryMilliseconds v = if v < -9223372036854775807 then none else some v := rfl
theorem asDatetimeOfMs_some {v : Int} {z : DateTime} (h : asDatetimeOfMs (.ms v) = some z) :
    civilOfMs v = some z := by
  simp only [asDatetimeOfMs, tryMilliseconds_eq] at h
  by_cases hv : v < -9223372036854775807
  · rw [if_pos hv] at h; cases h
  · rw [if_neg hv] at h; exact h
theorem timeOfSecs_zero : timeOfSecs 0 0 = { h := 0, mi := 0, s := 0, ms := 0 } := rfl

/-! ### definitional facts about cells (restatements of the model, for `simp`) -/

@[simp] theorem asDate_dateTime (s : Serial) (b : Bool) (k : Kind) :
    (Cell.dateTime s b k).asDate = (Cell.dateTime s b k).asDatetime.map (·.date) := rfl
@[simp] theorem asTime_dateTime (s : Serial) (b : Bool) (k : Kind) :
    (Cell.dateTime s b k).asTime = (Cell.dateTime s b k).asDatetime.map (·.time) := rfl
@[simp] theorem viaSerde_dateTime (s : Serial) (b : Bool) (k : Kind) :
    (Cell.dateTime s b k).viaSerde = Cell.float s := rfl
@[simp] theorem asDatetime_other : Cell.other.asDatetime = none := rfl
@[simp] theorem asDuration_other : Cell.other.asDuration = none := rfl
theorem dateStep_whole (b : Bool) (n : Int) : dateStep b (.whole n) = .ms (msOfWholeDay b n) := rfl

end Dates
