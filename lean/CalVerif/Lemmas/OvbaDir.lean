import CalVerif.Spec.OvbaDir
import CalVerif.Lemmas.Ovba
/-! Lemmas for the `dir` stream walk (property C18): field readers on encoded fields. -/
namespace Ovba

@[simp] theorem le16_length (n : Nat) : (le16 n).length = 2 := rfl
@[simp] theorem le32_length (n : Nat) : (le32 n).length = 4 := rfl

theorem u32_bytes (n : Nat) (h : n < 4294967296) :
    (UInt8.ofNat (n % 256)).toNat + 256 * (UInt8.ofNat (n / 256 % 256)).toNat +
      65536 * (UInt8.ofNat (n / 65536 % 256)).toNat + 16777216 * (UInt8.ofNat (n / 16777216)).toNat = n := by
  simp only [UInt8.toNat_ofNat']
  omega

theorem readU16_le16 (n : Nat) (r : Bytes) (h : n < 65536) : readU16 (le16 n ++ r) = .ok (n, r) := by
  simp only [le16, List.cons_append, List.nil_append, readU16, u16le_bytes n h]

theorem readU32_le32 (n : Nat) (r : Bytes) (h : n < 4294967296) : readU32 (le32 n ++ r) = .ok (n, r) := by
  simp only [le32, List.cons_append, List.nil_append, readU32, u32_bytes n h]

theorem readVar_payload (p r : Bytes) (h : p.length < 4294967296) :
    readVar (le32 p.length ++ (p ++ r)) = .ok (p, r) := by
  unfold readVar
  rw [readU32_le32 _ _ h]
  simp

theorem checkRecord_id (id : Nat) (r : Bytes) (h : id < 65536) : checkRecord id (le16 id ++ r) = .ok r := by
  unfold checkRecord
  rw [readU16_le16 _ _ h]
  simp

theorem checkVar_record (id : Nat) (p r : Bytes) (h : id < 65536) (hp : p.length < 4294967296) :
    checkVar id (record id p ++ r) = .ok (p, r) := by
  unfold checkVar record
  rw [List.append_assoc, checkRecord_id _ _ h]
  simp only [Res.bind_ok, List.append_assoc]
  exact readVar_payload p r hp

theorem skip_exact (a r : Bytes) (n : Nat) (h : a.length = n) : skip n (a ++ r) = .ok r := by
  unfold skip
  rw [if_neg (by simp; omega)]
  simp [← h]

theorem skip_app2 (a b r : Bytes) (n : Nat) (h : a.length + b.length = n) : skip n (a ++ (b ++ r)) = .ok r := by
  rw [← List.append_assoc]; exact skip_exact _ _ _ (by simp; omega)

@[simp] theorem record_length (id : Nat) (p : Bytes) : (record id p).length = 6 + p.length := by
  simp [record]; omega

theorem skipCompat_some (v : Nat) (r : Bytes) : skipCompat (record 0x004A (le32 v) ++ r) = .ok r := by
  have : record 0x004A (le32 v) ++ r = 0x4A :: 0x00 :: ((le32 4 ++ le32 v) ++ r) := by
    simp [record, le16, le32]
  rw [this]
  simp only [skipCompat]
  rw [if_pos (by decide)]
  rw [← this]
  exact skip_exact _ _ 10 (by simp)

theorem skipCompat_none (n : Nat) (pl r : Bytes) (h : n < 65536) (hn : n ≠ 0x004A) :
    skipCompat (record n pl ++ r) = .ok (record n pl ++ r) := by
  have : record n pl ++ r = UInt8.ofNat (n % 256) :: UInt8.ofNat (n / 256) :: ((le32 pl.length ++ pl) ++ r) := by
    simp [record, le16]
  rw [this]
  simp only [skipCompat, u16le_bytes n h]
  rw [if_neg hn]

theorem readCodepage_rec (cp : Nat) (r : Bytes) (h : cp < 65536) (hk : knownCodepages.contains cp = true) :
    readCodepage (record 0x0003 (le16 cp) ++ r) = .ok cp := by
  have : (record 0x0003 (le16 cp) ++ r).drop 6 = UInt8.ofNat (cp % 256) :: UInt8.ofNat (cp / 256) :: r := by
    simp [record, le16, le32]
  simp only [readCodepage, this, u16le_bytes cp h, hk, if_true]

theorem known_lt (cp : Nat) (hk : knownCodepages.contains cp = true) : cp < 65536 := by
  simp only [knownCodepages, List.contains_eq_mem, List.mem_cons, List.mem_nil_iff, or_false, decide_eq_true_eq] at hk
  omega

theorem readDirInformation_ser (p : DirSpec) (r : Bytes) (h : p.wf = true) :
    readDirInformation (serInformation p ++ r) = .ok (p.codepage, r) := by
  simp only [DirSpec.wf, Bool.and_eq_true, decide_eq_true_eq, len32] at h
  obtain ⟨⟨⟨⟨⟨⟨⟨⟨⟨⟨⟨⟨⟨⟨⟨⟨⟨⟨⟨h1, h2⟩, h3⟩, h4⟩, h5⟩, h6⟩, h7⟩, h8⟩, h9⟩, h10⟩, h11⟩, h12⟩, h13⟩, h14⟩, h15⟩, h16⟩, _⟩, _⟩, _⟩, _⟩ := h
  have hcp := known_lt _ h5
  unfold readDirInformation serInformation
  simp only [List.append_assoc]
  rw [skip_exact _ _ 10 (by simp)]
  simp only [Res.bind_ok]
  have hc : ∀ rest, skipCompat (serCompat p.compat ++
      (record 0x0002 (le32 p.lcid) ++ rest)) = .ok (record 0x0002 (le32 p.lcid) ++ rest) := by
    intro rest
    cases p.compat with
    | some v => exact skipCompat_some v _
    | none => exact skipCompat_none 2 _ _ (by omega) (by omega)
  rw [hc]
  simp only [Res.bind_ok]
  rw [skip_app2 _ _ _ 20 (by simp)]
  simp only [Res.bind_ok]
  rw [readCodepage_rec _ _ hcp h5]
  simp only [Res.bind_ok]
  rw [skip_exact _ _ 8 (by simp)]
  simp only [Res.bind_ok]
  rw [checkVar_record _ _ _ (by omega) h6]
  simp only [Res.bind_ok]
  rw [checkVar_record _ _ _ (by omega) h7]
  simp only [Res.bind_ok]
  rw [checkVar_record _ _ _ (by omega) h8]
  simp only [Res.bind_ok]
  rw [checkVar_record _ _ _ (by omega) h9]
  simp only [Res.bind_ok]
  rw [checkVar_record _ _ _ (by omega) h10]
  simp only [Res.bind_ok]
  have hs : ∀ rest, skip 32 (record 0x0007 (le32 p.helpContext) ++ (record 0x0008 (le32 p.libFlags) ++
      (le16 0x0009 ++ (le32 4 ++ (le32 p.versionMajor ++ (le16 p.versionMinor ++ rest)))))) = .ok rest := by
    intro rest
    have : record 0x0007 (le32 p.helpContext) ++ (record 0x0008 (le32 p.libFlags) ++
      (le16 0x0009 ++ (le32 4 ++ (le32 p.versionMajor ++ (le16 p.versionMinor ++ rest))))) =
      (record 0x0007 (le32 p.helpContext) ++ (record 0x0008 (le32 p.libFlags) ++
      (le16 0x0009 ++ (le32 4 ++ (le32 p.versionMajor ++ le16 p.versionMinor))))) ++ rest := by
      simp only [List.append_assoc]
    rw [this]
    exact skip_exact _ _ 32 (by simp)
  rw [hs]
  simp only [Res.bind_ok]
  rw [checkVar_record _ _ _ (by omega) h15]
  simp only [Res.bind_ok]
  rw [checkVar_record _ _ _ (by omega) h16]
  simp only [Res.bind_ok]

theorem setLibid_ok (cur : Ref) (libid r : Bytes) (hl : libid.length < 4294967296) (hk : libidOk libid = true) :
    setLibid cur (le32 libid.length ++ (libid ++ r)) = .ok (applyLibid cur libid, r) := by
  unfold setLibid
  rw [readVar_payload _ _ hl]
  simp only [Res.bind_ok, applyLibid]
  by_cases h1 : (libid.isEmpty || endsWithHashHash libid) = true
  · simp only [h1, if_true]
  · simp only [h1, Bool.false_eq_true, if_false]
    simp only [libidOk, Bool.or_eq_true] at hk
    rcases hk with hk | hk
    · exact absurd (by simpa using hk) h1
    · cases hsp : rsplitHash libid with
      | none => simp [hsp] at hk
      | some dp => rfl

theorem refName_ser (n u r : Bytes) (hn : n.length < 4294967296) (hu : u.length < 4294967296) :
    refName (le32 n.length ++ (n ++ (record 0x003E u ++ r))) = .ok (n, r) := by
  unfold refName
  rw [readVar_payload _ _ hn]
  simp only [Res.bind_ok]
  rw [checkVar_record _ _ _ (by omega) hu]
  simp only [Res.bind_ok]

theorem refRegistered_ser (cur : Ref) (libid r : Bytes) (x : Nat) (hl : libid.length < 4294967296)
    (hk : libidOk libid = true) :
    refRegistered cur (le32 x ++ (le32 libid.length ++ (libid ++ (le32 0 ++ (le16 0 ++ r))))) =
      .ok (applyLibid cur libid, r) := by
  unfold refRegistered
  rw [skip_exact _ _ 4 (by simp)]
  simp only [Res.bind_ok]
  rw [setLibid_ok _ _ _ hl hk]
  simp only [Res.bind_ok]
  rw [skip_app2 _ _ _ 6 (by simp)]
  simp only [Res.bind_ok]

theorem refProject_ser (cur : Ref) (a rel r : Bytes) (x major minor : Nat) (ha : a.length < 4294967296)
    (hr : rel.length < 4294967296) :
    refProject cur (le32 x ++ (le32 a.length ++ (a ++ (le32 rel.length ++ (rel ++ (le32 major ++ (le16 minor ++ r))))))) =
      .ok ({ cur with path := stripStarC a }, r) := by
  unfold refProject
  rw [skip_exact _ _ 4 (by simp)]
  simp only [Res.bind_ok]
  rw [readVar_payload _ _ ha]
  simp only [Res.bind_ok]
  rw [readVar_payload _ _ hr]
  simp only [Res.bind_ok]
  rw [skip_app2 _ _ _ 6 (by simp)]
  simp only [Res.bind_ok]

theorem refControlExt_ser (ext : Option (Bytes × Bytes)) (r : Bytes)
    (he : (match ext with | some (n, u) => len32 n && len32 u | none => true) = true) :
    ∃ t rest, readU16 (serExtName ext ++ (le16 0x0030 ++ r)) = .ok (t, rest) ∧ refControlExt t rest = .ok r := by
  cases ext with
  | none =>
    refine ⟨0x0030, r, ?_, by simp [refControlExt]⟩
    simp only [serExtName, List.nil_append]
    exact readU16_le16 _ _ (by omega)
  | some nu =>
    obtain ⟨n, u⟩ := nu
    simp only [len32, Bool.and_eq_true, decide_eq_true_eq] at he
    refine ⟨0x0016, le32 n.length ++ (n ++ (record 0x003E u ++ (le16 0x0030 ++ r))), ?_, ?_⟩
    · simp only [serExtName, record, List.append_assoc]
      exact readU16_le16 _ _ (by omega)
    · simp only [refControlExt, if_true]
      rw [readVar_payload _ _ he.1]
      simp only [Res.bind_ok]
      rw [checkVar_record _ _ _ (by omega) he.2]
      simp only [Res.bind_ok]
      exact checkRecord_id _ _ (by omega)

theorem skip_app3 (a b c r : Bytes) (n : Nat) (h : a.length + b.length + c.length = n) :
    skip n (a ++ (b ++ (c ++ r))) = .ok r := by
  rw [← List.append_assoc, ← List.append_assoc]; exact skip_exact _ _ _ (by simp; omega)

theorem skip_app4 (a b c d r : Bytes) (n : Nat) (h : a.length + b.length + c.length + d.length = n) :
    skip n (a ++ (b ++ (c ++ (d ++ r)))) = .ok r := by
  rw [← List.append_assoc, ← List.append_assoc, ← List.append_assoc]; exact skip_exact _ _ _ (by simp; omega)

theorem refControl_ser (cur : Ref) (tw ext guid r : Bytes) (extName : Option (Bytes × Bytes)) (x y cookie : Nat)
    (htw : tw.length < 4294967296) (hktw : libidOk tw = true)
    (he : (match extName with | some (n, u) => len32 n && len32 u | none => true) = true)
    (hext : ext.length < 4294967296) (hkext : libidOk ext = true) (hg : guid.length = 16) :
    refControl cur (le32 x ++ (le32 tw.length ++ (tw ++ (le32 0 ++ (le16 0 ++
      (serExtName extName ++ (le16 0x0030 ++ (le32 y ++ (le32 ext.length ++ (ext ++ (le32 0 ++ (le16 0 ++
      (guid ++ (le32 cookie ++ r)))))))))))))) = .ok (applyLibid (applyLibid cur tw) ext, r) := by
  unfold refControl
  rw [skip_exact _ _ 4 (by simp)]
  simp only [Res.bind_ok]
  rw [setLibid_ok _ _ _ htw hktw]
  simp only [Res.bind_ok]
  rw [skip_app2 _ _ _ 6 (by simp)]
  simp only [Res.bind_ok]
  obtain ⟨t, rest, h1, h2⟩ := refControlExt_ser extName
    (le32 y ++ (le32 ext.length ++ (ext ++ (le32 0 ++ (le16 0 ++ (guid ++ (le32 cookie ++ r))))))) he
  rw [h1]
  simp only [Res.bind_ok]
  rw [h2]
  simp only [Res.bind_ok]
  rw [skip_exact _ _ 4 (by simp)]
  simp only [Res.bind_ok]
  rw [setLibid_ok _ _ _ hext hkext]
  simp only [Res.bind_ok]
  rw [skip_app4 _ _ _ _ _ 26 (by simp [hg])]
  simp only [Res.bind_ok]

/-- number of loop iterations of `Reference::from_stream` one reference takes -/
def refIters (s : RefSpec) : Nat :=
  match s.body with
  | .control (some _) _ _ _ _ _ => 3
  | _ => 2

/-- the loop of `Reference::from_stream` over the records of one reference -/
theorem readReferences_one (s : RefSpec) (r : Bytes) (refs : List Ref) (cur : Ref) (fuel : Nat)
    (hw : s.wf = true) :
    readReferences (fuel + refIters s) (serRef s ++ r) refs cur =
      readReferences fuel r (pushIfNamed refs cur) (refResult s) := by
  obtain ⟨name, nameU, body⟩ := s
  simp only [RefSpec.wf, Bool.and_eq_true, Bool.not_eq_true', len32, decide_eq_true_eq] at hw
  obtain ⟨⟨⟨_, hn⟩, hu⟩, hb⟩ := hw
  have hname : ∀ f rest, readReferences (f + 1) (record 0x0016 name ++ (record 0x003E nameU ++ rest)) refs cur =
      readReferences f rest (pushIfNamed refs cur) { name := name, description := name, path := [] } := by
    intro f rest
    simp only [readReferences, record, List.append_assoc]
    rw [readU16_le16 _ _ (by omega)]
    simp only [Nat.reduceEqDiff, if_false, if_true]
    have := refName_ser name nameU rest hn hu
    simp only [record, List.append_assoc] at this
    rw [this]
  cases body with
  | registered libid =>
    simp only [RefBody.wf, Bool.and_eq_true, len32, decide_eq_true_eq] at hb
    simp only [refIters, serRef, serRefBody, List.append_assoc, refResult]
    rw [hname (fuel + 1)]
    simp only [readReferences]
    rw [readU16_le16 _ _ (by omega)]
    simp only [Nat.reduceEqDiff, if_false, if_true]
    rw [refRegistered_ser _ _ _ _ hb.1 hb.2]
  | project a rel major minor =>
    simp only [RefBody.wf, Bool.and_eq_true, len32, decide_eq_true_eq] at hb
    simp only [refIters, serRef, serRefBody, List.append_assoc, refResult]
    rw [hname (fuel + 1)]
    simp only [readReferences]
    rw [readU16_le16 _ _ (by omega)]
    simp only [Nat.reduceEqDiff, if_false, if_true]
    rw [refProject_ser _ _ _ _ _ _ _ hb.1.1.1 hb.1.1.2]
  | control original tw extName ext guid cookie =>
    simp only [RefBody.wf, Bool.and_eq_true, len32, decide_eq_true_eq] at hb
    obtain ⟨⟨⟨⟨⟨⟨⟨ho, htw⟩, hktw⟩, he⟩, hext⟩, hkext⟩, hg⟩, _⟩ := hb
    cases original with
    | none =>
      simp only [refIters, serRef, serRefBody, serOriginal, List.nil_append, List.append_assoc, refResult]
      rw [hname (fuel + 1)]
      simp only [readReferences]
      rw [readU16_le16 _ _ (by omega)]
      simp only [Nat.reduceEqDiff, if_false, if_true]
      rw [refControl_ser _ _ _ _ _ _ _ _ _ htw hktw he hext hkext hg]
    | some o =>
      simp only [Bool.and_eq_true, len32, decide_eq_true_eq] at ho
      simp only [refIters, serRef, serRefBody, serOriginal, record, List.append_assoc, refResult]
      have := hname (fuel + 2)
      simp only [record, List.append_assoc] at this
      rw [this]
      simp only [readReferences]
      rw [readU16_le16 _ _ (by omega)]
      simp only [Nat.reduceEqDiff, if_false, if_true]
      rw [setLibid_ok _ _ _ ho.1 ho.2]
      simp only []
      rw [readU16_le16 _ _ (by omega)]
      simp only [Nat.reduceEqDiff, if_false, if_true]
      rw [refControl_ser _ _ _ _ _ _ _ _ _ htw hktw he hext hkext hg]

/-- the reference list the loop builds: finished references are pushed when the next one starts -/
def finalRefs (acc : List Ref) (cur : Ref) : List RefSpec → List Ref
  | [] => pushIfNamed acc cur
  | s :: ss => finalRefs (pushIfNamed acc cur) (refResult s) ss

def refItersAll (l : List RefSpec) : Nat := (l.map refIters).sum

theorem readReferences_all : ∀ (l : List RefSpec) (r : Bytes) (acc : List Ref) (cur : Ref) (fuel : Nat),
    l.all RefSpec.wf = true →
    readReferences (fuel + 1 + refItersAll l) (l.flatMap serRef ++ (le16 0x000F ++ r)) acc cur =
      .ok (finalRefs acc cur l, r)
  | [], r, acc, cur, fuel, _ => by
    simp only [refItersAll, List.map_nil, List.sum_nil, Nat.add_zero, List.flatMap_nil, List.nil_append,
      readReferences, finalRefs]
    rw [readU16_le16 _ _ (by omega)]
    simp
  | s :: ss, r, acc, cur, fuel, hw => by
    simp only [List.all_cons, Bool.and_eq_true] at hw
    have : fuel + 1 + refItersAll (s :: ss) = (fuel + 1 + refItersAll ss) + refIters s := by
      simp [refItersAll]; omega
    rw [this, List.flatMap_cons, List.append_assoc, readReferences_one s _ acc cur _ hw.1]
    exact readReferences_all ss r _ _ fuel hw.2

theorem applyLibid_name (r : Ref) (l : Bytes) : (applyLibid r l).name = r.name := by
  unfold applyLibid
  split
  · rfl
  · split <;> rfl

theorem refResult_name (s : RefSpec) : (refResult s).name = s.name := by
  obtain ⟨name, nameU, body⟩ := s
  cases body with
  | registered l => simp [refResult, applyLibid_name]
  | project a r ma mi => simp [refResult]
  | control o tw e ext g c =>
    cases o <;> simp [refResult, applyLibid_name]

/-- with non-empty names every reference appears, in order -/
theorem finalRefs_named : ∀ (l : List RefSpec) (acc : List Ref) (cur : Ref), l.all RefSpec.wf = true →
    finalRefs acc cur l = pushIfNamed acc cur ++ l.map refResult
  | [], acc, cur, _ => by simp [finalRefs]
  | s :: ss, acc, cur, hw => by
    simp only [List.all_cons, Bool.and_eq_true] at hw
    rw [finalRefs, finalRefs_named ss _ _ hw.2]
    have hne : (refResult s).name.isEmpty = false := by
      rw [refResult_name]
      have := hw.1
      simp only [RefSpec.wf, Bool.and_eq_true, Bool.not_eq_true'] at this
      exact this.1.1.1
    cases ss with
    | nil => simp [pushIfNamed, hne]
    | cons s2 ss2 => simp [pushIfNamed, hne]

theorem moduleTail_step (f id : Nat) (rest : Bytes) (h : id = 0x0025 ∨ id = 0x0028) :
    moduleTail (f + 1) (le32 0 ++ (le16 id ++ rest)) = moduleTail f rest := by
  simp only [moduleTail]
  rw [skip_exact _ _ 4 (by simp)]
  simp only [Res.bind_ok]
  rw [readU16_le16 _ _ (by omega)]
  simp only [Res.bind_ok]
  rcases h with rfl | rfl <;> simp

theorem moduleTail_end (f : Nat) (rest : Bytes) :
    moduleTail (f + 1) (le32 0 ++ (le16 0x002B ++ rest)) = .ok rest := by
  simp only [moduleTail]
  rw [skip_exact _ _ 4 (by simp)]
  simp only [Res.bind_ok]
  rw [readU16_le16 _ _ (by omega)]
  simp

theorem moduleTail_ser (ro pv : Bool) (f : Nat) (r : Bytes) :
    moduleTail (f + 3) (le32 0 ++ ((if ro then record 0x0025 [] else []) ++ ((if pv then record 0x0028 [] else []) ++
      (record 0x002B [] ++ r)))) = .ok (le32 0 ++ r) := by
  cases ro <;> cases pv <;>
    simp only [record, List.length_nil, List.append_nil, List.nil_append, List.append_assoc, if_true, if_false,
      Bool.false_eq_true]
  · exact moduleTail_end _ _
  · rw [moduleTail_step _ _ _ (.inr rfl)]; exact moduleTail_end _ _
  · rw [moduleTail_step _ _ _ (.inl rfl)]; exact moduleTail_end _ _
  · rw [moduleTail_step _ _ _ (.inl rfl), moduleTail_step _ _ _ (.inr rfl)]; exact moduleTail_end _ _

theorem moduleTail_mono : ∀ (f g : Nat) (s r : Bytes), moduleTail f s = .ok r → f ≤ g → moduleTail g s = .ok r
  | 0, _, _, _, h, _ => by simp [moduleTail] at h
  | f + 1, 0, _, _, _, hg => by omega
  | f + 1, g + 1, s, r, h, hg => by
    simp only [moduleTail] at h ⊢
    cases hs : skip 4 s with
    | ok s1 =>
      rw [hs] at h
      simp only [Res.bind_ok] at h ⊢
      cases hu : readU16 s1 with
      | ok p =>
        rw [hu] at h
        simp only [Res.bind_ok] at h ⊢
        split at h
        · rw [if_pos (by assumption)]
          exact moduleTail_mono f g _ _ h (by omega)
        · rw [if_neg (by assumption)]
          exact h
      | err e => rw [hu] at h; simp at h
      | panic e => rw [hu] at h; simp at h
      | outOfFuel => rw [hu] at h; simp at h
    | err e => rw [hs] at h; simp at h
    | panic e => rw [hs] at h; simp at h
    | outOfFuel => rw [hs] at h; simp at h

theorem readModule_ser (m : ModuleSpec) (r : Bytes) (hw : m.wf = true) :
    readModule (serModule m ++ r) = .ok (toModule m, r) := by
  simp only [ModuleSpec.wf, Bool.and_eq_true, len32, decide_eq_true_eq] at hw
  obtain ⟨⟨⟨⟨⟨⟨⟨⟨h1, h2⟩, h3⟩, h4⟩, h5⟩, h6⟩, h7⟩, h8⟩, h9⟩ := hw
  unfold readModule serModule
  simp only [List.append_assoc]
  rw [checkVar_record _ _ _ (by omega) h1]
  simp only [Res.bind_ok]
  rw [checkVar_record _ _ _ (by omega) h2]
  simp only [Res.bind_ok]
  rw [checkVar_record _ _ _ (by omega) h3]
  simp only [Res.bind_ok]
  rw [checkVar_record _ _ _ (by omega) h4]
  simp only [Res.bind_ok]
  rw [checkVar_record _ _ _ (by omega) h5]
  simp only [Res.bind_ok]
  rw [checkVar_record _ _ _ (by omega) h6]
  simp only [Res.bind_ok]
  -- MODULEOFFSET
  have e1 : ∀ rest, record 0x0031 (le32 m.offset) ++ rest = le16 0x0031 ++ (le32 4 ++ (le32 m.offset ++ rest)) := by
    intro rest; simp [record]
  rw [e1, checkRecord_id _ _ (by omega)]
  simp only [Res.bind_ok]
  rw [skip_exact _ _ 4 (by simp)]
  simp only [Res.bind_ok]
  rw [readU32_le32 _ _ h7]
  simp only [Res.bind_ok]
  -- MODULEHELPCONTEXT
  have e2 : ∀ rest, record 0x001E (le32 m.helpContext) ++ rest = le16 0x001E ++ ((le32 4 ++ le32 m.helpContext) ++ rest) := by
    intro rest; simp [record]
  rw [e2, checkRecord_id _ _ (by omega)]
  simp only [Res.bind_ok]
  rw [skip_exact _ _ 8 (by simp)]
  simp only [Res.bind_ok]
  -- MODULECOOKIE
  have e3 : ∀ rest, record 0x002C (le16 m.cookie) ++ rest = le16 0x002C ++ ((le32 2 ++ le16 m.cookie) ++ rest) := by
    intro rest; simp [record]
  rw [e3, checkRecord_id _ _ (by omega)]
  simp only [Res.bind_ok]
  rw [skip_exact _ _ 6 (by simp)]
  simp only [Res.bind_ok]
  -- MODULETYPE
  have e4 : ∀ rest, record (if m.document = true then 0x0022 else 0x0021) [] ++ rest =
      le16 (if m.document = true then 0x0022 else 0x0021) ++ (le32 0 ++ rest) := by
    intro rest; simp [record]
  rw [e4, readU16_le16 _ _ (by split <;> omega)]
  simp only [Res.bind_ok]
  have ht : ¬ ((if m.document = true then 0x0022 else 0x0021) ≠ 0x0021 ∧ (if m.document = true then 0x0022 else 0x0021) ≠ 0x0022) := by
    split <;> omega
  rw [if_neg ht]
  have htail := moduleTail_ser m.readOnly m.priv 0 r
  rw [moduleTail_mono _ _ _ _ htail (by simp [record]; omega)]
  simp only [Res.bind_ok]
  rw [skip_exact _ _ 4 (by simp)]
  simp only [Res.bind_ok, toModule]

theorem readModuleList_ser : ∀ (l : List ModuleSpec) (r : Bytes) (acc : List Module),
    l.all ModuleSpec.wf = true →
    readModuleList l.length (l.flatMap serModule ++ r) acc = .ok (acc ++ l.map toModule, r)
  | [], r, acc, _ => by simp [readModuleList]
  | m :: ms, r, acc, hw => by
    simp only [List.all_cons, Bool.and_eq_true] at hw
    simp only [List.length_cons, readModuleList, List.flatMap_cons, List.append_assoc]
    rw [readModule_ser m _ hw.1]
    simp only [Res.bind_ok]
    rw [readModuleList_ser ms r _ hw.2]
    simp

theorem serRef_length (s : RefSpec) : refIters s ≤ (serRef s).length := by
  have : refIters s ≤ 3 := by unfold refIters; split <;> omega
  simp [serRef]; omega

theorem refItersAll_le : ∀ (l : List RefSpec), refItersAll l ≤ (l.flatMap serRef).length
  | [] => by simp [refItersAll]
  | s :: ss => by
    have := refItersAll_le ss
    have := serRef_length s
    simp only [refItersAll, List.map_cons, List.sum_cons, List.flatMap_cons, List.length_append] at *
    omega

theorem readModules_ser (p : DirSpec) (hw : p.wf = true) :
    readModules (serModules p) = .ok (p.modules.map toModule, record 0x0010 []) := by
  simp only [DirSpec.wf, Bool.and_eq_true, decide_eq_true_eq] at hw
  obtain ⟨⟨⟨_, hc⟩, hn⟩, hm⟩ := hw
  unfold readModules serModules
  rw [skip_exact _ _ 4 (by simp)]
  simp only [Res.bind_ok]
  rw [readU16_le16 _ _ hn]
  simp only [Res.bind_ok]
  rw [skip_exact _ _ 8 (by simp)]
  simp only [Res.bind_ok]
  rw [readModuleList_ser _ _ _ hm]
  simp

def emptyRef : Ref := { name := [], description := [], path := [] }

theorem dirWalk_ser (p : DirSpec) (hw : p.wf = true) :
    dirWalk (serDir p) = .ok (p.codepage, finalRefs [] emptyRef p.refs, p.modules.map toModule) := by
  have hrefs : p.refs.all RefSpec.wf = true := by
    simp only [DirSpec.wf, Bool.and_eq_true] at hw
    exact hw.1.1.1.2
  unfold dirWalk serDir
  rw [readDirInformation_ser p _ hw]
  simp only [Res.bind_ok]
  have hle := refItersAll_le p.refs
  obtain ⟨k, hk⟩ : ∃ k, (p.refs.flatMap serRef ++ (le16 0x000F ++ serModules p)).length + 1 = k + 1 + refItersAll p.refs :=
    ⟨(p.refs.flatMap serRef ++ (le16 0x000F ++ serModules p)).length - refItersAll p.refs, by
      simp only [List.length_append]; omega⟩
  rw [hk, readReferences_all p.refs _ _ _ k hrefs]
  simp only [Res.bind_ok]
  rw [readModules_ser p hw]
  simp [emptyRef]

end Ovba
