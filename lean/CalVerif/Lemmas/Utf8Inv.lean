import CalVerif.Prim.Utf8
/-! `Prim/Utf8` proves `utf8Decode (utf8Encode l) = some l`; here the converse: the decoder is strict, so a byte
    string that decodes IS the encoding of what it decodes to (used by the xlsb relationship join, C03). -/
namespace Utf8

theorem toNat_ofNat_valid (n : Nat) (h : n < 0xD800 ∨ (0xE000 ≤ n ∧ n < 0x110000)) : (Char.ofNat n).toNat = n := by
  have hv : n.isValidChar := by
    unfold Nat.isValidChar; omega
  unfold Char.ofNat
  rw [dif_pos hv]
  rfl

theorem map_some {α β : Type} (o : Option α) (g : α → β) (y : β) (h : o.map g = some y) : ∃ x, o = some x ∧ g x = y := by
  cases o with
  | none => cases h
  | some x => exact ⟨x, rfl, by simpa using h⟩

/-- the decoder is strict: whatever decodes is the encoding of what it decodes to -/
theorem encode_of_decodeAux : ∀ (f : Nat) (bs : List Nat) (cs : List Char), (∀ b ∈ bs, b < 256) →
    decodeAux f bs = some cs → utf8Encode cs = bs
  | 0, [], cs, _, h => by simp [decodeAux] at h; subst h; rfl
  | _ + 1, [], cs, _, h => by simp [decodeAux] at h; subst h; rfl
  | 0, _ :: _, _, _, h => by simp [decodeAux] at h
  | f + 1, b0 :: rest, cs, hb, h => by
    have hb0 := hb b0 (List.mem_cons_self ..)
    have hrest : ∀ b ∈ rest, b < 256 := fun b m => hb b (List.mem_cons_of_mem _ m)
    unfold decodeAux at h
    split at h
    · rename_i h1
      obtain ⟨cs', hd, rfl⟩ := map_some _ _ _ h
      have ih := encode_of_decodeAux f rest cs' hrest hd
      simp only [utf8Encode, List.flatMap_cons] at ih ⊢
      rw [ih, toNat_ofNat_valid b0 (by omega)]
      simp [encodeNat, h1]
    · split at h
      · rename_i h1 h2
        split at h
        · rename_i b1 rest'
          split at h
          · rename_i hc
            have hb1 := hrest b1 (List.mem_cons_self ..)
            simp only [isCont, Bool.and_eq_true, decide_eq_true_eq] at hc
            obtain ⟨cs', hd, rfl⟩ := map_some _ _ _ h
            have ih := encode_of_decodeAux f rest' cs' (fun b m => hrest b (List.mem_cons_of_mem _ m)) hd
            simp only [utf8Encode, List.flatMap_cons] at ih ⊢
            rw [ih, toNat_ofNat_valid _ (by omega)]
            have e1 : ¬ ((b0 - 192) * 64 + (b1 - 128) < 128) := by omega
            have e2 : (b0 - 192) * 64 + (b1 - 128) < 2048 := by omega
            have a0 : 192 + ((b0 - 192) * 64 + (b1 - 128)) / 64 = b0 := by omega
            have a1 : 128 + ((b0 - 192) * 64 + (b1 - 128)) % 64 = b1 := by omega
            simp only [encodeNat, if_neg e1, if_pos e2, List.cons_append, List.nil_append, a0, a1]
          · cases h
        · cases h
      · split at h
        · rename_i h1 h2 h3
          split at h
          · rename_i b1 b2 rest'
            simp only at h
            split at h
            · rename_i hc
              have hb1 := hrest b1 (List.mem_cons_self ..)
              have hb2 := hrest b2 (List.mem_cons_of_mem _ (List.mem_cons_self ..))
              simp only [isCont, validScalar, Bool.and_eq_true, Bool.or_eq_true, decide_eq_true_eq] at hc
              obtain ⟨cs', hd, rfl⟩ := map_some _ _ _ h
              have ih := encode_of_decodeAux f rest' cs'
                (fun b m => hrest b (List.mem_cons_of_mem _ (List.mem_cons_of_mem _ m))) hd
              simp only [utf8Encode, List.flatMap_cons] at ih ⊢
              rw [ih, toNat_ofNat_valid _ (by omega)]
              have e1 : ¬ ((b0 - 224) * 4096 + (b1 - 128) * 64 + (b2 - 128) < 128) := by omega
              have e2 : ¬ ((b0 - 224) * 4096 + (b1 - 128) * 64 + (b2 - 128) < 2048) := by omega
              have e3 : (b0 - 224) * 4096 + (b1 - 128) * 64 + (b2 - 128) < 65536 := by omega
              have a0 : 224 + ((b0 - 224) * 4096 + (b1 - 128) * 64 + (b2 - 128)) / 4096 = b0 := by omega
              have a1 : 128 + ((b0 - 224) * 4096 + (b1 - 128) * 64 + (b2 - 128)) / 64 % 64 = b1 := by omega
              have a2 : 128 + ((b0 - 224) * 4096 + (b1 - 128) * 64 + (b2 - 128)) % 64 = b2 := by omega
              simp only [encodeNat, if_neg e1, if_neg e2, if_pos e3, List.cons_append, List.nil_append, a0, a1, a2]
            · cases h
          · cases h
        · split at h
          · rename_i h1 h2 h3 h4
            split at h
            · rename_i b1 b2 b3 rest'
              simp only at h
              split at h
              · rename_i hc
                have hb1 := hrest b1 (List.mem_cons_self ..)
                have hb2 := hrest b2 (List.mem_cons_of_mem _ (List.mem_cons_self ..))
                have hb3 := hrest b3 (List.mem_cons_of_mem _ (List.mem_cons_of_mem _ (List.mem_cons_self ..)))
                simp only [isCont, Bool.and_eq_true, decide_eq_true_eq] at hc
                obtain ⟨cs', hd, rfl⟩ := map_some _ _ _ h
                have ih := encode_of_decodeAux f rest' cs'
                  (fun b m => hrest b (List.mem_cons_of_mem _ (List.mem_cons_of_mem _ (List.mem_cons_of_mem _ m)))) hd
                simp only [utf8Encode, List.flatMap_cons] at ih ⊢
                rw [ih, toNat_ofNat_valid _ (by omega)]
                have e1 : ¬ ((b0 - 240) * 262144 + (b1 - 128) * 4096 + (b2 - 128) * 64 + (b3 - 128) < 128) := by omega
                have e2 : ¬ ((b0 - 240) * 262144 + (b1 - 128) * 4096 + (b2 - 128) * 64 + (b3 - 128) < 2048) := by omega
                have e3 : ¬ ((b0 - 240) * 262144 + (b1 - 128) * 4096 + (b2 - 128) * 64 + (b3 - 128) < 65536) := by omega
                have a0 : 240 + ((b0 - 240) * 262144 + (b1 - 128) * 4096 + (b2 - 128) * 64 + (b3 - 128)) / 262144 = b0 := by omega
                have a1 : 128 + ((b0 - 240) * 262144 + (b1 - 128) * 4096 + (b2 - 128) * 64 + (b3 - 128)) / 4096 % 64 = b1 := by omega
                have a2 : 128 + ((b0 - 240) * 262144 + (b1 - 128) * 4096 + (b2 - 128) * 64 + (b3 - 128)) / 64 % 64 = b2 := by omega
                have a3 : 128 + ((b0 - 240) * 262144 + (b1 - 128) * 4096 + (b2 - 128) * 64 + (b3 - 128)) % 64 = b3 := by omega
                simp only [encodeNat, if_neg e1, if_neg e2, if_neg e3, List.cons_append, List.nil_append, a0, a1, a2, a3]
              · cases h
            · cases h
          · cases h

theorem encode_of_decode (bs : List Nat) (cs : List Char) (hb : ∀ b ∈ bs, b < 256) (h : utf8Decode bs = some cs) :
    utf8Encode cs = bs := encode_of_decodeAux _ bs cs hb h

end Utf8
