import CalVerif.Lemmas.Metadata
import CalVerif.Model.MetadataFormula
import CalVerif.Lemmas.PtgBytes
/-! Lemmas for Props/C16.lean: the model's XTI → sheet resolution against the independent specification
    (`MetaEnc.Refers`, `MetaEnc.NameMeets`), and the formula decoder of C14 (`Ptg.definedNameXls`, with C14's
    `Formula.cellRef_colRel`) instantiated for the parameter `pd` of the metadata model. -/
open Meta MetaEnc MetaLemmas
open Biff (byte le16 le32)

namespace MetaLemmas

theorem declaredXtis_eq (recs : List GRec) : declaredXtis recs = (declaredXtiTriples recs).map (fun e => asI16 e.2.1) := by
  induction recs with
  | nil => rfl
  | cons r rs ih => cases r <;> simp [declaredXtis, declaredXtiTriples, ih]

/-- the model's resolution meets the specification of a 3-D reference -/
theorem resolveName_meets (sheets : List (Nat × Sheet Text)) (triples : List (Nat × Nat × Nat)) (decl : Text × Option Nat × Text) :
    NameMeets (sheets.map (·.2.name)) triples decl (resolveName (triples.map (fun e => asI16 e.2.1)) sheets decl) := by
  obtain ⟨n, ix, t⟩ := decl
  cases ix with
  | none => exact ⟨rfl, rfl⟩
  | some ixti =>
    refine ⟨rfl, ?_, ?_⟩
    · rintro s ⟨e, k, he, hk, hs⟩
      simp only [resolveName, xtiSheet, List.getElem?_map, he, Option.map_some, hk]
      have : ¬ ((k : Int) < 0) := by omega
      simp only [this, if_false, Int.toNat_natCast]
      rw [List.getElem?_map] at hs
      cases hsk : sheets[k]? with
      | none => simp [hsk] at hs
      | some x => simp [hsk] at hs; simp [hs]
    · intro hno
      simp only [resolveName, xtiSheet, List.getElem?_map]
      cases he : triples[ixti]? with
      | none => simp [refText]
      | some e =>
        simp only [Option.map_some]
        by_cases hneg : asI16 e.2.1 < 0
        · simp [hneg, refText]
        · simp only [hneg, if_false]
          cases hsk : sheets[(asI16 e.2.1).toNat]? with
          | none => simp [refText]
          | some x =>
            exfalso
            apply hno
            refine ⟨x.2.name, e, (asI16 e.2.1).toNat, he, ?_, ?_⟩
            · omega
            · rw [List.getElem?_map, hsk]; rfl

theorem pdC14_ref3d (op : UInt8) (hop : op = 0x3A ∨ op = 0x5A ∨ op = 0x7A) (ixti : Nat) (hi : ixti < 65536)
    (a : Formula.CellRef) (hr : a.row < 65536) (hcol : a.col < 16384) :
    pdC14 (op :: (Biff.le16 ixti ++ (Biff.le16 a.row ++ Biff.le16 (Formula.colRel a)))) =
      .ok (some ixti, textOfChars (Formula.cellText a)) := by
  have hcr : Formula.colRel a < 65536 := by unfold Formula.colRel; split <;> split <;> omega
  have h1 : Ptg.u16 (op :: (Biff.le16 ixti ++ (Biff.le16 a.row ++ Biff.le16 (Formula.colRel a)))) 1 = ixti := by
    simp [Ptg.u16, Ptg.byteAt, Biff.le16, Biff.byte]; omega
  have h3 : Ptg.u16 (op :: (Biff.le16 ixti ++ (Biff.le16 a.row ++ Biff.le16 (Formula.colRel a)))) 3 = a.row := by
    simp [Ptg.u16, Ptg.byteAt, Biff.le16, Biff.byte]; omega
  have h5 : Ptg.u16 (op :: (Biff.le16 ixti ++ (Biff.le16 a.row ++ Biff.le16 (Formula.colRel a)))) 5 = Formula.colRel a := by
    simp [Ptg.u16, Ptg.byteAt, Biff.le16, Biff.byte]; omega
  have hlen : (op :: (Biff.le16 ixti ++ (Biff.le16 a.row ++ Biff.le16 (Formula.colRel a)))).length = 7 := by simp [Biff.le16]
  unfold pdC14 Ptg.definedNameXls
  rcases hop with rfl | rfl | rfl <;>
    simp [Ptg.needDn, Ptg.needLen, hlen, h1, h3, h5, Formula.cellRef_colRel a.row a hcol rfl]

theorem pdC14_area3d (op : UInt8) (hop : op = 0x3B ∨ op = 0x5B ∨ op = 0x7B) (ixti : Nat) (hi : ixti < 65536)
    (a b : Formula.CellRef) (hra : a.row < 65536) (hrb : b.row < 65536) (hca : a.col < 16384) (hcb : b.col < 16384) :
    pdC14 (op :: (Biff.le16 ixti ++ (Biff.le16 a.row ++ (Biff.le16 b.row ++ (Biff.le16 (Formula.colRel a) ++ Biff.le16 (Formula.colRel b)))))) =
      .ok (some ixti, textOfChars (Formula.cellText a ++ ':' :: Formula.cellText b)) := by
  have hcra : Formula.colRel a < 65536 := by unfold Formula.colRel; split <;> split <;> omega
  have hcrb : Formula.colRel b < 65536 := by unfold Formula.colRel; split <;> split <;> omega
  generalize hR : (op :: (Biff.le16 ixti ++ (Biff.le16 a.row ++ (Biff.le16 b.row ++ (Biff.le16 (Formula.colRel a) ++ Biff.le16 (Formula.colRel b)))))) = R
  have h1 : Ptg.u16 R 1 = ixti := by subst hR; simp [Ptg.u16, Ptg.byteAt, Biff.le16, Biff.byte]; omega
  have h3 : Ptg.u16 R 3 = a.row := by subst hR; simp [Ptg.u16, Ptg.byteAt, Biff.le16, Biff.byte]; omega
  have h5 : Ptg.u16 R 5 = b.row := by subst hR; simp [Ptg.u16, Ptg.byteAt, Biff.le16, Biff.byte]; omega
  have h7 : Ptg.u16 R 7 = Formula.colRel a := by subst hR; simp [Ptg.u16, Ptg.byteAt, Biff.le16, Biff.byte]; omega
  have h9 : Ptg.u16 R 9 = Formula.colRel b := by subst hR; simp [Ptg.u16, Ptg.byteAt, Biff.le16, Biff.byte]; omega
  have hlen : R.length = 11 := by subst hR; simp [Biff.le16]
  have hhead : ∃ tl, R = op :: tl := by subst hR; exact ⟨_, rfl⟩
  obtain ⟨tl, htl⟩ := hhead
  unfold pdC14 Ptg.definedNameXls
  rw [htl] at h1 h3 h5 h7 h9 hlen ⊢
  rcases hop with rfl | rfl | rfl <;>
    simp [Ptg.needDn, Ptg.needLen, hlen, h1, h3, h5, h7, h9, Formula.cellRef_colRel a.row a hca rfl,
      Formula.cellRef_colRel b.row b hcb rfl]

theorem declaredNames_append (pd : Bytes → Res (Option Nat × Text)) (pre post : List GRec) :
    declaredNames pd (pre ++ post) = declaredNames pd pre ++ declaredNames pd post := by
  induction pre with
  | nil => rfl
  | cons r rs ih => cases r <;> simp [declaredNames, ih]

end MetaLemmas
