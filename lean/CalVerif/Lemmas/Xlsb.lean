import CalVerif.Spec.XlsbEnc
import CalVerif.Lemmas.Range
/-! Helper lemmas for C03: little-endian fields, the cell payload layout as the reader sees it, the arms of
    `Xlsb.interpret` on encoder output. Property theorems are in `Props/C03.lean`. -/

namespace Xlsb

theorem toNat_ofNat' (n : Nat) : (UInt8.ofNat n).toNat = n % 256 := by simp

theorem u32le_cons4 (a b c d : UInt8) (rest : Bytes) :
    u32le (a :: b :: c :: d :: rest) = a.toNat + 256 * b.toNat + 65536 * c.toNat + 16777216 * d.toNat := by
  simp [u32le, List.getD]

theorem u32le_le32 (n : Nat) (h : n < 4294967296) (rest : Bytes) : u32le (le32 n ++ rest) = n := by
  simp only [le32, List.cons_append, List.nil_append, u32le_cons4, toNat_ofNat']
  omega

theorem le32_length (n : Nat) : (le32 n).length = 4 := rfl

theorem units_unitsBytes (us : List Nat) (h : ∀ u ∈ us, u < 65536) : units (unitsBytes us) = us := by
  induction us with
  | nil => rfl
  | cons u rest ih =>
    have hu := h u (List.mem_cons_self ..)
    simp only [unitsBytes, units, toNat_ofNat']
    rw [ih (fun x hx => h x (List.mem_cons_of_mem _ hx))]
    congr 1; omega

theorem unitsBytes_length (us : List Nat) : (unitsBytes us).length = 2 * us.length := by
  induction us with
  | nil => rfl
  | cons u rest ih => simp only [unitsBytes, List.length_cons, ih]; omega

theorem wideStr_wideBytes (us : List Nat) (hl : us.length < 4294967296) (h : ∀ u ∈ us, u < 65536) (rest : Bytes) :
    wideStr (wideBytes us ++ rest) = .ok (us, 4 + us.length * 2) := by
  unfold wideStr wideBytes
  have hlen : (le32 us.length ++ unitsBytes us ++ rest).length = 4 + 2 * us.length + rest.length := by
    simp only [List.length_append, le32_length, unitsBytes_length]
  rw [List.append_assoc, u32le_le32 _ hl]
  rw [← List.append_assoc, hlen]
  rw [if_neg (by omega), if_neg (by omega)]
  have : ((le32 us.length ++ unitsBytes us ++ rest).drop 4).take (us.length * 2) = unitsBytes us := by
    rw [List.append_assoc, List.drop_left' (le32_length _)]
    rw [List.take_left' (by rw [unitsBytes_length]; omega)]
  rw [this, units_unitsBytes us h]

/-- the code's error table (translated from `next_cell`) is the specification's BErr table -/
theorem xlsbErrTable_eq_berr : Gen.xlsbErrTable = berrTable := by decide

/-- … and so is the table of xls `parse_err` -/
theorem xlsErrTable_eq_berr : Gen.xlsErrTable = berrTable := by decide

theorem isErrCode_eq_berr (c : Nat) : isErrCode c = (berrKind c).isSome := by
  unfold isErrCode berrKind; rw [xlsbErrTable_eq_berr]

/-- shape of every cell payload: 4 column bytes, 3 style bytes, a zero, then the body -/
theorem payload_shape (c : CellRec) : c.payload =
    UInt8.ofNat (c.col % 256) :: UInt8.ofNat (c.col / 256 % 256) :: UInt8.ofNat (c.col / 65536 % 256) ::
    UInt8.ofNat (c.col / 16777216 % 256) :: UInt8.ofNat (c.style % 256) :: UInt8.ofNat (c.style / 256 % 256) ::
    UInt8.ofNat (c.style / 65536 % 256) :: 0 :: (c.content.bytes ++ c.tail) := by
  simp only [CellRec.payload, cellHead, le32, CellRec.tail, List.cons_append, List.nil_append]

/-- the reader's view of a record with the cell layout -/
theorem cellFormat_shape (fmts : List Nat) (h0 h1 h2 h3 z : UInt8) (style : Nat) (body : Bytes) :
    cellFormat fmts (h0 :: h1 :: h2 :: h3 :: UInt8.ofNat (style % 256) :: UInt8.ofNat (style / 256 % 256) ::
      UInt8.ofNat (style / 65536 % 256) :: z :: body) = fmts[style % 16777216]? := by
  simp only [cellFormat, List.getD, List.getElem?_cons_succ, List.getElem?_cons_zero, Option.getD_some, toNat_ofNat']
  congr 1; omega

theorem formatF64_shape (ctx : Ctx) (h0 h1 h2 h3 z : UInt8) (style : Nat) (body : Bytes) (bits : Nat) :
    formatF64 ctx (h0 :: h1 :: h2 :: h3 :: UInt8.ofNat (style % 256) :: UInt8.ofNat (style / 256 % 256) ::
      UInt8.ofNat (style / 65536 % 256) :: z :: body) bits = styled ctx style bits := by
  simp only [formatF64, styled, cellFormat_shape]
  rfl


theorem u64le_le64 (n : Nat) (h : n < 18446744073709551616) (rest : Bytes) : u64le (le64 n ++ rest) = n := by
  unfold u64le le64
  rw [List.append_assoc, u32le_le32 _ (Nat.mod_lt _ (by decide))]
  rw [List.drop_left' (le32_length _), u32le_le32 _ (by omega)]
  omega

theorem rkInt_eq (w : Nat) (h : w < 4294967296) : rkInt w = rkIntSpec w := by
  unfold rkInt rkIntSpec
  simp only
  split <;> split <;> omega

theorem rkFloatBits_eq (w : Nat) : rkFloatBits w = (w / 4) * 17179869184 := by
  unfold rkFloatBits; omega

theorem payload_length (c : CellRec) : c.payload.length = 8 + c.content.bytes.length + c.tail.length := by
  rw [payload_shape]; simp only [List.length_cons, List.length_append]; omega

theorem interpret_cell (ctx : Ctx) (c : CellRec) (hwf : c.WF) (v : Val)
    (hv : valueOf ctx c.style c.content = some v) :
    interpret ctx c.recId c.payload = .value c.col v := by
  obtain ⟨hcol, hc⟩ := hwf
  have hu : u32le c.payload = c.col := by
    rw [payload_shape, u32le_cons4]; simp only [toNat_ofNat']; omega
  have hlen := payload_length c
  have hshape := payload_shape c
  generalize c.payload = p at hu hlen hshape
  rcases c with ⟨col, style, content, fmla⟩
  simp only at hv hu hcol hc hlen hshape ⊢
  cases content with
  | blank => simp [valueOf] at hv
  | rk w =>
    simp only [Content.WF] at hc
    have hid : CellRec.recId ⟨col, style, .rk w, fmla⟩ = 2 := by simp [CellRec.recId]
    have hl : (Content.rk w).bytes.length = 4 := rfl
    rw [hid]
    unfold interpret
    rw [if_pos rfl, if_neg (by omega), hu]
    congr 1
    rw [hshape]
    simp only [Content.bytes, le32, List.cons_append, List.nil_append]
    simp only [rkVal, List.drop_succ_cons, List.drop_zero, u32le_cons4, toNat_ofNat', formatF64_shape, cellFormat_shape]
    have hw : w % 256 % 256 + 256 * (w / 256 % 256 % 256) + 65536 * (w / 65536 % 256 % 256) + 16777216 * (w / 16777216 % 256 % 256) = w := by omega
    rw [hw, rkInt_eq w hc, rkFloatBits_eq]
    simp only [valueOf] at hv
    by_cases h1 : w / 2 % 2 = 1
    · rw [if_pos h1] at hv ⊢
      by_cases h2 : w % 2 = 1
      · rw [if_pos h2] at hv ⊢; exact Option.some.inj hv
      · rw [if_neg h2] at hv ⊢
        unfold styled at hv ⊢
        generalize ctx.formats[style % 16777216]? = o at hv ⊢
        rcases o with _ | _ | _ | _ | n <;> simp_all
    · rw [if_neg h1] at hv ⊢; exact Option.some.inj hv
  | err code =>
    simp only [Content.WF] at hc
    have hl : (Content.err code).bytes.length = 1 := rfl
    simp only [valueOf] at hv
    split at hv
    · rename_i hok'
      have hok : isErrCode code = true := by rw [isErrCode_eq_berr]; exact hok'
      have hid : CellRec.recId ⟨col, style, .err code, fmla⟩ = 3 ∨ CellRec.recId ⟨col, style, .err code, fmla⟩ = 11 := by
        cases fmla <;> simp [CellRec.recId]
      unfold interpret
      have h9 : ¬ p.length < 9 := by omega
      have hb : (p.getD 8 0).toNat = code := by
        rw [hshape]; simp [Content.bytes, List.getD]; omega
      rcases hid with hid | hid <;> rw [hid] <;> simp only [Nat.reduceEqDiff, if_false, false_or, or_true, true_or, if_true, if_neg h9, hb, hok, hu] <;> simp_all
    · simp at hv
  | bool b =>
    simp only [Content.WF] at hc
    have hl : (Content.bool b).bytes.length = 1 := rfl
    simp only [valueOf, Option.some.injEq] at hv
    have hid : CellRec.recId ⟨col, style, .bool b, fmla⟩ = 4 ∨ CellRec.recId ⟨col, style, .bool b, fmla⟩ = 10 := by
      cases fmla <;> simp [CellRec.recId]
    unfold interpret
    have h9 : ¬ p.length < 9 := by omega
    have hb : (p.getD 8 0).toNat = b := by
      rw [hshape]; simp [Content.bytes, List.getD]; omega
    have hb' : b % 256 = b := by omega
    rcases hid with hid | hid <;> rw [hid] <;> simp only [Nat.reduceEqDiff, if_false, false_or, or_true, true_or, if_true, if_neg h9, hb, hu] <;> simp_all
  | real bits =>
    simp only [Content.WF] at hc
    have hl : (Content.real bits).bytes.length = 8 := by simp [Content.bytes, le64, le32_length]
    simp only [valueOf, Option.some.injEq] at hv
    have hid : CellRec.recId ⟨col, style, .real bits, fmla⟩ = 5 ∨ CellRec.recId ⟨col, style, .real bits, fmla⟩ = 9 := by
      cases fmla <;> simp [CellRec.recId]
    unfold interpret
    have h16 : ¬ p.length < 16 := by omega
    have hb : formatF64 ctx p (u64le (p.drop 8)) = v := by
      rw [hshape, formatF64_shape]
      simp only [List.drop_succ_cons, List.drop_zero, Content.bytes]
      rw [u64le_le64 _ hc]; exact hv
    rcases hid with hid | hid <;> rw [hid] <;> simp only [Nat.reduceEqDiff, if_false, false_or, or_true, true_or, if_true, if_neg h16, hb, hu]
  | str us =>
    simp only [Content.WF] at hc
    simp only [valueOf, Option.some.injEq] at hv
    have hid : CellRec.recId ⟨col, style, .str us, fmla⟩ = 6 ∨ CellRec.recId ⟨col, style, .str us, fmla⟩ = 8 := by
      cases fmla <;> simp [CellRec.recId]
    unfold interpret
    have h8 : ¬ p.length < 8 := by omega
    have hb : wideStr (p.drop 8) = .ok (us, 4 + us.length * 2) := by
      rw [hshape]
      simp only [List.drop_succ_cons, List.drop_zero, Content.bytes]
      exact wideStr_wideBytes us hc.1 hc.2 _
    rcases hid with hid | hid <;> rw [hid] <;> simp only [Nat.reduceEqDiff, if_false, false_or, or_true, true_or, if_true, if_neg h8, hb, hu, hv]
  | isst i =>
    simp only [Content.WF] at hc
    have hl : (Content.isst i).bytes.length = 4 := rfl
    simp only [valueOf] at hv
    have hid : CellRec.recId ⟨col, style, .isst i, fmla⟩ = 7 := by simp [CellRec.recId]
    unfold interpret
    have h12 : ¬ p.length < 12 := by omega
    have hb : u32le (p.drop 8) = i := by
      rw [hshape]
      simp only [List.drop_succ_cons, List.drop_zero, Content.bytes]
      exact u32le_le32 i hc _
    rw [hid]
    simp only [Nat.reduceEqDiff, if_false, false_or, if_true, if_neg h12, hb, hu]
    cases hs : ctx.strings[i]? with
    | none => simp [hs] at hv
    | some s => simp [hs] at hv; simp [hv]

/-! ### framing -/

theorem readType_encId (t : Nat) (ht : t < 16384) (wide : Bool) (rest : Bytes) :
    readType (encId t wide ++ rest) = .ok (t, rest) := by
  unfold encId
  split
  · simp only [List.cons_append, List.nil_append, readType, toNat_ofNat']
    rw [if_pos (by omega)]
    congr 2; omega
  · simp only [List.cons_append, List.nil_append, readType, toNat_ofNat']
    rw [if_neg (by omega)]
    congr 2; omega

theorem readLen_encLenW (n w : Nat) (hw1 : 1 ≤ w) (hw4 : w ≤ 4) (hn : n < 2 ^ (7 * w)) (rest : Bytes) :
    readLen (encLenW w n ++ rest) = .ok (n, rest) := by
  have h4 : w = 1 ∨ w = 2 ∨ w = 3 ∨ w = 4 := by omega
  rcases h4 with rfl | rfl | rfl | rfl
  · simp only [encLenW, List.cons_append, List.nil_append, readLen, readLenGo, toNat_ofNat']
    rw [if_pos (by omega)]; congr 2; omega
  · simp only [encLenW, List.cons_append, List.nil_append, readLen, readLenGo, toNat_ofNat']
    rw [if_neg (by omega), if_pos (by omega)]; congr 2; omega
  · simp only [encLenW, List.cons_append, List.nil_append, readLen, readLenGo, toNat_ofNat']
    rw [if_neg (by omega), if_neg (by omega), if_pos (by omega)]; congr 2; omega
  · simp only [encLenW, List.cons_append, List.nil_append, readLen, readLenGo, toNat_ofNat']
    rw [if_neg (by omega), if_neg (by omega), if_neg (by omega)]; congr 2; omega

theorem minLenWidth_ok (n : Nat) (hn : n < 268435456) :
    1 ≤ minLenWidth n ∧ minLenWidth n ≤ 4 ∧ n < 2 ^ (7 * minLenWidth n) := by
  unfold minLenWidth
  by_cases h1 : n < 128
  · rw [if_pos h1]; exact ⟨by omega, by omega, by omega⟩
  · rw [if_neg h1]
    by_cases h2 : n < 16384
    · rw [if_pos h2]; exact ⟨by omega, by omega, by omega⟩
    · rw [if_neg h2]
      by_cases h3 : n < 2097152
      · rw [if_pos h3]; exact ⟨by omega, by omega, by omega⟩
      · rw [if_neg h3]; exact ⟨by omega, by omega, by omega⟩

theorem lenWidth_ok (n w : Nat) (hn : n < 268435456) :
    1 ≤ lenWidth n w ∧ lenWidth n w ≤ 4 ∧ n < 2 ^ (7 * lenWidth n w) := by
  obtain ⟨m1, m4, mlt⟩ := minLenWidth_ok n hn
  unfold lenWidth
  by_cases h : w = 0 ∨ w < minLenWidth n ∨ 4 < w
  · rw [if_pos h]; exact ⟨m1, m4, mlt⟩
  · rw [if_neg h]
    refine ⟨by omega, by omega, ?_⟩
    exact Nat.lt_of_lt_of_le mlt (Nat.pow_le_pow_right (by omega) (by omega))

theorem readLen_encLen (n w : Nat) (hn : n < 268435456) (rest : Bytes) :
    readLen (encLen n w ++ rest) = .ok (n, rest) := by
  obtain ⟨h1, h4, hlt⟩ := lenWidth_ok n w hn
  exact readLen_encLenW n _ h1 h4 hlt rest

theorem readRecord_frame (t : Nat) (ht : t < 16384) (p : Bytes) (hp : p.length < 268435456) (wide : Bool)
    (w : Nat) (rest : Bytes) : readRecord (frame t p wide w ++ rest) = .ok (t, p, rest) := by
  unfold frame readRecord
  rw [List.append_assoc, List.append_assoc, readType_encId t ht]
  simp only
  rw [readLen_encLen _ _ hp]
  simp only
  rw [if_neg (by simp), List.take_left' rfl, List.drop_left' rfl]

theorem interpret_skip (ctx : Ctx) (t : Nat) (p : Bytes) (h : interpretedId t = false) :
    interpret ctx t p = .skip := by
  have h' : t ≠ 0 ∧ ¬ (2 ≤ t ∧ t ≤ 11) ∧ t ≠ 0x92 := by
    simp only [interpretedId, Bool.or_eq_false_iff, Bool.and_eq_false_imp, decide_eq_false_iff_not, decide_eq_true_eq] at h
    omega
  unfold interpret
  rw [if_neg (by omega), if_neg (by omega), if_neg (by omega), if_neg (by omega), if_neg (by omega),
    if_neg (by omega), if_neg (by omega), if_neg (by omega)]

theorem interpret_row (ctx : Ctx) (r : Nat) (hr : r < 4294967296) (tail : Bytes) :
    interpret ctx 0 (le32 r ++ tail) = .row r := by
  unfold interpret
  rw [if_neg (by omega), if_neg (by omega), if_neg (by omega), if_neg (by omega), if_neg (by omega),
    if_neg (by omega), if_pos rfl, u32le_le32 r hr]
  rw [if_neg (by simp [le32_length])]

theorem interpret_stop (ctx : Ctx) (p : Bytes) : interpret ctx 0x92 p = .stop := by
  unfold interpret
  rw [if_neg (by omega), if_neg (by omega), if_neg (by omega), if_neg (by omega), if_neg (by omega),
    if_neg (by omega), if_neg (by omega), if_pos rfl]


theorem readCells_data (ctx : Ctx) (endWide : Bool) (endLenW : Nat) (post : Bytes) :
    ∀ (data : List Framed) (f row : Nat), (∀ d ∈ data, d.item.OK ctx) → data.length < f →
      readCells ctx f (encodeItems data ++ (frame 0x92 [] endWide endLenW ++ post)) row
        = .ok (specCells ctx (data.map (·.item)) row)
  | [], f, row, _, hf => by
    obtain ⟨f', rfl⟩ : ∃ f', f = f' + 1 := ⟨f - 1, by simp at hf; omega⟩
    simp only [encodeItems, List.nil_append, List.map_nil, specCells]
    rw [readCells, readRecord_frame _ (by omega) _ (by simp)]
    simp only [interpret_stop]
  | d :: rest, f, row, hok, hf => by
    obtain ⟨f', rfl⟩ : ∃ f', f = f' + 1 := ⟨f - 1, by simp at hf; omega⟩
    have hd := hok d (List.mem_cons_self ..)
    have hrest : ∀ x ∈ rest, x.item.OK ctx := fun x hx => hok x (List.mem_cons_of_mem _ hx)
    have hf' : rest.length < f' := by simp at hf; omega
    simp only [encodeItems, List.append_assoc, List.map_cons]
    obtain ⟨item, wide, lenW⟩ := d
    cases item with
    | row r tail =>
      obtain ⟨hr, hl⟩ := hd
      rw [readCells, Framed.bytes, readRecord_frame _ (by simp [Item.recId]) _ (by simp [Item.payload, le32_length]; omega)]
      simp only [Item.recId, Item.payload, interpret_row ctx r (by omega), specCells]
      rw [if_neg (by omega)]
      exact readCells_data ctx endWide endLenW post rest f' r hrest hf'
    | raw id p =>
      obtain ⟨hid, hni, hl⟩ := hd
      rw [readCells, Framed.bytes, readRecord_frame _ (by simpa [Item.recId] using hid) _ (by simpa [Item.payload] using hl)]
      simp only [Item.recId, Item.payload, interpret_skip ctx id p hni, specCells]
      exact readCells_data ctx endWide endLenW post rest f' row hrest hf'
    | cell c =>
      obtain ⟨hwf, hl, hv⟩ := hd
      have hidlt : c.recId < 16384 := by
        unfold CellRec.recId; split <;> omega
      rw [readCells, Framed.bytes, readRecord_frame _ (by simpa [Item.recId] using hidlt) _ (by simpa [Item.payload] using hl)]
      simp only [Item.recId, Item.payload]
      rcases hv with hb | hs
      · have hid : c.recId = 1 := by unfold CellRec.recId; rw [hb]
        rw [hid, interpret_skip ctx 1 _ (by decide)]
        simp only [specCells, hb, valueOf]
        exact readCells_data ctx endWide endLenW post rest f' row hrest hf'
      · obtain ⟨v, hv⟩ := Option.isSome_iff_exists.mp hs
        rw [interpret_cell ctx c hwf v hv]
        simp only [specCells, hv]
        rw [readCells_data ctx endWide endLenW post rest f' row hrest hf']

/-! ### the sheet prologue: `next_skip_blocks`, `XlsbCellsReader::new` -/

theorem Framed.bytes_eq (f : Framed) : f.bytes = frame f.id f.pay f.wide f.lenW := rfl

theorem fillBuffer_enc (buf p : Bytes) (hp : p.length < 268435456) (w : Nat) (rest : Bytes) :
    fillBuffer buf (encLen p.length w ++ (p ++ rest)) = .ok (p.length, fillBuf buf p, rest) := by
  unfold fillBuffer
  rw [readLen_encLen _ _ hp]
  simp only
  rw [if_neg (by simp), List.take_left' rfl, List.drop_left' rfl]
  rfl

theorem frame_eq (t : Nat) (p : Bytes) (wide : Bool) (w : Nat) (rest : Bytes) :
    frame t p wide w ++ rest = encId t wide ++ (encLen p.length w ++ (p ++ rest)) := by
  unfold frame; simp only [List.append_assoc]

theorem skipToEnd_enc (e : Nat) (he : e < 16384) (ewide : Bool) (rest : Bytes) :
    ∀ (inner : List Framed) (f : Nat) (buf : Bytes), (∀ x ∈ inner, x.Fits ∧ x.id ≠ e) → inner.length < f →
      skipToEnd e f buf (encodeItems inner ++ (encId e ewide ++ rest)) = .ok (bufAfter buf inner, rest)
  | [], f, buf, _, hf => by
    obtain ⟨f', rfl⟩ : ∃ f', f = f' + 1 := ⟨f - 1, by simp at hf; omega⟩
    simp only [encodeItems, List.nil_append, skipToEnd, readType_encId e he, if_true, bufAfter, List.foldl_nil]
  | x :: inner, f, buf, h, hf => by
    obtain ⟨f', rfl⟩ : ∃ f', f = f' + 1 := ⟨f - 1, by simp at hf; omega⟩
    obtain ⟨⟨hid, hpl⟩, hne⟩ := h x (List.mem_cons_self ..)
    simp only [encodeItems, List.append_assoc, Framed.bytes_eq]
    rw [frame_eq, skipToEnd, readType_encId _ hid]
    simp only
    rw [if_neg hne, fillBuffer_enc _ _ hpl]
    simp only
    rw [skipToEnd_enc e he ewide rest inner f' _ (fun y hy => h y (List.mem_cons_of_mem _ hy)) (by simp at hf; omega)]
    rfl


theorem nextSkipBlocks_segs (target : Nat) (ht : target < 16384) (bounds : List (Nat × Option Nat))
    (tp : Bytes) (htp : tp.length < 268435456) (twide : Bool) (tw : Nat) (rest : Bytes) :
    ∀ (segs : List Seg) (f : Nat) (buf : Bytes), (∀ s ∈ segs, s.OK target bounds) → segsSize segs < f →
      ∃ buf', nextSkipBlocks target bounds f buf (encodeSegs segs ++ (frame target tp twide tw ++ rest))
        = .ok (tp.length, fillBuf buf' tp, rest)
  | [], f, buf, _, hf => by
    obtain ⟨f', rfl⟩ : ∃ f', f = f' + 1 := ⟨f - 1, by simp [segsSize] at hf; omega⟩
    refine ⟨buf, ?_⟩
    simp only [encodeSegs, List.nil_append]
    rw [frame_eq, nextSkipBlocks, readType_encId _ ht]
    simp only
    rw [fillBuffer_enc _ _ htp]
    simp only [if_true]
  | .one r :: segs, f, buf, h, hf => by
    obtain ⟨f', rfl⟩ : ∃ f', f = f' + 1 := ⟨f - 1, by simp [segsSize, Seg.size] at hf; omega⟩
    obtain ⟨⟨hid, hpl⟩, hne, hb⟩ := h (.one r) (List.mem_cons_self ..)
    obtain ⟨buf', hrec⟩ := nextSkipBlocks_segs target ht bounds tp htp twide tw rest segs f' (fillBuf buf r.pay)
      (fun y hy => h y (List.mem_cons_of_mem _ hy)) (by simp [segsSize, Seg.size] at hf; omega)
    refine ⟨buf', ?_⟩
    simp only [encodeSegs, Seg.bytes, List.append_assoc, Framed.bytes_eq]
    rw [frame_eq, nextSkipBlocks, readType_encId _ hid]
    simp only
    rw [fillBuffer_enc _ _ hpl]
    simp only
    rw [if_neg hne, hb]
    exact hrec
  | .block s inner e :: segs, f, buf, h, hf => by
    obtain ⟨f', rfl⟩ : ∃ f', f = f' + 1 := ⟨f - 1, by simp [segsSize, Seg.size] at hf; omega⟩
    obtain ⟨⟨hid, hpl⟩, hne, hb, ⟨heid, hepl⟩, hin⟩ := h (.block s inner e) (List.mem_cons_self ..)
    obtain ⟨buf', hrec⟩ := nextSkipBlocks_segs target ht bounds tp htp twide tw rest segs f'
      (fillBuf (bufAfter (fillBuf buf s.pay) inner) e.pay)
      (fun y hy => h y (List.mem_cons_of_mem _ hy)) (by simp [segsSize, Seg.size] at hf; omega)
    refine ⟨buf', ?_⟩
    simp only [encodeSegs, Seg.bytes, List.append_assoc, Framed.bytes_eq]
    rw [frame_eq, nextSkipBlocks, readType_encId _ hid]
    simp only
    rw [fillBuffer_enc _ _ hpl]
    simp only
    rw [if_neg hne, hb]
    simp only
    rw [frame_eq e.id, skipToEnd_enc e.id heid e.wide _ inner f' _ hin (by simp [segsSize, Seg.size] at hf; omega)]
    simp only
    rw [fillBuffer_enc _ _ hepl]
    exact hrec


theorem encLenW_length : ∀ (w n : Nat), (encLenW w n).length = w
  | 0, _ => rfl
  | 1, _ => rfl
  | w+2, n => by simp only [encLenW, List.length_cons, encLenW_length (w+1)]

theorem lenWidth_pos (n w : Nat) : 1 ≤ lenWidth n w := by
  have hm : 1 ≤ minLenWidth n := by
    unfold minLenWidth; split; omega; split; omega; split <;> omega
  unfold lenWidth; split <;> omega

theorem frame_length_ge (t : Nat) (p : Bytes) (wide : Bool) (w : Nat) : 2 ≤ (frame t p wide w).length := by
  have h1 : 1 ≤ (encId t wide).length := by unfold encId; split <;> simp
  have h2 := lenWidth_pos p.length w
  simp only [frame, encLen, List.length_append, encLenW_length]; omega

theorem encodeItems_length_ge : ∀ (l : List Framed), 2 * l.length ≤ (encodeItems l).length
  | [] => by simp [encodeItems]
  | x :: l => by
    have := encodeItems_length_ge l
    have := frame_length_ge x.id x.pay x.wide x.lenW
    simp only [encodeItems, List.length_append, List.length_cons, Framed.bytes_eq]; omega

theorem encodeSegs_length_ge : ∀ (l : List Seg), 2 * segsSize l ≤ (encodeSegs l).length
  | [] => by simp [encodeSegs, segsSize]
  | .one r :: l => by
    have := encodeSegs_length_ge l
    have := frame_length_ge r.id r.pay r.wide r.lenW
    simp only [encodeSegs, segsSize, Seg.size, Seg.bytes, List.length_append, Framed.bytes_eq]; omega
  | .block s inner e :: l => by
    have := encodeSegs_length_ge l
    have := frame_length_ge s.id s.pay s.wide s.lenW
    have := frame_length_ge e.id e.pay e.wide e.lenW
    have := encodeItems_length_ge inner
    simp only [encodeSegs, segsSize, Seg.size, Seg.bytes, List.length_append, Framed.bytes_eq]; omega

theorem u32le_append (p t : Bytes) (h : 4 ≤ p.length) : u32le (p ++ t) = u32le p := by
  unfold u32le
  simp only [List.getD_eq_getElem?_getD]
  rw [List.getElem?_append_left (by omega), List.getElem?_append_left (by omega),
    List.getElem?_append_left (by omega), List.getElem?_append_left (by omega)]

theorem parseDimensions_fillBuf (buf p : Bytes) (_h : 16 ≤ p.length) :
    parseDimensions (fillBuf buf p) = parseDimensions p := rfl

theorem fillBuf_length_ge (buf p : Bytes) : p.length ≤ (fillBuf buf p).length := Nat.le_refl _

/-- `XlsbCellsReader::new` on an encoded prologue: anything up to BrtWsDim, segments (records and skipped
    blocks) up to BrtBeginSheetData; the reader is left on the first record of the sheet data -/
theorem newReader_enc (pre1 pre2 : List Seg) (dims : Bytes) (dw : Bool) (dl : Nat) (bp : Bytes) (bw : Bool) (bl : Nat)
    (rest : Bytes) (h1 : ∀ s ∈ pre1, s.OK 0x0094 bounds1) (h2 : ∀ s ∈ pre2, s.OK 0x0091 bounds2)
    (hd : 16 ≤ dims.length ∧ dims.length < 268435456) (hb : bp.length < 268435456) :
    newReader (encodeSegs pre1 ++ (frame 0x0094 dims dw dl ++ (encodeSegs pre2 ++ (frame 0x0091 bp bw bl ++ rest))))
      = .ok (parseDimensions dims, rest) := by
  unfold newReader
  have hl1 := encodeSegs_length_ge pre1
  have hl2 := encodeSegs_length_ge pre2
  obtain ⟨b1, e1⟩ := nextSkipBlocks_segs 0x0094 (by omega) bounds1 dims hd.2 dw dl
    (encodeSegs pre2 ++ (frame 0x0091 bp bw bl ++ rest)) pre1
    ((encodeSegs pre1 ++ (frame 0x0094 dims dw dl ++ (encodeSegs pre2 ++ (frame 0x0091 bp bw bl ++ rest)))).length + 1) [] h1
    (by simp only [List.length_append]; omega)
  rw [show ([(0x0081, none), (0x0093, none)] : List (Nat × Option Nat)) = bounds1 from rfl, e1]
  simp only
  have hlen := fillBuf_length_ge b1 dims
  rw [if_neg (by omega)]
  obtain ⟨b2, e2⟩ := nextSkipBlocks_segs 0x0091 (by omega) bounds2 bp hb bw bl rest pre2
    ((encodeSegs pre1 ++ (frame 0x0094 dims dw dl ++ (encodeSegs pre2 ++ (frame 0x0091 bp bw bl ++ rest)))).length + 1)
    (fillBuf b1 dims) h2 (by simp only [List.length_append]; omega)
  rw [show ([(0x0085, some 0x0086), (0x0025, some 0x0026), (0x01E5, none), (0x0186, some 0x0187)] : List (Nat × Option Nat)) = bounds2 from rfl, e2]
  simp only
  rw [parseDimensions_fillBuf _ _ hd.1]

/-! ### the whole sheet part -/

theorem styled_ne_empty (ctx : Ctx) (style bits : Nat) : styled ctx style bits ≠ .empty := by
  unfold styled; split <;> simp

theorem valueOf_ne_empty (ctx : Ctx) (style : Nat) (c : Content) (v : Val) (h : valueOf ctx style c = some v) :
    v ≠ .empty := by
  cases c with
  | blank => simp [valueOf] at h
  | rk w =>
    simp only [valueOf] at h
    split at h
    · split at h
      · injection h with h; rw [← h]; exact styled_ne_empty _ _ _
      · have hs := styled_ne_empty ctx style (i2f (rkIntSpec w))
        split at h
        · injection h with h; rw [← h]; simp
        · injection h with h; rw [← h]; exact hs
    · injection h with h; rw [← h]; exact styled_ne_empty _ _ _
  | err c => simp only [valueOf] at h; split at h <;> simp at h; rw [← h]; simp
  | bool b => simp only [valueOf] at h; injection h with h; rw [← h]; simp
  | real bits => simp only [valueOf] at h; injection h with h; rw [← h]; exact styled_ne_empty _ _ _
  | str us => simp only [valueOf] at h; injection h with h; rw [← h]; simp
  | isst i =>
    simp only [valueOf] at h
    cases hs : ctx.strings[i]? with
    | none => simp [hs] at h
    | some s => simp [hs] at h; rw [← h]; simp

theorem specCells_ne_empty (ctx : Ctx) : ∀ (items : List Item) (row : Nat), ∀ c ∈ specCells ctx items row, c.2.2 ≠ Val.empty
  | [], _, c, h => by simp [specCells] at h
  | .row r _ :: rest, _, c, h => specCells_ne_empty ctx rest r c (by simpa [specCells] using h)
  | .raw _ _ :: rest, row, c, h => specCells_ne_empty ctx rest row c (by simpa [specCells] using h)
  | .cell cr :: rest, row, c, h => by
    simp only [specCells] at h
    cases hv : valueOf ctx cr.style cr.content with
    | none => rw [hv] at h; exact specCells_ne_empty ctx rest row c h
    | some v =>
      rw [hv] at h
      rcases List.mem_cons.mp h with rfl | h'
      · exact valueOf_ne_empty ctx _ _ v hv
      · exact specCells_ne_empty ctx rest row c h'

theorem decodeSheet_enc (ctx : Ctx) (pre1 pre2 : List Seg) (dims : Bytes) (dw : Bool) (dl : Nat) (bp : Bytes)
    (bw : Bool) (bl : Nat) (data : List Framed) (ew : Bool) (el : Nat) (post : Bytes)
    (h1 : ∀ s ∈ pre1, s.OK 0x0094 bounds1) (h2 : ∀ s ∈ pre2, s.OK 0x0091 bounds2)
    (hd : 16 ≤ dims.length ∧ dims.length < 268435456) (hb : bp.length < 268435456)
    (hok : ∀ d ∈ data, d.item.OK ctx) :
    decodeSheet ctx (sheetBytes pre1 dims dw dl pre2 bp bw bl data ew el post)
      = Range.fromSparse (specCells ctx (data.map (·.item)) 0) := by
  unfold decodeSheet sheetCells sheetBytes
  rw [newReader_enc pre1 pre2 dims dw dl bp bw bl _ h1 h2 hd hb]
  simp only [dimLen]
  have hlen := encodeItems_length_ge data
  rw [readCells_data ctx ew el post data _ 0 hok (by simp only [List.length_append]; omega)]
  simp only
  congr 1
  rw [List.filter_eq_self]
  intro c hc
  simpa using specCells_ne_empty ctx _ _ c hc


theorem sparsePreSorted_of_gridSorted (S : List (Nat × Nat × Val)) (h : GridSorted S) : Range.sparsePreSorted S := by
  obtain ⟨hs, hg⟩ := h
  cases S with
  | nil => trivial
  | cons c0 rest =>
    have hlast : (c0 :: rest).getLast?.getD c0 ∈ c0 :: rest := by
      rw [List.getLast?_eq_some_getLast (List.cons_ne_nil _ _)]; exact List.getLast_mem _
    have hfirst : ∀ c ∈ c0 :: rest, c0.1 ≤ c.1 := by
      intro c hc
      rcases List.mem_cons.mp hc with rfl | hc'
      · exact Nat.le_refl _
      · exact (List.pairwise_cons.mp hs).1 c hc'
    have hle : ∀ c ∈ c0 :: rest, c.1 ≤ ((c0 :: rest).getLast?.getD c0).1 := by
      intro c hc
      rw [List.getLast?_eq_some_getLast (List.cons_ne_nil _ _)]
      simp only [Option.getD_some]
      obtain ⟨i, hi, rfl⟩ := List.mem_iff_getElem.mp hc
      rw [List.getLast_eq_getElem]
      by_cases hlt : i = (c0 :: rest).length - 1
      · subst hlt; exact Nat.le_refl _
      · exact List.pairwise_iff_getElem.mp hs i ((c0 :: rest).length - 1) hi (by simp) (by omega)
    refine ⟨fun c hc => ⟨hfirst c hc, hle c hc, ?_, ?_⟩, ?_, ?_⟩
    · have := (hg c hc).1; unfold Range.U32; omega
    · have := (hg c hc).2; unfold Range.U32; omega
    · have := (hg _ hlast).1; unfold Range.U32; omega
    · intro c hc c' hc'
      have := (hg c' hc').2; unfold Range.U32; omega


theorem sparsePre_of_gridSorted (S : List (Nat × Nat × Val)) (h : GridSorted S) : Range.sparsePre S :=
  Range.sparsePre_of_old S (sparsePreSorted_of_gridSorted S h)

theorem gridSorted_le_last (S : List (Nat × Nat × Val)) (hne : S ≠ []) (h : GridSorted S) :
    ∀ c ∈ S, c.1 ≤ (S.getLast hne).1 := by
  intro c hc
  obtain ⟨i, hi, rfl⟩ := List.mem_iff_getElem.mp hc
  rw [List.getLast_eq_getElem]
  by_cases hlt : i = S.length - 1
  · subst hlt; exact Nat.le_refl _
  · exact List.pairwise_iff_getElem.mp h.1 i (S.length - 1) hi (by omega) (by omega)

/-! ### record lists, inserted records -/

theorem recordsGo_cons (f : Nat) (bs : Bytes) (h : bs ≠ []) :
    recordsGo (f + 1) bs =
      match readRecord bs with
      | .ok (t, p, rest) =>
        match recordsGo f rest with
        | .ok l => .ok ((t, p) :: l)
        | .err e => .err e
        | .panic s => .panic s
        | .outOfFuel => .outOfFuel
      | .err e => .err e
      | .panic s => .panic s
      | .outOfFuel => .outOfFuel := by
  cases bs with
  | nil => exact absurd rfl h
  | cons b bs => rfl

theorem recordsGo_enc : ∀ (l : List Framed) (f : Nat), (∀ x ∈ l, x.Fits) → l.length < f →
    recordsGo f (encodeItems l) = .ok (l.map fun x => (x.id, x.pay))
  | [], f, _, hf => by
    obtain ⟨f', rfl⟩ : ∃ f', f = f' + 1 := ⟨f - 1, by simp at hf; omega⟩
    rfl
  | x :: l, f, h, hf => by
    obtain ⟨f', rfl⟩ : ∃ f', f = f' + 1 := ⟨f - 1, by simp at hf; omega⟩
    obtain ⟨hid, hpl⟩ := h x (List.mem_cons_self ..)
    have hne : encodeItems (x :: l) ≠ [] := by
      have := frame_length_ge x.id x.pay x.wide x.lenW
      intro h0
      have h1 := congrArg List.length h0
      simp only [encodeItems, List.length_append, Framed.bytes_eq, List.length_nil] at h1
      omega
    rw [recordsGo_cons f' _ hne]
    simp only [encodeItems, Framed.bytes_eq]
    rw [readRecord_frame _ hid _ hpl]
    simp only
    rw [recordsGo_enc l f' (fun y hy => h y (List.mem_cons_of_mem _ hy)) (by simp at hf; omega)]
    rfl

theorem specCells_insert_raw (ctx : Ctx) (id : Nat) (p : Bytes) (l2 : List Item) :
    ∀ (l1 : List Item) (row : Nat), specCells ctx (l1 ++ .raw id p :: l2) row = specCells ctx (l1 ++ l2) row
  | [], _ => rfl
  | .row r _ :: l1, _ => by simp only [List.cons_append, specCells]; exact specCells_insert_raw ctx id p l2 l1 r
  | .raw _ _ :: l1, row => by simp only [List.cons_append, specCells]; exact specCells_insert_raw ctx id p l2 l1 row
  | .cell c :: l1, row => by
    simp only [List.cons_append, specCells]
    rw [specCells_insert_raw ctx id p l2 l1 row]

/-! ### shared strings -/

theorem fillBuf_drop1 (buf : Bytes) (b : UInt8) (p : Bytes) :
    ∃ tail, (fillBuf buf (b :: p)).drop 1 = p ++ tail := ⟨[], by simp [fillBuf]⟩

theorem sstEntriesBytes_length_ge (post : Bytes) : ∀ (l : List SstEntry), ∀ e ∈ l,
    2 * segsSize e.pre ≤ (sstEntriesBytes l post).length
  | [], _, h => nomatch h
  | x :: l, e, h => by
    have hx := encodeSegs_length_ge x.pre
    simp only [sstEntriesBytes, List.length_append]
    rcases List.mem_cons.mp h with rfl | h'
    · omega
    · have := sstEntriesBytes_length_ge post l e h'; omega

theorem sstItems_enc (post : Bytes) : ∀ (l : List SstEntry) (fuel : Nat) (buf : Bytes) (acc : List (List Nat)),
    (∀ e ∈ l, e.OK) → (∀ e ∈ l, segsSize e.pre < fuel) →
    sstItems l.length fuel buf (sstEntriesBytes l post) acc = .ok (acc.reverse ++ l.map (·.text))
  | [], _, _, acc, _, _ => by simp [sstItems]
  | e :: l, fuel, buf, acc, h, hf => by
    obtain ⟨hl, hu, hpl, hpre⟩ := h e (List.mem_cons_self ..)
    obtain ⟨b', hb'⟩ := nextSkipBlocks_segs 0x0013 (by omega) [(0x0023, some 0x0024)] e.payload hpl e.wide e.lenW
      (sstEntriesBytes l post) e.pre fuel buf hpre (hf e (List.mem_cons_self ..))
    simp only [List.length_cons, sstEntriesBytes, sstItems]
    rw [hb']
    simp only
    have hge := fillBuf_length_ge b' e.payload
    have hp1 : 1 ≤ e.payload.length := by simp [SstEntry.payload]
    rw [if_neg (by omega)]
    obtain ⟨tail, ht⟩ := fillBuf_drop1 b' (UInt8.ofNat e.flags) (wideBytes e.text ++ e.trailer)
    rw [show fillBuf b' e.payload = fillBuf b' (UInt8.ofNat e.flags :: (wideBytes e.text ++ e.trailer)) from rfl, ht,
      List.append_assoc, wideStr_wideBytes e.text (by omega) hu]
    simp only
    rw [sstItems_enc post l fuel _ (e.text :: acc) (fun x hx => h x (List.mem_cons_of_mem _ hx))
      (fun x hx => hf x (List.mem_cons_of_mem _ hx))]
    simp

/-- `read_shared_strings` returns exactly the texts of the items, in order: rich-text runs, phonetic data and
    foreign records contribute nothing and shift nothing -/
theorem readSharedStrings_enc (pre0 : List Seg) (total : Nat) (hw : Bool) (hl : Nat) (entries : List SstEntry) (post : Bytes)
    (hp0 : ∀ s ∈ pre0, s.OK 0x009F []) (hn : entries.length < 4294967296) (h : ∀ e ∈ entries, e.OK) :
    readSharedStrings (sstBytes pre0 total hw hl entries post) = .ok (entries.map (·.text)) := by
  unfold readSharedStrings sstBytes
  have hpl : (le32 total ++ le32 entries.length).length < 268435456 := by simp [le32_length]
  have hl0 := encodeSegs_length_ge pre0
  obtain ⟨b', hb'⟩ := nextSkipBlocks_segs 0x009F (by omega) [] (le32 total ++ le32 entries.length) hpl hw hl
    (sstEntriesBytes entries post) pre0
    ((encodeSegs pre0 ++ (frame 0x009F (le32 total ++ le32 entries.length) hw hl ++ sstEntriesBytes entries post)).length + 1)
    [] hp0 (by simp only [List.length_append]; omega)
  rw [hb']
  simp only
  have hge := fillBuf_length_ge b' (le32 total ++ le32 entries.length)
  rw [if_neg (by simp only [List.length_append, le32_length] at hge; omega)]
  have hcount : u32le ((fillBuf b' (le32 total ++ le32 entries.length)).drop 4) = entries.length := by
    unfold fillBuf
    rw [List.drop_left' (le32_length _)]
    have := u32le_le32 entries.length hn []
    simpa using this
  rw [hcount, sstItems_enc post entries _ _ [] h (fun e he => by
    have := sstEntriesBytes_length_ge post entries e he
    simp only [List.length_append]; omega)]
  simp

/-! ### termination: every loop consumes bytes -/

theorem readType_shrinks (bs : Bytes) (t : Nat) (r : Bytes) (h : readType bs = .ok (t, r)) : r.length + 1 ≤ bs.length := by
  unfold readType at h
  split at h
  · cases h
  · split at h
    · injection h with h; injection h with _ h; subst h; simp
    · split at h
      · cases h
      · injection h with h; injection h with _ h; subst h; simp only [List.length_cons]; omega

theorem readLenGo_shrinks : ∀ (f i acc : Nat) (prev : UInt8) (bs : Bytes) (n : Nat) (r : Bytes),
    readLenGo f i acc prev bs = .ok (n, r) → r.length ≤ bs.length
  | 0, _, _, _, bs, n, r, h => by
    simp only [readLenGo] at h; injection h with h; injection h with _ h; subst h; exact Nat.le_refl _
  | f+1, i, acc, prev, bs, n, r, h => by
    simp only [readLenGo] at h
    split at h
    · injection h with h; injection h with _ h; subst h; exact Nat.le_refl _
    · split at h
      · cases h
      · have := readLenGo_shrinks f _ _ _ _ n r h
        simp only [List.length_cons]; omega

theorem readLen_shrinks (bs : Bytes) (n : Nat) (r : Bytes) (h : readLen bs = .ok (n, r)) : r.length + 1 ≤ bs.length := by
  unfold readLen at h
  split at h
  · cases h
  · have := readLenGo_shrinks _ _ _ _ _ n r h
    simp only [List.length_cons]; omega

theorem readRecord_shrinks (bs : Bytes) (t : Nat) (p rest : Bytes) (h : readRecord bs = .ok (t, p, rest)) :
    rest.length + 2 ≤ bs.length := by
  unfold readRecord at h
  split at h
  · rename_i t' r ht
    have h1 := readType_shrinks bs t' r ht
    split at h
    · rename_i len r' hl
      have h2 := readLen_shrinks r len r' hl
      split at h
      · cases h
      · injection h with h; injection h with _ h; injection h with _ h; subst h
        simp only [List.length_drop]; omega
    all_goals cases h
  all_goals cases h

theorem readType_ne_fuel (bs : Bytes) : readType bs ≠ .outOfFuel := by
  unfold readType; split
  · simp
  · split
    · simp
    · split <;> simp

theorem readLenGo_ne_fuel : ∀ (f i acc : Nat) (prev : UInt8) (bs : Bytes), readLenGo f i acc prev bs ≠ .outOfFuel
  | 0, _, _, _, _ => by simp [readLenGo]
  | f+1, i, acc, prev, bs => by
    simp only [readLenGo]
    split
    · simp
    · split
      · simp
      · exact readLenGo_ne_fuel f _ _ _ _

theorem readLen_ne_fuel (bs : Bytes) : readLen bs ≠ .outOfFuel := by
  unfold readLen; split
  · simp
  · exact readLenGo_ne_fuel _ _ _ _ _

theorem readRecord_ne_fuel (bs : Bytes) : readRecord bs ≠ .outOfFuel := by
  unfold readRecord
  have h1 := readType_ne_fuel bs
  cases ht : readType bs with
  | ok v =>
    obtain ⟨t, r⟩ := v
    simp only
    have h2 := readLen_ne_fuel r
    cases hl : readLen r with
    | ok w => obtain ⟨len, r'⟩ := w; simp only; split <;> simp
    | err e => simp
    | panic s => simp
    | outOfFuel => exact absurd hl h2
  | err e => simp
  | panic s => simp
  | outOfFuel => exact absurd ht h1

theorem wideStr_ne_fuel (b : Bytes) : wideStr b ≠ .outOfFuel := by
  unfold wideStr; split
  · simp
  · split <;> simp

/-- a failing record is an `Err` or a panic -/
theorem interpret_fail (ctx : Ctx) (t : Nat) (p : Bytes) (r : Res Unit) (h : interpret ctx t p = .fail r) :
    (∃ e, r = .err e) ∨ (∃ s, r = .panic s) := by
  unfold interpret at h
  have hw := wideStr_ne_fuel (p.drop 8)
  repeat' split at h
  all_goals first
    | (rename_i hh; exact absurd hh hw)
    | (injection h with h; subst h; first | exact Or.inl ⟨_, rfl⟩ | exact Or.inr ⟨_, rfl⟩)
    | cases h

/-- the cell loop never runs out of fuel when given more fuel than bytes -/
theorem readCells_fuel (ctx : Ctx) : ∀ (f : Nat) (bs : Bytes) (row : Nat), bs.length < f →
    readCells ctx f bs row ≠ .outOfFuel
  | 0, _, _, h => by omega
  | f+1, bs, row, h => by
    rw [readCells]
    cases hr : readRecord bs with
    | ok v =>
      obtain ⟨t, p, rest⟩ := v
      have hs := readRecord_shrinks bs t p rest hr
      have ih1 := readCells_fuel ctx f rest row (by omega)
      simp only
      cases hi : interpret ctx t p with
      | value col v =>
        simp only
        cases hc : readCells ctx f rest row with
        | ok l => simp
        | err e => simp
        | panic s => simp
        | outOfFuel => exact absurd hc ih1
      | row r =>
        simp only
        split
        · simp
        · exact readCells_fuel ctx f rest r (by omega)
      | stop => simp
      | skip => exact ih1
      | fail r =>
        rcases interpret_fail ctx t p r hi with ⟨e, rfl⟩ | ⟨s, rfl⟩ <;> simp
    | err e => simp
    | panic s => simp
    | outOfFuel => exact absurd hr (readRecord_ne_fuel bs)


theorem fillBuffer_ne_fuel (buf bs : Bytes) : fillBuffer buf bs ≠ .outOfFuel := by
  unfold fillBuffer
  have h2 := readLen_ne_fuel bs
  cases hl : readLen bs with
  | ok w => obtain ⟨len, r'⟩ := w; simp only; split <;> simp
  | err e => simp
  | panic s => simp
  | outOfFuel => exact absurd hl h2

theorem fillBuffer_shrinks (buf bs : Bytes) (len : Nat) (b' r' : Bytes) (h : fillBuffer buf bs = .ok (len, b', r')) :
    r'.length + 1 ≤ bs.length := by
  unfold fillBuffer at h
  split at h
  · rename_i n r hl
    have := readLen_shrinks bs n r hl
    split at h
    · cases h
    · injection h with h; injection h with _ h; injection h with _ h; subst h
      simp only [List.length_drop]; omega
  all_goals cases h

theorem skipToEnd_total (e : Nat) : ∀ (f : Nat) (buf bs : Bytes), bs.length < f →
    skipToEnd e f buf bs ≠ .outOfFuel ∧ ∀ b r, skipToEnd e f buf bs = .ok (b, r) → r.length + 1 ≤ bs.length
  | 0, _, _, h => by omega
  | f+1, buf, bs, h => by
    rw [skipToEnd]
    have h1 := readType_ne_fuel bs
    cases ht : readType bs with
    | ok v =>
      obtain ⟨t, r⟩ := v
      have hs := readType_shrinks bs t r ht
      simp only
      split
      · exact ⟨by simp, fun b r' hh => by injection hh with hh; injection hh with _ hh; subst hh; exact hs⟩
      · have h2 := fillBuffer_ne_fuel buf r
        cases hf : fillBuffer buf r with
        | ok w =>
          obtain ⟨len, b', r'⟩ := w
          have hs2 := fillBuffer_shrinks buf r len b' r' hf
          simp only
          obtain ⟨ih1, ih2⟩ := skipToEnd_total e f b' r' (by omega)
          exact ⟨ih1, fun b r'' hh => by have := ih2 b r'' hh; omega⟩
        | err e => exact ⟨by simp, fun _ _ hh => by cases hh⟩
        | panic s => exact ⟨by simp, fun _ _ hh => by cases hh⟩
        | outOfFuel => exact absurd hf h2
    | err e => exact ⟨by simp, fun _ _ hh => by cases hh⟩
    | panic s => exact ⟨by simp, fun _ _ hh => by cases hh⟩
    | outOfFuel => exact absurd ht h1

theorem nextSkipBlocks_total (target : Nat) (bounds : List (Nat × Option Nat)) : ∀ (f : Nat) (buf bs : Bytes),
    bs.length < f → nextSkipBlocks target bounds f buf bs ≠ .outOfFuel ∧
      ∀ n b r, nextSkipBlocks target bounds f buf bs = .ok (n, b, r) → r.length + 2 ≤ bs.length
  | 0, _, _, h => by omega
  | f+1, buf, bs, h => by
    rw [nextSkipBlocks]
    cases ht : readType bs with
    | ok v =>
      obtain ⟨t, r⟩ := v
      have hs := readType_shrinks bs t r ht
      simp only
      cases hf : fillBuffer buf r with
      | ok w =>
        obtain ⟨len, b1, r1⟩ := w
        have hs1 := fillBuffer_shrinks buf r len b1 r1 hf
        simp only
        split
        · exact ⟨by simp, fun n b r' hh => by
            injection hh with hh; injection hh with _ hh; injection hh with _ hh; subst hh; omega⟩
        · split
          · rename_i e he
            obtain ⟨k1, k2⟩ := skipToEnd_total e f b1 r1 (by omega)
            cases hk : skipToEnd e f b1 r1 with
            | ok u =>
              obtain ⟨b2, r2⟩ := u
              have hs2 := k2 b2 r2 hk
              simp only
              cases hf2 : fillBuffer b2 r2 with
              | ok w2 =>
                obtain ⟨len3, b3, r3⟩ := w2
                have hs3 := fillBuffer_shrinks b2 r2 len3 b3 r3 hf2
                simp only
                obtain ⟨ih1, ih2⟩ := nextSkipBlocks_total target bounds f b3 r3 (by omega)
                exact ⟨ih1, fun n b r' hh => by have := ih2 n b r' hh; omega⟩
              | err e => exact ⟨by simp, fun _ _ _ hh => by cases hh⟩
              | panic s => exact ⟨by simp, fun _ _ _ hh => by cases hh⟩
              | outOfFuel => exact absurd hf2 (fillBuffer_ne_fuel _ _)
            | err e => exact ⟨by simp, fun _ _ _ hh => by cases hh⟩
            | panic s => exact ⟨by simp, fun _ _ _ hh => by cases hh⟩
            | outOfFuel => exact absurd hk k1
          · obtain ⟨ih1, ih2⟩ := nextSkipBlocks_total target bounds f b1 r1 (by omega)
            exact ⟨ih1, fun n b r' hh => by have := ih2 n b r' hh; omega⟩
      | err e => exact ⟨by simp, fun _ _ _ hh => by cases hh⟩
      | panic s => exact ⟨by simp, fun _ _ _ hh => by cases hh⟩
      | outOfFuel => exact absurd hf (fillBuffer_ne_fuel _ _)
    | err e => exact ⟨by simp, fun _ _ _ hh => by cases hh⟩
    | panic s => exact ⟨by simp, fun _ _ _ hh => by cases hh⟩
    | outOfFuel => exact absurd ht (readType_ne_fuel _)


theorem newReader_total (bs : Bytes) : newReader bs ≠ .outOfFuel ∧
    ∀ d r, newReader bs = .ok (d, r) → r.length ≤ bs.length := by
  unfold newReader
  obtain ⟨a1, a2⟩ := nextSkipBlocks_total 0x0094 [(0x0081, none), (0x0093, none)] (bs.length + 1) [] bs (by omega)
  cases h1 : nextSkipBlocks 0x0094 [(0x0081, none), (0x0093, none)] (bs.length + 1) [] bs with
  | ok v =>
    obtain ⟨n, buf, rest⟩ := v
    have hs := a2 n buf rest h1
    simp only
    split
    · exact ⟨by simp, fun _ _ hh => by cases hh⟩
    · obtain ⟨b1, b2⟩ := nextSkipBlocks_total 0x0091
        [(0x0085, some 0x0086), (0x0025, some 0x0026), (0x01E5, none), (0x0186, some 0x0187)] (bs.length + 1) buf rest (by omega)
      cases h2 : nextSkipBlocks 0x0091 [(0x0085, some 0x0086), (0x0025, some 0x0026), (0x01E5, none), (0x0186, some 0x0187)]
          (bs.length + 1) buf rest with
      | ok w =>
        obtain ⟨n2, buf2, rest2⟩ := w
        have hs2 := b2 n2 buf2 rest2 h2
        exact ⟨by simp, fun d r hh => by injection hh with hh; injection hh with _ hh; subst hh; omega⟩
      | err e => exact ⟨by simp, fun _ _ hh => by cases hh⟩
      | panic s => exact ⟨by simp, fun _ _ hh => by cases hh⟩
      | outOfFuel => exact absurd h2 b1
  | err e => exact ⟨by simp, fun _ _ hh => by cases hh⟩
  | panic s => exact ⟨by simp, fun _ _ hh => by cases hh⟩
  | outOfFuel => exact absurd h1 a1

theorem fromSparse_ne_fuel {α : Type} [Inhabited α] (cells : List (Nat × Nat × α)) :
    Range.fromSparse cells ≠ .outOfFuel := Range.fromSparse_ne_fuel cells

/-! ### no panics: every short or inconsistent record is an `Err` -/

theorem readType_ne_panic (bs : Bytes) (m : String) : readType bs ≠ .panic m := by
  unfold readType; split
  · simp
  · split
    · simp
    · split <;> simp

theorem readLenGo_ne_panic (m : String) : ∀ (f i acc : Nat) (prev : UInt8) (bs : Bytes), readLenGo f i acc prev bs ≠ .panic m
  | 0, _, _, _, _ => by simp [readLenGo]
  | f+1, i, acc, prev, bs => by
    simp only [readLenGo]
    split
    · simp
    · split
      · simp
      · exact readLenGo_ne_panic m f _ _ _ _

theorem readLen_ne_panic (bs : Bytes) (m : String) : readLen bs ≠ .panic m := by
  unfold readLen; split
  · simp
  · exact readLenGo_ne_panic m _ _ _ _ _

theorem readRecord_ne_panic (bs : Bytes) (m : String) : readRecord bs ≠ .panic m := by
  unfold readRecord
  cases ht : readType bs with
  | ok v =>
    obtain ⟨t, r⟩ := v
    simp only
    cases hl : readLen r with
    | ok w => obtain ⟨len, r'⟩ := w; simp only; split <;> simp
    | err e => simp
    | panic s => exact absurd hl (readLen_ne_panic r s)
    | outOfFuel => simp
  | err e => simp
  | panic s => exact absurd ht (readType_ne_panic bs s)
  | outOfFuel => simp

theorem fillBuffer_ne_panic (buf bs : Bytes) (m : String) : fillBuffer buf bs ≠ .panic m := by
  unfold fillBuffer
  cases hl : readLen bs with
  | ok w => obtain ⟨len, r'⟩ := w; simp only; split <;> simp
  | err e => simp
  | panic s => exact absurd hl (readLen_ne_panic bs s)
  | outOfFuel => simp

theorem wideStr_ne_panic (b : Bytes) (m : String) : wideStr b ≠ .panic m := by
  unfold wideStr; split
  · simp
  · split <;> simp

/-- a failing record is an `Err`, never a panic -/
theorem interpret_fail_err (ctx : Ctx) (t : Nat) (p : Bytes) (r : Res Unit) (h : interpret ctx t p = .fail r) :
    ∃ e, r = .err e := by
  unfold interpret at h
  have hw := wideStr_ne_fuel (p.drop 8)
  have hp := wideStr_ne_panic (p.drop 8)
  repeat' split at h
  all_goals first
    | (rename_i hh; exact absurd hh hw)
    | (rename_i hh; exact absurd hh (hp _))
    | (injection h with h; subst h; exact ⟨_, rfl⟩)
    | cases h

theorem readCells_ne_panic (ctx : Ctx) (m : String) : ∀ (f : Nat) (bs : Bytes) (row : Nat), readCells ctx f bs row ≠ .panic m
  | 0, _, _ => by simp [readCells]
  | f+1, bs, row => by
    rw [readCells]
    cases hr : readRecord bs with
    | ok v =>
      obtain ⟨t, p, rest⟩ := v
      simp only
      cases hi : interpret ctx t p with
      | value col v =>
        simp only
        cases hc : readCells ctx f rest row with
        | ok l => simp
        | err e => simp
        | panic s => exact absurd hc (readCells_ne_panic ctx s f rest row)
        | outOfFuel => simp
      | row r =>
        simp only
        split
        · simp
        · exact readCells_ne_panic ctx m f rest r
      | stop => simp
      | skip => exact readCells_ne_panic ctx m f rest row
      | fail r =>
        obtain ⟨e, rfl⟩ := interpret_fail_err ctx t p r hi
        simp
    | err e => simp
    | panic s => exact absurd hr (readRecord_ne_panic bs s)
    | outOfFuel => simp

theorem skipToEnd_ne_panic (e : Nat) (m : String) : ∀ (f : Nat) (buf bs : Bytes), skipToEnd e f buf bs ≠ .panic m
  | 0, _, _ => by simp [skipToEnd]
  | f+1, buf, bs => by
    rw [skipToEnd]
    cases ht : readType bs with
    | ok v =>
      obtain ⟨t, r⟩ := v
      simp only
      split
      · simp
      · cases hf : fillBuffer buf r with
        | ok w => obtain ⟨len, b', r'⟩ := w; exact skipToEnd_ne_panic e m f b' r'
        | err e => simp
        | panic s => exact absurd hf (fillBuffer_ne_panic buf r s)
        | outOfFuel => simp
    | err e => simp
    | panic s => exact absurd ht (readType_ne_panic bs s)
    | outOfFuel => simp

theorem nextSkipBlocks_ne_panic (target : Nat) (bounds : List (Nat × Option Nat)) (m : String) :
    ∀ (f : Nat) (buf bs : Bytes), nextSkipBlocks target bounds f buf bs ≠ .panic m
  | 0, _, _ => by simp [nextSkipBlocks]
  | f+1, buf, bs => by
    rw [nextSkipBlocks]
    cases ht : readType bs with
    | ok v =>
      obtain ⟨t, r⟩ := v
      simp only
      cases hf : fillBuffer buf r with
      | ok w =>
        obtain ⟨len, b1, r1⟩ := w
        simp only
        split
        · simp
        · split
          · rename_i e he
            cases hk : skipToEnd e f b1 r1 with
            | ok u =>
              obtain ⟨b2, r2⟩ := u
              simp only
              cases hf2 : fillBuffer b2 r2 with
              | ok w2 => obtain ⟨len3, b3, r3⟩ := w2; exact nextSkipBlocks_ne_panic target bounds m f b3 r3
              | err e => simp
              | panic s => exact absurd hf2 (fillBuffer_ne_panic _ _ s)
              | outOfFuel => simp
            | err e => simp
            | panic s => exact absurd hk (skipToEnd_ne_panic e s f b1 r1)
            | outOfFuel => simp
          · exact nextSkipBlocks_ne_panic target bounds m f b1 r1
      | err e => simp
      | panic s => exact absurd hf (fillBuffer_ne_panic buf r s)
      | outOfFuel => simp
    | err e => simp
    | panic s => exact absurd ht (readType_ne_panic bs s)
    | outOfFuel => simp

theorem newReader_ne_panic (bs : Bytes) (m : String) : newReader bs ≠ .panic m := by
  unfold newReader
  cases h1 : nextSkipBlocks 0x0094 [(0x0081, none), (0x0093, none)] (bs.length + 1) [] bs with
  | ok v =>
    obtain ⟨n, buf, rest⟩ := v
    simp only
    split
    · simp
    · cases h2 : nextSkipBlocks 0x0091 [(0x0085, some 0x0086), (0x0025, some 0x0026), (0x01E5, none), (0x0186, some 0x0187)]
          (bs.length + 1) buf rest with
      | ok w => obtain ⟨n2, buf2, rest2⟩ := w; simp
      | err e => simp
      | panic s => exact absurd h2 (nextSkipBlocks_ne_panic _ _ s _ _ _)
      | outOfFuel => simp
  | err e => simp
  | panic s => exact absurd h1 (nextSkipBlocks_ne_panic _ _ s _ _ _)
  | outOfFuel => simp

theorem sheetCells_ne_panic (ctx : Ctx) (bs : Bytes) (m : String) : sheetCells ctx bs ≠ .panic m := by
  unfold sheetCells
  cases h1 : newReader bs with
  | ok v =>
    obtain ⟨dims, rest⟩ := v
    simp only [dimLen]
    cases h2 : readCells ctx (bs.length + 1) rest 0 with
    | ok cells => simp
    | err e => simp
    | panic s => exact absurd h2 (readCells_ne_panic ctx s _ _ _)
    | outOfFuel => simp
  | err e => simp
  | panic s => exact absurd h1 (newReader_ne_panic bs s)
  | outOfFuel => simp

theorem sheetCells_ne_fuel (ctx : Ctx) (bs : Bytes) : sheetCells ctx bs ≠ .outOfFuel := by
  unfold sheetCells
  obtain ⟨n1, n2⟩ := newReader_total bs
  cases h1 : newReader bs with
  | ok v =>
    obtain ⟨dims, rest⟩ := v
    have hs := n2 dims rest h1
    simp only [dimLen]
    have hc := readCells_fuel ctx (bs.length + 1) rest 0 (by omega)
    cases h2 : readCells ctx (bs.length + 1) rest 0 with
    | ok cells => simp
    | err e => simp
    | panic s => simp
    | outOfFuel => exact absurd h2 hc
  | err e => simp
  | panic s => simp
  | outOfFuel => exact absurd h1 n1


theorem recordsGo_ne_panic (m : String) : ∀ (f : Nat) (bs : Bytes), recordsGo f bs ≠ .panic m
  | 0, _ => by simp [recordsGo]
  | f+1, [] => by simp [recordsGo]
  | f+1, b :: bs => by
    rw [recordsGo]
    cases hr : readRecord (b :: bs) with
    | ok v =>
      obtain ⟨t, p, rest⟩ := v
      simp only
      cases hc : recordsGo f rest with
      | ok l => simp
      | err e => simp
      | panic s => exact absurd hc (recordsGo_ne_panic s f rest)
      | outOfFuel => simp
    | err e => simp
    | panic s => exact absurd hr (readRecord_ne_panic _ s)
    | outOfFuel => simp

theorem recordsGo_fuel : ∀ (f : Nat) (bs : Bytes), bs.length < f → recordsGo f bs ≠ .outOfFuel
  | 0, _, h => by omega
  | f+1, [], _ => by simp [recordsGo]
  | f+1, b :: bs, h => by
    rw [recordsGo]
    cases hr : readRecord (b :: bs) with
    | ok v =>
      obtain ⟨t, p, rest⟩ := v
      have hs := readRecord_shrinks _ t p rest hr
      simp only
      cases hc : recordsGo f rest with
      | ok l => simp
      | err e => simp
      | panic s => simp
      | outOfFuel => exact absurd hc (recordsGo_fuel f rest (by omega))
    | err e => simp
    | panic s => simp
    | outOfFuel => exact absurd hr (readRecord_ne_fuel _)

theorem sstItems_ne_panic (m : String) : ∀ (n fuel : Nat) (buf bs : Bytes) (acc : List (List Nat)),
    sstItems n fuel buf bs acc ≠ .panic m
  | 0, _, _, _, _ => by simp [sstItems]
  | n+1, fuel, buf, bs, acc => by
    rw [sstItems]
    cases h : nextSkipBlocks 0x0013 [(0x0023, some 0x0024)] fuel buf bs with
    | ok v =>
      obtain ⟨len, buf', rest⟩ := v
      simp only
      split
      · simp
      · cases hw : wideStr (buf'.drop 1) with
        | ok w => obtain ⟨s, k⟩ := w; exact sstItems_ne_panic m n fuel buf' rest (s :: acc)
        | err e => simp
        | panic s => exact absurd hw (wideStr_ne_panic _ s)
        | outOfFuel => simp
    | err e => simp
    | panic s => exact absurd h (nextSkipBlocks_ne_panic _ _ s _ _ _)
    | outOfFuel => simp

theorem sstItems_fuel : ∀ (n fuel : Nat) (buf bs : Bytes) (acc : List (List Nat)), bs.length < fuel →
    sstItems n fuel buf bs acc ≠ .outOfFuel
  | 0, _, _, _, _, _ => by simp [sstItems]
  | n+1, fuel, buf, bs, acc, hf => by
    rw [sstItems]
    obtain ⟨k1, k2⟩ := nextSkipBlocks_total 0x0013 [(0x0023, some 0x0024)] fuel buf bs hf
    cases h : nextSkipBlocks 0x0013 [(0x0023, some 0x0024)] fuel buf bs with
    | ok v =>
      obtain ⟨len, buf', rest⟩ := v
      have hs := k2 len buf' rest h
      simp only
      split
      · simp
      · cases hw : wideStr (buf'.drop 1) with
        | ok w => obtain ⟨s, k⟩ := w; exact sstItems_fuel n fuel buf' rest (s :: acc) (by omega)
        | err e => simp
        | panic s => simp
        | outOfFuel => exact absurd hw (wideStr_ne_fuel _)
    | err e => simp
    | panic s => simp
    | outOfFuel => exact absurd h k1

theorem readSharedStrings_ne_panic (bs : Bytes) (m : String) : readSharedStrings bs ≠ .panic m := by
  unfold readSharedStrings
  cases h : nextSkipBlocks 0x009F [] (bs.length + 1) [] bs with
  | ok v =>
    obtain ⟨len, buf, rest⟩ := v
    simp only
    split
    · simp
    · exact sstItems_ne_panic m _ _ _ _ _
  | err e => simp
  | panic s => exact absurd h (nextSkipBlocks_ne_panic _ _ s _ _ _)
  | outOfFuel => simp

theorem readSharedStrings_ne_fuel (bs : Bytes) : readSharedStrings bs ≠ .outOfFuel := by
  unfold readSharedStrings
  obtain ⟨k1, k2⟩ := nextSkipBlocks_total 0x009F [] (bs.length + 1) [] bs (by omega)
  cases h : nextSkipBlocks 0x009F [] (bs.length + 1) [] bs with
  | ok v =>
    obtain ⟨len, buf, rest⟩ := v
    have hs := k2 len buf rest h
    simp only
    split
    · simp
    · exact sstItems_fuel _ _ _ _ _ (by omega)
  | err e => simp
  | panic s => simp
  | outOfFuel => exact absurd h k1

/-! ### formula vs constant records, the BErr table, coordinate bounds of the cells read -/

theorem interpret_err_invalid (ctx : Ctx) (col style code : Nat) (fmla : Option Bytes) (hc : code < 256)
    (hbad : isErrCode code = false) :
    interpret ctx (CellRec.mk col style (.err code) fmla).recId (CellRec.mk col style (.err code) fmla).payload
      = .fail (.err "CellError") := by
  have hlen := payload_length ⟨col, style, .err code, fmla⟩
  have hshape := payload_shape ⟨col, style, .err code, fmla⟩
  generalize (CellRec.mk col style (.err code) fmla).payload = p at hlen hshape
  have hl : (Content.err code).bytes.length = 1 := rfl
  simp only at hlen
  have h9 : ¬ p.length < 9 := by omega
  have hb : (p.getD 8 0).toNat = code := by
    rw [hshape]; simp [Content.bytes, List.getD]; omega
  have hid : CellRec.recId ⟨col, style, .err code, fmla⟩ = 3 ∨ CellRec.recId ⟨col, style, .err code, fmla⟩ = 11 := by
    cases fmla <;> simp [CellRec.recId]
  unfold interpret
  rcases hid with hid | hid <;> rw [hid] <;>
    simp only [Nat.reduceEqDiff, if_false, false_or, or_true, true_or, if_true, if_neg h9, hb, hbad] <;> simp

theorem fmla_eq_const (ctx : Ctx) (col style : Nat) (content : Content) (f : Bytes)
    (hf : content.hasFmla = true) (hwf : (CellRec.mk col style content none).WF) :
    interpret ctx (CellRec.mk col style content (some f)).recId (CellRec.mk col style content (some f)).payload
      = interpret ctx (CellRec.mk col style content none).recId (CellRec.mk col style content none).payload := by
  have key : ∀ v, valueOf ctx style content = some v →
      interpret ctx (CellRec.mk col style content (some f)).recId (CellRec.mk col style content (some f)).payload
        = interpret ctx (CellRec.mk col style content none).recId (CellRec.mk col style content none).payload := by
    intro v hv
    rw [interpret_cell ctx ⟨col, style, content, some f⟩ hwf v hv, interpret_cell ctx ⟨col, style, content, none⟩ hwf v hv]
  cases content with
  | blank => simp [Content.hasFmla] at hf
  | rk w => simp [Content.hasFmla] at hf
  | isst i => simp [Content.hasFmla] at hf
  | bool b => exact key _ rfl
  | real bits => exact key _ rfl
  | str us => exact key _ rfl
  | err code =>
    by_cases h : isErrCode code = true
    · exact key (.error code) (by simp only [valueOf]; rw [← isErrCode_eq_berr, h]; rfl)
    · have hbad : isErrCode code = false := by simpa using h
      have hc : code < 256 := hwf.2
      rw [interpret_err_invalid ctx col style code (some f) hc hbad, interpret_err_invalid ctx col style code none hc hbad]

theorem berrKind_code (c : Nat) (k : CellErrorType) (h : berrKind c = some k) : c = berrCode k := by
  unfold berrKind berrTable at h
  simp only [List.lookup] at h
  repeat' split at h
  all_goals first
    | (injection h with h; subst h; simp_all [berrCode])
    | cases h

theorem berrKind_berrCode (k : CellErrorType) : berrKind (berrCode k) = some k := by cases k <;> decide

/-- the BErr table is one-to-one: a code stands for a kind exactly when it is that kind's code -/
theorem berrTable_bijective :
    (∀ c k, berrKind c = some k ↔ c = berrCode k) ∧ (∀ k k', berrCode k = berrCode k' → k = k') ∧
    (∀ k, berrCode k < 256) := by
  refine ⟨fun c k => ⟨berrKind_code c k, fun h => h ▸ berrKind_berrCode k⟩, ?_, fun k => by cases k <;> decide⟩
  intro k k' h
  have := berrKind_berrCode k
  rw [h, berrKind_berrCode k'] at this
  exact (Option.some.inj this).symm

theorem u32le_lt (b : Bytes) : u32le b < 4294967296 := by
  unfold u32le
  have h0 := (b.getD 0 0).toNat_lt; have h1 := (b.getD 1 0).toNat_lt
  have h2 := (b.getD 2 0).toNat_lt; have h3 := (b.getD 3 0).toNat_lt
  omega

theorem interpret_value_col (ctx : Ctx) (t : Nat) (p : Bytes) (col : Nat) (v : Val)
    (h : interpret ctx t p = .value col v) : col < 4294967296 := by
  have hu := u32le_lt p
  unfold interpret at h
  repeat' split at h
  all_goals first
    | (injection h with h1 h2; subst h1; exact hu)
    | cases h

theorem interpret_row_lt (ctx : Ctx) (t : Nat) (p : Bytes) (r : Nat) (h : interpret ctx t p = .row r) : r < 4294967296 := by
  have hu := u32le_lt p
  unfold interpret at h
  repeat' split at h
  all_goals first
    | (injection h with h1; subst h1; exact hu)
    | cases h

/-- every cell the loop yields has a row of at most 0x100000 (a larger row number ends the sheet) and a `u32` column -/
theorem readCells_bounds (ctx : Ctx) : ∀ (f : Nat) (bs : Bytes) (row : Nat) (cells : List (Nat × Nat × Val)),
    row ≤ 0x100000 → readCells ctx f bs row = .ok cells → ∀ c ∈ cells, c.1 ≤ 0x100000 ∧ c.2.1 < 4294967296
  | 0, _, _, _, _, h => by simp [readCells] at h
  | f+1, bs, row, cells, hrow, h => by
    rw [readCells] at h
    cases hr : readRecord bs with
    | ok v =>
      obtain ⟨t, p, rest⟩ := v
      rw [hr] at h
      simp only at h
      cases hi : interpret ctx t p with
      | value col v =>
        rw [hi] at h
        simp only at h
        cases hc : readCells ctx f rest row with
        | ok l =>
          rw [hc] at h
          injection h with h; subst h
          intro c hcm
          rcases List.mem_cons.mp hcm with rfl | hm
          · exact ⟨hrow, interpret_value_col ctx t p col v hi⟩
          · exact readCells_bounds ctx f rest row l hrow hc c hm
        | err e => rw [hc] at h; cases h
        | panic s => rw [hc] at h; cases h
        | outOfFuel => rw [hc] at h; cases h
      | row r =>
        rw [hi] at h
        simp only at h
        split at h
        · injection h with h; subst h; intro c hc; cases hc
        · exact readCells_bounds ctx f rest r cells (by omega) h
      | stop => rw [hi] at h; injection h with h; subst h; intro c hc; cases hc
      | skip => rw [hi] at h; exact readCells_bounds ctx f rest row cells hrow h
      | fail r =>
        rw [hi] at h
        obtain ⟨e, rfl⟩ := interpret_fail_err ctx t p r hi
        cases h
    | err e => rw [hr] at h; cases h
    | panic s => rw [hr] at h; cases h
    | outOfFuel => rw [hr] at h; cases h

theorem sheetCells_bounds (ctx : Ctx) (bs : Bytes) (cells : List (Nat × Nat × Val)) (h : sheetCells ctx bs = .ok cells) :
    ∀ c ∈ cells, c.1 ≤ 0x100000 ∧ c.2.1 < 4294967296 := by
  unfold sheetCells at h
  cases h1 : newReader bs with
  | ok v =>
    obtain ⟨dims, rest⟩ := v
    rw [h1] at h
    simp only [dimLen] at h
    cases h2 : readCells ctx (bs.length + 1) rest 0 with
    | ok l =>
      rw [h2] at h
      injection h with h; subst h
      intro c hc
      exact readCells_bounds ctx _ rest 0 l (by omega) h2 c (List.mem_filter.mp hc).1
    | err e => rw [h2] at h; cases h
    | panic s => rw [h2] at h; cases h
    | outOfFuel => rw [h2] at h; cases h
  | err e => rw [h1] at h; cases h
  | panic s => rw [h1] at h; cases h
  | outOfFuel => rw [h1] at h; cases h

end Xlsb
