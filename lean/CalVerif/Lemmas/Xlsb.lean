import CalVerif.Spec.XlsbEnc
/-! Helper lemmas for C03: little-endian fields, the cell payload layout as the reader sees it, the arms of
    `Xlsb.interpret` on encoder output. Property theorems are in `Props/C03.lean`. -/

namespace Xlsb

theorem toNat_ofNat' (n : Nat) : (UInt8.ofNat n).toNat = n % 256 := by simp

theorem u32le_cons4 (a b c d : UInt8) (rest : Bytes) :
    u32le (a :: b :: c :: d :: rest) = a.toNat + 256 * b.toNat + 65536 * c.toNat + 16777216 * d.toNat := by
  simp [u32le, List.getD]

theorem u32le_le32 (n : Nat) (h : n < 4294967296) (rest : Bytes) : u32le (le32 n ++ rest) = n := by
  simp only [le32, List.cons_append, List.nil_append, u32le_cons4, toNat_ofNat']
  omega

theorem le32_length (n : Nat) : (le32 n).length = 4 := rfl

theorem units_unitsBytes (us : List Nat) (h : ∀ u ∈ us, u < 65536) : units (unitsBytes us) = us := by
  induction us with
  | nil => rfl
  | cons u rest ih =>
    have hu := h u (List.mem_cons_self ..)
    simp only [unitsBytes, units, toNat_ofNat']
    rw [ih (fun x hx => h x (List.mem_cons_of_mem _ hx))]
    congr 1; omega

theorem unitsBytes_length (us : List Nat) : (unitsBytes us).length = 2 * us.length := by
  induction us with
  | nil => rfl
  | cons u rest ih => simp only [unitsBytes, List.length_cons, ih]; omega

theorem wideStr_wideBytes (us : List Nat) (hl : us.length < 4294967296) (h : ∀ u ∈ us, u < 65536) (rest : Bytes) :
    wideStr (wideBytes us ++ rest) = .ok (us, 4 + us.length * 2) := by
  unfold wideStr wideBytes
  have hlen : (le32 us.length ++ unitsBytes us ++ rest).length = 4 + 2 * us.length + rest.length := by
    simp only [List.length_append, le32_length, unitsBytes_length]
  rw [List.append_assoc, u32le_le32 _ hl]
  rw [← List.append_assoc, hlen]
  rw [if_neg (by omega), if_neg (by omega)]
  have : ((le32 us.length ++ unitsBytes us ++ rest).drop 4).take (us.length * 2) = unitsBytes us := by
    rw [List.append_assoc, List.drop_left' (le32_length _)]
    rw [List.take_left' (by rw [unitsBytes_length]; omega)]
  rw [this, units_unitsBytes us h]

/-- size constraints of the fields of a cell record -/
def Content.WF : Content → Prop
  | .blank => True
  | .rk w => w < 4294967296
  | .err c => c < 256
  | .bool b => b < 256
  | .real bits => bits < 18446744073709551616
  | .str us => us.length < 4294967296 ∧ ∀ u ∈ us, u < 65536
  | .isst i => i < 4294967296

def CellRec.WF (c : CellRec) : Prop := c.col < 4294967296 ∧ c.content.WF

def CellRec.tail (c : CellRec) : Bytes :=
  match c.fmla with
  | some f => if c.content.hasFmla then f else []
  | none => []

/-- shape of every cell payload: 4 column bytes, 3 style bytes, a zero, then the body -/
theorem payload_shape (c : CellRec) : c.payload =
    UInt8.ofNat (c.col % 256) :: UInt8.ofNat (c.col / 256 % 256) :: UInt8.ofNat (c.col / 65536 % 256) ::
    UInt8.ofNat (c.col / 16777216 % 256) :: UInt8.ofNat (c.style % 256) :: UInt8.ofNat (c.style / 256 % 256) ::
    UInt8.ofNat (c.style / 65536 % 256) :: 0 :: (c.content.bytes ++ c.tail) := by
  simp only [CellRec.payload, cellHead, le32, CellRec.tail, List.cons_append, List.nil_append]
  rfl

/-- the reader's view of a record with the cell layout -/
theorem cellFormat_shape (fmts : List Nat) (h0 h1 h2 h3 z : UInt8) (style : Nat) (body : Bytes) :
    cellFormat fmts (h0 :: h1 :: h2 :: h3 :: UInt8.ofNat (style % 256) :: UInt8.ofNat (style / 256 % 256) ::
      UInt8.ofNat (style / 65536 % 256) :: z :: body) = fmts[style % 16777216]? := by
  simp only [cellFormat, List.getD, List.getElem?_cons_succ, List.getElem?_cons_zero, Option.getD_some, toNat_ofNat']
  congr 1; omega

theorem formatF64_shape (ctx : Ctx) (h0 h1 h2 h3 z : UInt8) (style : Nat) (body : Bytes) (bits : Nat) :
    formatF64 ctx (h0 :: h1 :: h2 :: h3 :: UInt8.ofNat (style % 256) :: UInt8.ofNat (style / 256 % 256) ::
      UInt8.ofNat (style / 65536 % 256) :: z :: body) bits = styled ctx style bits := by
  simp only [formatF64, styled, cellFormat_shape]
  rfl


theorem u64le_le64 (n : Nat) (h : n < 18446744073709551616) (rest : Bytes) : u64le (le64 n ++ rest) = n := by
  unfold u64le le64
  rw [List.append_assoc, u32le_le32 _ (Nat.mod_lt _ (by decide))]
  rw [List.drop_left' (le32_length _), u32le_le32 _ (by omega)]
  omega

theorem rkInt_eq (w : Nat) (h : w < 4294967296) : rkInt w = rkIntSpec w := by
  unfold rkInt rkIntSpec
  simp only
  split <;> split <;> omega

theorem rkFloatBits_eq (w : Nat) : rkFloatBits w = (w / 4) * 17179869184 := by
  unfold rkFloatBits; omega

theorem payload_length (c : CellRec) : c.payload.length = 8 + c.content.bytes.length + c.tail.length := by
  rw [payload_shape]; simp only [List.length_cons, List.length_append]; omega

theorem interpret_cell (ctx : Ctx) (c : CellRec) (hwf : c.WF) (v : Val)
    (hv : valueOf ctx c.style c.content = some v) :
    interpret ctx c.recId c.payload = .value c.col v := by
  obtain ⟨hcol, hc⟩ := hwf
  have hu : u32le c.payload = c.col := by
    rw [payload_shape, u32le_cons4]; simp only [toNat_ofNat']; omega
  have hlen := payload_length c
  have hshape := payload_shape c
  generalize c.payload = p at hu hlen hshape
  rcases c with ⟨col, style, content, fmla⟩
  simp only at hv hu hcol hc hlen hshape ⊢
  cases content with
  | blank => simp [valueOf] at hv
  | rk w =>
    simp only [Content.WF] at hc
    have hid : CellRec.recId ⟨col, style, .rk w, fmla⟩ = 2 := by simp [CellRec.recId]
    have hl : (Content.rk w).bytes.length = 4 := rfl
    rw [hid]
    unfold interpret
    rw [if_pos rfl, if_neg (by omega), if_neg (by omega), hu]
    congr 1
    rw [hshape]
    simp only [Content.bytes, le32, List.cons_append, List.nil_append]
    simp only [rkVal, List.drop_succ_cons, List.drop_zero, u32le_cons4, toNat_ofNat', formatF64_shape, cellFormat_shape]
    have hw : w % 256 % 256 + 256 * (w / 256 % 256 % 256) + 65536 * (w / 65536 % 256 % 256) + 16777216 * (w / 16777216 % 256 % 256) = w := by omega
    rw [hw, rkInt_eq w hc, rkFloatBits_eq]
    simp only [valueOf] at hv
    by_cases h1 : w / 2 % 2 = 1
    · rw [if_pos h1] at hv ⊢
      by_cases h2 : w % 2 = 1
      · rw [if_pos h2] at hv ⊢; exact Option.some.inj hv
      · rw [if_neg h2] at hv ⊢
        unfold styled at hv ⊢
        generalize ctx.formats[style % 16777216]? = o at hv ⊢
        rcases o with _ | _ | _ | _ | n <;> simp_all
    · rw [if_neg h1] at hv ⊢; exact Option.some.inj hv
  | err code =>
    simp only [Content.WF] at hc
    have hl : (Content.err code).bytes.length = 1 := rfl
    simp only [valueOf] at hv
    split at hv
    · rename_i hok
      have hid : CellRec.recId ⟨col, style, .err code, fmla⟩ = 3 ∨ CellRec.recId ⟨col, style, .err code, fmla⟩ = 11 := by
        cases fmla <;> simp [CellRec.recId]
      unfold interpret
      have h9 : ¬ p.length < 9 := by omega
      have hb : (p.getD 8 0).toNat = code := by
        rw [hshape]; simp [Content.bytes, List.getD]; omega
      rcases hid with hid | hid <;> rw [hid] <;> simp only [Nat.reduceEqDiff, if_false, false_or, or_true, true_or, if_true, if_neg h9, hb, hok, hu] <;> simp_all
    · simp at hv
  | bool b =>
    simp only [Content.WF] at hc
    have hl : (Content.bool b).bytes.length = 1 := rfl
    simp only [valueOf, Option.some.injEq] at hv
    have hid : CellRec.recId ⟨col, style, .bool b, fmla⟩ = 4 ∨ CellRec.recId ⟨col, style, .bool b, fmla⟩ = 10 := by
      cases fmla <;> simp [CellRec.recId]
    unfold interpret
    have h9 : ¬ p.length < 9 := by omega
    have hb : (p.getD 8 0).toNat = b := by
      rw [hshape]; simp [Content.bytes, List.getD]; omega
    have hb' : b % 256 = b := by omega
    rcases hid with hid | hid <;> rw [hid] <;> simp only [Nat.reduceEqDiff, if_false, false_or, or_true, true_or, if_true, if_neg h9, hb, hu] <;> simp_all
  | real bits =>
    simp only [Content.WF] at hc
    have hl : (Content.real bits).bytes.length = 8 := by simp [Content.bytes, le64, le32_length]
    simp only [valueOf, Option.some.injEq] at hv
    have hid : CellRec.recId ⟨col, style, .real bits, fmla⟩ = 5 ∨ CellRec.recId ⟨col, style, .real bits, fmla⟩ = 9 := by
      cases fmla <;> simp [CellRec.recId]
    unfold interpret
    have h16 : ¬ p.length < 16 := by omega
    have hb : formatF64 ctx p (u64le (p.drop 8)) = v := by
      rw [hshape, formatF64_shape]
      simp only [List.drop_succ_cons, List.drop_zero, Content.bytes]
      rw [u64le_le64 _ hc]; exact hv
    rcases hid with hid | hid <;> rw [hid] <;> simp only [Nat.reduceEqDiff, if_false, false_or, or_true, true_or, if_true, if_neg h16, hb, hu]
  | str us =>
    simp only [Content.WF] at hc
    simp only [valueOf, Option.some.injEq] at hv
    have hid : CellRec.recId ⟨col, style, .str us, fmla⟩ = 6 ∨ CellRec.recId ⟨col, style, .str us, fmla⟩ = 8 := by
      cases fmla <;> simp [CellRec.recId]
    unfold interpret
    have h8 : ¬ p.length < 8 := by omega
    have hb : wideStr (p.drop 8) = .ok (us, 4 + us.length * 2) := by
      rw [hshape]
      simp only [List.drop_succ_cons, List.drop_zero, Content.bytes]
      exact wideStr_wideBytes us hc.1 hc.2 _
    rcases hid with hid | hid <;> rw [hid] <;> simp only [Nat.reduceEqDiff, if_false, false_or, or_true, true_or, if_true, if_neg h8, hb, hu, hv]
  | isst i =>
    simp only [Content.WF] at hc
    have hl : (Content.isst i).bytes.length = 4 := rfl
    simp only [valueOf] at hv
    have hid : CellRec.recId ⟨col, style, .isst i, fmla⟩ = 7 := by simp [CellRec.recId]
    unfold interpret
    have h12 : ¬ p.length < 12 := by omega
    have hb : u32le (p.drop 8) = i := by
      rw [hshape]
      simp only [List.drop_succ_cons, List.drop_zero, Content.bytes]
      exact u32le_le32 i hc _
    rw [hid]
    simp only [Nat.reduceEqDiff, if_false, false_or, if_true, if_neg h12, hb, hu]
    cases hs : ctx.strings[i]? with
    | none => simp [hs] at hv
    | some s => simp [hs] at hv; simp [hv]

/-! ### framing -/

theorem readType_encId (t : Nat) (ht : t < 16384) (wide : Bool) (rest : Bytes) :
    readType (encId t wide ++ rest) = .ok (t, rest) := by
  unfold encId
  split
  · simp only [List.cons_append, List.nil_append, readType, toNat_ofNat']
    rw [if_pos (by omega)]
    congr 2; omega
  · simp only [List.cons_append, List.nil_append, readType, toNat_ofNat']
    rw [if_neg (by omega)]
    congr 2; omega

theorem readLen_encLenW (n w : Nat) (hw1 : 1 ≤ w) (hw4 : w ≤ 4) (hn : n < 2 ^ (7 * w)) (rest : Bytes) :
    readLen (encLenW w n ++ rest) = .ok (n, rest) := by
  have h4 : w = 1 ∨ w = 2 ∨ w = 3 ∨ w = 4 := by omega
  rcases h4 with rfl | rfl | rfl | rfl
  · simp only [encLenW, List.cons_append, List.nil_append, readLen, readLenGo, toNat_ofNat']
    rw [if_pos (by omega)]; congr 2; omega
  · simp only [encLenW, List.cons_append, List.nil_append, readLen, readLenGo, toNat_ofNat']
    rw [if_neg (by omega), if_pos (by omega)]; congr 2; omega
  · simp only [encLenW, List.cons_append, List.nil_append, readLen, readLenGo, toNat_ofNat']
    rw [if_neg (by omega), if_neg (by omega), if_pos (by omega)]; congr 2; omega
  · simp only [encLenW, List.cons_append, List.nil_append, readLen, readLenGo, toNat_ofNat']
    rw [if_neg (by omega), if_neg (by omega), if_neg (by omega)]; congr 2; omega

theorem minLenWidth_ok (n : Nat) (hn : n < 268435456) :
    1 ≤ minLenWidth n ∧ minLenWidth n ≤ 4 ∧ n < 2 ^ (7 * minLenWidth n) := by
  unfold minLenWidth
  by_cases h1 : n < 128
  · rw [if_pos h1]; exact ⟨by omega, by omega, by omega⟩
  · rw [if_neg h1]
    by_cases h2 : n < 16384
    · rw [if_pos h2]; exact ⟨by omega, by omega, by omega⟩
    · rw [if_neg h2]
      by_cases h3 : n < 2097152
      · rw [if_pos h3]; exact ⟨by omega, by omega, by omega⟩
      · rw [if_neg h3]; exact ⟨by omega, by omega, by omega⟩

theorem lenWidth_ok (n w : Nat) (hn : n < 268435456) :
    1 ≤ lenWidth n w ∧ lenWidth n w ≤ 4 ∧ n < 2 ^ (7 * lenWidth n w) := by
  obtain ⟨m1, m4, mlt⟩ := minLenWidth_ok n hn
  unfold lenWidth
  by_cases h : w = 0 ∨ w < minLenWidth n ∨ 4 < w
  · rw [if_pos h]; exact ⟨m1, m4, mlt⟩
  · rw [if_neg h]
    refine ⟨by omega, by omega, ?_⟩
    exact Nat.lt_of_lt_of_le mlt (Nat.pow_le_pow_right (by omega) (by omega))

theorem readLen_encLen (n w : Nat) (hn : n < 268435456) (rest : Bytes) :
    readLen (encLen n w ++ rest) = .ok (n, rest) := by
  obtain ⟨h1, h4, hlt⟩ := lenWidth_ok n w hn
  exact readLen_encLenW n _ h1 h4 hlt rest

theorem readRecord_frame (t : Nat) (ht : t < 16384) (p : Bytes) (hp : p.length < 268435456) (wide : Bool)
    (w : Nat) (rest : Bytes) : readRecord (frame t p wide w ++ rest) = .ok (t, p, rest) := by
  unfold frame readRecord
  rw [List.append_assoc, List.append_assoc, readType_encId t ht]
  simp only
  rw [readLen_encLen _ _ hp]
  simp only
  rw [if_neg (by simp), List.take_left' rfl, List.drop_left' rfl]

theorem interpret_skip (ctx : Ctx) (t : Nat) (p : Bytes) (h : interpretedId t = false) :
    interpret ctx t p = .skip := by
  have h' : t ≠ 0 ∧ ¬ (2 ≤ t ∧ t ≤ 11) ∧ t ≠ 0x92 := by
    simp only [interpretedId, Bool.or_eq_false_iff, Bool.and_eq_false_imp, decide_eq_false_iff_not, decide_eq_true_eq] at h
    omega
  unfold interpret
  rw [if_neg (by omega), if_neg (by omega), if_neg (by omega), if_neg (by omega), if_neg (by omega),
    if_neg (by omega), if_neg (by omega), if_neg (by omega)]

theorem interpret_row (ctx : Ctx) (r : Nat) (hr : r < 4294967296) (tail : Bytes) :
    interpret ctx 0 (le32 r ++ tail) = .row r := by
  unfold interpret
  rw [if_neg (by omega), if_neg (by omega), if_neg (by omega), if_neg (by omega), if_neg (by omega),
    if_neg (by omega), if_pos rfl, u32le_le32 r hr]
  rw [if_neg (by simp [le32_length])]

theorem interpret_stop (ctx : Ctx) (p : Bytes) : interpret ctx 0x92 p = .stop := by
  unfold interpret
  rw [if_neg (by omega), if_neg (by omega), if_neg (by omega), if_neg (by omega), if_neg (by omega),
    if_neg (by omega), if_neg (by omega), if_pos rfl]


/-- what the round-trip theorems require of an item of the sheet data -/
def Item.OK (ctx : Ctx) : Item → Prop
  | .row r tail => r ≤ 0x100000 ∧ 4 + tail.length < 268435456
  | .cell c => c.WF ∧ c.payload.length < 268435456 ∧ (c.content = .blank ∨ (valueOf ctx c.style c.content).isSome)
  | .raw id p => id < 16384 ∧ interpretedId id = false ∧ p.length < 268435456

theorem readCells_data (ctx : Ctx) (endWide : Bool) (endLenW : Nat) (post : Bytes) :
    ∀ (data : List Framed) (f row : Nat), (∀ d ∈ data, d.item.OK ctx) → data.length < f →
      readCells ctx f (encodeItems data ++ (frame 0x92 [] endWide endLenW ++ post)) row
        = .ok (specCells ctx (data.map (·.item)) row)
  | [], f, row, _, hf => by
    obtain ⟨f', rfl⟩ : ∃ f', f = f' + 1 := ⟨f - 1, by simp at hf; omega⟩
    simp only [encodeItems, List.nil_append, List.map_nil, specCells]
    rw [readCells, readRecord_frame _ (by omega) _ (by simp)]
    simp only [interpret_stop]
  | d :: rest, f, row, hok, hf => by
    obtain ⟨f', rfl⟩ : ∃ f', f = f' + 1 := ⟨f - 1, by simp at hf; omega⟩
    have hd := hok d (List.mem_cons_self ..)
    have hrest : ∀ x ∈ rest, x.item.OK ctx := fun x hx => hok x (List.mem_cons_of_mem _ hx)
    have hf' : rest.length < f' := by simp at hf; omega
    simp only [encodeItems, List.append_assoc, List.map_cons]
    obtain ⟨item, wide, lenW⟩ := d
    cases item with
    | row r tail =>
      obtain ⟨hr, hl⟩ := hd
      rw [readCells, Framed.bytes, readRecord_frame _ (by simp [Item.recId]) _ (by simp [Item.payload, le32_length]; omega)]
      simp only [Item.recId, Item.payload, interpret_row ctx r (by omega), specCells]
      rw [if_neg (by omega)]
      exact readCells_data ctx endWide endLenW post rest f' r hrest hf'
    | raw id p =>
      obtain ⟨hid, hni, hl⟩ := hd
      rw [readCells, Framed.bytes, readRecord_frame _ (by simpa [Item.recId] using hid) _ (by simpa [Item.payload] using hl)]
      simp only [Item.recId, Item.payload, interpret_skip ctx id p hni, specCells]
      exact readCells_data ctx endWide endLenW post rest f' row hrest hf'
    | cell c =>
      obtain ⟨hwf, hl, hv⟩ := hd
      have hidlt : c.recId < 16384 := by
        unfold CellRec.recId; split <;> omega
      rw [readCells, Framed.bytes, readRecord_frame _ (by simpa [Item.recId] using hidlt) _ (by simpa [Item.payload] using hl)]
      simp only [Item.recId, Item.payload]
      rcases hv with hb | hs
      · have hid : c.recId = 1 := by unfold CellRec.recId; rw [hb]
        rw [hid, interpret_skip ctx 1 _ (by decide)]
        simp only [specCells, hb, valueOf]
        exact readCells_data ctx endWide endLenW post rest f' row hrest hf'
      · obtain ⟨v, hv⟩ := Option.isSome_iff_exists.mp hs
        rw [interpret_cell ctx c hwf v hv]
        simp only [specCells, hv]
        rw [readCells_data ctx endWide endLenW post rest f' row hrest hf']

end Xlsb
