import CalVerif.Lemmas.Cfb
import CalVerif.Lemmas.Password
/-! C13's compound-file theorems (`Lemmas/Cfb.lean`: `new_layout_good`, `hasDirectory_layout`, `getStream_layout`)
    brought into the form C20's container theorems are stated against (`CfbNewOnLayouts`, `CfbReadsLayouts`). -/

namespace Password
open Cfb

theorem parsedDirs_names (streams : List Stream) (L : Layout) :
    ∀ d ∈ parsedDirs streams L, d.name = rootName ∨ d.name = [] ∨ ∃ st ∈ streams, st.name = d.name := by
  intro d hd
  simp only [parsedDirs, List.mem_cons, List.mem_append, List.mem_map, List.mem_replicate] at hd
  rcases hd with (rfl | ⟨o, _, rfl⟩) | ⟨_, rfl⟩
  · left; rfl
  · cases o with
    | none => right; left; rfl
    | some s =>
      simp only [slotDir, streamDir]
      cases hs : streams[s]? with
      | none => right; left; rfl
      | some st => right; right; exact ⟨st, List.mem_of_getElem? hs, rfl⟩
  · right; left; rfl

/-- C13's theorems, in the form C20 uses them -/
theorem cfbNewOnLayouts : CfbNewOnLayouts := by
  intro streams L hv
  have hp := valid_unpack streams L hv
  obtain ⟨c, rd, hnew, hg⟩ := new_layout_good streams L hp
  exact ⟨c, rd, hnew, fun s hs => hasDirectory_layout streams L hp c rd hg s hs⟩

theorem cfbReadsLayouts : CfbReadsLayouts := by
  intro streams L hv
  have hp := valid_unpack streams L hv
  obtain ⟨c, rd, hnew, hg⟩ := new_layout_good streams L hp
  refine ⟨c, rd, hnew, ?_, ?_⟩
  · intro n hn
    unfold hasDirectory at hn
    rw [hg.dirs, List.any_eq_true] at hn
    obtain ⟨d, hd, hname⟩ := hn
    have hname' : d.name = n := by simpa using hname
    rw [← hname']
    exact parsedDirs_names streams L d hd
  · intro s hs
    obtain ⟨s0, hs0, rfl⟩ := List.getElem_of_mem hs
    obtain ⟨c', rd', hget, _⟩ := getStream_layout streams L hp c rd hg s0 streams[s0] (by simp [hs0])
    exact ⟨c', rd', hget⟩

end Password
