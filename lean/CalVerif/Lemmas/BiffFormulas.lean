import CalVerif.Lemmas.BiffSheet
import CalVerif.Lemmas.BiffRange
/-! C02 helper lemmas: the `formulas` vector of the worksheet loop (second `from_sparse` call) on an encoded sheet. -/

namespace BiffCells
open Biff

/-- position entries of the FORMULA records of a record list -/
def fmlaPos (rs : List Rec) : List (Nat × Nat × Nat) :=
  rs.filterMap (fun r => if r.typ = 0x0006 then some (u16At r.data 0, u16At r.data 2, 1) else none)

theorem fmlaPos_append (a b : List Rec) : fmlaPos (a ++ b) = fmlaPos a ++ fmlaPos b := by
  simp [fmlaPos, List.filterMap_append]

theorem formulaCells_records : ∀ (rs : List Rec), (∀ r ∈ rs, r.typ ≠ 0x000A) →
    formulaCells (rs.map .record ++ [.record eofRec]) = fmlaPos rs
  | [], _ => by simp [formulaCells, fmlaPos, eofRec]
  | r :: rs, h => by
    have ih := formulaCells_records rs (fun x hx => h x (by simp [hx]))
    have hr := h r (by simp)
    simp only [List.map_cons, List.cons_append, formulaCells, if_neg hr, ih]
    by_cases h6 : r.typ = 0x0006 <;> simp [fmlaPos, h6]

theorem fmlaPos_ignorable : ∀ (rs : List Rec), (∀ r ∈ rs, ignorable r = true) → fmlaPos rs = []
  | [], _ => rfl
  | r :: rs, h => by
    have ih := fmlaPos_ignorable rs (fun x hx => h x (by simp [hx]))
    have hr := h r (by simp)
    simp only [ignorable, Bool.and_eq_true, Bool.or_eq_true, decide_eq_true_eq, Bool.not_eq_true',
      beq_iff_eq] at hr
    have h6 : r.typ ≠ 0x0006 := by
      rcases hr.2 with h4 | ⟨h4, _⟩
      · intro heq; rw [heq] at h4; simp [handledIds] at h4
      · omega
    simp only [fmlaPos, List.filterMap_cons, if_neg h6] at ih ⊢
    exact ih

def isFmla (p : PC) : Bool := match p.phys with | .formula _ _ => true | _ => false

def pos3 (p : PC) : Nat × Nat × Nat := (p.row, p.col, 1)

theorem fmlaPos_phys (env : Env) (p : PC) (h : PCok env p) :
    fmlaPos (physRecs p) = if isFmla p then [pos3 p] else [] := by
  obtain ⟨hr, hc, hx, _, hp⟩ := h
  have hc' : p.col < 65536 := by omega
  unfold physRecs isFmla
  cases hph : p.phys with
  | formula c rgce =>
    rw [hph] at hp; simp only at hp
    obtain ⟨hg, hcv⟩ := hp
    obtain ⟨_, h0, h2, _⟩ := fmla_reads p (cachedBytes c) rgce (cachedBytes_length c) (by omega) hr hc' hx
    have e : (cellHdr p ++ (cachedBytes c ++ (le16 0 ++ (le32 0 ++ (le16 rgce.length ++ rgce))))) =
        fmlaData p (cachedBytes c) rgce := rfl
    simp only [if_true]
    rw [e]
    have hhead : fmlaPos [⟨0x0006, fmlaData p (cachedBytes c) rgce, []⟩] = [pos3 p] := by
      simp [fmlaPos, h0, h2, pos3]
    rw [show ∀ (x : Rec) (l : List Rec), x :: l = [x] ++ l from fun _ _ => rfl, fmlaPos_append, hhead]
    cases c with
    | str wide s btw =>
      simp only at hcv ⊢
      rw [fmlaPos_append, fmlaPos_ignorable btw hcv.2]
      simp [fmlaPos]
    | num x => simp [fmlaPos]
    | bool b => simp [fmlaPos]
    | err k => simp [fmlaPos]
    | blank => simp [fmlaPos]
  | number x => simp [fmlaPos]
  | rk w => simp [fmlaPos]
  | label w s => simp [fmlaPos]
  | labelSst i => simp [fmlaPos]
  | bool b => simp [fmlaPos]
  | err k => simp [fmlaPos]

theorem isFmla_of_isRk (p : PC) (h : isRk p = true) : isFmla p = false := by
  unfold isRk at h; unfold isFmla; cases hp : p.phys <;> simp_all

theorem fmlaPos_group (env : Env) (g : List PC) (hrun : isRun g) (hok : ∀ p ∈ g, PCok env p) :
    fmlaPos (groupRecs g) = (g.filter isFmla).map pos3 := by
  match g, hrun, hok with
  | [], _, _ => simp [groupRecs, fmlaPos]
  | [p], _, hok =>
    have hp := hok p (by simp)
    simp only [groupRecs, fmlaPos_append, fmlaPos_ignorable p.before hp.2.2.2.1, List.nil_append,
      fmlaPos_phys env p hp]
    by_cases hf : isFmla p = true <;> simp [hf]
  | p :: q :: g', hrun, hok =>
    have hp := hok p (by simp)
    have hall := isRun_allRk p q g' hrun
    have hnone : (p :: q :: g').filter isFmla = [] := by
      rw [List.filter_eq_nil_iff]
      intro x hx; rw [isFmla_of_isRk x (hall x hx)]; simp
    simp only [groupRecs, fmlaPos_append, fmlaPos_ignorable p.before hp.2.2.2.1, List.nil_append, hnone,
      List.map_nil]
    simp [fmlaPos]

theorem fmlaPos_groups (env : Env) : ∀ (gs : List (List PC)), (∀ g ∈ gs, isRun g) →
    (∀ g ∈ gs, ∀ p ∈ g, PCok env p) → fmlaPos (gs.flatMap groupRecs) = (gs.flatten.filter isFmla).map pos3
  | [], _, _ => by simp [fmlaPos]
  | g :: gs, h1, h2 => by
    rw [List.flatMap_cons, fmlaPos_append, fmlaPos_group env g (h1 g (by simp)) (h2 g (by simp)),
      fmlaPos_groups env gs (fun x hx => h1 x (by simp [hx])) (fun x hx => h2 x (by simp [hx]))]
    simp [List.filter_append]

/-- the FORMULA entries of an encoded sheet are the positions of its formula cells, in order -/
theorem fmlaPos_encode (env : Env) (ps : List PC) (hok : ∀ p ∈ ps, PCok env p) :
    fmlaPos ((chunk ps).flatMap groupRecs) = (ps.filter isFmla).map pos3 := by
  have hmem : ∀ g ∈ chunk ps, ∀ p ∈ g, p ∈ ps := by
    intro g hg p hp
    rw [← chunk_flatten ps]; exact List.mem_flatten.mpr ⟨g, hg, hp⟩
  rw [fmlaPos_groups env (chunk ps) (fun g hg => (chunk_groups ps g hg).2)
    (fun g hg p hp => hok p (hmem g hg p hp)), chunk_flatten]

/-- `formulas` of the framed substream -/
theorem formulaCells_substream (env : Env) (ps : List PC) (hok : ∀ p ∈ ps, PCok env p) :
    formulaCells (items (frame (bofRec :: (chunk ps).flatMap groupRecs ++ [eofRec]))) =
      (ps.filter isFmla).map pos3 := by
  have hgood := encode_good env ps hok
  have hplain : ∀ r ∈ bofRec :: (chunk ps).flatMap groupRecs ++ [eofRec], plainRec r := by
    intro r hr
    simp only [List.cons_append, List.mem_cons, List.mem_append, List.not_mem_nil, or_false] at hr
    rcases hr with rfl | hr | rfl
    · exact (ignorable_good _ bofRec_ignorable).1
    · exact (hgood r hr).1
    · exact ⟨by decide, by decide, by decide, rfl⟩
  rw [items_frame _ hplain]
  have hne : ∀ r ∈ bofRec :: (chunk ps).flatMap groupRecs, r.typ ≠ 0x000A := by
    intro r hr
    simp only [List.mem_cons] at hr
    rcases hr with rfl | hr
    · decide
    · exact (hgood r hr).2
  rw [show (bofRec :: (chunk ps).flatMap groupRecs ++ [eofRec]).map Item.record =
      (bofRec :: (chunk ps).flatMap groupRecs).map Item.record ++ [Item.record eofRec] by simp]
  rw [formulaCells_records _ hne]
  rw [show bofRec :: (chunk ps).flatMap groupRecs = [bofRec] ++ (chunk ps).flatMap groupRecs from rfl,
    fmlaPos_append, fmlaPos_encode env ps hok]
  simp [fmlaPos, bofRec]

/-- … and `from_sparse` accepts it: the formula cells are a sub-list of the (sorted) cells -/
theorem formulaRange_ok (env : Env) (ps : List PC) (hok : ∀ p ∈ ps, PCok env p)
    (hpw : (ps.map (pcCell env)).Pairwise Range.posLt) :
    ∃ r : Range.Rng Nat, Range.fromSparse ((ps.filter isFmla).map pos3) = .ok r := by
  have h1 : ps.Pairwise (fun a b => a.row < b.row ∨ (a.row = b.row ∧ a.col < b.col)) := by
    rw [List.pairwise_map] at hpw; exact hpw
  have h2 : ((ps.filter isFmla).map pos3).Pairwise Range.posLt := by
    rw [List.pairwise_map]; exact List.Pairwise.filter _ h1
  have hb : ∀ c ∈ (ps.filter isFmla).map pos3, c.1 < 65536 ∧ c.2.1 < 256 := by
    intro c hc
    obtain ⟨p, hp, rfl⟩ := List.mem_map.mp hc
    have := hok p (List.mem_filter.mp hp).1
    exact ⟨this.1, this.2.1⟩
  obtain ⟨r, hr, _⟩ := Range.fromSparse_sorted _ h2 hb
  exact ⟨r, hr⟩

end BiffCells
