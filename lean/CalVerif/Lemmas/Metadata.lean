import CalVerif.Spec.MetadataEnc
import CalVerif.Lemmas.BiffStrings
import CalVerif.Lemmas.Xlsb
/-! Helper lemmas for Props/C16.lean: little-endian fields, string packing, table look-ups. -/
open Meta MetaEnc
open Biff (byte le16 le32)

namespace MetaLemmas

theorem byte_toNat (n : Nat) : (byte n).toNat = n % 256 := by
  simp [byte]

theorem units16_flatMap_le16 (us : List Nat) (h : ∀ u ∈ us, u < 65536) : Biff.units16 (us.flatMap le16) = us := by
  induction us with
  | nil => rfl
  | cons u us ih =>
    have hu := h u (by simp)
    have := ih (fun v hv => h v (by simp [hv]))
    simp [List.flatMap_cons, le16, Biff.units16, byte_toNat, this]
    omega

theorem length_flatMap_le16 (us : List Nat) : (us.flatMap le16).length = 2 * us.length := by
  induction us with
  | nil => rfl
  | cons u us ih => simp [List.flatMap_cons, le16, ih]; omega

theorem map_byte_toNat (us : List Nat) (h : ∀ u ∈ us, u < 256) : (us.map byte).map (·.toNat) = us := by
  induction us with
  | nil => rfl
  | cons u us ih =>
    have hu := h u (by simp)
    have := ih (fun v hv => h v (by simp [hv]))
    simp [byte_toNat, this]
    omega

/-- `decode_to` gives back the units an encoder laid out, whatever follows them -/
theorem decodeTo_encUnits (us : List Nat) (wide : Bool) (rest : Bytes)
    (h : ∀ u ∈ us, u < (if wide then 65536 else 256)) :
    (Biff.decodeTo (encUnits wide us ++ rest) us.length wide).1 = us := by
  cases wide with
  | true =>
    have hl := length_flatMap_le16 us
    have : min ((us.flatMap le16 ++ rest).length / 2) us.length = us.length := by
      simp [hl]; omega
    simp only [Biff.decodeTo, encUnits, if_true, this]
    rw [List.take_left' (by simp [hl])]
    exact units16_flatMap_le16 us (by simpa using h)
  | false =>
    simp only [Biff.decodeTo, encUnits]
    simp
    have := map_byte_toNat us (by simpa using h)
    simpa [List.map_map] using this

theorem flagHigh_flag (wide : Bool) : Biff.flagHigh (if wide then 1 else 0) = wide := by
  cases wide <;> decide

theorem parseShortString_shortString (us : List Nat) (wide : Bool) (rest : Bytes) (hlen : us.length < 256)
    (h : ∀ u ∈ us, u < (if wide then 65536 else 256)) :
    Biff.parseShortString (shortString us wide ++ rest) true = .ok (Biff.decodeUtf16 us) := by
  unfold Biff.parseShortString shortString
  have h2 : ¬ ((byte us.length :: (if wide then (1 : UInt8) else 0) :: encUnits wide us ++ rest).length < 2) := by
    simp
  simp only [h2, if_false, if_true]
  simp only [List.cons_append, List.getD_cons_zero, List.drop_succ_cons, List.drop_zero, byte_toNat, flagHigh_flag]
  rw [Nat.mod_eq_of_lt hlen, decodeTo_encUnits us wide rest h]

theorem u16_le16 (n : Nat) (rest : Bytes) (h : n < 65536) : Biff.u16 (le16 n ++ rest) = n := by
  simp [Biff.u16, le16, byte_toNat]
  omega

theorem u32_le32 (n : Nat) (rest : Bytes) (h : n < 4294967296) : Biff.u32 (le32 n ++ rest) = n := by
  simp [Biff.u32, le32, byte_toNat]
  omega

theorem lookup_mem {α β : Type} [BEq α] [LawfulBEq α] : ∀ (l : List (α × β)) (a : α) (b : β), l.lookup a = some b → (a, b) ∈ l
  | [], _, _, h => by simp [List.lookup] at h
  | (k, v) :: es, a, b, h => by
    simp only [List.lookup] at h
    split at h
    · rename_i heq
      have : a = k := by simpa using heq
      simp at h; subst h; subst this; simp
    · exact List.mem_cons_of_mem _ (lookup_mem es a b h)

theorem xlsVis_lookup (vis : SheetVisible) (reserved : Nat) :
    Gen.xlsVisTable.lookup ((xlsVisCode vis + 64 * reserved) % 256 &&& Gen.xlsVisMask) = some vis := by
  have hm : ∀ x, x &&& Gen.xlsVisMask = x % 64 := fun x => by
    simpa [Gen.xlsVisMask] using Nat.and_two_pow_sub_one_eq_mod x 6
  rw [hm]
  have : (xlsVisCode vis + 64 * reserved) % 256 % 64 = xlsVisCode vis := by
    have : xlsVisCode vis < 3 := by cases vis <;> decide
    omega
  rw [this]
  cases vis <;> decide

theorem xlsKind_lookup (kind : SheetType) (dt : Nat) (h : xlsKindCode kind = some dt) :
    dt < 256 ∧ Gen.xlsKindTable.lookup dt = some kind := by
  cases kind <;> simp [xlsKindCode, codeOf, Gen.xlsKindTable] at h <;> subst h <;> decide

/-! ## UTF-16 -/

theorem decodeUtf16_cons_bmp (u : Nat) (l : List Nat) (h1 : Biff.isHigh u = false) (h2 : Biff.isLow u = false) :
    Biff.decodeUtf16 (u :: l) = u :: Biff.decodeUtf16 l := by
  cases l with
  | nil => simp [Biff.decodeUtf16, h1, h2]
  | cons v rest => simp [Biff.decodeUtf16, h1, h2]

theorem decodeUtf16_cons_pair (hi lo : Nat) (l : List Nat) (h1 : Biff.isHigh hi = true) (h2 : Biff.isLow lo = true) :
    Biff.decodeUtf16 (hi :: lo :: l) = (0x10000 + (hi - 0xD800) * 0x400 + (lo - 0xDC00)) :: Biff.decodeUtf16 l := by
  simp [Biff.decodeUtf16, h1, h2]

/-- **UTF-16 round trip**: decoding the UTF-16 encoding of a text of Unicode scalar values gives the text back -/
theorem decodeUtf16_utf16 (t : Text) (h : ∀ c ∈ t, isScalar c) : Biff.decodeUtf16 (utf16 t) = t := by
  induction t with
  | nil => rfl
  | cons c cs ih =>
    have hc := h c (by simp)
    have ih := ih (fun x hx => h x (by simp [hx]))
    have hcons : utf16 (c :: cs) = unitsOfScalar c ++ utf16 cs := by simp [utf16]
    rw [hcons]
    unfold unitsOfScalar
    by_cases hb : c < 0x10000
    · have h1 : Biff.isHigh c = false := by
        unfold isScalar at hc; simp [Biff.isHigh]; omega
      have h2 : Biff.isLow c = false := by
        unfold isScalar at hc; simp [Biff.isLow]; omega
      simp only [hb, if_true, List.cons_append, List.nil_append]
      rw [decodeUtf16_cons_bmp c _ h1 h2, ih]
    · have hlt : c < 0x110000 := by unfold isScalar at hc; omega
      have h1 : Biff.isHigh (0xD800 + (c - 0x10000) / 0x400) = true := by
        simp [Biff.isHigh]; omega
      have h2 : Biff.isLow (0xDC00 + (c - 0x10000) % 0x400) = true := by
        simp [Biff.isLow]; omega
      simp only [hb, if_false, List.cons_append, List.nil_append]
      rw [decodeUtf16_cons_pair _ _ _ h1 h2, ih]
      have hv : 0x10000 + (0xD800 + (c - 0x10000) / 0x400 - 0xD800) * 0x400 + (0xDC00 + (c - 0x10000) % 0x400 - 0xDC00) = c := by
        omega
      rw [hv]

theorem utf16_lt (t : Text) (h : ∀ c ∈ t, isScalar c) : ∀ u ∈ utf16 t, u < 65536 := by
  intro u hu
  unfold utf16 at hu
  obtain ⟨c, hc, hcu⟩ := List.mem_flatMap.mp hu
  have hs := h c hc
  unfold isScalar at hs
  unfold unitsOfScalar at hcu
  by_cases hb : c < 0x10000
  · simp [hb] at hcu; omega
  · simp [hb] at hcu; omega

theorem filter_ne_zero (t : Text) (h : ∀ c ∈ t, c ≠ 0) : t.filter (· != 0) = t := by
  apply List.filter_eq_self.mpr
  intro c hc
  simp [h c hc]

/-! ## xls BoundSheet8 -/

theorem parseSheetMetadata_encode (off : Nat) (hoff : off < 4294967296) (vis : SheetVisible) (reserved : Nat)
    (kind : SheetType) (dt : Nat) (hk : xlsKindCode kind = some dt)
    (us : List Nat) (hlen : us.length < 256) (wide : Bool) (hunits : ∀ u ∈ us, u < (if wide then 65536 else 256)) :
    parseSheetMetadata (encodeBoundSheet off (xlsVisCode vis + 64 * reserved) dt us wide) true
      = .ok (off, ⟨(Biff.decodeUtf16 us).filter (· != 0), kind, vis⟩) := by
  obtain ⟨hdt, hkl⟩ := xlsKind_lookup kind dt hk
  unfold parseSheetMetadata encodeBoundSheet
  have hlen5 : ¬ ((le32 off ++ [byte (xlsVisCode vis + 64 * reserved), byte dt] ++ shortString us wide).length < 5) := by
    simp [le32]
  have hlen6 : ¬ ((le32 off ++ [byte (xlsVisCode vis + 64 * reserved), byte dt] ++ shortString us wide).length < 6) := by
    simp [le32]
  have hb4 : byteAt (le32 off ++ [byte (xlsVisCode vis + 64 * reserved), byte dt] ++ shortString us wide) 4
      = (xlsVisCode vis + 64 * reserved) % 256 := by
    simp [byteAt, le32, byte_toNat]
  have hb5 : byteAt (le32 off ++ [byte (xlsVisCode vis + 64 * reserved), byte dt] ++ shortString us wide) 5 = dt := by
    simp [byteAt, le32, byte_toNat]; omega
  have hdrop : (le32 off ++ [byte (xlsVisCode vis + 64 * reserved), byte dt] ++ shortString us wide).drop 6 = shortString us wide := by
    simp [le32]
  have hu32 : Biff.u32 (le32 off ++ [byte (xlsVisCode vis + 64 * reserved), byte dt] ++ shortString us wide) = off := by
    rw [List.append_assoc]; exact u32_le32 off _ hoff
  simp only [hlen6, if_false, hb4, hb5, xlsVis_lookup, hkl, hdrop, hu32]
  have := parseShortString_shortString us wide [] hlen hunits
  rw [List.append_nil] at this
  rw [this]


/-! ## xls globals loop -/

theorem notCont_record (typ : Nat) (data rest : Bytes) (h1 : typ < 65536) (h2 : typ ≠ 0x3C) : Biff.notCont (record typ data ++ rest) := by
  intro ⟨_, h⟩
  have : Biff.u16 (record typ data ++ rest) = typ := by
    unfold record Biff.frameRec; rw [List.append_assoc, List.append_assoc]; exact Biff.u16_recHdr typ _ h1 _
  omega

theorem nextRecord_record (typ : Nat) (data rest : Bytes) (ht : typ < 65536) (hl : data.length < 65536) (hn : Biff.notCont rest) :
    Biff.nextRecord (record typ data ++ rest) = some (.ok (⟨typ, data, []⟩, rest)) :=
  Biff.nextRecord_frameRec typ data [] rest ht hl (by simp) hn

theorem le16_length (n : Nat) : (le16 n).length = 2 := rfl
theorem le32_length (n : Nat) : (le32 n).length = 4 := rfl

theorem encUnits_length (wide : Bool) (us : List Nat) : (encUnits wide us).length = (if wide then 2 * us.length else us.length) := by
  cases wide
  · simp [encUnits]
  · simp only [encUnits, if_true, length_flatMap_le16]

theorem sheet_payload_length (s : XlsSheet) (h : s.units.length < 256) : s.payload.length < 65536 := by
  unfold XlsSheet.payload encodeBoundSheet shortString
  simp only [List.length_append, List.length_cons, le32_length, List.length_nil, encUnits_length]
  split <;> omega

theorem sheet_kind_lookup (s : XlsSheet) (h : ∃ k, xlsKindCode k = some s.dt) : xlsKindCode s.kind = some s.dt := by
  obtain ⟨k, hk⟩ := h
  obtain ⟨_, hl⟩ := xlsKind_lookup k s.dt hk
  simp only [XlsSheet.kind, hl, Option.getD_some, hk]

theorem readNoCch_enc (us : List Nat) (wide : Bool) (rest : Bytes) (h : ∀ u ∈ us, u < (if wide then 65536 else 256)) :
    readUnicodeStringNoCch ((if wide then (1 : UInt8) else 0) :: (encUnits wide us ++ rest)) us.length = .ok (Biff.decodeUtf16 us) := by
  unfold readUnicodeStringNoCch readUnicodeStringNoCchWith
  simp only [flagHigh_flag, Bool.and_true]
  have hb : (if wide = true then 2 * us.length else us.length) = (encUnits wide us).length := (encUnits_length wide us).symm
  rw [hb]
  have hlen : ¬ ((encUnits wide us ++ rest).length < (encUnits wide us).length) := by simp
  simp only [hlen, if_false, List.take_left' rfl]
  have := decodeTo_encUnits us wide [] h
  rw [List.append_nil] at this
  rw [this]

theorem parseLbl_enc (pd : Bytes → Res (Option Nat × Text)) (us : List Nat) (wide : Bool) (itab : Nat) (rgce : Bytes)
    (h1 : us.length < 256) (h2 : ∀ u ∈ us, u < (if wide then 65536 else 256)) (h3 : rgce.length < 65536)
    (h4 : (pd rgce).isOk = true) :
    parseLblWith readUnicodeStringNoCch pd true (encodeLbl us wide itab rgce) = .ok (Biff.decodeUtf16 us, pdValue pd rgce) := by
  have hshape : encodeLbl us wide itab rgce =
      le16 0 ++ ([0, byte us.length] ++ (le16 rgce.length ++ (le16 0 ++ (le16 itab ++ ([0, 0, 0, 0] ++
        ((if wide then (1 : UInt8) else 0) :: (encUnits wide us ++ rgce))))))) := by
    simp [encodeLbl, List.append_assoc]
  have hlen : (encodeLbl us wide itab rgce).length = 15 + (encUnits wide us).length + rgce.length := by
    rw [hshape]; simp [le16]; omega
  have hb3 : byteAt (encodeLbl us wide itab rgce) 3 = us.length := by
    rw [hshape]; simp [byteAt, le16, byte_toNat]; omega
  have hcce : Biff.u16 ((encodeLbl us wide itab rgce).drop 4) = rgce.length := by
    rw [hshape]
    have : (le16 0 ++ ([0, byte us.length] ++ (le16 rgce.length ++ (le16 0 ++ (le16 itab ++ ([0, 0, 0, 0] ++
        ((if wide then (1 : UInt8) else 0) :: (encUnits wide us ++ rgce)))))))).drop 4 =
        le16 rgce.length ++ (le16 0 ++ (le16 itab ++ ([0, 0, 0, 0] ++ ((if wide then (1 : UInt8) else 0) :: (encUnits wide us ++ rgce))))) := by
      simp [le16]
    rw [this]; exact Biff.u16_le16 _ h3 _
  have hd14 : (encodeLbl us wide itab rgce).drop 14 = (if wide then (1 : UInt8) else 0) :: (encUnits wide us ++ rgce) := by
    rw [hshape]; simp [le16]
  have hdr : (encodeLbl us wide itab rgce).drop ((encodeLbl us wide itab rgce).length - rgce.length) = rgce := by
    have : (encodeLbl us wide itab rgce).length - rgce.length = 14 + (1 + (encUnits wide us).length) := by rw [hlen]; omega
    rw [this, ← List.drop_drop, hd14]
    have h1 : (1 + (encUnits wide us).length) = ((if wide then (1 : UInt8) else 0) :: encUnits wide us).length := by simp; omega
    rw [← List.cons_append, h1, List.drop_left' rfl]
  unfold parseLblWith
  have hl14 : ¬ ((encodeLbl us wide itab rgce).length < 14) := by rw [hlen]; omega
  have hl15 : ¬ ((encodeLbl us wide itab rgce).length < 15) := by rw [hlen]; omega
  have hb14 : byteAt (encodeLbl us wide itab rgce) 14 % 2 = 1 ↔ wide = true := by
    rw [hshape]; cases wide <;> simp [byteAt, le16]
  have hnl : (if byteAt (encodeLbl us wide itab rgce) 14 % 2 = 1 then 2 * us.length else us.length) = (encUnits wide us).length := by
    rw [encUnits_length]
    cases wide <;> simp [hb14]
  have hlc : ¬ ((encodeLbl us wide itab rgce).length < max (15 + (encUnits wide us).length) rgce.length) := by
    rw [hlen]; omega
  simp only [hl14, hl15, if_false, if_true, Bool.true_and, decide_false, Bool.false_eq_true, hb3, hcce, hnl, hlc, hd14,
    readNoCch_enc us wide rgce h2, hdr]
  unfold pdValue
  cases hp : pd rgce with
  | ok r => rfl
  | err e => simp [hp, Res.isOk] at h4
  | panic e => simp [hp, Res.isOk] at h4
  | outOfFuel => simp [hp, Res.isOk] at h4

theorem i16_le16 (n : Nat) (h : n < 65536) (rest : Bytes) : i16 (le16 n ++ rest) = asI16 n := by
  unfold i16 asI16
  rw [Biff.u16_le16 n h]

theorem xtiLoop_enc : ∀ (x : List (Nat × Nat × Nat)), (∀ e ∈ x, e.1 < 65536 ∧ e.2.1 < 65536 ∧ e.2.2 < 65536) → ∀ (n : Nat), x.length ≤ n →
    xtiLoop n (x.flatMap xtiBytes) = .ok (x.map (fun e => asI16 e.2.1)) := by
  intro x
  induction x with
  | nil => intro _ n _; cases n <;> simp [xtiLoop]
  | cons e es ih =>
    intro hall n hn
    obtain ⟨m, rfl⟩ : ∃ m, n = m + 1 := ⟨n - 1, by simp at hn; omega⟩
    obtain ⟨_, h2, _⟩ := hall e (by simp)
    have ih' := ih (fun y hy => hall y (by simp [hy])) m (by simp at hn; omega)
    have hshape : (e :: es).flatMap xtiBytes = le16 e.1 ++ (le16 e.2.1 ++ (le16 e.2.2 ++ es.flatMap xtiBytes)) := by
      simp [List.flatMap_cons, xtiBytes, List.append_assoc]
    rw [hshape, xtiLoop]
    have hne : (le16 e.1 ++ (le16 e.2.1 ++ (le16 e.2.2 ++ es.flatMap xtiBytes))).isEmpty = false := by simp [le16]
    have hl6 : ¬ ((le16 e.1 ++ (le16 e.2.1 ++ (le16 e.2.2 ++ es.flatMap xtiBytes))).length < 6) := by simp [le16]
    have hd6 : (le16 e.1 ++ (le16 e.2.1 ++ (le16 e.2.2 ++ es.flatMap xtiBytes))).drop 6 = es.flatMap xtiBytes := by simp [le16]
    have hd2 : (le16 e.1 ++ (le16 e.2.1 ++ (le16 e.2.2 ++ es.flatMap xtiBytes))).drop 2 = le16 e.2.1 ++ (le16 e.2.2 ++ es.flatMap xtiBytes) := by
      simp [le16]
    simp only [hl6, if_false, hd6, ih', hd2, i16_le16 _ h2, List.map_cons]

theorem parseExternSheet_enc (x : List (Nat × Nat × Nat)) (h1 : x.length < 65536)
    (h2 : ∀ e ∈ x, e.1 < 65536 ∧ e.2.1 < 65536 ∧ e.2.2 < 65536) :
    parseExternSheet (externData x) = .ok (x.map (fun e => asI16 e.2.1)) := by
  unfold parseExternSheet externData
  have hl : ¬ ((le16 x.length ++ x.flatMap xtiBytes).length < 2) := by simp [le16]
  have hd : (le16 x.length ++ x.flatMap xtiBytes).drop 2 = x.flatMap xtiBytes := by simp [le16]
  simp only [hl, if_false, Biff.u16_le16 _ h1, hd]
  exact xtiLoop_enc x h2 x.length (Nat.le_refl _)

abbrev NR := readUnicodeStringNoCch

theorem step_sheet (pd : Bytes → Res (Option Nat × Text)) (st : XlsSt) (hb : st.biff8 = true)
    (s : XlsSheet) (hs : s.ok) :
    xlsStep NR pd st ⟨0x0085, s.payload, []⟩ = .ok (some (applyRec pd st (.sheet s))) := by
  obtain ⟨h1, _, h3, h4, h5⟩ := hs
  have hr := parseSheetMetadata_encode s.offset h1 s.vis s.reserved s.kind s.dt (sheet_kind_lookup s h3) s.units h4 s.wide h5
  simp [xlsStep, XlsSheet.payload, hb, hr, liftUnit, applyRec, XlsSheet.decoded]

theorem step_date (pd : Bytes → Res (Option Nat × Text)) (st : XlsSt) (v : Nat) (hv : v < 65536) :
    xlsStep NR pd st ⟨0x0022, le16 v, []⟩ = .ok (some (applyRec pd st (.date v))) := by
  have hu : Biff.u16 (le16 v) = v := by
    have := Biff.u16_le16 v hv []
    simpa using this
  simp [xlsStep, hu, applyRec]

theorem step_neutral (pd : Bytes → Res (Option Nat × Text)) (st : XlsSt) (t : Nat) (d : Bytes)
    (ht : t ∉ interpretedIds) :
    xlsStep NR pd st ⟨t, d, []⟩ = .ok (some st) := by
  simp only [interpretedIds, List.mem_cons, List.not_mem_nil, or_false, not_or] at ht
  obtain ⟨h1, h2, h3, h4, h5, h6, h7, h8, h9, h10, h11, _⟩ := ht
  simp [xlsStep, h1, h2, h3, h4, h5, h6, h7, h8, h9, h10, h11]

theorem step_lbl (pd : Bytes → Res (Option Nat × Text)) (st : XlsSt) (hb : st.biff8 = true) (us : List Nat) (wide : Bool) (itab : Nat) (rgce : Bytes)
    (h1 : us.length < 256) (h2 : ∀ u ∈ us, u < (if wide then 65536 else 256)) (h3 : rgce.length < 65536)
    (h4 : (pd rgce).isOk = true) :
    xlsStep NR pd st ⟨0x0018, encodeLbl us wide itab rgce, []⟩ = .ok (some (applyRec pd st (.lbl us wide itab rgce))) := by
  simp [xlsStep, hb, parseLbl_enc pd us wide itab rgce h1 h2 h3 h4, liftUnit, applyRec]

theorem step_extern (pd : Bytes → Res (Option Nat × Text)) (st : XlsSt) (x : List (Nat × Nat × Nat)) (h1 : x.length < 65536)
    (h2 : ∀ e ∈ x, e.1 < 65536 ∧ e.2.1 < 65536 ∧ e.2.2 < 65536) :
    xlsStep NR pd st ⟨0x0017, externData x, []⟩ = .ok (some (applyRec pd st (.extern x))) := by
  simp [xlsStep, parseExternSheet_enc x h1 h2, liftUnit, applyRec]

/-- framed record of a `GRec`: type, payload -/
def grecTyp : GRec → Nat
  | .sheet _ => 0x0085
  | .date _ => 0x0022
  | .neutral t _ => t
  | .lbl _ _ _ _ => 0x0018
  | .extern _ => 0x0017

def grecData : GRec → Bytes
  | .sheet s => s.payload
  | .date v => le16 v
  | .neutral _ d => d
  | .lbl us w it rg => encodeLbl us w it rg
  | .extern x => externData x

theorem grec_bytes (r : GRec) : r.bytes = record (grecTyp r) (grecData r) := by
  cases r <;> rfl

theorem grec_typ_ok (pd : Bytes → Res (Option Nat × Text)) (r : GRec) (h : r.ok pd) :
    grecTyp r < 65536 ∧ grecTyp r ≠ 0x3C ∧ (grecData r).length < 65536 := by
  cases r with
  | sheet s => exact ⟨by simp [grecTyp], by simp [grecTyp], sheet_payload_length s h.2.2.2.1⟩
  | date v => exact ⟨by simp [grecTyp], by simp [grecTyp], by simp [grecData]⟩
  | neutral t d =>
    obtain ⟨h1, h2, h3⟩ := h
    refine ⟨h1, ?_, h3⟩
    intro h
    apply h2
    have : t = 0x3C := h
    rw [this]; decide
  | lbl us w it rg => exact ⟨by simp [grecTyp], by simp [grecTyp], h.2.2.2.2.1⟩
  | extern x => exact ⟨by simp [grecTyp], by simp [grecTyp], h.2.2⟩

theorem step_grec (pd : Bytes → Res (Option Nat × Text)) (st : XlsSt) (hb : st.biff8 = true)
    (r : GRec) (h : r.ok pd) :
    xlsStep NR pd st ⟨grecTyp r, grecData r, []⟩ = .ok (some (applyRec pd st r)) ∧ (applyRec pd st r).biff8 = true := by
  cases r with
  | sheet s => exact ⟨step_sheet pd st hb s h, by simp [applyRec, hb]⟩
  | date v => exact ⟨step_date pd st v h, by simp only [applyRec]; split <;> simp [hb]⟩
  | neutral t d => exact ⟨step_neutral pd st t d h.2.1, by simp [applyRec, hb]⟩
  | lbl us w it rg =>
    obtain ⟨h1, h2, _, h4, _, h6⟩ := h
    exact ⟨step_lbl pd st hb us w it rg h1 h2 h4 h6, by simp [applyRec, hb]⟩
  | extern x => exact ⟨step_extern pd st x h.1 h.2.1, by simp [applyRec, hb]⟩

theorem notCont_recs (pd : Bytes → Res (Option Nat × Text)) (recs : List GRec) (hall : ∀ r ∈ recs, r.ok pd) (rest : Bytes)
    (hrest : Biff.notCont rest) :
    Biff.notCont (recs.flatMap GRec.bytes ++ rest) := by
  cases recs with
  | nil => simpa using hrest
  | cons r rs =>
    obtain ⟨h1, h2, _⟩ := grec_typ_ok pd r (hall r (by simp))
    simp only [List.flatMap_cons, List.append_assoc, grec_bytes r]
    exact notCont_record _ _ _ h1 h2

theorem globals_recs (pd : Bytes → Res (Option Nat × Text)) :
    ∀ (recs : List GRec), (∀ r ∈ recs, r.ok pd) → ∀ (fuel : Nat) (rest : Bytes) (st : XlsSt), Biff.notCont rest → st.biff8 = true →
      xlsGlobals NR pd (fuel + recs.length) (recs.flatMap GRec.bytes ++ rest) st =
        xlsGlobals NR pd fuel rest (recs.foldl (applyRec pd) st) := by
  intro recs
  induction recs with
  | nil => intro _ fuel rest st _ _; simp
  | cons r rs ih =>
    intro hall fuel rest st hrest hb
    have hr := hall r (by simp)
    have hrs : ∀ x ∈ rs, x.ok pd := fun x hx => hall x (by simp [hx])
    obtain ⟨h1, _, h3⟩ := grec_typ_ok pd r hr
    obtain ⟨hstep, hb'⟩ := step_grec pd st hb r hr
    have hfuel : fuel + (r :: rs).length = (fuel + rs.length) + 1 := by simp; omega
    rw [hfuel, xlsGlobals]
    simp only [List.flatMap_cons, List.append_assoc, grec_bytes r]
    rw [nextRecord_record _ _ _ h1 h3 (notCont_recs pd rs hrs rest hrest)]
    simp only [hstep]
    rw [ih hrs fuel rest _ hrest hb']
    rfl

theorem foldl_applyRec (pd : Bytes → Res (Option Nat × Text)) (recs : List GRec) : ∀ (st : XlsSt),
    recs.foldl (applyRec pd) st =
      { st with sheets := st.sheets ++ (declaredSheets recs).map XlsSheet.decoded, is1904 := st.is1904 || declared1904 recs,
                names := st.names ++ declaredNames pd recs, xtis := st.xtis ++ declaredXtis recs } := by
  induction recs with
  | nil => intro st; simp [declaredSheets, declared1904, declaredNames, declaredXtis]
  | cons r rs ih =>
    intro st
    rw [List.foldl_cons, ih]
    cases r with
    | sheet s => simp [applyRec, declaredSheets, declared1904, declaredNames, declaredXtis, List.append_assoc]
    | date v =>
      by_cases hv : v = 1
      · simp [applyRec, declaredSheets, declared1904, declaredNames, declaredXtis, hv]
      · have : (v == 1) = false := by simp [hv]
        simp [applyRec, declaredSheets, declared1904, declaredNames, declaredXtis, hv, this]
    | neutral t d => simp [applyRec, declaredSheets, declared1904, declaredNames, declaredXtis]
    | lbl us w it rg => simp [applyRec, declaredSheets, declared1904, declaredNames, declaredXtis, List.append_assoc]
    | extern x => simp [applyRec, declaredSheets, declared1904, declaredNames, declaredXtis, List.append_assoc]

theorem xlsGlobals_encode (pd : Bytes → Res (Option Nat × Text))
    (recs : List GRec) (hall : ∀ r ∈ recs, r.ok pd) (tail : Bytes) (htail : Biff.notCont tail) (fuel : Nat) :
    xlsGlobals NR pd (fuel + recs.length + 2) (encodeGlobals recs tail) {} = .ok (recs.foldl (applyRec pd) {}) := by
  unfold encodeGlobals
  have hEofNC : Biff.notCont (record 0x000A [] ++ tail) := notCont_record _ _ _ (by decide) (by decide)
  have hfuel : fuel + recs.length + 2 = (fuel + 1 + recs.length) + 1 := by omega
  rw [hfuel, xlsGlobals]
  rw [nextRecord_record 0x0809 (bofData 5) _ (by decide) (by decide) (notCont_recs pd recs hall _ hEofNC)]
  have hbof : xlsStep NR pd {} ⟨0x0809, bofData 5, []⟩ = .ok (some {}) := by
    have : parseBof (bofData 5) = .ok true := by decide
    simp [xlsStep, this, liftUnit]
  simp only [hbof]
  rw [globals_recs pd recs hall (fuel + 1) _ _ hEofNC rfl]
  rw [xlsGlobals, nextRecord_record 0x000A [] tail (by decide) (by decide) htail]
  simp [xlsStep]

theorem parseWorkbookXlsWith_of_globals (nr : Bytes → Nat → Res Text) (pd : Bytes → Res (Option Nat × Text)) (stream : Bytes)
    (st : XlsSt) (h : xlsGlobals nr pd (stream.length + 1) stream {} = .ok st) (hoff : ∀ s ∈ st.sheets, s.1 ≤ stream.length) :
    parseWorkbookXlsWith nr pd stream =
      .ok ⟨st.sheets.map (·.2), st.names.map (resolveName st.xtis st.sheets), st.is1904⟩ := by
  unfold parseWorkbookXlsWith
  rw [h]
  have hany : (st.sheets.any fun s => decide (stream.length < s.1)) = false := by
    rw [List.any_eq_false]
    intro x hx
    have := hoff x hx
    simp; omega
  simp [hany]

theorem encodeGlobals_fuel (recs : List GRec) (tail : Bytes) :
    ∃ fuel, (encodeGlobals recs tail).length + 1 = fuel + recs.length + 2 := by
  have h1 : ∀ (rs : List GRec), rs.length ≤ (rs.flatMap GRec.bytes).length := by
    intro rs
    induction rs with
    | nil => simp
    | cons r rs ih =>
      have : 0 < r.bytes.length := by
        rw [grec_bytes]; simp [record, Biff.frameRec, Biff.recHdr, Biff.frameConts]; omega
      simp only [List.flatMap_cons, List.length_append, List.length_cons]; omega
  refine ⟨(encodeGlobals recs tail).length + 1 - (recs.length + 2), ?_⟩
  have := h1 recs
  have h2 : (encodeGlobals recs tail).length ≥ (recs.flatMap GRec.bytes).length + 20 := by
    simp [encodeGlobals, record, Biff.frameRec, Biff.recHdr, Biff.frameConts, bofData]
    omega
  omega

/-! ## xlsb `read_workbook` -/

theorem xlsbVis_lookup (v : SheetVisible) : xlsbVisCode v < 4294967296 ∧ Gen.xlsbVisTable.lookup (xlsbVisCode v) = some v := by
  cases v <;> decide

theorem wideBytes_length (us : List Nat) : (Xlsb.wideBytes us).length = 4 + 2 * us.length := by
  simp [Xlsb.wideBytes, Xlsb.le32_length, Xlsb.unitsBytes_length]

/-- **BrtBundleSh round trip** -/
theorem bundleSh_encode (rels : List (Text × String)) (s : XlsbSheet) (hs : s.ok rels) :
    bundleSh rels s.payload = .ok (some (s.decoded rels)) := by
  obtain ⟨h1, h2, h3, h4, h5, target, kind, hl, hk⟩ := hs
  have hvis := xlsbVis_lookup s.vis
  unfold bundleSh XlsbSheet.payload encodeBundleSh
  have hlen : (Xlsb.le32 (xlsbVisCode s.vis) ++ Xlsb.le32 s.tabId ++ Xlsb.wideBytes s.relUnits ++ Xlsb.wideBytes s.nameUnits).length
      = 16 + 2 * s.relUnits.length + 2 * s.nameUnits.length := by
    simp [Xlsb.le32_length, wideBytes_length]; omega
  have hd8 : (Xlsb.le32 (xlsbVisCode s.vis) ++ Xlsb.le32 s.tabId ++ Xlsb.wideBytes s.relUnits ++ Xlsb.wideBytes s.nameUnits).drop 8
      = Xlsb.le32 s.relUnits.length ++ (Xlsb.unitsBytes s.relUnits ++ Xlsb.wideBytes s.nameUnits) := by
    rw [List.append_assoc, List.drop_left' (by simp [Xlsb.le32_length])]
    simp [Xlsb.wideBytes, List.append_assoc]
  have hrel : u32At (Xlsb.le32 (xlsbVisCode s.vis) ++ Xlsb.le32 s.tabId ++ Xlsb.wideBytes s.relUnits ++ Xlsb.wideBytes s.nameUnits) 8
      = s.relUnits.length := by
    unfold u32At; rw [hd8]; exact Xlsb.u32le_le32 _ (by omega) _
  have hd12 : (Xlsb.le32 (xlsbVisCode s.vis) ++ Xlsb.le32 s.tabId ++ Xlsb.wideBytes s.relUnits ++ Xlsb.wideBytes s.nameUnits).drop 12
      = Xlsb.unitsBytes s.relUnits ++ Xlsb.wideBytes s.nameUnits := by
    have : (12 : Nat) = 8 + 4 := rfl
    rw [this, ← List.drop_drop, hd8, List.drop_left' (Xlsb.le32_length _)]
  have htake : ((Xlsb.le32 (xlsbVisCode s.vis) ++ Xlsb.le32 s.tabId ++ Xlsb.wideBytes s.relUnits ++ Xlsb.wideBytes s.nameUnits).drop 12).take (s.relUnits.length * 2)
      = Xlsb.unitsBytes s.relUnits := by
    rw [hd12, List.take_left' (by rw [Xlsb.unitsBytes_length]; omega)]
  have hdn : (Xlsb.le32 (xlsbVisCode s.vis) ++ Xlsb.le32 s.tabId ++ Xlsb.wideBytes s.relUnits ++ Xlsb.wideBytes s.nameUnits).drop (12 + s.relUnits.length * 2)
      = Xlsb.wideBytes s.nameUnits := by
    rw [← List.drop_drop, hd12, List.drop_left' (by rw [Xlsb.unitsBytes_length]; omega)]
  have hu : Xlsb.u32le (Xlsb.le32 (xlsbVisCode s.vis) ++ Xlsb.le32 s.tabId ++ Xlsb.wideBytes s.relUnits ++ Xlsb.wideBytes s.nameUnits)
      = xlsbVisCode s.vis := by
    rw [List.append_assoc, List.append_assoc]; exact Xlsb.u32le_le32 _ hvis.1 _
  have hw : wideText (Xlsb.wideBytes s.nameUnits) = .ok (Biff.decodeUtf16 s.nameUnits, 4 + s.nameUnits.length * 2) := by
    have := Xlsb.wideStr_wideBytes s.nameUnits (by omega) h5 []
    rw [List.append_nil] at this
    simp [wideText, this]
  have hne : ¬ (s.relUnits.length = 0xFFFFFFFF) := by omega
  have hl12 : ¬ ((Xlsb.le32 (xlsbVisCode s.vis) ++ Xlsb.le32 s.tabId ++ Xlsb.wideBytes s.relUnits ++ Xlsb.wideBytes s.nameUnits).length < 12) := by
    rw [hlen]; omega
  have hl12' : ¬ ((Xlsb.le32 (xlsbVisCode s.vis) ++ Xlsb.le32 s.tabId ++ Xlsb.wideBytes s.relUnits ++ Xlsb.wideBytes s.nameUnits).length < 12 + s.relUnits.length * 2) := by
    rw [hlen]; omega
  simp only [hl12, if_false, hrel, hne, hl12', htake, Xlsb.units_unitsBytes s.relUnits h4, hl, hu, hvis.2, hk, hdn, hw]
  simp [XlsbSheet.decoded, XlsbSheet.pathOf, hl, hk]

theorem fillBuf_nil (p : Bytes) : Xlsb.fillBuf [] p = p := rfl

theorem readType_frame (id : Nat) (hid : id < 16384) (p : Bytes) (w : Bool) (l : Nat) (rest : Bytes) :
    Xlsb.readType (Xlsb.frame id p w l ++ rest) = .ok (id, Xlsb.encLen p.length l ++ (p ++ rest)) := by
  rw [Xlsb.frame_eq, Xlsb.readType_encId id hid]

theorem fill_frame (p : Bytes) (hp : p.length < 268435456) (l : Nat) (rest : Bytes) :
    Xlsb.fillBuffer [] (Xlsb.encLen p.length l ++ (p ++ rest)) = .ok (p.length, p, rest) := by
  rw [Xlsb.fillBuffer_enc [] p hp, fillBuf_nil]

def wrecId : WRec → Nat
  | .sheet _ _ _ => 0x009C
  | .wbprop _ _ _ => 0x0099
  | .other id _ _ _ => id

theorem loop1_step (rels : List (Text × String)) (r : WRec) (hr : r.ok rels) (fuel : Nat) (rest : Bytes) (st : XlsbSt) :
    xlsbLoop1 rels (fuel + 1) (r.bytes ++ rest) st = xlsbLoop1 rels fuel rest (applyW rels st r) := by
  unfold xlsbLoop1
  cases r with
  | sheet s w l =>
    obtain ⟨hs, hp⟩ := hr
    simp only [WRec.bytes]
    rw [xlsbLoop1With, readType_frame _ (by decide)]
    simp only [fill_frame _ hp, bundleSh_encode rels s hs]
    simp [applyW]
  | wbprop f w l =>
    have hp : (encodeWbProp f).length < 268435456 := by
      simp [encodeWbProp, Xlsb.le32_length, wideBytes_length]
    have hne : (encodeWbProp f).isEmpty = false := by
      simp [encodeWbProp, Xlsb.le32]
    have hb : byteAt (encodeWbProp f) 0 % 2 = f % 2 := by
      simp [encodeWbProp, Xlsb.le32, byteAt]
    simp only [WRec.bytes]
    rw [xlsbLoop1With, readType_frame _ (by decide)]
    simp only [fill_frame _ hp, hne, hb]
    simp [applyW]
  | other id p w l =>
    obtain ⟨h1, h2, h3, h4, h5⟩ := hr
    simp only [WRec.bytes]
    rw [xlsbLoop1With, readType_frame _ h1]
    simp only [h2, h3, h4, if_false, if_true, skipPayload, fill_frame _ h5]
    simp [applyW]

theorem loop1_recs (rels : List (Text × String)) : ∀ (recs : List WRec), (∀ r ∈ recs, r.ok rels) → ∀ (fuel : Nat) (rest : Bytes) (st : XlsbSt),
    xlsbLoop1 rels (fuel + recs.length) (recs.flatMap WRec.bytes ++ rest) st = xlsbLoop1 rels fuel rest (recs.foldl (applyW rels) st) := by
  intro recs
  induction recs with
  | nil => intro _ fuel rest st; simp
  | cons r rs ih =>
    intro hall fuel rest st
    have hf : fuel + (r :: rs).length = (fuel + rs.length) + 1 := by simp; omega
    simp only [List.flatMap_cons, List.append_assoc, List.foldl_cons]
    rw [hf, loop1_step rels r (hall r (by simp)), ih (fun x hx => hall x (by simp [hx]))]

theorem loop1_encode (rels : List (Text × String)) (recs : List WRec) (hall : ∀ r ∈ recs, r.ok rels)
    (ew : Bool) (el : Nat) (tail : Bytes) (fuel : Nat) :
    xlsbLoop1 rels (fuel + recs.length + 1) (encodeWorkbookBin recs ew el tail) {} = .ok (recs.foldl (applyW rels) {}, tail) := by
  unfold encodeWorkbookBin
  have hf : fuel + recs.length + 1 = (fuel + 1) + recs.length := by omega
  rw [hf, loop1_recs rels recs hall]
  unfold xlsbLoop1
  rw [xlsbLoop1With, readType_frame _ (by decide)]
  have := fill_frame [] (by simp) el tail
  simp only [List.length_nil, List.nil_append] at this
  simp [skipPayload, this]

theorem foldl_applyW (rels : List (Text × String)) (recs : List WRec) : ∀ (st : XlsbSt),
    recs.foldl (applyW rels) st =
      ⟨st.sheets ++ (declaredW recs).map (XlsbSheet.decoded rels),
       recs.foldl flagStep st.is1904⟩ := by
  induction recs with
  | nil => intro st; simp [declaredW]
  | cons r rs ih =>
    intro st
    rw [List.foldl_cons, ih]
    cases r <;> simp [applyW, declaredW, flagStep, List.append_assoc]

theorem wrec_bytes_length (r : WRec) : 2 ≤ r.bytes.length := by
  cases r <;> exact Xlsb.frame_length_ge _ _ _ _

theorem encodeWorkbookBin_fuel (recs : List WRec) (ew : Bool) (el : Nat) (tail : Bytes) :
    ∃ fuel, (encodeWorkbookBin recs ew el tail).length + 1 = fuel + recs.length + 1 := by
  have h1 : ∀ (rs : List WRec), rs.length ≤ (rs.flatMap WRec.bytes).length := by
    intro rs
    induction rs with
    | nil => simp
    | cons r rs ih =>
      have := wrec_bytes_length r
      simp only [List.flatMap_cons, List.length_append, List.length_cons]; omega
  refine ⟨(encodeWorkbookBin recs ew el tail).length - recs.length, ?_⟩
  have := h1 recs
  have : (encodeWorkbookBin recs ew el tail).length ≥ (recs.flatMap WRec.bytes).length := by
    simp [encodeWorkbookBin]
  omega

theorem afterNames_lt (t : Nat) (h : isAfterNames t = true) : t < 16384 ∧ t ≠ 0x016A ∧ t ≠ 0x0027 := by
  simp only [isAfterNames, Bool.or_eq_true, decide_eq_true_eq] at h
  omega


/-! ### xlsb second loop: BrtExternSheet, BrtName -/

theorem fillBuf_shape (buf p : Bytes) : ∃ t, Xlsb.fillBuf buf p = p ++ t :=
  ⟨[], by simp [Xlsb.fillBuf]⟩

theorem xtiBytes32_length (x : Nat × Nat × Nat) : (xtiBytes32 x).length = 12 := by
  simp [xtiBytes32, Xlsb.le32_length]

theorem externName_xti (sheets : List (Sheet Text × List Char)) (x : Nat × Nat × Nat) (rest : Bytes)
    (h : x.1 < 4294967296 ∧ x.2.1 < 4294967296 ∧ x.2.2 < 4294967296) :
    externName sheets ((xtiBytes32 x ++ rest).take 12) = xtiName sheets x := by
  have ht : (xtiBytes32 x ++ rest).take 12 = xtiBytes32 x := by
    rw [List.take_left' (xtiBytes32_length x)]
  have hu : u32At (xtiBytes32 x) 4 = x.2.1 := by
    unfold u32At xtiBytes32
    rw [List.drop_left' (Xlsb.le32_length _)]
    exact Xlsb.u32le_le32 _ h.2.1 _
  rw [ht]
  unfold externName xtiName
  simp only [hu]

theorem externLoop_enc (sheets : List (Sheet Text × List Char)) : ∀ (x : List (Nat × Nat × Nat)),
    (∀ e ∈ x, e.1 < 4294967296 ∧ e.2.1 < 4294967296 ∧ e.2.2 < 4294967296) → ∀ (tail : Bytes),
    externLoop sheets x.length (x.flatMap xtiBytes32 ++ tail) = .ok (x.map (xtiName sheets)) := by
  intro x
  induction x with
  | nil => intro _ tail; simp [externLoop]
  | cons e es ih =>
    intro hall tail
    have he := hall e (by simp)
    have ih' := ih (fun y hy => hall y (by simp [hy])) tail
    simp only [List.flatMap_cons, List.length_cons, List.append_assoc]
    rw [externLoop]
    have hne : (xtiBytes32 e ++ (es.flatMap xtiBytes32 ++ tail)).isEmpty = false := by
      simp [xtiBytes32, Xlsb.le32]
    have hl8 : ¬ ((xtiBytes32 e ++ (es.flatMap xtiBytes32 ++ tail)).length < 8) := by
      simp [xtiBytes32_length]; omega
    have hd : (xtiBytes32 e ++ (es.flatMap xtiBytes32 ++ tail)).drop 12 = es.flatMap xtiBytes32 ++ tail := by
      rw [List.drop_left' (xtiBytes32_length e)]
    simp only [hne, hl8, if_false, hd, ih', externName_xti sheets e _ he, Bool.false_eq_true, List.map_cons]

theorem brtName_enc (n : XName) (t : Bytes) (h3 : n.nameUnits.length < 2147483648) (h4 : ∀ u ∈ n.nameUnits, u < 65536)
    (h5 : n.payload.length < 268435456) :
    brtName (n.payload ++ t) n.payload.length = .ok (Biff.decodeUtf16 n.nameUnits, n.rgce) := by
  have hlenp : n.payload.length = 9 + (4 + 2 * n.nameUnits.length) + 4 + n.rgce.length + n.extra.length := by
    simp [XName.payload, Xlsb.le32_length, wideBytes_length]; omega
  have hrl : n.rgce.length < 4294967296 := by omega
  have hd9 : (n.payload ++ t).drop 9 = Xlsb.wideBytes n.nameUnits ++ (Xlsb.le32 n.rgce.length ++ (n.rgce ++ (n.extra ++ t))) := by
    have : n.payload ++ t = (Xlsb.le32 n.flags ++ ([0] ++ Xlsb.le32 n.itab)) ++
        (Xlsb.wideBytes n.nameUnits ++ (Xlsb.le32 n.rgce.length ++ (n.rgce ++ (n.extra ++ t)))) := by
      simp [XName.payload, List.append_assoc]
    rw [this, List.drop_left' (by simp [Xlsb.le32_length])]
  have htk : ((n.payload ++ t).take n.payload.length).drop 9 =
      Xlsb.wideBytes n.nameUnits ++ (Xlsb.le32 n.rgce.length ++ (n.rgce ++ n.extra)) := by
    rw [List.take_left' rfl]
    have : n.payload = (Xlsb.le32 n.flags ++ ([0] ++ Xlsb.le32 n.itab)) ++
        (Xlsb.wideBytes n.nameUnits ++ (Xlsb.le32 n.rgce.length ++ (n.rgce ++ n.extra))) := by
      simp [XName.payload, List.append_assoc]
    rw [this, List.drop_left' (by simp [Xlsb.le32_length])]
  have hw : wideText (Xlsb.wideBytes n.nameUnits ++ (Xlsb.le32 n.rgce.length ++ (n.rgce ++ n.extra))) =
      .ok (Biff.decodeUtf16 n.nameUnits, 4 + n.nameUnits.length * 2) := by
    simp [wideText, Xlsb.wideStr_wideBytes n.nameUnits (by omega) h4]
  have hdl : (n.payload ++ t).drop (9 + (4 + n.nameUnits.length * 2)) = Xlsb.le32 n.rgce.length ++ (n.rgce ++ (n.extra ++ t)) := by
    rw [← List.drop_drop, hd9, List.drop_left' (by rw [wideBytes_length]; omega)]
  have hu : u32At (n.payload ++ t) (9 + (4 + n.nameUnits.length * 2)) = n.rgce.length := by
    unfold u32At; rw [hdl]; exact Xlsb.u32le_le32 _ hrl _
  have hdr : ((n.payload ++ t).drop (13 + (4 + n.nameUnits.length * 2))).take n.rgce.length = n.rgce := by
    have : 13 + (4 + n.nameUnits.length * 2) = (9 + (4 + n.nameUnits.length * 2)) + 4 := by omega
    rw [this, ← List.drop_drop, hdl, List.drop_left' (Xlsb.le32_length _), List.take_left' rfl]
  unfold brtName
  have h9 : ¬ (n.payload.length < 9) := by omega
  have hl1 : ¬ ((n.payload ++ t).length < 9 + (4 + n.nameUnits.length * 2) + 4) := by simp; omega
  have hl2 : ¬ ((n.payload ++ t).length < 13 + (4 + n.nameUnits.length * 2) + n.rgce.length) := by simp; omega
  simp only [h9, if_false, htk, hw, hl1, hu, hl2, hdr]

theorem loop2_step (pf : Bytes → List Text → List (Text × Text) → Res Text) (sheets : List (Sheet Text × List Char))
    (r : NRec) (st : NSt) (hr : r.ok pf st) (fuel : Nat) (rest buf : Bytes) :
    ∃ buf', xlsbLoop2With true pf sheets (fuel + 1) (r.bytes ++ rest) buf st.1 st.2 =
      xlsbLoop2With true pf sheets fuel rest buf' (applyN pf sheets st r).1 (applyN pf sheets st r).2 := by
  cases r with
  | extern x w l =>
    obtain ⟨h1, h2, h3⟩ := hr
    obtain ⟨t, ht⟩ := fillBuf_shape buf (externPayload x)
    refine ⟨Xlsb.fillBuf buf (externPayload x), ?_⟩
    simp only [NRec.bytes]
    rw [xlsbLoop2With, readType_frame _ (by decide)]
    simp only [if_true, Xlsb.fillBuffer_enc buf _ h3]
    have hl4 : ¬ ((Xlsb.fillBuf buf (externPayload x)).length < 4) := by
      rw [ht]; simp [externPayload, Xlsb.le32_length]
    have hu : Xlsb.u32le (Xlsb.fillBuf buf (externPayload x)) = x.length := by
      rw [ht]; unfold externPayload; rw [List.append_assoc]; exact Xlsb.u32le_le32 _ h1 _
    have hd : (Xlsb.fillBuf buf (externPayload x)).drop 4 = x.flatMap xtiBytes32 ++ t := by
      rw [ht]; unfold externPayload; rw [List.append_assoc, List.drop_left' (Xlsb.le32_length _)]
    simp only [hl4, if_false, hu, hd, externLoop_enc sheets x h2 t, applyN]
  | name n w l =>
    obtain ⟨_, _, h3, h4, h5, h6⟩ := hr
    obtain ⟨t, ht⟩ := fillBuf_shape buf n.payload
    refine ⟨Xlsb.fillBuf buf n.payload, ?_⟩
    simp only [NRec.bytes]
    rw [xlsbLoop2With, readType_frame _ (by decide)]
    have hne : ¬ ((0x0027 : Nat) = 0x016A) := by decide
    simp only [hne, if_false, if_true, Xlsb.fillBuffer_enc buf _ h5]
    rw [ht, brtName_enc n t h3 h4 h5]
    simp only [applyN, pfValue]
    cases hp : pf n.rgce st.1 st.2 with
    | ok v => rfl
    | err e => simp [hp, Res.isOk] at h6
    | panic e => simp [hp, Res.isOk] at h6
    | outOfFuel => simp [hp, Res.isOk] at h6
  | other id p w l =>
    obtain ⟨h1, h2, h3, h4, h5⟩ := hr
    refine ⟨Xlsb.fillBuf buf p, ?_⟩
    simp only [NRec.bytes]
    rw [xlsbLoop2With, readType_frame _ h1]
    simp only [h2, h3, h4, if_false, if_true, Xlsb.fillBuffer_enc buf _ h5, applyN, Bool.false_eq_true]

theorem loop2_recs (pf : Bytes → List Text → List (Text × Text) → Res Text) (sheets : List (Sheet Text × List Char)) :
    ∀ (recs : List NRec) (st : NSt), namesOk pf sheets st recs → ∀ (fuel : Nat) (rest buf : Bytes),
    ∃ buf', xlsbLoop2With true pf sheets (fuel + recs.length) (recs.flatMap NRec.bytes ++ rest) buf st.1 st.2 =
      xlsbLoop2With true pf sheets fuel rest buf' (recs.foldl (applyN pf sheets) st).1 (recs.foldl (applyN pf sheets) st).2 := by
  intro recs
  induction recs with
  | nil => intro st _ fuel rest buf; exact ⟨buf, by simp⟩
  | cons r rs ih =>
    intro st hok fuel rest buf
    obtain ⟨hr, hrs⟩ := hok
    have hf : fuel + (r :: rs).length = (fuel + rs.length) + 1 := by simp; omega
    obtain ⟨b1, h1⟩ := loop2_step pf sheets r st hr (fuel + rs.length) (rs.flatMap NRec.bytes ++ rest) buf
    obtain ⟨b2, h2⟩ := ih (applyN pf sheets st r) hrs fuel rest b1
    refine ⟨b2, ?_⟩
    simp only [List.flatMap_cons, List.append_assoc, List.foldl_cons]
    rw [hf, h1, h2]

theorem nrec_bytes_length (r : NRec) : 2 ≤ r.bytes.length := by
  cases r <;> exact Xlsb.frame_length_ge _ _ _ _

theorem loop2_encode (pf : Bytes → List Text → List (Text × Text) → Res Text) (sheets : List (Sheet Text × List Char))
    (recs : List NRec) (hok : namesOk pf sheets ([], []) recs) (t : Nat) (ht : isAfterNames t = true) (tw : Bool) (tl : Nat) (rest : Bytes) :
    xlsbLoop2With true pf sheets ((recs.flatMap NRec.bytes ++ (Xlsb.frame t [] tw tl ++ rest)).length + 1)
      (recs.flatMap NRec.bytes ++ (Xlsb.frame t [] tw tl ++ rest)) [] [] [] =
      .ok (recs.foldl (applyN pf sheets) ([], [])).2 := by
  obtain ⟨ht1, ht2, ht3⟩ := afterNames_lt t ht
  have hlen : ∀ (rs : List NRec), rs.length ≤ (rs.flatMap NRec.bytes).length := by
    intro rs
    induction rs with
    | nil => simp
    | cons r rs ih =>
      have := nrec_bytes_length r
      simp only [List.flatMap_cons, List.length_append, List.length_cons]; omega
  obtain ⟨fuel, hf⟩ : ∃ fuel, (recs.flatMap NRec.bytes ++ (Xlsb.frame t [] tw tl ++ rest)).length + 1 = (fuel + 1) + recs.length := by
    refine ⟨(recs.flatMap NRec.bytes ++ (Xlsb.frame t [] tw tl ++ rest)).length - recs.length, ?_⟩
    have := hlen recs
    simp only [List.length_append]; omega
  obtain ⟨b, hb⟩ := loop2_recs pf sheets recs ([], []) hok (fuel + 1) (Xlsb.frame t [] tw tl ++ rest) []
  rw [hf, hb, xlsbLoop2With, readType_frame t ht1]
  simp only [ht2, ht3, ht, if_false, if_true]

/-! ## xlsx `read_workbook` over events -/

theorem ridKey_ne (k : String) (h : ridKeyOk k) : k ≠ "name" ∧ k ≠ "state" := by
  constructor <;> (intro hk; subst hk; exact absurd h.1 (by decide))

/-- the namespace declaration `xmlns:id="…"` is not the relationship-id attribute (fix f69fe90) -/
theorem xmlns_id_not_rid : ¬ relIdKey "xmlns:id" := by decide

theorem xlsxVis_lookup (v : SheetVisible) : Gen.xlsxVisTable.lookup (xlsxVisName v) = some v := by
  cases v <;> decide

theorem sheetAttrs_name (rels : List (String × String)) (v : String) (rest : List (String × String)) (acc : SheetAcc) :
    sheetAttrs rels (("name", v) :: rest) acc = sheetAttrs rels rest { acc with name := v } := by
  rw [sheetAttrs]; simp only [if_true]

theorem sheetAttrs_other (rels : List (String × String)) (k v : String) (rest : List (String × String)) (acc : SheetAcc)
    (h1 : k ≠ "name") (h2 : k ≠ "state") (h3 : ¬ relIdKey k) :
    sheetAttrs rels ((k, v) :: rest) acc = sheetAttrs rels rest acc := by
  rw [sheetAttrs]; simp only [h1, h2, h3, if_false]

theorem sheetAttrs_state (rels : List (String × String)) (vis : SheetVisible) (rest : List (String × String)) (acc : SheetAcc) :
    sheetAttrs rels (("state", xlsxVisName vis) :: rest) acc = sheetAttrs rels rest { acc with visible := vis } := by
  rw [sheetAttrs]
  have : ("state" : String) ≠ "name" := by decide
  simp only [this, if_false, if_true, xlsxVis_lookup]

theorem sheetAttrs_rid (rels : List (String × String)) (k v t : String) (acc : SheetAcc)
    (hk : ridKeyOk k) (ht : rels.lookup v = some t) :
    sheetAttrs rels [(k, v)] acc = .ok { acc with path := xlsxPath t.toList } := by
  obtain ⟨hn, hst⟩ := ridKey_ne k hk
  rw [sheetAttrs]
  have hc : relIdKey k := hk
  simp only [hn, hst, hc, if_false, if_true, ht, sheetAttrs]

theorem xlsxSheet_attrs (rels : List (String × String)) (ridKey : String) (hk : ridKeyOk ridKey) (s : XSheet) (hs : s.ok rels) :
    xlsxSheet rels (sheetAttrList ridKey s) = .ok (xsheetDecoded s) := by
  obtain ⟨h1, h2, h3⟩ := hs
  unfold sheetAttrList
  have hsid : sheetAttrs rels (("sheetId", s.sheetId) :: ((if s.writeState then [("state", xlsxVisName s.vis)] else []) ++ [(ridKey, s.rid)])) { name := s.name }
      = .ok { name := s.name, path := xlsxPath s.target.toList, visible := s.vis } := by
    rw [sheetAttrs_other rels "sheetId" _ _ _ (by decide) (by decide) (by decide)]
    cases hw : s.writeState with
    | true =>
      simp only [if_true, List.cons_append, List.nil_append]
      rw [sheetAttrs_state, sheetAttrs_rid rels ridKey s.rid s.target _ hk h1]
    | false =>
      have hv := h3 hw
      simp only [Bool.false_eq_true, if_false, List.nil_append]
      rw [sheetAttrs_rid rels ridKey s.rid s.target _ hk h1, hv]
  unfold xlsxSheet
  simp only [List.cons_append, List.nil_append]
  rw [sheetAttrs_name]
  have : ({ name := s.name } : SheetAcc) = { ({} : SheetAcc) with name := s.name } := rfl
  rw [← this, hsid]
  simp only [h2, xsheetDecoded]

section steps
variable (cfg : XlsxCfg) (rels : List (String × String))

theorem loop_start_sheet (n : String) (attrs : List (String × String)) (rest : List Ev)
    (sh : List (Sheet String × List Char)) (nm : List (String × String)) (d : Bool)
    (hn : localName n = "sheet") (s : Sheet String × List Char) (h : xlsxSheet rels attrs = .ok s) :
    xlsxLoopWith cfg rels (.start n attrs :: rest) ⟨sh, nm, d, none, none⟩ = xlsxLoopWith cfg rels rest ⟨sh ++ [s], nm, d, none, none⟩ := by
  have hx : ¬ (("sheet" : String) = "extLst") := by decide
  rw [xlsxLoopWith]; simp only [hn, hx, and_false, if_false, if_true, h]

theorem loop_start_skip (n : String) (attrs : List (String × String)) (rest : List Ev) (st : XlsxSt) (hc : st.cur = none)
    (hk : st.skip = none) (hx : localName n ≠ "extLst")
    (h1 : localName n ≠ "sheet") (h2 : cfg.prMatch n = false) (h3 : localName n ≠ "definedName") :
    xlsxLoopWith cfg rels (.start n attrs :: rest) st = xlsxLoopWith cfg rels rest st := by
  obtain ⟨sh, nm, d, cur, sk⟩ := st
  simp only at hc hk; subst hc; subst hk
  rw [xlsxLoopWith]; simp only [hx, h1, h2, h3, and_false, if_false, Bool.false_eq_true]

theorem loop_start_pr (n : String) (attrs : List (String × String)) (rest : List Ev)
    (sh : List (Sheet String × List Char)) (nm : List (String × String)) (d : Bool)
    (hx : localName n ≠ "extLst") (h1 : localName n ≠ "sheet") (h2 : cfg.prMatch n = true) :
    xlsxLoopWith cfg rels (.start n attrs :: rest) ⟨sh, nm, d, none, none⟩ =
      xlsxLoopWith cfg rels rest ⟨sh, nm, date1904Upd cfg.keepFlag d attrs, none, none⟩ := by
  rw [xlsxLoopWith]; simp only [hx, h1, h2, and_false, if_false, if_true]

theorem loop_start_dn (n : String) (attrs : List (String × String)) (rest : List Ev)
    (sh : List (Sheet String × List Char)) (nm : List (String × String)) (d : Bool) (name : String)
    (h2 : cfg.prMatch n = false) (h3 : localName n = "definedName") (h : attrs.lookup "name" = some name) :
    xlsxLoopWith cfg rels (.start n attrs :: rest) ⟨sh, nm, d, none, none⟩ = xlsxLoopWith cfg rels rest ⟨sh, nm, d, some (name, n, ""), none⟩ := by
  have h1' : ¬ (("definedName" : String) = "sheet") := by decide
  have hx : ¬ (("definedName" : String) = "extLst") := by decide
  rw [xlsxLoopWith]; simp only [h2, h3, h1', hx, and_false, if_false, if_true, h, Bool.false_eq_true]

theorem loop_end_skip (n : String) (rest : List Ev) (st : XlsxSt) (hc : st.cur = none) (hk : st.skip = none)
    (h : localName n ≠ "workbook") :
    xlsxLoopWith cfg rels (.end_ n :: rest) st = xlsxLoopWith cfg rels rest st := by
  obtain ⟨sh, nm, d, cur, sk⟩ := st
  simp only at hc hk; subst hc; subst hk
  rw [xlsxLoopWith]; simp only [h, if_false]

theorem loop_end_workbook (n : String) (rest : List Ev) (st : XlsxSt) (hc : st.cur = none) (hk : st.skip = none)
    (h : localName n = "workbook") :
    xlsxLoopWith cfg rels (.end_ n :: rest) st = .ok st := by
  obtain ⟨sh, nm, d, cur, sk⟩ := st
  simp only at hc hk; subst hc; subst hk
  rw [xlsxLoopWith]; simp only [h, if_true]

theorem loop_text_in (t : String) (rest : List Ev) (sh : List (Sheet String × List Char)) (nm : List (String × String)) (d : Bool)
    (name q val : String) :
    xlsxLoopWith cfg rels (.text t :: rest) ⟨sh, nm, d, some (name, q, val), none⟩ =
      xlsxLoopWith cfg rels rest ⟨sh, nm, d, some (name, q, val ++ t), none⟩ := by
  rw [xlsxLoopWith] <;> simp

theorem loop_end_in (rest : List Ev) (sh : List (Sheet String × List Char)) (nm : List (String × String)) (d : Bool)
    (name q val : String) :
    xlsxLoopWith cfg rels (.end_ q :: rest) ⟨sh, nm, d, some (name, q, val), none⟩ =
      xlsxLoopWith cfg rels rest ⟨sh, nm ++ [(name, val)], d, none, none⟩ := by
  rw [xlsxLoopWith]; simp only [if_true]

/-- the `extLst` arm (fix 4dbff9e): the start tag switches to skipping -/
theorem loop_start_ext (hs : cfg.skipExt = true) (n : String) (attrs : List (String × String)) (rest : List Ev)
    (sh : List (Sheet String × List Char)) (nm : List (String × String)) (d : Bool) (hx : localName n = "extLst") :
    xlsxLoopWith cfg rels (.start n attrs :: rest) ⟨sh, nm, d, none, none⟩ = xlsxLoopWith cfg rels rest ⟨sh, nm, d, none, some (n, 0)⟩ := by
  rw [xlsxLoopWith]; simp only [hs, hx, and_self, if_true]

/-- while skipping, events that neither open nor close the skipped element change nothing — whatever their
    names, attributes or text -/
theorem loop_skip_body (q : String) (depth : Nat) : ∀ (body : List Ev), ExtOk q body → ∀ (rest : List Ev) (st : XlsxSt),
    st.skip = some (q, depth) → xlsxLoopWith cfg rels (body ++ rest) st = xlsxLoopWith cfg rels rest st := by
  intro body
  induction body with
  | nil => intros; rfl
  | cons e es ih =>
    intro hb rest st hk
    obtain ⟨sh, nm, d, cur, sk⟩ := st
    simp only at hk; subst hk
    have he := hb e (by simp)
    have hes : ExtOk q es := fun x hx => hb x (by simp [hx])
    simp only [List.cons_append]
    cases e with
    | start n a =>
      have hn : n ≠ q := fun h => he.1 a (by rw [h])
      rw [xlsxLoopWith]; simp only [hn, if_false]; exact ih hes rest _ rfl
    | end_ n =>
      have hn : n ≠ q := fun h => he.2 (by rw [h])
      rw [xlsxLoopWith]; simp only [hn, if_false]; exact ih hes rest _ rfl
    | text t => rw [xlsxLoopWith] <;> first | exact ih hes rest _ rfl | simp
    | other => rw [xlsxLoopWith] <;> first | exact ih hes rest _ rfl | simp
    | cdata t => rw [xlsxLoopWith] <;> first | exact ih hes rest _ rfl | simp

theorem loop_skip_end (q : String) (rest : List Ev) (sh : List (Sheet String × List Char)) (nm : List (String × String)) (d : Bool)
    (cur : Option (String × String × String)) :
    xlsxLoopWith cfg rels (.end_ q :: rest) ⟨sh, nm, d, cur, some (q, 0)⟩ = xlsxLoopWith cfg rels rest ⟨sh, nm, d, cur, none⟩ := by
  rw [xlsxLoopWith]; simp only [if_true]

end steps

theorem inertX_nil : InertX [] := fun _ h => by cases h
theorem inertO_nil : InertO [] := fun _ h => by cases h
theorem gaps_ok_empty : ({} : Gaps).ok := ⟨inertX_nil, inertX_nil, inertX_nil, inertX_nil, inertX_nil⟩
theorem gaps_okO_empty : ({} : Gaps).okO := ⟨inertO_nil, inertO_nil, inertO_nil, inertO_nil, inertO_nil⟩

/-- inert events (see `InertX`) leave the state of the current reader unchanged -/
theorem loop_inert (rels : List (String × String)) : ∀ (evs : List Ev), InertX evs → ∀ (rest : List Ev) (st : XlsxSt),
    st.cur = none → st.skip = none → xlsxLoopWith cfgNow rels (evs ++ rest) st = xlsxLoopWith cfgNow rels rest st := by
  intro evs
  induction evs with
  | nil => intros; rfl
  | cons e es ih =>
    intro hi rest st hc hk
    have he := hi e (by simp)
    have hes : InertX es := fun x hx => hi x (by simp [hx])
    simp only [List.cons_append]
    cases e with
    | start n a =>
      obtain ⟨hni, hpr⟩ := he
      simp only [xlsxAlwaysInterpreted, List.mem_cons, List.not_mem_nil, or_false, not_or] at hni
      obtain ⟨h0, h1, h3⟩ := hni
      by_cases h2 : localName n = "workbookPr"
      · -- a `workbookPr` without `date1904`: the flag stays as it is
        obtain ⟨sh, nm, d, cur, sk⟩ := st
        simp only at hc hk; subst hc; subst hk
        rw [loop_start_pr cfgNow rels n a _ sh nm d h0 h1 (by simp [cfgNow, h2])]
        have hd : date1904Upd cfgNow.keepFlag d a = d := by
          simp [date1904Upd, cfgNow, hpr h2]
        rw [hd]
        exact ih hes rest _ rfl rfl
      · rw [loop_start_skip cfgNow rels n a _ st hc hk h0 h1 (by simp [cfgNow, h2]) h3]
        exact ih hes rest st hc hk
    | end_ n =>
      rw [loop_end_skip cfgNow rels n _ st hc hk he]
      exact ih hes rest st hc hk
    | text t =>
      obtain ⟨sh, nm, d, cur, sk⟩ := st
      simp only at hc hk; subst hc; subst hk
      rw [xlsxLoopWith] <;> first | exact ih hes rest _ rfl rfl | simp
    | other =>
      obtain ⟨sh, nm, d, cur, sk⟩ := st
      simp only at hc hk; subst hc; subst hk
      rw [xlsxLoopWith] <;> first | exact ih hes rest _ rfl rfl | simp
    | cdata t =>
      obtain ⟨sh, nm, d, cur, sk⟩ := st
      simp only at hc hk; subst hc; subst hk
      rw [xlsxLoopWith] <;> first | exact ih hes rest _ rfl rfl | simp

theorem loop_sheets (cfg : XlsxCfg) (rels : List (String × String)) (q : String → String) (hq : QOk q)
    (ridKey : String) (hk : ridKeyOk ridKey) :
    ∀ (sheets : List XSheet), (∀ s ∈ sheets, s.ok rels) → ∀ (rest : List Ev) (sh : List (Sheet String × List Char))
      (nm : List (String × String)) (d : Bool),
      xlsxLoopWith cfg rels (sheets.flatMap (sheetEvents q ridKey) ++ rest) ⟨sh, nm, d, none, none⟩ =
      xlsxLoopWith cfg rels rest ⟨sh ++ sheets.map xsheetDecoded, nm, d, none, none⟩ := by
  intro sheets
  induction sheets with
  | nil => intro _ rest sh nm d; simp
  | cons s ss ih =>
    intro hall rest sh nm d
    have hs := hall s (by simp)
    have hss : ∀ t ∈ ss, t.ok rels := fun t ht => hall t (by simp [ht])
    simp only [List.flatMap_cons, sheetEvents, List.cons_append, List.nil_append]
    rw [loop_start_sheet cfg rels _ _ _ _ _ _ (hq "sheet" (by decide)) _ (xlsxSheet_attrs rels ridKey hk s hs)]
    rw [loop_end_skip cfg rels _ _ _ rfl rfl (by rw [hq "sheet" (by decide)]; decide)]
    rw [ih hss]
    simp [List.append_assoc]

theorem loop_cdata_in (cfg : XlsxCfg) (rels : List (String × String)) (hc : cfg.cdataNames = true) (t : String) (rest : List Ev)
    (sh : List (Sheet String × List Char)) (nm : List (String × String)) (d : Bool) (name q val : String) :
    xlsxLoopWith cfg rels (.cdata t :: rest) ⟨sh, nm, d, some (name, q, val), none⟩ =
      xlsxLoopWith cfg rels rest ⟨sh, nm, d, some (name, q, val ++ t), none⟩ := by
  rw [xlsxLoopWith] <;> simp [hc]

/-- text and CDATA sections contribute alike to the text of a defined name -/
theorem loop_texts (cfg : XlsxCfg) (rels : List (String × String)) (hc : cfg.cdataNames = true) :
    ∀ (chunks : List (Bool × String)) (rest : List Ev) (sh : List (Sheet String × List Char)) (nm : List (String × String)) (d : Bool)
      (name q val : String),
      xlsxLoopWith cfg rels (chunks.map chunkEv ++ rest) ⟨sh, nm, d, some (name, q, val), none⟩ =
      xlsxLoopWith cfg rels rest ⟨sh, nm, d, some (name, q, chunks.foldl (fun acc c => acc ++ c.2) val), none⟩ := by
  intro chunks
  induction chunks with
  | nil => intros; rfl
  | cons c cs ih =>
    intro rest sh nm d name q val
    obtain ⟨b, t⟩ := c
    simp only [List.map_cons, List.cons_append, List.foldl_cons, chunkEv]
    cases b with
    | true => simp only [if_true]; rw [loop_cdata_in cfg rels hc, ih]
    | false => simp only [Bool.false_eq_true, if_false]; rw [loop_text_in, ih]

theorem loop_names (cfg : XlsxCfg) (rels : List (String × String)) (q : String → String) (hq : QOk q)
    (hpm : cfg.prMatch (q "definedName") = false) (hc : cfg.cdataNames = true) :
    ∀ (names : List (String × List (Bool × String))) (rest : List Ev) (sh : List (Sheet String × List Char))
      (nm : List (String × String)) (d : Bool),
      xlsxLoopWith cfg rels (names.flatMap (definedNameEvents q) ++ rest) ⟨sh, nm, d, none, none⟩ =
      xlsxLoopWith cfg rels rest ⟨sh, nm ++ names.map dnValue, d, none, none⟩ := by
  intro names
  induction names with
  | nil => intro rest sh nm d; simp
  | cons n ns ih =>
    intro rest sh nm d
    simp only [List.flatMap_cons, definedNameEvents, List.cons_append, List.nil_append, List.append_assoc]
    rw [loop_start_dn cfg rels _ _ _ _ _ _ n.1 hpm (hq "definedName" (by decide)) (by simp [List.lookup])]
    rw [loop_texts cfg rels hc, loop_end_in, ih]
    simp [List.append_assoc, dnValue]

theorem pm_q (q : String → String) (hq : QOk q) (s : String) (hs : s ∈ xlsxNames) : cfgNow.prMatch (q s) = (s == "workbookPr") := by
  simp [cfgNow, hq s hs]

/-- with the current code a `date1904` attribute list decides the flag like before when nothing was set yet -/
theorem date1904Upd_false (attrs : List (String × String)) : date1904Upd true false attrs = date1904Attr attrs := by
  unfold date1904Upd date1904Attr
  simp only [if_true]


/-! ## ods `parse_content` over events -/

section
theorem ods_top_start_skip (n : String) (attrs : List (String × String)) (rest : List Ev)
    (sh : List (Sheet String)) (nm : List (String × String)) (sty : List (String × SheetVisible)) (sn : Option String)
    (h1 : n ≠ "style:style") (h2 : n ≠ "style:table-properties") (h3 : n ≠ "table:table") (h4 : n ≠ "table:named-expressions") :
    odsLoop (.start n attrs :: rest) ⟨sh, nm, sty, sn, .top⟩ = odsLoop rest ⟨sh, nm, sty, sn, .top⟩ := by
  rw [odsLoop]; simp only [h1, h2, h3, h4, if_false, and_false]

theorem ods_top_end (n : String) (rest : List Ev) (sh : List (Sheet String)) (nm : List (String × String))
    (sty : List (String × SheetVisible)) (sn : Option String) :
    odsLoop (.end_ n :: rest) ⟨sh, nm, sty, sn, .top⟩ = odsLoop rest ⟨sh, nm, sty, sn, .top⟩ := by
  rw [odsLoop] <;> simp

theorem ods_style (st : String × Option Bool) (rest : List Ev) (sh : List (Sheet String)) (nm : List (String × String))
    (sty : List (String × SheetVisible)) (sn : Option String) :
    odsLoop (styleEvents st ++ rest) ⟨sh, nm, sty, sn, .top⟩ =
      odsLoop rest ⟨sh, nm, (st.1, styleVis st.2) :: sty, some st.1, .top⟩ := by
  obtain ⟨name, d⟩ := st
  simp only [styleEvents, List.cons_append, List.nil_append]
  rw [odsLoop]
  simp only [if_true]
  have hl : List.lookup "style:name" [("style:name", name), ("style:family", "table")] = some name := by simp [List.lookup]
  rw [hl, odsLoop]
  have hne : ("style:table-properties" : String) ≠ "style:style" := by decide
  simp only [hne, if_false, Option.isSome_some, and_self, if_true]
  cases d with
  | none =>
    simp only [List.lookup, Option.getD_some, styleVis]
    rw [ods_top_end, ods_top_end]
  | some b =>
    cases b with
    | true =>
      have : List.lookup "table:display" [("table:display", "true")] = some "true" := by simp [List.lookup]
      simp only [this, if_true, Option.getD_some, styleVis]
      rw [ods_top_end, ods_top_end]
    | false =>
      have : List.lookup "table:display" [("table:display", "false")] = some "false" := by simp [List.lookup]
      have hf : ("false" : String) ≠ "true" := by decide
      simp only [this, hf, if_false, if_true, Option.getD_some, styleVis]
      rw [ods_top_end, ods_top_end]
end

/-- inert events (see `InertO`) leave the top-level state of `parse_content` unchanged -/
theorem ods_inert : ∀ (evs : List Ev), InertO evs → ∀ (rest : List Ev) (sh : List (Sheet String)) (nm : List (String × String))
    (sty : List (String × SheetVisible)) (sn : Option String),
    odsLoop (evs ++ rest) ⟨sh, nm, sty, sn, .top⟩ = odsLoop rest ⟨sh, nm, sty, sn, .top⟩ := by
  intro evs
  induction evs with
  | nil => intros; rfl
  | cons e es ih =>
    intro hi rest sh nm sty sn
    have he := hi e (by simp)
    have hes : InertO es := fun x hx => hi x (by simp [hx])
    simp only [List.cons_append]
    cases e with
    | start n a =>
      simp only [odsInterpreted, List.mem_cons, List.not_mem_nil, or_false, not_or] at he
      obtain ⟨h1, h2, h3, h4⟩ := he
      rw [ods_top_start_skip n a _ sh nm sty sn h1 h2 h3 h4]
      exact ih hes rest sh nm sty sn
    | end_ n => rw [ods_top_end]; exact ih hes rest sh nm sty sn
    | text t => rw [odsLoop] <;> first | exact ih hes rest sh nm sty sn | simp
    | other => rw [odsLoop] <;> first | exact ih hes rest sh nm sty sn | simp
    | cdata t => rw [odsLoop] <;> first | exact ih hes rest sh nm sty sn | simp

theorem ods_styles : ∀ (styles : List (String × Option Bool)) (rest : List Ev) (sh : List (Sheet String)) (nm : List (String × String))
    (sty : List (String × SheetVisible)) (sn : Option String),
    ∃ sn', odsLoop (styles.flatMap styleEvents ++ rest) ⟨sh, nm, sty, sn, .top⟩ =
      odsLoop rest ⟨sh, nm, styleTable styles ++ sty, sn', .top⟩ := by
  intro styles
  induction styles with
  | nil => intro rest sh nm sty sn; exact ⟨sn, by simp [styleTable]⟩
  | cons s ss ih =>
    intro rest sh nm sty sn
    obtain ⟨sn', h⟩ := ih rest sh nm ((s.1, styleVis s.2) :: sty) (some s.1)
    refine ⟨sn', ?_⟩
    simp only [List.flatMap_cons, List.append_assoc]
    rw [ods_style, h]
    simp [styleTable]

theorem ods_table_body : ∀ (body : List Ev), (∀ e ∈ body, e ≠ Ev.end_ "table:table") → ∀ (rest : List Ev) (sh : List (Sheet String))
    (nm : List (String × String)) (sty : List (String × SheetVisible)) (sn : Option String),
    odsLoop (body ++ rest) ⟨sh, nm, sty, sn, .table⟩ = odsLoop rest ⟨sh, nm, sty, sn, .table⟩ := by
  intro body
  induction body with
  | nil => intros; rfl
  | cons e es ih =>
    intro hb rest sh nm sty sn
    have he := hb e (by simp)
    have hes : ∀ x ∈ es, x ≠ Ev.end_ "table:table" := fun x hx => hb x (by simp [hx])
    simp only [List.cons_append]
    cases e with
    | end_ n =>
      have hn : n ≠ "table:table" := fun h => he (by rw [h])
      rw [odsLoop]; simp only [hn, if_false]; exact ih hes rest sh nm sty sn
    | start n a => rw [odsLoop] <;> first | exact ih hes rest sh nm sty sn | simp
    | text t => rw [odsLoop] <;> first | exact ih hes rest sh nm sty sn | simp
    | other => rw [odsLoop] <;> first | exact ih hes rest sh nm sty sn | simp
    | cdata t => rw [odsLoop] <;> first | exact ih hes rest sh nm sty sn | simp

theorem ods_table (styles0 : List (String × Option Bool)) (t : OTable) (ht : t.ok) (rest : List Ev) (sh : List (Sheet String))
    (nm : List (String × String)) (sn : Option String) :
    odsLoop (tableEvents t ++ rest) ⟨sh, nm, styleTable styles0, sn, .top⟩ =
      odsLoop rest ⟨sh ++ [⟨t.name, .workSheet, tableVis styles0 t⟩], nm, styleTable styles0, sn, .top⟩ := by
  simp only [tableEvents, List.cons_append, List.append_assoc]
  rw [odsLoop]
  have h1 : ("table:table" : String) ≠ "style:style" := by decide
  have h2 : ("table:table" : String) ≠ "style:table-properties" := by decide
  simp only [h1, h2, if_false, and_false, if_true]
  cases hs : t.styleName with
  | none =>
    have hl : List.lookup "table:name" [("table:name", t.name)] = some t.name := by simp [List.lookup]
    have hl2 : List.lookup "table:style-name" [("table:name", t.name)] = none := by simp [List.lookup]
    simp only [List.nil_append, hl, hl2]
    rw [ods_table_body t.body ht]
    rw [odsLoop]; simp only [if_true, tableVis, hs]
  | some s =>
    have hl : List.lookup "table:name" [("table:style-name", s), ("table:name", t.name)] = some t.name := by simp [List.lookup]
    have hl2 : List.lookup "table:style-name" [("table:style-name", s), ("table:name", t.name)] = some s := by simp [List.lookup]
    simp only [List.cons_append, List.nil_append, hl, hl2]
    rw [ods_table_body t.body ht]
    rw [odsLoop]; simp only [if_true, tableVis, hs]

theorem ods_tables (styles0 : List (String × Option Bool)) : ∀ (tables : List OTable), (∀ t ∈ tables, t.ok) → ∀ (rest : List Ev)
    (sh : List (Sheet String)) (nm : List (String × String)) (sn : Option String),
    odsLoop (tables.flatMap tableEvents ++ rest) ⟨sh, nm, styleTable styles0, sn, .top⟩ =
      odsLoop rest ⟨sh ++ tables.map (fun t => ⟨t.name, .workSheet, tableVis styles0 t⟩), nm, styleTable styles0, sn, .top⟩ := by
  intro tables
  induction tables with
  | nil => intro _ rest sh nm sn; simp
  | cons t ts ih =>
    intro hall rest sh nm sn
    simp only [List.flatMap_cons, List.append_assoc]
    rw [ods_table styles0 t (hall t (by simp)), ih (fun x hx => hall x (by simp [hx]))]
    simp [List.append_assoc]

theorem ods_named : ∀ (names : List (String × String)) (rest : List Ev) (sh : List (Sheet String)) (nm : List (String × String))
    (sty : List (String × SheetVisible)) (sn : Option String) (acc : List (String × String)),
    odsLoop (names.flatMap namedRangeEvents ++ rest) ⟨sh, nm, sty, sn, .named acc⟩ =
      odsLoop rest ⟨sh, nm, sty, sn, .named (acc ++ names)⟩ := by
  intro names
  induction names with
  | nil => intros; simp
  | cons n ns ih =>
    intro rest sh nm sty sn acc
    obtain ⟨name, addr⟩ := n
    simp only [List.flatMap_cons, namedRangeEvents, List.cons_append, List.nil_append]
    rw [odsLoop]
    have h1 : isNamedElem "table:named-range" = true := by decide
    have ha : namedAttrs [("table:name", name), ("table:cell-range-address", addr)] ("", "") = (name, addr) := by
      simp [namedAttrs]
    simp only [h1, if_true, ha]
    rw [odsLoop]
    simp only [h1, if_true]
    rw [ih]
    simp [List.append_assoc]


end MetaLemmas
