import CalVerif.Spec.MetadataEnc
/-! Helper lemmas for Props/C16.lean: little-endian fields, string packing, table look-ups. -/
open Meta MetaEnc

namespace MetaLemmas

theorem byte_toNat (n : Nat) : (byte n).toNat = n % 256 := by
  simp [byte]

theorem units16_flatMap_le16 (us : List Nat) (h : ∀ u ∈ us, u < 65536) : Biff.units16 (us.flatMap le16) = us := by
  induction us with
  | nil => rfl
  | cons u us ih =>
    have hu := h u (by simp)
    have := ih (fun v hv => h v (by simp [hv]))
    simp [List.flatMap_cons, le16, Biff.units16, byte_toNat, this]
    omega

theorem length_flatMap_le16 (us : List Nat) : (us.flatMap le16).length = 2 * us.length := by
  induction us with
  | nil => rfl
  | cons u us ih => simp [List.flatMap_cons, le16, ih]; omega

theorem map_byte_toNat (us : List Nat) (h : ∀ u ∈ us, u < 256) : (us.map byte).map (·.toNat) = us := by
  induction us with
  | nil => rfl
  | cons u us ih =>
    have hu := h u (by simp)
    have := ih (fun v hv => h v (by simp [hv]))
    simp [byte_toNat, this]
    omega

/-- `decode_to` gives back the units an encoder laid out, whatever follows them -/
theorem decodeTo_encUnits (us : List Nat) (wide : Bool) (rest : Bytes)
    (h : ∀ u ∈ us, u < (if wide then 65536 else 256)) :
    (Biff.decodeTo (encUnits wide us ++ rest) us.length wide).1 = us := by
  cases wide with
  | true =>
    have hl := length_flatMap_le16 us
    have : min ((us.flatMap le16 ++ rest).length / 2) us.length = us.length := by
      simp [hl]; omega
    simp only [Biff.decodeTo, encUnits, if_true, this]
    rw [List.take_left' (by simp [hl])]
    exact units16_flatMap_le16 us (by simpa using h)
  | false =>
    simp only [Biff.decodeTo, encUnits]
    simp
    have := map_byte_toNat us (by simpa using h)
    simpa [List.map_map] using this

theorem flagHigh_flag (wide : Bool) : Biff.flagHigh (if wide then 1 else 0) = wide := by
  cases wide <;> decide

theorem parseShortString_shortString (us : List Nat) (wide : Bool) (rest : Bytes) (hlen : us.length < 256)
    (h : ∀ u ∈ us, u < (if wide then 65536 else 256)) :
    Biff.parseShortString (shortString us wide ++ rest) true = .ok (Biff.decodeUtf16 us) := by
  unfold Biff.parseShortString shortString
  have h2 : ¬ ((byte us.length :: (if wide then (1 : UInt8) else 0) :: encUnits wide us ++ rest).length < 2) := by
    simp
  simp only [h2, if_false, if_true]
  simp only [List.cons_append, List.getD_cons_zero, List.drop_succ_cons, List.drop_zero, byte_toNat, flagHigh_flag]
  rw [Nat.mod_eq_of_lt hlen, decodeTo_encUnits us wide rest h]

theorem u16_le16 (n : Nat) (rest : Bytes) (h : n < 65536) : Biff.u16 (le16 n ++ rest) = n := by
  simp [Biff.u16, le16, byte_toNat]
  omega

theorem u32_le32 (n : Nat) (rest : Bytes) (h : n < 4294967296) : Biff.u32 (le32 n ++ rest) = n := by
  simp [Biff.u32, le32, byte_toNat]
  omega

theorem lookup_mem {α β : Type} [BEq α] [LawfulBEq α] : ∀ (l : List (α × β)) (a : α) (b : β), l.lookup a = some b → (a, b) ∈ l
  | [], _, _, h => by simp [List.lookup] at h
  | (k, v) :: es, a, b, h => by
    simp only [List.lookup] at h
    split at h
    · rename_i heq
      have : a = k := by simpa using heq
      simp at h; subst h; subst this; simp
    · exact List.mem_cons_of_mem _ (lookup_mem es a b h)

theorem xlsVis_lookup (vis : SheetVisible) (reserved : Nat) :
    Gen.xlsVisTable.lookup ((xlsVisCode vis + 64 * reserved) % 256 &&& Gen.xlsVisMask) = some vis := by
  have hm : ∀ x, x &&& Gen.xlsVisMask = x % 64 := fun x => by
    simpa [Gen.xlsVisMask] using Nat.and_two_pow_sub_one_eq_mod x 6
  rw [hm]
  have : (xlsVisCode vis + 64 * reserved) % 256 % 64 = xlsVisCode vis := by
    have : xlsVisCode vis < 3 := by cases vis <;> decide
    omega
  rw [this]
  cases vis <;> decide

theorem xlsKind_lookup (kind : SheetType) (dt : Nat) (h : xlsKindCode kind = some dt) :
    dt < 256 ∧ Gen.xlsKindTable.lookup dt = some kind := by
  cases kind <;> simp [xlsKindCode, codeOf, Gen.xlsKindTable] at h <;> subst h <;> decide

end MetaLemmas
