import CalVerif.Spec.MetadataEnc
/-! Helper lemmas for Props/C16.lean: little-endian fields, string packing, table look-ups. -/
open Meta MetaEnc

namespace MetaLemmas

theorem byte_toNat (n : Nat) : (byte n).toNat = n % 256 := by
  simp [byte]

theorem units16_flatMap_le16 (us : List Nat) (h : ∀ u ∈ us, u < 65536) : Biff.units16 (us.flatMap le16) = us := by
  induction us with
  | nil => rfl
  | cons u us ih =>
    have hu := h u (by simp)
    have := ih (fun v hv => h v (by simp [hv]))
    simp [List.flatMap_cons, le16, Biff.units16, byte_toNat, this]
    omega

theorem length_flatMap_le16 (us : List Nat) : (us.flatMap le16).length = 2 * us.length := by
  induction us with
  | nil => rfl
  | cons u us ih => simp [List.flatMap_cons, le16, ih]; omega

theorem map_byte_toNat (us : List Nat) (h : ∀ u ∈ us, u < 256) : (us.map byte).map (·.toNat) = us := by
  induction us with
  | nil => rfl
  | cons u us ih =>
    have hu := h u (by simp)
    have := ih (fun v hv => h v (by simp [hv]))
    simp [byte_toNat, this]
    omega

/-- `decode_to` gives back the units an encoder laid out, whatever follows them -/
theorem decodeTo_encUnits (us : List Nat) (wide : Bool) (rest : Bytes)
    (h : ∀ u ∈ us, u < (if wide then 65536 else 256)) :
    (Biff.decodeTo (encUnits wide us ++ rest) us.length wide).1 = us := by
  cases wide with
  | true =>
    have hl := length_flatMap_le16 us
    have : min ((us.flatMap le16 ++ rest).length / 2) us.length = us.length := by
      simp [hl]; omega
    simp only [Biff.decodeTo, encUnits, if_true, this]
    rw [List.take_left' (by simp [hl])]
    exact units16_flatMap_le16 us (by simpa using h)
  | false =>
    simp only [Biff.decodeTo, encUnits]
    simp
    have := map_byte_toNat us (by simpa using h)
    simpa [List.map_map] using this

theorem flagHigh_flag (wide : Bool) : Biff.flagHigh (if wide then 1 else 0) = wide := by
  cases wide <;> decide

theorem parseShortString_shortString (us : List Nat) (wide : Bool) (rest : Bytes) (hlen : us.length < 256)
    (h : ∀ u ∈ us, u < (if wide then 65536 else 256)) :
    Biff.parseShortString (shortString us wide ++ rest) true = .ok (Biff.decodeUtf16 us) := by
  unfold Biff.parseShortString shortString
  have h2 : ¬ ((byte us.length :: (if wide then (1 : UInt8) else 0) :: encUnits wide us ++ rest).length < 2) := by
    simp
  simp only [h2, if_false, if_true]
  simp only [List.cons_append, List.getD_cons_zero, List.drop_succ_cons, List.drop_zero, byte_toNat, flagHigh_flag]
  rw [Nat.mod_eq_of_lt hlen, decodeTo_encUnits us wide rest h]

theorem u16_le16 (n : Nat) (rest : Bytes) (h : n < 65536) : Biff.u16 (le16 n ++ rest) = n := by
  simp [Biff.u16, le16, byte_toNat]
  omega

theorem u32_le32 (n : Nat) (rest : Bytes) (h : n < 4294967296) : Biff.u32 (le32 n ++ rest) = n := by
  simp [Biff.u32, le32, byte_toNat]
  omega

theorem lookup_mem {α β : Type} [BEq α] [LawfulBEq α] : ∀ (l : List (α × β)) (a : α) (b : β), l.lookup a = some b → (a, b) ∈ l
  | [], _, _, h => by simp [List.lookup] at h
  | (k, v) :: es, a, b, h => by
    simp only [List.lookup] at h
    split at h
    · rename_i heq
      have : a = k := by simpa using heq
      simp at h; subst h; subst this; simp
    · exact List.mem_cons_of_mem _ (lookup_mem es a b h)

theorem xlsVis_lookup (vis : SheetVisible) (reserved : Nat) :
    Gen.xlsVisTable.lookup ((xlsVisCode vis + 64 * reserved) % 256 &&& Gen.xlsVisMask) = some vis := by
  have hm : ∀ x, x &&& Gen.xlsVisMask = x % 64 := fun x => by
    simpa [Gen.xlsVisMask] using Nat.and_two_pow_sub_one_eq_mod x 6
  rw [hm]
  have : (xlsVisCode vis + 64 * reserved) % 256 % 64 = xlsVisCode vis := by
    have : xlsVisCode vis < 3 := by cases vis <;> decide
    omega
  rw [this]
  cases vis <;> decide

theorem xlsKind_lookup (kind : SheetType) (dt : Nat) (h : xlsKindCode kind = some dt) :
    dt < 256 ∧ Gen.xlsKindTable.lookup dt = some kind := by
  cases kind <;> simp [xlsKindCode, codeOf, Gen.xlsKindTable] at h <;> subst h <;> decide

/-! ## xlsx `read_workbook` over events -/

theorem ridKey_ne (k : String) (h : ridKeyOk k) : k ≠ "name" ∧ k ≠ "state" := by
  constructor <;> (intro hk; subst hk; exact absurd h.1 (by decide))

theorem xlsxVis_lookup (v : SheetVisible) : Gen.xlsxVisTable.lookup (xlsxVisName v) = some v := by
  cases v <;> decide

theorem sheetAttrs_name (rels : List (String × String)) (v : String) (rest : List (String × String)) (acc : SheetAcc) :
    sheetAttrs rels (("name", v) :: rest) acc = sheetAttrs rels rest { acc with name := v } := by
  rw [sheetAttrs]; simp only [if_true]

theorem sheetAttrs_other (rels : List (String × String)) (k v : String) (rest : List (String × String)) (acc : SheetAcc)
    (h1 : k ≠ "name") (h2 : k ≠ "state") (h3 : ¬ ((afterColon k.toList).isSome = true ∧ localName k = "id")) :
    sheetAttrs rels ((k, v) :: rest) acc = sheetAttrs rels rest acc := by
  rw [sheetAttrs]; simp only [h1, h2, h3, if_false]

theorem sheetAttrs_state (rels : List (String × String)) (vis : SheetVisible) (rest : List (String × String)) (acc : SheetAcc) :
    sheetAttrs rels (("state", xlsxVisName vis) :: rest) acc = sheetAttrs rels rest { acc with visible := vis } := by
  rw [sheetAttrs]
  have : ("state" : String) ≠ "name" := by decide
  simp only [this, if_false, if_true, xlsxVis_lookup]

theorem sheetAttrs_rid (rels : List (String × String)) (k v t : String) (acc : SheetAcc)
    (hk : ridKeyOk k) (ht : rels.lookup v = some t) :
    sheetAttrs rels [(k, v)] acc = .ok { acc with path := xlsxPath t.toList } := by
  obtain ⟨hn, hst⟩ := ridKey_ne k hk
  rw [sheetAttrs]
  have hc : (afterColon k.toList).isSome = true ∧ localName k = "id" := hk
  simp only [hn, hst, hc, if_false, and_self, if_true, ht, sheetAttrs]

theorem xlsxSheet_attrs (rels : List (String × String)) (ridKey : String) (hk : ridKeyOk ridKey) (s : XSheet) (hs : s.ok rels) :
    xlsxSheet rels (sheetAttrList ridKey s) = .ok (xsheetDecoded s) := by
  obtain ⟨h1, h2, h3⟩ := hs
  unfold sheetAttrList
  have hsid : sheetAttrs rels (("sheetId", s.sheetId) :: ((if s.writeState then [("state", xlsxVisName s.vis)] else []) ++ [(ridKey, s.rid)])) { name := s.name }
      = .ok { name := s.name, path := xlsxPath s.target.toList, visible := s.vis } := by
    rw [sheetAttrs_other rels "sheetId" _ _ _ (by decide) (by decide) (by decide)]
    cases hw : s.writeState with
    | true =>
      simp only [if_true, List.cons_append, List.nil_append]
      rw [sheetAttrs_state, sheetAttrs_rid rels ridKey s.rid s.target _ hk h1]
    | false =>
      have hv := h3 hw
      simp only [Bool.false_eq_true, if_false, List.nil_append]
      rw [sheetAttrs_rid rels ridKey s.rid s.target _ hk h1, hv]
  unfold xlsxSheet
  simp only [List.cons_append, List.nil_append]
  rw [sheetAttrs_name]
  have : ({ name := s.name } : SheetAcc) = { ({} : SheetAcc) with name := s.name } := rfl
  rw [← this, hsid]
  simp only [h2, xsheetDecoded]

section steps
variable (pm : String → Bool) (rels : List (String × String))

theorem loop_start_sheet (n : String) (attrs : List (String × String)) (rest : List Ev)
    (sh : List (Sheet String × List Char)) (nm : List (String × String)) (d : Bool)
    (hn : localName n = "sheet") (s : Sheet String × List Char) (h : xlsxSheet rels attrs = .ok s) :
    xlsxLoopWith pm rels (.start n attrs :: rest) ⟨sh, nm, d, none⟩ = xlsxLoopWith pm rels rest ⟨sh ++ [s], nm, d, none⟩ := by
  rw [xlsxLoopWith]; simp only [hn, if_true, h]

theorem loop_start_skip (n : String) (attrs : List (String × String)) (rest : List Ev) (st : XlsxSt) (hc : st.cur = none)
    (h1 : localName n ≠ "sheet") (h2 : pm n = false) (h3 : localName n ≠ "definedName") :
    xlsxLoopWith pm rels (.start n attrs :: rest) st = xlsxLoopWith pm rels rest st := by
  obtain ⟨sh, nm, d, cur⟩ := st
  simp only at hc; subst hc
  rw [xlsxLoopWith]; simp only [h1, h2, h3, if_false, Bool.false_eq_true]

theorem loop_start_pr (n : String) (attrs : List (String × String)) (rest : List Ev)
    (sh : List (Sheet String × List Char)) (nm : List (String × String)) (d : Bool)
    (h1 : localName n ≠ "sheet") (h2 : pm n = true) :
    xlsxLoopWith pm rels (.start n attrs :: rest) ⟨sh, nm, d, none⟩ = xlsxLoopWith pm rels rest ⟨sh, nm, date1904Attr attrs, none⟩ := by
  rw [xlsxLoopWith]; simp only [h1, h2, if_false, if_true]

theorem loop_start_dn (n : String) (attrs : List (String × String)) (rest : List Ev)
    (sh : List (Sheet String × List Char)) (nm : List (String × String)) (d : Bool) (name : String)
    (h2 : pm n = false) (h3 : localName n = "definedName") (h : attrs.lookup "name" = some name) :
    xlsxLoopWith pm rels (.start n attrs :: rest) ⟨sh, nm, d, none⟩ = xlsxLoopWith pm rels rest ⟨sh, nm, d, some (name, n, "")⟩ := by
  have h1' : ¬ (("definedName" : String) = "sheet") := by decide
  rw [xlsxLoopWith]; simp only [h2, h3, h1', if_false, if_true, h, Bool.false_eq_true]

theorem loop_end_skip (n : String) (rest : List Ev) (st : XlsxSt) (hc : st.cur = none) (h : localName n ≠ "workbook") :
    xlsxLoopWith pm rels (.end_ n :: rest) st = xlsxLoopWith pm rels rest st := by
  obtain ⟨sh, nm, d, cur⟩ := st
  simp only at hc; subst hc
  rw [xlsxLoopWith]; simp only [h, if_false]

theorem loop_end_workbook (n : String) (rest : List Ev) (st : XlsxSt) (hc : st.cur = none) (h : localName n = "workbook") :
    xlsxLoopWith pm rels (.end_ n :: rest) st = .ok st := by
  obtain ⟨sh, nm, d, cur⟩ := st
  simp only at hc; subst hc
  rw [xlsxLoopWith]; simp only [h, if_true]

theorem loop_text_in (t : String) (rest : List Ev) (sh : List (Sheet String × List Char)) (nm : List (String × String)) (d : Bool)
    (name q val : String) :
    xlsxLoopWith pm rels (.text t :: rest) ⟨sh, nm, d, some (name, q, val)⟩ =
      xlsxLoopWith pm rels rest ⟨sh, nm, d, some (name, q, val ++ t)⟩ := by
  rw [xlsxLoopWith] <;> simp

theorem loop_end_in (rest : List Ev) (sh : List (Sheet String × List Char)) (nm : List (String × String)) (d : Bool)
    (name q val : String) :
    xlsxLoopWith pm rels (.end_ q :: rest) ⟨sh, nm, d, some (name, q, val)⟩ =
      xlsxLoopWith pm rels rest ⟨sh, nm ++ [(name, val)], d, none⟩ := by
  rw [xlsxLoopWith]; simp only [if_true]

end steps

theorem loop_sheets (pm : String → Bool) (rels : List (String × String)) (q : String → String) (hq : QOk q)
    (ridKey : String) (hk : ridKeyOk ridKey) :
    ∀ (sheets : List XSheet), (∀ s ∈ sheets, s.ok rels) → ∀ (rest : List Ev) (sh : List (Sheet String × List Char))
      (nm : List (String × String)) (d : Bool),
      xlsxLoopWith pm rels (sheets.flatMap (sheetEvents q ridKey) ++ rest) ⟨sh, nm, d, none⟩ =
      xlsxLoopWith pm rels rest ⟨sh ++ sheets.map xsheetDecoded, nm, d, none⟩ := by
  intro sheets
  induction sheets with
  | nil => intro _ rest sh nm d; simp
  | cons s ss ih =>
    intro hall rest sh nm d
    have hs := hall s (by simp)
    have hss : ∀ t ∈ ss, t.ok rels := fun t ht => hall t (by simp [ht])
    simp only [List.flatMap_cons, sheetEvents, List.cons_append, List.nil_append]
    rw [loop_start_sheet pm rels _ _ _ _ _ _ (hq "sheet") _ (xlsxSheet_attrs rels ridKey hk s hs)]
    rw [loop_end_skip pm rels _ _ _ rfl (by rw [hq "sheet"]; decide)]
    rw [ih hss]
    simp [List.append_assoc]

theorem loop_texts (pm : String → Bool) (rels : List (String × String)) :
    ∀ (chunks : List String) (rest : List Ev) (sh : List (Sheet String × List Char)) (nm : List (String × String)) (d : Bool)
      (name q val : String),
      xlsxLoopWith pm rels (chunks.map Ev.text ++ rest) ⟨sh, nm, d, some (name, q, val)⟩ =
      xlsxLoopWith pm rels rest ⟨sh, nm, d, some (name, q, chunks.foldl (· ++ ·) val)⟩ := by
  intro chunks
  induction chunks with
  | nil => intros; rfl
  | cons c cs ih =>
    intro rest sh nm d name q val
    simp only [List.map_cons, List.cons_append, List.foldl_cons]
    rw [loop_text_in, ih]

theorem loop_names (pm : String → Bool) (rels : List (String × String)) (q : String → String) (hq : QOk q)
    (hpm : pm (q "definedName") = false) :
    ∀ (names : List (String × List String)) (rest : List Ev) (sh : List (Sheet String × List Char))
      (nm : List (String × String)) (d : Bool),
      xlsxLoopWith pm rels (names.flatMap (definedNameEvents q) ++ rest) ⟨sh, nm, d, none⟩ =
      xlsxLoopWith pm rels rest ⟨sh, nm ++ names.map dnValue, d, none⟩ := by
  intro names
  induction names with
  | nil => intro rest sh nm d; simp
  | cons n ns ih =>
    intro rest sh nm d
    simp only [List.flatMap_cons, definedNameEvents, List.cons_append, List.nil_append, List.append_assoc]
    rw [loop_start_dn pm rels _ _ _ _ _ _ n.1 hpm (hq "definedName") (by simp [List.lookup])]
    rw [loop_texts, loop_end_in, ih]
    simp [List.append_assoc, dnValue]

def prMatchFixed : String → Bool := fun n => localName n == "workbookPr"

theorem pm_q (q : String → String) (hq : QOk q) (s : String) : prMatchFixed (q s) = (s == "workbookPr") := by
  simp [prMatchFixed, hq s]


/-! ## ods `parse_content` over events -/

section
theorem ods_top_start_skip (n : String) (attrs : List (String × String)) (rest : List Ev)
    (sh : List (Sheet String)) (nm : List (String × String)) (sty : List (String × SheetVisible)) (sn : Option String)
    (h1 : n ≠ "style:style") (h2 : n ≠ "style:table-properties") (h3 : n ≠ "table:table") (h4 : n ≠ "table:named-expressions") :
    odsLoop (.start n attrs :: rest) ⟨sh, nm, sty, sn, .top⟩ = odsLoop rest ⟨sh, nm, sty, sn, .top⟩ := by
  rw [odsLoop]; simp only [h1, h2, h3, h4, if_false, and_false]

theorem ods_top_end (n : String) (rest : List Ev) (sh : List (Sheet String)) (nm : List (String × String))
    (sty : List (String × SheetVisible)) (sn : Option String) :
    odsLoop (.end_ n :: rest) ⟨sh, nm, sty, sn, .top⟩ = odsLoop rest ⟨sh, nm, sty, sn, .top⟩ := by
  rw [odsLoop] <;> simp

theorem ods_style (st : String × Option Bool) (rest : List Ev) (sh : List (Sheet String)) (nm : List (String × String))
    (sty : List (String × SheetVisible)) (sn : Option String) :
    odsLoop (styleEvents st ++ rest) ⟨sh, nm, sty, sn, .top⟩ =
      odsLoop rest ⟨sh, nm, (st.1, styleVis st.2) :: sty, some st.1, .top⟩ := by
  obtain ⟨name, d⟩ := st
  simp only [styleEvents, List.cons_append, List.nil_append]
  rw [odsLoop]
  simp only [if_true]
  have hl : List.lookup "style:name" [("style:name", name), ("style:family", "table")] = some name := by simp [List.lookup]
  rw [hl, odsLoop]
  have hne : ("style:table-properties" : String) ≠ "style:style" := by decide
  simp only [hne, if_false, Option.isSome_some, and_self, if_true]
  cases d with
  | none =>
    simp only [List.lookup, Option.getD_some, styleVis]
    rw [ods_top_end, ods_top_end]
  | some b =>
    cases b with
    | true =>
      have : List.lookup "table:display" [("table:display", "true")] = some "true" := by simp [List.lookup]
      simp only [this, if_true, Option.getD_some, styleVis]
      rw [ods_top_end, ods_top_end]
    | false =>
      have : List.lookup "table:display" [("table:display", "false")] = some "false" := by simp [List.lookup]
      have hf : ("false" : String) ≠ "true" := by decide
      simp only [this, hf, if_false, if_true, Option.getD_some, styleVis]
      rw [ods_top_end, ods_top_end]
end

theorem ods_styles : ∀ (styles : List (String × Option Bool)) (rest : List Ev) (sh : List (Sheet String)) (nm : List (String × String))
    (sty : List (String × SheetVisible)) (sn : Option String),
    ∃ sn', odsLoop (styles.flatMap styleEvents ++ rest) ⟨sh, nm, sty, sn, .top⟩ =
      odsLoop rest ⟨sh, nm, styleTable styles ++ sty, sn', .top⟩ := by
  intro styles
  induction styles with
  | nil => intro rest sh nm sty sn; exact ⟨sn, by simp [styleTable]⟩
  | cons s ss ih =>
    intro rest sh nm sty sn
    obtain ⟨sn', h⟩ := ih rest sh nm ((s.1, styleVis s.2) :: sty) (some s.1)
    refine ⟨sn', ?_⟩
    simp only [List.flatMap_cons, List.append_assoc]
    rw [ods_style, h]
    simp [styleTable]

theorem ods_table_body : ∀ (body : List Ev), (∀ e ∈ body, e ≠ Ev.end_ "table:table") → ∀ (rest : List Ev) (sh : List (Sheet String))
    (nm : List (String × String)) (sty : List (String × SheetVisible)) (sn : Option String),
    odsLoop (body ++ rest) ⟨sh, nm, sty, sn, .table⟩ = odsLoop rest ⟨sh, nm, sty, sn, .table⟩ := by
  intro body
  induction body with
  | nil => intros; rfl
  | cons e es ih =>
    intro hb rest sh nm sty sn
    have he := hb e (by simp)
    have hes : ∀ x ∈ es, x ≠ Ev.end_ "table:table" := fun x hx => hb x (by simp [hx])
    simp only [List.cons_append]
    cases e with
    | end_ n =>
      have hn : n ≠ "table:table" := fun h => he (by rw [h])
      rw [odsLoop]; simp only [hn, if_false]; exact ih hes rest sh nm sty sn
    | start n a => rw [odsLoop] <;> first | exact ih hes rest sh nm sty sn | simp
    | text t => rw [odsLoop] <;> first | exact ih hes rest sh nm sty sn | simp
    | other => rw [odsLoop] <;> first | exact ih hes rest sh nm sty sn | simp

theorem ods_table (styles0 : List (String × Option Bool)) (t : OTable) (ht : t.ok) (rest : List Ev) (sh : List (Sheet String))
    (nm : List (String × String)) (sn : Option String) :
    odsLoop (tableEvents t ++ rest) ⟨sh, nm, styleTable styles0, sn, .top⟩ =
      odsLoop rest ⟨sh ++ [⟨t.name, .workSheet, tableVis styles0 t⟩], nm, styleTable styles0, sn, .top⟩ := by
  simp only [tableEvents, List.cons_append, List.append_assoc]
  rw [odsLoop]
  have h1 : ("table:table" : String) ≠ "style:style" := by decide
  have h2 : ("table:table" : String) ≠ "style:table-properties" := by decide
  simp only [h1, h2, if_false, and_false, if_true]
  cases hs : t.styleName with
  | none =>
    have hl : List.lookup "table:name" [("table:name", t.name)] = some t.name := by simp [List.lookup]
    have hl2 : List.lookup "table:style-name" [("table:name", t.name)] = none := by simp [List.lookup]
    simp only [List.nil_append, hl, hl2]
    rw [ods_table_body t.body ht]
    rw [odsLoop]; simp only [if_true, tableVis, hs]
  | some s =>
    have hl : List.lookup "table:name" [("table:style-name", s), ("table:name", t.name)] = some t.name := by simp [List.lookup]
    have hl2 : List.lookup "table:style-name" [("table:style-name", s), ("table:name", t.name)] = some s := by simp [List.lookup]
    simp only [List.cons_append, List.nil_append, hl, hl2]
    rw [ods_table_body t.body ht]
    rw [odsLoop]; simp only [if_true, tableVis, hs]

theorem ods_tables (styles0 : List (String × Option Bool)) : ∀ (tables : List OTable), (∀ t ∈ tables, t.ok) → ∀ (rest : List Ev)
    (sh : List (Sheet String)) (nm : List (String × String)) (sn : Option String),
    odsLoop (tables.flatMap tableEvents ++ rest) ⟨sh, nm, styleTable styles0, sn, .top⟩ =
      odsLoop rest ⟨sh ++ tables.map (fun t => ⟨t.name, .workSheet, tableVis styles0 t⟩), nm, styleTable styles0, sn, .top⟩ := by
  intro tables
  induction tables with
  | nil => intro _ rest sh nm sn; simp
  | cons t ts ih =>
    intro hall rest sh nm sn
    simp only [List.flatMap_cons, List.append_assoc]
    rw [ods_table styles0 t (hall t (by simp)), ih (fun x hx => hall x (by simp [hx]))]
    simp [List.append_assoc]

theorem ods_named : ∀ (names : List (String × String)) (rest : List Ev) (sh : List (Sheet String)) (nm : List (String × String))
    (sty : List (String × SheetVisible)) (sn : Option String) (acc : List (String × String)),
    odsLoop (names.flatMap namedRangeEvents ++ rest) ⟨sh, nm, sty, sn, .named acc⟩ =
      odsLoop rest ⟨sh, nm, sty, sn, .named (acc ++ names)⟩ := by
  intro names
  induction names with
  | nil => intros; simp
  | cons n ns ih =>
    intro rest sh nm sty sn acc
    obtain ⟨name, addr⟩ := n
    simp only [List.flatMap_cons, namedRangeEvents, List.cons_append, List.nil_append]
    rw [odsLoop]
    have h1 : isNamedElem "table:named-range" = true := by decide
    have ha : namedAttrs [("table:name", name), ("table:cell-range-address", addr)] ("", "") = (name, addr) := by
      simp [namedAttrs]
    simp only [h1, if_true, ha]
    rw [odsLoop]
    simp only [h1, if_true]
    rw [ih]
    simp [List.append_assoc]


end MetaLemmas
