import CalVerif.Model.De
/-! Helper lemmas for C09 (`Model/De.lean`): rows of a well-formed range, iteration of `next`,
    `mapMD`, `findIdx?`. -/
namespace De
open Range (Rng)

/-! ### rows of a range -/

theorem nChunks_mul' (k w : Nat) (hw : 0 < w) : Range.nChunks (k * w) w = k := by
  unfold Range.nChunks
  have : k * w + w - 1 = w * k + (w - 1) := by rw [Nat.mul_comm]; omega
  rw [this, Nat.mul_add_div hw, Nat.div_eq_of_lt (by omega)]; rfl

theorem chunksN_length {α : Type} (w : Nat) : ∀ (k : Nat) (l : List α), (Range.chunksN w k l).length = k
  | 0, _ => rfl
  | k + 1, l => by simp [Range.chunksN, chunksN_length w k]

theorem chunksN_getElem? {α : Type} (w : Nat) : ∀ (k : Nat) (l : List α) (j : Nat), j < k →
    (Range.chunksN w k l)[j]? = some ((l.drop (j * w)).take w)
  | 0, _, _, h => by omega
  | k + 1, l, 0, _ => by simp [Range.chunksN]
  | k + 1, l, j + 1, h => by
    simp only [Range.chunksN, List.getElem?_cons_succ]
    rw [chunksN_getElem? w k (l.drop w) j (by omega), List.drop_drop]
    congr 3
    rw [Nat.add_mul]; omega

/-- a range whose coordinates are `u32` values and which satisfies the rectangle invariant of C05 -/
structure WF (r : Rng Data) : Prop where
  inv : Range.Inv r
  er : r.er < U32
  ec : r.ec < U32

theorem rows_length {r : Rng Data} (h : Range.Inv r) : (Range.rows r).length = r.height := by
  unfold Range.rows
  by_cases h0 : r.inner.length = 0
  · simp [h0, Rng.height]
  · simp only [h0, if_false]
    rw [chunksN_length, h.len]
    have hw : 0 < r.width := by
      rcases Nat.eq_zero_or_pos r.width with hz | hp
      · exfalso; apply h0; rw [h.len, hz, Nat.mul_zero]
      · exact hp
    exact nChunks_mul' _ _ hw

theorem width_pos {r : Rng Data} (h : Range.Inv r) (h0 : r.inner.length ≠ 0) : 0 < r.width := by
  rcases Nat.eq_zero_or_pos r.width with hz | hp
  · exfalso; apply h0; rw [h.len, hz, Nat.mul_zero]
  · exact hp

/-- row `j` of a well-formed range is the `j`-th slice of width `width` -/
theorem rows_getElem? {r : Rng Data} (h : Range.Inv r) (j : Nat) (hj : j < r.height) :
    (Range.rows r)[j]? = some ((r.inner.drop (j * r.width)).take r.width) := by
  have h0 : r.inner.length ≠ 0 := by
    intro hz; simp [Rng.height, hz] at hj
  unfold Range.rows
  simp only [h0, if_false]
  apply chunksN_getElem?
  rw [h.len, nChunks_mul' _ _ (width_pos h h0)]; exact hj

theorem row_length {r : Rng Data} (h : Range.Inv r) (j : Nat) (row : List Data)
    (hr : (Range.rows r)[j]? = some row) : row.length = r.width := by
  have hj : j < r.height := by
    rw [← rows_length h]
    exact (List.getElem?_eq_some_iff.mp hr).1
  rw [rows_getElem? h j hj] at hr
  injection hr with hr; subst hr
  rw [List.length_take, List.length_drop, h.len]
  have : (j + 1) * r.width ≤ r.height * r.width := Nat.mul_le_mul_right _ hj
  rw [Nat.add_mul] at this
  omega

/-- the cell at relative `(j, i)` -/
theorem row_getElem? {r : Rng Data} (h : Range.Inv r) (j i : Nat) (row : List Data)
    (hr : (Range.rows r)[j]? = some row) (hi : i < r.width) : row[i]? = r.inner[j * r.width + i]? := by
  have hj : j < r.height := by
    rw [← rows_length h]
    exact (List.getElem?_eq_some_iff.mp hr).1
  rw [rows_getElem? h j hj] at hr
  injection hr with hr; subst hr
  rw [List.getElem?_take, if_pos hi, List.getElem?_drop]

/-! ### iteration -/

theorem next_rows (st : DeState) (sh : Shape) : (next st sh).2.rows = st.rows.drop 1 := by
  unfold next; split <;> simp_all

theorem next_static (st : DeState) (sh : Shape) :
    (next st sh).2.colIdx = st.colIdx ∧ (next st sh).2.headers = st.headers ∧ (next st sh).2.cur.2 = st.cur.2 := by
  unfold next; split <;> simp_all [nextRowPos]

theorem nextN_rows (sh : Shape) : ∀ (k : Nat) (st : DeState), (nextN sh k st).rows = st.rows.drop k
  | 0, st => by simp [nextN]
  | k + 1, st => by
    rw [nextN, nextN_rows sh k, next_rows, List.drop_drop]; congr 1; omega

/-- the item of the `j`-th remaining row -/
def itemAt (st : DeState) (sh : Shape) (j : Nat) : Option Item :=
  (st.rows[j]?).map fun row => rowItem st.colIdx st.headers row (st.cur.1 + j, st.cur.2) sh

theorem items_eq (sh : Shape) : ∀ (k : Nat) (st : DeState), st.cur.1 + st.rows.length ≤ U32 →
    items sh k st = (List.range k).map (itemAt st sh)
  | 0, _, _ => by simp [items]
  | k + 1, st, hb => by
    rw [items, List.range_succ_eq_map, List.map_cons, List.map_map]
    cases hr : st.rows with
    | nil =>
      have hn : next st sh = (none, st) := by unfold next; simp [hr]
      rw [hn]
      rw [items_eq sh k st hb]
      congr 1
      · simp [itemAt, hr]
      · apply List.map_congr_left; intro j _; simp [itemAt, hr]
    | cons row rest =>
      have hn : next st sh = (some (rowItem st.colIdx st.headers row st.cur sh),
          { st with rows := rest, cur := nextRowPos st.cur }) := by unfold next; simp [hr]
      rw [hn]
      have hlen : st.rows.length = rest.length + 1 := by rw [hr]; rfl
      have hb' : ({ st with rows := rest, cur := nextRowPos st.cur } : DeState).cur.1 +
          ({ st with rows := rest, cur := nextRowPos st.cur } : DeState).rows.length ≤ U32 := by
        simp only [nextRowPos]; unfold U32 at *; omega
      rw [items_eq sh k _ hb']
      congr 1
      · simp [itemAt, hr]
      · apply List.map_congr_left; intro j _
        simp only [itemAt, Function.comp, hr, List.getElem?_cons_succ]
        cases hj : rest[j]? with
        | none => rfl
        | some rw_ =>
          have : j < rest.length := (List.getElem?_eq_some_iff.mp hj).1
          simp only [Option.map_some, nextRowPos]
          have e : min (st.cur.1 + 1) (U32 - 1) + j = st.cur.1 + (j + 1) := by unfold U32 at *; omega
          rw [e]

/-! ### `mapMD` -/

theorem mapMD_ok_of_forall {α β : Type} (f : α → DRes β) (g : α → β) :
    ∀ (l : List α), (∀ a ∈ l, f a = .ok (g a)) → mapMD f l = .ok (l.map g)
  | [], _ => rfl
  | a :: rest, h => by
    have h1 := h a (List.mem_cons_self)
    have h2 := mapMD_ok_of_forall f g rest (fun x hx => h x (List.mem_cons_of_mem _ hx))
    simp [mapMD, h1, h2]

theorem mapMD_first_err {α β : Type} (f : α → DRes β) (g : α → β) (e : DeErr) :
    ∀ (pre : List α) (a : α) (post : List α), (∀ p ∈ pre, f p = .ok (g p)) → f a = .err e →
      mapMD f (pre ++ a :: post) = .err e
  | [], a, post, _, ha => by simp [mapMD, ha]
  | p :: pre, a, post, h, ha => by
    have h1 := h p (List.mem_cons_self)
    have h2 := mapMD_first_err f g e pre a post (fun q hq => h q (List.mem_cons_of_mem _ hq)) ha
    simp only [List.cons_append, mapMD, h1, h2]

theorem mapMD_ok_length {α β : Type} (f : α → DRes β) : ∀ (l : List α) (bs : List β), mapMD f l = .ok bs →
    bs.length = l.length
  | [], bs, h => by simp [mapMD] at h; subst h; rfl
  | a :: rest, bs, h => by
    simp only [mapMD] at h
    cases ha : f a with
    | ok b =>
      simp only [ha] at h
      cases hr : mapMD f rest with
      | ok bs' =>
        simp only [hr] at h; injection h with h; subst h
        simp [mapMD_ok_length f rest bs' hr]
      | err e => simp [hr] at h
      | panic s => simp [hr] at h
    | err e => simp [ha] at h
    | panic s => simp [ha] at h

theorem mapMD_ok_getElem {α β : Type} (f : α → DRes β) : ∀ (l : List α) (bs : List β), mapMD f l = .ok bs →
    ∀ (k : Nat) (a : α), l[k]? = some a → ∃ b, bs[k]? = some b ∧ f a = .ok b
  | [], _, _, k, a, hk => by simp at hk
  | x :: rest, bs, h, k, a, hk => by
    simp only [mapMD] at h
    cases hx : f x with
    | ok b =>
      simp only [hx] at h
      cases hr : mapMD f rest with
      | ok bs' =>
        simp only [hr] at h; injection h with h; subst h
        cases k with
        | zero => simp at hk; subst hk; exact ⟨b, by simp, hx⟩
        | succ k =>
          simp only [List.getElem?_cons_succ] at hk ⊢
          exact mapMD_ok_getElem f rest bs' hr k a hk
      | err e => simp [hr] at h
      | panic s => simp [hr] at h
    | err e => simp [hx] at h
    | panic s => simp [hx] at h

/-- pointwise success gives success of the whole, with the pointwise results -/
theorem mapMD_ok_of_pointwise {α β : Type} (f : α → DRes β) : ∀ (l : List α) (bs : List β),
    bs.length = l.length → (∀ (k : Nat) (a : α), l[k]? = some a → ∃ b, bs[k]? = some b ∧ f a = .ok b) →
    mapMD f l = .ok bs
  | [], bs, hl, _ => by
    have : bs = [] := List.length_eq_zero_iff.mp (by simpa using hl)
    subst this; rfl
  | x :: rest, bs, hl, h => by
    cases bs with
    | nil => simp at hl
    | cons b bs' =>
      obtain ⟨b0, hb0, hf⟩ := h 0 x (by simp)
      simp at hb0; subst hb0
      have hr := mapMD_ok_of_pointwise f rest bs' (by simpa using hl)
        (fun k a hk => by simpa using h (k + 1) a (by simpa using hk))
      simp [mapMD, hf, hr]

/-! ### positions -/

theorem cellPos_eq (pos : Pos) (i : Nat) (h : pos.2 + i < U32) : cellPos pos i = (pos.1, pos.2 + i) := by
  unfold cellPos
  have hi : i % U32 = i := Nat.mod_eq_of_lt (by omega)
  rw [hi]; congr 1; omega

/-- with every index in bounds the sequence events are just the selected cells with their positions -/
theorem seqEvents_eq (colIdx : List Nat) (row : List Data) (pos : Pos) (h : ∀ i ∈ colIdx, i < row.length) :
    seqEvents colIdx row pos = colIdx.map fun i => .ok (row.getD i default, cellPos pos i) := by
  unfold seqEvents
  apply List.map_congr_left
  intro i hi
  have := h i hi
  simp [List.getD, List.getElem?_eq_getElem this]

theorem seqEvents_range (row : List Data) (pos : Pos) :
    seqEvents (List.range row.length) row pos = row.zipIdx.map fun p => .ok (p.1, cellPos pos p.2) := by
  rw [seqEvents_eq _ _ _ (fun i hi => List.mem_range.mp hi)]
  apply List.ext_getElem?
  intro k
  simp only [List.getElem?_map, List.getElem?_zipIdx]
  by_cases hk : k < row.length
  · simp [List.getElem?_range hk, List.getElem?_eq_getElem hk, List.getD]
  · have : row[k]? = none := List.getElem?_eq_none (by omega)
    simp [this, List.getElem?_eq_none (l := List.range row.length) (by simpa using Nat.le_of_not_lt hk)]

/-! ### the header row -/

/-- text of a non-error cell (`deserialize_str`) -/
def textOf (std : Std) : Data → Str
  | .string s => s
  | .empty => []
  | .float b => std.fmtF64 b
  | .int v => intToStr v
  | .bool b => boolToStr b
  | .dateTime b => std.fmtF64 b
  | .dateTimeIso s => s
  | .durationIso s => s
  | .error _ => []

def Data.isError : Data → Bool
  | .error _ => true
  | _ => false

theorem strOf_ok (std : Std) (d : Data) (pos : Pos) (h : d.isError = false) : strOf std d pos = .ok (textOf std d) := by
  cases d <;> simp_all [strOf, textOf, Data.isError]

theorem strOf_error (std : Std) (k : Nat) (pos : Pos) : strOf std (.error k) pos = .err (.cellError k pos) := rfl

theorem headerRow_eq (std : Std) (row : List Data) (pos : Pos) :
    headerRow std row pos = mapMD (fun p : Data × Nat => strOf std p.1 (cellPos pos p.2)) row.zipIdx := by
  unfold headerRow
  rw [seqEvents_range]
  generalize row.zipIdx = l
  induction l with
  | nil => rfl
  | cons a rest ih => simp only [List.map_cons, mapMD, ih]

theorem headerRow_ok (std : Std) (row : List Data) (pos : Pos) (h : ∀ d ∈ row, d.isError = false) :
    headerRow std row pos = .ok (row.map (textOf std)) := by
  rw [headerRow_eq, mapMD_ok_of_forall _ (fun p => textOf std p.1)]
  · congr 1
    have h1 : row.zipIdx.map Prod.fst = row := by simp
    calc List.map (fun p : Data × Nat => textOf std p.1) row.zipIdx
        = (row.zipIdx.map Prod.fst).map (textOf std) := by rw [List.map_map]; rfl
      _ = row.map (textOf std) := by rw [h1]
  · intro p hp
    exact strOf_ok std p.1 _ (h p.1 (by
      have := List.mem_map_of_mem (f := Prod.fst) hp
      simpa using this))

/-! ### `new` -/

/-- number of rows consumed as header row -/
def hdrRows (cfg : Headers) (r : Rng Data) : Nat :=
  match cfg with
  | .none => 0
  | _ => min 1 r.height

theorem start_eq {r : Rng Data} (h0 : r.inner.length ≠ 0) : r.start = some (r.sr, r.sc) := by
  simp [Rng.start, h0]

theorem height_eq {r : Rng Data} (h0 : r.inner.length ≠ 0) : r.height = r.er - r.sr + 1 := by
  simp [Rng.height, h0]

theorem width_eq {r : Rng Data} (h0 : r.inner.length ≠ 0) : r.width = r.ec - r.sc + 1 := by
  simp [Rng.width, h0]

theorem rows_nil_of_empty {r : Rng Data} (h0 : r.inner.length = 0) : Range.rows r = [] := by
  simp [Range.rows, h0]

/-- what `new` leaves in the iterator: the rows after the header row, positioned at their absolute row -/
theorem new_state {std : Std} {cfg : Headers} {r : Rng Data} {st : DeState} (hw : WF r)
    (h : new std cfg r = .ok st) :
    st.rows = (Range.rows r).drop (hdrRows cfg r) ∧
    (st.rows ≠ [] → st.cur = (r.sr + hdrRows cfg r, r.sc)) ∧
    st.cur.1 + st.rows.length ≤ U32 := by
  have hlen := rows_length hw.inv
  by_cases h0 : r.inner.length = 0
  · -- empty range: no rows whatever the configuration
    have hr := rows_nil_of_empty h0
    have hs : r.start = none := by simp [Rng.start, h0]
    have : st.rows = [] ∧ st.cur = (0, 0) := by
      unfold new at h
      simp only [hr, hs, Option.getD_none] at h
      cases cfg <;> simp at h <;> subst h <;> exact ⟨rfl, rfl⟩
    rw [this.1, this.2, hr]
    simp [U32]
  · have hs := start_eq h0
    have hh := height_eq h0
    have ho := hw.inv.ord h0
    have her := hw.er
    unfold new at h
    simp only [hs, Option.getD_some] at h
    cases cfg with
    | none =>
      simp at h; subst h
      refine ⟨by simp [hdrRows], fun _ => by simp [hdrRows], ?_⟩
      simp only [hlen, hh]; omega
    | all =>
      cases hr : Range.rows r with
      | nil => rw [hr] at hlen; simp at hlen; omega
      | cons row rest =>
        have hl : rest.length + 1 = r.height := by rw [← hlen, hr]; rfl
        simp only [hr] at h
        cases hh2 : headerRow std row (r.sr, r.sc) with
        | ok hs2 =>
          simp only [hh2] at h; injection h with h; subst h
          have hd : hdrRows .all r = 1 := by simp [hdrRows]; omega
          refine ⟨by simp [hd], fun hne => ?_, ?_⟩
          · have : 0 < rest.length := List.length_pos_iff.mpr hne
            simp only [nextRowPos, hd]; congr 1; unfold U32 at *; omega
          · simp only [nextRowPos]; unfold U32 at *; omega
        | err e => simp [hh2] at h
        | panic s => simp [hh2] at h
    | custom names =>
      cases hr : Range.rows r with
      | nil => rw [hr] at hlen; simp at hlen; omega
      | cons row rest =>
        have hl : rest.length + 1 = r.height := by rw [← hlen, hr]; rfl
        simp only [hr] at h
        cases hh2 : headerRow std row (r.sr, r.sc) with
        | ok hs2 =>
          simp only [hh2] at h
          cases hc : customIdx hs2 names with
          | ok idx =>
            simp only [hc] at h; injection h with h; subst h
            have hd : hdrRows (.custom names) r = 1 := by simp [hdrRows]; omega
            refine ⟨by simp [hd], fun hne => ?_, ?_⟩
            · have : 0 < rest.length := List.length_pos_iff.mpr hne
              simp only [nextRowPos, hd]; congr 1; unfold U32 at *; omega
            · simp only [nextRowPos]; unfold U32 at *; omega
          | err e => simp [hc] at h
          | panic s => simp [hc] at h
        | err e => simp [hh2] at h
        | panic s => simp [hh2] at h

/-! ### more on the header row and the map events -/

theorem strOf_eq_ok {std : Std} {d : Data} {pos : Pos} {s : Str} (h : strOf std d pos = .ok s) :
    s = textOf std d ∧ d.isError = false := by
  cases d <;> simp_all [strOf, textOf, Data.isError]

theorem headerRow_eq_ok {std : Std} {row : List Data} {pos : Pos} {hs : List Str}
    (h : headerRow std row pos = .ok hs) : hs = row.map (textOf std) ∧ ∀ d ∈ row, d.isError = false := by
  rw [headerRow_eq] at h
  have hlen := mapMD_ok_length _ _ _ h
  have hget := mapMD_ok_getElem _ _ _ h
  constructor
  · apply List.ext_getElem?
    intro k
    by_cases hk : k < row.length
    · have hz : row.zipIdx[k]? = some (row[k], k) := by simp [List.getElem?_zipIdx, List.getElem?_eq_getElem hk]
      obtain ⟨b, hb, hf⟩ := hget k _ hz
      rw [hb, (strOf_eq_ok hf).1]
      simp [List.getElem?_eq_getElem hk]
    · have h1 : hs.length ≤ k := by rw [hlen]; simp; omega
      rw [List.getElem?_eq_none h1, List.getElem?_eq_none (by simpa using Nat.le_of_not_lt hk)]
  · intro d hd
    obtain ⟨k, hk, rfl⟩ := List.getElem_of_mem hd
    have hz : row.zipIdx[k]? = some (row[k], k) := by simp [List.getElem?_zipIdx, List.getElem?_eq_getElem hk]
    obtain ⟨b, _, hf⟩ := hget k _ hz
    exact (strOf_eq_ok hf).2

theorem filterMap_congr_mem {α β : Type} {f g : α → Option β} : ∀ (l : List α), (∀ a ∈ l, f a = g a) →
    l.filterMap f = l.filterMap g
  | [], _ => rfl
  | a :: rest, h => by
    have h1 := h a List.mem_cons_self
    have h2 := filterMap_congr_mem rest (fun x hx => h x (List.mem_cons_of_mem _ hx))
    simp only [List.filterMap_cons, h1, h2]

theorem range_eq_zipIdx_snd {α : Type} (l : List α) : List.range l.length = l.zipIdx.map Prod.snd := by
  rw [List.zipIdx_map_snd, List.range_eq_range']

/-- with all columns selected and a header per column, the map events are the non-empty cells of the
    row, each with the header string of its column and its absolute position -/
theorem mapEvents_range (hs : List Str) (row : List Data) (pos : Pos) (hl : hs.length = row.length) :
    mapEvents hs (List.range row.length) row pos =
      row.zipIdx.filterMap fun p =>
        if p.1.isEmpty then none else some (.ok (hs.getD p.2 [], p.1, cellPos pos p.2)) := by
  unfold mapEvents
  rw [range_eq_zipIdx_snd, List.filterMap_map]
  apply filterMap_congr_mem
  intro p hp
  obtain ⟨d, i⟩ := p
  have hm := List.mem_zipIdx hp
  have hi : i < row.length := by omega
  have hd : row[i]? = some d := by
    rw [List.getElem?_eq_getElem hi]; simp [hm.2.2]
  have hh : hs[i]? = some (hs.getD i []) := by
    have : i < hs.length := by omega
    simp [List.getD, List.getElem?_eq_getElem this]
  simp only [Function.comp, hd, hh]

/-! ### `new`, unfolded per configuration -/

theorem new_none_eq (std : Std) (r : Rng Data) :
    new std .none r = .ok ⟨List.range r.width, none, Range.rows r, r.start.getD (0, 0)⟩ := rfl

theorem new_all_eq (std : Std) {r : Rng Data} {hd : List Data} {rest : List (List Data)}
    (h0 : r.inner.length ≠ 0) (hr : Range.rows r = hd :: rest) :
    new std .all r = (match headerRow std hd (r.sr, r.sc) with
      | .ok hs => .ok ⟨List.range hd.length, some hs, rest, nextRowPos (r.sr, r.sc)⟩
      | .err e => .err e
      | .panic s => .panic s) := by
  unfold new
  simp only [hr, start_eq h0, Option.getD_some]
  cases headerRow std hd (r.sr, r.sc) <;> rfl

theorem new_custom_eq (std : Std) (names : List Str) {r : Rng Data} {hd : List Data} {rest : List (List Data)}
    (h0 : r.inner.length ≠ 0) (hr : Range.rows r = hd :: rest) :
    new std (.custom names) r = (match headerRow std hd (r.sr, r.sc) with
      | .ok hs => (match customIdx hs names with
        | .ok idx => .ok ⟨idx, some hs, rest, nextRowPos (r.sr, r.sc)⟩
        | .err e => .err e
        | .panic s => .panic s)
      | .err e => .err e
      | .panic s => .panic s) := by
  unfold new
  simp only [hr, start_eq h0, Option.getD_some]
  cases headerRow std hd (r.sr, r.sc) with
  | ok hs => simp only; cases customIdx hs names <;> rfl
  | err e => rfl
  | panic s => rfl

theorem nonempty_of_rows {r : Rng Data} {hd : List Data} {rest : List (List Data)}
    (hr : Range.rows r = hd :: rest) : r.inner.length ≠ 0 := by
  intro h0; rw [rows_nil_of_empty h0] at hr; cases hr

/-! ### the recording visitor -/

theorem recordSeq_append_fail (std : Std) (sched : List Target) :
    ∀ (pre : List (DRes (Data × Pos))) (i : Nat) (rest : List (DRes (Data × Pos))),
      (recordSeq std sched i pre).2 = none →
      (recordSeq std sched i (pre ++ rest)).2 = (recordSeq std sched (i + pre.length) rest).2
  | [], i, rest, _ => by simp
  | ev :: pre, i, rest, h => by
    cases ev with
    | ok dp =>
      obtain ⟨d, p⟩ := dp
      simp only [List.cons_append, recordSeq] at h ⊢
      cases hv : visitCell std d p (nthTarget sched i) with
      | ok vs =>
        simp only [hv] at h ⊢
        have := recordSeq_append_fail std sched pre (i + 1) rest h
        simp only [this, List.length_cons]
        congr 2; omega
      | err e => simp [hv] at h
      | panic s => simp [hv] at h
    | err e => simp [recordSeq] at h
    | panic s => simp [recordSeq] at h

/-- `new`'s selected columns and headers depend only on the configuration, the first row, the width and
    the start corner -/
theorem new_static_congr {std : Std} {cfg : Headers} {r1 r2 : Rng Data} {st1 st2 : DeState}
    (h1 : new std cfg r1 = .ok st1) (h2 : new std cfg r2 = .ok st2)
    (hhd : (Range.rows r1)[0]? = (Range.rows r2)[0]?) (hwd : r1.width = r2.width)
    (hst : r1.start = r2.start) : st1.colIdx = st2.colIdx ∧ st1.headers = st2.headers := by
  unfold new at h1 h2
  rw [hst] at h1
  cases cfg with
  | none =>
    simp at h1 h2; subst h1; subst h2; exact ⟨by simp [hwd], rfl⟩
  | all =>
    cases hr1 : Range.rows r1 with
    | nil =>
      cases hr2 : Range.rows r2 with
      | nil => simp [hr1, hr2] at h1 h2; subst h1; subst h2; exact ⟨rfl, rfl⟩
      | cons hd2 rest2 => rw [hr1, hr2] at hhd; simp at hhd
    | cons hd1 rest1 =>
      cases hr2 : Range.rows r2 with
      | nil => rw [hr1, hr2] at hhd; simp at hhd
      | cons hd2 rest2 =>
        rw [hr1, hr2] at hhd
        have : hd1 = hd2 := by simpa using hhd
        subst this
        simp only [hr1] at h1
        simp only [hr2] at h2
        cases hh : headerRow std hd1 (r2.start.getD (0, 0)) with
        | ok hs =>
          simp only [hh] at h1 h2
          injection h1 with h1; injection h2 with h2; subst h1; subst h2; exact ⟨rfl, rfl⟩
        | err e => simp [hh] at h1
        | panic s => simp [hh] at h1
  | custom names =>
    cases hr1 : Range.rows r1 with
    | nil =>
      cases hr2 : Range.rows r2 with
      | nil => simp [hr1, hr2] at h1 h2; subst h1; subst h2; exact ⟨rfl, rfl⟩
      | cons hd2 rest2 => rw [hr1, hr2] at hhd; simp at hhd
    | cons hd1 rest1 =>
      cases hr2 : Range.rows r2 with
      | nil => rw [hr1, hr2] at hhd; simp at hhd
      | cons hd2 rest2 =>
        rw [hr1, hr2] at hhd
        have : hd1 = hd2 := by simpa using hhd
        subst this
        simp only [hr1] at h1
        simp only [hr2] at h2
        cases hh : headerRow std hd1 (r2.start.getD (0, 0)) with
        | ok hs =>
          simp only [hh] at h1 h2
          cases hc : customIdx hs names with
          | ok idx =>
            simp only [hc] at h1 h2
            injection h1 with h1; injection h2 with h2; subst h1; subst h2; exact ⟨rfl, rfl⟩
          | err e => simp [hc] at h1
          | panic s => simp [hc] at h1
        | err e => simp [hh] at h1
        | panic s => simp [hh] at h1

/-! ### the (key, cell) pairs of a map item -/

/-- key and cell of a map event -/
def evKV : DRes (Str × Data × Pos) → Option (Str × Data)
  | .ok (k, d, _) => some (k, d)
  | _ => none

/-- the non-empty cells of a row, each with the header of its column -/
def kvPairs (hs : List Str) (row : List Data) : List (Str × Data) :=
  (hs.zip row).filter fun p => !p.2.isEmpty

theorem kv_aux (f : Nat → Pos) : ∀ (row : List Data) (hs pre : List Str), hs.length = row.length →
    (row.zipIdx pre.length).filterMap (fun p =>
      (if p.1.isEmpty then none
       else some (DRes.ok ((pre ++ hs).getD p.2 [], p.1, f p.2))).bind evKV) = kvPairs hs row
  | [], hs, pre, hl => by
    have : hs = [] := List.length_eq_zero_iff.mp (by simpa using hl)
    subst this; rfl
  | d :: row, hs, pre, hl => by
    cases hs with
    | nil => simp at hl
    | cons h hs' =>
      have ih := kv_aux f row hs' (pre ++ [h]) (by simpa using hl)
      simp only [List.length_append, List.length_cons, List.length_nil, Nat.zero_add,
        List.append_assoc, List.cons_append, List.nil_append] at ih
      have hg : (pre ++ h :: hs').getD pre.length [] = h := by
        simp [List.getD]
      simp only [List.zipIdx_cons, List.filterMap_cons, hg, kvPairs, List.zip_cons_cons, List.filter_cons]
      cases hd : d.isEmpty with
      | true => simpa [kvPairs] using ih
      | false => simpa [kvPairs, evKV] using ih

theorem mapEvents_kv (hs : List Str) (row : List Data) (pos : Pos) (hl : hs.length = row.length) :
    (mapEvents hs (List.range row.length) row pos).filterMap evKV = kvPairs hs row := by
  rw [mapEvents_range hs row pos hl, List.filterMap_filterMap]
  exact kv_aux (cellPos pos) row hs [] hl

theorem zip_eq_range_map (hs : List Str) (row : List Data) (hl : hs.length = row.length) :
    hs.zip row = (List.range row.length).map fun i => (hs.getD i [], row.getD i .empty) := by
  apply List.ext_getElem?
  intro k
  by_cases hk : k < row.length
  · have hk' : k < hs.length := by omega
    rw [List.getElem?_map, List.getElem?_range hk]
    simp only [Option.map_some]
    apply List.getElem?_zip_eq_some.mpr
    simp [List.getD, List.getElem?_eq_getElem hk, List.getElem?_eq_getElem hk']
  · rw [List.getElem?_eq_none (by simp; omega), List.getElem?_eq_none (by simp; omega)]

/-! ### decimal strings -/


theorem digitVal_digitChar : ∀ d, d < 10 → digitVal (Nat.digitChar d) = some d := by decide

theorem parseDigits_append (l : Str) (c : Char) : ∀ acc, parseDigits (l ++ [c]) acc =
    (parseDigits l acc).bind fun a => (digitVal c).map fun d => a * 10 + d := by
  induction l with
  | nil => intro acc; simp [parseDigits]; cases digitVal c <;> simp [parseDigits]
  | cons x xs ih =>
    intro acc
    simp only [List.cons_append, parseDigits]
    cases digitVal x with
    | none => simp
    | some d => simp [ih]

theorem parseDigits_toDigits (n : Nat) : parseDigits (Nat.toDigits 10 n) 0 = some n := by
  induction n using Nat.strongRecOn with
  | _ n ih =>
    rw [Nat.toDigits_eq_if (by decide)]
    split
    · rename_i h
      simp [parseDigits, digitVal_digitChar n h]
    · rename_i h
      rw [parseDigits_append, ih (n / 10) (by omega)]
      simp [digitVal_digitChar (n % 10) (by omega)]
      omega


theorem digit_ne_sign {c : Char} (h : c.isDigit = true) : c ≠ '+' ∧ c ≠ '-' := by
  constructor <;> (intro hc; subst hc; simp [Char.isDigit] at h)

theorem parseInt_intToStr (signed : Bool) (lo hi v : Int) (hlo : lo ≤ v) (hhi : v ≤ hi)
    (hs : v < 0 → signed = true) : parseInt signed lo hi (intToStr v) = some v := by
  have hpd := parseDigits_toDigits v.natAbs
  have hdig : ∀ c ∈ Nat.toDigits 10 v.natAbs, c ≠ '+' ∧ c ≠ '-' := fun c hc =>
    digit_ne_sign (Nat.isDigit_of_mem_toDigits (by decide) (by decide) hc)
  have hne : Nat.toDigits 10 v.natAbs ≠ [] := Nat.toDigits_ne_nil
  unfold intToStr
  by_cases hv : v < 0
  · simp only [hv, if_true]
    cases hds : Nat.toDigits 10 v.natAbs with
    | nil => exact absurd hds hne
    | cons d rest =>
      rw [hds] at hpd
      have hsg := hs hv
      simp only [parseInt, hsg, and_true, or_true, if_true, hpd]
      have : -(v.natAbs : Int) = v := by omega
      simp [this, hlo, hhi]
  · simp only [hv, if_false]
    have hv' : (v.natAbs : Int) = v := by omega
    cases hds : Nat.toDigits 10 v.natAbs with
    | nil => exact absurd hds hne
    | cons d rest =>
      rw [hds] at hpd hdig
      have hd := hdig d List.mem_cons_self
      cases rest with
      | nil =>
        simp only [parseInt, hd.1, hd.2, or_self, if_false, hpd, hv']
        simp [hlo, hhi]
      | cons d2 rest2 =>
        simp only [parseInt, hd.1, hd.2, false_and, or_self, if_false, hpd, hv']
        simp [hlo, hhi]

/-! ### `nth` -/

theorem nextN_succ' (sh : Shape) : ∀ (k : Nat) (st : DeState), nextN sh (k + 1) st = (next (nextN sh k st) sh).2
  | 0, _ => rfl
  | k + 1, st => by rw [nextN, nextN_succ' sh k]; rfl

theorem nth_eq (sh : Shape) : ∀ (n : Nat) (st : DeState), nth st sh n = next (nextN sh n st) sh
  | 0, _ => rfl
  | n + 1, st => by rw [nth, nth_eq sh n]; rfl

theorem items_getElem? (sh : Shape) : ∀ (k : Nat) (st : DeState) (j : Nat), j < k →
    (items sh k st)[j]? = some (next (nextN sh j st) sh).1
  | 0, _, _, h => by omega
  | k + 1, st, 0, _ => by simp [items, nextN]
  | k + 1, st, j + 1, h => by
    simp only [items, List.getElem?_cons_succ]
    rw [items_getElem? sh k _ j (by omega)]; rfl

end De
