import CalVerif.Model.Ovba
/-! Lemmas for properties C18 / C06: after the robustness fixes the model of `decompress_stream` and of the `dir`
    walk has no panic outcome on any input. -/
namespace Ovba

/-- a result that is not a panic -/
structure NoPanic {α : Type} (r : Res α) : Prop where
  ne : ∀ m, r ≠ .panic m

theorem noPanic_ok {α : Type} (a : α) : NoPanic (Res.ok a) := ⟨by intro m h; cases h⟩
theorem noPanic_err {α : Type} (e : String) : NoPanic (Res.err e : Res α) := ⟨by intro m h; cases h⟩
theorem noPanic_fuel {α : Type} : NoPanic (Res.outOfFuel : Res α) := ⟨by intro m h; cases h⟩

theorem noPanic_bind {α β : Type} {x : Res α} {f : α → Res β} (hx : NoPanic x) (hf : ∀ a, NoPanic (f a)) :
    NoPanic (x >>= f) := by
  cases x with
  | ok a => exact hf a
  | err e => exact noPanic_err e
  | panic m => exact absurd rfl (hx.ne m)
  | outOfFuel => exact noPanic_fuel

theorem copyLoop_np (off : Nat) : ∀ (fuel len : Nat) (out : Bytes) (olen : Nat), NoPanic (copyLoop off fuel len out olen)
  | 0, _, _, _ => noPanic_fuel
  | fuel + 1, len, out, olen => by
    simp only [copyLoop]
    split
    · exact copyLoop_np off fuel _ _ _
    · exact noPanic_ok _

theorem tokenLoop_np (size start : Nat) : ∀ (n flags : Nat) (st : St), NoPanic (tokenLoop size start n flags st)
  | 0, _, _ => noPanic_ok _
  | n + 1, flags, st => by
    simp only [tokenLoop]
    split
    · exact noPanic_ok _
    · split
      · cases st.rest with
        | nil => exact noPanic_err _
        | cons b r => exact tokenLoop_np size start n _ _
      · cases st.rest with
        | nil => exact noPanic_err _
        | cons lo r1 =>
          cases r1 with
          | nil => exact noPanic_err _
          | cons hi r =>
            simp only
            cases bitCount? (st.olen - start) with
            | none => exact noPanic_err _
            | some bc =>
              simp only
              split
              · exact noPanic_err _
              · cases hc : copyLoop (((u16le lo hi &&& (0xFFFF ^^^ 0xFFFF >>> bc)) >>> (16 - bc)) + 1)
                    ((u16le lo hi &&& 0xFFFF >>> bc) + 3 + 1) ((u16le lo hi &&& 0xFFFF >>> bc) + 3) st.out st.olen with
                | ok p => exact tokenLoop_np size start n _ _
                | err e => exact noPanic_err _
                | panic e => exact absurd hc ((copyLoop_np _ _ _ _ _).ne e)
                | outOfFuel => exact noPanic_fuel

theorem chunkLoop_np (size start : Nat) : ∀ (fuel : Nat) (st : St), NoPanic (chunkLoop size start fuel st)
  | 0, _ => noPanic_fuel
  | fuel + 1, st => by
    simp only [chunkLoop]
    cases st.rest with
    | nil => exact noPanic_ok _
    | cons b r =>
      simp only
      split
      · exact noPanic_ok _
      · cases hl : tokenLoop size start 8 b.toNat { rest := r, out := st.out, olen := st.olen, clen := st.clen + 1 } with
        | ok p =>
          obtain ⟨st1, brk⟩ := p
          cases brk with
          | true => exact noPanic_ok _
          | false => exact chunkLoop_np size start fuel st1
        | err e => exact noPanic_err _
        | panic e => exact absurd hl ((tokenLoop_np _ _ _ _ _).ne e)
        | outOfFuel => exact noPanic_fuel

theorem mainLoop_np : ∀ (fuel : Nat) (rest out : Bytes) (olen : Nat), NoPanic (mainLoop fuel rest out olen)
  | 0, _, _, _ => noPanic_fuel
  | fuel + 1, rest, out, olen => by
    match rest with
    | [] => simp only [mainLoop]; exact noPanic_ok _
    | [_] => simp only [mainLoop]; exact noPanic_err _
    | lo :: hi :: r =>
      simp only [mainLoop]
      split
      · exact noPanic_err _
      · split
        · split
          · exact noPanic_err _
          · exact mainLoop_np fuel _ _ _
        · cases hl : chunkLoop (u16le lo hi &&& 0x0FFF) olen (r.length + 1) { rest := r, out := out, olen := olen, clen := 0 } with
          | ok st => exact mainLoop_np fuel _ _ _
          | err e => exact noPanic_err _
          | panic e => exact absurd hl ((chunkLoop_np _ _ _ _).ne e)
          | outOfFuel => exact noPanic_fuel

theorem decompress_np (s : Bytes) : NoPanic (decompress s) := by
  unfold decompress
  cases s with
  | nil => exact noPanic_err _
  | cons b rest =>
    simp only
    split
    · exact noPanic_err _
    · cases hm : mainLoop (rest.length + 1) rest [] 0 with
      | ok o => exact noPanic_ok _
      | err e => exact noPanic_err _
      | panic e => exact absurd hm ((mainLoop_np _ _ _ _).ne e)
      | outOfFuel => exact noPanic_fuel

theorem skip_np (n : Nat) (s : Bytes) : NoPanic (skip n s) := by
  unfold skip; split <;> first | exact noPanic_err _ | exact noPanic_ok _
theorem readU16_np (s : Bytes) : NoPanic (readU16 s) := by
  unfold readU16; split <;> first | exact noPanic_err _ | exact noPanic_ok _
theorem readU32_np (s : Bytes) : NoPanic (readU32 s) := by
  unfold readU32; split <;> first | exact noPanic_err _ | exact noPanic_ok _

syntax "np_step" : tactic
macro_rules
  | `(tactic| np_step) => `(tactic| first
      | exact noPanic_ok _ | exact noPanic_err _ | exact noPanic_fuel
      | exact skip_np _ _ | exact readU16_np _ | exact readU32_np _
      | assumption
      | apply noPanic_bind
      | intro _
      | split)

theorem readVar_np (s : Bytes) : NoPanic (readVar s) := by
  unfold readVar; repeat' np_step
theorem checkRecord_np (id : Nat) (s : Bytes) : NoPanic (checkRecord id s) := by
  unfold checkRecord; repeat' np_step
theorem checkVar_np (id : Nat) (s : Bytes) : NoPanic (checkVar id s) := by
  unfold checkVar
  apply noPanic_bind (checkRecord_np _ _)
  intro _; exact readVar_np _
theorem skipCompat_np (s : Bytes) : NoPanic (skipCompat s) := by
  unfold skipCompat; repeat' np_step
theorem readCodepage_np (s : Bytes) : NoPanic (readCodepage s) := by
  unfold readCodepage; repeat' np_step

syntax "np_step2" : tactic
macro_rules
  | `(tactic| np_step2) => `(tactic| first
      | exact noPanic_ok _ | exact noPanic_err _ | exact noPanic_fuel
      | exact skip_np _ _ | exact readU16_np _ | exact readU32_np _
      | exact readVar_np _ | exact checkRecord_np _ _ | exact checkVar_np _ _
      | exact skipCompat_np _ | exact readCodepage_np _
      | assumption
      | apply noPanic_bind
      | intro _
      | split)

theorem readDirInformation_np (s : Bytes) : NoPanic (readDirInformation s) := by
  unfold readDirInformation; repeat' np_step2

theorem setLibid_np (r : Ref) (s : Bytes) : NoPanic (setLibid r s) := by
  unfold setLibid; repeat' np_step2
theorem refName_np (s : Bytes) : NoPanic (refName s) := by
  unfold refName; repeat' np_step2
theorem refControlExt_np (t : Nat) (s : Bytes) : NoPanic (refControlExt t s) := by
  unfold refControlExt; repeat' np_step2

syntax "np_step3" : tactic
macro_rules
  | `(tactic| np_step3) => `(tactic| first
      | exact setLibid_np _ _ | exact refName_np _ | exact refControlExt_np _ _
      | np_step2)

theorem refControl_np (r : Ref) (s : Bytes) : NoPanic (refControl r s) := by
  unfold refControl; repeat' np_step3
theorem refRegistered_np (r : Ref) (s : Bytes) : NoPanic (refRegistered r s) := by
  unfold refRegistered; repeat' np_step3
theorem refProject_np (r : Ref) (s : Bytes) : NoPanic (refProject r s) := by
  unfold refProject; repeat' np_step3

theorem readReferences_np : ∀ (fuel : Nat) (s : Bytes) (refs : List Ref) (cur : Ref),
    NoPanic (readReferences fuel s refs cur)
  | 0, _, _, _ => noPanic_fuel
  | fuel + 1, s, refs, cur => by
    simp only [readReferences]
    cases h0 : readU16 s with
    | ok p =>
      obtain ⟨id, s1⟩ := p
      simp only
      split
      · exact noPanic_ok _
      split
      · cases h : refName s1 with
        | ok p => exact readReferences_np fuel _ _ _
        | err e => exact noPanic_err _
        | panic m => exact absurd h ((refName_np _).ne m)
        | outOfFuel => exact noPanic_fuel
      split
      · cases h : setLibid cur s1 with
        | ok p => exact readReferences_np fuel _ _ _
        | err e => exact noPanic_err _
        | panic m => exact absurd h ((setLibid_np _ _).ne m)
        | outOfFuel => exact noPanic_fuel
      split
      · cases h : refControl cur s1 with
        | ok p => exact readReferences_np fuel _ _ _
        | err e => exact noPanic_err _
        | panic m => exact absurd h ((refControl_np _ _).ne m)
        | outOfFuel => exact noPanic_fuel
      split
      · cases h : refRegistered cur s1 with
        | ok p => exact readReferences_np fuel _ _ _
        | err e => exact noPanic_err _
        | panic m => exact absurd h ((refRegistered_np _ _).ne m)
        | outOfFuel => exact noPanic_fuel
      split
      · cases h : refProject cur s1 with
        | ok p => exact readReferences_np fuel _ _ _
        | err e => exact noPanic_err _
        | panic m => exact absurd h ((refProject_np _ _).ne m)
        | outOfFuel => exact noPanic_fuel
      exact noPanic_err _
    | err e => exact noPanic_err _
    | panic m => exact absurd h0 ((readU16_np _).ne m)
    | outOfFuel => exact noPanic_fuel

theorem moduleTail_np : ∀ (fuel : Nat) (s : Bytes), NoPanic (moduleTail fuel s)
  | 0, _ => noPanic_fuel
  | fuel + 1, s => by
    simp only [moduleTail]
    apply noPanic_bind (skip_np _ _)
    intro s1
    apply noPanic_bind (readU16_np _)
    intro p
    split
    · exact moduleTail_np fuel _
    · split
      · exact noPanic_ok _
      · exact noPanic_err _

syntax "np_step4" : tactic
macro_rules
  | `(tactic| np_step4) => `(tactic| first
      | exact moduleTail_np _ _
      | np_step2)

theorem readModule_np (s : Bytes) : NoPanic (readModule s) := by
  unfold readModule; repeat' np_step4

theorem readModuleList_np : ∀ (n : Nat) (s : Bytes) (acc : List Module), NoPanic (readModuleList n s acc)
  | 0, _, _ => noPanic_ok _
  | n + 1, s, acc => by
    simp only [readModuleList]
    apply noPanic_bind (readModule_np _)
    intro p
    exact readModuleList_np n _ _

theorem readModules_np (s : Bytes) : NoPanic (readModules s) := by
  unfold readModules
  apply noPanic_bind (skip_np _ _); intro s1
  apply noPanic_bind (readU16_np _); intro p
  split
  apply noPanic_bind (skip_np _ _); intro s2
  exact readModuleList_np _ _ _

theorem dirWalk_np (s : Bytes) : NoPanic (dirWalk s) := by
  unfold dirWalk
  apply noPanic_bind (readDirInformation_np _); intro p
  split
  apply noPanic_bind (readReferences_np _ _ _ _); intro q
  split
  apply noPanic_bind (readModules_np _); intro r
  split
  exact noPanic_ok _

theorem readModuleStreams_np (lookup : Bytes → Option Bytes) : ∀ (ms : List Module),
    NoPanic (readModuleStreams lookup ms)
  | [] => noPanic_ok _
  | m :: ms => by
    simp only [readModuleStreams]
    split
    · exact noPanic_err _
    · split
      · exact noPanic_err _
      · apply noPanic_bind (decompress_np _); intro raw
        apply noPanic_bind (readModuleStreams_np lookup ms); intro rest
        exact noPanic_ok _

theorem project_np (d : Option Bytes) (lookup : Bytes → Option Bytes) : NoPanic (project d lookup) := by
  unfold project
  split
  · exact noPanic_err _
  · apply noPanic_bind (decompress_np _); intro dir
    apply noPanic_bind (dirWalk_np _); intro p
    split
    apply noPanic_bind (readModuleStreams_np _ _); intro ms
    exact noPanic_ok _

end Ovba
