import CalVerif.Model.Range
/-! Helper lemmas about the `Range` model (list arithmetic of the flat row-major vector). -/
namespace Range
variable {α : Type} [Inhabited α]

theorem nChunks_mul (k w : Nat) (hw : 0 < w) : nChunks (k * w) w = k := by
  unfold nChunks
  have : k * w + w - 1 = w * k + (w - 1) := by rw [Nat.mul_comm]; omega
  rw [this, Nat.mul_add_div hw, Nat.div_eq_of_lt (by omega)]; rfl

theorem padRows_length (w extra : Nat) : ∀ (k : Nat) (l : List α), l.length = k * w →
    (padRows w extra k l).length = k * (w + extra)
  | 0, l, _ => by simp [padRows]
  | k+1, l, h => by
    have h1 : (l.take w).length = w := by rw [List.length_take, h, Nat.succ_mul]; omega
    have h2 : (l.drop w).length = k * w := by rw [List.length_drop, h, Nat.succ_mul]; omega
    simp only [padRows, List.length_append, List.length_replicate, h1, padRows_length w extra k _ h2]
    rw [Nat.succ_mul]; omega

theorem padRows_get (w extra : Nat) : ∀ (k : Nat) (l : List α), l.length = k * w →
    ∀ i j, i < k → j < w + extra →
    (padRows w extra k l)[i * (w + extra) + j]? = if j < w then l[i * w + j]? else some default
  | 0, _, _, i, _, hi, _ => by omega
  | k+1, l, h, i, j, hi, hj => by
    have h1 : (l.take w).length = w := by rw [List.length_take, h, Nat.succ_mul]; omega
    have h2 : (l.drop w).length = k * w := by rw [List.length_drop, h, Nat.succ_mul]; omega
    cases i with
    | zero =>
      simp only [padRows, Nat.zero_mul, Nat.zero_add]
      by_cases hjw : j < w
      · simp only [hjw, if_true]
        rw [List.append_assoc, List.getElem?_append_left (by omega), List.getElem?_take]; simp [hjw]
      · simp only [hjw, if_false]
        rw [List.append_assoc, List.getElem?_append_right (by omega)]
        rw [List.getElem?_append_left (by rw [List.length_replicate, h1]; omega)]
        rw [List.getElem?_replicate, h1]
        have : j - w < extra := by omega
        simp [this]
    | succ i =>
      have ih := padRows_get w extra k (l.drop w) h2 i j (by omega) hj
      simp only [padRows]
      have e : (i + 1) * (w + extra) + j = (w + extra) + (i * (w + extra) + j) := by
        rw [Nat.succ_mul]; omega
      rw [e, List.append_assoc, List.getElem?_append_right (by omega)]
      rw [List.getElem?_append_right (by simp [h1]; omega)]
      simp only [h1, List.length_replicate]
      have e2 : w + extra + (i * (w + extra) + j) - w - extra = i * (w + extra) + j := by omega
      rw [e2, ih]
      split
      · rw [List.getElem?_drop]; congr 1; rw [Nat.succ_mul]; omega
      · rfl

/-- constructor lemma: a non-degenerate rectangle with the right number of cells satisfies `Inv` -/
theorem mkInv (sr sc er ec : Nat) (inner : List α) (ho1 : sr ≤ er) (ho2 : sc ≤ ec)
    (hlen : inner.length = (er - sr + 1) * (ec - sc + 1)) : Inv (⟨sr, sc, er, ec, inner⟩ : Rng α) := by
  have hpos : inner.length ≠ 0 := by
    rw [hlen]; exact Nat.ne_of_gt (Nat.mul_pos (by omega) (by omega))
  constructor
  · simp only [Rng.height, Rng.width, hpos, if_false]; exact hlen
  · intro _; exact ⟨ho1, ho2⟩

theorem inv_set (r : Rng α) (i : Nat) (v : α) (h : Inv r) : Inv { r with inner := r.inner.set i v } := by
  constructor
  · simp only [Rng.height, Rng.width, List.length_set]; exact h.len
  · simp only [List.length_set]; exact h.ord

theorem Inv.width_eq {r : Rng α} (_ : Inv r) (hne : r.inner.length ≠ 0) : r.width = r.ec - r.sc + 1 := by
  simp [Rng.width, hne]
theorem Inv.height_eq {r : Rng α} (_ : Inv r) (hne : r.inner.length ≠ 0) : r.height = r.er - r.sr + 1 := by
  simp [Rng.height, hne]

end Range
