import CalVerif.Model.Range
/-! Helper lemmas about the `Range` model (list arithmetic of the flat row-major vector). -/
namespace Range
set_option linter.unusedSectionVars false
variable {α : Type} [Inhabited α]

theorem nChunks_mul (k w : Nat) (hw : 0 < w) : nChunks (k * w) w = k := by
  unfold nChunks
  have : k * w + w - 1 = w * k + (w - 1) := by rw [Nat.mul_comm]; omega
  rw [this, Nat.mul_add_div hw, Nat.div_eq_of_lt (by omega)]; rfl

theorem padRows_length (w extra : Nat) : ∀ (k : Nat) (l : List α), l.length = k * w →
    (padRows w extra k l).length = k * (w + extra)
  | 0, l, _ => by simp [padRows]
  | k+1, l, h => by
    have h1 : (l.take w).length = w := by rw [List.length_take, h, Nat.succ_mul]; omega
    have h2 : (l.drop w).length = k * w := by rw [List.length_drop, h, Nat.succ_mul]; omega
    simp only [padRows, List.length_append, List.length_replicate, h1, padRows_length w extra k _ h2]
    rw [Nat.succ_mul]; omega

theorem padRows_get (w extra : Nat) : ∀ (k : Nat) (l : List α), l.length = k * w →
    ∀ i j, i < k → j < w + extra →
    (padRows w extra k l)[i * (w + extra) + j]? = if j < w then l[i * w + j]? else some default
  | 0, _, _, i, _, hi, _ => by omega
  | k+1, l, h, i, j, hi, hj => by
    have h1 : (l.take w).length = w := by rw [List.length_take, h, Nat.succ_mul]; omega
    have h2 : (l.drop w).length = k * w := by rw [List.length_drop, h, Nat.succ_mul]; omega
    cases i with
    | zero =>
      simp only [padRows, Nat.zero_mul, Nat.zero_add]
      by_cases hjw : j < w
      · simp only [hjw, if_true]
        rw [List.append_assoc, List.getElem?_append_left (by omega), List.getElem?_take]; simp [hjw]
      · simp only [hjw, if_false]
        rw [List.append_assoc, List.getElem?_append_right (by omega)]
        rw [List.getElem?_append_left (by rw [List.length_replicate, h1]; omega)]
        rw [List.getElem?_replicate, h1]
        have : j - w < extra := by omega
        simp [this]
    | succ i =>
      have ih := padRows_get w extra k (l.drop w) h2 i j (by omega) hj
      simp only [padRows]
      have e : (i + 1) * (w + extra) + j = (w + extra) + (i * (w + extra) + j) := by
        rw [Nat.succ_mul]; omega
      rw [e, List.append_assoc, List.getElem?_append_right (by omega)]
      rw [List.getElem?_append_right (by simp [h1]; omega)]
      simp only [h1, List.length_replicate]
      have e2 : w + extra + (i * (w + extra) + j) - w - extra = i * (w + extra) + j := by omega
      rw [e2, ih]
      split
      · rw [List.getElem?_drop]; congr 1; rw [Nat.succ_mul]; omega
      · rfl

/-- constructor lemma: a non-degenerate rectangle with the right number of cells satisfies `Inv` -/
theorem mkInv (sr sc er ec : Nat) (inner : List α) (ho1 : sr ≤ er) (ho2 : sc ≤ ec)
    (hlen : inner.length = (er - sr + 1) * (ec - sc + 1)) : Inv (⟨sr, sc, er, ec, inner⟩ : Rng α) := by
  have hpos : inner.length ≠ 0 := by
    rw [hlen]; exact Nat.ne_of_gt (Nat.mul_pos (by omega) (by omega))
  constructor
  · simp only [Rng.height, Rng.width, hpos, if_false]; exact hlen
  · intro _; exact ⟨ho1, ho2⟩

theorem inv_set (r : Rng α) (i : Nat) (v : α) (h : Inv r) : Inv { r with inner := r.inner.set i v } := by
  constructor
  · simp only [Rng.height, Rng.width, List.length_set]; exact h.len
  · simp only [List.length_set]; exact h.ord

theorem Inv.width_eq {r : Rng α} (_ : Inv r) (hne : r.inner.length ≠ 0) : r.width = r.ec - r.sc + 1 := by
  simp [Rng.width, hne]
theorem Inv.height_eq {r : Rng α} (_ : Inv r) (hne : r.inner.length ≠ 0) : r.height = r.er - r.sr + 1 := by
  simp [Rng.height, hne]

/-! ### `range`: the window copy -/

theorem mul_add_lt_mul {p p' w q : Nat} (hq : q < w) (h : p < p') : p * w + q < p' * w := by
  have := Nat.mul_le_mul_right w (Nat.succ_le_of_lt h)
  rw [Nat.succ_mul] at this; omega

theorem copySlice_length (dst src : List α) (dOff sOff n : Nat) (hd : dOff + n ≤ dst.length)
    (hs : sOff + n ≤ src.length) : (copySlice dst src dOff sOff n).length = dst.length := by
  simp only [copySlice, List.length_append, List.length_take, List.length_drop]; omega

theorem copySlice_get (dst src : List α) (dOff sOff n : Nat) (hd : dOff + n ≤ dst.length)
    (hs : sOff + n ≤ src.length) (i : Nat) :
    (copySlice dst src dOff sOff n)[i]? =
      if dOff ≤ i ∧ i < dOff + n then src[sOff + (i - dOff)]? else dst[i]? := by
  unfold copySlice
  have h1 : (dst.take dOff).length = dOff := by rw [List.length_take]; omega
  have h2 : ((src.drop sOff).take n).length = n := by rw [List.length_take, List.length_drop]; omega
  by_cases ha : i < dOff
  · rw [List.append_assoc, List.getElem?_append_left (by omega), List.getElem?_take]
    have : ¬ (dOff ≤ i ∧ i < dOff + n) := by omega
    simp [this, ha]
  · by_cases hb : i < dOff + n
    · rw [List.append_assoc, List.getElem?_append_right (by omega), List.getElem?_append_left (by omega)]
      rw [List.getElem?_take, List.getElem?_drop, h1]
      have : dOff ≤ i ∧ i < dOff + n := by omega
      have h3 : i - dOff < n := by omega
      simp [this, h3]
    · rw [List.getElem?_append_right (by simp only [List.length_append, h1, h2]; omega)]
      rw [List.getElem?_drop]
      have : ¬ (dOff ≤ i ∧ i < dOff + n) := by omega
      simp only [this, if_false, List.length_append, h1, h2]
      congr 1; omega

theorem copyRows_spec (src : List α) (dw sw dr sr_ dc sc_ nc : Nat) (hdc : dc + nc ≤ dw)
    (hsc : sc_ + nc ≤ sw) : ∀ (k : Nat) (dst : List α), (dr + k) * dw ≤ dst.length →
    (sr_ + k) * sw ≤ src.length →
    (copyRows src dw sw dr sr_ dc sc_ nc k dst).length = dst.length ∧
    ∀ p q, q < dw → (copyRows src dw sw dr sr_ dc sc_ nc k dst)[p * dw + q]? =
      if dr ≤ p ∧ p < dr + k ∧ dc ≤ q ∧ q < dc + nc then
        src[(sr_ + (p - dr)) * sw + (sc_ + (q - dc))]? else dst[p * dw + q]?
  | 0, dst, _, _ => by
    refine ⟨rfl, fun p q _ => ?_⟩
    have : ¬ (dr ≤ p ∧ p < dr + 0 ∧ dc ≤ q ∧ q < dc + nc) := by omega
    simp only [copyRows, this, if_false]
  | k+1, dst, hd, hs => by
    have hd1 : (dr + k) * dw + dw ≤ dst.length := by
      have : (dr + (k + 1)) * dw = (dr + k) * dw + dw := by rw [← Nat.add_assoc, Nat.succ_mul]
      omega
    have hs1 : (sr_ + k) * sw + sw ≤ src.length := by
      have : (sr_ + (k + 1)) * sw = (sr_ + k) * sw + sw := by rw [← Nat.add_assoc, Nat.succ_mul]
      omega
    have hl := copySlice_length dst src ((dr + k) * dw + dc) ((sr_ + k) * sw + sc_) nc (by omega) (by omega)
    have ih := copyRows_spec src dw sw dr sr_ dc sc_ nc hdc hsc k
      (copySlice dst src ((dr + k) * dw + dc) ((sr_ + k) * sw + sc_) nc) (by rw [hl]; omega) (by omega)
    simp only [copyRows]
    refine ⟨by rw [ih.1, hl], fun p q hq => ?_⟩
    rw [ih.2 p q hq]
    by_cases hin : dr ≤ p ∧ p < dr + k ∧ dc ≤ q ∧ q < dc + nc
    · have : dr ≤ p ∧ p < dr + (k + 1) ∧ dc ≤ q ∧ q < dc + nc := by omega
      simp only [hin, this, and_self, if_true]
    · simp only [hin, if_false]
      rw [copySlice_get dst src _ _ nc (by omega) (by omega)]
      rcases Nat.lt_trichotomy p (dr + k) with hlt | heq | hgt
      · have h1 := mul_add_lt_mul (w := dw) hq hlt
        have c1 : ¬ ((dr + k) * dw + dc ≤ p * dw + q ∧ p * dw + q < (dr + k) * dw + dc + nc) := by omega
        have c2 : ¬ (dr ≤ p ∧ p < dr + (k + 1) ∧ dc ≤ q ∧ q < dc + nc) := by omega
        simp only [c1, c2, if_false]
      · subst heq
        by_cases hq2 : dc ≤ q ∧ q < dc + nc
        · have c1 : ((dr + k) * dw + dc ≤ (dr + k) * dw + q ∧ (dr + k) * dw + q < (dr + k) * dw + dc + nc) := by omega
          have c2 : (dr ≤ dr + k ∧ dr + k < dr + (k + 1) ∧ dc ≤ q ∧ q < dc + nc) := by omega
          simp only [c1, c2, and_self, if_true]
          congr 1
          have : dr + k - dr = k := by omega
          rw [this]; omega
        · have c1 : ¬ ((dr + k) * dw + dc ≤ (dr + k) * dw + q ∧ (dr + k) * dw + q < (dr + k) * dw + dc + nc) := by omega
          have c2 : ¬ (dr ≤ dr + k ∧ dr + k < dr + (k + 1) ∧ dc ≤ q ∧ q < dc + nc) := by omega
          simp only [c1, c2, if_false]
      · have h1 := Nat.mul_le_mul_right dw (Nat.succ_le_of_lt hgt)
        rw [Nat.succ_mul] at h1
        have c1 : ¬ ((dr + k) * dw + dc ≤ p * dw + q ∧ p * dw + q < (dr + k) * dw + dc + nc) := by omega
        have c2 : ¬ (dr ≤ p ∧ p < dr + (k + 1) ∧ dc ≤ q ∧ q < dc + nc) := by omega
        simp only [c1, c2, if_false]

theorem new_ok (sr sc er ec : Nat) (r : Rng α) (h : new sr sc er ec = .ok r) :
    r = ⟨sr, sc, er, ec, List.replicate ((er - sr + 1) * (ec - sc + 1)) default⟩ ∧ sr ≤ er ∧ sc ≤ ec ∧
    er - sr + 1 < U32 ∧ ec - sc + 1 < U32 ∧ (er - sr + 1) * (ec - sc + 1) < U32 := by
  unfold new at h
  split at h; · cases h
  split at h; · cases h
  split at h; · cases h
  split at h; · cases h
  injection h with h
  refine ⟨h.symm, by omega, by omega, by omega, by omega, by omega⟩

theorem getD_replicate_default (n i : Nat) : (List.replicate n (default : α)).getD i default = default := by
  rw [List.getD_eq_getElem?_getD, List.getElem?_replicate]; split <;> rfl

theorem valAt_of_in (r : Rng α) (p q : Nat) (hne : r.inner.length ≠ 0)
    (h : r.sr ≤ p ∧ p ≤ r.er ∧ r.sc ≤ q ∧ q ≤ r.ec) :
    r.valAt p q = r.inner.getD ((p - r.sr) * r.width + (q - r.sc)) default := by
  unfold Rng.valAt; rw [if_pos ⟨hne, h⟩]

theorem valAt_of_out (r : Rng α) (p q : Nat)
    (h : ¬ (r.inner.length ≠ 0 ∧ r.sr ≤ p ∧ p ≤ r.er ∧ r.sc ≤ q ∧ q ≤ r.ec)) :
    r.valAt p q = default := by
  unfold Rng.valAt; rw [if_neg h]

/-- everything `range` does, in one statement -/
theorem range_core (r : Rng α) (hi : Inv r) (sr sc er ec : Nat) (r' : Rng α)
    (h : range r sr sc er ec = .ok r') :
    r'.sr = sr ∧ r'.sc = sc ∧ r'.er = er ∧ r'.ec = ec ∧ sr ≤ er ∧ sc ≤ ec ∧
    r'.inner.length = (er - sr + 1) * (ec - sc + 1) ∧
    ∀ p q, sr ≤ p → p ≤ er → sc ≤ q → q ≤ ec →
      r'.inner.getD ((p - sr) * (ec - sc + 1) + (q - sc)) default = r.valAt p q := by
  unfold range at h
  cases hnew : (new sr sc er ec : Res (Rng α)) with
  | err e => rw [hnew] at h; cases h
  | panic e => rw [hnew] at h; cases h
  | outOfFuel => rw [hnew] at h; cases h
  | ok other =>
    rw [hnew] at h
    obtain ⟨ho, h1, h2, _, _, _⟩ := new_ok sr sc er ec other hnew
    subst ho
    simp only at h
    have hdef : ∀ p q, ¬ (r.inner.length ≠ 0 ∧ r.sr ≤ p ∧ p ≤ r.er ∧ r.sc ≤ q ∧ q ≤ r.ec) →
        (List.replicate ((er - sr + 1) * (ec - sc + 1)) (default : α)).getD
          ((p - sr) * (ec - sc + 1) + (q - sc)) default = r.valAt p q := by
      intro p q hout
      rw [getD_replicate_default, valAt_of_out r p q hout]
    split at h
    · rename_i he
      injection h with h; subst h
      refine ⟨rfl, rfl, rfl, rfl, h1, h2, by simp, fun p q _ _ _ _ => hdef p q (by simp [he])⟩
    · rename_i hne
      split at h
      · rename_i hdisj
        injection h with h; subst h
        refine ⟨rfl, rfl, rfl, rfl, h1, h2, by simp, fun p q _ _ _ _ => hdef p q (by omega)⟩
      · rename_i hov
        injection h with h; subst h
        obtain ⟨hord1, hord2⟩ := hi.ord hne
        have hw : r.width = r.ec - r.sc + 1 := hi.width_eq hne
        have hh : r.height = r.er - r.sr + 1 := hi.height_eq hne
        have hlen := hi.len
        have hpos : (er - sr + 1) * (ec - sc + 1) ≠ 0 := Nat.ne_of_gt (Nat.mul_pos (by omega) (by omega))
        have hdw : (⟨sr, sc, er, ec, List.replicate ((er - sr + 1) * (ec - sc + 1)) default⟩ : Rng α).width = ec - sc + 1 := by
          simp [Rng.width, hpos]
        rw [hdw]
        have hsp := copyRows_spec r.inner (ec - sc + 1) r.width (max r.sr sr - sr) (max r.sr sr - r.sr)
          (max r.sc sc - sc) (max r.sc sc - r.sc) (min r.ec ec + 1 - max r.sc sc) (by omega) (by omega)
          (min r.er er + 1 - max r.sr sr) (List.replicate ((er - sr + 1) * (ec - sc + 1)) default)
          (by rw [List.length_replicate]; exact Nat.mul_le_mul_right _ (by omega))
          (by rw [hlen, hh]; exact Nat.mul_le_mul_right _ (by omega))
        refine ⟨rfl, rfl, rfl, rfl, h1, h2, by simp only [hsp.1, List.length_replicate], fun p q hp1 hp2 hq1 hq2 => ?_⟩
        simp only
        rw [List.getD_eq_getElem?_getD, hsp.2 (p - sr) (q - sc) (by omega)]
        by_cases hin : r.sr ≤ p ∧ p ≤ r.er ∧ r.sc ≤ q ∧ q ≤ r.ec
        · have c : max r.sr sr - sr ≤ p - sr ∧ p - sr < max r.sr sr - sr + (min r.er er + 1 - max r.sr sr) ∧
              max r.sc sc - sc ≤ q - sc ∧ q - sc < max r.sc sc - sc + (min r.ec ec + 1 - max r.sc sc) := by omega
          rw [if_pos c, valAt_of_in r p q hne hin, List.getD_eq_getElem?_getD]
          have e1 : max r.sr sr - r.sr + (p - sr - (max r.sr sr - sr)) = p - r.sr := by omega
          have e2 : max r.sc sc - r.sc + (q - sc - (max r.sc sc - sc)) = q - r.sc := by omega
          rw [e1, e2]
        · have c : ¬ (max r.sr sr - sr ≤ p - sr ∧ p - sr < max r.sr sr - sr + (min r.er er + 1 - max r.sr sr) ∧
              max r.sc sc - sc ≤ q - sc ∧ q - sc < max r.sc sc - sc + (min r.ec ec + 1 - max r.sc sc)) := by omega
          rw [if_neg c, ← List.getD_eq_getElem?_getD]
          exact hdef p q (by omega)

/-! ### `from_sparse` -/

theorem find?_congr' {β : Type} {p q : β → Bool} : ∀ (l : List β), (∀ x ∈ l, p x = q x) → l.find? p = l.find? q
  | [], _ => rfl
  | a :: l, h => by
    rw [List.find?_cons, List.find?_cons, h a (List.mem_cons_self ..),
      find?_congr' l (fun x hx => h x (List.mem_cons_of_mem _ hx))]

theorem foldMinF_spec {β : Type} (f : β → Nat) : ∀ (l : List β) (m : Nat),
    l.foldl (fun m c => if f c < m then f c else m) m ≤ m ∧
    (∀ c ∈ l, l.foldl (fun m c => if f c < m then f c else m) m ≤ f c) ∧
    (l.foldl (fun m c => if f c < m then f c else m) m = m ∨
      ∃ c ∈ l, f c = l.foldl (fun m c => if f c < m then f c else m) m)
  | [], m => ⟨Nat.le_refl _, fun _ h => (by cases h), Or.inl rfl⟩
  | a :: l, m => by
    obtain ⟨h1, h2, h3⟩ := foldMinF_spec f l (if f a < m then f a else m)
    simp only [List.foldl_cons]
    have hle : (if f a < m then f a else m) ≤ m ∧ (if f a < m then f a else m) ≤ f a := by
      split <;> omega
    refine ⟨?_, ?_, ?_⟩
    · omega
    · intro c hc
      rcases List.mem_cons.mp hc with rfl | hc
      · omega
      · exact h2 c hc
    · rcases h3 with h3 | ⟨c, hc, h3⟩
      · by_cases ha : f a < m
        · rw [if_pos ha] at h3 ⊢
          exact Or.inr ⟨a, List.mem_cons_self .., h3.symm⟩
        · rw [if_neg ha] at h3 ⊢
          exact Or.inl h3
      · exact Or.inr ⟨c, List.mem_cons_of_mem _ hc, h3⟩

theorem foldMaxF_spec {β : Type} (f : β → Nat) : ∀ (l : List β) (m : Nat),
    m ≤ l.foldl (fun m c => if f c > m then f c else m) m ∧
    (∀ c ∈ l, f c ≤ l.foldl (fun m c => if f c > m then f c else m) m) ∧
    (l.foldl (fun m c => if f c > m then f c else m) m = m ∨
      ∃ c ∈ l, f c = l.foldl (fun m c => if f c > m then f c else m) m)
  | [], m => ⟨Nat.le_refl _, fun _ h => (by cases h), Or.inl rfl⟩
  | a :: l, m => by
    obtain ⟨h1, h2, h3⟩ := foldMaxF_spec f l (if f a > m then f a else m)
    simp only [List.foldl_cons]
    have hle : m ≤ (if f a > m then f a else m) ∧ f a ≤ (if f a > m then f a else m) := by
      split <;> omega
    refine ⟨?_, ?_, ?_⟩
    · omega
    · intro c hc
      rcases List.mem_cons.mp hc with rfl | hc
      · omega
      · exact h2 c hc
    · rcases h3 with h3 | ⟨c, hc, h3⟩
      · by_cases ha : f a > m
        · rw [if_pos ha] at h3 ⊢
          exact Or.inr ⟨a, List.mem_cons_self .., h3.symm⟩
        · rw [if_neg ha] at h3 ⊢
          exact Or.inl h3
      · exact Or.inr ⟨c, List.mem_cons_of_mem _ hc, h3⟩

/-- the column-minimum loop of `from_sparse` -/
theorem foldMin_spec (cells : List (Nat × Nat × α)) (m : Nat) :
    cells.foldl (fun m c => if c.2.1 < m then c.2.1 else m) m ≤ m ∧
    (∀ c ∈ cells, cells.foldl (fun m c => if c.2.1 < m then c.2.1 else m) m ≤ c.2.1) ∧
    (cells.foldl (fun m c => if c.2.1 < m then c.2.1 else m) m = m ∨
      ∃ c ∈ cells, c.2.1 = cells.foldl (fun m c => if c.2.1 < m then c.2.1 else m) m) :=
  foldMinF_spec (fun c => c.2.1) cells m

theorem foldMax_spec (cells : List (Nat × Nat × α)) (m : Nat) :
    m ≤ cells.foldl (fun m c => if c.2.1 > m then c.2.1 else m) m ∧
    (∀ c ∈ cells, c.2.1 ≤ cells.foldl (fun m c => if c.2.1 > m then c.2.1 else m) m) ∧
    (cells.foldl (fun m c => if c.2.1 > m then c.2.1 else m) m = m ∨
      ∃ c ∈ cells, c.2.1 = cells.foldl (fun m c => if c.2.1 > m then c.2.1 else m) m) :=
  foldMaxF_spec (fun c => c.2.1) cells m

/-- the row-minimum loop of `from_sparse` -/
theorem rowMin_spec (cells : List (Nat × Nat × α)) (m : Nat) :
    cells.foldl (fun m c => if c.1 < m then c.1 else m) m ≤ m ∧
    (∀ c ∈ cells, cells.foldl (fun m c => if c.1 < m then c.1 else m) m ≤ c.1) ∧
    (cells.foldl (fun m c => if c.1 < m then c.1 else m) m = m ∨
      ∃ c ∈ cells, c.1 = cells.foldl (fun m c => if c.1 < m then c.1 else m) m) :=
  foldMinF_spec (fun c => c.1) cells m

theorem rowMax_spec (cells : List (Nat × Nat × α)) (m : Nat) :
    m ≤ cells.foldl (fun m c => if c.1 > m then c.1 else m) m ∧
    (∀ c ∈ cells, c.1 ≤ cells.foldl (fun m c => if c.1 > m then c.1 else m) m) ∧
    (cells.foldl (fun m c => if c.1 > m then c.1 else m) m = m ∨
      ∃ c ∈ cells, c.1 = cells.foldl (fun m c => if c.1 > m then c.1 else m) m) :=
  foldMaxF_spec (fun c => c.1) cells m

/-- the placement loop of `from_sparse` on the flat vector -/
theorem sparse_fold (rs cs cols len : Nat) : ∀ (cells : List (Nat × Nat × α)) (v : List α),
    v.length = len →
    (cells.foldl (sparseStep rs cs cols len) v).length = len ∧
    ∀ i, i < len → (cells.foldl (sparseStep rs cs cols len) v).getD i default =
      match cells.reverse.find? (fun c => decide ((c.1 - rs) * cols + (c.2.1 - cs) = i)) with
      | some c => c.2.2
      | none => v.getD i default
  | [], v, hv => ⟨hv, fun i _ => rfl⟩
  | c :: rest, v, hv => by
    rw [List.foldl_cons]
    have hstep : sparseStep rs cs cols len v c =
        (if (c.1 - rs) * cols + (c.2.1 - cs) < len then v.set ((c.1 - rs) * cols + (c.2.1 - cs)) c.2.2 else v) := rfl
    have hv1 : (sparseStep rs cs cols len v c).length = len := by
      rw [hstep]; split
      · rw [List.length_set]; exact hv
      · exact hv
    obtain ⟨a1, a3⟩ := sparse_fold rs cs cols len rest _ hv1
    refine ⟨a1, fun i hi => ?_⟩
    rw [a3 i hi, List.reverse_cons, List.find?_append]
    cases hf : rest.reverse.find? (fun c => decide ((c.1 - rs) * cols + (c.2.1 - cs) = i)) with
    | some c' => rfl
    | none =>
      simp only [Option.none_or, List.find?_singleton]
      rw [hstep]
      by_cases hidx : (c.1 - rs) * cols + (c.2.1 - cs) = i
      · simp only [hidx, decide_true, if_true, hi]
        rw [List.getD_eq_getElem?_getD, List.getElem?_set]
        simp [hv, hi]
      · have : decide ((c.1 - rs) * cols + (c.2.1 - cs) = i) = false := by simp [hidx]
        simp only [this, Bool.false_eq_true, if_false]
        split
        · rw [List.getD_eq_getElem?_getD, List.getElem?_set, if_neg hidx, ← List.getD_eq_getElem?_getD]
        · rfl

theorem rowmajor_inj {a b a' b' w : Nat} (hb : b < w) (hb' : b' < w) (h : a * w + b = a' * w + b') :
    a = a' ∧ b = b' := by
  rcases Nat.lt_trichotomy a a' with hlt | heq | hgt
  · have := mul_add_lt_mul (w := w) hb hlt; omega
  · subst heq; omega
  · have := mul_add_lt_mul (w := w) hb' hgt; omega

/-- everything `from_sparse` does on a non-empty list, in one statement -/
theorem fromSparse_core (c0 : Nat × Nat × α) (rest : List (Nat × Nat × α)) (r : Rng α)
    (h : fromSparse (c0 :: rest) = .ok r) :
    r.sr = (c0 :: rest).foldl (fun m c => if c.1 < m then c.1 else m) c0.1 ∧
    r.er = (c0 :: rest).foldl (fun m c => if c.1 > m then c.1 else m) 0 ∧
    r.sc = (c0 :: rest).foldl (fun m c => if c.2.1 < m then c.2.1 else m) c0.2.1 ∧
    r.ec = (c0 :: rest).foldl (fun m c => if c.2.1 > m then c.2.1 else m) 0 ∧
    r.sr ≤ r.er ∧ r.sc ≤ r.ec ∧ r.inner.length = (r.er - r.sr + 1) * (r.ec - r.sc + 1) ∧
    (∀ c ∈ c0 :: rest, r.sr ≤ c.1 ∧ c.1 ≤ r.er ∧ r.sc ≤ c.2.1 ∧ c.2.1 ≤ r.ec) ∧
    ∀ p q, r.sr ≤ p → p ≤ r.er → r.sc ≤ q → q ≤ r.ec →
      r.inner.getD ((p - r.sr) * (r.ec - r.sc + 1) + (q - r.sc)) default =
        (lastAt (c0 :: rest) p q).getD default := by
  unfold fromSparse at h
  simp only at h
  have hrmin := rowMin_spec (c0 :: rest) c0.1
  have hrmax := rowMax_spec (c0 :: rest) 0
  have hmin := foldMin_spec (c0 :: rest) c0.2.1
  have hmax := foldMax_spec (c0 :: rest) 0
  generalize (c0 :: rest).foldl (fun m c => if c.1 < m then c.1 else m) c0.1 = rs at h hrmin ⊢
  generalize (c0 :: rest).foldl (fun m c => if c.1 > m then c.1 else m) 0 = re at h hrmax ⊢
  generalize (c0 :: rest).foldl (fun m c => if c.2.1 < m then c.2.1 else m) c0.2.1 = cs at h hmin ⊢
  generalize (c0 :: rest).foldl (fun m c => if c.2.1 > m then c.2.1 else m) 0 = ce at h hmax ⊢
  have hcc : cs ≤ ce := by
    have a := hmin.2.1 c0 (List.mem_cons_self ..)
    have b := hmax.2.1 c0 (List.mem_cons_self ..)
    omega
  have hrr : rs ≤ re := by
    have a := hrmin.2.1 c0 (List.mem_cons_self ..)
    have b := hrmax.2.1 c0 (List.mem_cons_self ..)
    omega
  split at h; · cases h
  split at h; · cases h
  injection h with h; subst h
  obtain ⟨a1, a3⟩ := sparse_fold rs cs (ce - cs + 1) ((ce - cs + 1) * (re - rs + 1)) (c0 :: rest)
    (List.replicate ((ce - cs + 1) * (re - rs + 1)) default) (List.length_replicate ..)
  have hmem : ∀ c ∈ c0 :: rest, rs ≤ c.1 ∧ c.1 ≤ re ∧ cs ≤ c.2.1 ∧ c.2.1 ≤ ce :=
    fun c hc => ⟨hrmin.2.1 c hc, hrmax.2.1 c hc, hmin.2.1 c hc, hmax.2.1 c hc⟩
  refine ⟨rfl, rfl, rfl, rfl, hrr, hcc, by simp only; rw [a1, Nat.mul_comm], hmem, ?_⟩
  intro p q hp1 hp2 hq1 hq2
  simp only at hp1 hp2 hq1 hq2 ⊢
  have hlt : (p - rs) * (ce - cs + 1) + (q - cs) < (ce - cs + 1) * (re - rs + 1) := by
    have := mul_add_lt_mul (w := ce - cs + 1) (q := q - cs) (p := p - rs) (p' := re - rs + 1) (by omega) (by omega)
    rw [Nat.mul_comm (ce - cs + 1)]; exact this
  rw [a3 _ hlt, getD_replicate_default]
  unfold lastAt
  have hcongr : (c0 :: rest).reverse.find? (fun c => decide ((c.1 - rs) * (ce - cs + 1) + (c.2.1 - cs) =
      (p - rs) * (ce - cs + 1) + (q - cs))) =
      (c0 :: rest).reverse.find? (fun c => decide (c.1 = p ∧ c.2.1 = q)) := by
    apply find?_congr'
    intro c hc
    have hc' := hmem c (List.mem_reverse.mp hc)
    by_cases hpq : c.1 = p ∧ c.2.1 = q
    · simp [hpq]
    · have : ¬ ((c.1 - rs) * (ce - cs + 1) + (c.2.1 - cs) = (p - rs) * (ce - cs + 1) + (q - cs)) := by
        intro heq
        have := rowmajor_inj (by omega) (by omega) heq
        omega
      simp [hpq, this]
  rw [hcongr]
  cases (c0 :: rest).reverse.find? (fun c => decide (c.1 = p ∧ c.2.1 = q)) <;> rfl

/-- the four bounds `from_sparse` computes are attained by input cells (tight bounding box) -/
theorem fromSparse_attained (c0 : Nat × Nat × α) (rest : List (Nat × Nat × α)) (r : Rng α)
    (h : fromSparse (c0 :: rest) = .ok r) :
    (∃ c ∈ c0 :: rest, c.1 = r.sr) ∧ (∃ c ∈ c0 :: rest, c.1 = r.er) ∧
    (∃ c ∈ c0 :: rest, c.2.1 = r.sc) ∧ (∃ c ∈ c0 :: rest, c.2.1 = r.ec) := by
  obtain ⟨e1, e2, e3, e4, _, _, _, hmem, _⟩ := fromSparse_core c0 rest r h
  have hrmin := (rowMin_spec (c0 :: rest) c0.1).2.2
  have hrmax := (rowMax_spec (c0 :: rest) 0).2.2
  have hmin := (foldMin_spec (c0 :: rest) c0.2.1).2.2
  have hmax := (foldMax_spec (c0 :: rest) 0).2.2
  rw [← e1] at hrmin; rw [← e2] at hrmax; rw [← e3] at hmin; rw [← e4] at hmax
  clear e1 e2 e3 e4
  have hc0 := hmem c0 (List.mem_cons_self ..)
  refine ⟨?_, ?_, ?_, ?_⟩
  · rcases hrmin with h0 | hex
    · exact ⟨c0, List.mem_cons_self .., h0.symm⟩
    · exact hex
  · rcases hrmax with h0 | hex
    · exact ⟨c0, List.mem_cons_self .., by omega⟩
    · exact hex
  · rcases hmin with h0 | hex
    · exact ⟨c0, List.mem_cons_self .., h0.symm⟩
    · exact hex
  · rcases hmax with h0 | hex
    · exact ⟨c0, List.mem_cons_self .., by omega⟩
    · exact hex

/-! ### `set_value`: growth only pads with defaults -/

theorem getD_append_replicate_default (l : List α) (n i : Nat) :
    (l ++ List.replicate n default).getD i default = l.getD i default := by
  rw [List.getD_eq_getElem?_getD, List.getD_eq_getElem?_getD]
  by_cases h : i < l.length
  · rw [List.getElem?_append_left h]
  · rw [List.getElem?_append_right (by omega), List.getElem?_replicate, List.getElem?_eq_none (by omega)]
    split <;> rfl

theorem padRows_getD (w extra k : Nat) (l : List α) (hl : l.length = k * w) (i j : Nat) (hj : j < w + extra) :
    (padRows w extra k l).getD (i * (w + extra) + j) default =
      if i < k ∧ j < w then l.getD (i * w + j) default else default := by
  rw [List.getD_eq_getElem?_getD]
  by_cases hi : i < k
  · rw [padRows_get w extra k l hl i j hi hj]
    by_cases hjw : j < w
    · simp only [hjw, hi, and_self, if_true, List.getD_eq_getElem?_getD]
    · simp only [hjw, hi, and_false, if_false, Option.getD_some]
  · have hge : k * (w + extra) ≤ i * (w + extra) := Nat.mul_le_mul_right _ (by omega)
    rw [List.getElem?_eq_none (by rw [padRows_length w extra k l hl]; omega)]
    simp [hi]

theorem new_of_pre (sr sc er ec : Nat) (h : rectPre sr sc er ec) :
    (new sr sc er ec : Res (Rng α)) = .ok ⟨sr, sc, er, ec, List.replicate ((er - sr + 1) * (ec - sc + 1)) default⟩ := by
  obtain ⟨h1, h2, h3, h4, h5⟩ := h
  unfold new
  rw [if_neg (by omega), if_neg (by omega), if_neg (by omega), if_neg (by omega)]

/-- `from_sparse` returns for cells in ANY order, provided the coordinates are `u32` and the spans `+ 1`
    fit `u32` -/
theorem fromSparse_of_pre (cells : List (Nat × Nat × α)) (h : sparsePre cells) :
    ∃ r, fromSparse cells = .ok r := by
  cases cells with
  | nil => exact ⟨empty, rfl⟩
  | cons c0 rest =>
    obtain ⟨h1, h3⟩ := h
    have hrmin := rowMin_spec (c0 :: rest) c0.1
    have hrmax := rowMax_spec (c0 :: rest) 0
    have hmin := foldMin_spec (c0 :: rest) c0.2.1
    have hmax := foldMax_spec (c0 :: rest) 0
    unfold fromSparse
    simp only
    generalize (c0 :: rest).foldl (fun m c => if c.1 < m then c.1 else m) c0.1 = rs at *
    generalize (c0 :: rest).foldl (fun m c => if c.1 > m then c.1 else m) 0 = re at *
    generalize (c0 :: rest).foldl (fun m c => if c.2.1 < m then c.2.1 else m) c0.2.1 = cs at *
    generalize (c0 :: rest).foldl (fun m c => if c.2.1 > m then c.2.1 else m) 0 = ce at *
    have hc0 := h1 c0 (List.mem_cons_self ..)
    have hcspan : ce - cs + 1 < U32 := by
      rcases hmax.2.2 with h0 | ⟨c', hc', he⟩
      · simp only [U32] at *; omega
      · rcases hmin.2.2 with h0 | ⟨c, hc, hs⟩
        · have a := hmin.2.1 c0 (List.mem_cons_self ..)
          have b := (h3 c0 (List.mem_cons_self ..) c' hc').2
          simp only [U32] at *; omega
        · have := (h3 c hc c' hc').2
          omega
    have hrspan : re - rs + 1 < U32 := by
      rcases hrmax.2.2 with h0 | ⟨c', hc', he⟩
      · simp only [U32] at *; omega
      · rcases hrmin.2.2 with h0 | ⟨c, hc, hs⟩
        · have a := hrmin.2.1 c0 (List.mem_cons_self ..)
          have b := (h3 c0 (List.mem_cons_self ..) c' hc').1
          simp only [U32] at *; omega
        · have := (h3 c hc c' hc').1
          omega
    rw [if_neg (by omega), if_neg (by omega)]
    exact ⟨_, rfl⟩

theorem sparsePre_of_old (cells : List (Nat × Nat × α)) (h : sparsePreSorted cells) : sparsePre cells := by
  cases cells with
  | nil => exact ⟨fun _ hc => (by cases hc), fun _ hc => (by cases hc)⟩
  | cons c0 rest =>
    obtain ⟨h1, h2, h3⟩ := h
    refine ⟨fun c hc => ⟨(h1 c hc).2.2.1, (h1 c hc).2.2.2⟩, fun c hc c' hc' => ⟨?_, h3 c hc c' hc'⟩⟩
    have a := h1 c hc; have b := h1 c' hc'
    omega

/-- under the old (row-sorted) precondition every row lies between the first's and the last's -/
theorem rowsBetween_of_old (cells : List (Nat × Nat × α)) (hne : cells ≠ []) (h : sparsePreSorted cells) :
    ∀ c ∈ cells, (cells.head hne).1 ≤ c.1 ∧ c.1 ≤ (cells.getLast hne).1 := by
  cases cells with
  | nil => exact absurd rfl hne
  | cons c0 rest =>
    intro c hc
    have := h.1 c hc
    rw [List.getLast?_eq_some_getLast hne] at this
    exact ⟨this.1, this.2.1⟩

/-- `from_sparse` has no error or fuel outcome -/
theorem fromSparse_ne_fuel (cells : List (Nat × Nat × α)) : fromSparse cells ≠ .outOfFuel := by
  unfold fromSparse
  split
  · intro h; cases h
  · simp only; split
    · intro h; cases h
    · split <;> (intro h; cases h)

theorem fromSparse_ne_err (cells : List (Nat × Nat × α)) (e : String) : fromSparse cells ≠ .err e := by
  unfold fromSparse
  split
  · intro h; cases h
  · simp only; split
    · intro h; cases h
    · split <;> (intro h; cases h)

theorem range_of_pre (r : Rng α) (sr sc er ec : Nat) (h : rectPre sr sc er ec) :
    ∃ r', range r sr sc er ec = .ok r' := by
  unfold range
  rw [new_of_pre sr sc er ec h]
  simp only
  split
  · exact ⟨_, rfl⟩
  · split <;> exact ⟨_, rfl⟩

/-! ### iterators -/

theorem chunksN_length (w : Nat) : ∀ (k : Nat) (l : List α), (chunksN w k l).length = k
  | 0, _ => rfl
  | k+1, l => by simp only [chunksN, List.length_cons, chunksN_length w k]

theorem chunksN_get (w : Nat) : ∀ (k : Nat) (l : List α) (i : Nat), i < k →
    (chunksN w k l)[i]? = some ((l.drop (i * w)).take w)
  | 0, _, _, h => by omega
  | k+1, l, 0, _ => by simp [chunksN]
  | k+1, l, i+1, h => by
    simp only [chunksN, List.getElem?_cons_succ]
    rw [chunksN_get w k (l.drop w) i (by omega), List.drop_drop, Nat.succ_mul]
    congr 3; omega

theorem cellsFrom_length (w : Nat) : ∀ (l : List α) (s : Nat), (cellsFrom w s l).length = l.length
  | [], _ => rfl
  | _ :: rest, s => by simp only [cellsFrom, List.length_cons, cellsFrom_length w rest]

theorem cellsFrom_get (w : Nat) : ∀ (l : List α) (s i : Nat),
    (cellsFrom w s l)[i]? = l[i]?.map (fun v => ((s + i) / w, (s + i) % w, v))
  | [], _, _ => by simp [cellsFrom]
  | v :: rest, s, 0 => by simp [cellsFrom]
  | v :: rest, s, i+1 => by
    simp only [cellsFrom, List.getElem?_cons_succ]
    rw [cellsFrom_get w rest (s + 1) i]
    have : s + 1 + i = s + (i + 1) := by omega
    rw [this]

end Range
