import CalVerif.Model.Password
import CalVerif.Spec.PasswordSpec
/-! Helper lemmas for C20 (`Props/C20.lean` holds the property theorems): the loops of the three checks on
    lists with and without the decisive element, and the tie between the byte-level and the record-level FILEPASS
    loop (`stream_eq_records`, through C12's model of `RecordIter::next`). -/

namespace Password

open Biff (Rec)

/-- the records the loop looks at: up to (excluding) the first EOF -/
def beforeEof (recs : List Rec) : List Rec := recs.takeWhile (fun r => r.typ ≠ EOF)

theorem eof_ne_filepass : EOF ≠ FILEPASS := by decide

theorem beforeEof_cons_ne (p : Rec) (ps : List Rec) (h : p.typ ≠ EOF) : beforeEof (p :: ps) = p :: beforeEof ps := by
  simp [beforeEof, h]

theorem beforeEof_cons_eq (p : Rec) (ps : List Rec) (h : p.typ = EOF) : beforeEof (p :: ps) = [] := by
  simp [beforeEof, h]

theorem inner_detects (mid post : List Ev) (hmid : ∀ e ∈ mid, e ≠ .error) :
    inner (mid ++ .start encryptionData :: post) = .password := by
  induction mid with
  | nil => simp [inner]
  | cons e es ih =>
    have ih' := ih (fun x hx => hmid x (by simp [hx]))
    cases e with
    | start n => simp only [List.cons_append, inner]; split <;> simp_all
    | other => simpa [inner] using ih'
    | error => exact absurd rfl (hmid .error (by simp))

theorem outer_detects (pre mid post : List Ev)
    (hpre : ∀ e ∈ pre, e ≠ .error) (hmid : ∀ e ∈ mid, e ≠ .error) :
    outer (pre ++ .start fileEntry :: (mid ++ .start encryptionData :: post)) = .password := by
  induction pre with
  | nil => simp [outer, inner_detects mid post hmid]
  | cons e es ih =>
    have ih' := ih (fun x hx => hpre x (by simp [hx]))
    cases e with
    | start n =>
      simp only [List.cons_append, outer]
      split
      · -- an earlier file-entry: the inner loop scans everything that follows
        have : es ++ .start fileEntry :: (mid ++ .start encryptionData :: post)
            = (es ++ .start fileEntry :: mid) ++ .start encryptionData :: post := by simp
        rw [this]
        apply inner_detects
        intro x hx
        simp only [List.mem_append, List.mem_cons] at hx
        rcases hx with hx | hx | hx
        · exact hpre x (by simp [hx])
        · rw [hx]; simp
        · exact hmid x hx
      · exact ih'
    | other => simpa [outer] using ih'
    | error => exact absurd rfl (hpre .error (by simp))

theorem inner_no_false_positive (evs : List Ev) (hno : Ev.start encryptionData ∉ evs) :
    inner evs ≠ .password := by
  induction evs with
  | nil => simp [inner]
  | cons e es ih =>
    have ih' := ih (fun h => hno (by simp [h]))
    cases e with
    | start n =>
      simp only [inner]
      split
      · rename_i h; exact absurd (by simp [h]) hno
      · exact ih'
    | other => simpa [inner] using ih'
    | error => simp [inner]

theorem inner_pass (l : List Ev) (herr : Ev.error ∉ l) (hno : Ev.start encryptionData ∉ l) : inner l = .pass := by
  induction l with
  | nil => rfl
  | cons e es ih =>
    have ih' := ih (fun h => herr (by simp [h])) (fun h => hno (by simp [h]))
    cases e with
    | start n =>
      simp only [inner]
      split
      · rename_i h; exact absurd (by simp [h]) hno
      · exact ih'
    | other => simpa [inner] using ih'
    | error => exact absurd (by simp) herr

theorem outer_pass (l : List Ev) (herr : Ev.error ∉ l) (hno : Ev.start encryptionData ∉ l) : outer l = .pass := by
  induction l with
  | nil => rfl
  | cons e es ih =>
    have herr' : Ev.error ∉ es := fun h => herr (by simp [h])
    have hno' : Ev.start encryptionData ∉ es := fun h => hno (by simp [h])
    cases e with
    | start n =>
      simp only [outer]
      split
      · exact inner_pass es herr' hno'
      · exact ih herr' hno'
    | other => simpa [outer] using ih herr' hno'
    | error => exact absurd (by simp) herr

theorem outer_replicate_other (k : Nat) (l : List Ev) : outer (List.replicate k .other ++ l) = outer l := by
  induction k with
  | zero => simp
  | succ k ih => simp [List.replicate_succ, outer, ih]

theorem error_not_mem_manifestEvents (m : Manifest) : Ev.error ∉ manifestEvents m := by
  have hsub : ∀ subs, Ev.error ∉ subEvents subs := by
    intro subs; simp [subEvents]
  have hchild : ∀ c, Ev.error ∉ childEvents c := by
    intro c; cases c <;> simp [childEvents, hsub]
  have hentry : ∀ e, Ev.error ∉ entryEvents m.gap e := by
    intro e
    simp only [entryEvents, List.mem_cons, List.mem_append, List.mem_flatMap, List.mem_replicate, not_or]
    refine ⟨by simp, ?_, by simp, by simp⟩
    rintro ⟨c, _, hc⟩; exact hchild c hc
  simp only [manifestEvents, List.mem_append, List.mem_cons, List.mem_flatMap, List.mem_replicate, not_or]
  refine ⟨by simp, by simp, ?_, by simp⟩
  rintro ⟨e, _, he⟩; exact hentry e he

theorem enc_mem_childEvents (c : Child) : Ev.start encryptionData ∈ childEvents c ↔ c.isEnc = true := by
  cases c with
  | enc subs => simp [childEvents, Child.isEnc]
  | elem q =>
    simp only [childEvents, Child.isEnc, List.mem_cons, Ev.start.injEq, List.not_mem_nil, or_false, beq_iff_eq]
    constructor
    · rintro (h | h)
      · exact h.symm
      · cases h
    · intro h; left; exact h.symm
  | text => simp [childEvents, Child.isEnc]

theorem enc_mem_entryEvents (gap : Nat) (e : Entry) :
    Ev.start encryptionData ∈ entryEvents gap e ↔ e.encrypted = true := by
  have hne : fileEntry ≠ encryptionData := by decide
  simp only [entryEvents, List.mem_cons, Ev.start.injEq, List.mem_append, List.mem_flatMap,
    List.mem_replicate, Entry.encrypted, List.any_eq_true]
  constructor
  · rintro (h | ⟨c, hc, hm⟩ | h | h)
    · exact absurd h.symm hne
    · exact ⟨c, hc, (enc_mem_childEvents c).1 hm⟩
    · cases h
    · cases h.2
  · rintro ⟨c, hc, hm⟩
    exact Or.inr (Or.inl ⟨c, hc, (enc_mem_childEvents c).2 hm⟩)

theorem error_not_mem_entries (gap : Nat) (entries : List Entry) :
    Ev.error ∉ entries.flatMap (entryEvents gap) ++ [Ev.other] := by
  intro h
  apply error_not_mem_manifestEvents ⟨0, "", entries, gap⟩
  simp only [manifestEvents, List.mem_append, List.mem_cons]
  exact Or.inr (Or.inr (by simpa using h))

theorem manifest_spec_aux (prolog : Nat) (root : String) (entries : List Entry) (gap : Nat) :
    outer (List.replicate prolog .other ++ .start root :: (entries.flatMap (entryEvents gap) ++ [.other]))
      = if entries.any Entry.encrypted then .password else .pass := by
  by_cases hd : entries.any Entry.encrypted = true
  · simp only [hd, if_true]
    -- split the entries at an encrypted one
    simp only [List.any_eq_true] at hd
    obtain ⟨e, he, henc⟩ := hd
    obtain ⟨as, bs, rfl⟩ := List.append_of_mem he
    have hev := (enc_mem_entryEvents gap e).2 henc
    have hne : encryptionData ≠ fileEntry := by decide
    have hev' : Ev.start encryptionData ∈ e.children.flatMap childEvents ++ .other :: List.replicate gap .other := by
      simp only [entryEvents, List.mem_cons, Ev.start.injEq] at hev
      rcases hev with h | hev
      · exact absurd h hne
      · exact hev
    obtain ⟨mid, post, hsplit⟩ := List.append_of_mem hev'
    have herr := error_not_mem_entries gap (as ++ e :: bs)
    have hM : List.replicate prolog Ev.other ++ .start root :: ((as ++ e :: bs).flatMap (entryEvents gap) ++ [.other]) =
        (List.replicate prolog .other ++ .start root :: as.flatMap (entryEvents gap)) ++
          .start fileEntry :: (mid ++ .start encryptionData :: (post ++ (bs.flatMap (entryEvents gap) ++ [.other]))) := by
      simp only [List.flatMap_append, List.flatMap_cons]
      rw [show entryEvents gap e = .start fileEntry :: (mid ++ .start encryptionData :: post) by
        rw [← hsplit]; rfl]
      simp
    have herr2 : Ev.error ∉ as.flatMap (entryEvents gap) ∧ Ev.error ∉ mid := by
      simp only [List.flatMap_append, List.flatMap_cons] at herr
      rw [show entryEvents gap e = .start fileEntry :: (mid ++ .start encryptionData :: post) by
        rw [← hsplit]; rfl] at herr
      constructor
      · intro h; apply herr; simp [h]
      · intro h; apply herr; simp [h]
    rw [hM]
    apply outer_detects
    · intro x hx; rintro rfl
      simp only [List.mem_append, List.mem_cons, List.mem_replicate] at hx
      rcases hx with h | h | h
      · cases h.2
      · cases h
      · exact herr2.1 h
    · intro x hx; rintro rfl; exact herr2.2 hx
  · have hd' : entries.any Entry.encrypted = false := by simpa using hd
    simp only [hd', Bool.false_eq_true, if_false]
    have hrest_err := error_not_mem_entries gap entries
    have hrest_no : Ev.start encryptionData ∉ entries.flatMap (entryEvents gap) ++ [Ev.other] := by
      simp only [List.any_eq_false] at hd'
      simp only [List.mem_append, List.mem_flatMap, List.mem_cons, List.not_mem_nil, or_false, not_or]
      refine ⟨?_, by simp⟩
      rintro ⟨e, he, hm⟩
      exact hd' e he ((enc_mem_entryEvents gap e).1 hm)
    rw [outer_replicate_other]
    simp only [outer]
    split
    · exact inner_pass _ hrest_err hrest_no
    · exact outer_pass _ hrest_err hrest_no

/-- `Header::from_reader` rejects everything that does not start with the OLE signature -/
theorem header_err_of_not_signature (file : Bytes) (h : file.take 8 ≠ Cfb.signature) :
    ∃ e, Cfb.Header.fromReader file = .err e := by
  unfold Cfb.Header.fromReader
  by_cases hl : file.length < 512
  · exact ⟨"io", by simp [hl]⟩
  · have h8 : (file.take 512).take 8 = file.take 8 := by simp [List.take_take]
    exact ⟨"ole", by simp [hl, h8, h]⟩

theorem new_err_of_not_signature (file : Bytes) (len : Nat) (h : file.take 8 ≠ Cfb.signature) :
    ∃ e, Cfb.new file len = .err e := by
  obtain ⟨e, he⟩ := header_err_of_not_signature file h
  exact ⟨e, by unfold Cfb.new; rw [he]; rfl⟩

/-! ## record framing: `frameAll` read back by `Biff.nextRecord` -/

theorem toNat_ofNat_lt (n : Nat) (h : n < 256) : (UInt8.ofNat n).toNat = n := by
  simp [Nat.mod_eq_of_lt h]

theorem u16_le16 (v : Nat) (h : v < 65536) (rest : Bytes) : Biff.u16 (le16 v ++ rest) = v := by
  simp only [Biff.u16, le16, List.cons_append, List.nil_append, List.getD_cons_zero, List.getD_cons_succ]
  rw [toNat_ofNat_lt _ (Nat.mod_lt _ (by decide)), toNat_ofNat_lt _ (Nat.mod_lt _ (by decide))]
  omega

theorem le16_length (v : Nat) : (le16 v).length = 2 := rfl

/-- the stream does not start with a CONTINUE record header (which `RecordIter` would glue to the record before) -/
def NoContHead (s : Bytes) : Prop := ¬ (s.length > 4 ∧ Biff.u16 s = 0x3C)

theorem noContHead_nil : NoContHead [] := by simp [NoContHead]

theorem noContHead_frame1 (t : Nat) (d rest : Bytes) (ht : t < 65536) (hc : t ≠ 0x3C) :
    NoContHead (frame1 t d ++ rest) := by
  intro h
  apply hc
  have : Biff.u16 (frame1 t d ++ rest) = t := by
    simp only [frame1, List.append_assoc]; exact u16_le16 t ht _
  rw [← this]; exact h.2

theorem hasLen_eq (s : Bytes) (n : Nat) : Biff.hasLen s n = decide (n ≤ s.length) := by
  cases n with
  | zero => simp [Biff.hasLen]
  | succ n =>
    simp only [Biff.hasLen]
    by_cases h : n + 1 ≤ s.length
    · have : s.drop n ≠ [] := by
        intro hd; rw [List.drop_eq_nil_iff] at hd; omega
      simp [h, this]
    · have : s.drop n = [] := by rw [List.drop_eq_nil_iff]; omega
      simp [h, this]

theorem gather_noCont (s : Bytes) (h : NoContHead s) (fuel : Nat) : Biff.gather (fuel + 1) s = Res.ok ([], s) := by
  unfold Biff.gather
  have : (Biff.hasLen s 5 && decide (Biff.u16 s = 0x3C)) = false := by
    simp only [NoContHead] at h
    rw [hasLen_eq]
    by_cases h1 : 5 ≤ s.length
    · have h2 : ¬ Biff.u16 s = 0x3C := fun h2 => h ⟨by omega, h2⟩
      simp [h2]
    · simp [h1]
  simp [this]

theorem nextRecord_frame1 (t : Nat) (d tail : Bytes) (ht : t < 65536) (hd : d.length < 65536)
    (htail : NoContHead tail) :
    Biff.nextRecord (frame1 t d ++ tail) = some (.ok (⟨t, d, []⟩, tail)) := by
  have hf : (frame1 t d).length = 4 + d.length := by
    simp only [frame1, List.length_append, le16_length]
  have hlen : (frame1 t d ++ tail).length = 4 + d.length + tail.length := by
    rw [List.length_append, hf]
  have hu : Biff.u16 (frame1 t d ++ tail) = t := by
    simp only [frame1, List.append_assoc]; exact u16_le16 t ht _
  have hdrop2 : (frame1 t d ++ tail).drop 2 = le16 d.length ++ (d ++ tail) := by
    simp [frame1, le16]
  have hl : Biff.u16 ((frame1 t d ++ tail).drop 2) = d.length := by
    rw [hdrop2]; exact u16_le16 _ hd _
  have htake : ((frame1 t d ++ tail).take (d.length + 4)).drop 4 = d := by
    simp [frame1, le16]
  have hdrop : (frame1 t d ++ tail).drop (d.length + 4) = tail := by
    have : frame1 t d ++ tail = (le16 t ++ le16 d.length ++ d) ++ tail := by simp [frame1]
    have hl3 : (le16 t ++ le16 d.length ++ d).length = d.length + 4 := by
      simp only [List.length_append, le16_length]; omega
    rw [this, ← hl3, List.drop_left]
  unfold Biff.nextRecord
  have h4 : Biff.hasLen (frame1 t d ++ tail) 4 = true := by rw [hasLen_eq, hlen]; simp; omega
  have hlt : Biff.hasLen (frame1 t d ++ tail) (d.length + 4) = true := by rw [hasLen_eq, hlen]; simp; omega
  simp only [h4, hu, hl, hlt, htake, hdrop, gather_noCont tail htail, Bool.not_true, Bool.false_eq_true, if_false]
  try rfl

theorem frameAll_cons (r : Rec) (rs : List Rec) : frameAll (r :: rs) = frame1 r.typ r.data ++ frameAll rs := by
  simp [frameAll]

theorem noContHead_frameAll (rs : List Rec) (tail : Bytes) (hplain : ∀ r ∈ rs, Plain r) (htail : NoContHead tail) :
    NoContHead (frameAll rs ++ tail) := by
  cases rs with
  | nil => simpa [frameAll] using htail
  | cons r rs =>
    have hp := hplain r (by simp)
    rw [frameAll_cons, List.append_assoc]
    exact noContHead_frame1 _ _ _ hp.1 hp.2.1

/-- a record the loop stops at -/
def Stops (r : Rec) : Prop := r.typ = EOF ∨ r.typ = FILEPASS

/-- **the byte-level loop is the record-level loop**: on the framing of plain records, followed by arbitrary bytes
    that are never reached (a stopping record exists) or by nothing -/
theorem stream_eq_records (arms : Arms) (recs : List Rec) (tail : Bytes) (fuel : Nat)
    (hplain : ∀ r ∈ recs, Plain r) (htail : NoContHead tail)
    (hstop : (∃ r ∈ recs, Stops r) ∨ tail = []) (hfuel : recs.length < fuel) :
    xlsGlobalsStream arms fuel (frameAll recs ++ tail) = xlsGlobals arms recs := by
  induction recs generalizing fuel with
  | nil =>
    rcases hstop with ⟨r, hr, _⟩ | rfl
    · cases hr
    · cases fuel with
      | zero => omega
      | succ f => simp [frameAll, xlsGlobalsStream, xlsGlobals, Biff.nextRecord, Biff.hasLen]
  | cons r rs ih =>
    cases fuel with
    | zero => omega
    | succ f =>
      have hp := hplain r (by simp)
      have hnc := noContHead_frameAll rs tail (fun x hx => hplain x (by simp [hx])) htail
      have hr : (⟨r.typ, r.data, []⟩ : Rec) = r := by
        cases r; simp_all [Plain]
      rw [frameAll_cons, List.append_assoc]
      simp only [xlsGlobalsStream, nextRecord_frame1 r.typ r.data _ hp.1 hp.2.2.1 hnc, xlsGlobals, hr]
      by_cases hF : r.typ = FILEPASS
      · simp [hF]
      · by_cases hE : r.typ = EOF
        · simp [hE]
        · simp only [hF, hE, if_false]
          cases arms r with
          | some o => rfl
          | none =>
            simp only []
            apply ih f (fun x hx => hplain x (by simp [hx]))
            · rcases hstop with ⟨x, hx, hs⟩ | h
              · left
                simp only [List.mem_cons] at hx
                rcases hx with rfl | hx
                · rcases hs with h | h
                  · exact absurd h hE
                  · exact absurd h hF
                · exact ⟨x, hx, hs⟩
              · right; exact h
            · simp only [List.length_cons] at hfuel; omega

end Password
