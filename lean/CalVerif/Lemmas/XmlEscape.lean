import CalVerif.Spec.XmlEscape
/-! Helper lemmas for the unescape round trip (property C19). -/

namespace XmlEscape

theorem hexDigit_props (up : Bool) (k : Nat) (h : k < 16) :
    digitVal (hexDigit up k) = k ∧ isHex (hexDigit up k) = true ∧ (k < 10 → isDec (hexDigit up k) = true) := by
  have : k = 0 ∨ k = 1 ∨ k = 2 ∨ k = 3 ∨ k = 4 ∨ k = 5 ∨ k = 6 ∨ k = 7 ∨ k = 8 ∨ k = 9 ∨ k = 10 ∨ k = 11 ∨
      k = 12 ∨ k = 13 ∨ k = 14 ∨ k = 15 := by omega
  rcases this with rfl | rfl | rfl | rfl | rfl | rfl | rfl | rfl | rfl | rfl | rfl | rfl | rfl | rfl | rfl | rfl <;>
    cases up <;> decide

theorem numVal_append (r : Nat) (a : List Char) (d : Char) : numVal r (a ++ [d]) = numVal r a * r + digitVal d := by
  simp [numVal, List.foldl_append]

theorem numVal_zeros (r z : Nat) (ds : List Char) : numVal r (List.replicate z '0' ++ ds) = numVal r ds := by
  have h0 : digitVal '0' = 0 := by decide
  have : ∀ (z : Nat) (a : Nat), (List.replicate z '0' ++ ds).foldl (fun a d => a * r + digitVal d) a
      = if z = 0 then ds.foldl (fun a d => a * r + digitVal d) a else
        (List.replicate z '0' ++ ds).foldl (fun a d => a * r + digitVal d) a := by
    intro z a; split <;> simp_all
  induction z with
  | zero => simp
  | succ z ih =>
    simp only [numVal] at ih ⊢
    rw [List.replicate_succ, List.cons_append, List.foldl_cons, h0]
    simpa using ih

/-- value and digit class of the rendered digits, radix 10 or 16 -/
theorem digits_props (r : Nat) (hr : r = 10 ∨ r = 16) (up : Bool) (n : Nat) :
    numVal r (digits r up n) = n ∧ (digits r up n).all isHex = true ∧
      (r = 10 → (digits r up n).all isDec = true) ∧ digits r up n ≠ [] := by
  induction n using Nat.strongRecOn with
  | _ n ih =>
    rw [digits]
    have h2 : ¬ r < 2 := by omega
    simp only [h2, if_false]
    split
    · rename_i h
      have hp := hexDigit_props up n (by omega)
      refine ⟨?_, ?_, ?_, by simp⟩
      · simp [numVal, hp.1]
      · simp [hp.2.1]
      · intro h10; simp [hp.2.2 (by omega)]
    · rename_i h
      have hlt : n / r < n := Nat.div_lt_self (by omega) (by omega)
      have hm : n % r < r := Nat.mod_lt _ (by omega)
      have hp := hexDigit_props up (n % r) (by omega)
      obtain ⟨i1, i2, i3, _⟩ := ih (n / r) hlt
      refine ⟨?_, ?_, ?_, by simp⟩
      · rw [numVal_append, i1, hp.1]
        exact Nat.div_add_mod' n r
      · rw [List.all_append, i2]; simp [hp.2.1]
      · intro h10
        rw [List.all_append, i3 h10]; simp [hp.2.2 (by omega)]

theorem isHex_not_special (c : Char) (h : isHex c = true) : c ≠ '&' ∧ c ≠ ';' ∧ c ≠ '+' ∧ c ≠ '-' ∧ c ≠ 'x' := by
  refine ⟨?_, ?_, ?_, ?_, ?_⟩ <;> (intro e; subst e; revert h; decide)

theorem isDec_isHex (c : Char) (h : isDec c = true) : isHex c = true := by
  simp [isHex, h]

/-! ### the scan -/

theorem unesc_lit (c : Char) (r : List Char) (h : c ≠ '&') :
    unesc none (c :: r) = prepend [c] (unesc none r) := by
  simp [unesc, h]

/-- inside a reference: characters other than `&` and `;` are collected up to the `;` -/
theorem unesc_ref (body : List Char) (pat r : List Char) (h : body.all (fun c => c ≠ '&' ∧ c ≠ ';') = true) :
    unesc (some pat) (body ++ ';' :: r) = thenRest (resolve (pat ++ body)) (unesc none r) := by
  induction body generalizing pat with
  | nil => simp [unesc]
  | cons c cs ih =>
    simp only [List.all_cons, Bool.and_eq_true, decide_eq_true_eq] at h
    rw [List.cons_append, unesc]
    simp only [h.1.2, h.1.1, if_false]
    rw [ih _ h.2]
    simp [List.append_assoc]

theorem unesc_amp (r : List Char) : unesc none ('&' :: r) = unesc (some []) r := by
  simp [unesc]

/-- number parsing of a reference body (after `#`): leading zeros and the decimal digits of `n` -/
theorem parseCode_dec (z n : Nat) (hlt : n < 4294967296) :
    parseCode (List.replicate z '0' ++ digits 10 false n) = .ok n := by
  obtain ⟨hv, _, hd, hne⟩ := digits_props 10 (Or.inl rfl) false n
  have hd := hd rfl
  have hall : (List.replicate z '0' ++ digits 10 false n).all isDec = true := by
    rw [List.all_append, hd]; simp; exact Or.inr (by decide)
  have hval : numVal 10 (List.replicate z '0' ++ digits 10 false n) = n := by rw [numVal_zeros, hv]
  cases hl : List.replicate z '0' ++ digits 10 false n with
  | nil => simp at hl; exact absurd hl.2 hne
  | cons c cs =>
    rw [hl] at hall hval
    have hc : isDec c = true := by simp only [List.all_cons, Bool.and_eq_true] at hall; exact hall.1
    obtain ⟨_, _, hp, hm, hx⟩ := isHex_not_special c (isDec_isHex c hc)
    unfold parseCode
    split
    · rename_i heq; injection heq with h1 _; exact absurd h1 hx
    · simp [fromStrRadix, hp, hm, hall, hval, hlt]

/-- the same for `x`, leading zeros and the hexadecimal digits (either case) of `n` -/
theorem parseCode_hex (z n : Nat) (up : Bool) (hlt : n < 4294967296) :
    parseCode ('x' :: (List.replicate z '0' ++ digits 16 up n)) = .ok n := by
  obtain ⟨hv, hh, _, hne⟩ := digits_props 16 (Or.inr rfl) up n
  have hall : (List.replicate z '0' ++ digits 16 up n).all isHex = true := by
    rw [List.all_append, hh]; simp; exact Or.inr (by decide)
  have hval : numVal 16 (List.replicate z '0' ++ digits 16 up n) = n := by rw [numVal_zeros, hv]
  cases hl : List.replicate z '0' ++ digits 16 up n with
  | nil => simp at hl; exact absurd hl.2 hne
  | cons c cs =>
    rw [hl] at hall hval
    have hc : isHex c = true := by simp only [List.all_cons, Bool.and_eq_true] at hall; exact hall.1
    obtain ⟨_, _, hp, hm, _⟩ := isHex_not_special c hc
    simp [parseCode, fromStrRadix, hp, hm, hall, hval, hlt]

theorem scalar_lt (n : Nat) (hs : isScalar n = true) : n < 4294967296 := by
  simp only [isScalar, Bool.or_eq_true, Bool.and_eq_true, decide_eq_true_eq] at hs; omega

theorem parseNumber_dec (z n : Nat) (h0 : n ≠ 0) (hs : isScalar n = true) :
    parseNumber (List.replicate z '0' ++ digits 10 false n) = .ok (Char.ofNat n) := by
  simp [parseNumber, parseCode_dec z n (scalar_lt n hs), checkCode, h0, hs]

theorem parseNumber_hex (z n : Nat) (up : Bool) (h0 : n ≠ 0) (hs : isScalar n = true) :
    parseNumber ('x' :: (List.replicate z '0' ++ digits 16 up n)) = .ok (Char.ofNat n) := by
  simp [parseNumber, parseCode_hex z n up (scalar_lt n hs), checkCode, h0, hs]

/-- the characters of a numeric reference body are neither `&` nor `;` -/
theorem refbody_clean (l : List Char) (h : l.all isHex = true) : l.all (fun c => c ≠ '&' ∧ c ≠ ';') = true := by
  induction l with
  | nil => rfl
  | cons c cs ih =>
    simp only [List.all_cons, Bool.and_eq_true] at h
    have := isHex_not_special c h.1
    simp only [List.all_cons, Bool.and_eq_true, decide_eq_true_eq]
    exact ⟨⟨this.1, this.2.1⟩, ih h.2⟩

theorem zeros_digits_hex (z r : Nat) (hr : r = 10 ∨ r = 16) (up : Bool) (n : Nat) :
    (List.replicate z '0' ++ digits r up n).all isHex = true := by
  rw [List.all_append, (digits_props r hr up n).2.1]; simp; exact Or.inr (by decide)

theorem char_scalar (c : Char) : isScalar c.toNat = true := by
  have := c.valid
  simp only [isScalar, Bool.or_eq_true, Bool.and_eq_true, decide_eq_true_eq]
  exact this

theorem escape1_spec (c : Char) (sp : Spelling) (r : List Char) (h : okSpelling (c, sp) = true) :
    unesc none (escape1 c sp ++ r) = prepend [c] (unesc none r) := by
  cases sp with
  | lit =>
    simp only [okSpelling, decide_eq_true_eq] at h
    simp only [escape1, List.cons_append, List.nil_append]
    exact unesc_lit c r h
  | named =>
    simp only [escape1]
    cases hn : entityName c with
    | none =>
      have hc : c ≠ '&' := by
        intro e; subst e; simp [entityName] at hn
      simp only [List.cons_append, List.nil_append]
      exact unesc_lit c r hc
    | some nm =>
      simp only [List.cons_append, List.append_assoc, List.nil_append]
      rw [unesc_amp]
      have key : nm.all (fun c => c ≠ '&' ∧ c ≠ ';') = true ∧ resolve ([] ++ nm) = .ok [c] := by
        unfold entityName at hn
        split at hn
        · rename_i hc; subst hc; injection hn with hn; subst hn; decide
        split at hn
        · rename_i hc; subst hc; injection hn with hn; subst hn; decide
        split at hn
        · rename_i hc; subst hc; injection hn with hn; subst hn; decide
        split at hn
        · rename_i hc; subst hc; injection hn with hn; subst hn; decide
        split at hn
        · rename_i hc; subst hc; injection hn with hn; subst hn; decide
        · cases hn
      rw [unesc_ref nm [] r key.1, key.2]
      rfl
  | dec z =>
    simp only [okSpelling, decide_eq_true_eq] at h
    have hbody := refbody_clean _ (zeros_digits_hex z 10 (Or.inl rfl) false c.toNat)
    have hb2 : ('#' :: (List.replicate z '0' ++ digits 10 false c.toNat)).all (fun c => c ≠ '&' ∧ c ≠ ';') = true := by
      simp only [List.all_cons, hbody, Bool.and_true]; decide
    simp only [escape1, List.cons_append, List.append_assoc, List.nil_append]
    rw [unesc_amp]
    have := unesc_ref ('#' :: (List.replicate z '0' ++ digits 10 false c.toNat)) [] r hb2
    simp only [List.cons_append, List.append_assoc, List.nil_append] at this
    rw [this]
    simp [resolve, parseNumber_dec z c.toNat h (char_scalar c), Char.ofNat_toNat, thenRest]
  | hex z up =>
    simp only [okSpelling, decide_eq_true_eq] at h
    have hbody := refbody_clean _ (zeros_digits_hex z 16 (Or.inr rfl) up c.toNat)
    have hb2 : ('#' :: 'x' :: (List.replicate z '0' ++ digits 16 up c.toNat)).all (fun c => c ≠ '&' ∧ c ≠ ';') = true := by
      simp only [List.all_cons, hbody, Bool.and_true]; decide
    simp only [escape1, List.cons_append, List.append_assoc, List.nil_append]
    rw [unesc_amp]
    have := unesc_ref ('#' :: 'x' :: (List.replicate z '0' ++ digits 16 up c.toNat)) [] r hb2
    simp only [List.cons_append, List.append_assoc, List.nil_append] at this
    rw [this]
    simp [resolve, parseNumber_hex z c.toNat up h (char_scalar c), Char.ofNat_toNat, thenRest]


end XmlEscape
