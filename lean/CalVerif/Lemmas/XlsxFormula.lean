import CalVerif.Model.XlsxFormula
import CalVerif.Lemmas.XlsxSheet
/-! Helper lemmas for C14 (xlsx stored-text formulas): `next_formula` run on the events the C01 encoder
    `XlsxSheet.renderSheet` produces. Same skeleton as `Lemmas/XlsxSheet.lean` (cell → cells → rows → sheet). -/
namespace XlsxFormula
open XlsxCells XlsxSheet
set_option linter.unusedSimpArgs false

/-- `step` folded over events -/
def steps : St → List Ev → Res St
  | st, [] => .ok st
  | st, ev :: rest =>
    match step st ev with
    | .ok st' => steps st' rest
    | .err e => .err e
    | .panic s => .panic s
    | .outOfFuel => .outOfFuel

theorem steps_append_ok (st st' : St) (a b : List Ev) (h : steps st a = .ok st') :
    steps st (a ++ b) = steps st' b := by
  induction a generalizing st with
  | nil => simp only [steps] at h; injection h with h; subst h; rfl
  | cons ev rest ih =>
    simp only [List.cons_append, steps] at h ⊢
    cases hs : step st ev with
    | ok st1 => rw [hs] at h; simp only at h ⊢; exact ih st1 h
    | err e => rw [hs] at h; cases h
    | panic s => rw [hs] at h; cases h
    | outOfFuel => rw [hs] at h; cases h

theorem steps_done (st : St) (evs : List Ev) (h : st.mode = .done) : steps st evs = .ok st := by
  induction evs with
  | nil => rfl
  | cons ev rest ih =>
    have : step st ev = .ok st := by unfold step; rw [h]
    simp only [steps, this, ih]

theorem run_of_steps (evs : List Ev) (st st' : St) (h : steps st evs = .ok st') (hd : st'.mode = .done) :
    run evs st = .ok st'.out.reverse := by
  induction evs generalizing st with
  | nil =>
    simp only [steps] at h; injection h with h; subst h
    simp [run, hd]
  | cons ev rest ih =>
    simp only [steps] at h
    cases hs : step st ev with
    | ok st1 =>
      rw [hs] at h; simp only at h
      simp only [run, hs]
      by_cases hm : st1.mode = .done
      · rw [steps_done st1 rest hm] at h
        injection h with h; subst h
        simp [hm]
      · simp only [hm, if_false]
        exact ih st1 h
    | err e => rw [hs] at h; cases h
    | panic s => rw [hs] at h; cases h
    | outOfFuel => rw [hs] at h; cases h

/-! ### the children of a rendered `<c>` -/

/-- `<f>text</f>` sets the value -/
theorem steps_formula (p : Bool) (pos : Nat × Nat) (row col : Nat) (out : List (Nat × Nat × Bytes)) (tb : SharedFormula.Table) (f : Option Bytes) :
    steps ⟨.cell pos none, row, col, out, tb⟩ (formulaEvents p f) = .ok ⟨.cell pos f, row, col, out, tb⟩ := by
  cases f with
  | none => simp [formulaEvents, steps]
  | some f =>
    unfold formulaEvents
    by_cases hf : f = []
    · subst hf
      simp [steps, step, getAttr]
    · simp [steps, step, getAttr, hf]

/-- character data (in any number of pieces) inside a skipped element is ignored -/
theorem steps_pieces_skip (pos : Nat × Nat) (v : Option Bytes) (name : Bytes) (d : Nat) (row col : Nat)
    (out : List (Nat × Nat × Bytes)) (tb : SharedFormula.Table) (chunks : List Bytes) :
    steps ⟨.skip pos v name d, row, col, out, tb⟩ (pieces chunks) = .ok ⟨.skip pos v name d, row, col, out, tb⟩ := by
  induction chunks with
  | nil => simp [pieces, steps]
  | cons c cs ih =>
    rw [pieces_cons]
    have h1 : steps ⟨.skip pos v name d, row, col, out, tb⟩ [.text c, .other] =
        .ok ⟨.skip pos v name d, row, col, out, tb⟩ := by simp [steps, step]
    rw [steps_append_ok _ _ _ _ h1, ih]

/-- `<v>…</v>` is skipped -/
theorem steps_v (p : Bool) (pos : Nat × Nat) (v : Option Bytes) (row col : Nat) (out : List (Nat × Nat × Bytes))
    (tb : SharedFormula.Table) (chunks : List Bytes) :
    steps ⟨.cell pos v, row, col, out, tb⟩ (vEvents p chunks) = .ok ⟨.cell pos v, row, col, out, tb⟩ := by
  unfold vEvents
  have h1 : steps ⟨.cell pos v, row, col, out, tb⟩ [.start (q p nV) []] =
      .ok ⟨.skip pos v (q p nV) 0, row, col, out, tb⟩ := by simp [steps, step, getAttr]
  have h2 := steps_pieces_skip pos v (q p nV) 0 row col out tb chunks
  have h3 : steps ⟨.skip pos v (q p nV) 0, row, col, out, tb⟩ [.stop (q p nV)] =
      .ok ⟨.cell pos v, row, col, out, tb⟩ := by simp [steps, step]
  rw [List.append_assoc, steps_append_ok _ _ _ _ h1, steps_append_ok _ _ _ _ h2, h3]

/-- the value children of a cell leave the formula text alone -/
theorem steps_content (p : Bool) (sp : Bytes → List Bytes) (pos : Nat × Nat) (v : Option Bytes) (c : Content) (row col : Nat)
    (out : List (Nat × Nat × Bytes)) (tb : SharedFormula.Table) :
    steps ⟨.cell pos v, row, col, out, tb⟩ (contentEvents p sp c).2 = .ok ⟨.cell pos v, row, col, out, tb⟩ := by
  cases c with
  | blank => simp [contentEvents, steps]
  | num t tn => exact steps_v p pos v row col out tb _
  | shared idx => exact steps_v p pos v row col out tb _
  | inline s =>
    simp only [contentEvents]
    have hne : (q p nT = q p nIs) = False := by
      rw [q_inj]; exact eq_false (by decide)
    have h1 : steps ⟨.cell pos v, row, col, out, tb⟩ [.start (q p nIs) [], .start (q p nT) []] =
        .ok ⟨.skip pos v (q p nIs) 0, row, col, out, tb⟩ := by simp [steps, step, getAttr, hne]
    have h2 := steps_pieces_skip pos v (q p nIs) 0 row col out tb (sp s)
    have h3 : steps ⟨.skip pos v (q p nIs) 0, row, col, out, tb⟩ [.stop (q p nT), .stop (q p nIs)] =
        .ok ⟨.cell pos v, row, col, out, tb⟩ := by simp [steps, step, hne]
    rw [List.append_assoc, steps_append_ok _ _ _ _ h1, steps_append_ok _ _ _ _ h2, h3]
  | fstr s => exact steps_v p pos v row col out tb _
  | bool b => exact steps_v p pos v row col out tb _
  | err k => exact steps_v p pos v row col out tb _
  | iso s => exact steps_v p pos v row col out tb _

/-! ### cells, rows, the sheet -/

/-- white space and comments between rows and cells are skipped -/
theorem steps_inert_rows (l : List Ev) (h : Inert l) (row col : Nat) (out : List (Nat × Nat × Bytes))
    (tb : SharedFormula.Table) : steps ⟨.rows, row, col, out, tb⟩ l = .ok ⟨.rows, row, col, out, tb⟩ := by
  induction l with
  | nil => rfl
  | cons ev rest ih =>
    have hrest : Inert rest := fun e he => h e (by simp [he])
    rcases h ev (by simp) with rfl | ⟨s, rfl⟩
    · simp only [steps, step]; exact ih hrest
    · simp only [steps, step]; exact ih hrest

/-- one rendered `<c>`: `next_formula` returns the cell at its position with the text of its `<f>` (or `""`)
    and moves the column cursor just past it -/
theorem steps_cell (lay : Layout) (hl : lay.Legal) (r c cur : Nat) (cs : CellSpec) (hr : r < 1048576) (hc : c < 16384)
    (out : List (Nat × Nat × Bytes)) (tb : SharedFormula.Table) :
    steps ⟨.rows, r, cur, out, tb⟩ (renderCell lay r c cur cs) =
      .ok ⟨.rows, r, c + 1, (r, c, cs.formula.getD []) :: out, tb⟩ := by
  simp only [renderCell]
  generalize hra : (if (lay.cellExplicit r c || c != cur) = true then [(nR, refName (lay.cellLower r c) r c)] else []) = ra
  have hra' : ra = [] ∨ ∃ v, ra = [(nR, v)] := by
    subst hra; split
    · exact Or.inr ⟨_, rfl⟩
    · exact Or.inl rfl
  generalize hp : lay.cellPfx r c = p
  have hta := contentEvents_attr p (lay.split r c) cs.content
  generalize hattrs : lay.cellArrange r c (ra ++ styleAttr cs.style ++ (contentEvents p (lay.split r c) cs.content).1) = attrs
  have hR : getAttr attrs nR = ra.head?.map (·.2) := by
    rw [← hattrs, hl.cellAttr r c _ nR (cell_base_distinct ra hra' cs.style _ hta) (Or.inl rfl)]; exact getAttr_cell_r ra hra' cs.style _ hta
  have h0 := steps_inert_rows (lay.gapCell r c) (hl.gaps.2.1 r c) r cur out tb
  have h1 : steps ⟨.rows, r, cur, out, tb⟩ [.start (q p nC) attrs] = .ok ⟨.cell (r, c) none, r, c, out, tb⟩ := by
    simp only [steps, step, ln_c, nC_ne_nRow, if_false, if_true, hR]
    subst hra
    by_cases hex : (lay.cellExplicit r c || c != cur) = true
    · simp only [hex, if_true, List.head?_cons, Option.map_some]
      rw [getRowColumn_refName _ r c (by simp only [U32]; omega) (by simp only [U32]; omega)]
    · have hcur : c = cur := by
        simp only [Bool.or_eq_true, bne_iff_ne, ne_eq, not_or, Bool.not_eq_true, Classical.not_not] at hex
        exact hex.2
      subst hcur
      simp only [hex, Bool.false_eq_true, if_false, List.head?_nil, Option.map_none]
  have h2 := steps_formula p (r, c) r c out tb cs.formula
  have h3 := steps_content p (lay.split r c) (r, c) cs.formula cs.content r c out tb
  have h4 : steps ⟨.cell (r, c) cs.formula, r, c, out, tb⟩ [.stop (q p nC)] =
      .ok ⟨.rows, r, c + 1, (r, c, cs.formula.getD []) :: out, tb⟩ := by
    have : satAdd c 1 = c + 1 := satAdd_eq (by simp only [U32]; omega)
    simp [steps, step, this]
  rw [List.append_assoc, List.append_assoc, List.append_assoc, steps_append_ok _ _ _ _ h0,
    steps_append_ok _ _ _ _ h1, steps_append_ok _ _ _ _ h2, steps_append_ok _ _ _ _ h3, h4]

/-- the formula cells of one row -/
def rowFormulas (r : Nat) (cells : List (Nat × CellSpec)) : List (Nat × Nat × Bytes) :=
  cells.map fun cell => (r, cell.1, cell.2.formula.getD [])

/-- the formula text of every stored cell of the sheet, row-major (`""` where the cell has no `<f>`) -/
def formulasOf (s : Sheet) : List (Nat × Nat × Bytes) :=
  s.flatMap fun row => rowFormulas row.1 row.2

theorem steps_cells (lay : Layout) (hl : lay.Legal) (r : Nat) (hr : r < 1048576) (cells : List (Nat × CellSpec))
    (cur : Nat) (hinc : Increasing 16384 cur cells) (out : List (Nat × Nat × Bytes)) (tb : SharedFormula.Table) :
    ∃ col, steps ⟨.rows, r, cur, out, tb⟩ (renderCells lay r cur cells) =
      .ok ⟨.rows, r, col, (rowFormulas r cells).reverse ++ out, tb⟩ := by
  induction cells generalizing cur out with
  | nil => exact ⟨cur, by simp [renderCells, steps, rowFormulas]⟩
  | cons cell rest ih =>
    obtain ⟨c, cs⟩ := cell
    obtain ⟨_, hc, hrest⟩ := hinc
    have h1 := steps_cell lay hl r c cur cs hr hc out tb
    obtain ⟨col, h2⟩ := ih (c + 1) hrest ((r, c, cs.formula.getD []) :: out)
    refine ⟨col, ?_⟩
    simp only [renderCells]
    rw [steps_append_ok _ _ _ _ h1, h2]
    simp [rowFormulas]

theorem steps_rows (lay : Layout) (hl : lay.Legal) (s : Sheet) (cur : Nat) (hinc : Increasing 1048576 cur s)
    (hcols : ∀ row ∈ s, Increasing 16384 0 row.2) (out : List (Nat × Nat × Bytes)) (tb : SharedFormula.Table) :
    ∃ row, steps ⟨.rows, cur, 0, out, tb⟩ (renderRows lay cur s) =
      .ok ⟨.rows, row, 0, (formulasOf s).reverse ++ out, tb⟩ := by
  induction s generalizing cur out with
  | nil => exact ⟨cur, by simp [renderRows, steps, formulasOf]⟩
  | cons rowspec rest ih =>
    obtain ⟨r, cells⟩ := rowspec
    obtain ⟨_, hr, hrest⟩ := hinc
    have h0 := steps_inert_rows (lay.gapRow r) (hl.gaps.1 r) cur 0 out tb
    have h1 : steps ⟨.rows, cur, 0, out, tb⟩
        [.start (q (lay.rowPfx r) nRow) (lay.rowArrange r (if (lay.rowExplicit r || r != cur) = true then [(nR, dec (r + 1))] else []))] =
        .ok ⟨.rows, r, 0, out, tb⟩ := by
      have hrow : getAttr (lay.rowArrange r (if (lay.rowExplicit r || r != cur) = true then [(nR, dec (r + 1))] else [])) nR =
          getAttr (if (lay.rowExplicit r || r != cur) = true then [(nR, dec (r + 1))] else []) nR :=
        hl.rowAttr r _ (by split <;> simp)
      simp only [steps, step, ln_row, if_true, hrow]
      by_cases hex : (lay.rowExplicit r || r != cur) = true
      · simp only [hex, if_true, getAttr, List.find?, beq_self_eq_true, Option.map_some]
        rw [getRow_dec r (by simp only [U32]; omega)]
      · have hcur : r = cur := by
          simp only [Bool.or_eq_true, bne_iff_ne, ne_eq, not_or, Bool.not_eq_true, Classical.not_not] at hex
          exact hex.2
        subst hcur
        have hre : lay.rowExplicit r = false := by simpa using hex
        simp [hre, getAttr]
    obtain ⟨col, h2⟩ := steps_cells lay hl r hr cells 0 (hcols (r, cells) (by simp)) out tb
    have h2' := steps_inert_rows (lay.gapRowEnd r) (hl.gaps.2.2.1 r) r col ((rowFormulas r cells).reverse ++ out) tb
    have h3 : steps ⟨.rows, r, col, (rowFormulas r cells).reverse ++ out, tb⟩ [.stop (q (lay.rowPfx r) nRow)] =
        .ok ⟨.rows, r + 1, 0, (rowFormulas r cells).reverse ++ out, tb⟩ := by
      have : satAdd r 1 = r + 1 := satAdd_eq (by simp only [U32]; omega)
      simp [steps, step, this]
    obtain ⟨row, h4⟩ := ih (r + 1) hrest (fun x hx => hcols x (by simp [hx])) ((rowFormulas r cells).reverse ++ out)
    refine ⟨row, ?_⟩
    simp only [renderRows]
    rw [List.append_assoc, List.append_assoc, List.append_assoc, List.append_assoc, steps_append_ok _ _ _ _ h0,
      steps_append_ok _ _ _ _ h1, steps_append_ok _ _ _ _ h2, steps_append_ok _ _ _ _ h2',
      steps_append_ok _ _ _ _ h3, h4]
    simp [formulasOf]

/-- `next_formula` on a rendered sheet: exactly the cells of the sheet, row-major, each with its formula text -/
theorem readFormulas_render (s : Sheet) (lay : Layout) (hl : lay.Legal) (hwf : s.WF) :
    readFormulas (renderSheet s lay) = .ok (formulasOf s) := by
  unfold readFormulas
  rw [readerNew_render s lay hl]
  let tb : SharedFormula.Table := []
  obtain ⟨row, h1⟩ := steps_rows lay hl s 0 hwf.1 hwf.2 [] tb
  have h2 := steps_inert_rows lay.gapEnd hl.gaps.2.2.2 row 0 ((formulasOf s).reverse ++ []) tb
  have h3 : steps ⟨.rows, row, 0, (formulasOf s).reverse ++ [], tb⟩ [.stop (q lay.pfx nSheetData)] =
      .ok ⟨.done, row, 0, (formulasOf s).reverse ++ [], tb⟩ := by
    simp [steps, step]
  have h4 := steps_done ⟨.done, row, 0, (formulasOf s).reverse ++ [], tb⟩ (lay.after ++ [.stop (q lay.pfx nWorksheet)]) rfl
  have hall : steps initSt (renderBody s lay) = .ok ⟨.done, row, 0, (formulasOf s).reverse ++ [], tb⟩ := by
    unfold renderBody
    simp only [initSt, List.append_assoc]
    rw [steps_append_ok _ _ _ _ h1, steps_append_ok _ _ _ _ h2, steps_append_ok _ _ _ _ h3, h4]
  have := run_of_steps _ initSt _ hall rfl
  simp only
  rw [this]
  simp

end XlsxFormula
