import CalVerif.Props.C05
/-! `Range::from_sparse` on cells in strict row-major order (what a well-formed worksheet delivers): used by C02. -/
namespace Range

variable {α : Type} [Inhabited α]

/-- strict row-major order of two cells -/
def posLt (a b : Nat × Nat × α) : Prop := a.1 < b.1 ∨ (a.1 = b.1 ∧ a.2.1 < b.2.1)

omit [Inhabited α] in
theorem pairwise_le_last : ∀ (l : List (Nat × Nat × α)) (hne : l ≠ []), l.Pairwise posLt →
    ∀ c ∈ l, c.1 ≤ (l.getLast hne).1
  | [x], _, _, c, hc => by simp at hc; subst hc; simp
  | x :: y :: l, _, hp, c, hc => by
    rw [List.getLast_cons (by simp)]
    have hp' := List.pairwise_cons.mp hp
    have ih := pairwise_le_last (y :: l) (by simp) hp'.2
    simp only [List.mem_cons] at hc
    rcases hc with rfl | hc
    · have h1 := hp'.1 ((y :: l).getLast (by simp)) (List.getLast_mem _)
      unfold posLt at h1; omega
    · exact ih c (by simpa using hc)

/-- `from_sparse` on cells in strict row-major order inside the BIFF8 grid: it succeeds, the range is the tight
    bounding box, every cell is at its position, everything else is the default -/
theorem fromSparse_sorted (cells : List (Nat × Nat × α)) (hs : cells.Pairwise posLt)
    (hb : ∀ c ∈ cells, c.1 < 65536 ∧ c.2.1 < 256) :
    ∃ r, fromSparse cells = .ok r ∧ (cells = [] → r.inner.length = 0) ∧
      (cells ≠ [] → r.inner.length ≠ 0 ∧
        (∀ c ∈ cells, r.sr ≤ c.1 ∧ c.1 ≤ r.er ∧ r.sc ≤ c.2.1 ∧ c.2.1 ≤ r.ec) ∧
        (∃ c ∈ cells, c.1 = r.sr) ∧ (∃ c ∈ cells, c.1 = r.er) ∧
        (∃ c ∈ cells, c.2.1 = r.sc) ∧ (∃ c ∈ cells, c.2.1 = r.ec)) ∧
      (∀ c ∈ cells, r.valAt c.1 c.2.1 = c.2.2) ∧
      (∀ p q, (∀ c ∈ cells, ¬ (c.1 = p ∧ c.2.1 = q)) → r.valAt p q = default) := by
  cases hcells : cells with
  | nil =>
    refine ⟨empty, rfl, fun _ => rfl, fun h => absurd rfl h, by simp, ?_⟩
    intro p q _
    exact valAt_of_out _ _ _ (by simp [empty])
  | cons c0 rest =>
    have hne : cells ≠ [] := by rw [hcells]; simp
    have hlast := pairwise_le_last cells hne hs
    have hc0 : ∀ c ∈ cells, c0.1 ≤ c.1 := by
      intro c hc
      rw [hcells] at hc hs
      simp only [List.mem_cons] at hc
      rcases hc with rfl | hc
      · exact Nat.le_refl _
      · have := (List.pairwise_cons.mp hs).1 c hc
        unfold posLt at this; omega
    have hgl : cells.getLast?.getD c0 = cells.getLast hne := by
      rw [List.getLast?_eq_some_getLast hne]; rfl
    have hpre : sparsePreSorted cells := by
      rw [hcells]; simp only [sparsePreSorted]; rw [← hcells, hgl]
      refine ⟨fun c hc => ⟨hc0 c hc, hlast c hc, ?_, ?_⟩, ?_, ?_⟩
      · have := (hb c hc).1; simp only [U32]; omega
      · have := (hb c hc).2; simp only [U32]; omega
      · have := (hb _ (List.getLast_mem hne)).1; simp only [U32]; omega
      · intro c hc c' hc'
        have := (hb c' hc').2; simp only [U32]; omega
    obtain ⟨r, hr⟩ := fromSparse_of_pre cells (sparsePre_of_old cells hpre)
    obtain ⟨hpos, hsr, her, hmem, hec, hsc, _⟩ := fromSparse_spec cells hne r hr (rowsBetween_of_old cells hne hpre)
    rw [← hcells]
    refine ⟨r, hr, fun h => absurd h hne, fun _ => ⟨hpos, ?_, ?_, ?_, ?_, hec⟩, ?_, ?_⟩
    · intro c hc
      have := hmem c hc
      have h2 := hlast c hc
      rw [← her] at h2
      exact ⟨this.1, h2, this.2.1, this.2.2⟩
    · exact ⟨cells.head hne, List.head_mem hne, hsr.symm⟩
    · exact ⟨cells.getLast hne, List.getLast_mem hne, her.symm⟩
    · exact hsc (fun c hc => by have := (hb c hc).2; simp only [U32]; omega)
    · intro c hc
      obtain ⟨l1, l2, e⟩ := List.append_of_mem hc
      have hrow : c.1 ≤ r.er := by rw [her]; exact hlast c hc
      have hl2 : ∀ c' ∈ l2, ¬ (c'.1 = c.1 ∧ c'.2.1 = c.2.1) := by
        intro c' hc' heq
        rw [e] at hs
        have h1 := (List.pairwise_append.mp hs).2.1
        have h2 := (List.pairwise_cons.mp h1).1 c' hc'
        unfold posLt at h2; omega
      rw [e] at hr
      exact fromSparse_last_wins l1 l2 c r hr hl2
    · intro p q hno
      exact fromSparse_untouched cells r hr p q hno

end Range
