import CalVerif.Model.OdsCount
/-! Helper lemmas for the count lexing of C04. -/
namespace OdsCount

/-- a decimal digit character -/
def IsDigit (c : Char) : Prop := 48 ≤ c.toNat ∧ c.toNat ≤ 57

/-- the number a list of decimal digits denotes (leading zeros allowed) -/
def valOf (ds : List Char) : Nat := ds.foldl (fun a c => a * 10 + (c.toNat - 48)) 0

theorem parseDigits_digits : ∀ (ds : List Char) (acc : Nat), (∀ c ∈ ds, IsDigit c) →
    parseDigits ds acc = some (ds.foldl (fun a c => a * 10 + (c.toNat - 48)) acc)
  | [], _, _ => rfl
  | c :: r, acc, h => by
    have hc : IsDigit c := h c (by simp)
    have hc' : (48 ≤ c.toNat ∧ c.toNat ≤ 57) := hc
    simp only [parseDigits, digitVal, List.foldl_cons, if_pos hc']
    exact parseDigits_digits r _ (fun x hx => h x (by simp [hx]))

theorem isWs_digit (c : Char) (h : IsDigit c) : isWs c = false := by
  obtain ⟨h1, h2⟩ := h
  simp only [isWs]
  have : c.toNat ≠ 32 ∧ c.toNat ≠ 0x85 ∧ c.toNat ≠ 0xA0 ∧ c.toNat ≠ 0x1680 ∧ c.toNat ≠ 0x2028 ∧ c.toNat ≠ 0x2029 ∧
      c.toNat ≠ 0x202F ∧ c.toNat ≠ 0x205F ∧ c.toNat ≠ 0x3000 := by omega
  simp [this]
  omega

theorem isWs_plus : isWs '+' = false := by decide

theorem dropWhile_ws_append (ws rest : List Char) (hws : ∀ c ∈ ws, isWs c = true) :
    (ws ++ rest).dropWhile isWs = rest.dropWhile isWs := by
  induction ws with
  | nil => rfl
  | cons c r ih =>
    simp only [List.cons_append, List.dropWhile_cons, hws c (by simp), if_true]
    exact ih (fun x hx => hws x (by simp [hx]))

theorem dropWhile_head_not (c : Char) (r : List Char) (h : isWs c = false) :
    (c :: r).dropWhile isWs = c :: r := by
  simp [h]

/-- trimming removes the blanks around a core that neither starts nor ends with white space -/
theorem trim_core (pre core post : List Char) (hpre : ∀ c ∈ pre, isWs c = true) (hpost : ∀ c ∈ post, isWs c = true)
    (a z : Char) (mid : List Char) (hcore : core = a :: mid ∨ core = [a])
    (hlast : core.getLast? = some z) (ha : isWs a = false) (hz : isWs z = false) :
    trim (pre ++ core ++ post) = core := by
  unfold trim
  rw [List.append_assoc, dropWhile_ws_append pre _ hpre]
  have hne : core ≠ [] := by rcases hcore with h | h <;> simp [h]
  have hd : (core ++ post).dropWhile isWs = core ++ post := by
    rcases hcore with h | h <;> subst h <;> simp [ha]
  rw [hd, List.reverse_append, dropWhile_ws_append post.reverse _ (fun c hc => hpost c (by simpa using hc))]
  obtain ⟨init, rfl⟩ : ∃ init, core = init ++ [z] := by
    rcases List.getLast?_eq_some_iff.1 hlast with ⟨init, h⟩
    exact ⟨init, h⟩
  simp [hz]

end OdsCount
