import CalVerif.Model.Ovba
/-! Specification of the MS-OVBA 2.4.1 compressed container (property C18): abstract syntax of a container
    (`Chunk`, `Token`), what it stands for (`expand`), how it is laid out as bytes (`serialize`), and which
    containers are well formed (`Valid`). The driver uses `serialize` to produce the test containers, so the bytes
    the real `decompress_stream` sees are exactly the bytes `decompress_correct` speaks about. -/

namespace Ovba

inductive Token where
  | lit (b : UInt8)
  | copy (off len : Nat)
  deriving Repr, DecidableEq

inductive Chunk where
  /-- a raw chunk: exactly 4096 bytes of data -/
  | raw (bytes : Bytes)
  /-- a compressed chunk: a token sequence -/
  | compressed (toks : List Token)
  deriving Repr, DecidableEq

/-! ### meaning -/

/-- byte-by-byte copy of `n` bytes from `off` bytes back (overlap allowed): MS-OVBA 2.4.1.3.11 Byte Copy -/
def copySpec (off : Nat) : Nat → Bytes → Bytes
  | 0, res => res
  | n + 1, res => copySpec off n (res ++ [res.getD (res.length - off) 0])

def applyToken (res : Bytes) : Token → Bytes
  | .lit b => res ++ [b]
  | .copy off len => copySpec off len res

/-- the bytes a token sequence produces, starting from the chunk-local output `cur` -/
def expandFrom (cur : Bytes) (toks : List Token) : Bytes := toks.foldl applyToken cur

def expandChunk : Chunk → Bytes
  | .raw bs => bs
  | .compressed toks => expandFrom [] toks

/-- the decompressed buffer of a container -/
def expand (cs : List Chunk) : Bytes := cs.flatMap expandChunk

/-- number of bytes a token produces -/
def Token.outLen : Token → Nat
  | .lit _ => 1
  | .copy _ len => len

def outLen (toks : List Token) : Nat := (toks.map Token.outLen).sum

/-- number of bytes a chunk stands for (`= (expandChunk c).length`, lemma `expandChunk_length`) -/
def chunkOutLen : Chunk → Nat
  | .raw bs => bs.length
  | .compressed toks => outLen toks

/-! ### layout -/

/-- MS-OVBA 2.4.1.3.19.1 CopyToken Help: `BitCount = max(⌈log2(difference)⌉, 4)`; the offset field has `bitCount d`
    bits, the length field the remaining `16 - bitCount d` bits. (`Ovba.bitCount` is the code's computation;
    `bitcount_spec` proves it is this formula.) -/
def lengthMask (d : Nat) : Nat := 2 ^ (16 - bitCount d) - 1

/-- longest copy at position `d` of the chunk -/
def maxLen (d : Nat) : Nat := lengthMask d + 3

/-- the 16-bit copy token at position `d`: offset-1 in the high `bitCount d` bits, length-3 in the low bits -/
def packCopy (d off len : Nat) : Nat := (off - 1) * 2 ^ (16 - bitCount d) + (len - 3)

def serToken (d : Nat) : Token → Bytes
  | .lit b => [b]
  | .copy off len => let w := packCopy d off len; [UInt8.ofNat (w % 256), UInt8.ofNat (w / 256)]

/-- token bodies of one flag group, `d` = bytes already produced in the chunk -/
def serBody : Nat → List Token → Bytes
  | _, [] => []
  | d, t :: ts => serToken d t ++ serBody (d + t.outLen) ts

/-- flag byte of a group: bit k is set iff the k-th token is a copy token -/
def flagByte : List Token → Nat
  | [] => 0
  | .lit _ :: ts => 2 * flagByte ts
  | .copy _ _ :: ts => 1 + 2 * flagByte ts

/-- groups of 8 tokens, each preceded by its flag byte (`fuel` ≥ number of tokens) -/
def serGroups : Nat → Nat → List Token → Bytes
  | 0, _, _ => []
  | fuel + 1, d, toks =>
    match toks with
    | [] => []
    | _ :: _ =>
      UInt8.ofNat (flagByte (toks.take 8)) ::
        (serBody d (toks.take 8) ++ serGroups fuel (d + outLen (toks.take 8)) (toks.drop 8))

/-- CompressedChunkData of a token sequence -/
def serTokens (toks : List Token) : Bytes := serGroups toks.length 0 toks

/-- chunk header (u16 little endian): bits 0–11 = size of the whole chunk − 3, bits 12–14 = 0b011,
    bit 15 = 1 for a compressed chunk; then the data -/
def serChunk : Chunk → Bytes
  | .raw bs => [0xFF, 0x3F] ++ bs
  | .compressed toks =>
    let data := serTokens toks
    let h := 0xB000 + (data.length - 1)
    [UInt8.ofNat (h % 256), UInt8.ofNat (h / 256)] ++ data

/-- CompressedContainer without its signature byte -/
def serialize (cs : List Chunk) : Bytes := cs.flatMap serChunk

/-- the whole container: signature byte 0x01, then the chunks -/
def container (cs : List Chunk) : Bytes := 0x01 :: serialize cs

/-! ### well-formedness -/

/-- every copy token reaches back at most to the chunk start and at least one byte (`1 ≤ off ≤ d`), has a length the
    position-dependent field can hold (`3 ≤ len ≤ maxLen d`) and the chunk never grows beyond 4096 bytes -/
def validTokens : Nat → List Token → Bool
  | _, [] => true
  | d, .lit _ :: ts => decide (d + 1 ≤ 4096) && validTokens (d + 1) ts
  | d, .copy off len :: ts =>
    decide (1 ≤ off) && decide (off ≤ d) && decide (3 ≤ len) && decide (len ≤ maxLen d)
      && decide (d + len ≤ 4096) && validTokens (d + len) ts

/-- what `decompress_correct` needs of one chunk -/
def decodableChunk : Chunk → Bool
  | .raw bs => decide (bs.length = 4096)
  | .compressed toks => !toks.isEmpty && validTokens 0 toks && decide ((serTokens toks).length ≤ 4096)

def Decodable (cs : List Chunk) : Prop := ∀ c ∈ cs, decodableChunk c = true

/-- a well-formed container in the sense of MS-OVBA: decodable chunks, and every chunk except the last one
    stands for exactly 4096 bytes -/
def validChunks : List Chunk → Bool
  | [] => true
  | [c] => decodableChunk c
  | c :: cs => decodableChunk c && decide (chunkOutLen c = 4096) && validChunks cs

def Valid (cs : List Chunk) : Prop := validChunks cs = true

instance (cs : List Chunk) : Decidable (Valid cs) := inferInstanceAs (Decidable (_ = true))

end Ovba
