import CalVerif.Model.Ptg
/-! Specification side of C14: the formula grammar the property quantifies over (`Expr`), its A1
    rendering (`renderA1`), its reverse-Polish token list (`toRpn`) and the two byte encodings of a
    token list (`encodeXls`: BIFF8 rgce, [MS-XLS] 2.5.198; `encodeXlsb`: [MS-XLSB] 2.5.97).
    The driver uses the same encoders to generate the token streams fed to the real decoders.

    `renderA1` is written from the property statement, independently of the decoders: spreadsheet column
    letters by the textbook recursion (`colName`), `$` exactly on the absolute components, the sheet a
    3-D reference designates through the XTI table, operators infix, arguments in order.
    Imports the model file only for `Bytes`, `natText`, `decodeUtf16` and the generated function table. -/

namespace Formula
open Ptg (Bytes natText)

/-! ### the grammar -/

structure CellRef where
  row : Nat
  col : Nat
  colAbs : Bool
  rowAbs : Bool
  deriving Repr, DecidableEq

inductive Tok where
  | ref (cls : Nat) (a : CellRef)
  | area (cls : Nat) (a b : CellRef)
  | ref3d (cls ixti : Nat) (a : CellRef)
  | area3d (cls ixti : Nat) (a b : CellRef)
  | refErr (cls : Nat)
  | areaErr (cls : Nat)
  | refErr3d (cls ixti : Nat)
  | areaErr3d (cls ixti : Nat)
  | name (cls idx : Nat)
  | int (n : Nat)
  | num (bits : Nat)
  | str (wide : Bool) (s : List Char)
  | bool (b : Bool)
  | err (code : Nat)
  | missArg
  | binop (op : Nat)
  | uplus
  | uminus
  | percent
  | paren
  | attrSum
  /-- PtgAttrSemi / If / Goto / Baxcel (etpg ∈ {1, 2, 8, 0x20, 0x21}) with their 2-byte operand: no text -/
  | attrSkip (etpg w : Nat)
  /-- PtgAttrChoose: `cOffset = offs.length - 1` then `cOffset + 1` 16-bit jump offsets (written after the selector of
      `CHOOSE`): no text -/
  | attrChoose (offs : List Nat)
  | func (cls iftab : Nat)
  | funcVar (cls argc iftab : Nat)
  deriving Repr, DecidableEq

/-- tokens that only move the cursor (jump tables of `IF` / `CHOOSE`, volatile marker): no text, no stack effect -/
def Tok.isInert : Tok → Bool
  | .attrSkip _ _ => true
  | .attrChoose _ => true
  | _ => false

/-- `cls` fields: the operand class of the token (0 reference, 1 value, 2 array: opcode + 0x20·cls);
    a layout choice that does not show in the text -/
inductive Expr where
  | ref (cls : Nat) (a : CellRef)
  | area (cls : Nat) (a b : CellRef)
  | ref3d (cls ixti : Nat) (a : CellRef)
  | area3d (cls ixti : Nat) (a b : CellRef)
  | name (cls idx : Nat)
  | int (n : Nat)
  | num (bits : Nat)
  | str (wide : Bool) (s : List Char)
  | bool (b : Bool)
  | err (code : Nat)
  | missing
  | uplus (e : Expr)
  | uminus (e : Expr)
  | percent (e : Expr)
  | paren (e : Expr)
  | sum (e : Expr)
  | bin (op : Nat) (a b : Expr)
  | func (cls iftab : Nat) (args : List Expr)
  | funcVar (cls iftab : Nat) (args : List Expr)
  /-- an inert token written right after the sub-expression (where Excel puts PtgAttrIf / PtgAttrGoto / PtgAttrChoose /
      PtgAttrSemi inside `IF(…)` and `CHOOSE(…)`); it does not show in the text -/
  | inert (t : Tok) (e : Expr)
  deriving Repr

/-! ### A1 text -/

/-- what the text depends on besides the expression -/
structure Env where
  /-- name of the sheet a 3-D reference with this `ixti` designates -/
  sheet : Nat → List Char
  /-- defined name by 0-based index -/
  name : Nat → List Char
  /-- decimal text of an f64 given by its bits (Rust `Display`) -/
  fmtNum : Nat → List Char

/-- spreadsheet column letters, 0 ↦ A, 25 ↦ Z, 26 ↦ AA, 701 ↦ ZZ, 702 ↦ AAA, 16383 ↦ XFD -/
def colName (n : Nat) : List Char :=
  if n < 26 then [Char.ofNat (65 + n)] else colName (n / 26 - 1) ++ [Char.ofNat (65 + n % 26)]
termination_by n
decreasing_by omega

/-- letters → column index (inverse of `colName`) -/
def parseCol (l : List Char) : Nat :=
  l.foldl (fun acc c => acc * 26 + (c.toNat - 64)) 0 - 1

def cellText (a : CellRef) : List Char :=
  (if a.colAbs then ['$'] else []) ++ colName a.col ++ (if a.rowAbs then ['$'] else []) ++ natText (a.row + 1)

def opName (op : Nat) : List Char :=
  match op with
  | 0x03 => "+".toList | 0x04 => "-".toList | 0x05 => "*".toList | 0x06 => "/".toList
  | 0x07 => "^".toList | 0x08 => "&".toList | 0x09 => "<".toList | 0x0A => "<=".toList
  | 0x0B => "=".toList | 0x0C => ">".toList | 0x0D => ">=".toList | 0x0E => "<>".toList
  | 0x0F => " ".toList | 0x10 => ",".toList | 0x11 => ":".toList | _ => []

def errName (code : Nat) : List Char :=
  match code with
  | 0x00 => "#NULL!".toList | 0x07 => "#DIV/0!".toList | 0x0F => "#VALUE!".toList
  | 0x17 => "#REF!".toList | 0x1D => "#NAME?".toList | 0x24 => "#NUM!".toList
  | 0x2A => "#N/A".toList | 0x2B => "#GETTING_DATA".toList | _ => []

/-- function name by index: the generated copy of `FTAB` (no independent source offline) -/
def funcName (iftab : Nat) : List Char := ((Gen.ftab[iftab]?).map String.toList).getD []

mutual
def renderA1 (env : Env) : Expr → List Char
  | .ref _ a => cellText a
  | .area _ a b => cellText a ++ ':' :: cellText b
  | .ref3d _ ixti a => env.sheet ixti ++ '!' :: cellText a
  | .area3d _ ixti a b => env.sheet ixti ++ '!' :: cellText a ++ ':' :: cellText b
  | .name _ idx => env.name idx
  | .int n => natText n
  | .num bits => env.fmtNum bits
  | .str _ s => '"' :: s ++ ['"']
  | .bool b => if b then "TRUE".toList else "FALSE".toList
  | .err code => errName code
  | .missing => []
  | .uplus e => '+' :: renderA1 env e
  | .uminus e => '-' :: renderA1 env e
  | .percent e => renderA1 env e ++ ['%']
  | .paren e => '(' :: renderA1 env e ++ [')']
  | .sum e => "SUM(".toList ++ renderA1 env e ++ [')']
  | .bin op a b => renderA1 env a ++ opName op ++ renderA1 env b
  | .func _ iftab args => funcName iftab ++ '(' :: renderArgs env args ++ [')']
  | .funcVar _ iftab args => funcName iftab ++ '(' :: renderArgs env args ++ [')']
  | .inert _ e => renderA1 env e
def renderArgs (env : Env) : List Expr → List Char
  | [] => []
  | [a] => renderA1 env a
  | a :: b :: rest => renderA1 env a ++ ',' :: renderArgs env (b :: rest)
end

/-- the extern-sheet table as `xlsb read_workbook` resolves BrtExternSheet: one name per XTI entry -/
def resolveExtern (sheets : List (List Char)) (xtis : List Int) : List (List Char) :=
  xtis.map fun it =>
    if it = -2 then "#ThisWorkbook".toList else if it = -1 then "#InvalidWorkSheet".toList
    else if 0 ≤ it then (sheets[it.toNat]?).getD "#Unknown".toList else "#Unknown".toList

/-! ### reverse-Polish token list -/

mutual
def toRpn : Expr → List Tok
  | .ref c a => [.ref c a]
  | .area c a b => [.area c a b]
  | .ref3d c i a => [.ref3d c i a]
  | .area3d c i a b => [.area3d c i a b]
  | .name c i => [.name c i]
  | .int n => [.int n]
  | .num b => [.num b]
  | .str w s => [.str w s]
  | .bool b => [.bool b]
  | .err c => [.err c]
  | .missing => [.missArg]
  | .uplus e => toRpn e ++ [.uplus]
  | .uminus e => toRpn e ++ [.uminus]
  | .percent e => toRpn e ++ [.percent]
  | .paren e => toRpn e ++ [.paren]
  | .sum e => toRpn e ++ [.attrSum]
  | .bin op a b => toRpn a ++ toRpn b ++ [.binop op]
  | .func c iftab args => toRpnArgs args ++ [.func c iftab]
  | .funcVar c iftab args => toRpnArgs args ++ [.funcVar c args.length iftab]
  | .inert t e => toRpn e ++ [t]
def toRpnArgs : List Expr → List Tok
  | [] => []
  | a :: rest => toRpn a ++ toRpnArgs rest
end

/-! ### byte encodings -/

def le16 (n : Nat) : Bytes := [UInt8.ofNat (n % 256), UInt8.ofNat (n / 256 % 256)]
def le32 (n : Nat) : Bytes := le16 (n % 65536) ++ le16 (n / 65536 % 65536)
def le64 (n : Nat) : Bytes := le32 (n % 4294967296) ++ le32 (n / 4294967296 % 4294967296)

/-- ColRelU / ColRelShort: column in bits 0–13, bit 14 = column relative, bit 15 = row relative -/
def colRel (a : CellRef) : Nat :=
  a.col + (if a.colAbs then 0 else 0x4000) + (if a.rowAbs then 0 else 0x8000)

def opc (base cls : Nat) : UInt8 := UInt8.ofNat (base + 0x20 * cls)

/-- UTF-16 code units of a text -/
def utf16Units : List Char → List Nat
  | [] => []
  | c :: rest =>
    if c.toNat < 0x10000 then c.toNat :: utf16Units rest
    else (0xD800 + (c.toNat - 0x10000) / 1024) :: (0xDC00 + (c.toNat - 0x10000) % 1024) :: utf16Units rest

def unitsLe (us : List Nat) : Bytes := us.flatMap le16

def zeros (n : Nat) : Bytes := List.replicate n 0

def encXls : Tok → Bytes
  | .ref c a => opc 0x24 c :: le16 a.row ++ le16 (colRel a)
  | .area c a b => opc 0x25 c :: le16 a.row ++ le16 b.row ++ le16 (colRel a) ++ le16 (colRel b)
  | .ref3d c i a => opc 0x3A c :: le16 i ++ le16 a.row ++ le16 (colRel a)
  | .area3d c i a b => opc 0x3B c :: le16 i ++ le16 a.row ++ le16 b.row ++ le16 (colRel a) ++ le16 (colRel b)
  | .refErr c => opc 0x2A c :: zeros 4
  | .areaErr c => opc 0x2B c :: zeros 8
  | .refErr3d c i => opc 0x3C c :: le16 i ++ zeros 4
  | .areaErr3d c i => opc 0x3D c :: le16 i ++ zeros 8
  | .name c i => opc 0x23 c :: le32 (i + 1)
  | .int n => 0x1E :: le16 n
  | .num b => 0x1F :: le64 b
  | .str wide s =>
    let us := utf16Units s
    if wide then 0x17 :: UInt8.ofNat us.length :: 1 :: unitsLe us
    else 0x17 :: UInt8.ofNat us.length :: 0 :: us.map UInt8.ofNat
  | .bool b => [0x1D, if b then 1 else 0]
  | .err code => [0x1C, UInt8.ofNat code]
  | .missArg => [0x16]
  | .binop op => [UInt8.ofNat op]
  | .uplus => [0x12]
  | .uminus => [0x13]
  | .percent => [0x14]
  | .paren => [0x15]
  | .attrSum => [0x19, 0x10, 0, 0]
  | .attrSkip e w => 0x19 :: UInt8.ofNat e :: le16 w
  | .attrChoose offs => 0x19 :: 0x04 :: le16 (offs.length - 1) ++ unitsLe offs
  | .func c iftab => opc 0x21 c :: le16 iftab
  | .funcVar c argc iftab => opc 0x22 c :: UInt8.ofNat argc :: le16 iftab

def encXlsb : Tok → Bytes
  | .ref c a => opc 0x24 c :: le32 a.row ++ le16 (colRel a)
  | .area c a b => opc 0x25 c :: le32 a.row ++ le32 b.row ++ le16 (colRel a) ++ le16 (colRel b)
  | .ref3d c i a => opc 0x3A c :: le16 i ++ le32 a.row ++ le16 (colRel a)
  | .area3d c i a b => opc 0x3B c :: le16 i ++ le32 a.row ++ le32 b.row ++ le16 (colRel a) ++ le16 (colRel b)
  | .refErr c => opc 0x2A c :: zeros 6
  | .areaErr c => opc 0x2B c :: zeros 12
  | .refErr3d c i => opc 0x3C c :: le16 i ++ zeros 6
  | .areaErr3d c i => opc 0x3D c :: le16 i ++ zeros 12
  | .name c i => opc 0x23 c :: le32 (i + 1)
  | .int n => 0x1E :: le16 n
  | .num b => 0x1F :: le64 b
  | .str _ s =>
    let us := utf16Units s
    0x17 :: le16 us.length ++ unitsLe us
  | .bool b => [0x1D, if b then 1 else 0]
  | .err code => [0x1C, UInt8.ofNat code]
  | .missArg => [0x16]
  | .binop op => [UInt8.ofNat op]
  | .uplus => [0x12]
  | .uminus => [0x13]
  | .percent => [0x14]
  | .paren => [0x15]
  | .attrSum => [0x19, 0x10, 0, 0]
  | .attrSkip e w => 0x19 :: UInt8.ofNat e :: le16 w
  | .attrChoose offs => 0x19 :: 0x04 :: le16 (offs.length - 1) ++ unitsLe offs
  | .func c iftab => opc 0x21 c :: le16 iftab
  | .funcVar c argc iftab => opc 0x22 c :: UInt8.ofNat argc :: le16 iftab

def encodeXls (ts : List Tok) : Bytes := ts.flatMap encXls
def encodeXlsb (ts : List Tok) : Bytes := ts.flatMap encXlsb

/-- the `rgce` argument of `xls.rs parse_formula`: `cce` then the tokens -/
def frameXls (body : Bytes) : Bytes := le16 body.length ++ body

/-! ### which expressions / tokens an encoding can carry -/

def CellRef.wf (maxRow : Nat) (a : CellRef) : Prop := a.row < maxRow ∧ a.col < 0x4000

/-- token fields fit their wire fields (`maxRow` = 2^16 for xls, 2^32 for xlsb; `maxStr` = 2^8 / 2^16) -/
def Tok.wf (xls : Bool) : Tok → Prop
  | .ref c a => c < 3 ∧ a.wf (if xls then 65536 else 4294967296)
  | .area c a b => c < 3 ∧ a.wf (if xls then 65536 else 4294967296) ∧ b.wf (if xls then 65536 else 4294967296)
  | .ref3d c i a => c < 3 ∧ i < 65536 ∧ a.wf (if xls then 65536 else 4294967296)
  | .area3d c i a b =>
    c < 3 ∧ i < 65536 ∧ a.wf (if xls then 65536 else 4294967296) ∧ b.wf (if xls then 65536 else 4294967296)
  | .refErr c => c < 3
  | .areaErr c => c < 3
  | .refErr3d c i => c < 3 ∧ i < 65536
  | .areaErr3d c i => c < 3 ∧ i < 65536
  | .name c i => c < 3 ∧ i + 1 < 4294967296
  | .int n => n < 65536
  | .num b => b < 18446744073709551616
  | .str wide s =>
    (utf16Units s).length < (if xls then 256 else 65536) ∧ (xls = true → wide = false → ∀ c ∈ s, c.toNat < 256)
  | .bool _ => True
  | .err code => code ∈ [0x00, 0x07, 0x0F, 0x17, 0x1D, 0x24, 0x2A, 0x2B]
  | .missArg => True
  | .binop op => 3 ≤ op ∧ op ≤ 0x11
  | .uplus => True
  | .uminus => True
  | .percent => True
  | .paren => True
  | .attrSum => True
  | .attrSkip e w => e ∈ [0x01, 0x02, 0x08, 0x20, 0x21] ∧ w < 65536
  | .attrChoose offs => 1 ≤ offs.length ∧ offs.length ≤ 65536 ∧ ∀ o ∈ offs, o < 65536
  | .func c iftab => c < 3 ∧ iftab < Gen.ftabLen
  | .funcVar c argc iftab => c < 3 ∧ argc < 256 ∧ iftab < Gen.ftabLen

end Formula
