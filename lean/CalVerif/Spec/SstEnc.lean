import CalVerif.Model.BiffStrings
/-! Encoder for the BIFF8 shared-string table (SST record + CONTINUE records, [MS-XLS] 2.4.265 / 2.5.293)
    under an explicit *layout* λ: where the writer breaks the table into CONTINUE records and how each
    character segment is packed. The same definitions generate the test inputs (driver `enc`/`case`). -/

namespace Biff

/-- what a writer emits: payload bytes, or "close this record, open a CONTINUE record" -/
inductive Tok where
  | b : Bytes → Tok
  | cut : Tok
  deriving Repr, DecidableEq

/-- token stream → (rest of the current fragment, following fragments): exactly the shape of the
    reader state `Rd` -/
def lay : List Tok → Bytes × List Bytes
  | [] => ([], [])
  | .b x :: ts => (x ++ (lay ts).1, (lay ts).2)
  | .cut :: ts => ([], (lay ts).1 :: (lay ts).2)

/-- one string of the table: UTF-16 code units, optional rich-text runs (rgRun, 4 bytes each),
    optional phonetic/extended block (ExtRst) -/
structure Entry where
  units : List Nat
  runs : Option Bytes := none
  ext : Option Bytes := none
  deriving Repr, DecidableEq

/-- layout of one entry. `cuts`: one element per CONTINUE break inside the characters =
    (number of units in the segment that ends at this break, packing of the segment that follows: `true` = 16-bit).
    `runCuts` / `extCuts`: sizes of the chunks that end at each break inside rgRun / ExtRst. -/
structure EntryLayout where
  cutBefore : Bool := false
  wide0 : Bool := true
  cuts : List (Nat × Bool) := []
  runCuts : List Nat := []
  extCuts : List Nat := []
  deriving Repr, DecidableEq

def byte (n : Nat) : UInt8 := UInt8.ofNat (n % 256)
def le16 (n : Nat) : Bytes := [byte n, byte (n / 256)]
def le32 (n : Nat) : Bytes := [byte n, byte (n / 256), byte (n / 65536), byte (n / 16777216)]

/-- the characters of one segment: 16-bit little endian, or one byte per unit ("compressed") -/
def encUnits (wide : Bool) (us : List Nat) : Bytes :=
  if wide then us.flatMap le16 else us.map byte

/-- cut a list into `sizes.length + 1` pieces: the given sizes, then the remainder -/
def splitSizes {α : Type} : List α → List Nat → List (List α)
  | l, [] => [l]
  | l, n :: ns => l.take n :: splitSizes (l.drop n) ns

def flagByte (wide : Bool) : UInt8 := if wide then 1 else 0

def headerFlags (wide rich ext : Bool) : Nat :=
  (if wide then 1 else 0) + (if ext then 4 else 0) + (if rich then 8 else 0)

/-- cch, flags, [cRun], [cbExtRst] -/
def header (e : Entry) (wide0 : Bool) : Bytes :=
  le16 e.units.length ++ [byte (headerFlags wide0 e.runs.isSome e.ext.isSome)]
    ++ (match e.runs with | some r => le16 (r.length / 4) | none => [])
    ++ (match e.ext with | some x => le32 x.length | none => [])

/-- continuation segments: each starts a new CONTINUE record with a fresh flag byte -/
def contToks : List (List Nat × Bool) → List Tok
  | [] => []
  | (s, w) :: rest => .cut :: .b (flagByte w :: encUnits w s) :: contToks rest

/-- a byte block (rgRun / ExtRst) broken into chunks: no flag bytes -/
def chunkToks : List Bytes → List Tok
  | [] => []
  | c :: cs => .cut :: .b c :: chunkToks cs

def blockToks (block : Option Bytes) (cuts : List Nat) : List Tok :=
  match block with
  | none => []
  | some bs => .b ((splitSizes bs cuts).headD []) :: chunkToks (splitSizes bs cuts).tail

/-- the character segments of an entry under a layout: first segment, then (segment, packing) per break -/
def segments (e : Entry) (ly : EntryLayout) : List (List Nat) := splitSizes e.units (ly.cuts.map (·.1))

/-- the characters: first segment right after the header, then one CONTINUE record per further segment -/
def charToks (e : Entry) (ly : EntryLayout) : List Tok :=
  .b (encUnits ly.wide0 ((segments e ly).headD []))
    :: contToks ((segments e ly).tail.zip (ly.cuts.map (·.2)))

def entryBody (e : Entry) (ly : EntryLayout) : List Tok :=
  .b (header e ly.wide0) :: (charToks e ly ++ (blockToks e.runs ly.runCuts ++ blockToks e.ext ly.extCuts))

def entryToks (e : Entry) (ly : EntryLayout) : List Tok :=
  if ly.cutBefore then .cut :: entryBody e ly else entryBody e ly

def tableToks : List Entry → List EntryLayout → List Tok
  | [], _ => []
  | e :: es, [] => entryToks e {} ++ tableToks es []
  | e :: es, ly :: lys => entryToks e ly ++ tableToks es lys

/-- fragments of the encoded table: the SST record's payload, then the CONTINUE payloads -/
def encodeSst (cstTotal : Nat) (table : List Entry) (lys : List EntryLayout) : List Bytes :=
  let l := lay (.b (le32 cstTotal ++ le32 table.length) :: tableToks table lys)
  l.1 :: l.2

def recHdr (typ len : Nat) : Bytes := le16 typ ++ le16 len

def frameConts : List Bytes → Bytes
  | [] => []
  | f :: fs => recHdr 0x3C f.length ++ f ++ frameConts fs

/-- a record and its CONTINUE records as stream bytes (4-byte headers) -/
def frameRec (typ : Nat) (data : Bytes) (conts : List Bytes) : Bytes :=
  recHdr typ data.length ++ data ++ frameConts conts

def frameSst : List Bytes → Bytes
  | [] => []
  | f :: fs => frameRec 0xFC f fs

/-! ### strings that live inside one record -/

/-- bytes of an XLUnicodeString (BIFF8): cch, flags, characters -/
def xlUnicodeString (wide : Bool) (us : List Nat) : Bytes := le16 us.length ++ (flagByte wide :: encUnits wide us)
/-- bytes of a ShortXLUnicodeString (BIFF8): cch (1 byte), flags, characters -/
def shortXlUnicodeString (wide : Bool) (us : List Nat) : Bytes := byte us.length :: flagByte wide :: encUnits wide us

/-! ### text ↔ UTF-16 code units -/

/-- Unicode scalar value -/
def isScalar (c : Nat) : Prop := c < 0xD800 ∨ (0xE000 ≤ c ∧ c < 0x110000)

instance (c : Nat) : Decidable (isScalar c) := by unfold isScalar; infer_instance

/-- UTF-16 code units of a text (list of scalar values): BMP as is, astral as a surrogate pair -/
def utf16 : List Nat → List Nat
  | [] => []
  | c :: cs =>
    if c < 0x10000 then c :: utf16 cs
    else (0xD800 + (c - 0x10000) / 0x400) :: (0xDC00 + (c - 0x10000) % 0x400) :: utf16 cs

/-! ### Legal layouts -/

def noPairSplit (a b : List Nat) : Prop :=
  ¬ ((a.getLast?.map isHigh = some true) ∧ (b.head?.map isLow = some true))

instance (a b : List Nat) : Decidable (noPairSplit a b) := by unfold noPairSplit; infer_instance

/-- adjacent segments never separate a high surrogate from its low surrogate (not a condition of `Legal` any
    more — the reader decodes the units of all segments at once since fix 6b3ea5c; kept for `segments_decode_as_whole`) -/
def pairsKept : List (List Nat) → Prop
  | a :: b :: rest => noPairSplit a b ∧ pairsKept (b :: rest)
  | _ => True

instance : (l : List (List Nat)) → Decidable (pairsKept l)
  | [] => isTrue trivial
  | [_] => isTrue trivial
  | a :: b :: rest =>
    have := instDecidablePairsKept (b :: rest)
    by unfold pairsKept; infer_instance

def packOk (p : List Nat × Bool) : Prop := p.2 = false → ∀ u ∈ p.1, u < 256

instance (p : List Nat × Bool) : Decidable (packOk p) := by unfold packOk; infer_instance

def blockOk (block : Option Bytes) (cuts : List Nat) : Prop :=
  match block with
  | none => True
  | some bs => ∀ c ∈ (splitSizes bs cuts).tail, c ≠ []

instance (block : Option Bytes) (cuts : List Nat) : Decidable (blockOk block cuts) := by
  unfold blockOk; cases block <;> infer_instance

def runsLenOk : Option Bytes → Prop
  | none => True
  | some r => r.length % 4 = 0 ∧ r.length / 4 < 65536

instance : (o : Option Bytes) → Decidable (runsLenOk o)
  | none => isTrue trivial
  | some r => by unfold runsLenOk; infer_instance

def extLenOk : Option Bytes → Prop
  | none => True
  | some x => x.length < 2147483648

instance : (o : Option Bytes) → Decidable (extLenOk o)
  | none => isTrue trivial
  | some x => by unfold extLenOk; infer_instance

/-- what the reader needs of one entry and its layout (the part of legality the theorems use) -/
structure EntryOk (e : Entry) (ly : EntryLayout) : Prop where
  unitsLt : ∀ u ∈ e.units, u < 65536
  cch : e.units.length < 65536
  /-- rgRun is a whole number (< 65536) of 4-byte FormatRuns -/
  runsLen : runsLenOk e.runs
  extLen : extLenOk e.ext
  /-- the last continuation segment holds at least one character (a CONTINUE record is opened only while
      characters are owed); the ones before it may hold the flag byte alone -/
  segsLast : ∀ s, (segments e ly).tail.getLast? = some s → s ≠ []
  /-- 8-bit packing only for segments whose units are all < 0x100 -/
  pack0 : packOk ((segments e ly).headD [], ly.wide0)
  packs : ∀ p ∈ (segments e ly).tail.zip (ly.cuts.map (·.2)), packOk p
  /-- every CONTINUE record opened inside rgRun / ExtRst holds at least one byte of the block -/
  runsOk : blockOk e.runs ly.runCuts
  extOk : blockOk e.ext ly.extCuts

instance (e : Entry) (ly : EntryLayout) : Decidable (EntryOk e ly) :=
  decidable_of_iff
    ((∀ u ∈ e.units, u < 65536) ∧ e.units.length < 65536
      ∧ runsLenOk e.runs ∧ extLenOk e.ext
      ∧ (∀ s, (segments e ly).tail.getLast? = some s → s ≠ [])
      ∧ packOk ((segments e ly).headD [], ly.wide0)
      ∧ (∀ p ∈ (segments e ly).tail.zip (ly.cuts.map (·.2)), packOk p)
      ∧ blockOk e.runs ly.runCuts ∧ blockOk e.ext ly.extCuts)
    ⟨fun ⟨a, b, c, d, e5, f, g, i, j⟩ => ⟨a, b, c, d, e5, f, g, i, j⟩,
     fun ⟨a, b, c, d, e5, f, g, i, j⟩ => ⟨a, b, c, d, e5, f, g, i, j⟩⟩

/-- all entries fit their layouts (one layout per entry) -/
def TableOk : List Entry → List EntryLayout → Prop
  | [], [] => True
  | e :: es, ly :: lys => EntryOk e ly ∧ TableOk es lys
  | _, _ => False

instance : (t : List Entry) → (l : List EntryLayout) → Decidable (TableOk t l)
  | [], [] => isTrue trivial
  | [], _ :: _ => isFalse (fun h => h)
  | _ :: _, [] => isFalse (fun h => h)
  | e :: es, ly :: lys =>
    have := instDecidableTableOk es lys
    by unfold TableOk; infer_instance

/-- rich-text run breaks fall between FormatRuns (4-byte units), as [MS-XLS] prescribes -/
def runCutsAligned (lys : List EntryLayout) : Prop := ∀ ly ∈ lys, ∀ c ∈ ly.runCuts, c % 4 = 0

instance (lys : List EntryLayout) : Decidable (runCutsAligned lys) := by unfold runCutsAligned; infer_instance

/-- a legal layout λ for a table: per-entry conditions, table size, every record payload ≤ 8224 bytes,
    rgRun broken between runs only -/
structure Legal (cstTotal : Nat) (table : List Entry) (lys : List EntryLayout) : Prop where
  entries : TableOk table lys
  count : table.length < 2147483648
  total : cstTotal < 4294967296
  sizes : ∀ f ∈ encodeSst cstTotal table lys, f.length ≤ 8224
  aligned : runCutsAligned lys

instance (n : Nat) (t : List Entry) (l : List EntryLayout) : Decidable (Legal n t l) :=
  decidable_of_iff
    (TableOk t l ∧ t.length < 2147483648 ∧ n < 4294967296 ∧ (∀ f ∈ encodeSst n t l, f.length ≤ 8224) ∧ runCutsAligned l)
    ⟨fun ⟨a, b, c, d, e⟩ => ⟨a, b, c, d, e⟩, fun ⟨a, b, c, d, e⟩ => ⟨a, b, c, d, e⟩⟩

end Biff
