/-! Specification side of property C15: the token grammar of formula texts, its rendering, and
    the translation of a formula by an offset.

    Pinned reading of "cell reference" (DESIGN.md §6 C15): a maximal run of identifier characters
    (`A–Z a–z 0–9 _ . $` and non-ASCII characters) that matches `$?[A-Za-z]{1,3}$?[0-9]{1,7}` with
    column ≤ XFD and row in 1 … 1 048 576 and is followed neither by `(` (a function name such as
    `LOG10(`) nor by `!` (a sheet name such as `AB1!`) nor by `[` (a table name such as `Tbl1[`);
    everything inside `"…"` or `'…'` is opaque, and so is a bracketed span `[…]` (the specifier of a
    structured reference `Table1[[#This Row],[Q1]]`, or a workbook index `[1]`): brackets nest, and
    inside them `'` escapes the next character, WHATEVER it is (`'[`, `']`, `'#`, `'@`, and `''` — an
    apostrophe escapes an apostrophe, so a column name ending in `''` is followed by its real closing `]`).

    This file is independent of the model (`Model/SharedFormula.lean`): column letters are given
    in closed form, decimals by Lean's own `Nat.repr`. -/

namespace FormulaTokens

def MAX_ROWS : Nat := 1048576
def MAX_COLUMNS : Nat := 16384

inductive Tok where
  /-- cell reference; `col`, `row` 0-based; `colAbs`/`rowAbs`: the component carries a `$` -/
  | ref (colAbs : Bool) (col : Nat) (rowAbs : Bool) (row : Nat)
  /-- string literal `"s"` (`s` without `"`; a doubled quote `""` is two adjacent literals) -/
  | str (s : List Char)
  /-- sheet prefix `name!` or `'name'!` -/
  | sheet (name : List Char) (quoted : Bool)
  /-- function name or defined name (may contain digits and look like a cell) -/
  | ident (s : List Char)
  /-- number (digits and `.`) -/
  | num (s : List Char)
  /-- bracketed span `[s]`: structured-reference specifier or workbook index (opaque) -/
  | struct (s : List Char)
  /-- operator, parenthesis, separator, blank … : one non-identifier, non-quote, non-`[` character -/
  | punct (c : Char)
  deriving Repr, DecidableEq

/-- letter `k` (0 = `A`) -/
def letter (k : Nat) : Char := Char.ofNat (65 + k)

/-- column letters of the 0-based column index, in closed form:
    `A`…`Z` = 0…25, `AA`…`ZZ` = 26…701, `AAA`… = 702… -/
def colLetters (c : Nat) : List Char :=
  if c < 26 then [letter c]
  else if c < 702 then [letter ((c - 26) / 26), letter ((c - 26) % 26)]
  else [letter ((c - 702) / 676), letter ((c - 702) / 26 % 26), letter ((c - 702) % 26)]

/-- decimal numeral -/
def dec (n : Nat) : List Char := (Nat.repr n).toList

def dollar (b : Bool) : List Char := if b then ['$'] else []

def renderTok : Tok → List Char
  | .ref ca c ra r => dollar ca ++ colLetters c ++ dollar ra ++ dec (r + 1)
  | .str s => '"' :: s ++ ['"']
  | .sheet n true => '\'' :: n ++ ['\'', '!']
  | .sheet n false => n ++ ['!']
  | .ident s => s
  | .num s => s
  | .struct s => '[' :: s ++ [']']
  | .punct c => [c]

def render : List Tok → List Char
  | [] => []
  | t :: ts => renderTok t ++ render ts

/-- move a 0-based coordinate by `d` unless it is absolute -/
def move (abs : Bool) (x : Nat) (d : Int) : Nat := if abs then x else ((x : Int) + d).toNat

/-- translation by `(Δrow, Δcol)`: only the relative components of references move -/
def shiftTok (d : Int × Int) : Tok → Tok
  | .ref ca c ra r => .ref ca (move ca c d.2) ra (move ra r d.1)
  | t => t

def shift (ts : List Tok) (d : Int × Int) : List Tok := ts.map (shiftTok d)

/-- identifier characters -/
def identChar (c : Char) : Bool :=
  c.isAlphanum || c.toNat ≥ 128 || c = '$' || c = '_' || c = '.'

/-- value of a column name read as a bijective base-26 numeral (`A` = 1 … `Z` = 26), any case -/
def letterVal (c : Char) : Nat := if c.isUpper then c.toNat - 64 else c.toNat - 96
def colVal (l : List Char) : Nat := l.foldl (fun acc c => acc * 26 + letterVal c) 0
def decVal (l : List Char) : Nat := l.foldl (fun acc c => acc * 10 + (c.toNat - 48)) 0

def stripDollar : List Char → List Char
  | '$' :: t => t
  | t => t

/-- the text looks like a cell of the sheet: `$?[A-Za-z]{1,3}$?[0-9]{1,7}`, column ≤ XFD,
    1 ≤ row ≤ 1 048 576 -/
def cellLike (s : List Char) : Bool :=
  let t1 := stripDollar s
  let letters := t1.takeWhile Char.isAlpha
  let t3 := stripDollar (t1.dropWhile Char.isAlpha)
  let digits := t3.takeWhile Char.isDigit
  (t3.dropWhile Char.isDigit).isEmpty
    && 1 ≤ letters.length && letters.length ≤ 3 && 1 ≤ digits.length && digits.length ≤ 7
    && colVal letters ≤ MAX_COLUMNS && 1 ≤ decVal digits && decVal digits ≤ MAX_ROWS

/-- first character of the rendering -/
def firstChar (ts : List Tok) : Option Char := (render ts).head?

/-- the next character does not continue an identifier -/
def endsRun (next : Option Char) : Bool :=
  match next with
  | some c => !identChar c
  | none => true

/-- the next character is neither `(` nor `!` nor `[` -/
def notCallOrSheet (next : Option Char) : Bool :=
  match next with
  | some c => c != '(' && c != '!' && c != '['
  | none => true

/-- bracket depth after reading `s` from depth `d` (relative to the enclosing `[`): `'` skips the
    next character (`esc`: the previous character was such a `'`); `none` if a `]` would close more
    than was opened or the text ends in a lone `'` -/
def bracketScanAux : Bool → Nat → List Char → Option Nat
  | esc, d, [] => if esc then none else some d
  | true, d, _ :: cs => bracketScanAux false d cs
  | false, d, c :: cs =>
    if c = '\'' then bracketScanAux true d cs
    else if c = '[' then bracketScanAux false (d + 1) cs
    else if c = ']' then (if d = 0 then none else bracketScanAux false (d - 1) cs)
    else bracketScanAux false d cs

def bracketScan (d : Nat) (s : List Char) : Option Nat := bracketScanAux false d s

def inSheet (row col : Int) : Bool :=
  0 ≤ row && row < (MAX_ROWS : Int) && 0 ≤ col && col < (MAX_COLUMNS : Int)

/-- well-formedness of one token in front of the character `next` (`none` = end of the text),
    for the translation `d`:
    * a reference lies in the sheet, stays in the sheet when shifted, and is followed neither by
      an identifier character nor by `(`, `!` or `[`;
    * strings / quoted sheet names do not contain their own quote character;
    * unquoted sheet names, identifiers and numbers are non-empty runs of identifier characters,
      separated from a following identifier-like token by some other character; an identifier may
      look like a cell only in front of `(` or `!`;
    * the inside of a bracketed span is balanced (`bracketScan 0 s = some 0`);
    * punctuation is a single character that neither belongs to identifiers nor opens a quote or a
      bracketed span. -/
def tokWF (d : Int × Int) (t : Tok) (next : Option Char) : Bool :=
  match t with
  | .ref ca c ra r =>
    c < MAX_COLUMNS && r < MAX_ROWS
      && inSheet ((r : Int) + (if ra then 0 else d.1)) ((c : Int) + (if ca then 0 else d.2))
      && endsRun next && notCallOrSheet next
  | .str s => !s.contains '"'
  | .sheet n true => !n.contains '\''
  | .sheet n false => !n.isEmpty && n.all identChar
  | .ident s => !s.isEmpty && s.all identChar && endsRun next && (!cellLike s || !notCallOrSheet next)
  | .num s => !s.isEmpty && s.all (fun c => c.isDigit || c = '.') && endsRun next
  | .struct s => bracketScan 0 s == some 0
  | .punct c => !identChar c && c != '"' && c != '\'' && c != '['

/-- well-formed (unambiguously rendered) token list for the translation `d` -/
def wf (d : Int × Int) : List Tok → Bool
  | [] => true
  | t :: ts => tokWF d t (firstChar ts) && wf d ts

def WF (ts : List Tok) (d : Int × Int) : Prop := wf d ts = true

instance (ts : List Tok) (d : Int × Int) : Decidable (WF ts d) := by unfold WF; infer_instance

end FormulaTokens
