import CalVerif.Model.Ovba
/-! Specification of the decompressed `dir` stream of a VBA project (MS-OVBA 2.3.4.2), as far as calamine reads it:
    the logical content (`DirSpec`: information records, references, modules), its byte layout (`serDir`), and what a
    reader is expected to extract (`refResult`, `toModule`). Used by `dir_walk` (Props/C18) and by the driver
    (`dirser`) to cross-check the harness's own dir-stream builder byte for byte. Strings stay encoded (`Bytes`). -/

namespace Ovba

def le16 (n : Nat) : Bytes := [UInt8.ofNat (n % 256), UInt8.ofNat (n / 256)]

def le32 (n : Nat) : Bytes :=
  [UInt8.ofNat (n % 256), UInt8.ofNat (n / 256 % 256), UInt8.ofNat (n / 65536 % 256), UInt8.ofNat (n / 16777216)]

/-- `Id (2 bytes) Size (4 bytes) payload` -/
def record (id : Nat) (payload : Bytes) : Bytes := le16 id ++ (le32 payload.length ++ payload)

inductive RefBody where
  /-- REFERENCEREGISTERED -/
  | registered (libid : Bytes)
  /-- REFERENCEPROJECT -/
  | project (absolute relative : Bytes) (major minor : Nat)
  /-- REFERENCECONTROL, optionally preceded by REFERENCEORIGINAL and with an optional NameRecordExtended;
      `guid` is 16 bytes -/
  | control (original : Option Bytes) (twiddled : Bytes) (extName : Option (Bytes × Bytes)) (extended : Bytes)
      (guid : Bytes) (cookie : Nat)

structure RefSpec where
  name : Bytes
  nameUnicode : Bytes
  body : RefBody

structure ModuleSpec where
  name : Bytes
  nameUnicode : Bytes
  streamName : Bytes
  streamNameUnicode : Bytes
  doc : Bytes
  docUnicode : Bytes
  offset : Nat
  helpContext : Nat
  cookie : Nat
  /-- MODULETYPE 0x22 (document/class/designer) instead of 0x21 (procedural) -/
  document : Bool
  readOnly : Bool
  priv : Bool

structure DirSpec where
  sysKind : Nat
  /-- PROJECTCOMPATVERSION (optional record) -/
  compat : Option Nat
  lcid : Nat
  lcidInvoke : Nat
  codepage : Nat
  name : Bytes
  doc : Bytes
  docUnicode : Bytes
  help1 : Bytes
  help2 : Bytes
  helpContext : Nat
  libFlags : Nat
  versionMajor : Nat
  versionMinor : Nat
  constants : Bytes
  constantsUnicode : Bytes
  refs : List RefSpec
  cookie : Nat
  modules : List ModuleSpec

/-! ### layout -/

/-- optional REFERENCEORIGINAL -/
def serOriginal : Option Bytes → Bytes
  | some o => record 0x0033 o
  | none => []

/-- optional NameRecordExtended of a REFERENCECONTROL -/
def serExtName : Option (Bytes × Bytes) → Bytes
  | some (n, u) => record 0x0016 n ++ record 0x003E u
  | none => []

/-- optional PROJECTCOMPATVERSION -/
def serCompat : Option Nat → Bytes
  | some v => record 0x004A (le32 v)
  | none => []

def serRefBody : RefBody → Bytes
  | .registered libid =>
    le16 0x000D ++ (le32 (libid.length + 10) ++ (le32 libid.length ++ (libid ++ (le32 0 ++ le16 0))))
  | .project a r major minor =>
    le16 0x000E ++ (le32 (a.length + r.length + 14) ++ (le32 a.length ++ (a ++ (le32 r.length ++ (r ++
      (le32 major ++ le16 minor))))))
  | .control original tw extName ext guid cookie =>
    serOriginal original ++
    (le16 0x002F ++ (le32 (tw.length + 10) ++ (le32 tw.length ++ (tw ++ (le32 0 ++ (le16 0 ++
    (serExtName extName ++
    (le16 0x0030 ++ (le32 (ext.length + 30) ++ (le32 ext.length ++ (ext ++ (le32 0 ++ (le16 0 ++
    (guid ++ le32 cookie))))))))))))))

def serRef (r : RefSpec) : Bytes := record 0x0016 r.name ++ (record 0x003E r.nameUnicode ++ serRefBody r.body)

def serModule (m : ModuleSpec) : Bytes :=
  record 0x0019 m.name ++ (record 0x0047 m.nameUnicode ++ (record 0x001A m.streamName ++
  (record 0x0032 m.streamNameUnicode ++ (record 0x001C m.doc ++ (record 0x0048 m.docUnicode ++
  (record 0x0031 (le32 m.offset) ++ (record 0x001E (le32 m.helpContext) ++ (record 0x002C (le16 m.cookie) ++
  (record (if m.document then 0x0022 else 0x0021) [] ++
  ((if m.readOnly then record 0x0025 [] else []) ++ ((if m.priv then record 0x0028 [] else []) ++
  record 0x002B [])))))))))))

/-- PROJECTINFORMATION records, up to PROJECTCONSTANTS -/
def serInformation (p : DirSpec) : Bytes :=
  record 0x0001 (le32 p.sysKind) ++
  (serCompat p.compat ++
  (record 0x0002 (le32 p.lcid) ++ (record 0x0014 (le32 p.lcidInvoke) ++ (record 0x0003 (le16 p.codepage) ++
  (record 0x0004 p.name ++ (record 0x0005 p.doc ++ (record 0x0040 p.docUnicode ++
  (record 0x0006 p.help1 ++ (record 0x003D p.help2 ++
  (record 0x0007 (le32 p.helpContext) ++ (record 0x0008 (le32 p.libFlags) ++
  (le16 0x0009 ++ (le32 4 ++ (le32 p.versionMajor ++ (le16 p.versionMinor ++
  (record 0x000C p.constants ++ record 0x003C p.constantsUnicode))))))))))))))))

/-- PROJECTMODULES header (after its id 0x000F), PROJECTCOOKIE, the MODULE records, the dir terminator -/
def serModules (p : DirSpec) : Bytes :=
  le32 2 ++ (le16 p.modules.length ++ (record 0x0013 (le16 p.cookie) ++
  (p.modules.flatMap serModule ++ record 0x0010 [])))

/-- the decompressed `dir` stream -/
def serDir (p : DirSpec) : Bytes :=
  serInformation p ++ (p.refs.flatMap serRef ++ (le16 0x000F ++ serModules p))

/-! ### expected reading -/

/-- what a LibidReference contributes to a reference (description = text after the last `#`, path = text between
    the last two `#`, kept only if no path is known yet); an empty libid or one ending in `##` contributes nothing -/
def applyLibid (r : Ref) (libid : Bytes) : Ref :=
  if libid.isEmpty || endsWithHashHash libid then r
  else match rsplitHash libid with
    | some (d, p) => { r with description := d, path := if !p.isEmpty && r.path.isEmpty then p else r.path }
    | none => r

/-- a libid the reader accepts (otherwise `VbaError::LibId`) -/
def libidOk (libid : Bytes) : Bool := libid.isEmpty || endsWithHashHash libid || (rsplitHash libid).isSome

def refResult (s : RefSpec) : Ref :=
  let r0 : Ref := { name := s.name, description := s.name, path := [] }
  match s.body with
  | .registered libid => applyLibid r0 libid
  | .project a _ _ _ => { r0 with path := stripStarC a }
  | .control original tw _ ext _ _ =>
    applyLibid (applyLibid (match original with | some o => applyLibid r0 o | none => r0) tw) ext

def toModule (m : ModuleSpec) : Module := { name := m.name, streamName := m.streamName, textOffset := m.offset }

/-! ### well-formedness: every number fits its field, every libid is readable -/

def len32 (b : Bytes) : Bool := decide (b.length < 4294967296)

def RefBody.wf : RefBody → Bool
  | .registered libid => len32 libid && libidOk libid
  | .project a r major minor => len32 a && len32 r && decide (major < 4294967296) && decide (minor < 65536)
  | .control original tw extName ext guid cookie =>
    (match original with | some o => len32 o && libidOk o | none => true) &&
    len32 tw && libidOk tw &&
    (match extName with | some (n, u) => len32 n && len32 u | none => true) &&
    len32 ext && libidOk ext && decide (guid.length = 16) && decide (cookie < 4294967296)

def RefSpec.wf (r : RefSpec) : Bool := !r.name.isEmpty && len32 r.name && len32 r.nameUnicode && r.body.wf

def ModuleSpec.wf (m : ModuleSpec) : Bool :=
  len32 m.name && len32 m.nameUnicode && len32 m.streamName && len32 m.streamNameUnicode && len32 m.doc &&
  len32 m.docUnicode && decide (m.offset < 4294967296) && decide (m.helpContext < 4294967296) &&
  decide (m.cookie < 65536)

def DirSpec.wf (p : DirSpec) : Bool :=
  decide (p.sysKind < 4294967296) && (match p.compat with | some v => decide (v < 4294967296) | none => true) &&
  decide (p.lcid < 4294967296) && decide (p.lcidInvoke < 4294967296) &&
  knownCodepages.contains p.codepage &&
  len32 p.name && len32 p.doc && len32 p.docUnicode && len32 p.help1 && len32 p.help2 &&
  decide (p.helpContext < 4294967296) && decide (p.libFlags < 4294967296) &&
  decide (p.versionMajor < 4294967296) && decide (p.versionMinor < 65536) &&
  len32 p.constants && len32 p.constantsUnicode &&
  p.refs.all RefSpec.wf && decide (p.cookie < 65536) &&
  decide (p.modules.length < 65536) && p.modules.all ModuleSpec.wf

end Ovba
