import CalVerif.Spec.XlsbEnc
import CalVerif.Spec.Formula
/-! Logical description of the formula cells of an XLSB worksheet part and their encoding (C14), on top of
    C03's record encoder (`Spec/XlsbEnc.lean`: framing, cell records) and of the token encoder of
    `Spec/Formula.lean`.  A formula cell is a BrtFmlaString / BrtFmlaNum / BrtFmlaBool / BrtFmlaError record
    ([MS-XLSB] 2.4.659–662): the Cell structure, the cached value of that kind, `grbitFlags`, then the
    CellParsedFormula `cce rgce cb rgcb` ([MS-XLSB] 2.5.97.1). `specFormulas` says, independently of the reader
    model, which (position, text) pairs a list of items denotes. -/

namespace XlsbFormula
open Xlsb Formula

/-- `grbitFlags` followed by the CellParsedFormula -/
def fmlaBytes (flags : Nat) (rgce rgcb : Bytes) : Bytes :=
  Xlsb.le16 flags ++ (Xlsb.le32 rgce.length ++ (rgce ++ (Xlsb.le32 rgcb.length ++ rgcb)))

/-- one record of the sheet data -/
inductive FItem where
  /-- BrtRowHdr -/
  | row (r : Nat) (tail : Bytes)
  /-- a record the cell loops ignore -/
  | raw (id : Nat) (payload : Bytes)
  /-- a constant cell record (no formula): BrtCellBlank … BrtCellIsst -/
  | plain (col style : Nat) (content : Content)
  /-- a formula cell: cached value of one of the four kinds with a formula record, flags, the expression, and the
      trailing `rgcb` bytes -/
  | fcell (col style : Nat) (content : Content) (flags : Nat) (e : Expr) (rgcb : Bytes)

def FItem.toItem : FItem → Item
  | .row r t => .row r t
  | .raw i p => .raw i p
  | .plain col style content => .cell ⟨col, style, content, none⟩
  | .fcell col style content flags e rgcb =>
    .cell ⟨col, style, content, some (fmlaBytes flags (encodeXlsb (toRpn e)) rgcb)⟩

/-- an item with its framing choices (id width, length width) -/
structure FFramed where
  item : FItem
  wide : Bool
  lenW : Nat

def FFramed.toFramed (f : FFramed) : Framed := ⟨f.item.toItem, f.wide, f.lenW⟩

/-- the sheet data as bytes: C03's `encodeItems` -/
def encodeFItems (data : List FFramed) : Bytes := encodeItems (data.map FFramed.toFramed)

/-- the formula cells a list of items denotes, starting in row `row`: position and A1 text -/
def specFormulas (env : Env) : List FItem → Nat → List (Nat × Nat × List Char)
  | [], _ => []
  | .row r _ :: rest, _ => specFormulas env rest r
  | .fcell col _ _ _ e _ :: rest, row => (row, col, renderA1 env e) :: specFormulas env rest row
  | .raw _ _ :: rest, row => specFormulas env rest row
  | .plain _ _ _ :: rest, row => specFormulas env rest row

end XlsbFormula
