import CalVerif.Model.Biff
/-! Specification side of C02: the RK number as [MS-XLS] 2.5.217 describes it (`rkSpec`), the logical
    worksheet (`LCell` list, sorted row-major), and the encoder `encodeSheet` that lays a logical sheet
    out as BIFF8 records under a layout λ (`Lay` per cell): NUMBER / RK (any RK word that denotes the
    number: integer, float, ×100 variants) / MULRK runs for adjacent RK cells, LABEL (8/16-bit) /
    LABELSST, BOOLERR, FORMULA with the cached-value shapes (+ STRING), and ignorable records (BLANK,
    ROW, DBCELL, DIMENSIONS, unknown ids …) before any cell and between FORMULA and STRING.
    The same definitions, compiled into the driver (`enc`), generate the test files. -/

namespace BiffCells
open Biff

/-! ### little-endian writers -/

def byte (n : Nat) : UInt8 := UInt8.ofNat (n % 256)
def le16 (n : Nat) : Bytes := [byte n, byte (n / 256)]
def le32 (n : Nat) : Bytes := [byte n, byte (n / 256), byte (n / 65536), byte (n / 16777216)]
def le64 (n : Nat) : Bytes := le32 n ++ le32 (n / 4294967296)

/-! ### RK numbers, from the specification -/

/-- [MS-XLS] 2.5.217 RkNumber: bit 0 `fX100`, bit 1 `fInt`, bits 2..31 `num`. `fInt = 1`: `num` is a signed
    30-bit integer; `fInt = 0`: `num` is the 30 most significant bits of an IEEE double whose other 34 bits
    are 0. `fX100 = 1`: the value is that number divided by 100 (an integer again when the division is exact,
    the reading the implementation documents with `Data::Int`). -/
def rkSpec (ops : FOps) (w : Nat) : Num :=
  let fX100 := w % 2 = 1
  let fInt := w / 2 % 2 = 1
  let num := w / 4
  if fInt then
    let v : Int := if num < 536870912 then (num : Int) else (num : Int) - 1073741824
    if fX100 then
      if v % 100 = 0 then .int (v / 100) else .float (ops.div100 (i2f v))
    else .int v
  else
    let bits := num * 17179869184
    .float (if fX100 then ops.div100 bits else bits)

/-- the double a decoded RK value denotes: an integer is numerically `v as f64` (`De.intToF64`, exact) -/
def numBits : Num → Nat
  | .int v => i2f v
  | .float b => b

/-- RK word of a 30-bit signed integer -/
def encodeRkInt (v : Int) (x100 : Bool) : Nat :=
  (v % 1073741824).toNat * 4 + 2 + (if x100 then 1 else 0)

/-- RK word of a double whose low 34 bits are zero -/
def encodeRkFloat (bits : Nat) (x100 : Bool) : Nat :=
  bits / 17179869184 * 4 + (if x100 then 1 else 0)

/-! ### logical sheet -/

inductive LVal where
  | num (bits : Nat)
  | str (s : List Nat)
  | bool (b : Bool)
  | err (k : ErrKind)
  deriving Repr, DecidableEq

structure LCell where
  row : Nat
  col : Nat
  val : LVal
  deriving Repr, DecidableEq

/-- the value the reader is expected to show, up to the `Int`/`Float` choice of the RK rules -/
def LVal.toVal : LVal → Val
  | .num b => .float b
  | .str s => .str s
  | .bool b => .bool b
  | .err k => .error k

/-- the double a numeric cell value stands for, whatever its variant: `Int` (RK integers) counts as `v as f64`,
    a date/time cell as its serial; `none` for non-numeric values -/
def numOf : Val → Option Nat
  | .int v => some (i2f v)
  | .float b => some b
  | .dt b _ _ => some b
  | _ => none

/-! ### layout -/

inductive NumEnc where
  | number
  /-- an RK record holding this word; used only when the word denotes the cell's number -/
  | rk (w : Nat)
  deriving Repr, DecidableEq

inductive Enc where
  | num (e : NumEnc)
  | label (wide : Bool)
  | labelSst (i : Nat)
  | boolerr
  /-- FORMULA with the value cached; `wide`, `between` (ignorable records between FORMULA and STRING) and
      `blank3` (FormulaValue type 3 for an empty string result) matter for string results only -/
  | formula (rgce : Bytes) (wide : Bool) (between : List Rec) (blank3 : Bool)
  deriving Repr

structure Lay where
  enc : Enc
  xf : Nat := 0
  /-- merge this RK cell into the MULRK run of the previous cell (same row, next column, nothing in between) -/
  join : Bool := false
  /-- records emitted before the cell; only the ignorable ones are kept -/
  before : List Rec := []
  deriving Repr

instance : Inhabited Lay := ⟨{ enc := .num .number }⟩

/-- record ids the worksheet loop acts on, plus CONTINUE (which the framing attaches to its predecessor) -/
def handledIds : List Nat :=
  [0x0200, 0x0203, 0x0204, 0x0205, 0x0207, 0x027E, 0x00FD, 0x00BD, 0x00E5, 0x000A, 0x0006, 0x003C]

/-- records the reader must skip without effect: any other id, or a well-sized DIMENSIONS -/
def ignorable (r : Rec) : Bool :=
  r.typ < 65536 && r.data.length ≤ 8224 && r.cont.isEmpty &&
    (!(handledIds.contains r.typ) || (r.typ == 0x0200 && (r.data.length == 10 || r.data.length == 14)))

/-! ### strings -/

/-- UTF-16 code units of a scalar-value string -/
def toUnits : List Nat → List Nat
  | [] => []
  | c :: cs =>
    if c < 65536 then c :: toUnits cs
    else (0xD800 + (c - 65536) / 1024) :: (0xDC00 + (c - 65536) % 1024) :: toUnits cs

/-- XLUnicodeString: cch, fHighByte, characters (8-bit only when every unit fits) -/
def xlString (wide : Bool) (s : List Nat) : Bytes :=
  let u := toUnits s
  let w := wide || !(u.all (· < 256))
  le16 u.length ++ [if w then 1 else 0] ++ (if w then u.flatMap le16 else u.map byte)

/-! ### physical plan of one cell -/

def errCode : ErrKind → Nat
  | .null => 0x00 | .div0 => 0x07 | .value => 0x0F | .ref => 0x17
  | .name => 0x1D | .num => 0x24 | .na => 0x2A | .gettingData => 0x2B

/-- cached result of a FORMULA record -/
inductive Cached where
  | num (bits : Nat)
  /-- string result: FormulaValue type 0, then (ignorable records and) a STRING record -/
  | str (wide : Bool) (s : List Nat) (between : List Rec)
  | bool (b : Bool)
  | err (k : ErrKind)
  /-- FormulaValue type 3: empty string, no STRING record -/
  | blank
  deriving Repr

inductive Phys where
  | number (bits : Nat)
  | rk (w : Nat)
  | label (wide : Bool) (s : List Nat)
  | labelSst (i : Nat)
  | bool (b : Bool)
  | err (k : ErrKind)
  | formula (c : Cached) (rgce : Bytes)
  deriving Repr

structure PC where
  row : Nat
  col : Nat
  xf : Nat
  phys : Phys
  before : List Rec
  join : Bool
  deriving Repr

def special (t b : Nat) : Bytes := [byte t, 0, byte b, 0, 0, 0, 0xFF, 0xFF]

/-- the 8-byte FormulaValue field -/
def cachedBytes : Cached → Bytes
  | .num x => le64 x
  | .str _ _ _ => special 0 0
  | .bool b => special 1 (if b then 1 else 0)
  | .err k => special 2 (errCode k)
  | .blank => special 3 0

/-- the record(s) chosen for a value under a layout entry; a choice that cannot represent the value falls
    back to the canonical record (NUMBER, 16-bit LABEL, BOOLERR) -/
def choose (env : Env) (v : LVal) (e : Enc) : Phys :=
  match v, e with
  | .num x, .num (.rk w) =>
    if w < 4294967296 ∧ numBits (rkSpec env.ops w) = x then .rk w else .number x
  | .num x, .formula rgce _ _ _ =>
    -- a FormulaValue whose last two bytes are FF FF is not a number
    if x / 281474976710656 = 65535 then .number x else .formula (.num x) (rgce.take 255)
  | .num x, _ => .number x
  | .str s, .label wide => .label wide s
  | .str s, .labelSst i =>
    if i < 4294967296 ∧ env.strings[i]? = some s then .labelSst i else .label true s
  | .str s, .formula rgce wide between blank3 =>
    if s = [] ∧ blank3 then .formula .blank (rgce.take 255)
    else .formula (.str wide s (between.filter ignorable)) (rgce.take 255)
  | .str s, _ => .label true s
  | .bool b, .formula rgce _ _ _ => .formula (.bool b) (rgce.take 255)
  | .bool b, _ => .bool b
  | .err k, .formula rgce _ _ _ => .formula (.err k) (rgce.take 255)
  | .err k, _ => .err k

def planCell (env : Env) (c : LCell) (l : Lay) : PC :=
  { row := c.row, col := c.col, xf := l.xf % 65536, phys := choose env c.val l.enc,
    before := l.before.filter ignorable, join := l.join }

/-- cells paired with their layout entries; cells beyond the layout list get the default entry -/
def plan (env : Env) : List LCell → List Lay → List PC
  | [], _ => []
  | c :: cs, [] => planCell env c default :: plan env cs []
  | c :: cs, l :: ls => planCell env c l :: plan env cs ls

/-! ### records -/

def cellHdr (p : PC) : Bytes := le16 p.row ++ le16 p.col ++ le16 p.xf

/-- the record(s) of one cell on its own -/
def physRecs (p : PC) : List Rec :=
  match p.phys with
  | .number x => [⟨0x0203, cellHdr p ++ le64 x, []⟩]
  | .rk w => [⟨0x027E, cellHdr p ++ le32 w, []⟩]
  | .label wide s => [⟨0x0204, cellHdr p ++ xlString wide s, []⟩]
  | .labelSst i => [⟨0x00FD, cellHdr p ++ le32 i, []⟩]
  | .bool b => [⟨0x0205, cellHdr p ++ [byte (if b then 1 else 0), byte 0], []⟩]
  | .err k => [⟨0x0205, cellHdr p ++ [byte (errCode k), byte 1], []⟩]
  | .formula c rgce =>
    ⟨0x0006, cellHdr p ++ (cachedBytes c ++ (le16 0 ++ (le32 0 ++ (le16 rgce.length ++ rgce)))), []⟩ ::
      (match c with
       | .str wide s between => between ++ [⟨0x0207, xlString wide s, []⟩]
       | _ => [])

def isRk (p : PC) : Bool := match p.phys with | .rk _ => true | _ => false
def rkWord (p : PC) : Nat := match p.phys with | .rk w => w | _ => 0

/-- may `p` be prepended to the group `g` as one MULRK run? -/
def joinable (p : PC) (g : List PC) : Bool :=
  match g with
  | q :: _ => isRk p && isRk q && q.join && q.before.isEmpty && q.row == p.row && q.col == p.col + 1
  | [] => false

/-- groups: singletons, or runs of adjacent RK cells of one row -/
def chunk : List PC → List (List PC)
  | [] => []
  | p :: rest =>
    match chunk rest with
    | g :: gs => if joinable p g then (p :: g) :: gs else [p] :: g :: gs
    | [] => [[p]]

/-- `(ixfe, rk)` pairs of a MULRK run -/
def runBody (g : List PC) : Bytes := g.flatMap (fun q => le16 q.xf ++ le32 (rkWord q))

/-- MULRK payload: row, first column, the pairs, last column -/
def mulRkData (row c0 : Nat) (g : List PC) : Bytes :=
  (le16 row ++ le16 c0) ++ (runBody g ++ le16 (c0 + g.length - 1))

def groupRecs (g : List PC) : List Rec :=
  match g with
  | [] => []
  | [p] => p.before ++ physRecs p
  | p :: _ :: _ => p.before ++ [⟨0x00BD, mulRkData p.row p.col g, []⟩]

/-- the cell records of a logical sheet under a layout -/
def encodeSheet (env : Env) (S : List LCell) (lays : List Lay) : List Rec :=
  (chunk (plan env S lays)).flatMap groupRecs

/-! ### framing -/

def frameRec (r : Rec) : Bytes :=
  le16 r.typ ++ le16 r.data.length ++ r.data ++ r.cont.flatMap (fun c => le16 0x3C ++ le16 c.length ++ c)

def frame (rs : List Rec) : Bytes := rs.flatMap frameRec

def bofRec : Rec := ⟨0x0809, le16 0x0600 ++ le16 0x0010 ++ le32 0 ++ le32 0 ++ le32 0, []⟩
def eofRec : Rec := ⟨0x000A, [], []⟩

/-- the worksheet substream: BOF, the cell records, EOF -/
def substream (env : Env) (S : List LCell) (lays : List Lay) : Bytes :=
  frame (bofRec :: encodeSheet env S lays ++ [eofRec])

/-! ### the expected value of a cell, from the specification -/

/-- the number a numeric cell's record holds before typing: the RkNumber reading ([MS-XLS] 2.5.217) when the
    layout's RK word denotes the cell's number (then an integer RK reads as an integer), the double otherwise
    (NUMBER, FORMULA, or the NUMBER fallback of a word that does not denote it) -/
def numContent (env : Env) (x : Nat) (e : Enc) : Num :=
  match e with
  | .num (.rk w) => if w < 4294967296 ∧ numBits (rkSpec env.ops w) = x then rkSpec env.ops w else .float x
  | _ => .float x

/-- how the cell's XF types a number: a date/time or duration format makes it `DateTime(serial, kind, is1904)` with
    the serial the number's double and the workbook's date system; any other format (or an ixfe beyond the XF
    table) leaves `Int` / `Float` -/
def typeNum (fmt : Option CellFormat) (is1904 : Bool) (n : Num) : Val :=
  match fmt with
  | some .dateTime => .dt (numBits n) .dateTime is1904
  | some .timeDelta => .dt (numBits n) .timeDelta is1904
  | _ => match n with
    | .int v => .int v
    | .float b => .float b

/-- what the reader must show for a logical cell stored under a layout entry -/
def expectVal (env : Env) (c : LCell) (l : Lay) : Val :=
  match c.val with
  | .num x => typeNum env.fmts[l.xf % 65536]? env.is1904 (numContent env x l.enc)
  | v => v.toVal

/-! ### well-formed logical sheets -/

/-- strict row-major order of the logical cells (a sheet is a list sorted this way: positions are distinct) -/
def cellLt (a b : LCell) : Prop := a.row < b.row ∨ (a.row = b.row ∧ a.col < b.col)

instance (a b : LCell) : Decidable (cellLt a b) := by unfold cellLt; infer_instance

end BiffCells
