import CalVerif.Spec.XlsxSheet
import CalVerif.Model.XlsxFormula
/-! Logical worksheet with shared-formula groups and its **encoder** into the XML event list of the
    worksheet part (ECMA-376 Part 1 §18.3.1.40 `f`: `t="shared"`, `si`, `ref`; the master carries `ref`
    and the text, a follower carries `si` only). Cell and row references are written explicitly; the
    element prefix is a layout choice. Used by property C15 to tie the abstract `CellIn` list of
    `Model/SharedFormula.lean` to the events `XlsxFormula.readFormulas` consumes. -/

namespace SharedSheet
open XlsxCells XlsxSheet SharedFormula

/-- the `<f>` child of a cell -/
inductive FSpec where
  | none
  /-- `<f>text</f>` -/
  | plain (text : List Char)
  /-- `<f t="shared" ref="…" si="…">text</f>` -/
  | master (si : Nat) (ref : Rect) (text : List Char)
  /-- `<f t="shared" si="…"></f>` -/
  | follower (si : Nat)
  deriving Repr, DecidableEq

structure SCell where
  f : FSpec
  /-- a cached value `<v>1</v>` after the formula -/
  value : Bool
  deriving Repr, DecidableEq

abbrev SSheet := List (Nat × List (Nat × SCell))

def rectDims (r : Rect) : Dims := ⟨r.sr, r.sc, r.er, r.ec⟩

def textEvents (t : List Char) : List Ev := if Utf8.utf8Encode t = [] then [] else [.text (Utf8.utf8Encode t)]

def fEvents (p : Bool) : FSpec → List Ev
  | .none => []
  | .plain t => [.start (q p nF) []] ++ textEvents t ++ [.stop (q p nF)]
  | .master si ref t =>
    [.start (q p nF) [(nT, XlsxFormula.tShared), (nRef, dimRef (rectDims ref)), (XlsxFormula.nSiAttr, dec si)]]
      ++ textEvents t ++ [.stop (q p nF)]
  | .follower si => [.start (q p nF) [(nT, XlsxFormula.tShared), (XlsxFormula.nSiAttr, dec si)], .stop (q p nF)]

def renderCell (p : Bool) (row col : Nat) (c : SCell) : List Ev :=
  [.start (q p nC) [(nR, refName false row col)]] ++ fEvents p c.f ++ (if c.value then vEventsPlain p [49] else [])
    ++ [.stop (q p nC)]

def renderCells (p : Bool) (row : Nat) : List (Nat × SCell) → List Ev
  | [] => []
  | (col, c) :: rest => renderCell p row col c ++ renderCells p row rest

def renderRows (p : Bool) : SSheet → List Ev
  | [] => []
  | (row, cells) :: rest =>
    [.start (q p nRow) [(nR, dec (row + 1))]] ++ renderCells p row cells ++ [.stop (q p nRow)] ++ renderRows p rest

/-- the worksheet part -/
def render (s : SSheet) (p : Bool) : List Ev :=
  [.start (q p nWorksheet) [], .start (q p nSheetData) []] ++ renderRows p s ++
    [.stop (q p nSheetData), .stop (q p nWorksheet)]

/-- the cell as the abstract model of `next_formula` sees it -/
def toCellIn (row col : Nat) (c : SCell) : CellIn :=
  match c.f with
  | .none => ⟨(row, col), none⟩
  | .plain t => ⟨(row, col), some (t, none)⟩
  | .master si ref t => ⟨(row, col), some (t, some ⟨some si, some ref⟩)⟩
  | .follower si => ⟨(row, col), some ([], some ⟨some si, none⟩)⟩

def rowCells (row : Nat) (cells : List (Nat × SCell)) : List CellIn := cells.map fun c => toCellIn row c.1 c.2

/-- the cells of the sheet in document order -/
def toCells (s : SSheet) : List CellIn := s.flatMap fun row => rowCells row.1 row.2

/-- what can be written: `si` fits `usize`, declared ranges lie in the grid -/
def SCell.Ok (c : SCell) : Prop :=
  match c.f with
  | .master si ref _ => si < 10 ^ 19 ∧ ref.sr < 1048576 ∧ ref.er < 1048576 ∧ ref.sc < 16384 ∧ ref.ec < 16384
  | .follower si => si < 10 ^ 19
  | _ => True

/-- rows and columns strictly increasing inside the grid, every cell writable -/
def SSheet.WF (s : SSheet) : Prop :=
  Increasing 1048576 0 s ∧ (∀ row ∈ s, Increasing 16384 0 row.2) ∧ (∀ row ∈ s, ∀ c ∈ row.2, c.2.Ok)

end SharedSheet
