import CalVerif.Model.XmlEscape
/-! The writer side of XML character-data escaping (property C19): every character of a text is written in
    one of the spellings the harness' serializer uses. -/

namespace XmlEscape

/-- how one character is spelled -/
inductive Spelling where
  /-- the character itself -/
  | lit
  /-- its predefined entity when it has one (`& < > ' "`), else the character itself -/
  | named
  /-- decimal character reference with `zeros` leading zeros -/
  | dec (zeros : Nat)
  /-- hexadecimal character reference (`&#x…;`), `zeros` leading zeros, upper- or lower-case digits -/
  | hex (zeros : Nat) (upper : Bool)
  deriving DecidableEq, Repr

def hexDigit (upper : Bool) : Nat → Char
  | 0 => '0' | 1 => '1' | 2 => '2' | 3 => '3' | 4 => '4' | 5 => '5' | 6 => '6' | 7 => '7' | 8 => '8' | 9 => '9'
  | 10 => if upper then 'A' else 'a'
  | 11 => if upper then 'B' else 'b'
  | 12 => if upper then 'C' else 'c'
  | 13 => if upper then 'D' else 'd'
  | 14 => if upper then 'E' else 'e'
  | 15 => if upper then 'F' else 'f'
  | _ => '0'

/-- digits of `n` in radix `r` (10 or 16), most significant first -/
def digits (r : Nat) (upper : Bool) (n : Nat) : List Char :=
  if r < 2 then [hexDigit upper 0]
  else if n < r then [hexDigit upper n] else digits r upper (n / r) ++ [hexDigit upper (n % r)]
termination_by n
decreasing_by
  have : 0 < n := by omega
  exact Nat.div_lt_self this (by omega)

def entityName (c : Char) : Option (List Char) :=
  if c = '<' then some ['l', 't']
  else if c = '>' then some ['g', 't']
  else if c = '&' then some ['a', 'm', 'p']
  else if c = '\'' then some ['a', 'p', 'o', 's']
  else if c = '"' then some ['q', 'u', 'o', 't']
  else none

def escape1 (c : Char) : Spelling → List Char
  | .lit => [c]
  | .named =>
    match entityName c with
    | some n => '&' :: n ++ [';']
    | none => [c]
  | .dec z => '&' :: '#' :: (List.replicate z '0' ++ digits 10 false c.toNat ++ [';'])
  | .hex z up => '&' :: '#' :: 'x' :: (List.replicate z '0' ++ digits 16 up c.toNat ++ [';'])

/-- the escaped text of a string with a spelling chosen per character -/
def escape (cs : List (Char × Spelling)) : List Char := (cs.map fun p => escape1 p.1 p.2).flatten

/-- the only constraints: `&` cannot be written literally, U+0000 cannot be written as a reference -/
def okSpelling (p : Char × Spelling) : Bool :=
  match p.2 with
  | .lit => p.1 ≠ '&'
  | .named => true
  | .dec _ => p.1.toNat ≠ 0
  | .hex _ _ => p.1.toNat ≠ 0

/-- XML 1.0 `Char` production -/
def XmlChar (c : Char) : Bool :=
  c.toNat = 9 || c.toNat = 10 || c.toNat = 13 || (0x20 ≤ c.toNat && c.toNat ≤ 0xD7FF) ||
    (0xE000 ≤ c.toNat && c.toNat ≤ 0xFFFD) || (0x10000 ≤ c.toNat && c.toNat ≤ 0x10FFFF)

end XmlEscape
