import CalVerif.Model.OdsSheet
import CalVerif.Spec.OdsRange
import CalVerif.Spec.OdsCell
/-! Specification of a whole ODS sheet (C04): the TYPED cells and their semantic expansion. -/
namespace OdsSheet
open OdsRange OdsCell

/-- text content of a cell element, as `XmlText.odsCellText` (C19) reads it from the element's children
    (`""` when that reader fails; only used for string cells without a value attribute) -/
def cellContent (ev : CellEv) : String :=
  match XmlText.odsCellText ev.children with
  | .ok (t, _) => txtToString t
  | _ => ""

/-- the side conditions under which `get_datatype` succeeds on a cell element: its first value attribute, if it is
    an `office:value`, parses as a float; and, when the value is taken from the text content (value type string, no
    value attribute), the text reader of C19 (`XmlText.odsCellText`) succeeds on the element's children -/
def CellOk (ev : CellEv) : Prop :=
  ev.attrs.find? Attr.isValue ≠ some (.value none) ∧
  (ev.attrs.find? Attr.isValue = none → stringAfter false ev.attrs = true →
    ∃ t r, XmlText.odsCellText ev.children = .ok (t, r))

/-- the cell events with their typed value and formula (`OdsCell.cellValue` / `cellFormula`) -/
def typedRuns (rows : List (Nat × List CellEv)) : List (RowRunK (Val × String)) :=
  rows.map fun r => (r.1, r.2.map fun ev => (ev.kind, (cellValue ev.attrs (cellContent ev), cellFormula ev.attrs), ev.count))

/-- the value the sheet stores at `(r, c)`: rows and columns counted through every repeat count and every
    covered cell -/
def sheetValue (rows : List (Nat × List CellEv)) (r c : Nat) : Val := expandK (·.1) (typedRuns rows) r c

/-- the formula the sheet stores at `(r, c)` -/
def sheetFormula (rows : List (Nat × List CellEv)) (r c : Nat) : String := expandK (·.2) (typedRuns rows) r c

end OdsSheet
