import CalVerif.Model.XlsxCells
import CalVerif.Model.Formats
/-! Logical worksheet, its expected reading, and the **encoder** `renderSheet : Sheet → Layout → List Ev`
    (ECMA-376 Part 1, §18.3.1 `worksheet`/`sheetData`/`row`/`c`, §18.3.1.4 `c@r`/`c@t`/`c@s`, §18.18.11 `ST_CellType`,
    §18.17.3 error values).

    A layout is every choice of the physical encoding the reader must be blind to:
    * whether the reference attribute `r` is written on a row / a cell (and the case of its letters). An omitted
      reference means "previous + 1"; the encoder *forces* a reference wherever the position differs from the
      reader's cursor, so that every layout is a legal encoding (`explicit := λ.explicit ∨ position ≠ cursor`);
    * the namespace prefix, chosen per sheet frame, per row and per cell;
    * the order of the attributes of `<row>` and `<c>` and any inert extra attributes (`spans`, `ht`, `cm`, `vm`,
      `ph`, `customHeight`, …): `rowArrange` / `cellArrange` are arbitrary functions on the attribute list, legal
      when, on a list without duplicate names (XML forbids them), they preserve the lookups of the attributes
      that carry meaning (`r`, `s`, `t`);
    * the text of `<v>` / `<t>` arriving in several pieces (text nodes around comments, CDATA sections): `split`;
    * `<dimension>`: absent, or any rectangle of the grid;
    * ignorable markup: sibling elements of `<sheetData>` before it (`<sheetPr>`, `<sheetViews>`, `<cols>`, …:
      anything that is not itself a `dimension`/`sheetData` start) and after it (anything at all), and white
      space / comments between rows and cells. -/

namespace XlsxSheet
open XlsxCells

/-! ### the documented error literals (ECMA-376 Part 1 §18.17.3), written independently of the code -/

def documentedErrors : List (Bytes × CellErrorType) :=
  [(asciiBytes "#DIV/0!", .div0), (asciiBytes "#N/A", .nA), (asciiBytes "#NAME?", .name), (asciiBytes "#NULL!", .null),
   (asciiBytes "#NUM!", .num), (asciiBytes "#REF!", .ref), (asciiBytes "#VALUE!", .value)]

/-- the literal of an error kind (`#GETTING_DATA` is not a SpreadsheetML error value: no literal) -/
def errLiteral (k : CellErrorType) : Bytes := ((documentedErrors.find? (fun e => e.2 == k)).map (·.1)).getD []

/-! ### logical sheet -/

/-- what is stored in a `<c>` element -/
inductive Content where
  /-- no child: a styled blank cell -/
  | blank
  /-- `<v>text</v>`, `t="n"` written iff `tn` -/
  | num (text : Bytes) (tn : Bool)
  /-- `t="s"` `<v>idx</v>` -/
  | shared (idx : Nat)
  /-- `t="inlineStr"` `<is><t>s</t></is>` -/
  | inline (s : Bytes)
  /-- `t="str"` `<v>s</v>` -/
  | fstr (s : Bytes)
  /-- `t="b"` `<v>0|1</v>` -/
  | bool (b : Bool)
  /-- `t="e"` `<v>literal</v>` -/
  | err (k : CellErrorType)
  /-- `t="d"` `<v>s</v>` -/
  | iso (s : Bytes)
  deriving Repr, DecidableEq

structure CellSpec where
  content : Content
  /-- raw value of the `s` attribute, if any -/
  style : Option Bytes
  /-- text of an `<f>` child, written before the value -/
  formula : Option Bytes
  deriving Repr, DecidableEq

/-- a row: 0-based row number and its cells `(0-based column, cell)` -/
abbrev RowSpec := Nat × List (Nat × CellSpec)
/-- a logical sheet: rows in increasing order, cells of a row in increasing column order (`Sheet.WF`) -/
abbrev Sheet := List RowSpec

structure Layout where
  /-- prefix `x:` on `worksheet`, `dimension`, `sheetData` -/
  pfx : Bool
  /-- prefix on the `<row>` with this number -/
  rowPfx : Nat → Bool
  /-- prefix on the `<c>` at (row, col) and its children -/
  cellPfx : Nat → Nat → Bool
  /-- the `<dimension ref>` element: absent, or any rectangle -/
  dim : Option Dims
  /-- write `r` on the row with this number even where it could be omitted -/
  rowExplicit : Nat → Bool
  /-- write `r` on the cell at (row, col) even where it could be omitted -/
  cellExplicit : Nat → Nat → Bool
  /-- lower-case column letters in the reference of the cell at (row, col) -/
  cellLower : Nat → Nat → Bool
  /-- order of / additions to the attributes of the `<c>` at (row, col) -/
  cellArrange : Nat → Nat → Attrs → Attrs
  /-- order of / additions to the attributes of the `<row>` -/
  rowArrange : Nat → Attrs → Attrs
  /-- the pieces in which the text of `<v>` / `<t>` of the cell at (row, col) arrives -/
  split : Nat → Nat → Bytes → List Bytes
  /-- children of `<worksheet>` before / after `<dimension>` (both before `<sheetData>`) -/
  beforeDim : List Ev
  afterDim : List Ev
  /-- everything between `</sheetData>` and `</worksheet>` -/
  after : List Ev
  /-- white space / comments before a `<row>`, before a `<c>`, before `</row>`, before `</sheetData>` -/
  gapRow : Nat → List Ev
  gapCell : Nat → Nat → List Ev
  gapRowEnd : Nat → List Ev
  gapEnd : List Ev

/-- text nodes and comments only -/
def Inert (l : List Ev) : Prop := ∀ ev ∈ l, ev = .other ∨ ∃ s, ev = .text s

/-- no element of the list opens a `dimension` or a `sheetData` -/
def NoHead (l : List Ev) : Prop :=
  ∀ ev ∈ l, ∀ n a, ev = .start n a → localName n ≠ nDimension ∧ localName n ≠ nSheetData

/-- the `<dimension>` of the layout is a rectangle of the grid (it need not be related to the data) -/
def Layout.DimOk (lay : Layout) : Prop :=
  ∀ d, lay.dim = some d → d.sr < 1048576 ∧ d.sc < 16384 ∧ d.er < 1048576 ∧ d.ec < 16384

/-- the layout is a legal encoding choice -/
structure Layout.Legal (lay : Layout) : Prop where
  dim : lay.DimOk
  /-- re-ordering and inert additions keep the attributes that carry meaning -/
  cellAttr : ∀ r c base k, base.Pairwise (fun p q => p.1 ≠ q.1) → (k = nR ∨ k = nS ∨ k = nT) →
    getAttr (lay.cellArrange r c base) k = getAttr base k
  rowAttr : ∀ r base, base.Pairwise (fun p q => p.1 ≠ q.1) → getAttr (lay.rowArrange r base) nR = getAttr base nR
  /-- the pieces make up the text -/
  split : ∀ r c t, (lay.split r c t).flatten = t
  head : NoHead lay.beforeDim ∧ NoHead lay.afterDim
  gaps : (∀ r, Inert (lay.gapRow r)) ∧ (∀ r c, Inert (lay.gapCell r c)) ∧ (∀ r, Inert (lay.gapRowEnd r)) ∧ Inert lay.gapEnd

/-- strictly increasing first components, all below `bound` -/
def Increasing {α : Type} (bound : Nat) : Nat → List (Nat × α) → Prop
  | _, [] => True
  | lo, (k, _) :: rest => lo ≤ k ∧ k < bound ∧ Increasing bound (k + 1) rest

/-- rows strictly increasing below 2^20, columns strictly increasing below 16384 -/
def Sheet.WF (s : Sheet) : Prop :=
  Increasing 1048576 0 s ∧ ∀ row ∈ s, Increasing 16384 0 row.2

/-- the contents are readable with this configuration: shared indices are inside the table
    (and small enough for the index parser), error kinds have a literal -/
def Content.Ok (cfg : Cfg) : Content → Prop
  | .shared idx => idx < cfg.strings.length ∧ idx < 10 ^ 19
  | .err k => k ≠ .gettingData
  | _ => True

def Sheet.ContentOk (cfg : Cfg) (s : Sheet) : Prop :=
  ∀ row ∈ s, ∀ cell ∈ row.2, cell.2.content.Ok cfg

/-- the format selected by the raw `s` attribute: `formats[atoi(s) or 0]`, `Other` when absent/out of range -/
def styleFmt (cfg : Cfg) (style : Option Bytes) : CellFormat :=
  match style with
  | some s => cfg.formats.getD ((atoiUsize s).getD 0) .other
  | none => .other

/-- what `next_cell` must return for the cell (`DataRef`, numbers still as tokens) -/
def expect (cfg : Cfg) (cs : CellSpec) : Val :=
  match cs.content with
  | .blank => .empty
  | .num t tn => if tn ∧ t = [] then .empty else .num t (styleFmt cfg cs.style) tn
  | .shared idx => .shared (cfg.strings.getD idx [])
  | .inline s => .str s
  | .fstr s => .str s
  | .bool b => .bool b
  | .err k => .error k
  | .iso s => .dateIso s

/-- the cells of the sheet in row-major order with their expected values -/
def cellsOf (cfg : Cfg) (s : Sheet) : List (Nat × Nat × Val) :=
  s.flatMap fun row => row.2.map fun cell => (row.1, cell.1, expect cfg cell.2)

/-! ### the value a caller sees: `Data` -/

/-- `calamine::Data` as `worksheet_range` delivers it (`Int`/`DurationIso` are never produced by the xlsx reader).
    `num`: `Float` or `DateTime`, C10's `Formats.NumData`. -/
inductive Data where
  | empty
  | string (s : Bytes)
  | bool (b : Bool)
  | error (k : CellErrorType)
  | dateTimeIso (s : Bytes)
  | num (n : Formats.NumData)
  deriving Repr, DecidableEq

instance : Inhabited Data := ⟨.empty⟩

/-- the two things the reader takes from outside the sheet part when it types a number: Rust's
    `str::parse::<f64>` (trusted `std`; the result as a bit pattern) and the workbook's 1904 flag -/
structure NumEnv where
  parse : Bytes → Option UInt64
  is1904 : Bool

/-- `DataRef → Data` with the number token resolved: `text.parse::<f64>()` then `format_excel_f64_ref` (C10's
    `formatF64`) with the format of the cell's style; an unparsable text is an error under `t="n"`, the string
    itself when `t` is absent; a shared string is the string -/
def toData (env : NumEnv) : Val → Res Data
  | .empty => .ok .empty
  | .str s => .ok (.string s)
  | .shared s => .ok (.string s)
  | .bool b => .ok (.bool b)
  | .error k => .ok (.error k)
  | .dateIso s => .ok (.dateTimeIso s)
  | .num t fmt strict =>
    match env.parse t with
    | some bits => .ok (.num (Formats.formatF64 bits (some fmt) env.is1904))
    | none => if strict then .err "ParseFloat" else .ok (.string t)

/-- **the documented mapping**, stated on the logical cell without reference to the reader's `Val`:
    numbers to `Float` — or to `DateTime` exactly when the format of the cell's style is a date/time or elapsed-time
    format —, shared / inline / formula strings to `String`, booleans to `Bool`, error literals to `Error`,
    ISO dates to `DateTimeIso`, anything else `Empty`; a `<v>` without `t` that is not a number is its text -/
def expectData (env : NumEnv) (cfg : Cfg) (cs : CellSpec) : Data :=
  match cs.content with
  | .blank => .empty
  | .num t tn =>
    if tn ∧ t = [] then .empty
    else match env.parse t with
      | some bits =>
        match styleFmt cfg cs.style with
        | .dateTime => .num (.dateTime (.bits bits) .dateTime env.is1904)
        | .timeDelta => .num (.dateTime (.bits bits) .timeDelta env.is1904)
        | .other => .num (.float bits)
      | none => .string t
  | .shared idx => .string (cfg.strings.getD idx [])
  | .inline s => .string s
  | .fstr s => .string s
  | .bool b => .bool b
  | .err k => .error k
  | .iso s => .dateTimeIso s

/-- numbers declared `t="n"` are numbers (otherwise reading the sheet fails with `ParseFloat`) -/
def Sheet.NumOk (env : NumEnv) (s : Sheet) : Prop :=
  ∀ row ∈ s, ∀ cell ∈ row.2, ∀ t, cell.2.content = .num t true → t ≠ [] → env.parse t ≠ none

/-- the cells of the sheet in row-major order with their documented values -/
def dataOf (env : NumEnv) (cfg : Cfg) (s : Sheet) : List (Nat × Nat × Data) :=
  s.flatMap fun row => row.2.map fun cell => (row.1, cell.1, expectData env cfg cell.2)

/-! ### encoder -/

/-- qualified element name -/
def q (pfx : Bool) (n : Bytes) : Bytes := if pfx then 120 :: 58 :: n else n

def nWorksheet : Bytes := [119, 111, 114, 107, 115, 104, 101, 101, 116]   -- "worksheet"
def tInlineStr : Bytes := [105, 110, 108, 105, 110, 101, 83, 116, 114]   -- "inlineStr"
#guard nWorksheet == asciiBytes "worksheet" && tInlineStr == asciiBytes "inlineStr"

/-- decimal text -/
def dec (n : Nat) : Bytes := (decLE n).reverse

/-- column letters, upper or lower case -/
def colLetters (lower : Bool) (c : Nat) : Bytes :=
  if lower then ((colLE (c + 1)).reverse).map (· + 32) else (colLE (c + 1)).reverse

/-- the A1 reference of (row, col) -/
def refName (lower : Bool) (row col : Nat) : Bytes := colLetters lower col ++ dec (row + 1)

def dimRef (d : Dims) : Bytes := refName false d.sr d.sc ++ 58 :: refName false d.er d.ec

/-- character data in pieces, each followed by a comment (so that the pieces stay separate events) -/
def pieces (chunks : List Bytes) : List Ev := chunks.flatMap fun c => [.text c, .other]

def vEvents (p : Bool) (chunks : List Bytes) : List Ev :=
  [.start (q p nV) []] ++ pieces chunks ++ [.stop (q p nV)]

/-- `<v>text</v>` with the text in one piece and nothing else (used by other encoders, e.g. `Spec/SharedSheet`) -/
def vEventsPlain (p : Bool) (t : Bytes) : List Ev :=
  [.start (q p nV) []] ++ (if t = [] then [] else [.text t]) ++ [.stop (q p nV)]

/-- `t` attribute and value children of a cell; `sp` cuts a text into its pieces -/
def contentEvents (p : Bool) (sp : Bytes → List Bytes) : Content → Attrs × List Ev
  | .blank => ([], [])
  | .num t tn => (if tn then [(nT, tN)] else [], vEvents p (sp t))
  | .shared idx => ([(nT, nS)], vEvents p (sp (dec idx)))
  | .inline s =>
    ([(nT, tInlineStr)],
     [.start (q p nIs) [], .start (q p nT) []] ++ pieces (sp s) ++ [.stop (q p nT), .stop (q p nIs)])
  | .fstr s => ([(nT, tStr)], vEvents p (sp s))
  | .bool b => ([(nT, tB)], vEvents p (sp [if b then 49 else 48]))
  | .err k => ([(nT, tE)], vEvents p (sp (errLiteral k)))
  | .iso s => ([(nT, tD)], vEvents p (sp s))

def formulaEvents (p : Bool) : Option Bytes → List Ev
  | none => []
  | some f => [.start (q p nF) []] ++ (if f = [] then [] else [.text f]) ++ [.stop (q p nF)]

/-- the `s` attribute -/
def styleAttr (style : Option Bytes) : Attrs := match style with | some s => [(nS, s)] | none => []

/-- one `<c>`; `cur` is the reader's column cursor when it reaches this element -/
def renderCell (lay : Layout) (row col cur : Nat) (cs : CellSpec) : List Ev :=
  let p := lay.cellPfx row col
  let explicit := lay.cellExplicit row col || col != cur
  let refAttr : Attrs := if explicit then [(nR, refName (lay.cellLower row col) row col)] else []
  let ce := contentEvents p (lay.split row col) cs.content
  lay.gapCell row col ++ [.start (q p nC) (lay.cellArrange row col (refAttr ++ styleAttr cs.style ++ ce.1))] ++
    formulaEvents p cs.formula ++ ce.2 ++ [.stop (q p nC)]

def renderCells (lay : Layout) (row : Nat) : Nat → List (Nat × CellSpec) → List Ev
  | _, [] => []
  | cur, (col, cs) :: rest => renderCell lay row col cur cs ++ renderCells lay row (col + 1) rest

/-- the `<row>` elements; `cur` is the reader's row cursor when it reaches the next row -/
def renderRows (lay : Layout) : Nat → Sheet → List Ev
  | _, [] => []
  | cur, (row, cells) :: rest =>
    let explicit := lay.rowExplicit row || row != cur
    lay.gapRow row ++
      [.start (q (lay.rowPfx row) nRow) (lay.rowArrange row (if explicit then [(nR, dec (row + 1))] else []))] ++
      renderCells lay row 0 cells ++ lay.gapRowEnd row ++ [.stop (q (lay.rowPfx row) nRow)] ++ renderRows lay (row + 1) rest

def dimEvents (lay : Layout) : List Ev :=
  match lay.dim with
  | some d => [.start (q lay.pfx nDimension) [(nRef, dimRef d)], .stop (q lay.pfx nDimension)]
  | none => []

/-- what follows `<sheetData>` -/
def renderBody (s : Sheet) (lay : Layout) : List Ev :=
  renderRows lay 0 s ++ lay.gapEnd ++ [.stop (q lay.pfx nSheetData)] ++ lay.after ++ [.stop (q lay.pfx nWorksheet)]

/-- the worksheet part -/
def renderSheet (s : Sheet) (lay : Layout) : List Ev :=
  [.start (q lay.pfx nWorksheet) []] ++ lay.beforeDim ++ dimEvents lay ++ lay.afterDim ++
    [.start (q lay.pfx nSheetData) []] ++ renderBody s lay

/-! ### shared string table (§18.4.9 `sst`, §18.4.8 `si`, §18.4.4 `r`, §18.4.6 `rPh`) -/

/-- one `<si>` item -/
inductive SstItem where
  /-- `<si><t>s</t></si>` -/
  | plain (s : Bytes)
  /-- `<si/>`: an item without any text -/
  | emptyElem
  /-- `<si><r><t>run</t></r>…<rPh><t>phonetic</t></rPh></si>` -/
  | rich (runs : List Bytes) (phonetic : Option Bytes)
  deriving Repr, DecidableEq

/-- the string an item stands for: the concatenation of its runs; phonetic text is not part of it -/
def SstItem.text : SstItem → Bytes
  | .plain s => s
  | .emptyElem => []
  | .rich runs _ => runs.flatten

def tEvents (p : Bool) (s : Bytes) : List Ev :=
  [.start (q p nT) []] ++ (if s = [] then [] else [.text s]) ++ [.stop (q p nT)]

def runEvents (p : Bool) (s : Bytes) : List Ev :=
  [.start (q p nR) []] ++ tEvents p s ++ [.stop (q p nR)]

def phoneticEvents (p : Bool) : Option Bytes → List Ev
  | none => []
  | some ph => [.start (q p nRPh) []] ++ tEvents p ph ++ [.stop (q p nRPh)]

def renderSi (p : Bool) : SstItem → List Ev
  | .plain s => [.start (q p nSi) []] ++ tEvents p s ++ [.stop (q p nSi)]
  | .emptyElem => [.start (q p nSi) [], .stop (q p nSi)]
  | .rich runs ph => [.start (q p nSi) []] ++ runs.flatMap (runEvents p) ++ phoneticEvents p ph ++ [.stop (q p nSi)]

/-- `xl/sharedStrings.xml` -/
def renderSst (p : Bool) (items : List SstItem) : List Ev :=
  [.start (q p nSst) []] ++ items.flatMap (renderSi p) ++ [.stop (q p nSst)]

end XlsxSheet
