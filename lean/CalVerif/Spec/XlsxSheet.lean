import CalVerif.Model.XlsxCells
/-! Logical worksheet, its expected reading, and the **encoder** `renderSheet : Sheet → Layout → List Ev`
    (ECMA-376 Part 1, §18.3.1 `worksheet`/`sheetData`/`row`/`c`, §18.3.1.4 `c@r`/`c@t`/`c@s`, §18.18.11 `ST_CellType`).

    A layout chooses, for every row and every cell, whether the reference attribute `r` is written
    (and the case of its letters), the element prefix, and the `<dimension>` element. The format makes an
    omitted reference mean "previous + 1"; the encoder therefore *forces* a reference wherever the
    position differs from the reader's cursor, so that every `Layout` value is a legal encoding
    (`explicit := λ.explicit ∨ position ≠ cursor` is the legality predicate, built into the encoder). -/

namespace XlsxSheet
open XlsxCells

/-- what is stored in a `<c>` element -/
inductive Content where
  /-- no child: a styled blank cell -/
  | blank
  /-- `<v>text</v>`, `t="n"` written iff `tn` -/
  | num (text : Bytes) (tn : Bool)
  /-- `t="s"` `<v>idx</v>` -/
  | shared (idx : Nat)
  /-- `t="inlineStr"` `<is><t>s</t></is>` -/
  | inline (s : Bytes)
  /-- `t="str"` `<v>s</v>` -/
  | fstr (s : Bytes)
  /-- `t="b"` `<v>0|1</v>` -/
  | bool (b : Bool)
  /-- `t="e"` `<v>literal</v>`, the literal of code `k < 7` -/
  | err (k : Nat)
  /-- `t="d"` `<v>s</v>` -/
  | iso (s : Bytes)
  deriving Repr, DecidableEq

structure CellSpec where
  content : Content
  /-- raw value of the `s` attribute, if any -/
  style : Option Bytes
  /-- text of an `<f>` child, written before the value -/
  formula : Option Bytes
  deriving Repr, DecidableEq

/-- a row: 0-based row number and its cells `(0-based column, cell)` -/
abbrev RowSpec := Nat × List (Nat × CellSpec)
/-- a logical sheet: rows in increasing order, cells of a row in increasing column order (`Sheet.WF`) -/
abbrev Sheet := List RowSpec

structure Layout where
  /-- element prefix `x:` -/
  pfx : Bool
  /-- the `<dimension ref>` element: absent, or any rectangle -/
  dim : Option Dims
  /-- write `r` on the row with this number even where it could be omitted -/
  rowExplicit : Nat → Bool
  /-- write `r` on the cell at (row, col) even where it could be omitted -/
  cellExplicit : Nat → Nat → Bool
  /-- lower-case column letters in the reference of the cell at (row, col) -/
  cellLower : Nat → Nat → Bool

/-- the `<dimension>` of the layout is a rectangle of the grid (it need not be related to the data) -/
def Layout.DimOk (lay : Layout) : Prop :=
  ∀ d, lay.dim = some d → d.sr < 1048576 ∧ d.sc < 16384 ∧ d.er < 1048576 ∧ d.ec < 16384

/-- strictly increasing first components, all below `bound` -/
def Increasing {α : Type} (bound : Nat) : Nat → List (Nat × α) → Prop
  | _, [] => True
  | lo, (k, _) :: rest => lo ≤ k ∧ k < bound ∧ Increasing bound (k + 1) rest

/-- rows strictly increasing below 2^20, columns strictly increasing below 16384 -/
def Sheet.WF (s : Sheet) : Prop :=
  Increasing 1048576 0 s ∧ ∀ row ∈ s, Increasing 16384 0 row.2

/-- the contents are readable with this configuration: shared indices are inside the table
    (and small enough for the index parser), error codes name a literal -/
def Content.Ok (cfg : Cfg) : Content → Prop
  | .shared idx => idx < cfg.strings.length ∧ idx < 10 ^ 19
  | .err k => k < 7
  | _ => True

def Sheet.ContentOk (cfg : Cfg) (s : Sheet) : Prop :=
  ∀ row ∈ s, ∀ cell ∈ row.2, cell.2.content.Ok cfg

/-- the format selected by the raw `s` attribute: `formats[atoi(s) or 0]`, `Other` when absent/out of range.
    (Which formats are dates is property C10; here it is a parameter of the expected value.) -/
def styleFmt (cfg : Cfg) (style : Option Bytes) : CellFormat :=
  match style with
  | some s => cfg.formats.getD ((atoiUsize s).getD 0) .other
  | none => .other

def errLiteral (k : Nat) : Bytes := (errorTable.getD k ([], 0)).1

/-- the documented mapping: what reading the cell must give -/
def expect (cfg : Cfg) (cs : CellSpec) : Val :=
  match cs.content with
  | .blank => .empty
  | .num t tn => if tn ∧ t = [] then .empty else .num t (styleFmt cfg cs.style) tn
  | .shared idx => .shared (cfg.strings.getD idx [])
  | .inline s => .str s
  | .fstr s => .str s
  | .bool b => .bool b
  | .err k => .error k
  | .iso s => .dateIso s

/-- the cells of the sheet in row-major order with their expected values -/
def cellsOf (cfg : Cfg) (s : Sheet) : List (Nat × Nat × Val) :=
  s.flatMap fun row => row.2.map fun cell => (row.1, cell.1, expect cfg cell.2)

/-! ### encoder -/

/-- qualified element name -/
def q (pfx : Bool) (n : Bytes) : Bytes := if pfx then 120 :: 58 :: n else n

def nWorksheet : Bytes := [119, 111, 114, 107, 115, 104, 101, 101, 116]   -- "worksheet"
def tInlineStr : Bytes := [105, 110, 108, 105, 110, 101, 83, 116, 114]   -- "inlineStr"
#guard nWorksheet == asciiBytes "worksheet" && tInlineStr == asciiBytes "inlineStr"

/-- decimal text -/
def dec (n : Nat) : Bytes := (decLE n).reverse

/-- column letters, upper or lower case -/
def colLetters (lower : Bool) (c : Nat) : Bytes :=
  if lower then ((colLE (c + 1)).reverse).map (· + 32) else (colLE (c + 1)).reverse

/-- the A1 reference of (row, col) -/
def refName (lower : Bool) (row col : Nat) : Bytes := colLetters lower col ++ dec (row + 1)

def dimRef (d : Dims) : Bytes := refName false d.sr d.sc ++ 58 :: refName false d.er d.ec

def vEvents (p : Bool) (t : Bytes) : List Ev :=
  [.start (q p nV) []] ++ (if t = [] then [] else [.text t]) ++ [.stop (q p nV)]

/-- `t` attribute and value children of a cell -/
def contentEvents (p : Bool) : Content → Attrs × List Ev
  | .blank => ([], [])
  | .num t tn => (if tn then [(nT, tN)] else [], vEvents p t)
  | .shared idx => ([(nT, nS)], vEvents p (dec idx))
  | .inline s =>
    ([(nT, tInlineStr)],
     [.start (q p nIs) [], .start (q p nT) []] ++ (if s = [] then [] else [.text s]) ++ [.stop (q p nT), .stop (q p nIs)])
  | .fstr s => ([(nT, tStr)], vEvents p s)
  | .bool b => ([(nT, tB)], vEvents p [if b then 49 else 48])
  | .err k => ([(nT, tE)], vEvents p (errLiteral k))
  | .iso s => ([(nT, tD)], vEvents p s)

def formulaEvents (p : Bool) : Option Bytes → List Ev
  | none => []
  | some f => [.start (q p nF) []] ++ (if f = [] then [] else [.text f]) ++ [.stop (q p nF)]

/-- the `s` attribute -/
def styleAttr (style : Option Bytes) : Attrs := match style with | some s => [(nS, s)] | none => []

/-- one `<c>`; `cur` is the reader's column cursor when it reaches this element -/
def renderCell (lay : Layout) (row col cur : Nat) (cs : CellSpec) : List Ev :=
  let explicit := lay.cellExplicit row col || col != cur
  let refAttr : Attrs := if explicit then [(nR, refName (lay.cellLower row col) row col)] else []
  let ce := contentEvents lay.pfx cs.content
  [.start (q lay.pfx nC) (refAttr ++ styleAttr cs.style ++ ce.1)] ++ formulaEvents lay.pfx cs.formula ++ ce.2 ++ [.stop (q lay.pfx nC)]

def renderCells (lay : Layout) (row : Nat) : Nat → List (Nat × CellSpec) → List Ev
  | _, [] => []
  | cur, (col, cs) :: rest => renderCell lay row col cur cs ++ renderCells lay row (col + 1) rest

/-- the `<row>` elements; `cur` is the reader's row cursor when it reaches the next row -/
def renderRows (lay : Layout) : Nat → Sheet → List Ev
  | _, [] => []
  | cur, (row, cells) :: rest =>
    let explicit := lay.rowExplicit row || row != cur
    [.start (q lay.pfx nRow) (if explicit then [(nR, dec (row + 1))] else [])] ++ renderCells lay row 0 cells ++
      [.stop (q lay.pfx nRow)] ++ renderRows lay (row + 1) rest

def dimEvents (lay : Layout) : List Ev :=
  match lay.dim with
  | some d => [.start (q lay.pfx nDimension) [(nRef, dimRef d)], .stop (q lay.pfx nDimension)]
  | none => []

/-- the worksheet part -/
def renderSheet (s : Sheet) (lay : Layout) : List Ev :=
  [.start (q lay.pfx nWorksheet) []] ++ dimEvents lay ++ [.start (q lay.pfx nSheetData) []] ++ renderRows lay 0 s ++
    [.stop (q lay.pfx nSheetData), .stop (q lay.pfx nWorksheet)]

/-! ### shared string table (§18.4.9 `sst`, §18.4.8 `si`, §18.4.4 `r`, §18.4.6 `rPh`) -/

/-- one `<si>` item -/
inductive SstItem where
  /-- `<si><t>s</t></si>` -/
  | plain (s : Bytes)
  /-- `<si/>`: an item without any text -/
  | emptyElem
  /-- `<si><r><t>run</t></r>…<rPh><t>phonetic</t></rPh></si>` -/
  | rich (runs : List Bytes) (phonetic : Option Bytes)
  deriving Repr, DecidableEq

/-- the string an item stands for: the concatenation of its runs; phonetic text is not part of it -/
def SstItem.text : SstItem → Bytes
  | .plain s => s
  | .emptyElem => []
  | .rich runs _ => runs.flatten

def tEvents (p : Bool) (s : Bytes) : List Ev :=
  [.start (q p nT) []] ++ (if s = [] then [] else [.text s]) ++ [.stop (q p nT)]

def runEvents (p : Bool) (s : Bytes) : List Ev :=
  [.start (q p nR) []] ++ tEvents p s ++ [.stop (q p nR)]

def phoneticEvents (p : Bool) : Option Bytes → List Ev
  | none => []
  | some ph => [.start (q p nRPh) []] ++ tEvents p ph ++ [.stop (q p nRPh)]

def renderSi (p : Bool) : SstItem → List Ev
  | .plain s => [.start (q p nSi) []] ++ tEvents p s ++ [.stop (q p nSi)]
  | .emptyElem => [.start (q p nSi) [], .stop (q p nSi)]
  | .rich runs ph => [.start (q p nSi) []] ++ runs.flatMap (runEvents p) ++ phoneticEvents p ph ++ [.stop (q p nSi)]

/-- `xl/sharedStrings.xml` -/
def renderSst (p : Bool) (items : List SstItem) : List Ev :=
  [.start (q p nSst) []] ++ items.flatMap (renderSi p) ++ [.stop (q p nSst)]

end XlsxSheet
