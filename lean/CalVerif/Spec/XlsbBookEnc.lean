import CalVerif.Model.XlsbBook
import CalVerif.Spec.MetadataEnc
/-! Description of an xlsb container for the glue theorems of C03 (`Props/C03.lean`, section "container"): the
    events of `xl/_rels/workbook.bin.rels` (relationship elements with their attributes in any order among other
    attributes, and anything else the reader passes over), and the sheet declarations of `xl/workbook.bin`
    (C16's record encoder `MetaEnc.encodeWorkbookBin`, with the relationship id and the `Target` it must resolve to
    and the bytes of the sheet's part attached). -/

namespace XlsbBook
open Meta MetaEnc

/-- one `<Relationship …/>` element: its `Id` and `Target` attribute values (raw bytes), in either order, among
    any other attributes (`Type`, `TargetMode`, …) -/
structure RelDesc where
  /-- qualified element name: `Relationship` or `<prefix>:Relationship` -/
  name : Rels.B
  id : Rels.B
  target : Rels.B
  pre : List (Rels.B × Rels.B)
  mid : List (Rels.B × Rels.B)
  post : List (Rels.B × Rels.B)
  idFirst : Bool
  deriving Repr

def RelDesc.attrs (r : RelDesc) : List (Option (Rels.B × Rels.B)) :=
  r.pre.map some ++ (some (if r.idFirst then (Rels.nmId, r.id) else (Rels.nmTarget, r.target)) ::
    (r.mid.map some ++ (some (if r.idFirst then (Rels.nmTarget, r.target) else (Rels.nmId, r.id)) :: r.post.map some)))

def otherAttrs (l : List (Rels.B × Rels.B)) : Prop := ∀ a ∈ l, a.1 ≠ Rels.nmId ∧ a.1 ≠ Rels.nmTarget

def RelDesc.OK (r : RelDesc) : Prop :=
  Rels.localName r.name = Rels.nmRelationship ∧ otherAttrs r.pre ∧ otherAttrs r.mid ∧ otherAttrs r.post ∧
  (Utf8.utf8Decode r.target).isSome

/-- the events of a relationships part: relationship elements and anything else the reader passes over -/
inductive RelItem where
  | rel (r : RelDesc)
  /-- `<Relationship …>` is followed by its `End` (both readers expand empty elements) -/
  | close (name : Rels.B)
  /-- an element with another local name: `Relationships`, extensions … -/
  | elem (name : Rels.B) (attrs : List (Option (Rels.B × Rels.B)))
  | other

def RelItem.ev : RelItem → Rels.Ev
  | .rel r => .start r.name r.attrs
  | .close n => .end_ n
  | .elem n a => .start n a
  | .other => .other

def RelItem.OK : RelItem → Prop
  | .rel r => r.OK
  | .elem n _ => Rels.localName n ≠ Rels.nmRelationship
  | _ => True

/-- the relationships the items declare, latest first -/
def declaredRels : List RelItem → List (Rels.B × Rels.B) → List (Rels.B × Rels.B)
  | [], acc => acc
  | .rel r :: rest, acc => declaredRels rest ((r.id, r.target) :: acc)
  | _ :: rest, acc => declaredRels rest acc

def relEvents (items : List RelItem) : List Rels.Ev := items.map RelItem.ev ++ [.eof]

/-- a worksheet as the workbook declares it: the BrtBundleSh fields, the relationship id and the `Target` it
    must resolve to (as characters), and the bytes of its part -/
structure SheetDecl where
  vis : SheetVisible
  tabId : Nat
  nameUnits : List Nat
  relId : List Char
  target : List Char
  cells : Bytes

def SheetDecl.sheet (d : SheetDecl) : XlsbSheet := ⟨d.vis, d.tabId, utf16 (d.relId.map Char.toNat), d.nameUnits⟩
def SheetDecl.name (d : SheetDecl) : Text := Biff.decodeUtf16 d.nameUnits
/-- the part the `Target` names: `worksheets/s.bin` (relative to `xl/`), `/xl/worksheets/s.bin` (absolute part
    name) and `xl/worksheets/s.bin` all mean `xl/worksheets/s.bin` -/
def SheetDecl.path (d : SheetDecl) : List Char := xlsxPath d.target

/-- the records of workbook.bin up to the end of the sheet list -/
inductive WItem where
  | sheet (d : SheetDecl) (wide : Bool) (lenW : Nat)
  | wbprop (flags : Nat) (wide : Bool) (lenW : Nat)
  | other (id : Nat) (payload : Bytes) (wide : Bool) (lenW : Nat)

def WItem.toRec : WItem → WRec
  | .sheet d w l => .sheet d.sheet w l
  | .wbprop f w l => .wbprop f w l
  | .other i p w l => .other i p w l

def declsOf : List WItem → List SheetDecl
  | [] => []
  | .sheet d _ _ :: r => d :: declsOf r
  | _ :: r => declsOf r

/-- the relationship table resolves the declaration: the LAST relationship whose `Id` bytes are the UTF-8 bytes of
    the id has the UTF-8 bytes of the target as its `Target` -/
def SheetDecl.resolves (rels : List (Rels.B × Rels.B)) (d : SheetDecl) : Prop :=
  rels.lookup (Utf8.utf8Encode d.relId) = some (Utf8.utf8Encode d.target)

def WItem.OK (rels : List (Rels.B × Rels.B)) : WItem → Prop
  | .sheet d _ _ => d.tabId < 4294967296 ∧ d.sheet.relUnits.length < 2147483648 ∧ d.nameUnits.length < 2147483648 ∧
      (∀ u ∈ d.nameUnits, u < 65536) ∧ d.resolves rels ∧ (∃ kind, kindOfPath Gen.xlsbKindTable d.path = some kind) ∧
      d.sheet.payload.length < 268435456
  | .wbprop f _ _ => f < 4294967296
  | .other id p _ _ => id < 16384 ∧ id ≠ 0x0099 ∧ id ≠ 0x009C ∧ id ≠ 0x0090 ∧ p.length < 268435456

/-- a formula decoder that neither panics nor runs out of fuel (C14's `parse_formula` after its fixes) -/
def PfTotal (pf : Bytes → List Text → List (Text × Text) → Res Text) : Prop :=
  ∀ rg e n, (∃ v, pf rg e n = .ok v) ∨ (∃ x, pf rg e n = .err x)

end XlsbBook
