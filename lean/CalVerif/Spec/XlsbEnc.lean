import CalVerif.Model.Xlsb
/-! Encoder and logical meaning of an XLSB worksheet part ([MS-XLSB] 2.1.4 record framing, 2.4 cell records).

    A sheet part is written as a list of *framed items*. The item list carries both the logical sheet (which
    rows and cells, with which content) and the layout `λ` the property quantifies over: per record the width
    of the id (1 or 2 bytes) and of the length varint (1..4 bytes), ignorable records anywhere, and for each
    value kind that has one the formula record instead of the constant record. `encodeItems` lays the bytes
    out; `specCells` says, independently of the reader model, which cells the items denote. The compiled
    driver uses `encodeItems` to generate the sheet parts fed to the real reader. -/

namespace Xlsb

/-! ### framing -/

/-- record id: one byte below 128 (unless `wide`), else two: low 7 bits with the high bit set, then the rest -/
def encId (t : Nat) (wide : Bool) : Bytes :=
  if t < 128 ∧ wide = false then [UInt8.ofNat t] else [UInt8.ofNat (t % 128 + 128), UInt8.ofNat (t / 128)]

/-- the fewest 7-bit groups that hold `n` -/
def minLenWidth (n : Nat) : Nat :=
  if n < 128 then 1 else if n < 16384 then 2 else if n < 2097152 then 3 else 4

/-- `n` in exactly `w` groups of 7 bits, low group first, continuation bit on all but the last -/
def encLenW : Nat → Nat → Bytes
  | 0, _ => []
  | 1, n => [UInt8.ofNat (n % 128)]
  | w+2, n => UInt8.ofNat (n % 128 + 128) :: encLenW (w+1) (n / 128)

/-- the width actually used for a requested width `w` (0 = shortest; too small or > 4 = shortest) -/
def lenWidth (n w : Nat) : Nat := if w = 0 ∨ w < minLenWidth n ∨ 4 < w then minLenWidth n else w

def encLen (n w : Nat) : Bytes := encLenW (lenWidth n w) n

/-- one record -/
def frame (t : Nat) (p : Bytes) (wide : Bool) (w : Nat) : Bytes := encId t wide ++ encLen p.length w ++ p

/-! ### payloads -/

def le16 (n : Nat) : Bytes := [UInt8.ofNat (n % 256), UInt8.ofNat (n / 256 % 256)]
def le32 (n : Nat) : Bytes :=
  [UInt8.ofNat (n % 256), UInt8.ofNat (n / 256 % 256), UInt8.ofNat (n / 65536 % 256), UInt8.ofNat (n / 16777216 % 256)]
def le64 (n : Nat) : Bytes := le32 (n % 4294967296) ++ le32 (n / 4294967296)

def unitsBytes : List Nat → Bytes
  | [] => []
  | u :: rest => UInt8.ofNat (u % 256) :: UInt8.ofNat (u / 256 % 256) :: unitsBytes rest

/-- XLWideString -/
def wideBytes (us : List Nat) : Bytes := le32 us.length ++ unitsBytes us

/-- the value part of a cell record -/
inductive Content where
  | blank
  /-- raw RK word -/
  | rk (w : Nat)
  | err (code : Nat)
  | bool (b : Nat)
  | real (bits : Nat)
  | str (us : List Nat)
  | isst (i : Nat)
  deriving Repr, DecidableEq

structure CellRec where
  col : Nat
  style : Nat
  content : Content
  /-- `some bytes`: write the BrtFmla* record of the content's kind, `bytes` (grbitFlags + CellParsedFormula)
      appended; ignored for blank / rk / isst, which have no formula record -/
  fmla : Option Bytes
  deriving Repr

def Content.hasFmla : Content → Bool
  | .err _ | .bool _ | .real _ | .str _ => true
  | _ => false

/-- record id of a cell -/
def CellRec.recId (c : CellRec) : Nat :=
  match c.content, c.fmla.isSome with
  | .blank, _ => 1
  | .rk _, _ => 2
  | .err _, false => 3
  | .bool _, false => 4
  | .real _, false => 5
  | .str _, false => 6
  | .isst _, _ => 7
  | .str _, true => 8
  | .real _, true => 9
  | .bool _, true => 10
  | .err _, true => 11

def Content.bytes : Content → Bytes
  | .blank => []
  | .rk w => le32 w
  | .err c => [UInt8.ofNat c]
  | .bool b => [UInt8.ofNat b]
  | .real bits => le64 bits
  | .str us => wideBytes us
  | .isst i => le32 i

/-- Cell structure (column, 24-bit style, one reserved byte) -/
def cellHead (col style : Nat) : Bytes :=
  le32 col ++ [UInt8.ofNat (style % 256), UInt8.ofNat (style / 256 % 256), UInt8.ofNat (style / 65536 % 256), 0]

def CellRec.payload (c : CellRec) : Bytes :=
  cellHead c.col c.style ++ c.content.bytes ++
    (match c.fmla with
     | some f => if c.content.hasFmla then f else []
     | none => [])

inductive Item where
  /-- BrtRowHdr: row number and the rest of the record (style, height, flags, spans) -/
  | row (r : Nat) (tail : Bytes)
  | cell (c : CellRec)
  /-- any other record -/
  | raw (id : Nat) (payload : Bytes)
  deriving Repr

structure Framed where
  item : Item
  wide : Bool
  lenW : Nat
  deriving Repr

def Item.recId : Item → Nat
  | .row _ _ => 0
  | .cell c => c.recId
  | .raw id _ => id

def Item.payload : Item → Bytes
  | .row r tail => le32 r ++ tail
  | .cell c => c.payload
  | .raw _ p => p

def Framed.bytes (f : Framed) : Bytes := frame f.item.recId f.item.payload f.wide f.lenW

def encodeItems : List Framed → Bytes
  | [] => []
  | f :: rest => f.bytes ++ encodeItems rest

/-- a whole sheet part: prologue records, the sheet data, BrtEndSheetData, epilogue records -/
def encodeSheet (pre data post : List Framed) (endWide : Bool) (endLenW : Nat) : Bytes :=
  encodeItems pre ++ encodeItems data ++ frame 0x0092 [] endWide endLenW ++ encodeItems post

/-! ### what the items mean -/

/-- ids the cell loop gives a meaning to -/
def interpretedId (id : Nat) : Bool := id = 0 || (2 ≤ id && id ≤ 11) || id = 0x92

/-- the sign-extended 30-bit integer of an RK word ([MS-XLS] 2.5.217 RkNumber, num field) -/
def rkIntSpec (w : Nat) : Int :=
  let n := w / 4 % 1073741824
  if n < 536870912 then (n : Int) else (n : Int) - 1073741824

/-- number → value under a style: date/time styles give `DateTime`, anything else `Float` -/
def styled (ctx : Ctx) (style : Nat) (bits : Nat) : Val :=
  match ctx.formats[style % 16777216]? with
  | some 1 => .dateTime bits false ctx.is1904
  | some 2 => .dateTime bits true ctx.is1904
  | _ => .float bits

/-- the value a cell record stores; `none` = no value (blank) or not well-formed (bad error code, string index
    out of range) -/
def valueOf (ctx : Ctx) (style : Nat) : Content → Option Val
  | .blank => none
  | .rk w =>
    if w / 2 % 2 = 1 then
      -- fInt: an integer, divided by 100 when fX100; a bare integer under a date style is a date
      if w % 2 = 1 then some (styled ctx style (fdiv100 (i2f (rkIntSpec w))))
      else match styled ctx style (i2f (rkIntSpec w)) with
        | .float _ => some (.int (rkIntSpec w))
        | v => some v
    else
      -- the 30 high bits of a double
      let bits := (w / 4) * 17179869184
      some (styled ctx style (if w % 2 = 1 then fdiv100 bits else bits))
  | .err c => if isErrCode c then some (.error c) else none
  | .bool b => some (.bool (b % 256 ≠ 0))
  | .real bits => some (styled ctx style bits)
  | .str us => some (.str us)
  | .isst i => (ctx.strings[i]?).map .str

/-- cells denoted by a list of items, starting in row `row` -/
def specCells (ctx : Ctx) : List Item → Nat → List (Nat × Nat × Val)
  | [], _ => []
  | .row r _ :: rest, _ => specCells ctx rest r
  | .cell c :: rest, row =>
    match valueOf ctx c.style c.content with
    | some v => (row, c.col, v) :: specCells ctx rest row
    | none => specCells ctx rest row
  | .raw _ _ :: rest, row => specCells ctx rest row

end Xlsb
