import CalVerif.Model.Xlsb
/-! Encoder and logical meaning of an XLSB worksheet part ([MS-XLSB] 2.1.4 record framing, 2.4 cell records).

    A sheet part is written as a list of *framed items*. The item list carries both the logical sheet (which
    rows and cells, with which content) and the layout `λ` the property quantifies over: per record the width
    of the id (1 or 2 bytes) and of the length varint (1..4 bytes), ignorable records anywhere, and for each
    value kind that has one the formula record instead of the constant record. `encodeItems` lays the bytes
    out; `specCells` says, independently of the reader model, which cells the items denote. The compiled
    driver uses `encodeItems` to generate the sheet parts fed to the real reader. -/

namespace Xlsb

/-! ### framing -/

/-- record id: one byte below 128 (unless `wide`), else two: low 7 bits with the high bit set, then the rest -/
def encId (t : Nat) (wide : Bool) : Bytes :=
  if t < 128 ∧ wide = false then [UInt8.ofNat t] else [UInt8.ofNat (t % 128 + 128), UInt8.ofNat (t / 128)]

/-- the fewest 7-bit groups that hold `n` -/
def minLenWidth (n : Nat) : Nat :=
  if n < 128 then 1 else if n < 16384 then 2 else if n < 2097152 then 3 else 4

/-- `n` in exactly `w` groups of 7 bits, low group first, continuation bit on all but the last -/
def encLenW : Nat → Nat → Bytes
  | 0, _ => []
  | 1, n => [UInt8.ofNat (n % 128)]
  | w+2, n => UInt8.ofNat (n % 128 + 128) :: encLenW (w+1) (n / 128)

/-- the width actually used for a requested width `w` (0 = shortest; too small or > 4 = shortest) -/
def lenWidth (n w : Nat) : Nat := if w = 0 ∨ w < minLenWidth n ∨ 4 < w then minLenWidth n else w

def encLen (n w : Nat) : Bytes := encLenW (lenWidth n w) n

/-- one record -/
def frame (t : Nat) (p : Bytes) (wide : Bool) (w : Nat) : Bytes := encId t wide ++ encLen p.length w ++ p

/-! ### payloads -/

def le16 (n : Nat) : Bytes := [UInt8.ofNat (n % 256), UInt8.ofNat (n / 256 % 256)]
def le32 (n : Nat) : Bytes :=
  [UInt8.ofNat (n % 256), UInt8.ofNat (n / 256 % 256), UInt8.ofNat (n / 65536 % 256), UInt8.ofNat (n / 16777216 % 256)]
def le64 (n : Nat) : Bytes := le32 (n % 4294967296) ++ le32 (n / 4294967296)

def unitsBytes : List Nat → Bytes
  | [] => []
  | u :: rest => UInt8.ofNat (u % 256) :: UInt8.ofNat (u / 256 % 256) :: unitsBytes rest

/-- XLWideString -/
def wideBytes (us : List Nat) : Bytes := le32 us.length ++ unitsBytes us

/-- the value part of a cell record -/
inductive Content where
  | blank
  /-- raw RK word -/
  | rk (w : Nat)
  | err (code : Nat)
  | bool (b : Nat)
  | real (bits : Nat)
  | str (us : List Nat)
  | isst (i : Nat)
  deriving Repr, DecidableEq

structure CellRec where
  col : Nat
  style : Nat
  content : Content
  /-- `some bytes`: write the BrtFmla* record of the content's kind, `bytes` (grbitFlags + CellParsedFormula)
      appended; ignored for blank / rk / isst, which have no formula record -/
  fmla : Option Bytes
  deriving Repr

def Content.hasFmla : Content → Bool
  | .err _ | .bool _ | .real _ | .str _ => true
  | _ => false

/-- record id of a cell -/
def CellRec.recId (c : CellRec) : Nat :=
  match c.content, c.fmla.isSome with
  | .blank, _ => 1
  | .rk _, _ => 2
  | .err _, false => 3
  | .bool _, false => 4
  | .real _, false => 5
  | .str _, false => 6
  | .isst _, _ => 7
  | .str _, true => 8
  | .real _, true => 9
  | .bool _, true => 10
  | .err _, true => 11

def Content.bytes : Content → Bytes
  | .blank => []
  | .rk w => le32 w
  | .err c => [UInt8.ofNat c]
  | .bool b => [UInt8.ofNat b]
  | .real bits => le64 bits
  | .str us => wideBytes us
  | .isst i => le32 i

/-- Cell structure (column, 24-bit style, one reserved byte) -/
def cellHead (col style : Nat) : Bytes :=
  le32 col ++ [UInt8.ofNat (style % 256), UInt8.ofNat (style / 256 % 256), UInt8.ofNat (style / 65536 % 256), 0]

def CellRec.payload (c : CellRec) : Bytes :=
  cellHead c.col c.style ++ c.content.bytes ++
    (match c.fmla with
     | some f => if c.content.hasFmla then f else []
     | none => [])

inductive Item where
  /-- BrtRowHdr: row number and the rest of the record (style, height, flags, spans) -/
  | row (r : Nat) (tail : Bytes)
  | cell (c : CellRec)
  /-- any other record -/
  | raw (id : Nat) (payload : Bytes)
  deriving Repr

structure Framed where
  item : Item
  wide : Bool
  lenW : Nat
  deriving Repr

def Item.recId : Item → Nat
  | .row _ _ => 0
  | .cell c => c.recId
  | .raw id _ => id

def Item.payload : Item → Bytes
  | .row r tail => le32 r ++ tail
  | .cell c => c.payload
  | .raw _ p => p

def Framed.bytes (f : Framed) : Bytes := frame f.item.recId f.item.payload f.wide f.lenW

def encodeItems : List Framed → Bytes
  | [] => []
  | f :: rest => f.bytes ++ encodeItems rest

/-- a whole sheet part: prologue records, the sheet data, BrtEndSheetData, epilogue records -/
def encodeSheet (pre data post : List Framed) (endWide : Bool) (endLenW : Nat) : Bytes :=
  encodeItems pre ++ encodeItems data ++ frame 0x0092 [] endWide endLenW ++ encodeItems post

/-! ### what the items mean -/

/-- ids the cell loop gives a meaning to -/
def interpretedId (id : Nat) : Bool := id = 0 || (2 ≤ id && id ≤ 11) || id = 0x92

/-- the sign-extended 30-bit integer of an RK word ([MS-XLS] 2.5.217 RkNumber, num field) -/
def rkIntSpec (w : Nat) : Int :=
  let n := w / 4 % 1073741824
  if n < 536870912 then (n : Int) else (n : Int) - 1073741824

/-- BErr ([MS-XLSB] 2.5.97.2, the same byte as [MS-XLS] 2.5.10 BErr): error code → error value, written from the
    specification (independent of the code; `Gen.xlsbErrTable` is the code's table) -/
def berrTable : List (Nat × CellErrorType) :=
  [(0x00, .null), (0x07, .div0), (0x0F, .value), (0x17, .ref), (0x1D, .name), (0x24, .num), (0x2A, .nA),
   (0x2B, .gettingData)]

/-- the error value a code stands for -/
def berrKind (c : Nat) : Option CellErrorType := berrTable.lookup c

/-- the code of an error value -/
def berrCode : CellErrorType → Nat
  | .null => 0x00 | .div0 => 0x07 | .value => 0x0F | .ref => 0x17 | .name => 0x1D | .num => 0x24 | .nA => 0x2A
  | .gettingData => 0x2B

/-- how Excel displays the error value -/
def berrText : CellErrorType → String
  | .null => "#NULL!" | .div0 => "#DIV/0!" | .value => "#VALUE!" | .ref => "#REF!" | .name => "#NAME?"
  | .num => "#NUM!" | .nA => "#N/A" | .gettingData => "#GETTING_DATA"

/-- number → value under a style: date/time styles give `DateTime`, anything else `Float` -/
def styled (ctx : Ctx) (style : Nat) (bits : Nat) : Val :=
  match ctx.formats[style % 16777216]? with
  | some 1 => .dateTime bits false ctx.is1904
  | some 2 => .dateTime bits true ctx.is1904
  | _ => .float bits

/-- the value a cell record stores; `none` = no value (blank) or not well-formed (bad error code, string index
    out of range) -/
def valueOf (ctx : Ctx) (style : Nat) : Content → Option Val
  | .blank => none
  | .rk w =>
    if w / 2 % 2 = 1 then
      -- fInt: an integer, divided by 100 when fX100; a bare integer under a date style is a date
      if w % 2 = 1 then some (styled ctx style (fdiv100 (i2f (rkIntSpec w))))
      else match styled ctx style (i2f (rkIntSpec w)) with
        | .float _ => some (.int (rkIntSpec w))
        | v => some v
    else
      -- the 30 high bits of a double
      let bits := (w / 4) * 17179869184
      some (styled ctx style (if w % 2 = 1 then fdiv100 bits else bits))
  | .err c => if (berrKind c).isSome then some (.error c) else none
  | .bool b => some (.bool (b % 256 ≠ 0))
  | .real bits => some (styled ctx style bits)
  | .str us => some (.str us)
  | .isst i => (ctx.strings[i]?).map .str

/-- cells denoted by a list of items, starting in row `row` -/
def specCells (ctx : Ctx) : List Item → Nat → List (Nat × Nat × Val)
  | [], _ => []
  | .row r _ :: rest, _ => specCells ctx rest r
  | .cell c :: rest, row =>
    match valueOf ctx c.style c.content with
    | some v => (row, c.col, v) :: specCells ctx rest row
    | none => specCells ctx rest row
  | .raw _ _ :: rest, row => specCells ctx rest row

/-! ### well-formedness conditions and sheet layout used by the round-trip theorems -/

/-- size constraints of the fields of a cell record -/
def Content.WF : Content → Prop
  | .blank => True
  | .rk w => w < 4294967296
  | .err c => c < 256
  | .bool b => b < 256
  | .real bits => bits < 18446744073709551616
  | .str us => us.length < 4294967296 ∧ ∀ u ∈ us, u < 65536
  | .isst i => i < 4294967296

def CellRec.WF (c : CellRec) : Prop := c.col < 4294967296 ∧ c.content.WF

def CellRec.tail (c : CellRec) : Bytes :=
  match c.fmla with
  | some f => if c.content.hasFmla then f else []
  | none => []

/-- what the round-trip theorems require of an item of the sheet data -/
def Item.OK (ctx : Ctx) : Item → Prop
  | .row r tail => r ≤ 0x100000 ∧ 4 + tail.length < 268435456
  | .cell c => c.WF ∧ c.payload.length < 268435456 ∧ (c.content = .blank ∨ (valueOf ctx c.style c.content).isSome)
  | .raw id p => id < 16384 ∧ interpretedId id = false ∧ p.length < 268435456

/-- the buffer after `fill_buffer` read the payload `p` into `buf`: exactly the payload -/
def fillBuf (_buf p : Bytes) : Bytes := p

def Framed.id (f : Framed) : Nat := f.item.recId
def Framed.pay (f : Framed) : Bytes := f.item.payload

/-- framing limits: 14-bit id, 28-bit length -/
def Framed.Fits (f : Framed) : Prop := f.id < 16384 ∧ f.pay.length < 268435456

/-- the buffers `fill_buffer` produces while skipping a list of records -/
def bufAfter (buf : Bytes) (l : List Framed) : Bytes := l.foldl (fun b x => fillBuf b x.pay) buf

/-- a piece of the sheet prologue: one record, or a block `start … stop` whose content the reader skips -/
inductive Seg where
  | one (r : Framed)
  | block (start : Framed) (inner : List Framed) (stop : Framed)

def Seg.bytes : Seg → Bytes
  | .one r => r.bytes
  | .block s inner e => s.bytes ++ (encodeItems inner ++ e.bytes)

def encodeSegs : List Seg → Bytes
  | [] => []
  | s :: rest => s.bytes ++ encodeSegs rest

/-- number of records of a segment -/
def Seg.size : Seg → Nat
  | .one _ => 1
  | .block _ inner _ => inner.length + 2

def segsSize : List Seg → Nat
  | [] => 0
  | s :: rest => s.size + segsSize rest

/-- a segment the skipping loop passes over when looking for `target` under `bounds` -/
def Seg.OK (target : Nat) (bounds : List (Nat × Option Nat)) : Seg → Prop
  | .one r => r.Fits ∧ r.id ≠ target ∧ blockEnd bounds r.id = none
  | .block s inner e => s.Fits ∧ s.id ≠ target ∧ blockEnd bounds s.id = some e.id ∧ e.Fits ∧
      ∀ x ∈ inner, x.Fits ∧ x.id ≠ e.id

/-- the `bounds` of the two `next_skip_blocks` calls of `XlsbCellsReader::new` -/
def bounds1 : List (Nat × Option Nat) := [(0x0081, none), (0x0093, none)]
def bounds2 : List (Nat × Option Nat) := [(0x0085, some 0x0086), (0x0025, some 0x0026), (0x01E5, none), (0x0186, some 0x0187)]

/-- the bytes of a worksheet part: prologue up to BrtWsDim, BrtWsDim, prologue up to BrtBeginSheetData,
    BrtBeginSheetData, the sheet data, BrtEndSheetData, anything -/
def sheetBytes (pre1 : List Seg) (dims : Bytes) (dw : Bool) (dl : Nat) (pre2 : List Seg) (bp : Bytes) (bw : Bool)
    (bl : Nat) (data : List Framed) (ew : Bool) (el : Nat) (post : Bytes) : Bytes :=
  encodeSegs pre1 ++ (frame 0x0094 dims dw dl ++ (encodeSegs pre2 ++ (frame 0x0091 bp bw bl ++
    (encodeItems data ++ (frame 0x0092 [] ew el ++ post)))))

/-- cells sorted by row (what `Range::from_sparse` documents as its precondition; the encoder's sheets, whose
    row headers increase, meet it) with rows and columns inside the sheet grid -/
def GridSorted (S : List (Nat × Nat × Val)) : Prop :=
  S.Pairwise (fun a b => a.1 ≤ b.1) ∧ ∀ c ∈ S, c.1 < 1048576 ∧ c.2.1 < 16384

/-! ### the shared string table part -/

/-- One BrtSSTItem ([MS-XLSB] 2.4.743, RichStr 2.5.121): the text, optionally rich-text runs (`fRichStr`: StrRun =
    character index, font index), optionally phonetic data (`fExtStr`: the phonetic string and its PhRun triples
    ichFirst, ichMom, cchMom), the records the reader passes over in front of the item (any record but
    BrtSSTItem, or a block 0x0023 … 0x0024 of future records) and the framing widths of the item record. -/
structure SstEntry where
  text : List Nat
  runs : Option (List (Nat × Nat))
  phon : Option (List Nat × List (Nat × Nat × Nat))
  pre : List Seg
  wide : Bool
  lenW : Nat

/-- the flags byte: bit 0 `fRichStr`, bit 1 `fExtStr` -/
def SstEntry.flags (e : SstEntry) : Nat := (if e.runs.isSome then 1 else 0) + (if e.phon.isSome then 2 else 0)

/-- `dwSizeStrRun`, `rgsStrRun` -/
def runsBytes (rs : List (Nat × Nat)) : Bytes := le32 rs.length ++ rs.flatMap (fun r => le16 r.1 ++ le16 r.2)

/-- `phoneticStr`, `dwPhoneticRun`, `rgsPhRun` -/
def phonBytes (p : List Nat × List (Nat × Nat × Nat)) : Bytes :=
  wideBytes p.1 ++ le32 p.2.length ++ p.2.flatMap (fun r => le16 r.1 ++ le16 r.2.1 ++ le16 r.2.2)

def SstEntry.trailer (e : SstEntry) : Bytes :=
  (match e.runs with | some rs => runsBytes rs | none => []) ++ (match e.phon with | some p => phonBytes p | none => [])

def SstEntry.payload (e : SstEntry) : Bytes := UInt8.ofNat e.flags :: (wideBytes e.text ++ e.trailer)

/-- sizes the framing and the string layout can express -/
def SstEntry.OK (e : SstEntry) : Prop :=
  e.text.length < 100000000 ∧ (∀ u ∈ e.text, u < 65536) ∧ e.payload.length < 268435456 ∧
  ∀ s ∈ e.pre, s.OK 0x0013 [(0x0023, some 0x0024)]

def sstEntriesBytes : List SstEntry → Bytes → Bytes
  | [], post => post
  | e :: rest, post => encodeSegs e.pre ++ (frame 0x0013 e.payload e.wide e.lenW ++ sstEntriesBytes rest post)

/-- the bytes of `xl/sharedStrings.bin`: records in front, BrtBeginSst (total count, unique count), the items
    (each with the records in front of it), then anything (BrtEndSst) -/
def sstBytes (pre0 : List Seg) (total : Nat) (hw : Bool) (hl : Nat) (entries : List SstEntry) (post : Bytes) : Bytes :=
  encodeSegs pre0 ++ (frame 0x009F (le32 total ++ le32 entries.length) hw hl ++ sstEntriesBytes entries post)

end Xlsb
