import CalVerif.Model.Geometry
/-! Spec side of property C17: how a file *declares* merged regions and tables — the encoders whose
    output the decoders of `Model/Geometry.lean` must map back to the declared geometry.

    * `renderRef`  : rectangle → A1 reference text (`B2` / `B2:D7`), column letters by the bijective
      base-26 encoder, rows in decimal;
    * `renderMergeCells` / `renderSheet` : the `<mergeCells>` element of a worksheet as XML events, under a
      namespace prefix, with ignorable events between the children;
    * `encodeMergedCells` : the payload of a BIFF8 MERGEDCELLS record (`cmcs`, then `Ref8` entries);
    * `renderTablePart`, `renderSheetRels` : a table part and a sheet relationship part. -/

namespace Geometry

/-- bijective base-26 digits of `v ≥ 1`, least significant first, as ASCII capitals
    (`fuel = v` is always enough) -/
def colRev : Nat → Nat → Bytes
  | 0, _ => []
  | f + 1, v =>
    if v = 0 then [] else UInt8.ofNat (65 + (v - 1) % 26) :: colRev f ((v - 1) / 26)

/-- column letters of the 0-based column `c`: `0 ↦ A`, `25 ↦ Z`, `26 ↦ AA`, `16383 ↦ XFD` -/
def colName (c : Nat) : Bytes := (colRev (c + 1) (c + 1)).reverse

/-- decimal digits of `n ≥ 1`, least significant first -/
def decRev : Nat → Nat → Bytes
  | 0, _ => []
  | f + 1, n => if n = 0 then [] else UInt8.ofNat (48 + n % 10) :: decRev f (n / 10)

/-- decimal text of `n ≥ 1` -/
def dec (n : Nat) : Bytes := (decRev n n).reverse

/-- A1 name of the 0-based cell `(row, col)` -/
def renderCell (row col : Nat) : Bytes := colName col ++ dec (row + 1)

/-- two-corner form `B2:D7` -/
def renderRef2 (d : Rect) : Bytes := renderCell d.sr d.sc ++ 58 :: renderCell d.er d.ec

/-- the reference text Excel writes: one cell name for a single cell, two corners otherwise -/
def renderRef (d : Rect) : Bytes :=
  if d.sr = d.er ∧ d.sc = d.ec then renderCell d.sr d.sc else renderRef2 d

/-- a well-ordered rectangle inside the xlsx grid (`XFD1048576`) -/
def Rect.Valid (d : Rect) : Prop := d.sr ≤ d.er ∧ d.sc ≤ d.ec ∧ d.er < 1048576 ∧ d.ec < 16384

instance (d : Rect) : Decidable d.Valid := by unfold Rect.Valid; exact inferInstance

/-- qualified name under a namespace prefix (`[]` = default namespace) -/
def qn (pre : List Char) (n : List Char) : List Char := if pre = [] then n else pre ++ ':' :: n

/-- events that none of the merge readers reacts to: no start of a `mergeCell`/`mergeCells` element, no
    end of `mergeCells` -/
def Ev.Inert : Ev → Prop
  | .start n _ => localName n ≠ nMergeCell ∧ localName n ≠ nMergeCells
  | .end_ n => localName n ≠ nMergeCells
  | _ => True

/-- `<mergeCell ref="…"/>` with further attributes before (`a1`, none of them named `ref`) and after (`a2`)
    the reference, followed by ignorable events `gap` -/
structure MergeDecl where
  rect : Rect
  two : Bool := false
  a1 : List (List Char × Bytes) := []
  a2 : List (List Char × Bytes) := []
  gap : List Ev := []

def MergeDecl.refText (d : MergeDecl) : Bytes := if d.two then renderRef2 d.rect else renderRef d.rect

def MergeDecl.Ok (d : MergeDecl) : Prop :=
  d.rect.Valid ∧ (∀ a ∈ d.a1, a.1 ≠ nRef) ∧ ∀ e ∈ d.gap, e.Inert

def renderMergeCell (pre : List Char) (d : MergeDecl) : List Ev :=
  .start (qn pre nMergeCell) (d.a1 ++ (nRef, d.refText) :: d.a2) :: .end_ (qn pre nMergeCell) :: d.gap

/-- the children of `<mergeCells>` and its end tag -/
def renderMergeCells (pre : List Char) (ds : List MergeDecl) : List Ev :=
  ds.flatMap (renderMergeCell pre) ++ [.end_ (qn pre nMergeCells)]

/-- a worksheet part: inert events, the `<mergeCells>` element (absent when `ds = []` and `omit`), inert events -/
def renderSheet (pre : List Char) (before : List Ev) (ds : List MergeDecl) (after : List Ev) : List Ev :=
  before ++ .start (qn pre nMergeCells) [] :: renderMergeCells pre ds ++ after

/-- little-endian `u16` -/
def u16le (n : Nat) : Bytes := [UInt8.ofNat (n % 256), UInt8.ofNat (n / 256 % 256)]

/-- `Ref8`: rwFirst, rwLast, colFirst, colLast -/
def encodeRef8 (d : Rect) : Bytes := u16le d.sr ++ u16le d.er ++ u16le d.sc ++ u16le d.ec

/-- payload of a MERGEDCELLS record -/
def encodeMergedCells (ds : List Rect) : Bytes := u16le ds.length ++ ds.flatMap encodeRef8

/-- every coordinate fits `u16` (BIFF8 sheets end at `IV65536`, the record can say more) -/
def Rect.Fits16 (d : Rect) : Prop := d.sr < 65536 ∧ d.sc < 65536 ∧ d.er < 65536 ∧ d.ec < 65536

end Geometry

namespace Geometry

/-- a worksheet as a file declares it: sheet name, part path, namespace prefix, and the merged regions in
    document order between inert events; `mc = false`: no `<mergeCells>` element at all (then `merges = []`) -/
structure SheetDecl where
  name : Bytes
  path : Bytes
  pre : List Char := []
  before : List Ev := []
  mc : Bool := true
  merges : List MergeDecl := []
  after : List Ev := []

def SheetDecl.events (s : SheetDecl) : List Ev :=
  if s.mc then renderSheet s.pre s.before s.merges s.after else s.before ++ s.after

def SheetDecl.regions (s : SheetDecl) : List Rect := s.merges.map (·.rect)

def SheetDecl.Ok (s : SheetDecl) : Prop :=
  (∀ c ∈ s.pre, c ≠ ':') ∧ (∀ e ∈ s.before, e.Inert) ∧ (∀ e ∈ s.after, e.Inert) ∧
  (∀ d ∈ s.merges, d.Ok) ∧ (s.mc = false → s.merges = [])

def SheetDecl.part (s : SheetDecl) : SheetPart := ⟨s.name, s.path, some s.events⟩

end Geometry

namespace Geometry

/-! ### table parts and sheet relationship parts -/

/-- the five attribute names the `table` loop reacts to -/
def tableKeys : List (List Char) := [nDisplayName, nRef, nHeaderRowCount, nInsertRow, nTotalsRowCount]

/-- text of a row count `0 … 9` -/
def cnt (n : Nat) : Bytes := [UInt8.ofNat (48 + n)]

/-- events the table-part reader does not react to -/
def Ev.TInert : Ev → Prop
  | .start n _ => localName n ≠ nTable ∧ localName n ≠ nTableColumn
  | .end_ n => localName n ≠ nTable
  | _ => True

/-- a table as its part declares it. `hdr`/`tot` = `none`: the attribute is omitted (schema defaults 1 / 0).
    `extra`: attributes written before `displayName` (`xmlns`, `id`, `name`, …), `inner`: child events before
    the columns (`autoFilter` with its own `ref`, …), `gap`: events after every column, `tail`: events
    between the last column and `</table>` (`</tableColumns>`, `tableStyleInfo`, …) -/
structure TableDecl where
  pre : List Char := []
  name : Bytes
  rect : Rect
  hdr : Option Nat := none
  tot : Option Nat := none
  cols : List Bytes
  extra : List (List Char × Bytes) := []
  colExtra : List (List Char × Bytes) := []
  inner : List Ev := []
  gap : List Ev := []
  tail : List Ev := []

def TableDecl.attrs (t : TableDecl) : List (List Char × Bytes) :=
  t.extra ++ (nDisplayName, t.name) :: (nRef, renderRef2 t.rect) ::
    ((match t.hdr with | some h => [(nHeaderRowCount, cnt h)] | none => []) ++
     (match t.tot with | some n => [(nTotalsRowCount, cnt n)] | none => []))

def renderColumn (t : TableDecl) (c : Bytes) : List Ev :=
  .start (qn t.pre nTableColumn) (t.colExtra ++ [(nName, c)]) :: .end_ (qn t.pre nTableColumn) :: t.gap

def renderTablePart (t : TableDecl) : List Ev :=
  .start (qn t.pre nTable) t.attrs :: (t.inner ++ (t.cols.flatMap (renderColumn t) ++ (t.tail ++ [.end_ (qn t.pre nTable)])))

def TableDecl.Ok (t : TableDecl) : Prop :=
  (∀ c ∈ t.pre, c ≠ ':') ∧ t.rect.Valid ∧ (∀ a ∈ t.extra, a.1 ∉ tableKeys) ∧ (∀ a ∈ t.colExtra, a.1 ≠ nName) ∧
  (∀ e ∈ t.inner, e.TInert) ∧ (∀ e ∈ t.gap, e.TInert) ∧ (∀ e ∈ t.tail, e.TInert) ∧
  (∀ h, t.hdr = some h → h ≤ 1) ∧ (∀ n, t.tot = some n → n ≤ 1 ∧ n ≤ t.rect.er)

/-- header / totals row counts the declaration means -/
def TableDecl.h (t : TableDecl) : Nat := t.hdr.getD 1
def TableDecl.t (t : TableDecl) : Nat := t.tot.getD 0

/-- the declared data rectangle: the reference minus header rows at the top and totals rows at the bottom;
    when these leave no data row, the empty rectangle (rows `1 … 0` of the table's columns) -/
def TableDecl.dataRect (t : TableDecl) : Rect :=
  if t.rect.sr + t.h + t.t ≤ t.rect.er then ⟨t.rect.sr + t.h, t.rect.sc, t.rect.er - t.t, t.rect.ec⟩
  else ⟨1, t.rect.sc, 0, t.rect.ec⟩

/-- a relationship of a sheet `.rels` part -/
structure RelDecl where
  typ : Bytes
  target : Bytes
  /-- attributes before (`Id`, …) the two, none named `Target` or `Type` -/
  extra : List (List Char × Bytes) := []
  /-- `Type` written before `Target` -/
  typeFirst : Bool := false

def RelDecl.attrs (r : RelDecl) : List (List Char × Bytes) :=
  r.extra ++ (if r.typeFirst then [(nType, r.typ), (nTarget, r.target)] else [(nTarget, r.target), (nType, r.typ)])

def renderRel (r : RelDecl) : List Ev := [.start nRelationship r.attrs, .end_ nRelationship]

def renderSheetRels (rootAttrs : List (List Char × Bytes)) (rs : List RelDecl) : List Ev :=
  .start nRelationships rootAttrs :: (rs.flatMap renderRel ++ [.end_ nRelationships])

def RelDecl.Ok (r : RelDecl) : Prop := ∀ a ∈ r.extra, a.1 ≠ nTarget ∧ a.1 ≠ nType

/-- where a relationship target points, for a sheet part in folder `root/dir` (`dir` without `/`):
    `../p` ↦ `root/p`, `/p` ↦ `p` (absolute part name), the empty target ↦ nothing, else the text itself -/
def resolveTarget (root target : Bytes) : Option Bytes :=
  if target.take 3 = [46, 46, 47] then some (root ++ target.drop 2)
  else if target = [] then none
  else if target.take 1 = [47] then some (target.drop 1)
  else some target

end Geometry

namespace Geometry

/-- the tables of one sheet as the package declares them: the sheet part `root/dir/file` (e.g.
    `xl/worksheets/sheet1.xml`), its relationship part (absent: `rels = none`) and, for every table
    relationship in document order, the archive entry it resolves to with the table declared there -/
structure SheetTablesDecl where
  name : Bytes
  root : Bytes
  dir : Bytes
  file : Bytes
  rels : Option (List (List Char × Bytes) × List RelDecl) := none
  tables : List (Bytes × TableDecl) := []

def SheetTablesDecl.path (s : SheetTablesDecl) : Bytes := (s.root ++ 47 :: s.dir) ++ 47 :: s.file

def SheetTablesDecl.relsPath (s : SheetTablesDecl) : Bytes :=
  (s.root ++ 47 :: s.dir) ++ [47, 95, 114, 101, 108, 115] ++ (47 :: s.file) ++ [46, 114, 101, 108, 115]

/-- consistency of the declaration with the archive `parts` (the zip lookup itself is not modelled) -/
def SheetTablesDecl.Ok (s : SheetTablesDecl) (parts : List (Bytes × List Ev)) : Prop :=
  (∀ b ∈ s.dir, b ≠ 47) ∧ (∀ b ∈ s.file, b ≠ 47) ∧
  (match s.rels with
   | none => findPart parts s.relsPath = none ∧ s.tables = []
   | some (ra, rs) =>
     findPart parts s.relsPath = some (renderSheetRels ra rs) ∧ (∀ r ∈ rs, r.Ok) ∧
     rs.filterMap (fun r => if r.typ = tableRelType then resolveTarget s.root r.target else none) = s.tables.map (·.1)) ∧
  ∀ p ∈ s.tables, findPart parts p.1 = some (renderTablePart p.2) ∧ p.2.Ok

/-- what `Xlsx::tables` must hold for this sheet -/
def SheetTablesDecl.entries (s : SheetTablesDecl) : List TableEntry :=
  s.tables.map (fun p => ⟨p.2.name, s.name, p.2.cols, p.2.dataRect⟩)

end Geometry
