import CalVerif.Model.Geometry
/-! Spec side of property C17: how a file *declares* merged regions and tables — the encoders whose
    output the decoders of `Model/Geometry.lean` must map back to the declared geometry.

    * `renderRef`  : rectangle → A1 reference text (`B2` / `B2:D7`), column letters by the bijective
      base-26 encoder, rows in decimal;
    * `renderMergeCells` / `renderSheet` : the `<mergeCells>` element of a worksheet as XML events, under a
      namespace prefix, with ignorable events between the children;
    * `encodeMergedCells` : the payload of a BIFF8 MERGEDCELLS record (`cmcs`, then `Ref8` entries);
    * `renderTablePart`, `renderSheetRels` : a table part and a sheet relationship part. -/

namespace Geometry

/-- bijective base-26 digits of `v ≥ 1`, least significant first, as ASCII capitals
    (`fuel = v` is always enough) -/
def colRev : Nat → Nat → Bytes
  | 0, _ => []
  | f + 1, v =>
    if v = 0 then [] else UInt8.ofNat (65 + (v - 1) % 26) :: colRev f ((v - 1) / 26)

/-- column letters of the 0-based column `c`: `0 ↦ A`, `25 ↦ Z`, `26 ↦ AA`, `16383 ↦ XFD` -/
def colName (c : Nat) : Bytes := (colRev (c + 1) (c + 1)).reverse

/-- decimal digits of `n ≥ 1`, least significant first -/
def decRev : Nat → Nat → Bytes
  | 0, _ => []
  | f + 1, n => if n = 0 then [] else UInt8.ofNat (48 + n % 10) :: decRev f (n / 10)

/-- decimal text of `n ≥ 1` -/
def dec (n : Nat) : Bytes := (decRev n n).reverse

/-- A1 name of the 0-based cell `(row, col)` -/
def renderCell (row col : Nat) : Bytes := colName col ++ dec (row + 1)

/-- two-corner form `B2:D7` -/
def renderRef2 (d : Rect) : Bytes := renderCell d.sr d.sc ++ 58 :: renderCell d.er d.ec

/-- the reference text Excel writes: one cell name for a single cell, two corners otherwise -/
def renderRef (d : Rect) : Bytes :=
  if d.sr = d.er ∧ d.sc = d.ec then renderCell d.sr d.sc else renderRef2 d

/-- a well-ordered rectangle inside the xlsx grid (`XFD1048576`) -/
def Rect.Valid (d : Rect) : Prop := d.sr ≤ d.er ∧ d.sc ≤ d.ec ∧ d.er < 1048576 ∧ d.ec < 16384

instance (d : Rect) : Decidable d.Valid := by unfold Rect.Valid; exact inferInstance

/-- qualified name under a namespace prefix (`[]` = default namespace) -/
def qn (pre : List Char) (n : List Char) : List Char := if pre = [] then n else pre ++ ':' :: n

/-- events that none of the merge readers reacts to: no start of a `mergeCell`/`mergeCells` element, no
    end of `mergeCells` -/
def Ev.Inert : Ev → Prop
  | .start n _ => localName n ≠ nMergeCell ∧ localName n ≠ nMergeCells
  | .end_ n => localName n ≠ nMergeCells
  | _ => True

/-- `<mergeCell ref="…"/>` with further attributes before (`a1`, none of them named `ref`) and after (`a2`)
    the reference, followed by ignorable events `gap` -/
structure MergeDecl where
  rect : Rect
  two : Bool := false
  a1 : List (List Char × Bytes) := []
  a2 : List (List Char × Bytes) := []
  gap : List Ev := []

def MergeDecl.refText (d : MergeDecl) : Bytes := if d.two then renderRef2 d.rect else renderRef d.rect

def MergeDecl.Ok (d : MergeDecl) : Prop :=
  d.rect.Valid ∧ (∀ a ∈ d.a1, a.1 ≠ nRef) ∧ ∀ e ∈ d.gap, e.Inert

def renderMergeCell (pre : List Char) (d : MergeDecl) : List Ev :=
  .start (qn pre nMergeCell) (d.a1 ++ (nRef, d.refText) :: d.a2) :: .end_ (qn pre nMergeCell) :: d.gap

/-- the children of `<mergeCells>` and its end tag -/
def renderMergeCells (pre : List Char) (ds : List MergeDecl) : List Ev :=
  ds.flatMap (renderMergeCell pre) ++ [.end_ (qn pre nMergeCells)]

/-- a worksheet part: inert events, the `<mergeCells>` element (absent when `ds = []` and `omit`), inert events -/
def renderSheet (pre : List Char) (before : List Ev) (ds : List MergeDecl) (after : List Ev) : List Ev :=
  before ++ .start (qn pre nMergeCells) [] :: renderMergeCells pre ds ++ after

/-- little-endian `u16` -/
def u16le (n : Nat) : Bytes := [UInt8.ofNat (n % 256), UInt8.ofNat (n / 256 % 256)]

/-- `Ref8`: rwFirst, rwLast, colFirst, colLast -/
def encodeRef8 (d : Rect) : Bytes := u16le d.sr ++ u16le d.er ++ u16le d.sc ++ u16le d.ec

/-- payload of a MERGEDCELLS record -/
def encodeMergedCells (ds : List Rect) : Bytes := u16le ds.length ++ ds.flatMap encodeRef8

/-- every coordinate fits `u16` (BIFF8 sheets end at `IV65536`, the record can say more) -/
def Rect.Fits16 (d : Rect) : Prop := d.sr < 65536 ∧ d.sc < 65536 ∧ d.er < 65536 ∧ d.ec < 65536

end Geometry

namespace Geometry

/-- a worksheet as a file declares it: sheet name, part path, namespace prefix, and the merged regions in
    document order between inert events; `mc = false`: no `<mergeCells>` element at all (then `merges = []`) -/
structure SheetDecl where
  name : Bytes
  path : Bytes
  pre : List Char := []
  before : List Ev := []
  mc : Bool := true
  merges : List MergeDecl := []
  after : List Ev := []

def SheetDecl.events (s : SheetDecl) : List Ev :=
  if s.mc then renderSheet s.pre s.before s.merges s.after else s.before ++ s.after

def SheetDecl.regions (s : SheetDecl) : List Rect := s.merges.map (·.rect)

def SheetDecl.Ok (s : SheetDecl) : Prop :=
  (∀ c ∈ s.pre, c ≠ ':') ∧ (∀ e ∈ s.before, e.Inert) ∧ (∀ e ∈ s.after, e.Inert) ∧
  (∀ d ∈ s.merges, d.Ok) ∧ (s.mc = false → s.merges = [])

def SheetDecl.part (s : SheetDecl) : SheetPart := ⟨s.name, s.path, some s.events⟩

end Geometry
