import CalVerif.Model.Password
import CalVerif.Spec.CfbLayout
/-! Abstract side of C20: what "encrypted" means for each format, and the encoders that turn a logical
    description into what the checks read (record bytes, manifest events, compound files).
    Import-free (Model/Spec only): the driver uses the encoders. -/

namespace Password

/-! ## ods manifest -/

/-- a child of a `manifest:file-entry` element -/
inductive Child where
  /-- `<manifest:encryption-data …>` with sub-elements of these names (`manifest:algorithm`,
      `manifest:key-derivation`, `manifest:start-key-generation`, anything) -/
  | enc (subs : List String)
  /-- any other element `<qname …/>` -/
  | elem (qname : String)
  /-- character data / comment between children -/
  | text
  deriving Repr, DecidableEq

def Child.isEnc : Child → Bool
  | .enc _ => true
  | .elem q => q == encryptionData
  | .text => false

structure Entry where
  children : List Child
  deriving Repr, DecidableEq

/-- the logical manifest: `prolog` events before the root element (declaration, comments, white space),
    the root element's raw name, the file entries, each followed by `gap` text events -/
structure Manifest where
  prolog : Nat
  root : String
  entries : List Entry
  gap : Nat
  deriving Repr, DecidableEq

/-- the property's notion: the manifest declares encryption data for at least one entry -/
def Entry.encrypted (e : Entry) : Bool := e.children.any Child.isEnc
def Manifest.declaresEncryption (m : Manifest) : Bool := m.entries.any Entry.encrypted

def subEvents (subs : List String) : List Ev := subs.flatMap fun q => [.start q, .other]

def childEvents : Child → List Ev
  | .enc subs => .start encryptionData :: (subEvents subs ++ [.other])
  | .elem q => [.start q, .other]
  | .text => [.other]

def entryEvents (gap : Nat) (e : Entry) : List Ev :=
  .start fileEntry :: (e.children.flatMap childEvents ++ .other :: List.replicate gap .other)

/-- the event list quick-xml produces for the manifest (empty elements expanded into start + end) -/
def manifestEvents (m : Manifest) : List Ev :=
  List.replicate m.prolog .other ++ .start m.root :: (m.entries.flatMap (entryEvents m.gap) ++ [.other])

/-! ## BIFF records -/

def le16 (v : Nat) : Bytes := [UInt8.ofNat (v % 256), UInt8.ofNat (v / 256 % 256)]

/-- one record without CONTINUE fragments as bytes: type, length, payload -/
def frame1 (typ : Nat) (data : Bytes) : Bytes := le16 typ ++ le16 data.length ++ data

/-- a record that `frame1` can express: 16-bit type, payload shorter than 2^16, no CONTINUE fragments, and not
    itself a CONTINUE record (which `RecordIter` would glue to its predecessor) -/
def Plain (r : Biff.Rec) : Prop := r.typ < 65536 ∧ r.typ ≠ 0x3C ∧ r.data.length < 65536 ∧ r.cont = []

instance (r : Biff.Rec) : Decidable (Plain r) := by unfold Plain; infer_instance

def frameAll (rs : List Biff.Rec) : Bytes := rs.flatMap fun r => frame1 r.typ r.data

/-- the FILEPASS record: `wEncryptionType` (0 = XOR obfuscation, 1 = RC4 / RC4 CryptoAPI) followed by the
    type-specific payload -/
def filepass (wEncryptionType : Nat) (rest : Bytes) : Biff.Rec := ⟨FILEPASS, le16 wEncryptionType ++ rest, []⟩

/-! ## encrypted OOXML package -/

/-- the streams of an encrypted package: the ciphertext, the encryption info (standard / agile / extensible:
    any bytes), and whatever else the producer stores (`\u0006DataSpaces/…`) -/
def encryptedStreams (ciphertext info : Bytes) (extra : List Cfb.Stream) : List Cfb.Stream :=
  ⟨encryptedPackage, ciphertext⟩ :: ⟨"EncryptionInfo".toList, info⟩ :: extra

/-- What C13 proves about `Cfb::new` on every valid layout (`Cfb.new_layout_ok`): the container opens and every
    stream has a directory entry. C20's container theorem is stated relative to this proposition until C13's
    proof has landed. -/
def CfbNewOnLayouts : Prop :=
  ∀ (streams : List Cfb.Stream) (L : Cfb.Layout), Cfb.Valid streams L →
    ∃ c rd, Cfb.new (Cfb.layoutCfb streams L) (Cfb.layoutCfb streams L).length = .ok (c, rd) ∧
      ∀ s ∈ streams, Cfb.hasDirectory c s.name = true

/-- What C13's round-trip theorem gives for every valid layout, in the form the xls theorem needs: the container
    opens, its directory holds nothing but the root entry, the streams and unused (nameless) entries, and every
    stream reads back. -/
def CfbReadsLayouts : Prop :=
  ∀ (streams : List Cfb.Stream) (L : Cfb.Layout), Cfb.Valid streams L →
    ∃ c rd, Cfb.new (Cfb.layoutCfb streams L) (Cfb.layoutCfb streams L).length = .ok (c, rd) ∧
      (∀ n, Cfb.hasDirectory c n = true → (n = Cfb.rootName ∨ n = [] ∨ ∃ s ∈ streams, s.name = n)) ∧
      ∀ s ∈ streams, ∃ c' rd', Cfb.getStream c s.name rd = .ok (s.data, c', rd')

end Password
