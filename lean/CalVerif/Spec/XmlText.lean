import CalVerif.Model.XmlText
/-! Storage forms of a cell text in the XML formats and their rendering as XML event lists (property C19).

    A *form* is the logical description of how a string is laid out in the file; `render…` produces the
    event list quick-xml delivers for it (the harness serialises the same description to XML text; that
    quick-xml turns the text back into these events is the trusted step); `textOf…` is the string the
    property says the form stands for.  Import-free apart from the model (the driver links these). -/

namespace XmlText

/-- how the tokenizer delivers a piece of character data: a `Text` event (entities and character references
    already unescaped), a `CData` event, or something ignored in between (comment, processing instruction) -/
inductive Chunk where
  | text (s : Txt)
  | cdata (s : Txt)
  | noise
  deriving DecidableEq, Repr

def Chunk.txt : Chunk → Txt
  | .text s => s
  | .cdata s => s
  | .noise => []

def Chunk.ev : Chunk → Ev
  | .text s => .text s
  | .cdata s => .cdata s
  | .noise => .other

/-- the character data of an element in any split into Text / CData events -/
def chunksText (cs : List Chunk) : Txt := (cs.map Chunk.txt).flatten
def chunksEvs (cs : List Chunk) : List Ev := cs.map Chunk.ev

/-! ### writing character data as CDATA sections -/

/-- does the text end with `]]` -/
def endsBrackets (cur : Txt) : Bool := cur.drop (cur.length - 2) = [93, 93]

/-- the writer's cut: a new section starts before every `>` that follows `]]`, so that no section contains
    the terminator `]]>` (`cur` = the section being filled) -/
def cdataSplitAux : Txt → Txt → List Txt
  | [], cur => if cur = [] then [] else [cur]
  | c :: r, cur =>
    if c = 62 ∧ endsBrackets cur = true then cur :: cdataSplitAux r [c] else cdataSplitAux r (cur ++ [c])

/-- the CDATA sections a text is written as -/
def cdataSplit (s : Txt) : List Txt := cdataSplitAux s []

/-! ### xlsx string items (`CT_Rst`: `<si>` of the shared string table, `<is>` of an inline string) -/

/-- a `<t>` element: its prefix, attributes (`xml:space="preserve"`) and character data -/
structure TElem where
  pre : Option String
  attrs : List (String × Txt)
  body : List Chunk
  deriving DecidableEq, Repr

def TElem.name (t : TElem) : Name := ⟨t.pre, "t"⟩
def TElem.evs (t : TElem) : List Ev := .start t.name t.attrs :: chunksEvs t.body ++ [.end_ t.name]
def TElem.txt (t : TElem) : Txt := chunksText t.body

/-- a child of a rich string item -/
inductive RunItem where
  /-- `<r> props <t>…</t> tail </r>`: `props` / `tail` are the run-property events (`<rPr><b/>…</rPr>`) -/
  | run (pre : Option String) (props : List Ev) (t : TElem) (tail : List Ev)
  /-- phonetic run `<rPh sb= eb=> content </rPh>`; the content is normally one `<t>…</t>` -/
  | phonetic (pre : Option String) (attrs : List (String × Txt)) (content : List Ev)
  /-- anything the outer loop ignores (`<phoneticPr/>`, white-space text between elements, comments) -/
  | inert (evs : List Ev)
  deriving Repr

def RunItem.evs : RunItem → List Ev
  | .run p props t tail => .start ⟨p, "r"⟩ [] :: props ++ t.evs ++ tail ++ [.end_ ⟨p, "r"⟩]
  | .phonetic p a content => .start ⟨p, "rPh"⟩ a :: content ++ [.end_ ⟨p, "rPh"⟩]
  | .inert evs => evs

/-- text a child contributes: phonetic runs and inert material contribute nothing -/
def RunItem.txt : RunItem → Txt
  | .run _ _ t _ => t.txt
  | _ => []

def RunItem.isRun : RunItem → Bool
  | .run .. => true
  | _ => false

inductive StringForm where
  /-- `lead <t>…</t> trail`: a simple string; `trail` = whatever follows up to the closing tag
      (phonetic runs, `phoneticPr`, extensions) -/
  | plain (lead : List Ev) (t : TElem) (trail : List Ev)
  /-- rich text: runs, with phonetic runs and inert material anywhere between them; `rich []` is the
      empty item `<si/>` -/
  | rich (items : List RunItem)
  deriving Repr

/-- events of the item after its `Start` event, up to and including its `End closing` event -/
def renderSi (closing : Name) : StringForm → List Ev
  | .plain lead t trail => lead ++ t.evs ++ trail ++ [.end_ closing]
  | .rich items => (items.map RunItem.evs).flatten ++ [.end_ closing]

/-- the string the item stands for -/
def textOf : StringForm → Txt
  | .plain _ t _ => t.txt
  | .rich items => (items.map RunItem.txt).flatten

/-- what `read_string` returns for the item: `None` when there is neither a `<t>` nor an `<r>` -/
def resultOf : StringForm → Option Txt
  | .plain _ t _ => some t.txt
  | .rich items => if items.any RunItem.isRun then some (items.map RunItem.txt).flatten else none

/-- an event the outer loop of `read_string` steps over without changing its state, whatever the phonetic
    flag: not a `Start` of `r` / `rPh` / `t` (local names), not an `End` of the closing tag or of `rPh` -/
def inertEv (closing : Name) : Ev → Bool
  | .start n _ => n.loc ≠ "r" ∧ n.loc ≠ "rPh" ∧ n.loc ≠ "t"
  | .end_ n => n ≠ closing ∧ n.loc ≠ "rPh"
  | _ => true

/-- an event `read_to_end_into(closing)` steps over at constant depth -/
def noClosing (closing : Name) : Ev → Bool
  | .start n _ => n ≠ closing
  | .end_ n => n ≠ closing
  | _ => true

/-- events allowed inside a phonetic run: anything (in particular `<t>…</t>`: a `t` is stepped over while
    the phonetic flag is set) but the end of the run or of the item, a nested `rPh`, or an `r` (it would open
    the rich buffer) -/
def phInert (closing : Name) : Ev → Bool
  | .start n _ => n.loc ≠ "r" ∧ n.loc ≠ "rPh"
  | .end_ n => n ≠ closing ∧ n.loc ≠ "rPh"
  | _ => true

def RunItem.wf (closing : Name) : RunItem → Bool
  | .run _ props _ tail => props.all (inertEv closing) ∧ tail.all (inertEv closing)
  | .phonetic _ _ content => content.all (phInert closing)
  | .inert evs => evs.all (inertEv closing)

/-- side conditions under which the form means what `textOf` says: the closing tag is not one of the
    structural names, and the filler events are really filler -/
def StringForm.wf (closing : Name) : StringForm → Bool
  | .plain lead _ trail =>
    lead.all (inertEv closing) ∧ trail.all (noClosing closing)
  | .rich items =>
    items.all (RunItem.wf closing) ∧ closing.loc ≠ "r" ∧ closing.loc ≠ "t" ∧ closing.loc ≠ "rPh"

/-- one `<si>` of the table: white space before it, the prefix and attributes of the `si` element, the form -/
structure SstItem where
  gap : List Ev
  pre : Option String
  attrs : List (String × Txt)
  form : StringForm
  deriving Repr

def SstItem.name (it : SstItem) : Name := ⟨it.pre, "si"⟩
def SstItem.evs (it : SstItem) : List Ev :=
  it.gap ++ .start it.name it.attrs :: renderSi it.name it.form

/-- events between items that `read_shared_strings` ignores: no `Start si`, no `End sst` (local names) -/
def gapEv : Ev → Bool
  | .start n _ => n.loc ≠ "si"
  | .end_ n => n.loc ≠ "sst"
  | _ => true

def SstItem.wf (it : SstItem) : Bool := it.gap.all gapEv ∧ it.form.wf it.name

/-- the events of `xl/sharedStrings.xml` from the `<sst>` start tag to its end tag -/
def renderSst (sstPre : Option String) (items : List SstItem) (tailGap : List Ev) : List Ev :=
  .start ⟨sstPre, "sst"⟩ [] :: (items.map SstItem.evs).flatten ++ tailGap ++ [.end_ ⟨sstPre, "sst"⟩]

/-! ### ods paragraphs -/

/-- decimal digits of a number, most significant first -/
def decimal (n : Nat) : List UInt8 :=
  if n < 10 then [UInt8.ofNat (48 + n)] else decimal (n / 10) ++ [UInt8.ofNat (48 + n % 10)]
termination_by n
decreasing_by omega

/-- a piece of a paragraph -/
inductive Piece where
  /-- literal character data -/
  | lit (c : Chunk)
  /-- `<text:s text:c="n"/>` -/
  | spaces (n : Nat)
  /-- `<text:s/>` (one space) -/
  | space1
  /-- start or end tag of an element the reader looks through (`text:span`, `text:a`, …) or any other
      ignored event -/
  | mark (e : Ev)
  deriving Repr

def Piece.evs : Piece → List Ev
  | .lit c => [c.ev]
  | .spaces n => [.start textS [("text:c", decimal n)], .end_ textS]
  | .space1 => [.start textS [], .end_ textS]
  | .mark e => [e]

def Piece.txt : Piece → Txt
  | .lit c => c.txt
  | .spaces n => List.replicate n 32
  | .space1 => [32]
  | .mark _ => []

/-- events the text loop ignores -/
def odsMark : Ev → Bool
  | .start n _ => n ≠ annotation ∧ n ≠ textP ∧ n ≠ textS
  | .end_ n => n ≠ tableCell ∧ n ≠ coveredCell
  | .other => true
  | _ => false

def Piece.wf : Piece → Bool
  | .spaces n => n < 2147483648
  | .mark e => odsMark e
  | _ => true

/-- a paragraph `<text:p attrs> pieces </text:p>` -/
structure Para where
  attrs : List (String × Txt)
  pieces : List Piece
  deriving Repr

def Para.evs (p : Para) : List Ev :=
  .start textP p.attrs :: (p.pieces.map Piece.evs).flatten ++ [.end_ textP]
def Para.txt (p : Para) : Txt := (p.pieces.map Piece.txt).flatten
def Para.wf (p : Para) : Bool := p.pieces.all Piece.wf

/-- an `office:annotation` element (comment box) with arbitrary content that does not close it -/
def annotEvs (content : List Ev) : List Ev := .start annotation [] :: content ++ [.end_ annotation]
def annotWf (content : List Ev) : Bool := content.all fun e => e ≠ .end_ annotation

/-- content of a string cell: optional annotation first (ODF order), the paragraphs, the closing tag
    (`covered` selects `table:covered-table-cell`) -/
def renderCell (annot : Option (List Ev)) (paras : List Para) (covered : Bool) : List Ev :=
  (match annot with | some c => annotEvs c | none => []) ++ (paras.map Para.evs).flatten ++
    [.end_ (if covered then coveredCell else tableCell)]

/-- `intercalate "\n"` of the paragraph texts -/
def cellTextOf (paras : List Para) : Txt := List.intercalate [10] (paras.map Para.txt)

/-! ### xlsb wide strings -/

def unitBytes (u : UInt16) : List UInt8 := [UInt8.ofNat (u.toNat % 256), UInt8.ofNat (u.toNat / 256)]

/-- `XLWideString`: 32-bit count of code units, then the units, little endian -/
def encodeWide (us : List UInt16) : List UInt8 :=
  let n := us.length
  [UInt8.ofNat (n % 256), UInt8.ofNat (n / 256 % 256), UInt8.ofNat (n / 65536 % 256), UInt8.ofNat (n / 16777216 % 256)]
    ++ (us.map unitBytes).flatten

end XmlText
