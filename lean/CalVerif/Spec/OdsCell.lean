import CalVerif.Model.OdsCell
/-! Specification side of the value typing of an ODS cell (C04): what the attributes of a cell element mean,
    stated without the loop state of `get_datatype`. -/
namespace OdsCell

/-- the formula after the attributes `l`: the last `table:formula` wins (an element has at most one) -/
def formulaAfter (f0 : String) (l : List Attr) : String :=
  l.foldl (fun f a => (a.formulaOf).getD f) f0

/-- "the value type is string" after the attributes `l`: the last `office:value-type` decides
    (an element has at most one) -/
def stringAfter (b0 : Bool) (l : List Attr) : Bool :=
  l.foldl (fun b a => match a with | .valueType raw => decide (raw = "string") | _ => b) b0

/-- **the value of a cell**: the value of its (first) value-carrying attribute; without one, the element's
    text content when the value type is `string`, and nothing otherwise -/
def cellValue (attrs : List Attr) (content : String) : Val :=
  match attrs.find? Attr.isValue with
  | some a => a.valOf
  | none => if stringAfter false attrs then .str content else .empty

/-- **the formula of a cell**: its `table:formula` attribute, `""` when absent -/
def cellFormula (attrs : List Attr) : String := formulaAfter "" attrs

end OdsCell
