import CalVerif.Spec.CfbLayout
import CalVerif.Spec.OvbaContainer
import CalVerif.Spec.OvbaDir
/-! The stream set of a VBA project inside a compound file: the `dir` stream (any container of the serialized
    project description) and one stream per module (the bytes before the recorded text offset, then any container
    of the module source), named by the decoded MODULESTREAMNAME. -/

namespace Ovba

def projectStreams (p : DirSpec) (dirCs : List Chunk) (content : ModuleSpec → List Chunk) (junk : ModuleSpec → Bytes)
    (decodeName : Bytes → List Char) : List Cfb.Stream :=
  { name := "dir".toList, data := container dirCs } ::
    p.modules.map fun m => { name := decodeName m.streamName, data := junk m ++ container (content m) }

end Ovba
