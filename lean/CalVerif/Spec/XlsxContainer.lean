import CalVerif.Model.XlsxContainer
import CalVerif.Spec.MetadataEnc
/-! A workbook *package*: sheets (name, visibility, kind, relationship, the archive entry that holds the cells)
    and the physical choices a writer has around them (OPC, ECMA-376 Part 2 §9 relationships, §10 part names;
    Part 1 §18.2.19 `sheet`, §18.2.20 `sheets`):
    element prefixes in `workbook.xml` and in the `.rels` part, the qualified name of the relationship-id attribute
    (`r:id`, `rel:id`, …) and where its namespace is declared (any attributes on `<workbook>`, `<sheets>`, and in
    front of each `<sheet>`), the spelling of each `Target` (`worksheets/sheet1.xml`, `/xl/worksheets/sheet1.xml`,
    `xl/worksheets/sheet1.xml`), the attribute list of each `<Relationship>` (order, `Type`, `TargetMode`), further
    relationships, the case of every entry name and the order of the entries in the archive. -/

namespace XlsxContainer
open Meta MetaEnc

/-- a sheet of the package; `α` = the content of its part (for C01: the worksheet's events) -/
structure PSheet (α : Type) where
  /-- name, sheetId, visibility (+ whether `state` is written), relationship id, `Target`, kind -/
  x : XSheet
  /-- the name of the archive entry holding the sheet, as written (any letter case) -/
  entry : String
  body : α

/-- the physical choices -/
structure PLayout where
  /-- qualified element names of `workbook.xml` -/
  q : String → String
  /-- qualified name of the relationship-id attribute on `<sheet>` -/
  ridKey : String
  /-- attributes of `<workbook>` and `<sheets>` (namespace declarations, wherever the writer puts them) -/
  wbAttrs : List (String × String)
  sheetsAttrs : List (String × String)
  /-- attributes written in front of a `<sheet>`'s own (e.g. a namespace declaration on the element itself) -/
  sheetExtra : XSheet → List (String × String)
  /-- qualified element names of the `.rels` part, attributes of its root -/
  relQ : String → String
  relRootAttrs : List (String × String)
  /-- the attribute list of `<Relationship>` for (id, target): any order, with `Type`, `TargetMode`, … -/
  relAttrsOf : String → String → List (String × String)
  /-- all relationships of the part in file order (the sheets' and any others) -/
  rels : List (String × String)
  /-- entry names of the two metadata parts as written, and all entry names in archive order -/
  wbEntry : String
  relsEntry : String
  names : List String

def sheetEventsX (lay : PLayout) (s : XSheet) : List Ev :=
  [.start (lay.q "sheet") (lay.sheetExtra s ++ sheetAttrList lay.ridKey s), .end_ (lay.q "sheet")]

/-- `xl/workbook.xml` -/
def wbEvents (lay : PLayout) (sheets : List XSheet) : List Ev :=
  .start (lay.q "workbook") lay.wbAttrs :: .start (lay.q "sheets") lay.sheetsAttrs ::
    (sheets.flatMap (sheetEventsX lay) ++ [.end_ (lay.q "sheets"), .end_ (lay.q "workbook")])

def relEvents (lay : PLayout) (r : String × String) : List Ev :=
  [.start (lay.relQ "Relationship") (lay.relAttrsOf r.1 r.2), .end_ (lay.relQ "Relationship")]

/-- `xl/_rels/workbook.xml.rels` -/
def relsEvents (lay : PLayout) : List Ev :=
  .start (lay.relQ "Relationships") lay.relRootAttrs :: (lay.rels.flatMap (relEvents lay) ++ [.end_ (lay.relQ "Relationships")])

/-- the archive of a package -/
def archiveOf {α : Type} [Inhabited α] (sheets : List (PSheet α)) (lay : PLayout) : Archive α where
  names := lay.names
  xml := fun e => if e = lay.relsEntry then relsEvents lay else if e = lay.wbEntry then wbEvents lay (sheets.map (·.x)) else []
  content := fun e => ((sheets.find? (fun s => s.entry == e)).map (·.body)).getD default

/-- the part path the standard assigns to a `Target` of the workbook's relationships part -/
def partPath (target : String) : String := String.ofList (xlsxPath target.toList)

/-- `q` qualifies each of these local names with some prefix (or none): the local name of `q n` is `n` -/
def QOkOn (names : List String) (q : String → String) : Prop := ∀ n ∈ names, localName (q n) = n

/-- an attribute the `<sheet>` arm ignores -/
def InertSheetAttr (k : String) : Prop :=
  k ≠ "name" ∧ k ≠ "state" ∧ ¬ relIdKey k

/-- the package is consistent and the layout legal -/
structure PackageOk {α : Type} (sheets : List (PSheet α)) (lay : PLayout) : Prop where
  q : QOkOn ["workbook", "sheets", "sheet"] lay.q
  relQ : QOkOn ["Relationships", "Relationship"] lay.relQ
  ridKey : ridKeyOk lay.ridKey
  sheetExtra : ∀ s, ∀ kv ∈ lay.sheetExtra s, InertSheetAttr kv.1
  /-- whatever the order and the further attributes, the list carries this id and this target -/
  relAttrs : ∀ id tg, relAttrs (lay.relAttrsOf id tg) ("", "") = (id, tg)
  /-- the last relationship with the sheet's id has the sheet's target -/
  sheetRel : ∀ s ∈ sheets, lay.rels.reverse.lookup s.x.rid = some s.x.target
  /-- the target lies in the folder of the sheet's kind -/
  kind : ∀ s ∈ sheets, kindOfPath Gen.xlsxKindTable (xlsxPath s.x.target.toList) = some s.x.kind
  state : ∀ s ∈ sheets, s.x.writeState = false → s.x.vis = .visible
  /-- no two entries of the archive have the same name up to ASCII case -/
  namesDistinct : lay.names.Pairwise (fun a b => eqIgnoreAsciiCase a b = false)
  relsEntry : lay.relsEntry ∈ lay.names ∧ eqIgnoreAsciiCase lay.relsEntry "xl/_rels/workbook.xml.rels" = true
  wbEntry : lay.wbEntry ∈ lay.names ∧ eqIgnoreAsciiCase lay.wbEntry "xl/workbook.xml" = true
  /-- the sheet's entry is the part its target names, up to ASCII case -/
  sheetEntry : ∀ s ∈ sheets, s.entry ∈ lay.names ∧ eqIgnoreAsciiCase s.entry (partPath s.x.target) = true
  sheetNames : (sheets.map (·.x.name)).Nodup
  sheetEntries : (sheets.map (·.entry)).Nodup

end XlsxContainer
