import CalVerif.Model.Dates
/-! Specification of the calendar for C11: the Gregorian leap rule, month lengths, "the next
    day", and the date `n` days after a start date obtained by stepping `n` times.  Nothing here
    computes with day counts, eras or division tricks — it is the calendar as one would explain
    it to a child, which is what the model's arithmetic is proved against. -/

namespace Dates

/-- Gregorian leap rule: every 4th year, except centuries, except every 4th century -/
def isLeap (y : Int) : Bool := y % 4 = 0 ∧ (y % 100 ≠ 0 ∨ y % 400 = 0)

def daysInMonth (y : Int) (m : Nat) : Nat :=
  if m = 2 then (if isLeap y then 29 else 28)
  else if m = 4 ∨ m = 6 ∨ m = 9 ∨ m = 11 then 30
  else 31

/-- the day after `dt` -/
def nextDay (dt : Date) : Date :=
  if dt.d < daysInMonth dt.y dt.m then { dt with d := dt.d + 1 }
  else if dt.m < 12 then { y := dt.y, m := dt.m + 1, d := 1 }
  else { y := dt.y + 1, m := 1, d := 1 }

/-- `k` days after `dt` -/
def addDays : Nat → Date → Date
  | 0, dt => dt
  | k + 1, dt => addDays k (nextDay dt)

/-- the Excel epoch: serial 0 of the "true" day count used by the code -/
def epoch : Date := { y := 1899, m := 12, d := 30 }

/-- the date `n` days after the epoch 1899-12-30 -/
def dateOfDays (n : Nat) : Date := addDays n epoch

/-- a well-formed date -/
def Date.Valid (dt : Date) : Prop := 1 ≤ dt.m ∧ dt.m ≤ 12 ∧ 1 ≤ dt.d ∧ dt.d ≤ daysInMonth dt.y dt.m

/-- strict chronological order, lexicographic on (year, month, day) -/
def Date.lt (a b : Date) : Prop :=
  a.y < b.y ∨ (a.y = b.y ∧ (a.m < b.m ∨ (a.m = b.m ∧ a.d < b.d)))

def Date.le (a b : Date) : Prop := a = b ∨ a.lt b

instance (a b : Date) : Decidable (a.lt b) := by unfold Date.lt; exact inferInstance
instance (a b : Date) : Decidable (a.le b) := by unfold Date.le; exact inferInstance

/-- a well-formed time of day (no leap second) -/
def Time.Valid (t : Time) : Prop := t.h < 24 ∧ t.mi < 60 ∧ t.s < 60 ∧ t.ms < 1000

/-- chronological order on date-times -/
def DateTime.le (a b : DateTime) : Prop :=
  a.date.lt b.date ∨ (a.date = b.date ∧ a.time.toMs ≤ b.time.toMs)

instance (a b : DateTime) : Decidable (a.le b) := by unfold DateTime.le; exact inferInstance

end Dates
