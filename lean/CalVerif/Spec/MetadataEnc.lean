import CalVerif.Model.SheetTypes
import CalVerif.Gen.SheetCodes
import CalVerif.Model.Metadata
/-! Encoders of the workbook-level metadata (property C16): how a logical sheet list / defined names / date
    flag is laid out as BIFF8 globals records, as XLSB workbook records, and as XML events of
    `xl/workbook.xml` and `content.xml`. The round-trip theorems of `Props/C16.lean` are about these
    functions; the driver exposes them (`enc…` requests) and the harness checks that the files it feeds
    to calamine carry exactly these bytes/events.

    Codes are taken from the *generated* tables (`Gen.xlsVisTable` …) by inverse lookup, so the encoders
    follow the tables of the source. -/

namespace MetaEnc

open Meta (Bytes Text Ev)

def byte (n : Nat) : UInt8 := UInt8.ofNat (n % 256)
def le16 (n : Nat) : Bytes := [byte n, byte (n / 256)]
def le32 (n : Nat) : Bytes := [byte n, byte (n / 256), byte (n / 65536), byte (n / 16777216)]

/-- first key of a table that maps to `v` -/
def codeOf {κ β : Type} [BEq β] (tbl : List (κ × β)) (v : β) : Option κ := (tbl.find? (·.2 == v)).map (·.1)

def xlsVisCode (v : SheetVisible) : Nat := (codeOf Gen.xlsVisTable v).getD 0
/-- `none` for a kind BIFF8 cannot express (dialog sheet) -/
def xlsKindCode (k : SheetType) : Option Nat := codeOf Gen.xlsKindTable k
def xlsbVisCode (v : SheetVisible) : Nat := (codeOf Gen.xlsbVisTable v).getD 0
def xlsxVisName (v : SheetVisible) : String := (codeOf Gen.xlsxVisTable v).getD ""
/-- the folder (second path segment) of a sheet part of kind `k`, if the reader knows one -/
def xlsxFolder (k : SheetType) : Option String := codeOf Gen.xlsxKindTable k
def xlsbFolder (k : SheetType) : Option String := codeOf Gen.xlsbKindTable k

/-! ## UTF-16 -/

/-- a Unicode scalar value as UTF-16 code units -/
def unitsOfScalar (c : Nat) : List Nat :=
  if c < 0x10000 then [c] else [0xD800 + (c - 0x10000) / 0x400, 0xDC00 + (c - 0x10000) % 0x400]

def utf16 (t : Text) : List Nat := t.flatMap unitsOfScalar

def isScalar (c : Nat) : Prop := c < 0xD800 ∨ (0xE000 ≤ c ∧ c < 0x110000)

/-! ## BIFF8 -/

/-- character bytes of a string: 1 byte per unit (all units < 256) or 2 bytes little-endian -/
def encUnits (wide : Bool) (us : List Nat) : Bytes := if wide then us.flatMap le16 else us.map byte

/-- ShortXLUnicodeString: cch (u8), flags, characters -/
def shortString (us : List Nat) (wide : Bool) : Bytes :=
  byte us.length :: (if wide then 1 else 0) :: encUnits wide us

/-- BoundSheet8 payload. `hs` = the hsState byte (low 6 bits = state, 2 reserved bits), `dt` = sheet type -/
def encodeBoundSheet (offset hs dt : Nat) (us : List Nat) (wide : Bool) : Bytes :=
  le32 offset ++ [byte hs, byte dt] ++ shortString us wide

/-- one framed BIFF record -/
def record (typ : Nat) (data : Bytes) : Bytes := le16 typ ++ le16 data.length ++ data

/-- BOF payload of a BIFF8 substream (`dt` = 5 for the globals) -/
def bofData (dt : Nat) : Bytes := le16 0x0600 ++ le16 dt ++ List.replicate 12 0

/-- Lbl payload: grbit, chKey, cch, cce, reserved, itab, 4 × 0, flags, characters, rgce -/
def encodeLbl (us : List Nat) (wide : Bool) (itab : Nat) (rgce : Bytes) : Bytes :=
  le16 0 ++ [0, byte us.length] ++ le16 rgce.length ++ le16 0 ++ le16 itab ++ [0, 0, 0, 0] ++
    (if wide then 1 else 0) :: encUnits wide us ++ rgce

/-- a sheet as the globals substream declares it -/
structure XlsSheet where
  offset : Nat
  /-- reserved high bits of the hsState byte (0..3) -/
  reserved : Nat
  vis : SheetVisible
  /-- dt byte -/
  dt : Nat
  units : List Nat
  wide : Bool
  deriving Repr, DecidableEq

def XlsSheet.payload (s : XlsSheet) : Bytes :=
  encodeBoundSheet s.offset (xlsVisCode s.vis + 64 * s.reserved) s.dt s.units s.wide

/-- the records of a globals substream that this property looks at, and neutral ones in between -/
inductive GRec where
  | sheet (s : XlsSheet)
  /-- DATEMODE with the given value -/
  | date (v : Nat)
  /-- a record the globals loop ignores (`typ` outside the interpreted ids, not CONTINUE) -/
  | neutral (typ : Nat) (data : Bytes)
  deriving Repr, DecidableEq

def GRec.bytes : GRec → Bytes
  | .sheet s => record 0x0085 s.payload
  | .date v => record 0x0022 (le16 v)
  | .neutral t d => record t d

/-- globals substream: BOF, the records, EOF, then whatever follows in the stream (sheet substreams) -/
def encodeGlobals (recs : List GRec) (tail : Bytes) : Bytes :=
  record 0x0809 (bofData 5) ++ (recs.flatMap GRec.bytes ++ (record 0x000A [] ++ tail))

/-! ## XLSB -/

/-- XLWideString: cch (u32), UTF-16LE units -/
def wideStr (us : List Nat) : Bytes := le32 us.length ++ us.flatMap le16

/-- BrtBundleSh payload: hsState, iTabID, strRelID, strName -/
def encodeBundleSh (hs tabId : Nat) (relUnits nameUnits : List Nat) : Bytes :=
  le32 hs ++ le32 tabId ++ wideStr relUnits ++ wideStr nameUnits

/-- record id, shortest form -/
def varId (id : Nat) : Bytes := if id < 128 then [byte id] else [byte (id % 128 + 128), byte (id / 128)]

/-- record length, shortest form (n < 2^28) -/
def varLen (n : Nat) : Bytes :=
  if n < 128 then [byte n]
  else if n < 16384 then [byte (n % 128 + 128), byte (n / 128)]
  else if n < 2097152 then [byte (n % 128 + 128), byte (n / 128 % 128 + 128), byte (n / 16384)]
  else [byte (n % 128 + 128), byte (n / 128 % 128 + 128), byte (n / 16384 % 128 + 128), byte (n / 2097152)]

def brec (id : Nat) (payload : Bytes) : Bytes := varId id ++ varLen payload.length ++ payload

/-- BrtWbProp payload: flags (bit 0 = f1904), dwThemeVersion, strName (empty) -/
def encodeWbProp (flags : Nat) : Bytes := le32 flags ++ le32 0 ++ wideStr []

structure XlsbSheet where
  vis : SheetVisible
  tabId : Nat
  relUnits : List Nat
  nameUnits : List Nat
  deriving Repr, DecidableEq

def XlsbSheet.bytes (s : XlsbSheet) : Bytes :=
  brec 0x009C (encodeBundleSh (xlsbVisCode s.vis) s.tabId s.relUnits s.nameUnits)

/-! ## XML events -/

/-- `<sheet name=… sheetId=… [state=…] r:id=…/>` as Start + End; `q` qualifies element names with the
    document's prefix for the main namespace. `state = none` leaves the attribute out (visible). -/
def sheetEvents (q : String → String) (name : String) (sheetId : String) (state : Option SheetVisible) (ridKey rid : String) :
    List Ev :=
  [.start (q "sheet")
      ([("name", name), ("sheetId", sheetId)] ++
       (match state with | some v => [("state", xlsxVisName v)] | none => []) ++ [(ridKey, rid)]),
   .end_ (q "sheet")]

def definedNameEvents (q : String → String) (name value : String) : List Ev :=
  [.start (q "definedName") [("name", name)]] ++ (if value.isEmpty then [] else [.text value]) ++ [.end_ (q "definedName")]

end MetaEnc
