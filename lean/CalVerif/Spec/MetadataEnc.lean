import CalVerif.Model.SheetTypes
import CalVerif.Gen.SheetCodes
import CalVerif.Model.Metadata
import CalVerif.Spec.SstEnc
import CalVerif.Spec.XlsbEnc
/-! Encoders of the workbook-level metadata (property C16): how a logical sheet list / defined names / date
    flag is laid out as BIFF8 globals records, as XLSB workbook records, and as XML events of
    `xl/workbook.xml` and `content.xml`. The round-trip theorems of `Props/C16.lean` are about these
    functions; the driver exposes them (`enc…` requests) and the harness checks that the files it feeds
    to calamine carry exactly these bytes/events.

    Codes are taken from the *generated* tables (`Gen.xlsVisTable` …) by inverse lookup, so the encoders
    follow the tables of the source. -/

namespace MetaEnc

open Meta

-- byte-level encoders shared with the BIFF string encoders (C12, `Spec/SstEnc.lean`): `Biff.byte`, `Biff.le16`, `Biff.le32`
open Biff (byte le16 le32)

/-- first key of a table that maps to `v` -/
def codeOf {κ β : Type} [BEq β] (tbl : List (κ × β)) (v : β) : Option κ := (tbl.find? (·.2 == v)).map (·.1)

def xlsVisCode (v : SheetVisible) : Nat := (codeOf Gen.xlsVisTable v).getD 0
/-- `none` for a kind BIFF8 cannot express (dialog sheet) -/
def xlsKindCode (k : SheetType) : Option Nat := codeOf Gen.xlsKindTable k
def xlsbVisCode (v : SheetVisible) : Nat := (codeOf Gen.xlsbVisTable v).getD 0
def xlsxVisName (v : SheetVisible) : String := (codeOf Gen.xlsxVisTable v).getD ""
/-- the folder (second path segment) of a sheet part of kind `k`, if the reader knows one -/
def xlsxFolder (k : SheetType) : Option String := codeOf Gen.xlsxKindTable k
def xlsbFolder (k : SheetType) : Option String := codeOf Gen.xlsbKindTable k

/-! ## UTF-16 -/

/-- a Unicode scalar value as UTF-16 code units -/
def unitsOfScalar (c : Nat) : List Nat :=
  if c < 0x10000 then [c] else [0xD800 + (c - 0x10000) / 0x400, 0xDC00 + (c - 0x10000) % 0x400]

def utf16 (t : Text) : List Nat := t.flatMap unitsOfScalar

def isScalar (c : Nat) : Prop := c < 0xD800 ∨ (0xE000 ≤ c ∧ c < 0x110000)

/-! ## BIFF8 -/

/-- character bytes of a string: 1 byte per unit (all units < 256) or 2 bytes little-endian -/
def encUnits (wide : Bool) (us : List Nat) : Bytes := if wide then us.flatMap le16 else us.map byte

/-- ShortXLUnicodeString: cch (u8), flags, characters -/
def shortString (us : List Nat) (wide : Bool) : Bytes :=
  byte us.length :: (if wide then 1 else 0) :: encUnits wide us

/-- BoundSheet8 payload. `hs` = the hsState byte (low 6 bits = state, 2 reserved bits), `dt` = sheet type -/
def encodeBoundSheet (offset hs dt : Nat) (us : List Nat) (wide : Bool) : Bytes :=
  le32 offset ++ [byte hs, byte dt] ++ shortString us wide

/-- one framed BIFF record without CONTINUE records (`Biff.frameRec`, the framing C12's round trip is about) -/
def record (typ : Nat) (data : Bytes) : Bytes := Biff.frameRec typ data []

/-- BOF payload of a BIFF8 substream (`dt` = 5 for the globals) -/
def bofData (dt : Nat) : Bytes := le16 0x0600 ++ le16 dt ++ List.replicate 12 0

/-- Lbl payload: grbit, chKey, cch, cce, reserved, itab, 4 × 0, flags, characters, rgce -/
def encodeLbl (us : List Nat) (wide : Bool) (itab : Nat) (rgce : Bytes) : Bytes :=
  le16 0 ++ [0, byte us.length] ++ le16 rgce.length ++ le16 0 ++ le16 itab ++ [0, 0, 0, 0] ++
    (if wide then 1 else 0) :: encUnits wide us ++ rgce

/-- a sheet as the globals substream declares it -/
structure XlsSheet where
  offset : Nat
  /-- reserved high bits of the hsState byte (0..3) -/
  reserved : Nat
  vis : SheetVisible
  /-- dt byte -/
  dt : Nat
  units : List Nat
  wide : Bool
  deriving Repr, DecidableEq

def XlsSheet.payload (s : XlsSheet) : Bytes :=
  encodeBoundSheet s.offset (xlsVisCode s.vis + 64 * s.reserved) s.dt s.units s.wide

/-- the records of a globals substream that this property looks at, and neutral ones in between -/
inductive GRec where
  | sheet (s : XlsSheet)
  /-- DATEMODE with the given value -/
  | date (v : Nat)
  /-- a record the globals loop ignores (`typ` outside the interpreted ids, not CONTINUE) -/
  | neutral (typ : Nat) (data : Bytes)
  /-- Lbl (defined name): name units, packing, itab, formula bytes -/
  | lbl (units : List Nat) (wide : Bool) (itab : Nat) (rgce : Bytes)
  /-- ExternSheet: XTI entries (iSupBook, itabFirst, itabLast) as 16-bit patterns -/
  | extern (xtis : List (Nat × Nat × Nat))
  deriving Repr, DecidableEq

def xtiBytes (x : Nat × Nat × Nat) : Bytes := le16 x.1 ++ le16 x.2.1 ++ le16 x.2.2

def externData (xtis : List (Nat × Nat × Nat)) : Bytes := le16 xtis.length ++ xtis.flatMap xtiBytes

def GRec.bytes : GRec → Bytes
  | .sheet s => record 0x0085 s.payload
  | .date v => record 0x0022 (le16 v)
  | .neutral t d => record t d
  | .lbl us w it rg => record 0x0018 (encodeLbl us w it rg)
  | .extern x => record 0x0017 (externData x)

/-- globals substream: BOF, the records, EOF, then whatever follows in the stream (sheet substreams) -/
def encodeGlobals (recs : List GRec) (tail : Bytes) : Bytes :=
  record 0x0809 (bofData 5) ++ (recs.flatMap GRec.bytes ++ (record 0x000A [] ++ tail))

/-! ### what the xls theorems assume and promise -/

/-- the record ids the globals loop interprets, and CONTINUE -/
def interpretedIds : List Nat := [0x002F, 0x0042, 0x0022, 0x041E, 0x00E0, 0x0085, 0x0809, 0x0018, 0x0017, 0x00FC, 0x000A, 0x003C]

/-- a declared sheet the format can express: 32-bit offset, 2 reserved bits, a sheet type of MS-XLS 2.4.28,
    at most 255 UTF-16 units, 8-bit storage only for units below 256 -/
def XlsSheet.ok (s : XlsSheet) : Prop :=
  s.offset < 4294967296 ∧ s.reserved < 4 ∧ (∃ k, xlsKindCode k = some s.dt) ∧ s.units.length < 256 ∧
    ∀ u ∈ s.units, u < (if s.wide then 65536 else 256)

def XlsSheet.kind (s : XlsSheet) : SheetType := (Gen.xlsKindTable.lookup s.dt).getD .workSheet

/-- what the reader is expected to keep for a declared sheet: stream offset and `Sheet { name, typ, visible }` -/
def XlsSheet.decoded (s : XlsSheet) : Nat × Sheet Text :=
  (s.offset, ⟨(Biff.decodeUtf16 s.units).filter (· != 0), s.kind, s.vis⟩)

/-- the value of a 16-bit pattern read as `i16` -/
def asI16 (n : Nat) : Int := if n < 32768 then (n : Int) else (n : Int) - 65536

/-- `pd` = the defined-name formula decoder (`parse_defined_names`, C14): it must accept the formula bytes -/
def GRec.ok (pd : Bytes → Res (Option Nat × Text)) : GRec → Prop
  | .sheet s => s.ok
  | .date v => v < 65536
  | .neutral t d => t < 65536 ∧ t ∉ interpretedIds ∧ d.length < 65536
  | .lbl us w it rg =>
    us.length < 256 ∧ (∀ u ∈ us, u < (if w then 65536 else 256)) ∧ it < 65536 ∧ rg.length < 65536 ∧
      (encodeLbl us w it rg).length < 65536 ∧ (pd rg).isOk = true
  | .extern x => x.length < 65536 ∧ (∀ e ∈ x, e.1 < 65536 ∧ e.2.1 < 65536 ∧ e.2.2 < 65536) ∧ (externData x).length < 65536

/-- what `pd` made of the formula bytes -/
def pdValue (pd : Bytes → Res (Option Nat × Text)) (rg : Bytes) : Option Nat × Text :=
  match pd rg with
  | .ok r => r
  | _ => (none, [])

/-- the effect a record is expected to have on the loop state -/
def applyRec (pd : Bytes → Res (Option Nat × Text)) (st : XlsSt) : GRec → XlsSt
  | .sheet s => { st with sheets := st.sheets ++ [s.decoded] }
  | .date v => if v = 1 then { st with is1904 := true } else st
  | .neutral _ _ => st
  | .lbl us _ _ rg => { st with names := st.names ++ [(Biff.decodeUtf16 us, pdValue pd rg)] }
  | .extern x => { st with xtis := st.xtis ++ x.map (fun e => asI16 e.2.1) }

def declaredSheets : List GRec → List XlsSheet
  | [] => []
  | .sheet s :: rs => s :: declaredSheets rs
  | _ :: rs => declaredSheets rs

/-- the defined names as the loop collects them: name, (ixti, text) of the formula decoder -/
def declaredNames (pd : Bytes → Res (Option Nat × Text)) : List GRec → List (Text × Option Nat × Text)
  | [] => []
  | .lbl us _ _ rg :: rs => (Biff.decodeUtf16 us, pdValue pd rg) :: declaredNames pd rs
  | _ :: rs => declaredNames pd rs

def declaredXtis : List GRec → List Int
  | [] => []
  | .extern x :: rs => x.map (fun e => asI16 e.2.1) ++ declaredXtis rs
  | _ :: rs => declaredXtis rs

/-- the XTI entries the ExternSheet records declare, as written (16-bit patterns) -/
def declaredXtiTriples : List GRec → List (Nat × Nat × Nat)
  | [] => []
  | .extern x :: rs => x ++ declaredXtiTriples rs
  | _ :: rs => declaredXtiTriples rs

/-! #### the meaning of a 3-D reference in a defined name, written from the specification (not from the code)

    MS-XLS 2.5.198.x (PtgRef3d, PtgArea3d …): `ixti` is a zero-based index into the XTI array of the ExternSheet
    record (2.4.105); for an XTI that points into this workbook, `itabFirst` (a signed 16-bit value, 2.5.292) is the
    zero-based index of the first referenced sheet in the BoundSheet8 order, −1 means the sheet was deleted
    (`#REF`), −2 a workbook-level reference. A Lbl (2.4.150) with `itab = 0` is a workbook-global name, `itab = k`
    a name local to the k-th sheet; both kinds are defined names of the workbook. -/

/-- "the 3-D reference through XTI entry `ixti` designates the sheet named `s`" -/
def Refers (sheetNames : List Text) (xtis : List (Nat × Nat × Nat)) (ixti : Nat) (s : Text) : Prop :=
  ∃ (e : Nat × Nat × Nat) (k : Nat), xtis[ixti]? = some e ∧ asI16 e.2.1 = (k : Int) ∧ sheetNames[k]? = some s

/-- what `defined_names()` must report for a defined name whose formula decodes to `decl.2` = (3-D sheet index or
    none, reference text): the name; and the text itself, or `<sheet>!<text>` with the designated sheet, or
    `#REF!<text>` when the reference designates no sheet of this workbook -/
def NameMeets (sheetNames : List Text) (xtis : List (Nat × Nat × Nat)) (decl : Text × Option Nat × Text) (got : Text × Text) : Prop :=
  got.1 = decl.1 ∧
  match decl.2.1 with
  | none => got.2 = decl.2.2
  | some ixti =>
    (∀ s, Refers sheetNames xtis ixti s → got.2 = s ++ 33 :: decl.2.2) ∧
    ((¬ ∃ s, Refers sheetNames xtis ixti s) → got.2 = [35, 82, 69, 70] ++ 33 :: decl.2.2)

/-- the scope a Lbl declares: `none` = workbook-global, `some k` = local to the k-th sheet (0-based) -/
def lblScope (itab : Nat) : Option Nat := if itab = 0 then none else some (itab - 1)

/-- the workbook uses the 1904 date system iff some DATEMODE record carries 1 -/
def declared1904 (recs : List GRec) : Bool := recs.any fun r => match r with | .date v => v == 1 | _ => false

/-! ## XLSB (framing and field encoders: C03's `Spec/XlsbEnc.lean`) -/

/-- BrtBundleSh payload: hsState, iTabID, strRelID, strName (XLWideStrings) -/
def encodeBundleSh (hs tabId : Nat) (relUnits nameUnits : List Nat) : Bytes :=
  Xlsb.le32 hs ++ Xlsb.le32 tabId ++ Xlsb.wideBytes relUnits ++ Xlsb.wideBytes nameUnits

/-- BrtWbProp payload: flags (bit 0 = f1904), dwThemeVersion, strName (empty) -/
def encodeWbProp (flags : Nat) : Bytes := Xlsb.le32 flags ++ Xlsb.le32 0 ++ Xlsb.wideBytes []

structure XlsbSheet where
  vis : SheetVisible
  tabId : Nat
  relUnits : List Nat
  nameUnits : List Nat
  deriving Repr, DecidableEq

def XlsbSheet.payload (s : XlsbSheet) : Bytes := encodeBundleSh (xlsbVisCode s.vis) s.tabId s.relUnits s.nameUnits

/-- the records of `xl/workbook.bin` up to the end of the sheet list, each with its framing choice
    (`wide`: 2-byte record id even below 128; `lenW`: requested width of the length varint, 0 = shortest) -/
inductive WRec where
  | sheet (s : XlsbSheet) (wide : Bool) (lenW : Nat)
  | wbprop (flags : Nat) (wide : Bool) (lenW : Nat)
  /-- any record the first loop does not interpret (BrtBeginBook, BrtFileVersion, BrtBookView, …) -/
  | other (id : Nat) (payload : Bytes) (wide : Bool) (lenW : Nat)
  deriving Repr, DecidableEq

def WRec.bytes : WRec → Bytes
  | .sheet s w l => Xlsb.frame 0x009C s.payload w l
  | .wbprop f w l => Xlsb.frame 0x0099 (encodeWbProp f) w l
  | .other id p w l => Xlsb.frame id p w l

/-- `xl/workbook.bin` up to and including BrtEndBundleShs, then the rest of the part -/
def encodeWorkbookBin (recs : List WRec) (endWide : Bool) (endLenW : Nat) (tail : Bytes) : Bytes :=
  recs.flatMap WRec.bytes ++ (Xlsb.frame 0x0090 [] endWide endLenW ++ tail)

/-- a declared sheet the reader must accept: known relationship whose target lies in a known folder -/
def XlsbSheet.ok (rels : List (Text × String)) (s : XlsbSheet) : Prop :=
  s.tabId < 4294967296 ∧ s.relUnits.length < 2147483648 ∧ s.nameUnits.length < 2147483648 ∧
  (∀ u ∈ s.relUnits, u < 65536) ∧ (∀ u ∈ s.nameUnits, u < 65536) ∧
  ∃ target kind, rels.lookup (Biff.decodeUtf16 s.relUnits) = some target ∧
    kindOfPath Gen.xlsbKindTable (xlsxPath target.toList) = some kind

/-- kind and path the reader derives from the relationship -/
def XlsbSheet.pathOf (rels : List (Text × String)) (s : XlsbSheet) : List Char :=
  xlsxPath ((rels.lookup (Biff.decodeUtf16 s.relUnits)).getD "").toList

def XlsbSheet.decoded (rels : List (Text × String)) (s : XlsbSheet) : Sheet Text × List Char :=
  (⟨Biff.decodeUtf16 s.nameUnits, (kindOfPath Gen.xlsbKindTable (s.pathOf rels)).getD .workSheet, s.vis⟩, s.pathOf rels)

def WRec.ok (rels : List (Text × String)) : WRec → Prop
  | .sheet s _ _ => s.ok rels ∧ s.payload.length < 268435456
  | .wbprop f _ _ => f < 4294967296
  | .other id p _ _ => id < 16384 ∧ id ≠ 0x0099 ∧ id ≠ 0x009C ∧ id ≠ 0x0090 ∧ p.length < 268435456

def applyW (rels : List (Text × String)) (st : XlsbSt) : WRec → XlsbSt
  | .sheet s _ _ => { st with sheets := st.sheets ++ [s.decoded rels] }
  | .wbprop f _ _ => { st with is1904 := f % 2 = 1 }
  | .other _ _ _ _ => st

def declaredW : List WRec → List XlsbSheet
  | [] => []
  | .sheet s _ _ :: rs => s :: declaredW rs
  | _ :: rs => declaredW rs

/-- the date-system flag the part declares: bit 0 of the last BrtWbProp (false without one) -/
def flagStep (b : Bool) : WRec → Bool
  | .wbprop f _ _ => decide (f % 2 = 1)
  | _ => b

def flagW (recs : List WRec) : Bool := recs.foldl flagStep false

/-! ### the part of `xl/workbook.bin` after the sheet list: BrtExternSheet, BrtName -/

/-- a defined name as BrtName stores it -/
structure XName where
  flags : Nat
  itab : Nat
  nameUnits : List Nat
  rgce : Bytes
  /-- what follows the formula in the record (rgcb, comment, …): not read -/
  extra : Bytes
  deriving Repr, DecidableEq

/-- BrtName payload: flags (u32), chKey, itab (u32), name, cce (u32), rgce, rest -/
def XName.payload (n : XName) : Bytes :=
  Xlsb.le32 n.flags ++ ([0] ++ (Xlsb.le32 n.itab ++ (Xlsb.wideBytes n.nameUnits ++ (Xlsb.le32 n.rgce.length ++ (n.rgce ++ n.extra)))))

/-- one XTI of BrtExternSheet: (externalLink, firstSheet, lastSheet) as 32-bit patterns -/
def xtiBytes32 (x : Nat × Nat × Nat) : Bytes := Xlsb.le32 x.1 ++ (Xlsb.le32 x.2.1 ++ Xlsb.le32 x.2.2)

def externPayload (x : List (Nat × Nat × Nat)) : Bytes := Xlsb.le32 x.length ++ x.flatMap xtiBytes32

inductive NRec where
  | extern (x : List (Nat × Nat × Nat)) (wide : Bool) (lenW : Nat)
  | name (n : XName) (wide : Bool) (lenW : Nat)
  /-- a record the second loop does not interpret and that does not end it -/
  | other (id : Nat) (payload : Bytes) (wide : Bool) (lenW : Nat)
  deriving Repr, DecidableEq

def NRec.bytes : NRec → Bytes
  | .extern x w l => Xlsb.frame 0x016A (externPayload x) w l
  | .name n w l => Xlsb.frame 0x0027 n.payload w l
  | .other id p w l => Xlsb.frame id p w l

/-- the sheet name an XTI entry stands for (`first sheet` field as `i32`) -/
def xtiName (sheets : List (Sheet Text × List Char)) (x : Nat × Nat × Nat) : Text :=
  if x.2.1 = 0xFFFFFFFE then extText "#ThisWorkbook"
  else if x.2.1 = 0xFFFFFFFF then extText "#InvalidWorkSheet"
  else if x.2.1 < 0x80000000 then ((sheets[x.2.1]?).map (·.1.name)).getD (extText "#Unknown")
  else extText "#Unknown"

/-- the state of the second loop that matters: extern-sheet names and the defined names so far -/
abbrev NSt := List Text × List (Text × Text)

/-- value of the formula decoder `pf` (`parse_formula`, C14) where it succeeds -/
def pfValue (pf : Bytes → List Text → List (Text × Text) → Res Text) (rg : Bytes) (st : NSt) : Text :=
  match pf rg st.1 st.2 with
  | .ok t => t
  | _ => []

def applyN (pf : Bytes → List Text → List (Text × Text) → Res Text) (sheets : List (Sheet Text × List Char)) (st : NSt) : NRec → NSt
  | .extern x _ _ => (x.map (xtiName sheets), st.2)
  | .name n _ _ => (st.1, st.2 ++ [(Biff.decodeUtf16 n.nameUnits, pfValue pf n.rgce st)])
  | .other _ _ _ _ => st

def NRec.ok (pf : Bytes → List Text → List (Text × Text) → Res Text) (st : NSt) : NRec → Prop
  | .extern x _ _ => x.length < 4294967296 ∧ (∀ e ∈ x, e.1 < 4294967296 ∧ e.2.1 < 4294967296 ∧ e.2.2 < 4294967296) ∧
      (externPayload x).length < 268435456
  | .name n _ _ => n.flags < 4294967296 ∧ n.itab < 4294967296 ∧ n.nameUnits.length < 2147483648 ∧ (∀ u ∈ n.nameUnits, u < 65536) ∧
      n.payload.length < 268435456 ∧ (pf n.rgce st.1 st.2).isOk = true
  | .other id p _ _ => id < 16384 ∧ id ≠ 0x016A ∧ id ≠ 0x0027 ∧ isAfterNames id = false ∧ p.length < 268435456

/-- every record is acceptable in the state the records before it produce -/
def namesOk (pf : Bytes → List Text → List (Text × Text) → Res Text) (sheets : List (Sheet Text × List Char)) : NSt → List NRec → Prop
  | _, [] => True
  | st, r :: rs => r.ok pf st ∧ namesOk pf sheets (applyN pf sheets st r) rs

/-! ## XML events -/

/-- a sheet as `xl/workbook.xml` + `xl/_rels/workbook.xml.rels` declare it -/
structure XSheet where
  name : String
  sheetId : String
  vis : SheetVisible
  /-- write the `state` attribute (may be left out for a visible sheet) -/
  writeState : Bool
  rid : String
  /-- `Target` of the relationship -/
  target : String
  kind : SheetType
  deriving Repr, DecidableEq

/-- the attributes of `<sheet>`: name, sheetId, optional state, relationship id under the qualified name `ridKey` -/
def sheetAttrList (ridKey : String) (s : XSheet) : List (String × String) :=
  [("name", s.name), ("sheetId", s.sheetId)] ++
    (if s.writeState then [("state", xlsxVisName s.vis)] else []) ++ [(ridKey, s.rid)]

/-- `<sheet name=… sheetId=… [state=…] r:id=…/>` as Start + End; `q` qualifies element names with the
    document's prefix for the main namespace -/
def sheetEvents (q : String → String) (ridKey : String) (s : XSheet) : List Ev :=
  [.start (q "sheet") (sheetAttrList ridKey s), .end_ (q "sheet")]

/-- a piece of character data: `(true, s)` = a CDATA section `<![CDATA[s]]>`, `(false, s)` = ordinary text -/
def chunkEv (c : Bool × String) : Ev := if c.1 then .cdata c.2 else .text c.2

/-- `<definedName name=…>…</definedName>`; the character data may arrive in several events, ordinary text and
    CDATA sections in any mix -/
def definedNameEvents (q : String → String) (n : String × List (Bool × String)) : List Ev :=
  [.start (q "definedName") [("name", n.1)]] ++ n.2.map chunkEv ++ [.end_ (q "definedName")]

/-- the optional `<workbookPr …/>` -/
def prEvents (q : String → String) : Option (List (String × String)) → List Ev
  | some attrs => [.start (q "workbookPr") attrs, .end_ (q "workbookPr")]
  | none => []

/-- an optional extension list `<extLst> … </extLst>` with arbitrary content -/
def extEvents (q : String → String) : Option (List Ev) → List Ev
  | some body => .start (q "extLst") [] :: (body ++ [.end_ (q "extLst")])
  | none => []

/-- the content of an extension list: any events (elements of any namespace and any local name — `x15:workbookPr`,
    `x14:definedName`, a foreign `sheet` —, text, comments) that neither open nor close an element with the qualified
    name `n` of the list itself -/
def ExtOk (n : String) (body : List Ev) : Prop := ∀ e ∈ body, (∀ a, e ≠ Ev.start n a) ∧ e ≠ Ev.end_ n

/-- the local names `read_workbook` interprets on a start tag -/
def xlsxInterpreted : List String := ["extLst", "sheet", "workbookPr", "definedName"]

/-- the local names whose start tag always has an effect -/
def xlsxAlwaysInterpreted : List String := ["extLst", "sheet", "definedName"]

/-- events the workbook loop must skip: start tags of any element whose local name is not interpreted (whatever its
    namespace prefix and attributes: `fileVersion`, `bookViews`, `workbookView`, `calcPr`, `mc:AlternateContent`,
    `externalReferences`, `pivotCaches`, …) — and start tags with local name `workbookPr` that carry no `date1904`
    attribute (a foreign twin such as `<x15:workbookPr chartTrackingRefBase="1"/>` inside `mc:AlternateContent`,
    before or after the real element: after fix 4dbff9e it leaves the date system alone) —, end tags other than the
    workbook's, text, comments, processing instructions -/
def InertX (evs : List Ev) : Prop :=
  ∀ e ∈ evs, match e with
    | .start n a => localName n ∉ xlsxAlwaysInterpreted ∧ (localName n = "workbookPr" → a.lookup "date1904" = none)
    | .end_ n => localName n ≠ "workbook"
    | _ => True

/-- inert content at the five positions between the children of `<workbook>` that the skeleton below distinguishes -/
structure Gaps where
  g0 : List Ev := []
  g1 : List Ev := []
  g2 : List Ev := []
  g3 : List Ev := []
  g4 : List Ev := []

def Gaps.ok (g : Gaps) : Prop := InertX g.g0 ∧ InertX g.g1 ∧ InertX g.g2 ∧ InertX g.g3 ∧ InertX g.g4

/-- the events of `xl/workbook.xml`:
    `<workbook> g0 [<workbookPr …/>] g1 <sheets>…</sheets> g2 <definedNames>…</definedNames> g3 [<extLst>…</extLst>] g4 </workbook>` -/
def workbookEvents (q : String → String) (ridKey : String) (pr : Option (List (String × String)))
    (sheets : List XSheet) (names : List (String × List (Bool × String))) (ext : Option (List Ev) := none)
    (g : Gaps := {}) : List Ev :=
  .start (q "workbook") [] ::
    (g.g0 ++ (prEvents q pr ++ (g.g1 ++
     (.start (q "sheets") [] ::
       (sheets.flatMap (sheetEvents q ridKey) ++
         (.end_ (q "sheets") :: (g.g2 ++
           (.start (q "definedNames") [] ::
             (names.flatMap (definedNameEvents q) ++
               (.end_ (q "definedNames") :: (g.g3 ++ (extEvents q ext ++ (g.g4 ++ [.end_ (q "workbook")])))))))))))))

/-! ### what the xlsx theorems assume and promise -/

/-- what the reader is expected to report for a declared sheet -/
def xsheetDecoded (s : XSheet) : Sheet String × List Char := (⟨s.name, s.kind, s.vis⟩, xlsxPath s.target.toList)

def XSheet.ok (rels : List (String × String)) (s : XSheet) : Prop :=
  rels.lookup s.rid = some s.target ∧ kindOfPath Gen.xlsxKindTable (xlsxPath s.target.toList) = some s.kind ∧
  (s.writeState = false → s.vis = .visible)

/-- a legal spelling of the relationship-id attribute: a prefix other than `xmlns`, local name `id` -/
def ridKeyOk (k : String) : Prop := relIdKey k

/-- the element names of the main namespace that occur in `workbookEvents` -/
def xlsxNames : List String := ["workbook", "workbookPr", "sheets", "sheet", "definedNames", "definedName", "extLst"]

/-- `q` qualifies the element names of the workbook part with some prefix — or with none (`q = id`): the local name of
    `q n` is `n` for every name that occurs -/
def QOk (q : String → String) : Prop := ∀ n ∈ xlsxNames, localName (q n) = n

/-- the text of a defined name: its character data concatenated, text and CDATA alike -/
def dnValue (n : String × List (Bool × String)) : String × String := (n.1, n.2.foldl (fun acc c => acc ++ c.2) "")

/-- a table in `content.xml`: name, optional style reference, and the (opaque) events of its rows -/
structure OTable where
  name : String
  styleName : Option String
  body : List Ev
  deriving Repr, DecidableEq

def tableEvents (t : OTable) : List Ev :=
  .start "table:table"
      ((match t.styleName with | some s => [("table:style-name", s)] | none => []) ++ [("table:name", t.name)]) ::
    (t.body ++ [.end_ "table:table"])

/-- an automatic table style: `<style:style style:name=… style:family="table"><style:table-properties [table:display=…]/></style:style>` -/
def styleEvents (st : String × Option Bool) : List Ev :=
  [.start "style:style" [("style:name", st.1), ("style:family", "table")],
   .start "style:table-properties" (match st.2 with | some true => [("table:display", "true")] | some false => [("table:display", "false")] | none => []),
   .end_ "style:table-properties", .end_ "style:style"]

def namedRangeEvents (n : String × String) : List Ev :=
  [.start "table:named-range" [("table:name", n.1), ("table:cell-range-address", n.2)], .end_ "table:named-range"]

/-- the element names `parse_content` interprets at top level (qualified names: the reader compares them so) -/
def odsInterpreted : List String := ["style:style", "style:table-properties", "table:table", "table:named-expressions"]

/-- events `parse_content` must skip at top level: start tags of any other element (`office:scripts`,
    `office:font-face-decls`, `style:font-face`, `number:date-style`, `table:calculation-settings`,
    `table:content-validations`, `table:database-ranges`, …), every end tag, text, comments, PIs -/
def InertO (evs : List Ev) : Prop :=
  ∀ e ∈ evs, match e with
    | .start n _ => n ∉ odsInterpreted
    | _ => True

def Gaps.okO (g : Gaps) : Prop := InertO g.g0 ∧ InertO g.g1 ∧ InertO g.g2 ∧ InertO g.g3 ∧ InertO g.g4

/-- the events of `content.xml` as far as the metadata goes:
    `<office:document-content> g0 <office:automatic-styles> g1 styles… </…> <office:body><office:spreadsheet> g2 tables… g3
     <table:named-expressions>…</…> g4 </office:spreadsheet></office:body></office:document-content>` -/
def contentEvents (styles : List (String × Option Bool)) (tables : List OTable) (names : List (String × String))
    (g : Gaps := {}) : List Ev :=
  .start "office:document-content" [] :: (g.g0 ++ (.start "office:automatic-styles" [] :: (g.g1 ++
    (styles.flatMap styleEvents ++
      (.end_ "office:automatic-styles" :: .start "office:body" [] :: .start "office:spreadsheet" [] :: (g.g2 ++
        (tables.flatMap tableEvents ++ (g.g3 ++
          (.start "table:named-expressions" [] ::
            (names.flatMap namedRangeEvents ++
              (.end_ "table:named-expressions" :: (g.g4 ++
                [.end_ "office:spreadsheet", .end_ "office:body", .end_ "office:document-content"]))))))))))))

/-! ### what the ods theorem promises -/

/-- visibility a style declares: hidden only for `table:display="false"` -/
def styleVis : Option Bool → SheetVisible
  | some false => .hidden
  | _ => .visible

/-- the style table after reading `styles` (latest first, as `odsLoop` keeps it) -/
def styleTable (styles : List (String × Option Bool)) : List (String × SheetVisible) :=
  (styles.map fun s => (s.1, styleVis s.2)).reverse

def tableVis (styles : List (String × Option Bool)) (t : OTable) : SheetVisible :=
  match t.styleName with
  | none => .visible
  | some s => ((styleTable styles).lookup s).getD .visible

def OTable.ok (t : OTable) : Prop := ∀ e ∈ t.body, e ≠ Ev.end_ "table:table"


end MetaEnc
