import CalVerif.Model.FormatsDecode
import CalVerif.Spec.NumFmt
import CalVerif.Spec.XlsbEnc
import CalVerif.Spec.MetadataEnc
/-! # Encoders of a style table (specification side of the style-part round trips, C10)

    A style table description: the custom number formats `(id, format string)` in file order and the format id of
    every cell XF. Each container writes it in its own way, together with things a reader must NOT take for cell
    formats: other record types, the cell-STYLE XFs, differential formats holding `numFmt` elements whose ids clash
    with real ones, fonts / fills / borders, unknown elements, comments and white space. -/

namespace StylesEnc
open Formats

structure StyleDesc where
  /-- custom definitions in file order (an id may occur twice) -/
  formats : List (Nat × List Char)
  /-- format id of every cell XF -/
  xfs : List Nat
  deriving Repr, DecidableEq

/-- UTF-16 code units of a text -/
def utf16Units : List Char → List Nat
  | [] => []
  | c :: rest =>
    if c.toNat < 0x10000 then c.toNat :: utf16Units rest
    else (0xD800 + (c.toNat - 0x10000) / 1024) :: (0xDC00 + (c.toNat - 0x10000) % 1024) :: utf16Units rest

/-! ## xls: records of the workbook globals -/

/-- FORMAT record payload: ifmt, cch, flags (bit 0 = 16-bit characters), the characters -/
def xlsFormatPayload (id : Nat) (s : List Char) (wide : Bool) : Bytes :=
  Biff.le16 id ++ Biff.le16 (utf16Units s).length ++ [if wide then 1 else 0] ++ MetaEnc.encUnits wide (utf16Units s)

/-- XF record payload: font index, ifmt, the rest of the 20 bytes (any content) -/
def xlsXfPayload (id : Nat) (font : Nat) (tail : Bytes) : Bytes := Biff.le16 font ++ Biff.le16 id ++ tail

/-- one record of the globals as far as styles go -/
inductive XlsItem where
  | format (id : Nat) (s : List Char) (wide : Bool)
  | xf (id : Nat) (font : Nat) (tail : Bytes)
  /-- any other record (FONT, STYLE, BOUNDSHEET8, SST …) -/
  | other (typ : Nat) (data : Bytes)
  deriving Repr, DecidableEq

def XlsItem.record : XlsItem → Nat × Bytes
  | .format id s w => (0x041E, xlsFormatPayload id s w)
  | .xf id font tail => (0x00E0, xlsXfPayload id font tail)
  | .other t d => (t, d)

def XlsItem.WF : XlsItem → Prop
  | .format id s w => id < 65536 ∧ (utf16Units s).length < 65536 ∧ (w = false → ∀ u ∈ utf16Units s, u < 256)
  | .xf id font _ => id < 65536 ∧ font < 65536
  | .other t _ => t ≠ 0x000A ∧ t ≠ 0x041E ∧ t ≠ 0x00E0

def xlsFormatsOf : List XlsItem → List (Nat × List Char)
  | [] => []
  | .format id s _ :: r => (id, s) :: xlsFormatsOf r
  | _ :: r => xlsFormatsOf r

def xlsXfsOf : List XlsItem → List Nat
  | [] => []
  | .xf id _ _ :: r => id :: xlsXfsOf r
  | _ :: r => xlsXfsOf r

/-- the globals: the items in any interleaving, the EOF record, then whatever follows (sheet substreams) -/
def xlsEncode (items : List XlsItem) (after : List (Nat × Bytes)) : List (Nat × Bytes) :=
  items.map XlsItem.record ++ (0x000A, []) :: after

/-! ## xlsb: the bytes of xl/styles.bin -/

/-- a framed record: id, payload, 2-byte id wanted, length width wanted -/
structure BRec where
  id : Nat
  payload : Bytes
  wide : Bool
  lenW : Nat
  deriving Repr, DecidableEq

def BRec.bytes (r : BRec) : Bytes := Xlsb.frame r.id r.payload r.wide r.lenW

def BRec.Fits (r : BRec) : Prop := r.id < 16384 ∧ r.payload.length < 268435456

def encRecs : List BRec → Bytes
  | [] => []
  | r :: rs => r.bytes ++ encRecs rs

/-- BrtFmt payload: ifmt, the format as an XLWideString -/
def brtFmtPayload (id : Nat) (s : List Char) : Bytes := Xlsb.le16 id ++ Xlsb.wideBytes (utf16Units s)

/-- BrtXF payload: ixfeParent, iFmt, 12 further bytes (any content) -/
def brtXfPayload (id : Nat) (parent : Nat) (tail : Bytes) : Bytes := Xlsb.le16 parent ++ Xlsb.le16 id ++ tail

/-- framing choices of one BrtFmt / BrtXF record -/
structure Fr where
  wide : Bool
  lenW : Nat
  deriving Repr, DecidableEq

/-- `pre`: the records in front of the format table (BrtBeginStyleSheet, fonts, fills, borders …) — none of them
    BrtBeginFmts / BrtBeginCellXFs; `mid`: the records between the format table and the cell XFs, among them the
    cell-STYLE XF block with its own BrtXF records; `post`: anything after the cell XFs. `fmtFr`, `xfFr` give the
    framing of each BrtFmt / BrtXF (missing entries = minimal), `xfTail` the bytes after `iFmt`. -/
structure XlsbLayout where
  pre : List BRec
  mid : List BRec
  post : Bytes
  fmtFr : List Fr
  xfFr : List Fr
  hdrFr : Fr
  deriving Repr, DecidableEq

def frAt (l : List Fr) (i : Nat) : Fr := l.getD i ⟨false, 0⟩

def encFmts : List (Nat × List Char) → List Fr → Nat → Bytes
  | [], _, _ => []
  | (id, s) :: r, frs, i => Xlsb.frame 0x002C (brtFmtPayload id s) (frAt frs i).wide (frAt frs i).lenW ++ encFmts r frs (i + 1)

def encXfs : List Nat → List Fr → Nat → Bytes
  | [], _, _ => []
  | id :: r, frs, i =>
    Xlsb.frame 0x002F (brtXfPayload id 0xFFFF (List.replicate 12 0)) (frAt frs i).wide (frAt frs i).lenW ++ encXfs r frs (i + 1)

def xlsbEncode (d : StyleDesc) (l : XlsbLayout) : Bytes :=
  encRecs l.pre ++
  (Xlsb.frame 0x0267 (Xlsb.le32 d.formats.length) l.hdrFr.wide l.hdrFr.lenW ++ (encFmts d.formats l.fmtFr 0 ++
  (Xlsb.frame 0x0268 [] false 0 ++ (encRecs l.mid ++
  (Xlsb.frame 0x0269 (Xlsb.le32 d.xfs.length) l.hdrFr.wide l.hdrFr.lenW ++ (encXfs d.xfs l.xfFr 0 ++ l.post))))))

def XlsbLayout.WF (l : XlsbLayout) : Prop :=
  (∀ r ∈ l.pre, r.Fits ∧ r.id ≠ 0x0267 ∧ r.id ≠ 0x0269) ∧ (∀ r ∈ l.mid, r.Fits ∧ r.id ≠ 0x0267 ∧ r.id ≠ 0x0269)

def StyleDesc.WFb (d : StyleDesc) : Prop :=
  (∀ f ∈ d.formats, f.1 < 65536 ∧ (utf16Units f.2).length < 100000000) ∧ (∀ x ∈ d.xfs, x < 65536) ∧
  d.formats.length < 4294967296 ∧ d.xfs.length < 4294967296

/-! ## xlsx: the events of xl/styles.xml -/

def utf8Bytes (s : List Char) : Bytes := (Utf8.utf8Encode s).map UInt8.ofNat

/-- element names under a namespace prefix (`none` = default namespace) -/
def qn (pfx : Option (List Char)) (n : String) : List Char :=
  match pfx with
  | none => n.toList
  | some p => p ++ ':' :: n.toList

/-- an id spelled with `z` leading zeros -/
def padId (z n : Nat) : Bytes := List.replicate z 48 ++ NumFmt.decimal n

def numFmtEvs (pfx : Option (List Char)) (idFirst : Bool) (z : Nat) (f : Nat × List Char) : List SEv :=
  let a1 : List Char × Bytes := ("numFmtId".toList, padId z f.1)
  let a2 : List Char × Bytes := ("formatCode".toList, utf8Bytes f.2)
  [.start (qn pfx "numFmt") (if idFirst then [a1, a2] else [a2, a1]), .end_ (qn pfx "numFmt")]

/-- a cell XF: `numFmtId` among other attributes (`before`, `after`: any attributes not called `numFmtId`),
    possibly with children (`alignment`, `protection`: `inner`, any events that are not an `xf` start nor a
    `cellXfs` end) -/
def xfEvs (pfx : Option (List Char)) (before after : List (List Char × Bytes)) (inner : List SEv) (z : Nat) (id : Nat) : List SEv :=
  .start (qn pfx "xf") (before ++ ("numFmtId".toList, padId z id) :: after) :: inner ++ [.end_ (qn pfx "xf")]

/-- `pre`: events between the root and `<numFmts>`; `mid`: between `</numFmts>` and `<cellXfs>` (fonts, fills,
    borders, the cellStyleXfs block with its `<xf numFmtId=…>`); `post`: after `</cellXfs>` up to the root's end
    (cellStyles, dxfs with `<numFmt>` elements of any id, extLst). None of them may hold a start tag whose local
    name is `numFmts` or `cellXfs`, nor an end tag `styleSheet`. `gap`: events between the children of the two
    blocks (white space, comments). -/
structure XlsxLayout where
  pfx : Option (List Char)
  idFirst : Bool
  rootAttrs : List (List Char × Bytes)
  pre : List SEv
  mid : List SEv
  post : List SEv
  xfBefore : List (List Char × Bytes)
  xfAfter : List (List Char × Bytes)
  xfInner : List SEv
  trailing : List SEv
  /-- leading zeros of the ids in `<numFmt>` / in `<xf>` (independent of each other) -/
  fmtZeros : Nat
  xfZeros : Nat
  deriving Repr, DecidableEq

def xlsxEncode (d : StyleDesc) (l : XlsxLayout) : List SEv :=
  .start (qn l.pfx "styleSheet") l.rootAttrs :: (l.pre ++
  (.start (qn l.pfx "numFmts") [] :: (d.formats.flatMap (numFmtEvs l.pfx l.idFirst l.fmtZeros) ++
  (.end_ (qn l.pfx "numFmts") :: (l.mid ++
  (.start (qn l.pfx "cellXfs") [] :: (d.xfs.flatMap (xfEvs l.pfx l.xfBefore l.xfAfter l.xfInner l.xfZeros) ++
  (.end_ (qn l.pfx "cellXfs") :: (l.post ++ .end_ (qn l.pfx "styleSheet") :: l.trailing)))))))))

/-- inert at the top level of the loop -/
def topInert : SEv → Bool
  | .start n _ => localName n != "numFmts".toList && localName n != "cellXfs".toList
  | .end_ n => localName n != "styleSheet".toList
  | .other => true

/-- inert inside `<cellXfs>` (children of an `<xf>`) -/
def xfInert : SEv → Bool
  | .start n _ => localName n != "xf".toList
  | .end_ n => localName n != "cellXfs".toList
  | .other => true

def XlsxLayout.WF (l : XlsxLayout) : Prop :=
  (∀ p, l.pfx = some p → ':' ∉ p) ∧
  l.pre.all topInert = true ∧ l.mid.all topInert = true ∧ l.post.all topInert = true ∧
  l.xfInner.all xfInert = true ∧
  (∀ a ∈ l.xfBefore, a.1 ≠ "numFmtId".toList)

end StylesEnc
