import CalVerif.Model.CellFormat
/-! # The spreadsheet number-format grammar (DESIGN.md §6 C10), independent of the scanner

    A format is a list of sections separated by `;`.  A section is a list of tokens:

    | token        | text            | meaning                                                                 |
    |--------------|-----------------|-------------------------------------------------------------------------|
    | `lit s`      | `"s"`           | quoted literal text (`"` ∉ s)                                           |
    | `esc c`      | `\c`            | one escaped character (any character)                                   |
    | `pad c`      | `_c`            | blank of the width of `c` (any character)                               |
    | `fill c`     | `*c`            | repeat `c` to fill the column (`c` a literal/placeholder character)     |
    | `brk body`   | `[body]`        | colour, condition, locale/currency, DBNum…  (not an elapsed-time unit)  |
    | `elapsed b`  | `[h] [mm] [SS]` | elapsed hours / minutes / seconds (a run of one of h, m, s in any case) |
    | `dateTok s`  | `yyyy` `AM/PM`  | a date/time token: a run of one of d m y h s (any case), `AM/PM`, `A/P` |
    | `num c`      | `0 # ? . , % …` | digit placeholders, `E+`/`E-`, fraction `/`, text `@`, bare literals    |
    | `general s`  | `General`       | the General keyword (any case)                                          |

    `classify` is the reading every spreadsheet application gives: in the FIRST section the first
    date token or elapsed token decides (DateTime / TimeDelta); if there is none the format is numeric or
    text (Other).  Quoted text, escapes, bracketed prefixes and later sections never count.

    Nothing in this file refers to the scanner model (`Model/Formats.lean`); the character classes below are
    written out again on purpose. -/

namespace NumFmt

inductive Tok where
  | lit (s : List Char)
  | esc (c : Char)
  | pad (c : Char)
  | fill (c : Char)
  | brk (body : List Char)
  | elapsed (body : List Char)
  | dateTok (s : List Char)
  | num (c : Char)
  | general (s : List Char)
  deriving DecidableEq, Repr

/-- a format: the first section and the (possibly empty) list of later sections -/
structure Fmt where
  first : List Tok
  rest : List (List Tok)
  deriving DecidableEq, Repr

/-! ## text of a format -/

def renderTok : Tok → List Char
  | .lit s => '"' :: (s ++ ['"'])
  | .esc c => ['\\', c]
  | .pad c => ['_', c]
  | .fill c => ['*', c]
  | .brk b => '[' :: (b ++ [']'])
  | .elapsed b => '[' :: (b ++ [']'])
  | .dateTok s => s
  | .num c => [c]
  | .general s => s

def renderSection : List Tok → List Char
  | [] => []
  | t :: ts => renderTok t ++ renderSection ts

/-- `;`-prefixed later sections -/
def renderRest : List (List Tok) → List Char
  | [] => []
  | s :: ss => ';' :: (renderSection s ++ renderRest ss)

def render (f : Fmt) : List Char := renderSection f.first ++ renderRest f.rest

/-! ## meaning -/

def classifySection : List Tok → CellFormat
  | [] => .other
  | .dateTok _ :: _ => .dateTime
  | .elapsed _ :: _ => .timeDelta
  | _ :: ts => classifySection ts

/-- only the first section counts -/
def classify (f : Fmt) : CellFormat := classifySection f.first

/-! ## well-formedness: which token payloads the grammar admits -/

/-- non-empty run of one letter given in both cases -/
def runOf (lo up : Char) (s : List Char) : Bool :=
  !s.isEmpty && s.all (fun c => c == lo || c == up)

/-- `h…`, `m…`, `s…` in any mixture of cases -/
def isElapsedBody (s : List Char) : Bool :=
  runOf 'h' 'H' s || runOf 'm' 'M' s || runOf 's' 'S' s

def isDateRun (s : List Char) : Bool :=
  runOf 'd' 'D' s || runOf 'm' 'M' s || runOf 'y' 'Y' s || runOf 'h' 'H' s || runOf 's' 'S' s

/-- `AM/PM` or `A/P` in any mixture of cases -/
def isAmPm : List Char → Bool
  | [a, m, sl, p, m'] =>
    (a == 'a' || a == 'A') && (m == 'm' || m == 'M') && sl == '/' && (p == 'p' || p == 'P') && (m' == 'm' || m' == 'M')
  | [a, sl, p] => (a == 'a' || a == 'A') && sl == '/' && (p == 'p' || p == 'P')
  | _ => false

/-- characters that have a syntactic role and therefore cannot stand inside a bracketed prefix -/
def isStructural (c : Char) : Bool :=
  c == '[' || c == ']' || c == ';' || c == '"' || c == '\\' || c == '_'

/-- the characters a `num` token may be: digit placeholders `0 # ?`, `.` `,` `%`, the exponent letters with
    their sign (`E+ E- e+ e-` are two `num` tokens), the fraction bar, the text placeholder, literal digits and
    the characters a format may show without quoting -/
def numChars : List Char :=
  "0#?.,%Ee+-/@123456789$(): !^&'~{}<>=".toList

/-- … and every character outside ASCII: letters of other scripts, ligatures, currency signs written without
    quotes are literal text (the format tokens are ASCII); in particular `ß ſ ﬆ ẖ ẙ`, whose Unicode UPPER-casing
    begins with S / H / Y, are not date tokens -/
def isNumChar (c : Char) : Bool := numChars.contains c || 128 ≤ c.toNat

/-- spellings of the keyword -/
def isGeneralWord : List Char → Bool
  | [g, e, n, e', r, a, l] =>
    (g == 'g' || g == 'G') && (e == 'e' || e == 'E') && (n == 'n' || n == 'N') && (e' == 'e' || e' == 'E') &&
    (r == 'r' || r == 'R') && (a == 'a' || a == 'A') && (l == 'l' || l == 'L')
  | _ => false

def wfTok : Tok → Bool
  | .lit s => !s.contains '"'
  | .esc _ => true
  | .pad _ => true
  | .fill c => isNumChar c
  | .brk b => b.all (fun c => !isStructural c) && !isElapsedBody b
  | .elapsed b => isElapsedBody b
  | .dateTok s => isDateRun s || isAmPm s
  | .num c => isNumChar c
  | .general s => isGeneralWord s

def isGeneral : Tok → Bool
  | .general _ => true
  | _ => false

/-- tokens that may follow `General` in a section: literal text only -/
def isTextTok : Tok → Bool
  | .lit _ => true
  | .esc _ => true
  | .pad _ => true
  | _ => false

/-- a section using the keyword: bracketed prefixes, `General`, then literal text only
    (no date tokens, no placeholders, no fraction bar after it) -/
def generalShape : List Tok → Bool
  | .brk _ :: ts => generalShape ts
  | .general _ :: ts => ts.all isTextTok
  | _ => false

def wfSection (ts : List Tok) : Bool :=
  ts.all wfTok && (if ts.any isGeneral then generalShape ts else true)

/-- Well-formedness of a format constrains its first section only: whatever follows the first `;` — even text
    that is no list of sections at all — is irrelevant (see `Props/C10.later_sections_ignored`). -/
def WF (f : Fmt) : Prop := wfSection f.first = true

instance (f : Fmt) : Decidable (WF f) := inferInstanceAs (Decidable (_ = true))

/-! ## built-in formats: ECMA-376 Part 1 §18.8.30 (numFmt), the language-independent ids 0–49

    Written by hand from the standard.  Ids 5–8, 23–36, 41–44 have no language-independent definition (currency /
    accounting / locale-specific) and ids ≥ 50 are locale-specific or custom; none of them is claimed to be a date:
    the stated choice is `Other` for every id that is not listed here as a date/time format. -/

def ecmaTable : List (Nat × String) :=
  [(0, "General"), (1, "0"), (2, "0.00"), (3, "#,##0"), (4, "#,##0.00"),
   (9, "0%"), (10, "0.00%"), (11, "0.00E+00"), (12, "# ?/?"), (13, "# ??/??"),
   (14, "mm-dd-yy"), (15, "d-mmm-yy"), (16, "d-mmm"), (17, "mmm-yy"),
   (18, "h:mm AM/PM"), (19, "h:mm:ss AM/PM"), (20, "h:mm"), (21, "h:mm:ss"), (22, "m/d/yy h:mm"),
   (37, "#,##0 ;(#,##0)"), (38, "#,##0 ;[Red](#,##0)"), (39, "#,##0.00;(#,##0.00)"), (40, "#,##0.00;[Red](#,##0.00)"),
   (45, "mm:ss"), (46, "[h]:mm:ss"), (47, "mmss.0"), (48, "##0.0E+0"), (49, "@")]

/-- the documented class of a built-in id: 14–22 and 45, 47 are date/time formats, 46 (`[h]:mm:ss`) is the
    elapsed-time format, every other id is not a date format -/
def documentedClass (id : Nat) : CellFormat :=
  if (14 ≤ id ∧ id ≤ 22) ∨ id = 45 ∨ id = 47 then .dateTime
  else if id = 46 then .timeDelta
  else .other

/-- decimal text of a style's `numFmtId` attribute as bytes (what the xlsx reader passes to the by-id table);
    `Nat.repr n = String.ofList (Nat.toDigits 10 n)` by definition -/
def decimal (n : Nat) : List UInt8 := (Nat.toDigits 10 n).map (fun c => UInt8.ofNat c.toNat)

end NumFmt
