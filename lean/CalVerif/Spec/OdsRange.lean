import CalVerif.Model.OdsRange
/-! Specification side of C04: the semantic expansion of a run-length encoded table (position ↦ value)
    and the tight bounding box of the non-default positions. Nothing here looks at `cells`/`cols`. -/

namespace OdsRange

variable {α : Type} [Inhabited α] [DecidableEq α]

/-- value at column `c` of a row given as runs `(value, count)` -/
def cellAt : List (α × Nat) → Nat → α
  | [], _ => default
  | (v, k) :: rest, c => if c < k then v else cellAt rest (c - k)

/-- the element covering index `r` in a list of runs `(count, x)` -/
def runAt {β : Type} : List (Nat × β) → Nat → Option β
  | [], _ => none
  | (k, x) :: rest, r => if r < k then some x else runAt rest (r - k)

/-- **semantic expansion**: the value the table stores at absolute position `(r, c)` -/
def expand (runs : List (RowRun α)) (r c : Nat) : α :=
  match runAt runs r with
  | none => default
  | some evs => cellAt evs c

/-- value at column `c` of a row of events with element kinds: an event of either kind — ordinary or
    *covered* — occupies `count` columns and stores its value in each of them -/
def cellAtK {ε : Type} (val : ε → α) : List (CellKind × ε × Nat) → Nat → α
  | [], _ => default
  | (_, e, k) :: rest, c => if c < k then val e else cellAtK val rest (c - k)

/-- semantic expansion of a table whose cell events carry their element kind (and a payload seen through `val`) -/
def expandK {ε : Type} (val : ε → α) (runs : List (RowRunK ε)) (r c : Nat) : α :=
  match runAt runs r with
  | none => default
  | some evs => cellAtK val evs c

/-- the run list seen through one component `val` of the cell payload (values, or formulas) -/
def runsOf {ε : Type} (val : ε → α) (runs : List (Nat × List (ε × Nat))) : List (RowRun α) :=
  runs.map fun r => (r.1, r.2.map fun x => (val x.1, x.2))

/-- the same for rows given by their explicit cells -/
def gridF (rows : List (Nat × List α)) (r c : Nat) : α :=
  match runAt rows r with
  | none => default
  | some cs => cs.getD c default

/-- `(r0, c0, r1, c1)` is the tight bounding rectangle of the non-default positions of `g` -/
structure IsBBox (g : Nat → Nat → α) (r0 c0 r1 c1 : Nat) : Prop where
  bound : ∀ r c, g r c ≠ default → r0 ≤ r ∧ r ≤ r1 ∧ c0 ≤ c ∧ c ≤ c1
  top : ∃ c, g r0 c ≠ default
  bottom : ∃ c, g r1 c ≠ default
  left : ∃ r, g r c0 ≠ default
  right : ∃ r, g r c1 ≠ default

/-! computable bounding box of a run list (used by the driver; never materialises a run) -/

/-- first and last column holding a non-default value in a row of runs, starting at column `c` -/
def rowSpan : List (α × Nat) → Nat → Option (Nat × Nat) → Option (Nat × Nat)
  | [], _, acc => acc
  | (v, k) :: rest, c, acc =>
    if v ≠ default ∧ k > 0 then
      rowSpan rest (c + k) (match acc with | none => some (c, c + k - 1) | some (a, _) => some (a, c + k - 1))
    else rowSpan rest (c + k) acc

/-- bounding box `(r0, c0, r1, c1)` of a run list, rows starting at `r` -/
def bboxFrom : List (RowRun α) → Nat → Option (Nat × Nat × Nat × Nat) → Option (Nat × Nat × Nat × Nat)
  | [], _, acc => acc
  | (k, evs) :: rest, r, acc =>
    match (if k > 0 then rowSpan evs 0 none else none) with
    | none => bboxFrom rest (r + k) acc
    | some (a, b) =>
      bboxFrom rest (r + k)
        (match acc with
         | none => some (r, a, r + k - 1, b)
         | some (r0, c0, _, c1) => some (r0, min c0 a, r + k - 1, max c1 b))

def bbox (runs : List (RowRun α)) : Option (Nat × Nat × Nat × Nat) := bboxFrom runs 0 none

end OdsRange
