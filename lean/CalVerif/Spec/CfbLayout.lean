import CalVerif.Model.Cfb
/-! Encoder of compound files: `layoutCfb streams L` lays the logical streams out physically as the
    layout `L` says. `L` is *data*: sector size, for every physical sector what it holds (`owner`),
    for every chain the list of its sector numbers (`chains`), where the FAT and DIFAT sectors are,
    the same for the mini stream, the order of the directory entries (with unused entries), the
    padding byte. `validB streams L` is the decidable side condition (the allocation tables are
    consistent with each other and with the stream sizes); it does not constrain the permutation,
    the fragmentation, the number of free sectors, of FAT sectors or of DIFAT sectors beyond what the
    format itself demands. Import-free (the driver generates the test files with it). -/

namespace Cfb

structure Stream where
  name : List Char
  data : Bytes
  deriving Repr

/-- what a physical sector (or mini sector) holds -/
inductive Slot where
  | free
  | fat (j : Nat)
  | difat (j : Nat)
  | data (c i : Nat)
  deriving DecidableEq, Repr

/-- an allocation in one sector space: `owner[k]` = content of sector `k`, `chains[c][i]` = sector
    number of the `i`-th sector of chain `c` (the two views must agree, see `chainOK`) -/
structure Space where
  owner : Array Slot
  chains : Array (Array Nat)
  deriving Repr

/-- main-space chain numbers: 0 directory, 1 mini FAT, 2 mini stream, `3 + s` stream `s`;
    mini-space chain numbers: `s` for stream `s` -/
structure Layout where
  v4 : Bool
  main : Space
  fatIds : Array Nat
  difIds : Array Nat
  mini : Space
  /-- directory entries after the root entry: `some s` = stream `s`, `none` = unused entry -/
  dirOrder : List (Option Nat)
  fill : UInt8
  deriving Repr

/-! ## little-endian writers -/

def le16 (v : Nat) : Bytes := [UInt8.ofNat (v % 256), UInt8.ofNat (v / 256 % 256)]
def le32 (v : Nat) : Bytes :=
  [UInt8.ofNat (v % 256), UInt8.ofNat (v / 256 % 256), UInt8.ofNat (v / 65536 % 256), UInt8.ofNat (v / 16777216 % 256)]
def le64 (v : Nat) : Bytes := le32 (v % 4294967296) ++ le32 (v / 4294967296)
def le32s (vs : List Nat) : Bytes := vs.flatMap le32
def le16s (vs : List Nat) : Bytes := vs.flatMap le16

/-! ## sizes -/

def Layout.ss (L : Layout) : Nat := if L.v4 then 4096 else 512
def Layout.perFat (L : Layout) : Nat := L.ss / 4
def Layout.total (L : Layout) : Nat := L.main.owner.size
def Layout.mtotal (L : Layout) : Nat := L.mini.owner.size
def Layout.nfat (L : Layout) : Nat := L.fatIds.size
def Layout.ndif (L : Layout) : Nat := L.difIds.size

def nsect (ss len : Nat) : Nat := (len + ss - 1) / ss

/-- cut `d` into `ss`-byte pieces, the last one padded with `fill` (`fuel ≥ d.length` suffices) -/
def padChunks (ss : Nat) (fill : UInt8) : Nat → Bytes → List Bytes
  | 0, _ => []
  | f + 1, d =>
    if d = [] then []
    else ((d.take ss) ++ List.replicate (ss - (d.take ss).length) fill) :: padChunks ss fill f (d.drop ss)

def pieces (ss : Nat) (fill : UInt8) (d : Bytes) : Array Bytes := (padChunks ss fill d.length d).toArray

/-! ## allocation tables -/

/-- the FAT entry of a sector holding `slot` -/
def fatEntry (chains : Array (Array Nat)) : Slot → Nat
  | .free => FREESECT
  | .fat _ => FATSECT
  | .difat _ => DIFSECT
  | .data c i => match chains[c]? with
    | some ch => ch[i + 1]?.getD ENDOFCHAIN
    | none => ENDOFCHAIN

/-- FAT entry number `k` of a space (entries beyond the last sector are free) -/
def Space.entry (sp : Space) (k : Nat) : Nat :=
  match sp.owner[k]? with
  | some s => fatEntry sp.chains s
  | none => FREESECT

/-- content of a sector holding `slot` -/
def sectorOf (ss : Nat) (fill : UInt8) (P : Array (Array Bytes)) (fatSec difSec : Nat → Bytes) : Slot → Bytes
  | .free => List.replicate ss fill
  | .fat j => fatSec j
  | .difat j => difSec j
  | .data c i => match P[c]? with
    | some p => p[i]?.getD (List.replicate ss fill)
    | none => List.replicate ss fill

/-- all sectors of a space, in physical order -/
def Space.body (sp : Space) (ss : Nat) (fill : UInt8) (P : Array (Array Bytes)) (fatSec difSec : Nat → Bytes) : Bytes :=
  (sp.owner.toList.map (sectorOf ss fill P fatSec difSec)).flatten

/-! ## mini stream -/

def isMini (s : Stream) : Bool := s.data.length < 4096

/-- mini-space chain data: stream `s` if it is shorter than 4096 bytes -/
def miniPieces (streams : List Stream) (L : Layout) : Array (Array Bytes) :=
  (streams.map fun s => if isMini s then pieces 64 L.fill s.data else #[]).toArray

def miniBody (streams : List Stream) (L : Layout) : Bytes :=
  L.mini.body 64 L.fill (miniPieces streams L) (fun _ => List.replicate 64 L.fill) (fun _ => List.replicate 64 L.fill)

/-- the mini FAT, padded with free entries to whole sectors -/
def miniFatTable (L : Layout) : List Nat :=
  let n := L.mtotal
  (List.range (nsect L.perFat n * L.perFat)).map L.mini.entry

/-! ## directory -/

def utf16Units : List Char → List Nat
  | [] => []
  | c :: cs =>
    if c.toNat < 0x10000 then c.toNat :: utf16Units cs
    else (0xD800 + (c.toNat - 0x10000) / 0x400) :: (0xDC00 + (c.toNat - 0x10000) % 0x400) :: utf16Units cs

/-- a 128-byte directory entry (`typ`: 5 root storage, 2 stream); the tree links are `FREESECT`
    (calamine never reads them) -/
def dirEntry (name : List Char) (typ : UInt8) (start size : Nat) : Bytes :=
  let nb := le16s (utf16Units name)
  nb ++ List.replicate (64 - nb.length) 0 ++ le16 (nb.length + 2) ++ [typ, 1] ++
    le32 FREESECT ++ le32 FREESECT ++ le32 FREESECT ++ List.replicate 36 0 ++ le32 start ++ le64 size

def unusedEntry : Bytes :=
  List.replicate 68 (0 : UInt8) ++ le32 FREESECT ++ le32 FREESECT ++ le32 FREESECT ++ List.replicate 48 0

def rootName : List Char := "Root Entry".toList

def chainStart (sp : Space) (c : Nat) : Nat :=
  match sp.chains[c]? with
  | some ch => ch[0]?.getD ENDOFCHAIN
  | none => ENDOFCHAIN

/-- number of sectors of chain `c` -/
def chainLen (sp : Space) (c : Nat) : Nat :=
  match sp.chains[c]? with
  | some ch => ch.size
  | none => 0

def streamEntry (streams : List Stream) (L : Layout) (s : Nat) : Bytes :=
  match streams[s]? with
  | some st =>
    dirEntry st.name 2 (if isMini st then chainStart L.mini s else chainStart L.main (3 + s)) st.data.length
  | none => unusedEntry

def slotEntry (streams : List Stream) (L : Layout) : Option Nat → Bytes
  | some s => streamEntry streams L s
  | none => unusedEntry

def dirEntries (streams : List Stream) (L : Layout) : List Bytes :=
  let es := dirEntry rootName 5 (chainStart L.main 2) (64 * L.mtotal) :: L.dirOrder.map (slotEntry streams L)
  let per := L.ss / 128
  es ++ List.replicate (nsect per es.length * per - es.length) unusedEntry

def dirBytes (streams : List Stream) (L : Layout) : Bytes := (dirEntries streams L).flatten

/-! ## main space -/

def mainData (streams : List Stream) (L : Layout) : List Bytes :=
  dirBytes streams L :: le32s (miniFatTable L) :: miniBody streams L ::
    streams.map fun s => if isMini s then [] else s.data

def mainPieces (streams : List Stream) (L : Layout) : Array (Array Bytes) :=
  ((mainData streams L).map (pieces L.ss L.fill)).toArray

/-- FAT sector `j`: entries `j*perFat … (j+1)*perFat - 1` -/
def fatSector (L : Layout) (j : Nat) : Bytes :=
  le32s ((List.range' (j * L.perFat) L.perFat).map L.main.entry)

def fatIdAt (L : Layout) (t : Nat) : Nat := L.fatIds[t]?.getD FREESECT

/-- DIFAT sector `j`: `perFat - 1` FAT sector ids, then the id of the next DIFAT sector -/
def difSector (L : Layout) (j : Nat) : Bytes :=
  le32s ((List.range' (109 + j * (L.perFat - 1)) (L.perFat - 1)).map (fatIdAt L) ++
    [L.difIds[j + 1]?.getD ENDOFCHAIN])

def mainBody (streams : List Stream) (L : Layout) : Bytes :=
  L.main.body L.ss L.fill (mainPieces streams L) (fatSector L) (difSector L)

/-! ## header -/

def header512 (streams : List Stream) (L : Layout) : Bytes :=
  signature ++ List.replicate 16 (0 : UInt8) ++
    le16 0x3E ++ le16 (if L.v4 then 4 else 3) ++ le16 0xFFFE ++ le16 (if L.v4 then 12 else 9) ++ le16 6 ++
    List.replicate 6 (0 : UInt8) ++
    le32s [ (if L.v4 then nsect L.ss (dirBytes streams L).length else 0),
            L.nfat,
            chainStart L.main 0,
            0,
            4096,
            chainStart L.main 1,
            chainLen L.main 1,
            L.difIds[0]?.getD ENDOFCHAIN,
            L.ndif ] ++
    le32s ((List.range 109).map (fatIdAt L))

/-- the compound file -/
def layoutCfb (streams : List Stream) (L : Layout) : Bytes :=
  header512 streams L ++ List.replicate (L.ss - 512) (0 : UInt8) ++ mainBody streams L

/-! ## validity of a layout -/

/-- chain `c` of the space has `n` sectors and the two views agree on them -/
def chainOK (sp : Space) (c n : Nat) : Bool :=
  match sp.chains[c]? with
  | none => false
  | some ch => ch.size == n &&
    (List.range n).all fun i => match ch[i]? with
      | some k => sp.owner[k]? == some (Slot.data c i)
      | none => false

def idsOK (owner : Array Slot) (ids : Array Nat) (mk : Nat → Slot) : Bool :=
  (List.range ids.size).all fun j => match ids[j]? with
    | some k => owner[k]? == some (mk j)
    | none => false

/-- the name fits the 64-byte field (at most 31 UTF-16 units and a terminator), is not empty and has no NUL -/
def nameEncOK (name : List Char) : Bool :=
  let u := utf16Units name
  0 < u.length && u.length ≤ 31 && !(name.contains (Char.ofNat 0))

/-- a stream may have any encodable name, `Root Entry` included: the root entry is not a stream entry -/
def nameOK (name : List Char) : Bool := nameEncOK name

def validB (streams : List Stream) (L : Layout) : Bool :=
  let n := streams.length
  let md := mainData streams L
  -- sizes
  L.total ≤ RESERVED && L.total ≤ L.nfat * L.perFat && 64 * L.mtotal < 4294967296 &&
  L.nfat ≤ 109 + L.ndif * (L.perFat - 1) &&
  -- FAT and DIFAT sectors
  idsOK L.main.owner L.fatIds Slot.fat && idsOK L.main.owner L.difIds Slot.difat &&
  -- chains of the main space
  L.main.chains.size == 3 + n &&
  (List.range (3 + n)).all (fun c => chainOK L.main c (nsect L.ss (md.getD c []).length)) &&
  -- chains of the mini space
  L.mini.chains.size == n &&
  (List.range n).all (fun s => chainOK L.mini s
    (match streams[s]? with | some st => if isMini st then nsect 64 st.data.length else 0 | none => 0)) &&
  -- directory: every stream has an entry, every entry names a stream
  (List.range n).all (fun s => L.dirOrder.contains (some s)) &&
  L.dirOrder.all (fun o => match o with | some s => s < n | none => true) &&
  -- names and sizes
  streams.all (fun s => nameOK s.name && (L.v4 || s.data.length < 4294967296)) &&
  decide ((streams.map (·.name)).Nodup)

def Valid (streams : List Stream) (L : Layout) : Prop := validB streams L = true

instance (streams : List Stream) (L : Layout) : Decidable (Valid streams L) := by
  unfold Valid; infer_instance

end Cfb
