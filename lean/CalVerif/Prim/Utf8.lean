/-! UTF-8 between the byte strings of the XML event models (`List Nat`, one `Nat` < 256 per byte) and
    the character lists of the formula models (`List Char`): what Rust's `str::from_utf8` (inside
    quick-xml's `unescape`) and `String::into_bytes` do. The decoder is strict (RFC 3629: shortest
    form, no surrogates, ≤ U+10FFFF). `utf8Decode (utf8Encode l) = some l` is proved below. -/

namespace Utf8

/-- the bytes of one scalar value -/
def encodeNat (n : Nat) : List Nat :=
  if n < 0x80 then [n]
  else if n < 0x800 then [0xC0 + n / 64, 0x80 + n % 64]
  else if n < 0x10000 then [0xE0 + n / 4096, 0x80 + n / 64 % 64, 0x80 + n % 64]
  else [0xF0 + n / 262144, 0x80 + n / 4096 % 64, 0x80 + n / 64 % 64, 0x80 + n % 64]

def utf8Encode (l : List Char) : List Nat := l.flatMap fun c => encodeNat c.toNat

def isCont (b : Nat) : Bool := 0x80 ≤ b && b ≤ 0xBF

def validScalar (n : Nat) : Bool := n < 0xD800 || (0xE000 ≤ n && n < 0x110000)

/-- strict decoder with an explicit budget (`fuel = length` always suffices) -/
def decodeAux : Nat → List Nat → Option (List Char)
  | _, [] => some []
  | 0, _ :: _ => none
  | f + 1, b0 :: rest =>
    if b0 < 0x80 then (decodeAux f rest).map (Char.ofNat b0 :: ·)
    else if 0xC2 ≤ b0 ∧ b0 ≤ 0xDF then
      match rest with
      | b1 :: rest' =>
        if isCont b1 then (decodeAux f rest').map (Char.ofNat ((b0 - 0xC0) * 64 + (b1 - 0x80)) :: ·) else none
      | _ => none
    else if 0xE0 ≤ b0 ∧ b0 ≤ 0xEF then
      match rest with
      | b1 :: b2 :: rest' =>
        let n := (b0 - 0xE0) * 4096 + (b1 - 0x80) * 64 + (b2 - 0x80)
        if isCont b1 && isCont b2 && decide (0x800 ≤ n) && validScalar n then (decodeAux f rest').map (Char.ofNat n :: ·) else none
      | _ => none
    else if 0xF0 ≤ b0 ∧ b0 ≤ 0xF4 then
      match rest with
      | b1 :: b2 :: b3 :: rest' =>
        let n := (b0 - 0xF0) * 262144 + (b1 - 0x80) * 4096 + (b2 - 0x80) * 64 + (b3 - 0x80)
        if isCont b1 && isCont b2 && isCont b3 && decide (0x10000 ≤ n) && decide (n < 0x110000) then (decodeAux f rest').map (Char.ofNat n :: ·) else none
      | _ => none
    else none

def utf8Decode (bs : List Nat) : Option (List Char) := decodeAux bs.length bs

theorem char_valid (c : Char) : c.toNat < 0xD800 ∨ (0xE000 ≤ c.toNat ∧ c.toNat < 0x110000) := by
  have h := c.valid
  simp only [UInt32.isValidChar, Nat.isValidChar] at h
  have e : c.toNat = c.val.toNat := rfl
  rw [e]; omega

theorem encodeNat_length (n : Nat) : 1 ≤ (encodeNat n).length := by
  unfold encodeNat; split <;> (try split) <;> (try split) <;> simp

/-- decoding the encoding of a character followed by anything -/
theorem decodeAux_encode_cons (c : Char) (rest : List Nat) (f : Nat) :
    decodeAux (f + 1) (encodeNat c.toNat ++ rest) = (decodeAux f rest).map (c :: ·) := by
  have hv := char_valid c
  have hc : Char.ofNat c.toNat = c := Char.ofNat_toNat c
  unfold encodeNat
  by_cases h1 : c.toNat < 0x80
  · rw [if_pos h1]
    simp only [List.cons_append, List.nil_append, decodeAux, if_pos h1, hc]
  · rw [if_neg h1]
    by_cases h2 : c.toNat < 0x800
    · rw [if_pos h2]
      have a1 : ¬ (0xC0 + c.toNat / 64 < 0x80) := by omega
      have a2 : 0xC2 ≤ 0xC0 + c.toNat / 64 ∧ 0xC0 + c.toNat / 64 ≤ 0xDF := by omega
      have a3 : isCont (0x80 + c.toNat % 64) = true := by simp [isCont]; omega
      have a4 : (0xC0 + c.toNat / 64 - 0xC0) * 64 + (0x80 + c.toNat % 64 - 0x80) = c.toNat := by omega
      simp only [List.cons_append, List.nil_append, decodeAux, if_neg a1, if_pos a2, a3, if_true, a4, hc]
    · rw [if_neg h2]
      by_cases h3 : c.toNat < 0x10000
      · rw [if_pos h3]
        have a1 : ¬ (0xE0 + c.toNat / 4096 < 0x80) := by omega
        have a2 : ¬ (0xC2 ≤ 0xE0 + c.toNat / 4096 ∧ 0xE0 + c.toNat / 4096 ≤ 0xDF) := by omega
        have a3 : 0xE0 ≤ 0xE0 + c.toNat / 4096 ∧ 0xE0 + c.toNat / 4096 ≤ 0xEF := by omega
        have b1 : isCont (0x80 + c.toNat / 64 % 64) = true := by simp [isCont]; omega
        have b2 : isCont (0x80 + c.toNat % 64) = true := by simp [isCont]; omega
        have a4 : (0xE0 + c.toNat / 4096 - 0xE0) * 4096 + (0x80 + c.toNat / 64 % 64 - 0x80) * 64 + (0x80 + c.toNat % 64 - 0x80) = c.toNat := by omega
        have a5 : validScalar c.toNat = true := by simp [validScalar]; omega
        have a6 : decide (0x800 ≤ c.toNat) = true := by simp; omega
        simp only [List.cons_append, List.nil_append, decodeAux, if_neg a1, if_neg a2, if_pos a3, a4, b1, b2, a5, a6,
          Bool.and_self, if_true, hc]
      · rw [if_neg h3]
        have a1 : ¬ (0xF0 + c.toNat / 262144 < 0x80) := by omega
        have a2 : ¬ (0xC2 ≤ 0xF0 + c.toNat / 262144 ∧ 0xF0 + c.toNat / 262144 ≤ 0xDF) := by omega
        have a3 : ¬ (0xE0 ≤ 0xF0 + c.toNat / 262144 ∧ 0xF0 + c.toNat / 262144 ≤ 0xEF) := by omega
        have a3' : 0xF0 ≤ 0xF0 + c.toNat / 262144 ∧ 0xF0 + c.toNat / 262144 ≤ 0xF4 := by omega
        have b1 : isCont (0x80 + c.toNat / 4096 % 64) = true := by simp [isCont]; omega
        have b2 : isCont (0x80 + c.toNat / 64 % 64) = true := by simp [isCont]; omega
        have b3 : isCont (0x80 + c.toNat % 64) = true := by simp [isCont]; omega
        have a4 : (0xF0 + c.toNat / 262144 - 0xF0) * 262144 + (0x80 + c.toNat / 4096 % 64 - 0x80) * 4096
            + (0x80 + c.toNat / 64 % 64 - 0x80) * 64 + (0x80 + c.toNat % 64 - 0x80) = c.toNat := by omega
        have a5 : decide (0x10000 ≤ c.toNat) = true := by simp; omega
        have a6 : decide (c.toNat < 0x110000) = true := by simp; omega
        simp only [List.cons_append, List.nil_append, decodeAux, if_neg a1, if_neg a2, if_neg a3, if_pos a3', a4, b1, b2, b3,
          a5, a6, Bool.and_self, if_true, hc]

theorem decodeAux_encode (l : List Char) : ∀ f, l.length ≤ f → decodeAux f (utf8Encode l) = some l := by
  induction l with
  | nil => intro f _; cases f <;> rfl
  | cons c cs ih =>
    intro f hf
    obtain ⟨f', rfl⟩ : ∃ f', f = f' + 1 := ⟨f - 1, by simp only [List.length_cons] at hf; omega⟩
    have : utf8Encode (c :: cs) = encodeNat c.toNat ++ utf8Encode cs := by simp [utf8Encode]
    rw [this, decodeAux_encode_cons, ih f' (by simp only [List.length_cons] at hf; omega)]
    rfl

theorem length_le_encode (l : List Char) : l.length ≤ (utf8Encode l).length := by
  induction l with
  | nil => simp [utf8Encode]
  | cons c cs ih =>
    have : utf8Encode (c :: cs) = encodeNat c.toNat ++ utf8Encode cs := by simp [utf8Encode]
    rw [this, List.length_append, List.length_cons]
    have := encodeNat_length c.toNat
    omega

/-- decoding inverts encoding -/
theorem utf8Decode_encode (l : List Char) : utf8Decode (utf8Encode l) = some l :=
  decodeAux_encode l _ (length_le_encode l)

def sample : String := String.ofList ['a', 'é', '日', '😀', Char.ofNat 0x7ff, Char.ofNat 0x800, Char.ofNat 0xffff, Char.ofNat 0x10000]
#guard utf8Encode sample.toList == sample.toUTF8.toList.map (·.toNat)
#guard utf8Decode [0xC0, 0x80] == none && utf8Decode [0xED, 0xA0, 0x80] == none && utf8Decode [0xF4, 0x90, 0x80, 0x80] == none
#guard utf8Decode [0xE2, 0x82] == none && utf8Decode [0x80] == none && utf8Decode [0x41, 0xC3, 0xA9] == some ['A', 'é']

end Utf8
