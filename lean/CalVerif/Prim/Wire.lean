/-! Line-protocol helpers for the drivers (hex, number parsing, main loop). Import-free. -/

namespace Wire

def hexDigit (n : Nat) : Char :=
  if n < 10 then Char.ofNat (48 + n) else Char.ofNat (87 + n)

def hexByte (b : UInt8) : String :=
  String.ofList [hexDigit (b.toNat / 16), hexDigit (b.toNat % 16)]

def hexOfBytes (bs : List UInt8) : String :=
  String.ofList (bs.foldr (fun b acc => hexDigit (b.toNat / 16) :: hexDigit (b.toNat % 16) :: acc) [])

def hexOfArray (bs : ByteArray) : String := hexOfBytes bs.toList

def hexVal (c : Char) : Option Nat :=
  if '0' ≤ c ∧ c ≤ '9' then some (c.toNat - 48)
  else if 'a' ≤ c ∧ c ≤ 'f' then some (c.toNat - 87)
  else if 'A' ≤ c ∧ c ≤ 'F' then some (c.toNat - 55)
  else none

def bytesOfHexAux : List Char → List UInt8 → Option (List UInt8)
  | [], acc => some acc.reverse
  | [_], _ => none
  | a :: b :: rest, acc =>
    match hexVal a, hexVal b with
    | some x, some y => bytesOfHexAux rest (UInt8.ofNat (x * 16 + y) :: acc)
    | _, _ => none

/-- "-" encodes the empty byte string -/
def bytesOfHex (s : String) : Option (List UInt8) :=
  if s = "-" then some [] else bytesOfHexAux s.toList []

def hexOrDash (bs : List UInt8) : String := if bs.isEmpty then "-" else hexOfBytes bs

def words (line : String) : List String :=
  (line.trimAscii.toString.splitOn " ").filter (· ≠ "")

def nat? (s : String) : Option Nat := s.toNat?
def int? (s : String) : Option Int := s.toInt?

def joinSp (l : List String) : String := " ".intercalate l

/-- generic driver loop: one reply line per request line, flushed -/
partial def loop (h : IO.FS.Stream) (out : IO.FS.Stream) (f : String → String) : IO Unit := do
  let line ← h.getLine
  if line.isEmpty then return ()
  out.putStrLn (f line)
  out.flush
  loop h out f

partial def loopState {σ : Type} (h : IO.FS.Stream) (out : IO.FS.Stream) (f : σ → String → σ × String) (s : σ) : IO Unit := do
  let line ← h.getLine
  if line.isEmpty then return ()
  let (s', r) := f s line
  out.putStrLn r
  out.flush
  loopState h out f s'

def run (f : String → String) : IO Unit := do
  loop (← IO.getStdin) (← IO.getStdout) f

end Wire
