/-! Outcome type shared by every model: what a Rust call can do.
    `ok a`      – returned normally (for `Result`-returning code: `Ok`)
    `err e`     – returned `Err(e)` (e is a small error-class tag)
    `panic s`   – unwound (index out of bounds, assert!, overflow under overflow-checks, unwrap on None)
    `outOfFuel` – the model's loop budget ran out (only fuel-taking loops can produce it) -/

inductive Res (α : Type) where
  | ok : α → Res α
  | err : String → Res α
  | panic : String → Res α
  | outOfFuel : Res α
  deriving Repr, DecidableEq

namespace Res

@[inline] def bind {α β : Type} (x : Res α) (f : α → Res β) : Res β :=
  match x with
  | ok a => f a
  | err e => err e
  | panic s => panic s
  | outOfFuel => outOfFuel

instance : Monad Res where
  pure := ok
  bind := bind

@[simp] theorem bind_ok {α β : Type} (a : α) (f : α → Res β) : (ok a >>= f) = f a := rfl
@[simp] theorem bind_err {α β : Type} (e : String) (f : α → Res β) : ((err e : Res α) >>= f) = err e := rfl
@[simp] theorem bind_panic {α β : Type} (e : String) (f : α → Res β) : ((panic e : Res α) >>= f) = panic e := rfl
@[simp] theorem bind_fuel {α β : Type} (f : α → Res β) : ((outOfFuel : Res α) >>= f) = outOfFuel := rfl
@[simp] theorem pure_eq {α : Type} (a : α) : (pure a : Res α) = ok a := rfl

def isOk {α : Type} : Res α → Bool
  | ok _ => true
  | _ => false

/-- canonical outcome class used on the wire -/
def tag {α : Type} : Res α → String
  | ok _ => "ok"
  | err e => "err:" ++ e
  | panic _ => "panic"
  | outOfFuel => "fuel"

end Res
