import CalVerif.Model.Geometry
import CalVerif.Model.Biff
/-! Workbook level of the xls merged regions (property C17): the per-sheet loop of `parse_workbook`
    (`/repo/src/xls.rs`) as far as `merge_cells` goes, the `BTreeMap<String, SheetData>` it fills and
    `Xls::worksheet_merge_cells`.

    The sheet list `(lbPlyPos, name)` is what the globals loop collected from the BoundSheet8 records (modelled by
    C16, `Model/Metadata.lean`); the records of a substream come from `RecordIter`, i.e. `BiffCells.items`
    (framing `Biff.nextRecord` of C12, lazy: nothing after the EOF record is looked at). Only the MERGEDCELLS and EOF
    arms are modelled: the other arms (cell records, C02's `BiffCells.step`) do not touch `merge_cells`; an `Err`
    of theirs ends `Xls::new`, which this function does not show. -/

namespace Geometry

/-- the MERGEDCELLS / EOF arms of the sheet loop over the `RecordIter` items of the substream -/
def sheetMergeItems : List BiffCells.Item → Res (List Rect)
  | [] => .ok []
  | .fail e :: _ => BiffCells.failAs e
  | .record r :: rest =>
    if r.typ = 0x000A then .ok []
    else if r.typ = 0x00E5 then
      match parseMergeCells r.data with
      | .ok ds =>
        match sheetMergeItems rest with
        | .ok more => .ok (ds ++ more)
        | .err e => .err e | .panic e => .panic e | .outOfFuel => .outOfFuel
      | .err e => .err e | .panic e => .panic e | .outOfFuel => .outOfFuel
    else sheetMergeItems rest

/-- `BTreeMap::insert`: the entry of an equal key is replaced -/
def mapInsert {κ : Type} [DecidableEq κ] (m : List (κ × List Rect)) (k : κ) (v : List Rect) : List (κ × List Rect) :=
  m.filter (fun e => e.1 ≠ k) ++ [(k, v)]

/-- `for (pos, name) in sheet_names { let sh = stream.get(pos..).ok_or(EoStream)?; … sheets.insert(name, …) }` -/
def xlsSheetsMerges {κ : Type} [DecidableEq κ] (stream : Bytes) :
    List (Nat × κ) → List (κ × List Rect) → Res (List (κ × List Rect))
  | [], acc => .ok acc
  | (pos, name) :: rest, acc =>
    if stream.length < pos then .err "EoStream:sheet substream offset"
    else
      match sheetMergeItems (BiffCells.items (stream.drop pos)) with
      | .ok ds => xlsSheetsMerges stream rest (mapInsert acc name ds)
      | .err e => .err e | .panic e => .panic e | .outOfFuel => .outOfFuel

/-- `Xls::worksheet_merge_cells(name)`: `self.sheets.get(name).map(|r| r.merge_cells.clone())` -/
def xlsWorksheetMergeCells {κ : Type} [DecidableEq κ] (m : List (κ × List Rect)) (name : κ) : Option (List Rect) :=
  (m.find? (fun e => e.1 = name)).map (·.2)

end Geometry
