import CalVerif.Prim.Res
import CalVerif.Prim.Utf8
/-! Model of `read_relationships` — the reader of an OPC relationships part (`xl/_rels/workbook.bin.rels`,
    `xl/_rels/workbook.xml.rels`) — over the XML events quick-xml delivers. One definition, parameterised by the
    three points in which `src/xlsb/mod.rs read_relationships` and `src/xlsx/mod.rs read_relationships` differ
    (`Cfg`). The tokeniser (quick-xml: events, attribute splitting, its duplicate-attribute check) and the zip
    container are not modelled: a malformed document is the event `err`, a malformed attribute is `none` in the
    attribute list. Names and attribute values are byte strings (`List Nat`, one number < 256 per byte); neither
    reader unescapes attribute values; the `Target` value must be valid UTF-8 (`xml.decoder().decode(..)`).

    The result lists the relationships latest first, so that `List.lookup` is `BTreeMap::get` after the inserts
    (a later relationship with the same id overwrites an earlier one). -/

namespace Rels

abbrev B := List Nat

/-- quick-xml `local_name()`: the part behind the first `:` (the whole name without one) -/
def localName (n : B) : B :=
  match n.dropWhile (· ≠ 58) with
  | [] => n
  | _ :: r => r

inductive Ev where
  /-- `Event::Start` (also for `<x/>`: both readers set `expand_empty_elements`): qualified name, attributes
      in document order (`none` = `Err` from the attribute iterator) -/
  | start (name : B) (attrs : List (Option (B × B)))
  | end_ (name : B)
  /-- text, comments, declarations, processing instructions … -/
  | other
  | eof
  /-- `Err(e)` from `read_event_into` -/
  | err
  deriving Repr, DecidableEq

structure Cfg where
  /-- `e.local_name() == b"Relationship"` (both readers now); `false`: `e.name() == QName(b"Relationship")` -/
  matchLocal : Bool
  /-- xlsb: the pair is inserted only when both `Id` and `Target` were seen; xlsx: inserted always, a missing
      attribute reads as empty -/
  needBoth : Bool
  /-- xlsx: `id.extend_from_slice(&v)` (a second `Id` appends); xlsb: `id = Some(v.to_vec())` (replaces) -/
  appendId : Bool
  /-- xlsx: `End(local name Relationships)` ends the loop and `Eof` is `Err(XmlEof)`; xlsb: reads to `Eof` -/
  stopAtEnd : Bool
  deriving Repr

/-- (xlsb matched the qualified name until `fix: xlsb relationships under a namespace prefix were ignored`) -/
def xlsbCfg : Cfg := ⟨true, true, false, false⟩
def xlsxCfg : Cfg := ⟨true, false, true, true⟩

/-- "Relationship", "Relationships", "Id", "Target" -/
def nmRelationship : B := [82, 101, 108, 97, 116, 105, 111, 110, 115, 104, 105, 112]
def nmRelationships : B := nmRelationship ++ [115]
def nmId : B := [73, 100]
def nmTarget : B := [84, 97, 114, 103, 101, 116]

def isRel (cfg : Cfg) (name : B) : Bool :=
  if cfg.matchLocal then localName name == nmRelationship else name == nmRelationship

/-- the `for a in e.attributes()` loop: `(id, target)` seen so far -/
def attrsStep (cfg : Cfg) : List (Option (B × B)) → Option B × Option B → Res (Option B × Option B)
  | [], acc => .ok acc
  | none :: _, _ => .err "XmlAttr"
  | some (k, v) :: rest, (id, tg) =>
    if k = nmId then
      attrsStep cfg rest (some (if cfg.appendId then id.getD [] ++ v else v), tg)
    else if k = nmTarget then
      if (Utf8.utf8Decode v).isSome then attrsStep cfg rest (id, some v) else .err "Encoding"
    else attrsStep cfg rest (id, tg)

/-- the event loop; `acc` = the map so far, latest insert first -/
def readRelsGo (cfg : Cfg) : List Ev → List (B × B) → Res (List (B × B))
  | [], acc => if cfg.stopAtEnd then .err "XmlEof" else .ok acc
  | .eof :: _, acc => if cfg.stopAtEnd then .err "XmlEof" else .ok acc
  | .err :: _, _ => .err "Xml"
  | .other :: rest, acc => readRelsGo cfg rest acc
  | .end_ n :: rest, acc =>
    if cfg.stopAtEnd && localName n == nmRelationships then .ok acc else readRelsGo cfg rest acc
  | .start n attrs :: rest, acc =>
    if isRel cfg n then
      match attrsStep cfg attrs (none, none) with
      | .ok (id, tg) =>
        if cfg.needBoth then
          match id, tg with
          | some i, some t => readRelsGo cfg rest ((i, t) :: acc)
          | _, _ => readRelsGo cfg rest acc
        else readRelsGo cfg rest ((id.getD [], tg.getD []) :: acc)
      | .err e => .err e
      | .panic s => .panic s
      | .outOfFuel => .outOfFuel
    else readRelsGo cfg rest acc

/-- `read_relationships`: id bytes ↦ target bytes (`List.lookup` = `BTreeMap::get`) -/
def readRels (cfg : Cfg) (evs : List Ev) : Res (List (B × B)) := readRelsGo cfg evs []

end Rels
