/-! Model of how the ODS reader (`/repo/src/ods.rs`, `read_table` / `read_row` after fix ddcfda3) turns the value of
    `table:number-rows-repeated` / `table:number-columns-repeated` into a count:
    `decode_and_unescape_value(..)?.trim().parse()` — into a `usize` for the rows, into an `i32` for the columns.

    The input is the attribute value AFTER unescaping (entity / character references are resolved by quick-xml,
    trusted) as a list of characters. `none` = `Err(ParseInt)`. -/
namespace OdsCount

/-- `char::is_whitespace` (Unicode `White_Space`), what `str::trim` removes -/
def isWs (c : Char) : Bool :=
  let n := c.toNat
  (9 ≤ n && n ≤ 13) || n = 32 || n = 0x85 || n = 0xA0 || n = 0x1680 || (0x2000 ≤ n && n ≤ 0x200A) ||
  n = 0x2028 || n = 0x2029 || n = 0x202F || n = 0x205F || n = 0x3000

/-- `str::trim` -/
def trim (l : List Char) : List Char := ((l.dropWhile isWs).reverse.dropWhile isWs).reverse

def digitVal (c : Char) : Option Nat := if 48 ≤ c.toNat ∧ c.toNat ≤ 57 then some (c.toNat - 48) else none

/-- the digit loop of `usize::from_str`: most significant digit first; any other character is `InvalidDigit` -/
def parseDigits : List Char → Nat → Option Nat
  | [], acc => some acc
  | c :: r, acc =>
    match digitVal c with
    | some d => parseDigits r (acc * 10 + d)
    | none => none

def USIZE : Nat := 18446744073709551616

/-- one optional leading `+` -/
def stripPlus : List Char → List Char
  | '+' :: r => r
  | t => t

/-- `s.trim().parse::<usize>()`: one optional leading `+`, at least one digit, digits only, value below 2^64 -/
def parseCount (l : List Char) : Option Nat :=
  let d := stripPlus (trim l)
  if d = [] then none
  else match parseDigits d 0 with
    | some v => if v < USIZE then some v else none
    | none => none

/-- The COLUMN count is lexed into an `i32`: in `read_row` the variable `repeats` (and `empty_col_repeats`) is only ever
    compared with integer literals and used as a range bound, so its type defaults to `i32`; `…trim().parse::<i32>()`
    takes an optional `+` or `-`, digits, and the range −2^31 … 2^31−1. A negative count repeats nothing (`0..repeats`). -/
def parseColCount (l : List Char) : Option Int :=
  let t := trim l
  if t.head? = some '-' then
    let d := t.drop 1
    if d = [] then none
    else match parseDigits d 0 with
      | some v => if v ≤ 2147483648 then some (-(v : Int)) else none
      | none => none
  else
    let d := stripPlus t
    if d = [] then none
    else match parseDigits d 0 with
      | some v => if v < 2147483648 then some (v : Int) else none
      | none => none

end OdsCount
