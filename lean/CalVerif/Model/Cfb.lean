import CalVerif.Prim.Res
/-! Model of the compound-file reader `/repo/src/cfb.rs` (after the fixes D25, D29 and the follow-ups:
    total `to_u32`, names without BOM sniffing, whole DIFAT sectors, chains / DIFAT walk / FAT bounded by the bytes
    actually read — not by the caller's `len`, which is a capacity hint only):
    `Header::from_reader`, the DIFAT loop and the FAT loading of `Cfb::new`, `Sectors::get`,
    `Sectors::get_chain`, `Directory::from_slice`, `Cfb::new`, `Cfb::has_directory`, `Cfb::get_stream`.

    Conventions
    * a file / a reader is a `List UInt8`; the `Read` object is modelled by the list of bytes that
      are still unread (`rd`), every function that reads returns the new remainder;
    * `&mut self` becomes state passing (`Sectors`, `CfbSt`);
    * `u32`/`usize` values are `Nat` (no arithmetic of the modelled code can overflow on a 64-bit
      target: sector ids are `< 2^32`, sector sizes `≤ 4096`);
    * error classes: `io` (`CfbError::Io`, including the "invalid or cyclic chain" errors),
      `ole`, `invalid`, `emptyroot`, `notfound`;
    * `panic` marks the places where Rust code can unwind: only the slice indexing of
      `Directory::from_slice` is left, unreachable since the directory is cut with
      `chunks_exact(128)` (kept because the function has it; `new_no_panic` proves unreachability). -/

namespace Cfb

abbrev Bytes := List UInt8

def RESERVED : Nat := 0xFFFFFFFA
def DIFSECT : Nat := 0xFFFFFFFC
def FATSECT : Nat := 0xFFFFFFFD
def ENDOFCHAIN : Nat := 0xFFFFFFFE
def FREESECT : Nat := 0xFFFFFFFF

/-! ## little-endian readers (`utils.rs`) -/

def byteAt (b : Bytes) (i : Nat) : Nat := (b.getD i 0).toNat
/-- `read_u16(&b[o..])` (callers guarantee the two bytes exist) -/
def u16At (b : Bytes) (o : Nat) : Nat := byteAt b o + 256 * byteAt b (o + 1)
/-- `read_u32(&b[o..])` -/
def u32At (b : Bytes) (o : Nat) : Nat :=
  byteAt b o + 256 * byteAt b (o + 1) + 65536 * byteAt b (o + 2) + 16777216 * byteAt b (o + 3)
/-- `read_u64(&b[o..])` -/
def u64At (b : Bytes) (o : Nat) : Nat := u32At b o + 4294967296 * u32At b (o + 4)

/-- the items of `to_u32(s)` (`s.chunks_exact(4)` decoded little-endian; a partial trailing item is ignored) -/
def u32s : Bytes → List Nat
  | a :: b :: c :: d :: rest =>
    (a.toNat + 256 * b.toNat + 65536 * c.toNat + 16777216 * d.toNat) :: u32s rest
  | _ => []

/-- the items of `chunks(2)` decoded little-endian (UTF-16 code units) -/
def u16s : Bytes → List Nat
  | a :: b :: rest => (a.toNat + 256 * b.toNat) :: u16s rest
  | _ => []

/-! ## `Header` -/

structure Header where
  sectorSize : Nat
  dirLen : Nat
  dirStart : Nat
  fatLen : Nat
  miniFatLen : Nat
  miniFatStart : Nat
  difatStart : Nat
  deriving Repr, DecidableEq

def signature : Bytes := [0xD0, 0xCF, 0x11, 0xE0, 0xA1, 0xB1, 0x1A, 0xE1]

/-- `Header::from_reader`: the header, the 109 DIFAT entries of the header, the unread remainder.
    (`difat_len`, read from the wrong offset `buf[62..]`, is only a capacity hint, capped by the fix.) -/
def Header.fromReader (rd : Bytes) : Res (Header × List Nat × Bytes) :=
  if rd.length < 512 then .err "io" else
  let buf := rd.take 512
  let rd1 := rd.drop 512
  if buf.take 8 ≠ signature then .err "ole" else
  let shift := u16At buf 30
  if shift ≠ 9 ∧ shift ≠ 12 then .err "invalid" else
  if shift = 12 ∧ rd1.length < 3584 then .err "io" else
  let rd2 := if shift = 12 then rd1.drop 3584 else rd1
  if u16At buf 32 ≠ 6 then .err "invalid" else
  .ok ({ sectorSize := if shift = 9 then 512 else 4096
         dirLen := u32At buf 40
         dirStart := u32At buf 48
         fatLen := u32At buf 44
         miniFatLen := u32At buf 64
         miniFatStart := u32At buf 60
         difatStart := u32At buf 68 },
       u32s (buf.drop 76), rd2)

/-! ## `Sectors` -/

/-- `struct Sectors { data, size }`: `data` is the part of the sector area read so far -/
structure Sectors where
  data : Bytes
  size : Nat
  /-- sectors not held yet are read from the file; false for the mini stream (`Sectors::in_memory`), which is
      complete in memory: its sectors are not sectors of the file -/
  lazy : Bool
  deriving Repr, DecidableEq

/-- `Sectors::get` (EOF-safe version): read from `rd` what is missing up to the end of sector `id`
    (or to EOF), return the slice `data[start.min(len)..end.min(len)]`. -/
def Sectors.get (s : Sectors) (id : Nat) (rd : Bytes) : Bytes × Sectors × Bytes :=
  let start := id * s.size
  let end_ := start + s.size
  let dl := s.data.length
  let data := if s.lazy ∧ end_ > dl then s.data ++ rd.take (end_ - dl) else s.data
  let rd' := if s.lazy ∧ end_ > dl then rd.drop (end_ - dl) else rd
  let len := data.length
  ((data.drop (min start len)).take (min end_ len - min start len), { s with data := data }, rd')

/-- the `while sector_id != ENDOFCHAIN` loop of `get_chain`, bounded by `remaining` (= `fats.len()`);
    `acc` is `chain.len()`: a chain that grows beyond what has been read of the file (`data.len()` after the
    sector read) is an error (cyclic or corrupt): the sectors of a chain are distinct parts of `data` -/
def Sectors.chainLoop (fats : List Nat) :
    (remaining : Nat) → (id : Nat) → Sectors → Bytes → (acc : Nat) → Res (Bytes × Sectors × Bytes)
  | 0, id, s, rd, _ => if id = ENDOFCHAIN then .ok ([], s, rd) else .err "io"
  | rem + 1, id, s, rd, acc =>
    if id = ENDOFCHAIN then .ok ([], s, rd) else
    match fats[id]? with
    | none => .err "io"
    | some next =>
      let r := s.get id rd
      if acc + r.1.length > r.2.1.data.length then .err "io"
      else
        match chainLoop fats rem next r.2.1 r.2.2 (acc + r.1.length) with
        | .ok (rest, s', rd') => .ok (r.1 ++ rest, s', rd')
        | .err e => .err e
        | .panic e => .panic e
        | .outOfFuel => .outOfFuel

/-- `Sectors::get_chain` -/
def Sectors.getChain (s : Sectors) (start : Nat) (fats : List Nat) (rd : Bytes) (len : Nat) :
    Res (Bytes × Sectors × Bytes) :=
  match Sectors.chainLoop fats fats.length start s rd 0 with
  | .ok (chain, s', rd') => .ok (if len > 0 then chain.take len else chain, s', rd')
  | .err e => .err e
  | .panic e => .panic e
  | .outOfFuel => .outOfFuel

/-! ## `Directory` -/

structure Dir where
  name : List Char
  start : Nat
  len : Nat
  /-- object type of the entry (byte 66): 1 storage, 2 stream, 5 root storage, 0 unused -/
  kind : Nat
  deriving Repr, DecidableEq

def replacement : Char := Char.ofNat 0xFFFD

/-- UTF-16 decoding with replacement of unpaired surrogates (WHATWG decoder, as `encoding_rs`) -/
def decodeUtf16 : List Nat → List Char
  | [] => []
  | [u] => if 0xD800 ≤ u ∧ u < 0xE000 then [replacement] else [Char.ofNat u]
  | u :: v :: rest =>
    if 0xD800 ≤ u ∧ u < 0xDC00 then
      if 0xDC00 ≤ v ∧ v < 0xE000 then
        Char.ofNat (0x10000 + (u - 0xD800) * 0x400 + (v - 0xDC00)) :: decodeUtf16 rest
      else replacement :: decodeUtf16 (v :: rest)
    else if 0xDC00 ≤ u ∧ u < 0xE000 then replacement :: decodeUtf16 (v :: rest)
    else Char.ofNat u :: decodeUtf16 (v :: rest)

/-- `UTF_16LE.decode_without_bom_handling(&buf[..64])`: always UTF-16LE, no byte-order-mark sniffing -/
def decodeName64 (b : Bytes) : List Char := decodeUtf16 (u16s b)

/-- truncation of the name at the first NUL -/
def untilNul (cs : List Char) : List Char := cs.takeWhile (· ≠ Char.ofNat 0)

/-- `Directory::from_slice`; panics (slice index) on a chunk that is too short -/
def Dir.fromSlice (buf : Bytes) (sectorSize : Nat) : Res Dir :=
  if buf.length < 120 then .panic "Directory::from_slice: slice index"
  else
    let cs := decodeName64 (buf.take 64)
    if sectorSize = 512 then
      if buf.length < 124 then .panic "Directory::from_slice: read_u32"
      else .ok ⟨untilNul cs, u32At buf 116, u32At buf 120, byteAt buf 66⟩
    else
      if buf.length < 128 then .panic "Directory::from_slice: slice index"
      else .ok ⟨untilNul cs, u32At buf 116, u64At buf 120, byteAt buf 66⟩

/-- `slice.chunks_exact(n)`: the whole chunks only (a shorter remainder is dropped) -/
def chunksAux (n : Nat) : Nat → Bytes → List Bytes
  | 0, _ => []
  | f + 1, l => if l.length < n then [] else l.take n :: chunksAux n f (l.drop n)

def chunksExact (n : Nat) (l : Bytes) : List Bytes := chunksAux n l.length l

/-- `.map(|c| Directory::from_slice(c, ss)).collect()`: the first panic wins -/
def parseDirs (ss : Nat) : List Bytes → Res (List Dir)
  | [] => .ok []
  | c :: cs =>
    match Dir.fromSlice c ss with
    | .ok d =>
      match parseDirs ss cs with
      | .ok ds => .ok (d :: ds)
      | .err e => .err e
      | .panic e => .panic e
      | .outOfFuel => .outOfFuel
    | .err e => .err e
    | .panic e => .panic e
    | .outOfFuel => .outOfFuel

/-! ## `Cfb` -/

structure CfbSt where
  dirs : List Dir
  sectors : Sectors
  fats : List Nat
  mini : Sectors
  miniFats : List Nat
  deriving Repr, DecidableEq

/-- the DIFAT loop of `Cfb::new`: every DIFAT sector (a whole sector: one cut by EOF is an error) is appended
    to the list, its last entry is the id of the next DIFAT sector. `count` DIFAT sectors visited need
    `count * size` bytes of what has been read (`data.len()`): more visits mean a cycle. That bounds the loop by
    the file length; `fuel` only makes the recursion structural (`file.length + 1` suffices, see `new_terminates`). -/
def difatLoop : (fuel : Nat) → (id : Nat) → List Nat → Sectors → Bytes → (count : Nat) →
    Res (List Nat × Sectors × Bytes)
  | 0, id, difat, s, rd, _ => if id < RESERVED then .outOfFuel else .ok (difat, s, rd)
  | fuel + 1, id, difat, s, rd, count =>
    if id < RESERVED then
      let r := s.get id rd
      if r.1.length ≠ s.size then .err "io"
      else
        let d := difat ++ u32s r.1
        if (count + 1) * s.size > r.2.1.data.length then .err "io"
        else difatLoop fuel (d.getLastD 0) d.dropLast r.2.1 r.2.2 (count + 1)
    else .ok (difat, s, rd)

/-- `for id in difat.filter(|id| *id < DIFSECT).take(h.fat_len) { fats.extend(to_u32(sectors.get(id)?)); if fats.len() * 4 > data.len() {Err} }`
    (`to_u32` ignores a partial trailing item; `acc` is `fats.len()`, `n` what is left of `fat_len`): the header
    says how many FAT sectors there are; the table is made of distinct sectors of the file, it cannot be larger
    than what has been read -/
def loadFats : List Nat → Sectors → Bytes → (acc n : Nat) → Res (List Nat × Sectors × Bytes)
  | [], s, rd, _, _ => .ok ([], s, rd)
  | id :: ids, s, rd, acc, n =>
    if id < DIFSECT then
      match n with
      | 0 => .ok ([], s, rd)
      | n + 1 =>
        let r := s.get id rd
        if (acc + (u32s r.1).length) * 4 > r.2.1.data.length then .err "io"
        else
          match loadFats ids r.2.1 r.2.2 (acc + (u32s r.1).length) n with
          | .ok (rest, s', rd') => .ok (u32s r.1 ++ rest, s', rd')
          | .err e => .err e
          | .panic e => .panic e
          | .outOfFuel => .outOfFuel
    else loadFats ids s rd acc n

/-- `Cfb::new(reader, len)`; `file` is everything the reader yields; `len` is only a capacity hint
    (clamped to 16 MiB): nothing depends on it -/
def new (file : Bytes) (_len : Nat) : Res (CfbSt × Bytes) := do
  let (h, difat0, rd) ← Header.fromReader file
  let (difat, s1, rd1) ← difatLoop (file.length + 1) h.difatStart difat0 ⟨[], h.sectorSize, true⟩ rd 0
  let (fats, s2, rd2) ← loadFats difat s1 rd1 0 h.fatLen
  let (dirBytes, s3, rd3) ← s2.getChain h.dirStart fats rd2 (h.dirLen * h.sectorSize)
  let dirs ← parseDirs h.sectorSize (chunksExact 128 dirBytes)
  match dirs with
  | [] => .err "emptyroot"
  | root :: _ =>
    if h.miniFatLen > 0 then do
      let (ministream, s4, rd4) ← s3.getChain root.start fats rd3 root.len
      let (mf, s5, rd5) ← s4.getChain h.miniFatStart fats rd4 (h.miniFatLen * h.sectorSize)
      .ok (⟨dirs, s5, fats, ⟨ministream, 64, false⟩, u32s mf⟩, rd5)
    else .ok (⟨dirs, s3, fats, ⟨[], 64, false⟩, []⟩, rd3)

/-- `Cfb::has_directory`: any entry of that name, whatever its type (callers ask for storages and for streams) -/
def hasDirectory (c : CfbSt) (name : List Char) : Bool := c.dirs.any (fun d => d.name = name)

/-- the `Some(d)` arm of `Cfb::get_stream`: streams shorter than 4096 bytes are read from the mini stream
    (64-byte mini sectors, mini FAT), the others from the regular sectors -/
def getStreamAt (c : CfbSt) (d : Dir) (rd : Bytes) : Res (Bytes × CfbSt × Bytes) :=
  if d.len < 4096 then
    match c.mini.getChain d.start c.miniFats rd d.len with
    | .ok (x, m', rd') => .ok (x, { c with mini := m' }, rd')
    | .err e => .err e
    | .panic e => .panic e
    | .outOfFuel => .outOfFuel
  else
    match c.sectors.getChain d.start c.fats rd d.len with
    | .ok (x, s', rd') => .ok (x, { c with sectors := s' }, rd')
    | .err e => .err e
    | .panic e => .panic e
    | .outOfFuel => .outOfFuel

/-- object type of a stream entry -/
def STREAM_OBJECT : Nat := 2

/-- `Cfb::get_stream`: the first STREAM entry with that name (a storage may carry the name of a stream; its start
    and size fields mean nothing) -/
def getStream (c : CfbSt) (name : List Char) (rd : Bytes) : Res (Bytes × CfbSt × Bytes) :=
  match c.dirs.find? (fun d => d.kind = STREAM_OBJECT ∧ d.name = name) with
  | none => .err "notfound"
  | some d => getStreamAt c d rd

/-- open the container and read one stream (what `Xls::new` / `VbaProject::new` do) -/
def readStream (file : Bytes) (name : List Char) : Res Bytes := do
  let (c, rd) ← new file file.length
  let (x, _, _) ← getStream c name rd
  pure x

/-- the reader as a name → content function (what `VbaProject::from_cfb` and `Xls` use it for) -/
def lookupOf (c : CfbSt) (rd : Bytes) (name : List Char) : Option Bytes :=
  match getStream c name rd with
  | .ok (x, _, _) => some x
  | _ => none

/-! ## cost: number of `Sectors::get` calls (each is a slice of the cache plus, at most once per byte of the
    file, a read). The functions mirror the loops above call by call. -/

def Sectors.chainLoopCost (fats : List Nat) : (remaining : Nat) → (id : Nat) → Sectors → Bytes → (acc : Nat) → Nat
  | 0, _, _, _, _ => 0
  | rem + 1, id, s, rd, acc =>
    if id = ENDOFCHAIN then 0 else
    match fats[id]? with
    | none => 0
    | some next =>
      let r := s.get id rd
      if acc + r.1.length > r.2.1.data.length then 1
      else 1 + chainLoopCost fats rem next r.2.1 r.2.2 (acc + r.1.length)

def Sectors.getChainCost (s : Sectors) (start : Nat) (fats : List Nat) (rd : Bytes) : Nat :=
  Sectors.chainLoopCost fats fats.length start s rd 0

def difatLoopCost : (fuel : Nat) → (id : Nat) → List Nat → Sectors → Bytes → (count : Nat) → Nat
  | 0, _, _, _, _, _ => 0
  | fuel + 1, id, difat, s, rd, count =>
    if id < RESERVED then
      let r := s.get id rd
      if r.1.length ≠ s.size then 1
      else
        let d := difat ++ u32s r.1
        if (count + 1) * s.size > r.2.1.data.length then 1
        else 1 + difatLoopCost fuel (d.getLastD 0) d.dropLast r.2.1 r.2.2 (count + 1)
    else 0

def loadFatsCost : List Nat → Sectors → Bytes → (acc n : Nat) → Nat
  | [], _, _, _, _ => 0
  | id :: ids, s, rd, acc, n =>
    if id < DIFSECT then
      match n with
      | 0 => 0
      | n + 1 =>
        let r := s.get id rd
        if (acc + (u32s r.1).length) * 4 > r.2.1.data.length then 1
        else 1 + loadFatsCost ids r.2.1 r.2.2 (acc + (u32s r.1).length) n
    else loadFatsCost ids s rd acc n

/-- sector reads of `Cfb::new` -/
def newCost (file : Bytes) : Nat :=
  match Header.fromReader file with
  | .ok (h, difat0, rd) =>
    let c1 := difatLoopCost (file.length + 1) h.difatStart difat0 ⟨[], h.sectorSize, true⟩ rd 0
    match difatLoop (file.length + 1) h.difatStart difat0 ⟨[], h.sectorSize, true⟩ rd 0 with
    | .ok (difat, s1, rd1) =>
      let c2 := loadFatsCost difat s1 rd1 0 h.fatLen
      match loadFats difat s1 rd1 0 h.fatLen with
      | .ok (fats, s2, rd2) =>
        let c3 := s2.getChainCost h.dirStart fats rd2
        match s2.getChain h.dirStart fats rd2 (h.dirLen * h.sectorSize) with
        | .ok (dirBytes, s3, rd3) =>
          match parseDirs h.sectorSize (chunksExact 128 dirBytes) with
          | .ok (root :: _) =>
            if h.miniFatLen > 0 then
              let c4 := s3.getChainCost root.start fats rd3
              match s3.getChain root.start fats rd3 root.len with
              | .ok (_, s4, rd4) => c1 + c2 + c3 + c4 + s4.getChainCost h.miniFatStart fats rd4
              | _ => c1 + c2 + c3 + c4
            else c1 + c2 + c3
          | _ => c1 + c2 + c3
        | _ => c1 + c2 + c3
      | _ => c1 + c2
    | _ => c1
  | _ => 0

/-- sector reads of `Cfb::get_stream` -/
def getStreamCost (c : CfbSt) (name : List Char) (rd : Bytes) : Nat :=
  match c.dirs.find? (fun d => d.kind = STREAM_OBJECT ∧ d.name = name) with
  | none => 0
  | some d =>
    if d.len < 4096 then c.mini.getChainCost d.start c.miniFats rd
    else c.sectors.getChainCost d.start c.fats rd

end Cfb
