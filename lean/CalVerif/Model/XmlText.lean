import CalVerif.Prim.Res
/-! Model of the cell-text readers of the XML formats (property C19), over XML *event lists*.

    What is modelled (one Lean function per Rust loop; every `match` arm of the Rust loop is a branch of the
    corresponding `…Step` function, in the same order):

    * `src/xlsx/mod.rs  read_string`            → `siStep` / `runSi` / `readString`
    * `src/xlsx/mod.rs  read_shared_strings`    → `runSst` / `readSharedStrings`
    * `src/xlsx/cells_reader.rs next_cell` (the children of one `<c>`), `read_value`, `read_v`
      for `t="s"`, `t="str"`, `<is>`                                  → `cellStep` / `runCell` / `cellText`
    * `src/ods.rs get_datatype`, text path      → `odsStep` / `runOds` / `odsCellText`
    * `src/xlsb/mod.rs wide_str`                → `wideStr` (result: UTF-16 code units)

    What is NOT modelled (trusted third-party layers, tied by the correspondence run only):
    quick-xml's tokenisation — the split of the part into events, CDATA delimiting, attribute parsing (the
    unescaping of `Text` events and attribute values is modelled separately in `Model/XmlEscape.lean`), and
    the reader configuration
    `expand_empty_elements = true` (an empty element `<x/>` is delivered as `Start x`, `End x`: the event type
    below therefore has no `Empty` constructor; the wire parser of the driver performs the expansion),
    `trim_text(false)` (no text is dropped or trimmed); and encoding_rs (UTF-16 units → `String`).

    Conventions: a text is the list of its UTF-8 bytes (`Txt`) — the models never look inside a text except
    for pushing `'\n'` / `' '` and parsing the decimal `text:c` attribute; a name is the qualified name split
    at its first `:` (quick-xml's `local_name()` is the part after the first colon, `name()` the whole: two
    names are equal as qualified names iff prefix and local part are equal).  The end of the event list is
    `Event::Eof`. -/

namespace XmlText

/-- UTF-8 bytes of a (piece of) text, after unescaping -/
abbrev Txt := List UInt8

/-- qualified element name `pre:loc` (`pre = none`: no colon in the name) -/
structure Name where
  pre : Option String
  loc : String
  deriving DecidableEq, Repr

/-- unprefixed name -/
def Name.plain (l : String) : Name := ⟨none, l⟩
/-- name with optional prefix -/
def Name.mk' (p : Option String) (l : String) : Name := ⟨p, l⟩

/-- quick-xml events as the readers see them. `other` = Comment / PI / Decl / DocType (ignored by every
    loop modelled here). Attribute keys are raw qualified names, attribute values are unescaped. -/
inductive Ev where
  | start (n : Name) (attrs : List (String × Txt))
  | end_ (n : Name)
  | text (s : Txt)
  | cdata (s : Txt)
  | other
  deriving DecidableEq, Repr

/-- outcome of one loop iteration -/
inductive Step (σ α : Type) where
  | cont (s : σ)
  | done (a : α)
  | fail (e : String)
  | panic (site : String)

/-! ### xlsx `read_string` -/

/-- where `read_string` is: in its outer loop (`rich_buffer`, `is_phonetic_text`), in the inner loop of a
    `<t>` (remembering the start tag's qualified name and the text so far), or inside
    `read_to_end_into(closing)` after a plain `<t>` (nesting depth, value to return) -/
inductive SiMode where
  | outer (rich : Option Txt) (ph : Bool)
  | inT (rich : Option Txt) (ph : Bool) (tname : Name) (acc : Txt)
  | skip (depth : Nat) (value : Txt)
  deriving DecidableEq, Repr

/-- one event of `read_string(xml, closing)` -/
def siStep (closing : Name) : SiMode → Ev → Step SiMode (Option Txt)
  | .outer rich ph, .start n _ =>
    if n.loc = "r" then .cont (.outer (some (rich.getD [])) ph)          -- rich_buffer = Some(String::new()) once
    else if n.loc = "rPh" then .cont (.outer rich true)
    else if n.loc = "t" ∧ ph = false then .cont (.inT rich ph n [])
    else .cont (.outer rich ph)
  | .outer rich ph, .end_ n =>
    if n = closing then .done rich                                        -- qualified comparison (fix D21)
    else if n.loc = "rPh" then .cont (.outer rich false)
    else .cont (.outer rich ph)
  | .outer rich ph, _ => .cont (.outer rich ph)
  | .inT rich ph tn acc, .text s => .cont (.inT rich ph tn (acc ++ s))
  | .inT rich ph tn acc, .cdata s => .cont (.inT rich ph tn (acc ++ s))   -- fix D28
  | .inT rich ph tn acc, .end_ n =>
    if n = tn then
      match rich with
      | some s => .cont (.outer (some (s ++ acc)) ph)
      | none => .cont (.skip 0 acc)                                      -- read_to_end_into(closing), then return
    else .cont (.inT rich ph tn acc)
  | .inT rich ph tn acc, _ => .cont (.inT rich ph tn acc)
  | .skip d v, .start n _ => if n = closing then .cont (.skip (d + 1) v) else .cont (.skip d v)
  | .skip d v, .end_ n =>
    if n = closing then (if d = 0 then .done (some v) else .cont (.skip (d - 1) v)) else .cont (.skip d v)
  | .skip d v, _ => .cont (.skip d v)

/-- the error `read_string` returns when the events run out -/
def siEof : SiMode → String
  | .outer _ _ => "XmlEof()"
  | .inT _ _ _ _ => "XmlEof(t)"
  | .skip _ _ => "Xml(missing-end)"

/-- run `read_string` from a mode; result: the returned `Option<String>` and the events left in the reader -/
def runSi (closing : Name) : SiMode → List Ev → Res (Option Txt × List Ev)
  | m, [] => .err (siEof m)
  | m, e :: r =>
    match siStep closing m e with
    | .cont m' => runSi closing m' r
    | .done v => .ok (v, r)
    | .fail x => .err x
    | .panic x => .panic x

/-- `read_string(xml, closing)` called right after the `Start` event of the `<si>` / `<is>` element -/
def readString (closing : Name) (evs : List Ev) : Res (Option Txt × List Ev) :=
  runSi closing (.outer none false) evs

/-! ### xlsx `read_shared_strings` -/

inductive SstMode where
  | top
  | inSi (closing : Name) (m : SiMode)

/-- the loop of `read_shared_strings`; `acc` = `self.strings` so far -/
def runSst : SstMode → List Txt → List Ev → Res (List Txt)
  | .top, _, [] => .err "XmlEof(sst)"
  | .inSi _ m, _, [] => .err (siEof m)
  | .top, acc, e :: r =>
    match e with
    | .start n _ => if n.loc = "si" then runSst (.inSi n (.outer none false)) acc r else runSst .top acc r
    | .end_ n => if n.loc = "sst" then .ok acc else runSst .top acc r
    | _ => runSst .top acc r
  | .inSi c m, acc, e :: r =>
    match siStep c m e with
    | .cont m' => runSst (.inSi c m') acc r
    | .done v => runSst .top (acc ++ [v.getD []]) r                       -- one entry per item (fix D20)
    | .fail x => .err x
    | .panic x => .panic x

def readSharedStrings (evs : List Ev) : Res (List Txt) := runSst .top [] evs

/-! ### one xlsx cell: the children of `<c …>` (`next_cell` inner loop, `read_value`, `read_v`) -/

/-- text-relevant outcome of a cell: `other` stands for every non-text value (`t` = b, e, d, n or absent:
    numbers, booleans, errors, dates — property C01/C10, not modelled here) -/
inductive CellVal where
  | empty
  | str (s : Txt)
  | shared (s : Txt)
  | other
  deriving DecidableEq, Repr

/-- `read_string(..)?.map_or(DataRef::Empty, DataRef::String)` -/
def CellVal.ofOpt : Option Txt → CellVal
  | some s => .str s
  | none => .empty

inductive CellMode where
  | inC (val : CellVal)
  | inIs (closing : Name) (m : SiMode)
  | inV (vname : Name) (acc : Txt)
  | inF (fname : Name) (depth : Nat)
  deriving DecidableEq, Repr

def isDigit (b : UInt8) : Bool := 48 ≤ b.toNat ∧ b.toNat ≤ 57

/-- value of a digit string, most significant first -/
def digitsVal (ds : List UInt8) : Nat := ds.foldl (fun a d => a * 10 + (d.toNat - 48)) 0

/-- `atoi_simd::parse::<usize>`: non-empty, digits only, value < 2^64 -/
def atoiUsize (s : Txt) : Option Nat :=
  if s ≠ [] ∧ s.all isDigit ∧ digitsVal s < 18446744073709551616 then some (digitsVal s) else none

/-- `read_v(v, strings, …, c_element)` restricted to the text-carrying cell types -/
def readV (t : Option String) (strings : List Txt) (v : Txt) : Step CellMode CellVal :=
  match t with
  | some "s" =>
    let idx := (atoiUsize v).getD 0
    match strings[idx]? with
    | some s => .cont (.inC (.shared s))
    | none => .fail "Unexpected(shared string index out of range)"
  | some "str" => .cont (.inC (.str v))
  | some "inlineStr" => .fail "CellTAttribute"
  | some "is" => .fail "Unexpected"
  | _ => .cont (.inC .other)

/-- one event inside `<c t=…>` (`t` = the cell's type attribute) -/
def cellStep (t : Option String) (strings : List Txt) : CellMode → Ev → Step CellMode CellVal
  | .inC _, .start n _ =>
    if n.loc = "is" then .cont (.inIs n (.outer none false))
    else if n.loc = "v" then .cont (.inV n [])
    else if n.loc = "f" then .cont (.inF n 0)
    else .fail "UnexpectedNode"
  | .inC val, .end_ n => if n.loc = "c" then .done val else .cont (.inC val)
  | .inC val, _ => .cont (.inC val)
  | .inIs c m, e =>
    match siStep c m e with
    | .cont m' => .cont (.inIs c m')
    | .done v => .cont (.inC (CellVal.ofOpt v))
    | .fail x => .fail x
    | .panic x => .panic x
  | .inV vn acc, .text s => .cont (.inV vn (acc ++ s))
  | .inV vn acc, .cdata s => .cont (.inV vn (acc ++ s))                    -- fix D28
  | .inV vn acc, .end_ n => if n = vn then readV t strings acc else .cont (.inV vn acc)
  | .inV vn acc, _ => .cont (.inV vn acc)
  | .inF fn d, .start n _ => if n = fn then .cont (.inF fn (d + 1)) else .cont (.inF fn d)
  | .inF fn d, .end_ n =>
    if n = fn then (if d = 0 then .cont (.inC .empty) else .cont (.inF fn (d - 1))) else .cont (.inF fn d)
  | .inF fn d, _ => .cont (.inF fn d)

def cellEof : CellMode → String
  | .inC _ => "XmlEof(c)"
  | .inIs _ m => siEof m
  | .inV _ _ => "XmlEof(v)"
  | .inF _ _ => "Xml(missing-end)"

def runCell (t : Option String) (strings : List Txt) : CellMode → List Ev → Res (CellVal × List Ev)
  | m, [] => .err (cellEof m)
  | m, e :: r =>
    match cellStep t strings m e with
    | .cont m' => runCell t strings m' r
    | .done v => .ok (v, r)
    | .fail x => .err x
    | .panic x => .panic x

/-- value of a cell from the events that follow its `Start c` event -/
def cellText (t : Option String) (strings : List Txt) (evs : List Ev) : Res (CellVal × List Ev) :=
  runCell t strings (.inC .empty) evs

/-! ### the formula text of one xlsx cell (`next_formula` inner loop + `read_formula`; shared-formula
    expansion is property C15 and not modelled here: `t="shared"` attributes are ignored) -/

inductive FmlaMode where
  | inC (val : Option Txt)
  | skip (name : Name) (depth : Nat) (val : Option Txt)     -- `is` / `v`: read_to_end_into
  | inF (fname : Name) (acc : Txt) (val : Option Txt)
  deriving DecidableEq, Repr

def fmlaStep : FmlaMode → Ev → Step FmlaMode Txt
  | .inC val, .start n _ =>
    if n.loc = "is" ∨ n.loc = "v" then .cont (.skip n 0 val)
    else if n.loc = "f" then .cont (.inF n [] val)
    else .fail "UnexpectedNode"
  | .inC val, .end_ n => if n.loc = "c" then .done (val.getD []) else .cont (.inC val)
  | .inC val, _ => .cont (.inC val)
  | .skip nm d val, .start n _ => if n = nm then .cont (.skip nm (d + 1) val) else .cont (.skip nm d val)
  | .skip nm d val, .end_ n =>
    if n = nm then (if d = 0 then .cont (.inC val) else .cont (.skip nm (d - 1) val)) else .cont (.skip nm d val)
  | .skip nm d val, _ => .cont (.skip nm d val)
  | .inF fn acc val, .text s => .cont (.inF fn (acc ++ s) val)
  | .inF fn acc val, .cdata s => .cont (.inF fn (acc ++ s) val)            -- fix D28
  | .inF fn acc val, .end_ n => if n = fn then .cont (.inC (some acc)) else .cont (.inF fn acc val)
  | .inF fn acc val, _ => .cont (.inF fn acc val)

def runFmla : FmlaMode → List Ev → Res (Txt × List Ev)
  | .inC _, [] => .err "XmlEof(c)"
  | .skip _ _ _, [] => .err "Xml(missing-end)"
  | .inF _ _ _, [] => .err "XmlEof(f)"
  | m, e :: r =>
    match fmlaStep m e with
    | .cont m' => runFmla m' r
    | .done v => .ok (v, r)
    | .fail x => .err x
    | .panic x => .panic x

/-- formula text of a cell from the events that follow its `Start c` event (`""` when it has none) -/
def formulaText (evs : List Ev) : Res (Txt × List Ev) := runFmla (.inC none) evs

/-! ### ods `get_datatype`, text path (`office:value-type="string"`, no value attribute) -/

/-- drop one leading `+` -/
def stripPlus : Txt → Txt
  | 43 :: rest => rest
  | s => s

/-- `str::parse::<i32>` — the type of `count` in `get_datatype` is inferred from the literal `1` of the
    `None` arm and the range `0..count`, i.e. `i32`: optional `+` or `-`, then at least one digit, digits only,
    value within the i32 range -/
def parseI32 (s : Txt) : Option Int :=
  match s with
  | 45 :: ds =>
    if ds ≠ [] ∧ ds.all isDigit ∧ digitsVal ds ≤ 2147483648 then some (-(digitsVal ds : Int)) else none
  | _ =>
    let ds := stripPlus s
    if ds ≠ [] ∧ ds.all isDigit ∧ digitsVal ds < 2147483648 then some (digitsVal ds : Int) else none

def tableCell : Name := ⟨some "table", "table-cell"⟩
def coveredCell : Name := ⟨some "table", "covered-table-cell"⟩
def annotation : Name := ⟨some "office", "annotation"⟩
def textP : Name := ⟨some "text", "p"⟩
def textS : Name := ⟨some "text", "s"⟩

/-- first attribute with the given qualified key (`try_get_attribute`) -/
def getAttr (k : String) : List (String × Txt) → Option Txt
  | [] => none
  | (k', v) :: r => if k' = k then some v else getAttr k r

inductive OdsMode where
  | normal (s : Txt) (first : Bool)
  | annot (s : Txt) (first : Bool)
  deriving DecidableEq, Repr

/-- one event of the text loop of `get_datatype` (arms in source order) -/
def odsStep : OdsMode → Ev → Step OdsMode Txt
  | .normal s first, .text t => .cont (.normal (s ++ t) first)
  | .normal s first, .cdata t => .cont (.normal (s ++ t) first)            -- fix D28
  | .normal s first, .end_ n =>
    if n = tableCell ∨ n = coveredCell then .done s else .cont (.normal s first)
  | .normal s first, .start n attrs =>
    if n = annotation then .cont (.annot s first)
    else if n = textP then (if first then .cont (.normal s false) else .cont (.normal (s ++ [10]) false))
    else if n = textS then
      match getAttr "text:c" attrs with
      | some c =>
        match parseI32 c with
        | some k => .cont (.normal (s ++ List.replicate k.toNat 32) first)     -- `for _ in 0..count`: nothing when ≤ 0
        | none => .fail "ParseInt"
      | none => .cont (.normal (s ++ [32]) first)
    else .cont (.normal s first)
  | .normal s first, .other => .cont (.normal s first)
  | .annot s first, .end_ n => if n = annotation then .cont (.normal s first) else .cont (.annot s first)
  | .annot s first, _ => .cont (.annot s first)

/-- events exhausted: both loops return `Eof` (the annotation-skipping loop has its `Eof` arm since /repo
    d6b5c9c; before that it spun forever on `Ok(Eof)`) -/
def runOds : OdsMode → List Ev → Res (Txt × List Ev)
  | .normal _ _, [] => .err "Eof(table:table-cell)"
  | .annot _ _, [] => .err "Eof(office:annotation)"
  | m, e :: r =>
    match odsStep m e with
    | .cont m' => runOds m' r
    | .done v => .ok (v, r)
    | .fail x => .err x
    | .panic x => .panic x

/-- text of a string cell from the events that follow its `Start table:table-cell` event -/
def odsCellText (evs : List Ev) : Res (Txt × List Ev) := runOds (.normal [] true) evs

/-! ### ods `get_datatype`, attribute loop (the part that decides where a string cell's value comes from) -/

/-- outcome of the attribute loop as far as text is concerned -/
inductive OdsAttrVal where
  /-- `office:string-value` was taken: the cell is this string, its content is display text and is skipped -/
  | strAttr (v : Txt)
  /-- `office:value-type="string"` and no value attribute: the element content defines the value -/
  | content
  /-- any other kind of value (float, date, time, boolean) or no value at all -/
  | other
  deriving DecidableEq, Repr

/-- the `for a in atts` loop: state = (`is_string`, the value once set). Attributes are visited in document
    order; the first value attribute wins; `office:value-type` is looked at only while no value is set, and
    `office:string-value` does not depend on it. -/
def odsAttrLoop : List (String × Txt) → Bool → Option OdsAttrVal → Bool × Option OdsAttrVal
  | [], isStr, val => (isStr, val)
  | (k, v) :: r, isStr, val =>
    match val with
    | some _ => odsAttrLoop r isStr val
    | none =>
      if k = "office:value" then odsAttrLoop r isStr (some .other)
      else if k = "office:string-value" then odsAttrLoop r isStr (some (.strAttr v))
      else if k = "office:date-value" ∨ k = "office:time-value" ∨ k = "office:boolean-value" then
        odsAttrLoop r isStr (some .other)
      else if k = "office:value-type" then odsAttrLoop r (v = [115, 116, 114, 105, 110, 103]) none
      else odsAttrLoop r isStr none

def odsAttrs (attrs : List (String × Txt)) : OdsAttrVal :=
  match odsAttrLoop attrs false none with
  | (_, some v) => v
  | (true, none) => .content
  | (false, none) => .other

/-- text of a cell from its start-tag attributes and the events that follow the start tag
    (`none` = not a string cell) -/
def odsCellValue (attrs : List (String × Txt)) (evs : List Ev) : Res (Option Txt) :=
  match odsAttrs attrs with
  | .strAttr v => .ok (some v)
  | .content =>
    match odsCellText evs with
    | .ok (s, _) => .ok (some s)
    | .err e => .err e
    | .panic e => .panic e
    | .outOfFuel => .outOfFuel
  | .other => .ok none

/-! ### xlsb `wide_str` -/

def u32le (b0 b1 b2 b3 : UInt8) : Nat :=
  b0.toNat + 256 * b1.toNat + 65536 * b2.toNat + 16777216 * b3.toNat

/-- little-endian UTF-16 code units of an even-length byte string -/
def unitsOf : List UInt8 → List UInt16
  | a :: b :: r => UInt16.ofNat (a.toNat + 256 * b.toNat) :: unitsOf r
  | _ => []

/-- `wide_str(buf, &mut str_len)`: the code units of the string and `str_len` (bytes consumed).
    `read_u32` slices `buf[..4]` (panic on a shorter buffer); the decoding of the units to a `String`
    (encoding_rs, without BOM handling after the fix found by this property) is not modelled. -/
def wideStr (buf : List UInt8) : Res (List UInt16 × Nat) :=
  match buf with
  | b0 :: b1 :: b2 :: b3 :: rest =>
    let len := u32le b0 b1 b2 b3
    if buf.length < 4 + len * 2 then .err "WideStr"
    else .ok (unitsOf (rest.take (len * 2)), 4 + len * 2)
  | _ => .panic "read_u32"

end XmlText
