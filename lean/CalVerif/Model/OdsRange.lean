import CalVerif.Model.Range
/-! Model of the ODS table reader of `/repo/src/ods.rs`: how `read_table` / `read_row` accumulate the
    flat `cells` vector, the per-row offsets `cols` and the per-row repeat counts `rows_repeats`, and
    how `get_range` turns them into a dense `Range` (bounds search, then re-expansion of repeated rows).

    Each definition names the Rust code it mirrors. `usize` values are unbounded `Nat`, except the
    `usize::MAX` start value of `col_min` and the final `as u32` casts, which are written out. -/

namespace OdsRange
open Range (Rng)

variable {α : Type} [Inhabited α] [DecidableEq α]

def USIZE_MAX : Nat := 18446744073709551615
def U32 : Nat := 4294967296

/-! ### `read_row` / `read_table`: from cell events to the three vectors -/

/-- The cell loop of `read_row` for one output vector. An event is one `table:table-cell` /
    `table:covered-table-cell` element: a payload `e` (what `get_datatype` returned) and its
    `table:number-columns-repeated` count. `pend e` is the test `value.is_empty() && formula.is_empty()`;
    `val e` the element pushed to this vector (`value` for `cells`, `formula` for `formulas`).
    `pending` is `empty_col_repeats`: a run of blank cells is only materialised when another cell
    element follows. -/
def readRow {ε : Type} (pend : ε → Bool) (val : ε → α) : List (ε × Nat) → Nat → List α
  | [], _ => []
  | (e, k) :: rest, pending =>
    List.replicate pending default ++
      (if pend e then readRow pend val rest k
       else List.replicate k (val e) ++ readRow pend val rest 0)

/-- `cols` after the initial `cols.push(0)`: `cols.push(cells.len())` after every row -/
def offsets : List (List α) → Nat → List Nat
  | [], _ => []
  | row :: rest, off => (off + row.length) :: offsets rest (off + row.length)

/-- the three vectors `read_table` hands to `get_range` -/
structure Flat (α : Type) where
  cells : List α
  cols : List Nat
  reps : List Nat
  deriving Repr

/-- `read_table` after every row has been read: `rows` = (`number-rows-repeated`, what `read_row`
    appended for that row) -/
def flatten (rows : List (Nat × List α)) : Flat α :=
  { cells := (rows.map (·.2)).flatten
    cols := 0 :: offsets (rows.map (·.2)) 0
    reps := rows.map (·.1) }

/-- a row run of the table: `number-rows-repeated` and the cell events (`value`, `number-columns-repeated`) -/
abbrev RowRun (α : Type) := Nat × List (α × Nat)

/-- the rows as `read_row` leaves them in one output vector: `runs` = (`number-rows-repeated`, cell events
    with payload `ε`), `pend` / `val` as in `readRow` -/
def collectG {ε : Type} (pend : ε → Bool) (val : ε → α) (runs : List (Nat × List (ε × Nat))) : List (Nat × List α) :=
  runs.map fun r => (r.1, readRow pend val r.2 0)

/-- value-only cell events: a cell is blank iff its value is -/
def collectRows (runs : List (RowRun α)) : List (Nat × List α) :=
  collectG (fun v => decide (v = default)) id runs

/-- `read_table` on value-only cell events -/
def collect (runs : List (RowRun α)) : Flat α := flatten (collectRows runs)

/-- a row run whose cell events carry a value and a formula -/
abbrev RowRunVF (α β : Type) := Nat × List ((α × β) × Nat)

/-- `value.is_empty() && formula.is_empty()` -/
def pendVF {β : Type} [Inhabited β] [DecidableEq β] (e : α × β) : Bool :=
  decide (e.1 = default) && decide (e.2 = default)

/-- `read_table`, the `cells` vector (values) when cells also carry formulas -/
def collectV {β : Type} [Inhabited β] [DecidableEq β] (runs : List (RowRunVF α β)) : Flat α :=
  flatten (collectG pendVF (·.1) runs)

/-- `read_table`, the `formulas` vector -/
def collectF {β : Type} [Inhabited β] [DecidableEq β] (runs : List (RowRunVF α β)) : Flat β :=
  flatten (collectG pendVF (·.2) runs)

/-! #### the element kind made explicit: `table:table-cell` | `table:covered-table-cell` -/

/-- which element a cell event is -/
inductive CellKind where
  | cell
  | covered
  deriving DecidableEq, Repr

/-- `read_row` with the element kind of every event: the match arm of `read_row` is guarded by
    `e.name() == "table:table-cell" || e.name() == "table:covered-table-cell"`, so both kinds run the same
    code — a covered cell is flushed, pended or pushed `repeat` times with whatever content it carries,
    exactly like an ordinary cell -/
def readRowK {ε : Type} (pend : ε → Bool) (val : ε → α) : List (CellKind × ε × Nat) → Nat → List α
  | [], _ => []
  | (.cell, e, k) :: rest, pending =>
    List.replicate pending default ++
      (if pend e then readRowK pend val rest k
       else List.replicate k (val e) ++ readRowK pend val rest 0)
  | (.covered, e, k) :: rest, pending =>
    List.replicate pending default ++
      (if pend e then readRowK pend val rest k
       else List.replicate k (val e) ++ readRowK pend val rest 0)

/-- a row run whose cell events carry their element kind -/
abbrev RowRunK (ε : Type) := Nat × List (CellKind × ε × Nat)

def collectKG {ε : Type} (pend : ε → Bool) (val : ε → α) (runs : List (RowRunK ε)) : List (Nat × List α) :=
  runs.map fun r => (r.1, readRowK pend val r.2 0)

/-- `read_table` on value-only events with element kinds -/
def collectK (runs : List (RowRunK α)) : Flat α :=
  flatten (collectKG (fun v => decide (v = default)) id runs)

/-- `read_table`, the `cells` vector, events = (kind, (value, formula), repeat) -/
def collectKV {β : Type} [Inhabited β] [DecidableEq β] (runs : List (RowRunK (α × β))) : Flat α :=
  flatten (collectKG pendVF (·.1) runs)

/-- `read_table`, the `formulas` vector -/
def collectKF {β : Type} [Inhabited β] [DecidableEq β] (runs : List (RowRunK (α × β))) : Flat β :=
  flatten (collectKG pendVF (·.2) runs)

/-- forget the element kinds -/
def eraseKinds {ε : Type} (runs : List (RowRunK ε)) : List (Nat × List (ε × Nat)) :=
  runs.map fun r => (r.1, r.2.map fun e => (e.2.1, e.2.2))

/-! ### `get_range` -/

/-- `cols.windows(2)` -/
def windows2 : List Nat → List (Nat × Nat)
  | a :: b :: rest => (a, b) :: windows2 (b :: rest)
  | _ => []

/-- `&cells[w[0]..w[1]]` (`none` = the slice index panics) -/
def slice (cells : List α) (w : Nat × Nat) : Option (List α) :=
  if w.1 ≤ w.2 ∧ w.2 ≤ cells.length then some ((cells.drop w.1).take (w.2 - w.1)) else none

/-- all row slices of the first pass -/
def slices (cells : List α) (cols : List Nat) : Option (List (List α)) :=
  (windows2 cols).mapM (slice cells)

/-- `row.iter().position(|c| c != &T::default())` -/
def position : List α → Option Nat
  | [] => none
  | x :: xs => if x ≠ default then some 0 else (position xs).map (· + 1)

/-- `row.iter().rposition(|c| c != &T::default())` -/
def rposition : List α → Option Nat
  | [] => none
  | x :: xs =>
    match rposition xs with
    | some k => some (k + 1)
    | none => if x ≠ default then some 0 else none

/-- `is_empty_row` -/
def isEmptyRow (row : List α) : Bool := row.all (· = default)

/-- loop state of the first pass -/
structure P1 where
  rmin : Option Nat
  rmax : Nat
  cmin : Nat
  cmax : Nat
  fe : Nat
  deriving Repr, DecidableEq

/-- body of the first loop for row `i` -/
def p1Step (reps : List Nat) (s : P1) (i : Nat) (row : List α) : P1 :=
  match position row with
  | none => s
  | some p =>
    let s1 : P1 := if s.rmin.isNone then { s with rmin := some i, fe := (reps.take i).sum - i } else s
    let s2 : P1 := { s1 with rmax := i, cmin := if p < s1.cmin then p else s1.cmin }
    match rposition row with
    | some q => if q > s2.cmax then { s2 with cmax := q } else s2
    | none => s2

/-- `for (i, w) in cols.windows(2).enumerate()` -/
def pass1Loop (reps : List Nat) : List (List α) → Nat → P1 → P1
  | [], _, s => s
  | row :: rest, i, s => pass1Loop reps rest (i + 1) (p1Step reps s i row)

def pass1 (reps : List Nat) (rows : List (List α)) : P1 :=
  pass1Loop reps rows 0 ⟨none, 0, USIZE_MAX, 0, 0⟩

/-- the `match row.len().cmp(&(col_max + 1))` of the second pass: one output row -/
def fitRow (cmin cmax : Nat) (row : List α) : List α :=
  if row.length < cmax + 1 then row.drop cmin ++ (List.replicate (cmax + 1) default).drop row.length
  else if row.length = cmax + 1 then row.drop cmin
  else (row.drop cmin).take (cmax + 1 - cmin)

/-- `for _ in 0..n { new_cells.extend_from_slice(s) }` -/
def repeatSlice (n : Nat) (s : List α) : List α := (List.replicate n s).flatten

/-- The second loop over the zipped `(row, row_repeats)` pairs. `pad` is the slice appended for each
    pending empty row; state: `empty_row_repeats`, `consecutive_empty_rows`, `row_max`.
    Returns `new_cells` and the final `row_max`. -/
def pass2 (cmin cmax : Nat) (pad : List α) : List (List α × Nat) → Nat → Nat → Nat → List α × Nat
  | [], _, _, rmax => ([], rmax)
  | (row, rr) :: rest, er, ce, rmax =>
    if isEmptyRow row then pass2 cmin cmax pad rest (er + rr) (ce + 1) rmax
    else
      let rmax1 := if er > 0 then rmax + er - ce else rmax
      -- the two counters are reset inside the `if empty_row_repeats > 0` block only
      let ce1 := if er > 0 then 0 else ce
      let rmax2 := if rr > 1 then rmax1 + rr - 1 else rmax1
      let r := pass2 cmin cmax pad rest 0 ce1 rmax2
      (repeatSlice er pad ++ (repeatSlice rr (fitRow cmin cmax row) ++ r.1), r.2)

/-- `get_range` after the row slices have been taken. `fixed = false` is the code before the D19 fix
    (`extend_from_slice(&empty_cells)` instead of `&empty_cells[col_min..]`). -/
def getRangeRows (fixed : Bool) (rows : List (List α)) (reps : List Nat) : Rng α :=
  let s := pass1 reps rows
  match s.rmin with
  | none => Range.empty
  | some rmin =>
    let emptyCells : List α := List.replicate (s.cmax + 1) default
    let pad := if fixed then emptyCells.drop s.cmin else emptyCells
    let zipped := ((rows.drop rmin).take (s.rmax + 1)).zip ((reps.drop rmin).take (s.rmax + 1))
    let r := pass2 s.cmin s.cmax pad zipped 0 0 s.rmax
    { sr := (rmin + s.fe) % U32, sc := s.cmin % U32, er := (r.2 + s.fe) % U32, ec := s.cmax % U32, inner := r.1 }

/-- `get_range` (generic) -/
def getRangeG (fixed : Bool) (cells : List α) (cols reps : List Nat) : Res (Rng α) :=
  match slices cells cols with
  | none => .panic "slice index"
  | some rows => .ok (getRangeRows fixed rows reps)

/-- `get_range` as it is in the tree (after the D19 fix) -/
def getRange (f : Flat α) : Res (Rng α) := getRangeG true f.cells f.cols f.reps

/-- `get_range` before the D19 fix (kept for the witness in `Props/C04`) -/
def getRangeUnfixed (f : Flat α) : Res (Rng α) := getRangeG false f.cells f.cols f.reps

end OdsRange
