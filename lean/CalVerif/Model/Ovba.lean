import CalVerif.Prim.Res
/-! Model of the VBA extraction core of calamine (property C18).

    * `decompress`  mirrors `src/cfb.rs  decompress_stream` (MS-OVBA 2.4.1 decompression), after the
      D16 fix (the `'chunk` loop also stops on `chunk_len > chunk_size`) and the D34 robustness fix.
    * `dirWalk`     mirrors `src/vba.rs  read_dir_information` + `Reference::from_stream` + `read_modules`
      over the bytes of the decompressed `dir` stream.
    * `project`     mirrors `VbaProject::from_cfb` given a lookup of the compound file's streams.

    Representation choices (the only places where the model is not a transliteration):
    * the input slice `&s[i..]` is the *remaining* byte list `rest` (`i >= s.len()` ⇔ `rest = []`);
    * the output vector `res` is kept **newest byte first** (`out = res.reverse`), so that `res.push(b)` is `b :: out`
      and `res[res.len()-offset ..]` is `out.take offset` reversed, `res[res.len()-offset .. res.len()-offset+len]`
      is `(out.drop (offset-len)).take len` reversed; `decompress` reverses once at the end;
    * `bit_flags & (1 << bit_index)` for `bit_index = 0,1,…` is modelled by testing `flags % 2` and passing
      `flags / 2` to the next iteration of the `for` loop;
    * strings decoded by `encoding_rs` stay byte strings here (the harness decodes them with the same library);
      the few decisions the Rust code takes on *decoded* text (`is_empty`, `rsplit('#')`, `strip_prefix("*\\C")`)
      are taken on the bytes, which is the same for every code page in which `#`, `*`, `\`, `C` are the single
      bytes 0x23/0x2A/0x5C/0x43 and never part of a multi-byte sequence (all Windows/ISO single-byte pages,
      932, 936, 949, 950, 65001; not UTF-16 and ISO-2022, except that projects without libids — module records only —
      are independent of it). `decode_all` does no byte-order-mark handling (after /repo f350ba0, f4865f5), so a byte
      string is empty exactly when its decoded text is, and names are compared as the directory stores them.
    After the robustness fixes (ledger D34: /repo 3510bc7, a92e839) none of the modelled functions contains a panic
    site: every malformed input is an `err` (`decompress_no_panic`, `dirWalk_no_panic`). -/

namespace Ovba

abbrev Bytes := List UInt8

/-- `read_u16` of two bytes, little endian -/
@[inline] def u16le (lo hi : UInt8) : Nat := lo.toNat + 256 * hi.toNat

/-- `(4..16).find(|i| POWER_2[*i] >= decomp_len)` -/
def bitCount? (d : Nat) : Option Nat := (List.range' 4 12).find? (fun i => decide (2 ^ i ≥ d))

/-- the same with the `unwrap` resolved for the range where it cannot fail (`d ≤ 32768`) -/
def bitCount (d : Nat) : Nat := (bitCount? d).getD 16

/-- The copy of one copy token (after the guard `offset > res.len()`):
    ```
    while len > offset { res.extend_from_within(res.len() - offset..); len -= offset; }
    res.extend_from_within(res.len() - offset..res.len() - offset + len);
    ```
    `out` is `res` reversed, `olen` is `res.len()`. Fuel `len + 1` is always enough (`offset ≥ 1`). -/
def copyLoop (off : Nat) : Nat → Nat → Bytes → Nat → Res (Bytes × Nat)
  | 0, _, _, _ => .outOfFuel
  | fuel + 1, len, out, olen =>
    if len > off then copyLoop off fuel (len - off) (out.take off ++ out) (olen + off)
    else .ok ((out.drop (off - len)).take len ++ out, olen + len)

/-- loop state inside one compressed chunk: `rest = s[i..]`, `out = res` reversed, `olen = res.len()` (a `Vec`
    carries its length; the model does too instead of recounting the list), `clen = chunk_len` -/
structure St where
  rest : Bytes
  out : Bytes
  olen : Nat
  clen : Nat
  deriving Repr, DecidableEq

/-- `for bit_index in 0..8 { … }` with `n` iterations left and `flags = bit_flags >> bit_index`.
    Returns the state and whether `break 'chunk` was taken. `start` = `res.len()` at the chunk start. -/
def tokenLoop (size start : Nat) : Nat → Nat → St → Res (St × Bool)
  | 0, _, st => .ok (st, false)
  | n + 1, flags, st =>
    if st.clen > size then .ok (st, true)            -- `if chunk_len > chunk_size { break 'chunk; }`
    else if flags % 2 = 0 then
      -- literal token: `res.push(s[i]); i += 1; chunk_len += 1;`
      match st.rest with
      | [] => .err "invalid"                              -- `if i >= s.len() { return Err(invalid("literal token", …)) }`
      | b :: r => tokenLoop size start n (flags / 2) { rest := r, out := b :: st.out, olen := st.olen + 1, clen := st.clen + 1 }
    else
      -- copy token: `let token = read_u16(&s[i..]); i += 2; chunk_len += 2;`
      match st.rest with
      | lo :: hi :: r =>
        let token := u16le lo hi
        let decompLen := st.olen - start
        match bitCount? decompLen with
        | none => .err "invalid"                          -- `.ok_or_else(|| invalid("chunk", …))?`
        | some bc =>
          let lenMask := 0xFFFF >>> bc
          let len := (token &&& lenMask) + 3
          let offset := ((token &&& (0xFFFF ^^^ lenMask)) >>> (16 - bc)) + 1
          if offset > st.olen then .err "invalid"         -- the copy would start before the beginning of the output
          else
          match copyLoop offset (len + 1) len st.out st.olen with
          | .ok (out', olen') =>
            tokenLoop size start n (flags / 2) { rest := r, out := out', olen := olen', clen := st.clen + 2 }
          | .err e => .err e
          | .panic p => .panic p
          | .outOfFuel => .outOfFuel
      | _ => .err "invalid"                               -- `if s.len() - i < 2 { return Err(invalid("copy token", …)) }`

/-- `'chunk: loop { if i >= s.len() || chunk_len > chunk_size { break; } let bit_flags = s[i]; i += 1; chunk_len += 1; for … }`
    (the second disjunct is the D16 fix). Each iteration consumes the flag byte, so `rest.length + 1` fuel suffices. -/
def chunkLoop (size start : Nat) : Nat → St → Res St
  | 0, _ => .outOfFuel
  | fuel + 1, st =>
    match st.rest with
    | [] => .ok st
    | b :: r =>
      if st.clen > size then .ok st
      else
        match tokenLoop size start 8 b.toNat { rest := r, out := st.out, olen := st.olen, clen := st.clen + 1 } with
        | .ok (st', true) => .ok st'
        | .ok (st', false) => chunkLoop size start fuel st'
        | .err e => .err e
        | .panic p => .panic p
        | .outOfFuel => .outOfFuel

/-- `while i < s.len() { chunk header; raw or compressed chunk }`; `out` is `res` reversed, `olen = res.len()`. -/
def mainLoop : Nat → Bytes → Bytes → Nat → Res Bytes
  | 0, _, _, _ => .outOfFuel
  | fuel + 1, rest, out, olen =>
    match rest with
    | [] => .ok out
    | [_] => .err "invalid"                               -- `if s.len() - i < 2 { return Err(invalid("chunk header", …)) }`
    | lo :: hi :: r =>
      let header := u16le lo hi
      let size := header &&& 0x0FFF
      let signature := (header &&& 0x7000) >>> 12
      let flag := (header &&& 0x8000) >>> 15
      if signature ≠ 3 then .err "invalid"                -- `if chunk_signature != 0b011 { return Err(…) }`
      else if flag = 0 then
        -- `res.extend_from_slice(&s[i..i + 4096]); i += 4096;`
        if r.length < 4096 then .err "invalid"
        else mainLoop fuel (r.drop 4096) ((r.take 4096).reverse ++ out) (olen + 4096)
      else
        -- `let start = res.len();`
        match chunkLoop size olen (r.length + 1) { rest := r, out := out, olen := olen, clen := 0 } with
        | .ok st => mainLoop fuel st.rest st.out st.olen
        | .err e => .err e
        | .panic p => .panic p
        | .outOfFuel => .outOfFuel

/-- `decompress_stream(s)` -/
def decompress (s : Bytes) : Res Bytes :=
  match s with
  | [] => .err "invalid"                                  -- `if s.is_empty() { return Err(…) }`
  | b :: rest =>
    if b ≠ 0x01 then .err "invalid"           -- CfbError::Invalid { name: "signature", … }
    else
      match mainLoop (rest.length + 1) rest [] 0 with
      | .ok out => .ok out.reverse
      | .err e => .err e
      | .panic p => .panic p
      | .outOfFuel => .outOfFuel

/-! ## `dir` stream walk (`src/vba.rs`) -/

/-- `skip(stream, n)?` (checked `*stream = &stream[n..]`; a short stream is `Err(Io(UnexpectedEof))`) -/
def skip (n : Nat) (s : Bytes) : Res Bytes :=
  if s.length < n then .err "io" else .ok (s.drop n)

/-- `stream.read_u16::<LittleEndian>()?` (short input is `Err(Io)`) -/
def readU16 (s : Bytes) : Res (Nat × Bytes) :=
  match s with
  | a :: b :: r => .ok (u16le a b, r)
  | _ => .err "io"

/-- `stream.read_u32::<LittleEndian>()?` -/
def readU32 (s : Bytes) : Res (Nat × Bytes) :=
  match s with
  | a :: b :: c :: d :: r => .ok (a.toNat + 256 * b.toNat + 65536 * c.toNat + 16777216 * d.toNat, r)
  | _ => .err "io"

/-- `read_variable_record(r, 1)`: u32 length, then `split_at(len)` (`Err(Io(UnexpectedEof))` when too short) -/
def readVar (s : Bytes) : Res (Bytes × Bytes) := do
  let (len, r) ← readU32 s
  if len > r.length then .err "io" else .ok (r.take len, r.drop len)

/-- `check_record(id, r)` -/
def checkRecord (id : Nat) (s : Bytes) : Res Bytes := do
  let (rid, r) ← readU16 s
  if rid ≠ id then .err "recordid" else .ok r

/-- `check_variable_record(id, r)` -/
def checkVar (id : Nat) (s : Bytes) : Res (Bytes × Bytes) := do
  let r ← checkRecord id s
  readVar r

/-- the code pages `codepage::to_encoding` knows (crate codepage 0.1.3, table `CODE_PAGES`); swept against
    `XlsEncoding::from_codepage` over all 65536 values by the harness -/
def knownCodepages : List Nat :=
  [65001, 1200, 1252, 1251, 936, 932, 949, 1250, 1256, 1254, 950, 874, 1255, 1253, 1257, 1258,
   20932, 28592, 28605, 28597, 20866, 54936, 28595, 38598, 28594, 28596, 50221, 21866, 28603,
   28593, 1201, 866, 28600, 28598, 10000, 10017, 28604, 28606, 951, 10007, 20936, 20949, 21010,
   28591, 28599, 28601, 50220, 50222, 50225, 50227, 51936, 51949, 52936]

/-- `if read_u16(&stream[0..2]) == 0x004A { *stream = &stream[10..]; }` (optional PROJECTCOMPATVERSION) -/
def skipCompat (s : Bytes) : Res Bytes :=
  match s with
  | a :: b :: _ => if u16le a b = 0x004A then skip 10 s else .ok s
  | _ => .err "io"

/-- `XlsEncoding::from_codepage(read_u16(&stream[6..8]))?` -/
def readCodepage (s : Bytes) : Res Nat :=
  match s.drop 6 with
  | a :: b :: _ => if knownCodepages.contains (u16le a b) then .ok (u16le a b) else .err "codepage"
  | _ => .err "io"

/-- `read_dir_information`: returns the project code page and the rest of the stream -/
def readDirInformation (s : Bytes) : Res (Nat × Bytes) := do
  let s ← skip 10 s                                   -- PROJECTSYSKIND
  let s ← skipCompat s                                -- PROJECTCOMPATVERSION (optional)
  let s ← skip 20 s                                   -- PROJECTLCID, PROJECTLCIDINVOKE
  let cp ← readCodepage s                             -- PROJECTCODEPAGE
  let s ← skip 8 s
  let (_, s) ← checkVar 0x0004 s                      -- PROJECTNAME
  let (_, s) ← checkVar 0x0005 s                      -- PROJECTDOCSTRING
  let (_, s) ← checkVar 0x0040 s
  let (_, s) ← checkVar 0x0006 s                      -- PROJECTHELPFILEPATH
  let (_, s) ← checkVar 0x003D s
  let s ← skip 32 s                                   -- PROJECTHELPCONTEXT, PROJECTLIBFLAGS, PROJECTVERSION
  let (_, s) ← checkVar 0x000C s                      -- PROJECTCONSTANTS
  let (_, s) ← checkVar 0x003C s
  .ok (cp, s)

/-- a `Reference` with its strings still encoded -/
structure Ref where
  name : Bytes
  description : Bytes
  path : Bytes
  deriving Repr, DecidableEq

/-- `libid.rsplit('#')`: `(parts.next(), parts.next())` = (text after the last `#`, text between the last two);
    `none` when there is no `#` -/
def rsplitHash (l : Bytes) : Option (Bytes × Bytes) :=
  let r := l.reverse
  let desc := r.takeWhile (· ≠ 0x23)
  match r.dropWhile (· ≠ 0x23) with
  | [] => none
  | _ :: r2 => some (desc.reverse, (r2.takeWhile (· ≠ 0x23)).reverse)

def endsWithHashHash (l : Bytes) : Bool :=
  match l.reverse with
  | 0x23 :: 0x23 :: _ => true
  | _ => false

/-- `Reference::set_libid` -/
def setLibid (ref : Ref) (s : Bytes) : Res (Ref × Bytes) := do
  let (libid, s) ← readVar s
  if libid.isEmpty || endsWithHashHash libid then .ok (ref, s)
  else match rsplitHash libid with
    | some (desc, path) =>
      .ok ({ ref with description := desc,
                      path := if !path.isEmpty && ref.path.isEmpty then path else ref.path }, s)
    | none => .err "libid"

def pushIfNamed (refs : List Ref) (r : Ref) : List Ref := if r.name.isEmpty then refs else refs ++ [r]

/-- `absolute.strip_prefix("*\\C")` -/
def stripStarC (l : Bytes) : Bytes :=
  match l with
  | 0x2A :: 0x5C :: 0x43 :: r => r
  | _ => l

/-- arm `0x0016` (REFERENCENAME): `read_variable_record` + `check_variable_record(0x003E)` -/
def refName (s : Bytes) : Res (Bytes × Bytes) := do
  let (name, s) ← readVar s
  let (_, s) ← checkVar 0x003E s
  .ok (name, s)

/-- inside arm `0x002F`: `match stream.read_u16()? { 0x0016 => { name extended … check_record(0x0030) } 0x0030 => (), e => Err }` -/
def refControlExt (t : Nat) (s : Bytes) : Res Bytes :=
  if t = 0x0016 then do
    let (_, s) ← readVar s
    let (_, s) ← checkVar 0x003E s
    checkRecord 0x0030 s
  else if t = 0x0030 then .ok s
  else .err "unknown"

/-- arm `0x002F` (REFERENCECONTROL) -/
def refControl (cur : Ref) (s : Bytes) : Res (Ref × Bytes) := do
  let s ← skip 4 s
  let (cur, s) ← setLibid cur s
  let s ← skip 6 s
  let (t, s) ← readU16 s
  let s ← refControlExt t s
  let s ← skip 4 s
  let (cur, s) ← setLibid cur s
  let s ← skip 26 s
  .ok (cur, s)

/-- arm `0x000D` (REFERENCEREGISTERED) -/
def refRegistered (cur : Ref) (s : Bytes) : Res (Ref × Bytes) := do
  let s ← skip 4 s
  let (cur, s) ← setLibid cur s
  let s ← skip 6 s
  .ok (cur, s)

/-- arm `0x000E` (REFERENCEPROJECT) -/
def refProject (cur : Ref) (s : Bytes) : Res (Ref × Bytes) := do
  let s ← skip 4 s
  let (absolute, s) ← readVar s
  let (_, s) ← readVar s
  let s ← skip 6 s
  .ok ({ cur with path := stripStarC absolute }, s)

/-- `Reference::from_stream`: the `loop { match stream.read_u16()? { … } }`; every iteration consumes the
    2-byte id, so `s.length + 1` fuel suffices -/
def readReferences : Nat → Bytes → List Ref → Ref → Res (List Ref × Bytes)
  | 0, _, _, _ => .outOfFuel
  | fuel + 1, s, refs, cur =>
    match readU16 s with
    | .ok (id, s) =>
      if id = 0x000F then .ok (pushIfNamed refs cur, s)
      else if id = 0x0016 then
        match refName s with
        | .ok (name, s) => readReferences fuel s (pushIfNamed refs cur) { name := name, description := name, path := [] }
        | .err e => .err e | .panic m => .panic m | .outOfFuel => .outOfFuel
      else if id = 0x0033 then                          -- REFERENCEORIGINAL
        match setLibid cur s with
        | .ok (cur, s) => readReferences fuel s refs cur
        | .err e => .err e | .panic m => .panic m | .outOfFuel => .outOfFuel
      else if id = 0x002F then
        match refControl cur s with
        | .ok (cur, s) => readReferences fuel s refs cur
        | .err e => .err e | .panic m => .panic m | .outOfFuel => .outOfFuel
      else if id = 0x000D then
        match refRegistered cur s with
        | .ok (cur, s) => readReferences fuel s refs cur
        | .err e => .err e | .panic m => .panic m | .outOfFuel => .outOfFuel
      else if id = 0x000E then
        match refProject cur s with
        | .ok (cur, s) => readReferences fuel s refs cur
        | .err e => .err e | .panic m => .panic m | .outOfFuel => .outOfFuel
      else .err "unknown"
    | .err e => .err e | .panic m => .panic m | .outOfFuel => .outOfFuel

/-- a `Module` record: name and stream name still encoded -/
structure Module where
  name : Bytes
  streamName : Bytes
  textOffset : Nat
  deriving Repr, DecidableEq

/-- the trailing `loop { *stream = &stream[4..]; match read_u16 { 0x25 | 0x28 => (), 0x2B => break, … } }` -/
def moduleTail : Nat → Bytes → Res Bytes
  | 0, _ => .outOfFuel
  | fuel + 1, s => do
    let s ← skip 4 s
    let (id, s) ← readU16 s
    if id = 0x0025 || id = 0x0028 then moduleTail fuel s
    else if id = 0x002B then .ok s
    else .err "unknown"

/-- one iteration of `for _ in 0..module_len` in `read_modules` -/
def readModule (s : Bytes) : Res (Module × Bytes) := do
  let (name, s) ← checkVar 0x0019 s
  let (_, s) ← checkVar 0x0047 s
  let (streamName, s) ← checkVar 0x001A s
  let (_, s) ← checkVar 0x0032 s
  let (_, s) ← checkVar 0x001C s
  let (_, s) ← checkVar 0x0048 s
  let s ← checkRecord 0x0031 s
  let s ← skip 4 s
  let (offset, s) ← readU32 s
  let s ← checkRecord 0x001E s
  let s ← skip 8 s
  let s ← checkRecord 0x002C s
  let s ← skip 6 s
  let (typ, s) ← readU16 s
  if typ ≠ 0x0021 ∧ typ ≠ 0x0022 then .err "unknown" else
  let s ← moduleTail (s.length + 1) s
  let s ← skip 4 s
  .ok ({ name := name, streamName := streamName, textOffset := offset }, s)

def readModuleList : Nat → Bytes → List Module → Res (List Module × Bytes)
  | 0, s, acc => .ok (acc, s)
  | n + 1, s, acc => do
    let (m, s) ← readModule s
    readModuleList n s (acc ++ [m])

/-- `read_modules` -/
def readModules (s : Bytes) : Res (List Module × Bytes) := do
  let s ← skip 4 s
  let (count, s) ← readU16 s
  let s ← skip 8 s
  readModuleList count s []

/-- the three steps `from_cfb` runs on the decompressed `dir` stream -/
def dirWalk (s : Bytes) : Res (Nat × List Ref × List Module) := do
  let (cp, s) ← readDirInformation s
  let (refs, s) ← readReferences (s.length + 1) s [] { name := [], description := [], path := [] }
  let (mods, _) ← readModules s
  .ok (cp, refs, mods)

/-- `mods.into_iter().map(|m| get_stream(&m.stream_name).and_then(|s| decompress_stream(&s[m.text_offset..])…)).collect::<Result<_,_>>()`
    — stops at the first failure, in module order. `lookup` is the compound file (`none` = stream not found). -/
def readModuleStreams (lookup : Bytes → Option Bytes) : List Module → Res (List (Bytes × Bytes))
  | [] => .ok []
  | m :: ms =>
    match lookup m.streamName with
    | none => .err "streamnotfound"
    | some s =>
      if m.textOffset > s.length then .err "io"
      else do
        let raw ← decompress (s.drop m.textOffset)
        let restMods ← readModuleStreams lookup ms
        .ok ((m.name, raw) :: restMods)

/-- `VbaProject::from_cfb`: code page, references, and (module name, raw content) in `dir` order (the Rust
    code then collects them into a `BTreeMap` keyed by the decoded name — done by the harness) -/
def project (dirStream : Option Bytes) (lookup : Bytes → Option Bytes) :
    Res (Nat × List Ref × List (Bytes × Bytes)) :=
  match dirStream with
  | none => .err "streamnotfound"
  | some c => do
    let dir ← decompress c
    let (cp, refs, mods) ← dirWalk dir
    let ms ← readModuleStreams lookup mods
    .ok (cp, refs, ms)

end Ovba
