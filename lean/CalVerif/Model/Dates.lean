/-! Model of the serial → calendar conversions of `src/datatype.rs` (feature `dates`):
    `ExcelDateTime::{as_datetime, as_duration}` and the trait-level
    `DataType::{as_datetime, as_date, as_time, as_duration}`.

    Lean cannot reason about IEEE floats, so the model starts *after* the float step.
    The Rust code computes (all in f64, in this order)

        f  := if is_1904 { value + 1462.0 } else { value }
        f  := if f >= 60.0 { f } else { f + 1.0 }           -- the 1900 leap-year shim
        ms := f * 86_400_000.0
        (after fix D26)  if !ms.is_finite() { return None }
        ms.round() as i64                                    -- saturating cast

    The harness evaluates exactly this expression and hands the outcome to the model as an
    `MsIn` (`nonFinite`, or the saturated `i64`).  Everything from that integer on — chrono's
    `TimeDelta::try_milliseconds`, `NaiveDateTime::checked_add_signed`, the proleptic Gregorian
    calendar and chrono's representable span — is modelled here on `Int`.

    The shim and the 1904 offset are additionally modelled on whole-day serials as integer
    functions (`dayNumber1900`, `dayNumber1904`), so that the calendar theorems can be stated on
    serials; on whole days the float step is exact (`whole_days_exact` in Props/C11). -/

namespace Dates

/-- a calendar date: proleptic Gregorian year (astronomical numbering), month 1..12, day 1..31 -/
structure Date where
  y : Int
  m : Nat
  d : Nat
  deriving DecidableEq, Repr

/-- time of day -/
structure Time where
  h : Nat
  mi : Nat
  s : Nat
  ms : Nat
  deriving DecidableEq, Repr

structure DateTime where
  date : Date
  time : Time
  deriving DecidableEq, Repr

/-- outcome of the float step (see the header) -/
inductive MsIn where
  /-- `f * 86_400_000.0` was NaN or ±∞ -/
  | nonFinite : MsIn
  /-- `ms.round() as i64` (saturated to the i64 range; the harness only ever sends such values) -/
  | ms : Int → MsIn
  deriving DecidableEq, Repr

/-! ### days → civil date (chrono: `NaiveDate::add_days`, proleptic Gregorian)

The algorithm is written differently from chrono's (`cycle_to_yo` tables): it is the classic
“shift the year to start on 1 March” computation on 400-year eras, with the year found by a
cascade of century / 4-year / year divisions.  `civilOfDoe` works on natural numbers inside one
era; Props/C11 proves it against the step-by-step calendar of `Spec/Dates` for every day. -/

/-- days from 0000-03-01 to the Excel epoch 1899-12-30 -/
def epochShift : Int := 693899

/-- day-of-era (0 = 1 March of a year ≡ 0 mod 400) ↦ (year of era 0..399 counted from March,
    day of that March-based year 0..365): centuries of 36 524 days (the 4th has one more),
    4-year blocks of 1461 days (the 25th of a short century has one less), years of 365 days
    (the 4th of a block has one more). -/
def yearOfDoe (doe : Nat) : Nat × Nat :=
  let c := min (doe / 36524) 3
  let r := doe - c * 36524
  let q := r / 1461
  let r2 := r - q * 1461
  let a := min (r2 / 365) 3
  (c * 100 + q * 4 + a, r2 - a * 365)

/-- day of the March-based year (0 = 1 March … 305 = 31 December, 306 = 1 January …
    364 = 28 February, 365 = 29 February) ↦ (month, day) -/
def monthDayOfDoy (doy : Nat) : Nat × Nat :=
  let mp := (5 * doy + 2) / 153
  let d := doy - (153 * mp + 2) / 5 + 1
  (if mp < 10 then mp + 3 else mp - 9, d)

/-- day-of-era ↦ (civil year of era 0..400, month, day): January and February belong to the
    next civil year. -/
def civilOfDoe (doe : Nat) : Nat × Nat × Nat :=
  let yd := yearOfDoe doe
  let md := monthDayOfDoy yd.2
  (if md.1 ≤ 2 then yd.1 + 1 else yd.1, md.1, md.2)

/-- date that lies `n` days after (before, if negative) 1899-12-30 -/
def civilOfDays (n : Int) : Date :=
  let z := n + epochShift
  let era := z / 146097
  let doe := (z % 146097).toNat
  let c := civilOfDoe doe
  { y := era * 400 + c.1, m := c.2.1, d := c.2.2 }

/-! ### chrono's representable span -/

/-- `chrono::naive::date::MIN_YEAR` = `(i32::MIN >> 13) + 1` -/
def minYear : Int := -262143
/-- `chrono::naive::date::MAX_YEAR` = `(i32::MAX >> 13) - 1` -/
def maxYear : Int := 262142

/-- `NaiveDate::checked_add_signed(epoch_date, days)`: `None` when the day count does not fit an
    `i32` or the resulting year is outside `MIN_YEAR..=MAX_YEAR`.  (chrono's intermediate
    `cycle.checked_add(days)` overflow only happens for day counts whose year is far outside that
    span, so it needs no separate case.) -/
def addDaysChecked (days : Int) : Option Date :=
  if days < -2147483648 ∨ days > 2147483647 then none
  else
    let c := civilOfDays days
    if c.y < minYear ∨ c.y > maxYear then none else some c

/-- `NaiveTime` from seconds since midnight and milliseconds -/
def timeOfSecs (secsInDay : Nat) (milli : Nat) : Time :=
  { h := secsInDay / 3600, mi := secsInDay / 60 % 60, s := secsInDay % 60, ms := milli }

/-- `EXCEL_EPOCH.checked_add_signed(TimeDelta::milliseconds(ms))` for `ms` in the `TimeDelta`
    range, mirroring chrono's steps: split into seconds and milliseconds (floor), seconds into
    seconds-of-day and whole days (`NaiveTime::overflowing_add_signed` from 00:00:00), then add
    the days to the epoch date. -/
def civilOfMs (ms : Int) : Option DateTime :=
  let secs := ms / 1000
  let milli := (ms % 1000).toNat
  let secsInDay := (secs % 86400).toNat
  let days := (secs - secs % 86400) / 86400
  match addDaysChecked days with
  | none => none
  | some date => some { date := date, time := timeOfSecs secsInDay milli }

/-- `-i64::MAX`: the smallest millisecond count `TimeDelta::try_milliseconds` accepts -/
def minDeltaMs : Int := -9223372036854775807

/-- the guard in front of `Duration::milliseconds(ms)` for an `i64` argument (`ms == i64::MIN`
    ⇒ `None`; equivalently `TimeDelta::try_milliseconds(ms)`), as the total number of milliseconds -/
def tryMilliseconds (ms : Int) : Option Int :=
  if ms < minDeltaMs then none else some ms

/-- `ExcelDateTime::as_datetime` after the float step (with fix D26: non-finite ⇒ `None`,
    `try_milliseconds` instead of the panicking `milliseconds`) -/
def asDatetimeOfMs : MsIn → Option DateTime
  | .nonFinite => none
  | .ms v =>
    match tryMilliseconds v with
    | none => none
    | some d => civilOfMs d

/-- `ExcelDateTime::as_duration` after its float step `value * 86_400_000.0` (no offset, no
    shim): the duration in milliseconds -/
def durationOfMs : MsIn → Option Int
  | .nonFinite => none
  | .ms v => tryMilliseconds v

/-! ### the shim and the offset on whole-day serials -/

/-- 1900 system: `f = n; if f >= 60 { f } else { f + 1 }` — days after 1899-12-30 -/
def dayNumber1900 (n : Int) : Int := if n ≥ 60 then n else n + 1

/-- 1904 system: the 1462-day offset is added first, then the same shim -/
def dayNumber1904 (n : Int) : Int := dayNumber1900 (n + 1462)

def dayNumber (is1904 : Bool) (n : Int) : Int :=
  if is1904 then dayNumber1904 n else dayNumber1900 n

/-- the millisecond count the float step produces for a whole-day serial (exact below 2^53) -/
def msOfWholeDay (is1904 : Bool) (n : Int) : Int := dayNumber is1904 n * 86400000

/-- calendar date of a whole-day serial -/
def dateOfSerial (is1904 : Bool) (n : Int) : Date := civilOfDays (dayNumber is1904 n)

/-- `as_datetime` of a whole-day serial (float step replaced by its exact integer value) -/
def datetimeOfSerial (is1904 : Bool) (n : Int) : Option DateTime :=
  asDatetimeOfMs (.ms (msOfWholeDay is1904 n))

/-! ### serials, with the date system INSIDE the model

The serial of a cell is an `f64`.  The model keeps everything about it that is integer-exact and
takes from outside only what the float rounding decides:

* `whole n` — an integer-valued serial with |n| ≤ 10^8.  Every number the float step touches is
  then an integer below 2^53 (`whole_days_exact`), so the step is computed here, exactly.
* `frac day r1900 r1904 rDur` — a non-integer serial with |value| < 10^8: `day = ⌊value⌋`
  (exact), and the ROUNDED millisecond-of-day of the fractional part, `0 ..= 86 400 000`
  (86 400 000 = rounded up to the next midnight), as the real float expression produced it on
  each of the three paths (date step in the 1900 system, in the 1904 system, duration step; they
  can differ by a millisecond near a rounding tie).  The harness computes them as
  `M mod 86 400 000` (resp. 86 400 000 when the fraction is ≥ ½ and the remainder wrapped) from
  the outcome `M` of the float expression — it never tells the model which day or which system.
* `raw m1900 m1904 mDur` — everything else (NaN, ±∞, |value| > 10^8): the outcome of the float
  step on each path, opaque as in `MsIn`.

Which path is taken, the 1462-day offset and the leap-year shim are decided HERE from the cell's
flag (`dayNumber`). -/

inductive Serial where
  | whole (n : Int) : Serial
  | frac (day : Int) (r1900 r1904 rDur : Nat) : Serial
  | raw (m1900 m1904 mDur : MsIn) : Serial
  deriving DecidableEq, Repr

/-- the date float step `round((value [+ 1462] [+ 1]) * 86 400 000)` of `as_datetime` -/
def dateStep (is1904 : Bool) : Serial → MsIn
  | .whole n => .ms (dayNumber is1904 n * 86400000)
  | .frac day r0 r4 _ => .ms (dayNumber is1904 day * 86400000 + (if is1904 then r4 else r0))
  | .raw m0 m4 _ => if is1904 then m4 else m0

/-- the duration float step `round(value * 86 400 000)` of `as_duration` (no offset, no shim) -/
def durStep : Serial → MsIn
  | .whole n => .ms (n * 86400000)
  | .frac day _ _ rd => .ms (day * 86400000 + rd)
  | .raw _ _ md => md

/-- `ExcelDateTimeType` -/
inductive Kind where
  | dateTime : Kind
  | timeDelta : Kind
  deriving DecidableEq, Repr

/-- `ExcelDateTime::as_datetime` of `ExcelDateTime { value, datetime_type, is_1904 }`
    (the type flag is not consulted) -/
def edtAsDatetime (s : Serial) (is1904 : Bool) : Option DateTime := asDatetimeOfMs (dateStep is1904 s)

/-- `ExcelDateTime::as_duration` (neither flag is consulted) -/
def edtAsDuration (s : Serial) : Option Int := durationOfMs (durStep s)

/-- milliseconds since midnight -/
def Time.toMs (t : Time) : Nat := ((t.h * 60 + t.mi) * 60 + t.s) * 1000 + t.ms

/-! ### trait level: `DataType::{as_datetime, as_date, as_time, as_duration}` for `Data`/`DataRef`

A cell is reduced to what the conversions look at.  ISO strings are parsed by chrono, which is
not modelled: an ISO cell carries the outcomes of the chrono parsers the code calls on its text
(`NaiveDateTime::from_str`, `NaiveDate::from_str`, `NaiveTime::from_str`; for durations
`NaiveTime::parse_from_str(s, "PT%HH%MM%S%.fS")`), and the model is the branching around them. -/

inductive Cell where
  /-- `Int(n)`: the serial is `n as f64` (sent as `int` only for |n| ≤ 10^8, where that is exact) -/
  | int (n : Int) : Cell
  /-- `Float(value)` -/
  | float (s : Serial) : Cell
  /-- `DateTime(ExcelDateTime { value, datetime_type, is_1904 })` -/
  | dateTime (s : Serial) (is1904 : Bool) (kind : Kind) : Cell
  /-- `DateTimeIso(text)` with the three parser outcomes on `text` -/
  | dateTimeIso (pdt : Option DateTime) (pd : Option Date) (pt : Option Time) : Cell
  /-- `DurationIso(text)` with the outcome of the `PT…H…M…S` time parser -/
  | durationIso (pt : Option Time) : Cell
  /-- `String`, `Bool`, `Error`, `Empty` -/
  | other : Cell
  deriving DecidableEq, Repr

/-- `DataType::as_datetime`: `Int`/`Float` go through `ExcelDateTime::from_value_only`, i.e. the
    1900 system; a `DateTime` cell uses its own flag; ISO text is parsed -/
def Cell.asDatetime : Cell → Option DateTime
  | .int n => edtAsDatetime (.whole n) false
  | .float s => edtAsDatetime s false
  | .dateTime s is1904 _ => edtAsDatetime s is1904
  | .dateTimeIso pdt _ _ => pdt
  | .durationIso _ => none
  | .other => none

/-- `DataType::as_date` -/
def Cell.asDate (c : Cell) : Option Date :=
  match c with
  | .dateTimeIso _ pd _ =>
    match c.asDatetime with
    | some dt => some dt.date
    | none => pd
  | _ => c.asDatetime.map (·.date)

/-- `DataType::as_time` -/
def Cell.asTime (c : Cell) : Option Time :=
  match c with
  | .dateTimeIso _ _ pt =>
    match c.asDatetime with
    | some dt => some dt.time
    | none => pt
  | .durationIso pt => pt
  | _ => c.asDatetime.map (·.time)

/-- `DataType::as_duration` in milliseconds: `DateTime` cells (whatever their type flag) and ISO
    durations (the parsed time of day as a span); nothing else -/
def Cell.asDuration (c : Cell) : Option Int :=
  match c with
  | .dateTime s _ _ => edtAsDuration s
  | .durationIso _ => c.asTime.map (fun t => (t.toMs : Int))
  | _ => none

/-- What the serde helpers `deserialize_as_{datetime,date,time,duration}_or_{none,string}`
    (src/lib.rs) convert: they first rebuild a `Data` with `Data::deserialize`, and the cell
    deserializer's `deserialize_any` hands a `DateTime(v)` cell over as the bare `f64`
    (`visit_f64(v.as_f64())`), i.e. as a plain `Float` — the date-system flag and the fact that
    it was a date-time are gone — and ISO cells as their text (`visit_str`), i.e. as a `String`. -/
def Cell.viaSerde : Cell → Cell
  | .int n => .int n
  | .float s => .float s
  | .dateTime s _ _ => .float s
  | .dateTimeIso _ _ _ => .other
  | .durationIso _ => .other
  | .other => .other

end Dates
