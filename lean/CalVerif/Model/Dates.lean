/-! Model of the serial → calendar conversions of `src/datatype.rs` (feature `dates`):
    `ExcelDateTime::{as_datetime, as_duration}` and the trait-level
    `DataType::{as_datetime, as_date, as_time, as_duration}`.

    Lean cannot reason about IEEE floats, so the model starts *after* the float step.
    The Rust code computes (all in f64, in this order)

        f  := if is_1904 { value + 1462.0 } else { value }
        f  := if f >= 60.0 { f } else { f + 1.0 }           -- the 1900 leap-year shim
        ms := f * 86_400_000.0
        (after fix D26)  if !ms.is_finite() { return None }
        ms.round() as i64                                    -- saturating cast

    The harness evaluates exactly this expression and hands the outcome to the model as an
    `MsIn` (`nonFinite`, or the saturated `i64`).  Everything from that integer on — chrono's
    `TimeDelta::try_milliseconds`, `NaiveDateTime::checked_add_signed`, the proleptic Gregorian
    calendar and chrono's representable span — is modelled here on `Int`.

    The shim and the 1904 offset are additionally modelled on whole-day serials as integer
    functions (`dayNumber1900`, `dayNumber1904`), so that the calendar theorems can be stated on
    serials; on whole days the float step is exact (`whole_days_exact` in Props/C11). -/

namespace Dates

/-- a calendar date: proleptic Gregorian year (astronomical numbering), month 1..12, day 1..31 -/
structure Date where
  y : Int
  m : Nat
  d : Nat
  deriving DecidableEq, Repr

/-- time of day -/
structure Time where
  h : Nat
  mi : Nat
  s : Nat
  ms : Nat
  deriving DecidableEq, Repr

structure DateTime where
  date : Date
  time : Time
  deriving DecidableEq, Repr

/-- outcome of the float step (see the header) -/
inductive MsIn where
  /-- `f * 86_400_000.0` was NaN or ±∞ -/
  | nonFinite : MsIn
  /-- `ms.round() as i64` (saturated to the i64 range; the harness only ever sends such values) -/
  | ms : Int → MsIn
  deriving DecidableEq, Repr

/-! ### days → civil date (chrono: `NaiveDate::add_days`, proleptic Gregorian)

The algorithm is written differently from chrono's (`cycle_to_yo` tables): it is the classic
“shift the year to start on 1 March” computation on 400-year eras, with the year found by a
cascade of century / 4-year / year divisions.  `civilOfDoe` works on natural numbers inside one
era; Props/C11 proves it against the step-by-step calendar of `Spec/Dates` for every day. -/

/-- days from 0000-03-01 to the Excel epoch 1899-12-30 -/
def epochShift : Int := 693899

/-- day-of-era (0 = 1 March of a year ≡ 0 mod 400) ↦ (year of era 0..399 counted from March,
    day of that March-based year 0..365): centuries of 36 524 days (the 4th has one more),
    4-year blocks of 1461 days (the 25th of a short century has one less), years of 365 days
    (the 4th of a block has one more). -/
def yearOfDoe (doe : Nat) : Nat × Nat :=
  let c := min (doe / 36524) 3
  let r := doe - c * 36524
  let q := r / 1461
  let r2 := r - q * 1461
  let a := min (r2 / 365) 3
  (c * 100 + q * 4 + a, r2 - a * 365)

/-- day of the March-based year (0 = 1 March … 305 = 31 December, 306 = 1 January …
    364 = 28 February, 365 = 29 February) ↦ (month, day) -/
def monthDayOfDoy (doy : Nat) : Nat × Nat :=
  let mp := (5 * doy + 2) / 153
  let d := doy - (153 * mp + 2) / 5 + 1
  (if mp < 10 then mp + 3 else mp - 9, d)

/-- day-of-era ↦ (civil year of era 0..400, month, day): January and February belong to the
    next civil year. -/
def civilOfDoe (doe : Nat) : Nat × Nat × Nat :=
  let yd := yearOfDoe doe
  let md := monthDayOfDoy yd.2
  (if md.1 ≤ 2 then yd.1 + 1 else yd.1, md.1, md.2)

/-- date that lies `n` days after (before, if negative) 1899-12-30 -/
def civilOfDays (n : Int) : Date :=
  let z := n + epochShift
  let era := z / 146097
  let doe := (z % 146097).toNat
  let c := civilOfDoe doe
  { y := era * 400 + c.1, m := c.2.1, d := c.2.2 }

/-! ### chrono's representable span -/

/-- `chrono::naive::date::MIN_YEAR` = `(i32::MIN >> 13) + 1` -/
def minYear : Int := -262143
/-- `chrono::naive::date::MAX_YEAR` = `(i32::MAX >> 13) - 1` -/
def maxYear : Int := 262142

/-- `NaiveDate::checked_add_signed(epoch_date, days)`: `None` when the day count does not fit an
    `i32` or the resulting year is outside `MIN_YEAR..=MAX_YEAR`.  (chrono's intermediate
    `cycle.checked_add(days)` overflow only happens for day counts whose year is far outside that
    span, so it needs no separate case.) -/
def addDaysChecked (days : Int) : Option Date :=
  if days < -2147483648 ∨ days > 2147483647 then none
  else
    let c := civilOfDays days
    if c.y < minYear ∨ c.y > maxYear then none else some c

/-- `NaiveTime` from seconds since midnight and milliseconds -/
def timeOfSecs (secsInDay : Nat) (milli : Nat) : Time :=
  { h := secsInDay / 3600, mi := secsInDay / 60 % 60, s := secsInDay % 60, ms := milli }

/-- `EXCEL_EPOCH.checked_add_signed(TimeDelta::milliseconds(ms))` for `ms` in the `TimeDelta`
    range, mirroring chrono's steps: split into seconds and milliseconds (floor), seconds into
    seconds-of-day and whole days (`NaiveTime::overflowing_add_signed` from 00:00:00), then add
    the days to the epoch date. -/
def civilOfMs (ms : Int) : Option DateTime :=
  let secs := ms / 1000
  let milli := (ms % 1000).toNat
  let secsInDay := (secs % 86400).toNat
  let days := (secs - secs % 86400) / 86400
  match addDaysChecked days with
  | none => none
  | some date => some { date := date, time := timeOfSecs secsInDay milli }

/-- `-i64::MAX`: the smallest millisecond count `TimeDelta::try_milliseconds` accepts -/
def minDeltaMs : Int := -9223372036854775807

/-- the guard in front of `Duration::milliseconds(ms)` for an `i64` argument (`ms == i64::MIN`
    ⇒ `None`; equivalently `TimeDelta::try_milliseconds(ms)`), as the total number of milliseconds -/
def tryMilliseconds (ms : Int) : Option Int :=
  if ms < minDeltaMs then none else some ms

/-- `ExcelDateTime::as_datetime` after the float step (with fix D26: non-finite ⇒ `None`,
    `try_milliseconds` instead of the panicking `milliseconds`) -/
def asDatetimeOfMs : MsIn → Option DateTime
  | .nonFinite => none
  | .ms v =>
    match tryMilliseconds v with
    | none => none
    | some d => civilOfMs d

/-- `ExcelDateTime::as_duration` after its float step `value * 86_400_000.0` (no offset, no
    shim): the duration in milliseconds -/
def durationOfMs : MsIn → Option Int
  | .nonFinite => none
  | .ms v => tryMilliseconds v

/-! ### the shim and the offset on whole-day serials -/

/-- 1900 system: `f = n; if f >= 60 { f } else { f + 1 }` — days after 1899-12-30 -/
def dayNumber1900 (n : Int) : Int := if n ≥ 60 then n else n + 1

/-- 1904 system: the 1462-day offset is added first, then the same shim -/
def dayNumber1904 (n : Int) : Int := dayNumber1900 (n + 1462)

def dayNumber (is1904 : Bool) (n : Int) : Int :=
  if is1904 then dayNumber1904 n else dayNumber1900 n

/-- the millisecond count the float step produces for a whole-day serial (exact below 2^53) -/
def msOfWholeDay (is1904 : Bool) (n : Int) : Int := dayNumber is1904 n * 86400000

/-- calendar date of a whole-day serial -/
def dateOfSerial (is1904 : Bool) (n : Int) : Date := civilOfDays (dayNumber is1904 n)

/-- `as_datetime` of a whole-day serial (float step replaced by its exact integer value) -/
def datetimeOfSerial (is1904 : Bool) (n : Int) : Option DateTime :=
  asDatetimeOfMs (.ms (msOfWholeDay is1904 n))

/-! ### trait level: `DataType::{as_datetime, as_date, as_time, as_duration}` for `Data`/`DataRef`

A cell is reduced to what the conversions look at.  ISO strings are parsed by chrono
(`NaiveDateTime::from_str` …), which is not modelled; they are exercised by the harness only. -/

inductive Cell where
  /-- `Int(i)` / `Float(f)`: `msDt` is the float step of `ExcelDateTime::from_value_only(f)`
      (1900 system) -/
  | num (msDt : MsIn) : Cell
  /-- `DateTime(ExcelDateTime)`: `msDt` is the date float step under the value's own `is_1904`
      flag, `msDur` the duration float step.  The `datetime_type` flag is not consulted. -/
  | dateTime (msDt : MsIn) (msDur : MsIn) : Cell
  /-- `String`, `Bool`, `Error`, `Empty` -/
  | other : Cell
  deriving DecidableEq, Repr

/-- `DataType::as_datetime` -/
def Cell.asDatetime : Cell → Option DateTime
  | .num msDt => asDatetimeOfMs msDt
  | .dateTime msDt _ => asDatetimeOfMs msDt
  | .other => none

/-- `DataType::as_date` (non-ISO branch): `self.as_datetime().map(|dt| dt.date())` -/
def Cell.asDate (c : Cell) : Option Date := c.asDatetime.map (·.date)

/-- `DataType::as_time` (non-ISO branch): `self.as_datetime().map(|dt| dt.time())` -/
def Cell.asTime (c : Cell) : Option Time := c.asDatetime.map (·.time)

/-- `DataType::as_duration`: only `DateTime` cells (and ISO durations, not modelled) convert -/
def Cell.asDuration : Cell → Option Int
  | .dateTime _ msDur => durationOfMs msDur
  | _ => none

/-- What the serde helpers `deserialize_as_{datetime,date,time,duration}_or_{none,string}`
    (src/lib.rs) convert: they first rebuild a `Data` with `Data::deserialize`, and the cell
    deserializer's `deserialize_any` hands a `DateTime(v)` cell over as the bare `f64`
    (`visit_f64(v.as_f64())`), i.e. as a plain `Float` — the date-system flag and the fact that
    it was a date-time are gone.  `ms1900` is the date float step of the same value in the 1900
    system.  (ISO strings arrive as plain `String`s, i.e. `other`.) -/
def Cell.viaSerde (c : Cell) (ms1900 : MsIn) : Cell :=
  match c with
  | .num m => .num m
  | .dateTime _ _ => .num ms1900
  | .other => .other

end Dates
