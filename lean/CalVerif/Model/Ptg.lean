import CalVerif.Prim.Res
import CalVerif.Gen.Ftab
/-! Model of the formula-token decoders (C14):
    `/repo/src/utils.rs` `push_column`, `push_cell_ref`; `/repo/src/xls.rs` `parse_formula`,
    `parse_defined_names`, `read_unicode_string_no_cch`; `/repo/src/xlsb/mod.rs` `parse_formula`.

    Shape. Both Rust functions are one loop `while !rgce.is_empty() { match ptg { … } }` over a
    token stream, with two pieces of state: the output `String` and a `Vec<usize>` of start offsets of
    the operands inside it.  Every arm (a) reads the bytes of its token and (b) performs ONE of nine
    kinds of edit on (string, stack).  The model keeps the two halves apart:
      * `decodeXls` / `decodeXlsb` mirror the `match` arm by arm: which bytes are read (a token
        that is too short is an error since the token-length fix), which errors are returned, and which edit (`Act`) results;
      * `applyAct` mirrors the edits (`split_off`, `insert`, the argument re-joining of PtgFunc).
    The order of effects inside one arm is kept (an arm that tests the stack before reading a byte
    does so here too: see PtgAttrSpace), so that error-vs-panic outcomes agree with the code.

    Representation choices (validated by the correspondence run, not proved):
      * the output buffer is a `List Char` and offsets count characters; Rust offsets count UTF-8 bytes.
        Every offset the code ever uses was `formula.len()` when pushed and the text before the last
        stack entry is never edited afterwards (theorem `offsets_never_panic` in Props/C14), so the offsets are
        character boundaries and the two readings select the same text;
      * numbers: `PtgNum` is printed by Rust's `Display for f64`; the model takes the printer as the
        parameter `Ctx.fmtNum` (bits → text) and nothing else depends on it;
      * strings: BIFF8 only (code page 1200): a compressed string is Latin-1, an uncompressed one is
        UTF-16LE with U+FFFD for unpaired surrogates (`encoding_rs` `decode_without_bom_handling`). -/

namespace Ptg

abbrev Bytes := List UInt8

/-- `s[i]` as a number (0 when out of range: callers guard with `need`) -/
def byteAt (b : Bytes) (i : Nat) : Nat := (b.getD i 0).toNat
/-- `read_u16(&s[i..])` -/
def u16 (b : Bytes) (i : Nat) : Nat := byteAt b i + 256 * byteAt b (i + 1)
/-- `read_u32(&s[i..])` -/
def u32 (b : Bytes) (i : Nat) : Nat := u16 b i + 65536 * u16 b (i + 2)
/-- `read_f64(&s[i..])` as its bit pattern -/
def u64 (b : Bytes) (i : Nat) : Nat := u32 b i + 4294967296 * u32 b (i + 4)

/-- `rgce_need(rgce, n)?` (both decoders): a token that needs `n` bytes when fewer are left is an error;
    xls: `XlsError::Len { expected, found, typ: "formula token" }`, xlsb: `short_record("formula token", found)`
    = `XlsbError::Unrecognized { typ, val: found.to_string() }` (their `Debug` texts) -/
def need (xls : Bool) (b : Bytes) (n : Nat) : Res Unit :=
  if b.length < n then
    .err (if xls then "Len { expected: " ++ toString n ++ ", found: " ++ toString b.length ++ ", typ: \"formula token\" }"
          else "Unrecognized { typ: \"formula token\", val: \"" ++ toString b.length ++ "\" }")
  else .ok ()

/-- a checked read that needs `n` bytes: `XlsError::Len { expected, found, typ }` (its `Debug` text) when fewer
    are left (length checks added by the robustness fix b5774ce) -/
def needLen (typ : String) (b : Bytes) (n : Nat) : Res Unit :=
  if b.length < n then
    .err ("Len { expected: " ++ toString n ++ ", found: " ++ toString b.length ++ ", typ: \"" ++ typ ++ "\" }")
  else .ok ()

/-! ### `utils.rs` -/

/-- the `while n > 0` loop of `push_column` (letters least significant first) -/
def colLettersRev (n : Nat) : List Char :=
  if n = 0 then [] else Char.ofNat (65 + (n - 1) % 26) :: colLettersRev ((n - 1) / 26)
termination_by n
decreasing_by omega

/-- `push_column(col, buf)`: the text appended to `buf` (bijective base 26) -/
def pushColumn (col : Nat) : List Char := (colLettersRev (col + 1)).reverse

def natText (n : Nat) : List Char := (Nat.repr n).toList

/-- `push_cell_ref(row, col_rel, buf)`: `col_rel & 0x4000 == 0` ⇒ `$` before the column,
    `col_rel & 0x3FFF` is the column, `col_rel & 0x8000 == 0` ⇒ `$` before the row, `row + 1` in u64.
    (the masks are written with `/` and `%`: `x & 0x3FFF = x % 0x4000`, `x & 0x4000 = 0 ↔ x / 0x4000 % 2 = 0`) -/
def cellRef (row colRel : Nat) : List Char :=
  (if colRel / 0x4000 % 2 = 0 then ['$'] else []) ++ pushColumn (colRel % 0x4000) ++
  (if colRel / 0x8000 % 2 = 0 then ['$'] else []) ++ natText (row + 1)

/-- `FTAB[iftab]` -/
def ftabName (iftab : Nat) : Option (List Char) := (Gen.ftab[iftab]?).map String.toList

/-! ### strings -/

/-- UTF-16 code units → text as `encoding_rs` decodes it (unpaired surrogate ⇒ U+FFFD) -/
def decodeUtf16 : List Nat → List Char
  | [] => []
  | [u] => if 0xD800 ≤ u ∧ u < 0xE000 then [Char.ofNat 0xFFFD] else [Char.ofNat u]
  | u :: v :: rest =>
    if 0xD800 ≤ u ∧ u < 0xDC00 then
      if 0xDC00 ≤ v ∧ v < 0xE000 then
        Char.ofNat (0x10000 + (u - 0xD800) * 1024 + (v - 0xDC00)) :: decodeUtf16 rest
      else Char.ofNat 0xFFFD :: decodeUtf16 (v :: rest)
    else if 0xDC00 ≤ u ∧ u < 0xE000 then Char.ofNat 0xFFFD :: decodeUtf16 (v :: rest)
    else Char.ofNat u :: decodeUtf16 (v :: rest)

/-- `n` little-endian 16-bit units starting at byte `off` -/
def units (b : Bytes) (off : Nat) : Nat → List Nat
  | 0 => []
  | n + 1 => u16 b off :: units b (off + 2) n
/-- `n` bytes starting at `off`, each widened to a unit (compressed string) -/
def narrow (b : Bytes) (off : Nat) : Nat → List Nat
  | 0 => []
  | n + 1 => byteAt b off :: narrow b (off + 1) n

/-! ### state and edits -/

structure St where
  /-- `formula: String` -/
  buf : List Char
  /-- `stack: Vec<usize>`, top = last -/
  stk : List Nat
  deriving Repr, DecidableEq

/-- the edits the `match` arms perform -/
inductive Act where
  /-- `stack.push(formula.len()); formula.push_str(txt)` (operands; `txt = []` for PtgMissArg/PtgExp) -/
  | push (txt : List Char)
  /-- `0x03..=0x11` -/
  | binop (op : List Char)
  /-- `0x12`, `0x13`: `formula.insert(*stack.last()?, c)` -/
  | pre (c : Char)
  /-- `0x14` -/
  | percent
  /-- `0x15` -/
  | paren
  /-- PtgAttrSum -/
  | sum
  /-- PtgAttrSpace (xls): `cch` times `formula.insert(e, c)` -/
  | spaces (c : Char) (cch : Nat)
  /-- tokens that only move the cursor -/
  | nop
  /-- PtgFunc / PtgFuncVar after `(iftab, argc)` is known; both decoders look the name up with
      `FTAB.get(iftab).ok_or(IfTab)`; `checked` only records which decoder produced the edit (true = xls) -/
  | func (iftab argc : Nat) (checked : Bool)
  deriving Repr, DecidableEq

/-- `String::insert(i, c)` on a boundary -/
def insertAt (l : List Char) (i : Nat) (c : Char) : List Char := l.take i ++ c :: l.drop i

/-- `for w in args.windows(2) { push_str(&fargs[w[0]..w[1]]); push(',') }; pop()` -/
def joinArgs (fargs : List Char) : List Nat → Res (List Char)
  | [] => .ok []
  | a :: tl =>
    match tl with
    | [] => .ok []
    | b :: rest =>
      if a > b ∨ b > fargs.length then .panic "fargs slice" else
      if rest.isEmpty then .ok ((fargs.drop a).take (b - a)) else
      match joinArgs fargs tl with
      | .ok t => .ok ((fargs.drop a).take (b - a) ++ ',' :: t)
      | e => e

def applyAct (a : Act) (s : St) : Res St :=
  match a with
  | .push t => .ok ⟨s.buf ++ t, s.stk ++ [s.buf.length]⟩
  | .binop op =>
    match s.stk.getLast? with
    | none => .err "StackLen"
    | some e2 =>
      if e2 > s.buf.length then .panic "split_off" else
      .ok ⟨s.buf.take e2 ++ op ++ s.buf.drop e2, s.stk.dropLast⟩
  | .pre c =>
    match s.stk.getLast? with
    | none => .err "StackLen"
    | some e => if e > s.buf.length then .panic "insert" else .ok ⟨insertAt s.buf e c, s.stk⟩
  | .percent => .ok ⟨s.buf ++ ['%'], s.stk⟩
  | .paren =>
    match s.stk.getLast? with
    | none => .err "StackLen"
    | some e => if e > s.buf.length then .panic "insert" else .ok ⟨insertAt s.buf e '(' ++ [')'], s.stk⟩
  | .sum =>
    match s.stk.getLast? with
    | none => .err "StackLen"
    | some e =>
      if e > s.buf.length then .panic "split_off" else
      .ok ⟨s.buf.take e ++ "SUM(".toList ++ s.buf.drop e ++ [')'], s.stk⟩
  | .spaces c n =>
    match s.stk.getLast? with
    | none => .err "StackLen"
    | some e =>
      if n > 0 ∧ e > s.buf.length then .panic "insert" else
      .ok ⟨s.buf.take e ++ List.replicate n c ++ s.buf.drop e, s.stk⟩
  | .nop => .ok s
  | .func iftab argc _checked =>
    if s.stk.length < argc then .err "StackLen" else
    if argc > 0 then
      let keep := s.stk.take (s.stk.length - argc)
      let args := s.stk.drop (s.stk.length - argc)
      let start := args.headD 0
      -- `*s -= start` under overflow checks
      if args.any (· < start) then .panic "sub overflow" else
      if start > s.buf.length then .panic "split_off" else
      let fargs := s.buf.drop start
      let buf0 := s.buf.take start
      match ftabName iftab with
      | none => .err s!"IfTab({iftab})"
      | some name =>
        match joinArgs fargs (args.map (· - start) ++ [fargs.length]) with
        | .ok t => .ok ⟨buf0 ++ name ++ '(' :: t ++ [')'], keep ++ [buf0.length]⟩
        | .err e => .err e
        | .panic p => .panic p
        | .outOfFuel => .outOfFuel
    else
      match ftabName iftab with
      | none => .err s!"IfTab({iftab})"
      | some name => .ok ⟨s.buf ++ name ++ ['(', ')'], s.stk ++ [s.buf.length]⟩

/-! ### context -/

structure Ctx where
  /-- xls: the workbook's sheet names; xlsb: the resolved extern-sheet table (indexed by `ixti`) -/
  sheets : List (List Char)
  /-- defined names (`names[i].0`) -/
  names : List (List Char)
  /-- xls only: `itab_first` of every XTI entry (i16) -/
  xtis : List Int
  /-- `format!("{}", f64::from_bits(bits))` -/
  fmtNum : Nat → List Char

/-- xls: `xtis.get(ixti).and_then(|x| sheets.get(x.itab_first as usize)).map_or("#REF", …)` -/
def sheetXls (ctx : Ctx) (ixti : Nat) : List Char :=
  match ctx.xtis[ixti]? with
  | none => "#REF".toList
  | some it => if it < 0 then "#REF".toList else (ctx.sheets[it.toNat]?).getD "#REF".toList

def opText (ptg : Nat) : List Char :=
  match ptg with
  | 0x03 => ['+'] | 0x04 => ['-'] | 0x05 => ['*'] | 0x06 => ['/'] | 0x07 => ['^'] | 0x08 => ['&']
  | 0x09 => ['<'] | 0x0A => ['<', '='] | 0x0B => ['='] | 0x0C => ['>'] | 0x0D => ['>', '=']
  | 0x0E => ['<', '>'] | 0x0F => [' '] | 0x10 => [','] | _ => [':']

/-- the PtgErr table (same codes in both decoders) -/
def errText (code : Nat) : Option (List Char) :=
  match code with
  | 0x00 => some "#NULL!".toList | 0x07 => some "#DIV/0!".toList | 0x0F => some "#VALUE!".toList
  | 0x17 => some "#REF!".toList | 0x1D => some "#NAME?".toList | 0x24 => some "#NUM!".toList
  | 0x2A => some "#N/A".toList | 0x2B => some "#GETTING_DATA".toList | _ => none

def errUnrec (typ : String) (val : Nat) : String :=
  "Unrecognized { typ: \"" ++ typ ++ "\", val: " ++ toString val ++ " }"

/-- the `(iftab, argc)` part of the PtgFunc arm (identical in both decoders) -/
def decodeFuncFixed (r : Bytes) (checked : Bool) : Res (Act × Bytes) := do
  need checked r 2
  let iftab := u16 r 0
  if iftab ≥ Gen.ftabLen then .err s!"IfTab({iftab})" else
  match Gen.ftabArgc[iftab]? with
  | none => .panic "FTAB_ARGC index"
  | some argc => .ok (.func iftab argc checked, r.drop 2)

/-- PtgFuncVar: `argc = rgce[0]`, `iftab = read_u16(&rgce[1..])` -/
def decodeFuncVar (r : Bytes) (checked : Bool) : Res (Act × Bytes) := do
  need checked r 3
  .ok (.func (u16 r 1) (byteAt r 0) checked, r.drop 3)

/-! ### `xls.rs parse_formula` -/

/-- one arm of the `match ptg` of `xls.rs parse_formula`; `r` = the bytes after the ptg byte;
    `stkEmpty` = `stack.is_empty()` (the PtgAttrSpace arm tests it before it reads its bytes) -/
def decodeXls (ctx : Ctx) (stkEmpty : Bool) (ptg : Nat) (r : Bytes) : Res (Act × Bytes) :=
  match ptg with
  | 0x3a | 0x5a | 0x7a => do  -- PtgRef3d
    need true r 6
    .ok (.push (sheetXls ctx (u16 r 0) ++ '!' :: cellRef (u16 r 2) (u16 r 4)), r.drop 6)
  | 0x3b | 0x5b | 0x7b => do  -- PtgArea3d
    need true r 10
    .ok (.push (sheetXls ctx (u16 r 0) ++ '!' :: cellRef (u16 r 2) (u16 r 6) ++ ':' :: cellRef (u16 r 4) (u16 r 8)),
         r.drop 10)
  | 0x3c | 0x5c | 0x7c => do  -- PtgRefErr3d
    need true r 6
    .ok (.push (sheetXls ctx (u16 r 0) ++ '!' :: "#REF!".toList), r.drop 6)
  | 0x3d | 0x5d | 0x7d => do  -- PtgAreaErr3d
    need true r 10
    .ok (.push (sheetXls ctx (u16 r 0) ++ '!' :: "#REF!".toList), r.drop 10)
  | 0x01 => do  -- PtgExp
    need true r 4
    .ok (.push [], r.drop 4)
  | 0x03 | 0x04 | 0x05 | 0x06 | 0x07 | 0x08 | 0x09 | 0x0A | 0x0B | 0x0C | 0x0D | 0x0E | 0x0F | 0x10 | 0x11 =>
    .ok (.binop (opText ptg), r)
  | 0x12 => .ok (.pre '+', r)
  | 0x13 => .ok (.pre '-', r)
  | 0x14 => .ok (.percent, r)
  | 0x15 => .ok (.paren, r)
  | 0x16 => .ok (.push [], r)
  | 0x17 => do  -- PtgStr: cch, flags, characters
    need true r 2
    let cch := byteAt r 0
    let high := byteAt r 1 % 2 = 1
    let nbytes := if high then 2 * cch else cch
    need true r (2 + nbytes)
    let txt := decodeUtf16 (if high then units r 2 cch else narrow r 2 cch)
    .ok (.push ('"' :: txt ++ ['"']), r.drop (2 + nbytes))
  | 0x18 => do
    need true r 5
    .ok (.nop, r.drop 5)
  | 0x19 => do  -- PtgAttr*
    need true r 1
    let etpg := byteAt r 0
    let r := r.drop 1
    match etpg with
    | 0x01 | 0x02 | 0x08 | 0x20 | 0x21 => do
      need true r 2
      .ok (.nop, r.drop 2)
    | 0x04 => do  -- PtgAttrChoose
      need true r 2
      let n := u16 r 0 + 1
      need true r (2 + 2 * n)
      .ok (.nop, r.drop (2 + 2 * n))
    | 0x10 => do
      need true r 2
      .ok (.sum, r.drop 2)
    | 0x40 | 0x41 =>
      if stkEmpty then .err "StackLen" else do
      need true r 1
      let ty := byteAt r 0
      if ty > 6 then .err (errUnrec "PtgAttrSpaceType" ty) else do
      need true r 2
      .ok (.spaces (if ty % 2 = 0 then ' ' else '\r') (byteAt r 1), r.drop 2)
    | e => .err s!"Etpg({e})"
  | 0x1C => do  -- PtgErr
    need true r 1
    match errText (byteAt r 0) with
    | some t => .ok (.push t, r.drop 1)
    | none => .err (errUnrec "BErr" (byteAt r 0))
  | 0x1D => do
    need true r 1
    .ok (.push (if byteAt r 0 = 0 then "FALSE".toList else "TRUE".toList), r.drop 1)
  | 0x1E => do
    need true r 2
    .ok (.push (natText (u16 r 0)), r.drop 2)
  | 0x1F => do
    need true r 8
    .ok (.push (ctx.fmtNum (u64 r 0)), r.drop 8)
  | 0x20 | 0x40 | 0x60 => do
    need true r 7
    .ok (.push "{PtgArray}".toList, r.drop 7)
  | 0x22 | 0x42 | 0x62 => decodeFuncVar r true
  | 0x21 | 0x41 | 0x61 => decodeFuncFixed r true
  | 0x23 | 0x43 | 0x63 => do  -- PtgName: `(read_u32(rgce) as usize).checked_sub(1)`
    need true r 4
    .ok (.push (if u32 r 0 = 0 then "#REF!".toList else (ctx.names[u32 r 0 - 1]?).getD "#REF!".toList), r.drop 4)
  | 0x24 | 0x44 | 0x64 => do  -- PtgRef
    need true r 4
    .ok (.push (cellRef (u16 r 0) (u16 r 2)), r.drop 4)
  | 0x25 | 0x45 | 0x65 => do  -- PtgArea
    need true r 8
    .ok (.push (cellRef (u16 r 0) (u16 r 4) ++ ':' :: cellRef (u16 r 2) (u16 r 6)), r.drop 8)
  | 0x2A | 0x4A | 0x6A => do
    need true r 4
    .ok (.push "#REF!".toList, r.drop 4)
  | 0x2B | 0x4B | 0x6B => do
    need true r 8
    .ok (.push "#REF!".toList, r.drop 8)
  | 0x39 | 0x59 => do
    need true r 6
    .ok (.push "[PtgNameX]".toList, r.drop 6)
  | _ => .err (errUnrec "ptg" ptg)

/-- the `while !rgce.is_empty()` loop (one unit of fuel per token; `rgce.length` always suffices) -/
def runXls (ctx : Ctx) : Nat → Bytes → St → Res St
  | _, [], st => .ok st
  | 0, _ :: _, _ => .outOfFuel
  | fuel + 1, p :: r, st =>
    match decodeXls ctx st.stk.isEmpty p.toNat r with
    | .ok (a, r') =>
      match applyAct a st with
      | .ok st' => runXls ctx fuel r' st'
      | .err e => .err e
      | .panic e => .panic e
      | .outOfFuel => .outOfFuel
    | .err e => .err e
    | .panic e => .panic e
    | .outOfFuel => .outOfFuel

/-- `xls.rs parse_formula(rgce, sheets, names, xtis, encoding)`; `rgce` starts with the 2-byte `cce` -/
def parseFormulaXls (ctx : Ctx) (rgce : Bytes) : Res (List Char) := do
  needLen "formula" rgce 2
  let cce := u16 rgce 0
  needLen "formula" rgce (2 + cce)
  let body := (rgce.drop 2).take cce
  match runXls ctx body.length body ⟨[], []⟩ with
  | .ok st =>
    if st.stk.length = 1 then .ok st.buf
    else .err ("InvalidFormula { stack_size: " ++ toString st.stk.length ++ " }")
  | .err e => .err e
  | .panic e => .panic e
  | .outOfFuel => .outOfFuel

/-! ### `xlsb/mod.rs parse_formula` -/

/-- `sheets.get(ixti as usize).map_or("#REF", …)` -/
def sheetXlsb (ctx : Ctx) (ixti : Nat) : List Char := (ctx.sheets[ixti]?).getD "#REF".toList

/-- one arm of the `match ptg` of `xlsb/mod.rs parse_formula` (all but PtgMemFunc, which recurses) -/
def decodeXlsb (ctx : Ctx) (ptg : Nat) (r : Bytes) : Res (Act × Bytes) :=
  match ptg with
  | 0x3a | 0x5a | 0x7a => do  -- PtgRef3d
    need false r 8
    let sh := sheetXlsb ctx (u16 r 0)
    .ok (.push (sh ++ '!' :: cellRef (u32 r 2) (u16 r 6)), r.drop 8)
  | 0x3b | 0x5b | 0x7b => do  -- PtgArea3d
    need false r 14
    let sh := sheetXlsb ctx (u16 r 0)
    .ok (.push (sh ++ '!' :: cellRef (u32 r 2) (u16 r 10) ++ ':' :: cellRef (u32 r 6) (u16 r 12)), r.drop 14)
  | 0x3c | 0x5c | 0x7c => do
    need false r 8
    let sh := sheetXlsb ctx (u16 r 0)
    .ok (.push (sh ++ '!' :: "#REF!".toList), r.drop 8)
  | 0x3d | 0x5d | 0x7d => do
    need false r 14
    let sh := sheetXlsb ctx (u16 r 0)
    .ok (.push (sh ++ '!' :: "#REF!".toList), r.drop 14)
  | 0x01 => do
    need false r 4
    .ok (.push [], r.drop 4)
  | 0x03 | 0x04 | 0x05 | 0x06 | 0x07 | 0x08 | 0x09 | 0x0A | 0x0B | 0x0C | 0x0D | 0x0E | 0x0F | 0x10 | 0x11 =>
    .ok (.binop (opText ptg), r)
  | 0x12 => .ok (.pre '+', r)
  | 0x13 => .ok (.pre '-', r)
  | 0x14 => .ok (.percent, r)
  | 0x15 => .ok (.paren, r)
  | 0x16 => .ok (.push [], r)
  | 0x17 => do  -- PtgStr: u16 cch, UTF-16LE characters
    need false r 2
    let cch := u16 r 0
    need false r (2 + 2 * cch)
    .ok (.push ('"' :: decodeUtf16 (units r 2 cch) ++ ['"']), r.drop (2 + 2 * cch))
  | 0x18 => do  -- PtgExtend
    need false r 1
    let eptg := byteAt r 0
    let r := r.drop 1
    match eptg with
    | 0x19 => do
      need false r 12
      .ok (.push [], r.drop 12)
    | 0x1D => do
      need false r 4
      .ok (.push [], r.drop 4)
    | e => .err s!"Etpg({e})"
  | 0x19 => do
    need false r 1
    let eptg := byteAt r 0
    let r := r.drop 1
    match eptg with
    | 0x01 | 0x02 | 0x08 | 0x20 | 0x21 | 0x40 | 0x41 | 0x80 => do
      need false r 2
      .ok (.nop, r.drop 2)
    | 0x04 => do  -- PtgAttrChoose: cOffset, then cOffset + 1 offsets
      need false r 2
      let n := u16 r 0 + 1
      need false r (2 + 2 * n)
      .ok (.nop, r.drop (2 + 2 * n))
    | 0x10 => do
      need false r 2
      .ok (.sum, r.drop 2)
    | e => .err s!"Etpg({e})"
  | 0x1C => do
    need false r 1
    match errText (byteAt r 0) with
    | some t => .ok (.push t, r.drop 1)
    | none => .err s!"BErr({byteAt r 0})"
  | 0x1D => do
    need false r 1
    .ok (.push (if byteAt r 0 = 0 then "FALSE".toList else "TRUE".toList), r.drop 1)
  | 0x1E => do
    need false r 2
    .ok (.push (natText (u16 r 0)), r.drop 2)
  | 0x1F => do
    need false r 8
    .ok (.push (ctx.fmtNum (u64 r 0)), r.drop 8)
  | 0x20 | 0x40 | 0x60 => do
    need false r 14
    .ok (.push [], r.drop 14)
  | 0x22 | 0x42 | 0x62 => decodeFuncVar r false
  | 0x21 | 0x41 | 0x61 => decodeFuncFixed r false
  | 0x23 | 0x43 | 0x63 => do
    need false r 4
    .ok (.push (if u32 r 0 = 0 then [] else (ctx.names[u32 r 0 - 1]?).getD []), r.drop 4)
  | 0x24 | 0x44 | 0x64 => do
    need false r 6
    .ok (.push (cellRef (u32 r 0) (u16 r 4)), r.drop 6)
  | 0x25 | 0x45 | 0x65 => do
    need false r 12
    .ok (.push (cellRef (u32 r 0) (u16 r 8) ++ ':' :: cellRef (u32 r 4) (u16 r 10)), r.drop 12)
  | 0x2A | 0x4A | 0x6A => do
    need false r 6
    .ok (.push "#REF!".toList, r.drop 6)
  | 0x2B | 0x4B | 0x6B => do
    need false r 12
    .ok (.push "#REF!".toList, r.drop 12)
  | 0x39 | 0x59 | 0x79 => do
    need false r 6
    .ok (.push "EXTERNAL_WB_NAME".toList, r.drop 6)
  | _ => .err s!"Ptg({ptg})"

def isMemFunc (ptg : Nat) : Bool := ptg = 0x29 || ptg = 0x49 || ptg = 0x69

/-- the closing test `if stack.len() == 1 { Ok(formula) } else { Err(StackLen) }` -/
def finishXlsb (st : St) : Res (List Char) :=
  if st.stk.length = 1 then .ok st.buf else .err "StackLen"

/-- `MAX_FORMULA_NESTING`: how deep PtgMemFunc sub-expressions may nest -/
def maxMemDepth : Nat := 64

def errNesting (depth : Nat) : String :=
  "Unrecognized { typ: \"formula nesting\", val: \"" ++ toString depth ++ "\" }"

/-- the loop of `xlsb parse_formula_nested(rgce, sheets, names, depth)`; PtgMemFunc (0x29/0x49/0x69) parses its
    `cce` bytes with a recursive call of the whole function (which returns `""` for an empty slice) one level
    deeper, and is an error at depth `maxMemDepth` (the recursion is on the Rust call stack) -/
def runXlsb (ctx : Ctx) (depth : Nat) : Nat → Bytes → St → Res St
  | _, [], st => .ok st
  | 0, _ :: _, _ => .outOfFuel
  | fuel + 1, p :: r, st =>
    if isMemFunc p.toNat then
      match need false r 2 with
      | .err e => .err e
      | .panic e => .panic e
      | .outOfFuel => .outOfFuel
      | .ok _ =>
      let cce := u16 r 0
      let r2 := r.drop 2
      match need false r2 cce with
      | .err e => .err e
      | .panic e => .panic e
      | .outOfFuel => .outOfFuel
      | .ok _ =>
      if depth ≥ maxMemDepth then .err (errNesting depth) else
      let sub := r2.take cce
      let inner : Res (List Char) :=
        if sub.isEmpty then .ok [] else
        match runXlsb ctx (depth + 1) fuel sub ⟨[], []⟩ with
        | .ok s => finishXlsb s
        | .err e => .err e
        | .panic e => .panic e
        | .outOfFuel => .outOfFuel
      match inner with
      | .ok f => runXlsb ctx depth fuel (r2.drop cce) ⟨st.buf ++ f, st.stk ++ [st.buf.length]⟩
      | .err e => .err e
      | .panic e => .panic e
      | .outOfFuel => .outOfFuel
    else
      match decodeXlsb ctx p.toNat r with
      | .ok (a, r') =>
        match applyAct a st with
        | .ok st' => runXlsb ctx depth fuel r' st'
        | .err e => .err e
        | .panic e => .panic e
        | .outOfFuel => .outOfFuel
      | .err e => .err e
      | .panic e => .panic e
      | .outOfFuel => .outOfFuel

/-- the deepest `depth` argument among this call and all the recursive calls it makes (same control flow as
    `runXlsb`): the number of `parse_formula_nested` frames on the Rust stack is this + 1 -/
def depthUsed (ctx : Ctx) (depth : Nat) : Nat → Bytes → St → Nat
  | _, [], _ => depth
  | 0, _ :: _, _ => depth
  | fuel + 1, p :: r, st =>
    if isMemFunc p.toNat then
      match need false r 2 with
      | .ok _ =>
        let cce := u16 r 0
        let r2 := r.drop 2
        match need false r2 cce with
        | .ok _ =>
          if depth ≥ maxMemDepth then depth else
          let sub := r2.take cce
          if sub.isEmpty then depthUsed ctx depth fuel (r2.drop cce) ⟨st.buf, st.stk ++ [st.buf.length]⟩
          else
            let dsub := depthUsed ctx (depth + 1) fuel sub ⟨[], []⟩
            match (match runXlsb ctx (depth + 1) fuel sub ⟨[], []⟩ with
                   | .ok s => finishXlsb s
                   | .err e => .err e
                   | .panic e => .panic e
                   | .outOfFuel => .outOfFuel) with
            | .ok f => max dsub (depthUsed ctx depth fuel (r2.drop cce) ⟨st.buf ++ f, st.stk ++ [st.buf.length]⟩)
            | _ => dsub
        | _ => depth
      | _ => depth
    else
      match decodeXlsb ctx p.toNat r with
      | .ok (a, r') =>
        match applyAct a st with
        | .ok st' => depthUsed ctx depth fuel r' st'
        | _ => depth
      | _ => depth

/-- `xlsb/mod.rs parse_formula(rgce, sheets, names)` -/
def parseFormulaXlsb (ctx : Ctx) (rgce : Bytes) : Res (List Char) :=
  if rgce.isEmpty then .ok [] else
  match runXlsb ctx 0 rgce.length rgce ⟨[], []⟩ with
  | .ok st => finishXlsb st
  | .err e => .err e
  | .panic e => .panic e
  | .outOfFuel => .outOfFuel

/-! ### `xls.rs parse_defined_names` (the Lbl formula: only a leading 3-D token is read) -/

/-- the token-size check of `parse_defined_names` (added by the robustness fix b5774ce; the pinned code
    slice-indexed and panicked): a formula shorter than its leading 3-D token is `XlsError::Len` -/
def needDn (b : Bytes) (n : Nat) : Res Unit := needLen "defined name formula" b n

/-- returns `(ixti, text)`; since f573698 (C16-e) the references are rendered by `push_cell_ref` like in
    `parse_formula`: column field masked, `$` only before absolute parts -/
def definedNameXls (rgce : Bytes) : Res (Option Nat × List Char) :=
  match rgce with
  | [] => .ok (none, "empty rgce".toList)
  | p :: _ =>
    let ptg := p.toNat
    match ptg with
    | 0x3a | 0x5a | 0x7a => do
      needDn rgce 7
      .ok (some (u16 rgce 1), cellRef (u16 rgce 3) (u16 rgce 5))
    | 0x3b | 0x5b | 0x7b => do
      needDn rgce 11
      .ok (some (u16 rgce 1), cellRef (u16 rgce 3) (u16 rgce 7) ++ ':' :: cellRef (u16 rgce 5) (u16 rgce 9))
    | 0x3c | 0x5c | 0x7c | 0x3d | 0x5d | 0x7d => do
      needDn rgce 3
      .ok (some (u16 rgce 1), "#REF!".toList)
    | _ => .ok (none, ("Unsupported ptg: " ++ String.ofList (Nat.toDigits 16 ptg)).toList)

end Ptg
